(* Proofs about the abstract dc stream model (model/DcStream.v): for every event list --
   every network oracle (which logged packet is delivered when, how often) and every schedule of
   application / sender / receiver / timer events. *)
From SQ Require Import lib.Base model.DcStream.
Import DcStream.

(* ------------------------------------------------------------------------------------------ *)
(* lists                                                                                        *)
(* ------------------------------------------------------------------------------------------ *)

Lemma nth_error_firstn_some {A} : forall n (l : list A) i b,
  nth_error (firstn n l) i = Some b -> nth_error l i = Some b.
Proof.
  induction n; intros l i b H.
  - destruct i; discriminate.
  - destruct l; [destruct i; discriminate|]. destruct i; simpl in *; auto.
Qed.

Lemma nth_error_skipn {A} : forall off (l : list A) i, nth_error (skipn off l) i = nth_error l (off + i).
Proof.
  induction off; intros l i; simpl; auto.
  destruct l; simpl; auto. destruct i; reflexivity.
Qed.

Lemma slice_nth : forall data off len i b,
  nth_error (slice data off len) i = Some b -> nth_error data (off + i) = Some b.
Proof.
  unfold slice. intros. apply nth_error_firstn_some in H. rewrite nth_error_skipn in H. exact H.
Qed.

Lemma slice_app : forall d e off len, off + len <= length d -> slice (d ++ e) off len = slice d off len.
Proof.
  intros. unfold slice. rewrite skipn_app.
  replace (off - length d) with 0 by lia. simpl.
  rewrite firstn_app. rewrite skipn_length.
  replace (len - (length d - off)) with 0 by lia. simpl. apply app_nil_r.
Qed.

Lemma nth_error_app_some {A} : forall (l e : list A) i b, nth_error l i = Some b -> nth_error (l ++ e) i = Some b.
Proof.
  intros. rewrite nth_error_app1; auto. apply nth_error_Some. congruence.
Qed.

Lemma prefix_same_length : forall (a b : list N), is_prefix a b -> length a = length b -> a = b.
Proof.
  intros a b [c ->] H. rewrite app_length in H. destruct c; [symmetry; apply app_nil_r | simpl in H; lia].
Qed.

Lemma prefix_app_full : forall (a g b : list N), a = b -> is_prefix (a ++ g) b -> a ++ g = b.
Proof.
  intros a g b -> [c Hc]. apply prefix_same_length; [exists c; exact Hc|].
  apply (f_equal (@length N)) in Hc. rewrite !app_length in Hc. rewrite app_length. lia.
Qed.

(* ------------------------------------------------------------------------------------------ *)
(* timers                                                                                       *)
(* ------------------------------------------------------------------------------------------ *)

Definition tm_ok (tm : timer) : Prop :=
  (0 < t_idle tm)%N /\
  match t_err tm with
  | None => t_off tm = false -> (t_now tm < t_last tm + t_idle tm)%N
  | Some (_, te) => (te <= t_last tm + t_idle tm)%N
  end.

Lemma tm_live_spec : forall tm, tm_live tm = true <-> t_off tm = false /\ t_err tm = None.
Proof.
  intros [n l i o e]; unfold tm_live; simpl. destruct o, e; simpl; intuition congruence.
Qed.

Lemma tm_ok_init : forall idle, (0 < idle)%N -> tm_ok (tm_init idle).
Proof. intros. unfold tm_ok, tm_init; simpl. split; auto; intros; lia. Qed.

Lemma tm_ok_advance : forall tm t, tm_ok tm -> tm_ok (tm_advance tm t).
Proof.
  intros tm t [Hi H]. unfold tm_advance.
  destruct (tm_live tm) eqn:L; simpl.
  - apply tm_live_spec in L. destruct L as [Lo Le]. rewrite Le in H. specialize (H Lo).
    destruct (N.leb_spec (t_last tm + t_idle tm) (N.max (t_now tm) t)); unfold tm_ok; simpl; split; auto.
    + lia.
    + rewrite Le. intros _. lia.
  - unfold tm_ok; simpl. split; auto. destruct (t_err tm) as [[k te]|] eqn:Ee; auto.
    intros Ho. exfalso. assert (tm_live tm = true) by (apply tm_live_spec; auto). congruence.
Qed.

Lemma tm_ok_activity : forall tm, tm_ok tm -> tm_ok (tm_activity tm).
Proof.
  intros tm [Hi H]. unfold tm_activity. destruct (tm_live tm) eqn:L; [|split; auto].
  apply tm_live_spec in L. destruct L as [Lo Le]. unfold tm_ok; simpl. split; auto.
  rewrite Le. intros _. lia.
Qed.

Lemma tm_ok_fail : forall tm k, tm_ok tm -> tm_ok (tm_fail tm k).
Proof.
  intros tm k [Hi H]. unfold tm_fail. destruct (tm_live tm) eqn:L; [|split; auto].
  apply tm_live_spec in L. destruct L as [Lo Le]. rewrite Le in H. specialize (H Lo).
  unfold tm_ok; simpl. split; auto. lia.
Qed.

Lemma tm_ok_finish : forall tm, tm_ok tm -> tm_ok (tm_finish tm).
Proof.
  intros tm [Hi H]. unfold tm_finish. destruct (tm_live tm) eqn:L; [|split; auto].
  apply tm_live_spec in L. destruct L as [Lo Le]. unfold tm_ok; simpl. split; auto.
  rewrite Le. discriminate.
Qed.

Lemma idle_advance : forall tm t, t_idle (tm_advance tm t) = t_idle tm.
Proof. intros. unfold tm_advance. destruct (_ && _); reflexivity. Qed.
Lemma idle_activity : forall tm, t_idle (tm_activity tm) = t_idle tm.
Proof. intros. unfold tm_activity. destruct (tm_live tm); reflexivity. Qed.
Lemma idle_fail : forall tm k, t_idle (tm_fail tm k) = t_idle tm.
Proof. intros. unfold tm_fail. destruct (tm_live tm); reflexivity. Qed.
Lemma idle_finish : forall tm, t_idle (tm_finish tm) = t_idle tm.
Proof. intros. unfold tm_finish. destruct (tm_live tm); reflexivity. Qed.
Lemma last_advance : forall tm t, t_last (tm_advance tm t) = t_last tm.
Proof. intros. unfold tm_advance. destruct (_ && _); reflexivity. Qed.
Lemma last_fail : forall tm k, t_last (tm_fail tm k) = t_last tm.
Proof. intros. unfold tm_fail. destruct (tm_live tm); reflexivity. Qed.
Lemma last_finish : forall tm, t_last (tm_finish tm) = t_last tm.
Proof. intros. unfold tm_finish. destruct (tm_live tm); reflexivity. Qed.

(* the timer statement: no activity after T and time has reached T + idle => finished or failed in time *)
Lemma tm_deadline : forall tm T,
  tm_ok tm -> (t_last tm <= T)%N -> (T + t_idle tm <= t_now tm)%N ->
  t_off tm = true \/ exists k te, t_err tm = Some (k, te) /\ (te <= T + t_idle tm)%N.
Proof.
  intros tm T [Hi H] Hl Hn. destruct (t_err tm) as [[k te]|] eqn:E.
  - right. exists k, te. split; auto. lia.
  - destruct (t_off tm) eqn:O; auto. specialize (H eq_refl). lia.
Qed.

(* ------------------------------------------------------------------------------------------ *)
(* the safety invariant                                                                         *)
(* ------------------------------------------------------------------------------------------ *)

Definition seg_end (sg : seg) : nat := s_off sg + s_len sg.

Definition pkt_ok (data : list N) (closed : bool) (p : pkt) : Prop :=
  p_end p <= length data /\
  p_bytes p = slice data (s_off (p_seg p)) (s_len (p_seg p)) /\
  (s_fin (p_seg p) = true -> closed = true /\ p_end p = length data).

Definition seg_ok (data : list N) (closed : bool) (next_off : nat) (sg : seg) : Prop :=
  seg_end sg <= next_off /\
  (s_fin sg = true -> closed = true /\ seg_end sg = length data).

Definition buf_ok (data : list N) (m : list (nat * N)) : Prop :=
  forall o b, lookup o m = Some b -> nth_error data o = Some b.

Record Inv (w : world) : Prop := mkInv {
  i_net : Forall (pkt_ok (sd_data (w_s w)) (sd_closed (w_s w))) (w_net w);
  i_off : sd_next_off (w_s w) <= length (sd_data (w_s w));
  i_buf : buf_ok (sd_data (w_s w)) (rc_buf (w_r w));
  i_read : is_prefix (rc_read (w_r w)) (sd_data (w_s w));
  i_final : forall f, rc_final (w_r w) = Some f -> sd_closed (w_s w) = true /\ f = length (sd_data (w_s w));
  i_eof : rc_eof (w_r w) = true -> sd_closed (w_s w) = true /\ rc_read (w_r w) = sd_data (w_s w);
  i_segs : Forall (seg_ok (sd_data (w_s w)) (sd_closed (w_s w)) (sd_next_off (w_s w)))
                  (map snd (sd_inflight (w_s w)) ++ sd_retx (w_s w));
  i_netoff : Forall (fun p => p_end p <= sd_next_off (w_s w)) (w_net w);
  i_md : sd_next_off (w_s w) <= sd_max_data (w_s w);
  i_lim : Forall (fun p => p_retx p = false -> 0 < s_len (p_seg p) -> p_end p <= p_limit p) (w_net w);
  i_stm : tm_ok (sd_tm (w_s w));
  i_rtm : tm_ok (rc_tm (w_r w))
}.

Lemma pkt_ok_app : forall data bs p, pkt_ok data false p -> pkt_ok (data ++ bs) false p.
Proof.
  intros data bs p (H1 & H2 & H3). repeat split.
  - rewrite app_length. lia.
  - rewrite slice_app; auto.
  - destruct (H3 H) as [? _]. discriminate.
  - destruct (H3 H) as [? _]. discriminate.
Qed.

Lemma buf_write_ok : forall data bs m off,
  buf_ok data m ->
  (forall i b, nth_error bs i = Some b -> nth_error data (off + i) = Some b) ->
  buf_ok data (buf_write m off bs).
Proof.
  induction bs as [|x t IH]; intros m off Hm Hb; simpl; auto.
  apply IH.
  - destruct (lookup off m) eqn:L; auto.
    intros o b. simpl. destruct (Nat.eqb_spec off o).
    + intros [= <-]. subst. specialize (Hb 0 x eq_refl). rewrite Nat.add_0_r in Hb. exact Hb.
    + apply Hm.
  - intros i b Hi. specialize (Hb (S i) b Hi). replace (S off + i) with (off + S i) by lia. exact Hb.
Qed.

Lemma contig_prefix : forall data m, buf_ok data m -> forall k pre,
  is_prefix pre data -> is_prefix (pre ++ contig m (length pre) k) data.
Proof.
  intros data m Hm. induction k as [|k IH]; intros pre Hp; simpl.
  - rewrite app_nil_r. exact Hp.
  - destruct (lookup (length pre) m) eqn:L.
    + apply Hm in L. destruct Hp as [c ->].
      rewrite nth_error_app2 in L by lia. rewrite Nat.sub_diag in L.
      destruct c as [|y c]; [discriminate|]. simpl in L. injection L as ->.
      specialize (IH (pre ++ [n])). rewrite app_length in IH. simpl in IH.
      replace (length pre + 1) with (S (length pre)) in IH by lia.
      replace (pre ++ n :: contig m (S (length pre)) k) with ((pre ++ [n]) ++ contig m (S (length pre)) k)
        by (rewrite <- app_assoc; reflexivity).
      apply IH. exists c. rewrite <- app_assoc. reflexivity.
    + rewrite app_nil_r. exact Hp.
Qed.

Lemma Inv_init : forall c, (0 < c_idle c)%N -> Inv (init c).
Proof.
  intros c Hi. constructor; simpl; auto using tm_ok_init; try lia; try (intros; discriminate).
  exists []. reflexivity.
Qed.

Lemma take_pn_spec : forall pn l r rest, take_pn pn l = (r, rest) ->
  (forall sg, r = Some sg -> In sg (map snd l)) /\ (forall x, In x (map snd rest) -> In x (map snd l)).
Proof.
  induction l as [|[q sg] t IH]; intros r rest H; simpl in H.
  - injection H as <- <-. split; [discriminate | auto].
  - destruct (N.eqb_spec q pn).
    + injection H as <- <-. split; simpl; auto. intros ? [= <-]. auto.
    + destruct (take_pn pn t) as [r' t'] eqn:E. injection H as <- <-.
      destruct (IH _ _ eq_refl) as [A B]. split; simpl.
      * intros ? Hr. right. auto.
      * intros x [<-|Hx]; auto.
Qed.

Lemma ack_all_sub : forall pns infl acked infl' acked',
  ack_all pns infl acked = (infl', acked') -> forall x, In x (map snd infl') -> In x (map snd infl).
Proof.
  induction pns as [|pn t IH]; intros infl acked infl' acked' H x Hx; simpl in H.
  - injection H as <- <-. exact Hx.
  - destruct (take_pn pn infl) as [[sg|] rest] eqn:E.
    + apply (proj2 (take_pn_spec _ _ _ _ E)). eapply IH; eauto.
    + eapply IH; eauto.
Qed.

Lemma Forall_app_inv {A} (P : A -> Prop) : forall l1 l2, Forall P (l1 ++ l2) -> Forall P l1 /\ Forall P l2.
Proof. intros. apply Forall_app. exact H. Qed.

Lemma s_transmit_cases : forall s k s' op, s_transmit s k = (s', op) ->
  (s' = s /\ op = None) \/
  exists len fin,
    len <= length (sd_data s) - sd_next_off s /\
    (0 < len -> sd_next_off s + len <= flow_offset s) /\
    fin = (sd_closed s && (sd_next_off s + len =? length (sd_data s))) /\
    op = Some (mkPkt (sd_next_pn s) (mkSeg (sd_next_off s) len fin) (slice (sd_data s) (sd_next_off s) len) false (flow_offset s)) /\
    s' = mkS (sd_data s) (sd_closed s) (sd_next_pn s + 1)%N (sd_next_off s + len) (sd_fin_sent s || fin)
             ((sd_next_pn s, mkSeg (sd_next_off s) len fin) :: sd_inflight s) (sd_retx s) (sd_acked s)
             (sd_max_data s) (sd_local_win s) (sd_cwnd s - len) (sd_tm s).
Proof.
  intros s k s' op H. unfold s_transmit in H.
  destruct (negb (tm_live (sd_tm s))); [injection H as <- <-; auto|].
  match type of H with context [if ?c then _ else _] => destruct c end; [injection H as <- <-; auto|].
  right. injection H as <- <-. eexists _, _. repeat split; try reflexivity; lia.
Qed.

Lemma flow_offset_le_max_data : forall s, flow_offset s <= sd_max_data s.
Proof. intros. unfold flow_offset. lia. Qed.

Lemma seg_ok_weaken : forall data closed n n' sg, n <= n' -> seg_ok data closed n sg -> seg_ok data closed n' sg.
Proof. intros ? ? ? ? ? Hn [H1 H2]. split; auto. lia. Qed.

Lemma take_pn_Forall : forall (P : seg -> Prop) pn l r rest, take_pn pn l = (r, rest) ->
  Forall P (map snd l) -> Forall P (map snd rest) /\ (forall sg, r = Some sg -> P sg).
Proof.
  intros P pn l r rest H F. destruct (take_pn_spec _ _ _ _ H) as [A B].
  rewrite Forall_forall in F. split.
  - apply Forall_forall. intros x Hx. apply F. apply B. exact Hx.
  - intros sg Hr. apply F. apply A. exact Hr.
Qed.

Lemma ack_all_Forall : forall (P : seg -> Prop) pns infl acked infl' acked',
  ack_all pns infl acked = (infl', acked') -> Forall P (map snd infl) -> Forall P (map snd infl').
Proof.
  intros P pns infl acked infl' acked' H F. rewrite Forall_forall in *.
  intros x Hx. apply F. eapply ack_all_sub; eauto.
Qed.

Lemma Inv_step : forall w e, Inv w -> Inv (step w e).
Proof.
  intros w e I. destruct I as [Inet Ioff Ibuf Iread Ifinal Ieof Isegs Inetoff Imd Ilim Istm Irtm].
  destruct e; simpl.
  - (* AppWrite *)
    unfold s_write. destruct (sd_closed (w_s w)) eqn:C; simpl; [constructor; simpl; try rewrite C; auto|].
    destruct (tm_live (sd_tm (w_s w))); simpl; [|constructor; simpl; try rewrite C; auto].
    constructor; simpl; auto.
    + eapply Forall_impl; [|exact Inet]. intros p Hp. apply pkt_ok_app. exact Hp.
    + rewrite app_length. lia.
    + intros o b H. apply nth_error_app_some. apply Ibuf. exact H.
    + destruct Iread as [c ->]. exists (c ++ bs). rewrite app_assoc. reflexivity.
    + intros f H. destruct (Ifinal f H). congruence.
    + intros H. destruct (Ieof H). congruence.
    + eapply Forall_impl; [|exact Isegs]. intros sg [H1 H2]. split; auto.
      intros F. destruct (H2 F). discriminate.
  - (* AppShutdown *)
    unfold s_shutdown. destruct (tm_live (sd_tm (w_s w))); simpl; [|constructor; auto].
    constructor; simpl; auto.
    + eapply Forall_impl; [|exact Inet]. intros p (H1 & H2 & H3). repeat split; auto; apply H3; auto.
    + intros f H. destruct (Ifinal f H). auto.
    + intros H. destruct (Ieof H). auto.
    + eapply Forall_impl; [|exact Isegs]. intros sg [H1 H2]. split; auto.
      intros F. destruct (H2 F). auto.
  - (* Transmit *)
    destruct (s_transmit (w_s w) k) as [s' op] eqn:E.
    destruct (s_transmit_cases _ _ _ _ E) as [[-> ->]|(len & fin & Hlen & Hflow & Hfin & -> & ->)];
      unfold emit; simpl; [constructor; auto|].
    assert (Hfin' : fin = true -> sd_closed (w_s w) = true /\ sd_next_off (w_s w) + len = length (sd_data (w_s w))).
    { intros F. rewrite Hfin in F. apply andb_prop in F. destruct F as [F1 F2].
      apply Nat.eqb_eq in F2. auto. }
    constructor; simpl; auto.
    + apply Forall_app. split; auto. constructor; auto. repeat split; simpl.
      * unfold p_end; simpl. lia.
      * apply Hfin'; auto.
      * unfold p_end; simpl. apply Hfin'; auto.
    + lia.
    + constructor.
      * split; [unfold seg_end; simpl; lia|]. simpl. unfold seg_end; simpl. exact Hfin'.
      * eapply Forall_impl; [|exact Isegs]. intros sg. apply seg_ok_weaken. lia.
    + apply Forall_app. split.
      * eapply Forall_impl; [|exact Inetoff]. simpl. intros. lia.
      * constructor; auto; unfold p_end; simpl; lia.
    + destruct (Nat.eq_dec len 0) as [->|Hne]; [lia|].
      pose proof (flow_offset_le_max_data (w_s w)). lia.
    + apply Forall_app; split; auto; constructor; auto; simpl; unfold p_end; simpl; intros; auto.
  - (* Retransmit *)
    unfold s_retransmit. destruct (negb (tm_live (sd_tm (w_s w)))); unfold emit; simpl; [constructor; auto|].
    destruct (sd_retx (w_s w)) as [|sg rest] eqn:R; simpl; [constructor; simpl; try rewrite R; auto|].
    apply Forall_app_inv in Isegs. destruct Isegs as [Is1 Is2].
    inversion Is2 as [|? ? [Hsg Hsf] Hrest]; subst.
    constructor; simpl; auto.
    + apply Forall_app. split; auto. constructor; auto. repeat split; simpl.
      * unfold p_end, seg_end in *; simpl; lia.
      * apply Hsf; auto.
      * unfold p_end; simpl. apply Hsf; auto.
    + constructor; [split; auto | apply Forall_app; split; auto].
    + apply Forall_app; split; auto.
    + apply Forall_app; split; auto; constructor; auto; simpl; discriminate.
  - (* Lose *)
    unfold s_lose. destruct (negb (tm_live (sd_tm (w_s w)))); simpl; [constructor; auto|].
    destruct (take_pn pn (sd_inflight (w_s w))) as [[sg|] rest] eqn:E; simpl; [|constructor; auto].
    apply Forall_app_inv in Isegs. destruct Isegs as [Is1 Is2].
    destruct (take_pn_Forall _ _ _ _ _ E Is1) as [A B].
    constructor; simpl; auto.
    apply Forall_app. split; auto. apply Forall_app. split; auto.
  - (* Cwnd *)
    constructor; simpl; auto.
  - (* Deliver *)
    destruct (nth_error (w_net w) i) as [p|] eqn:E; [|constructor; auto].
    assert (Hp : pkt_ok (sd_data (w_s w)) (sd_closed (w_s w)) p).
    { rewrite Forall_forall in Inet. apply Inet. eapply nth_error_In; eauto. }
    unfold r_on_pkt. destruct (negb _); simpl; [constructor; auto|].
    destruct (mem_N (p_pn p) (rc_seen (w_r w))); simpl; [constructor; auto|].
    destruct Hp as (H1 & H2 & H3).
    constructor; simpl; auto using tm_ok_activity.
    + apply buf_write_ok; auto. intros j b Hj. rewrite H2 in Hj. apply slice_nth in Hj. exact Hj.
    + intros f Hf. destruct (s_fin (p_seg p)) eqn:F; [|auto].
      injection Hf as <-. apply H3; auto.
  - (* EmitAck *)
    destruct (_ && _); constructor; auto.
  - (* DeliverAck *)
    destruct (nth_error (w_ctl w) j) as [c|]; [|constructor; auto].
    unfold s_on_ctl. destruct (negb (tm_live (sd_tm (w_s w)))); simpl; [constructor; auto|].
    destruct (ack_all (fst c) (sd_inflight (w_s w)) (sd_acked (w_s w))) as [infl acked] eqn:E. simpl.
    apply Forall_app_inv in Isegs. destruct Isegs as [Is1 Is2].
    constructor; simpl; auto.
    + apply Forall_app. split; auto. eapply ack_all_Forall; eauto.
    + lia.
    + destruct (all_acked _ _ _); auto using tm_ok_activity, tm_ok_finish.
  - (* DeliverReject *)
    destruct (_ && _); constructor; simpl; auto using tm_ok_fail.
  - (* AppRead *)
    unfold r_read. destruct (negb _); simpl; [constructor; auto|].
    pose proof (contig_prefix _ _ Ibuf k _ Iread) as Hpre.
    constructor; simpl; auto.
    + intros H. apply orb_prop in H. destruct H as [H|H]; [destruct (Ieof H) as [A B]|].
      * split; auto. apply prefix_app_full; auto.
      * destruct (rc_final (w_r w)) as [f|] eqn:F; [|discriminate].
        destruct (Ifinal f eq_refl) as [A B]. split; auto.
        apply Nat.eqb_eq in H. apply prefix_same_length; auto. lia.
    + destruct (match rc_final (w_r w) with Some f => _ | None => false end); auto using tm_ok_finish.
  - (* Tick *)
    constructor; simpl; auto using tm_ok_advance.
  - (* Vanish *)
    constructor; simpl; auto.
  - (* ForgetSecret *)
    constructor; simpl; auto.
Qed.

Lemma Inv_run_from : forall evs w, Inv w -> Inv (run_from w evs).
Proof. induction evs; simpl; auto using Inv_step. Qed.

Lemma Inv_run : forall c evs, (0 < c_idle c)%N -> Inv (run c evs).
Proof. intros. apply Inv_run_from. apply Inv_init. assumption. Qed.

(* ------------------------------------------------------------------------------------------ *)
(* the named theorems                                                                           *)
(* ------------------------------------------------------------------------------------------ *)

(* bytes read are a prefix of the bytes written, and equal to them once EOF has been seen --
   for every oracle and schedule, whether or not an error was also reported *)
Theorem dc_exact : forall c evs, (0 < c_idle c)%N ->
  let w := run c evs in
  is_prefix (read w) (written w) /\ (eof w -> read w = written w /\ sd_closed (w_s w) = true).
Proof.
  intros c evs Hi w. destruct (Inv_run c evs Hi) as [_ _ _ Iread _ Ieof _ _ _ _ _ _].
  split; [exact Iread|]. intros H. destruct (Ieof H). auto.
Qed.

(* the statement of DESIGN.md 5.20 *)
Theorem dc_exact_or_error : forall c evs, (0 < c_idle c)%N ->
  let w := run c evs in
  (is_prefix (read w) (written w) /\ (eof w -> read w = written w)) \/ error_reported w.
Proof.
  intros c evs Hi w. left. destruct (dc_exact c evs Hi) as [A B]. split; auto.
  intros H. apply B. exact H.
Qed.

(* every packet on the wire carries exactly the written bytes of its range; in particular a
   retransmission carries the bytes originally sent for that range *)
Theorem dc_packets_carry_written_bytes : forall c evs, (0 < c_idle c)%N ->
  let w := run c evs in
  Forall (fun p => p_bytes p = slice (written w) (s_off (p_seg p)) (s_len (p_seg p)) /\
                   p_end p <= length (written w)) (w_net w).
Proof.
  intros c evs Hi w. destruct (Inv_run c evs Hi) as [Inet _ _ _ _ _ _ _ _ _ _ _].
  eapply Forall_impl; [|exact Inet]. intros p (H1 & H2 & _). auto.
Qed.

Theorem dc_retransmission_same_bytes : forall c evs p q, (0 < c_idle c)%N ->
  let w := run c evs in
  In p (w_net w) -> In q (w_net w) ->
  s_off (p_seg p) = s_off (p_seg q) -> s_len (p_seg p) = s_len (p_seg q) -> p_bytes p = p_bytes q.
Proof.
  intros c evs p q Hi w Hp Hq Ho Hl.
  pose proof (dc_packets_carry_written_bytes c evs Hi) as F. rewrite Forall_forall in F.
  destruct (F p Hp) as [-> _]. destruct (F q Hq) as [-> _]. rewrite Ho, Hl. reflexivity.
Qed.

(* flow control, per transmission: a segment with new bytes ends at or below flow_offset(), which is
   the minimum of the congestion credit, the local window and the peer's max_data *)
Theorem transmit_within_flow_offset : forall s k s' p,
  s_transmit s k = (s', Some p) -> 0 < s_len (p_seg p) ->
  p_end p <= flow_offset s /\
  flow_offset s <= sd_max_data s /\
  flow_offset s <= una s + sd_local_win s /\
  flow_offset s <= sd_next_off s + sd_cwnd s.
Proof.
  intros s k s' p H Hl.
  destruct (s_transmit_cases _ _ _ _ H) as [[_ ?]|(len & fin & _ & Hflow & _ & Hp & _)]; [discriminate|].
  injection Hp as ->. simpl in *. unfold p_end; simpl. split; [auto|].
  unfold flow_offset. destruct (sd_retx s); lia.
Qed.

(* flow control, over the whole history: nothing on the wire lies beyond the window the peer granted,
   and every first transmission was within the flow offset computed when it was sent *)
Theorem dc_flow_offset : forall c evs, (0 < c_idle c)%N ->
  let w := run c evs in
  Forall (fun p => p_end p <= sd_max_data (w_s w) /\
                   (p_retx p = false -> 0 < s_len (p_seg p) -> p_end p <= p_limit p)) (w_net w).
Proof.
  intros c evs Hi. cbv zeta. destruct (Inv_run c evs Hi) as [_ _ _ _ _ _ _ Inetoff Imd Ilim _ _].
  rewrite Forall_forall in *. intros p Hp. split; [specialize (Inetoff p Hp); lia|].
  apply Ilim. exact Hp.
Qed.

(* the ghost field really is flow_offset() of the sender at that moment *)
Theorem p_limit_is_flow_offset : forall s k s' p,
  s_transmit s k = (s', Some p) -> p_limit p = flow_offset s /\ p_retx p = false.
Proof.
  intros s k s' p H.
  destruct (s_transmit_cases _ _ _ _ H) as [[_ ?]|(len & fin & _ & _ & _ & Hp & _)]; [discriminate|].
  injection Hp as ->. auto.
Qed.

(* ---- idle timeout ---- *)

Definition quiet_s (e : ev) : bool := match e with DeliverAck _ => false | _ => true end.
Definition quiet_r (e : ev) : bool := match e with Deliver _ => false | _ => true end.

Lemma s_tm_write : forall s bs, sd_tm (s_write s bs) = sd_tm s.
Proof. intros. unfold s_write. destruct (_ || _); reflexivity. Qed.
Lemma s_tm_shutdown : forall s, sd_tm (s_shutdown s) = sd_tm s.
Proof. intros. unfold s_shutdown. destruct (negb _); reflexivity. Qed.
Lemma s_tm_transmit : forall s k, sd_tm (fst (s_transmit s k)) = sd_tm s.
Proof.
  intros. destruct (s_transmit s k) as [s' op] eqn:E.
  destruct (s_transmit_cases _ _ _ _ E) as [[-> _]|(? & ? & _ & _ & _ & _ & ->)]; reflexivity.
Qed.
Lemma s_tm_retransmit : forall s, sd_tm (fst (s_retransmit s)) = sd_tm s.
Proof. intros. unfold s_retransmit. destruct (negb _); auto. destruct (sd_retx s); reflexivity. Qed.
Lemma s_tm_lose : forall s pn, sd_tm (s_lose s pn) = sd_tm s.
Proof.
  intros. unfold s_lose. destruct (negb _); auto.
  destruct (take_pn pn (sd_inflight s)) as [[?|] ?]; reflexivity.
Qed.
Lemma emit_s : forall w sp, w_s (emit w sp) = fst sp.
Proof. intros. unfold emit. destruct (snd sp); reflexivity. Qed.
Lemma emit_r : forall w sp, w_r (emit w sp) = w_r w.
Proof. intros. unfold emit. destruct (snd sp); reflexivity. Qed.

Lemma step_s_idle : forall w e, t_idle (sd_tm (w_s (step w e))) = t_idle (sd_tm (w_s w)).
Proof.
  intros w e. destruct e; simpl; rewrite ?emit_s, ?s_tm_write, ?s_tm_shutdown, ?s_tm_transmit,
    ?s_tm_retransmit, ?s_tm_lose, ?idle_advance; auto.
  - destruct (nth_error _ _); reflexivity.
  - destruct (_ && _); reflexivity.
  - destruct (nth_error _ _) as [c|]; auto. simpl. unfold s_on_ctl.
    destruct (negb _); auto. destruct (ack_all _ _ _). simpl.
    destruct (all_acked _ _ _); rewrite ?idle_finish, idle_activity; reflexivity.
  - destruct (_ && _); simpl; rewrite ?idle_fail; reflexivity.
Qed.

Lemma step_r_idle : forall w e, t_idle (rc_tm (w_r (step w e))) = t_idle (rc_tm (w_r w)).
Proof.
  intros w e. destruct e; simpl; rewrite ?emit_r, ?idle_advance; auto.
  - destruct (nth_error _ _) as [p|]; auto. simpl. unfold r_on_pkt.
    destruct (negb _); auto. destruct (mem_N _ _); auto. simpl. apply idle_activity.
  - destruct (_ && _); reflexivity.
  - destruct (nth_error _ _); reflexivity.
  - destruct (_ && _); reflexivity.
  - unfold r_read. destruct (negb _); auto. simpl.
    destruct (match rc_final (w_r w) with Some _ => _ | None => _ end); rewrite ?idle_finish; reflexivity.
Qed.

Lemma step_s_last_quiet : forall w e, quiet_s e = true ->
  t_last (sd_tm (w_s (step w e))) = t_last (sd_tm (w_s w)).
Proof.
  intros w e Q. destruct e; simpl in *; try discriminate;
    rewrite ?emit_s, ?s_tm_write, ?s_tm_shutdown, ?s_tm_transmit, ?s_tm_retransmit, ?s_tm_lose,
      ?last_advance; auto.
  - destruct (nth_error _ _); reflexivity.
  - destruct (_ && _); reflexivity.
  - destruct (_ && _); simpl; rewrite ?last_fail; reflexivity.
Qed.

Lemma step_r_last_quiet : forall w e, quiet_r e = true ->
  t_last (rc_tm (w_r (step w e))) = t_last (rc_tm (w_r w)).
Proof.
  intros w e Q. destruct e; simpl in *; try discriminate; rewrite ?emit_r, ?last_advance; auto.
  - destruct (_ && _); reflexivity.
  - destruct (nth_error _ _); reflexivity.
  - destruct (_ && _); reflexivity.
  - unfold r_read. destruct (negb _); auto. simpl.
    destruct (match rc_final (w_r w) with Some _ => _ | None => _ end); rewrite ?last_finish; reflexivity.
Qed.

Lemma run_from_s_idle : forall evs w, t_idle (sd_tm (w_s (run_from w evs))) = t_idle (sd_tm (w_s w)).
Proof. induction evs; simpl; intros; auto. rewrite IHevs. apply step_s_idle. Qed.
Lemma run_from_r_idle : forall evs w, t_idle (rc_tm (w_r (run_from w evs))) = t_idle (rc_tm (w_r w)).
Proof. induction evs; simpl; intros; auto. rewrite IHevs. apply step_r_idle. Qed.

Lemma run_from_s_last : forall evs w, forallb quiet_s evs = true ->
  t_last (sd_tm (w_s (run_from w evs))) = t_last (sd_tm (w_s w)).
Proof.
  induction evs; simpl; intros; auto. apply andb_prop in H. destruct H.
  rewrite IHevs; auto. apply step_s_last_quiet. auto.
Qed.
Lemma run_from_r_last : forall evs w, forallb quiet_r evs = true ->
  t_last (rc_tm (w_r (run_from w evs))) = t_last (rc_tm (w_r w)).
Proof.
  induction evs; simpl; intros; auto. apply andb_prop in H. destruct H.
  rewrite IHevs; auto. apply step_r_last_quiet. auto.
Qed.

(* Sender half.  After any history evs1, let T bound the time of the last control packet the sender
   processed.  If no control packet is processed afterwards (the peer vanished, or it no longer knows
   the secret and so never acknowledges anything) -- whatever else happens: application writes,
   transmissions, retransmissions, loss declarations, rejections, time -- then as soon as virtual
   time has reached T + idle_timeout (fairness hypothesis: time advances; the runtime wakes the stream
   at its armed timer, which is how [Tick] is defined) the half has either finished already (everything
   acknowledged) or reports an error whose time stamp is at most T + idle_timeout. *)
Theorem dc_fails_within_idle : forall c evs1 evs2 T, (0 < c_idle c)%N ->
  let w1 := run c evs1 in
  let w2 := run_from w1 evs2 in
  (t_last (sd_tm (w_s w1)) <= T)%N ->
  forallb quiet_s evs2 = true ->
  (T + c_idle c <= t_now (sd_tm (w_s w2)))%N ->
  t_off (sd_tm (w_s w2)) = true \/
  exists k te, t_err (sd_tm (w_s w2)) = Some (k, te) /\ (te <= T + c_idle c)%N.
Proof.
  intros c evs1 evs2 T Hi w1 w2 HT HQ Hnow.
  assert (I2 : Inv w2) by (apply Inv_run_from; apply Inv_run; auto).
  assert (Hidle : t_idle (sd_tm (w_s w2)) = c_idle c).
  { unfold w2, w1, run. rewrite !run_from_s_idle. reflexivity. }
  assert (Hlast : t_last (sd_tm (w_s w2)) = t_last (sd_tm (w_s w1))) by (apply run_from_s_last; auto).
  pose proof (tm_deadline (sd_tm (w_s w2)) T (i_stm _ I2)) as D.
  rewrite Hidle, Hlast in D. apply D; auto.
Qed.

(* Receiver half: the same with "no new stream packet is processed after T"; here the half may also
   have finished by reading everything up to the final size *)
Theorem dc_fails_within_idle_recv : forall c evs1 evs2 T, (0 < c_idle c)%N ->
  let w1 := run c evs1 in
  let w2 := run_from w1 evs2 in
  (t_last (rc_tm (w_r w1)) <= T)%N ->
  forallb quiet_r evs2 = true ->
  (T + c_idle c <= t_now (rc_tm (w_r w2)))%N ->
  t_off (rc_tm (w_r w2)) = true \/
  exists k te, t_err (rc_tm (w_r w2)) = Some (k, te) /\ (te <= T + c_idle c)%N.
Proof.
  intros c evs1 evs2 T Hi w1 w2 HT HQ Hnow.
  assert (I2 : Inv w2) by (apply Inv_run_from; apply Inv_run; auto).
  assert (Hidle : t_idle (rc_tm (w_r w2)) = c_idle c).
  { unfold w2, w1, run. rewrite !run_from_r_idle. reflexivity. }
  assert (Hlast : t_last (rc_tm (w_r w2)) = t_last (rc_tm (w_r w1))) by (apply run_from_r_last; auto).
  pose proof (tm_deadline (rc_tm (w_r w2)) T (i_rtm _ I2)) as D.
  rewrite Hidle, Hlast in D. apply D; auto.
Qed.

(* a receiver that has vanished or forgotten the secret processes nothing: every delivery is a no-op,
   so the hypothesis of dc_fails_within_idle (no acknowledgement of anything sent afterwards) is met
   by the model's own receiver *)
Theorem dead_receiver_ignores_packets : forall r p,
  rc_alive r = false \/ rc_secret r = false -> r_on_pkt r p = r.
Proof.
  intros r p [H|H]; unfold r_on_pkt; rewrite H; simpl; rewrite ?andb_false_r; reflexivity.
Qed.

(* ------------------------------------------------------------------------------------------ *)
(* the monitor                                                                                  *)
(* ------------------------------------------------------------------------------------------ *)

Ltac split_andb := repeat match goal with X : (_ && _) = true |- _ => apply andb_prop in X; destruct X end.
Ltac conv_cmp := repeat match goal with
  | X : (_ =? _)%Z = true |- _ => apply Z.eqb_eq in X
  | X : (_ <=? _)%Z = true |- _ => apply Z.leb_le in X
  | X : (_ <? _)%Z = true |- _ => apply Z.ltb_lt in X
  end.

Section Monitor.
  (* the position-keyed payload of one direction (a function of direction, offset and seed in the
     harness); the harness reports d_correct = 1 exactly when the i-th byte read was [pay i] for all i *)
  Variable pay : nat -> N.
  Definition bytes_upto (n : Z) : list N := map pay (seq 0 (Z.to_nat n)).

  Lemma bytes_upto_prefix : forall r w, (0 <= r <= w)%Z -> is_prefix (bytes_upto r) (bytes_upto w).
  Proof.
    intros r w H. unfold bytes_upto, is_prefix.
    exists (map pay (seq (Z.to_nat r) (Z.to_nat w - Z.to_nat r))).
    rewrite <- map_app. f_equal.
    replace (Z.to_nat w) with (Z.to_nat r + (Z.to_nat w - Z.to_nat r)) at 1 by lia.
    rewrite seq_app. reflexivity.
  Qed.

  Record dir_meaning (d : dobs) : Prop := mkDM {
    dm_correct : d_correct d = 1%Z /\ d_bad d = (-1)%Z;
    dm_prefix : is_prefix (bytes_upto (d_read d)) (bytes_upto (d_written d));
    dm_eof : d_eof d = 1%Z -> bytes_upto (d_read d) = bytes_upto (d_written d) /\ d_rerr d = 0%Z;
    dm_err : d_eof d <> 1%Z -> d_stopped d = 1%Z \/ d_rerr d <> 0%Z \/ d_rstarted d = 0%Z \/ d_rpend d = 1%Z
  }.

  Lemma dir_ok_sound : forall d, dir_ok d = true -> dir_meaning d.
  Proof.
    intros d H. unfold dir_ok in H. split_andb. conv_cmp.
    constructor; auto.
    - apply bytes_upto_prefix. lia.
    - intros E.
      match goal with X : (if ?c then _ else _) = true |- _ => rewrite E in X; simpl in X end.
      split_andb. conv_cmp. split; [congruence | assumption].
    - intros E. destruct (Z.eqb_spec (d_eof d) 1); [contradiction|].
      repeat match goal with X : (_ || _) = true |- _ => apply orb_prop in X; destruct X end; conv_cmp; auto.
      right. left. intros F.
      match goal with X : negb (_ =? 0)%Z = true |- _ => rewrite F in X; discriminate end.
  Qed.
End Monitor.

(* what an accepted simulation run means *)
Record sim_meaning (pay0 pay1 : nat -> N) (case out : list Z) : Prop := mkSM {
  sm_not_stalled : nthz out 0 = 0%Z;
  sm_no_ghost_bytes : nthz out 43 = 0%Z;
  sm_c2s : dir_meaning pay0 (dobs_at out 6);
  sm_s2c : dir_meaning pay1 (dobs_at out 24);
  (* nothing is left pending, except possibly when a live peer's application walked away from reading *)
  sm_nohang : ((nthz case 1 mod 3 = 0)%Z -> nthz case 19 = 0%Z) ->
      forall d, d = dobs_at out 6 \/ d = dobs_at out 24 -> d_wpend d = 0%Z /\ d_rpend d = 0%Z;
  (* peer vanished / secret unknown: no operation stayed blocked for more than idle timeout + slack
     after the later of its start and the reference time *)
  sm_prompt : (nthz case 1 mod 3 <> 0)%Z ->
      (0 <= nthz out 2)%Z /\
      (d_wwait (dobs_at out 6) <= nthz out 1 + nthz out 3)%Z /\ (d_rwait (dobs_at out 6) <= nthz out 1 + nthz out 3)%Z /\
      (d_wwait (dobs_at out 24) <= nthz out 1 + nthz out 3)%Z /\ (d_rwait (dobs_at out 24) <= nthz out 1 + nthz out 3)%Z;
  (* peer alive and knowing the secret, nobody walks away: the exchange completes in both directions *)
  sm_complete : (nthz case 1 mod 3 = 0)%Z -> nthz case 19 = 0%Z ->
      (nthz case 6 <= 100)%Z -> (nthz case 7 <= 100)%Z ->
      forall d, d = dobs_at out 6 \/ d = dobs_at out 24 ->
      d_eof d = 1%Z /\ d_read d = d_intended d /\ d_written d = d_intended d /\ d_werr d = 0%Z /\ d_rerr d = 0%Z;
  sm_secret : (nthz case 1 mod 3 = 2)%Z ->
      d_eof (dobs_at out 24) = 0%Z /\ (d_stopped (dobs_at out 24) = 1%Z \/ d_rerr (dobs_at out 24) <> 0%Z)
}.

Theorem dcsim_judge_sound : forall pay0 pay1 case out,
  dcsim_judge case out = true -> sim_meaning pay0 pay1 case out.
Proof.
  intros pay0 pay1 case out H. unfold dcsim_judge in H. split_andb.
  constructor.
  - conv_cmp. assumption.
  - conv_cmp. assumption.
  - apply dir_ok_sound. assumption.
  - apply dir_ok_sound. assumption.
  - intros Himp d Hd. destruct (Z.eqb_spec (nthz case 1 mod 3) 0) as [e|ne].
    + rewrite (Himp e) in *. simpl in *. split_andb. unfold dir_nohang in *. split_andb. conv_cmp.
      destruct Hd as [-> | ->]; auto.
    + split_andb. unfold dir_nohang in *. split_andb. conv_cmp. destruct Hd as [-> | ->]; auto.
  - intros Hs. destruct (Z.eqb_spec (nthz case 1 mod 3) 0); [contradiction|].
    split_andb. unfold dir_prompt in *. split_andb. conv_cmp. auto.
  - intros Hs H19 L6 L7 d Hd. rewrite Hs, H19 in *. simpl in *.
    apply Z.leb_le in L6. apply Z.leb_le in L7. rewrite L6, L7 in *. simpl in *. split_andb.
    unfold dir_complete in *. split_andb. conv_cmp. destruct Hd as [-> | ->]; auto.
  - intros Hs. rewrite Hs in *. simpl in *. split_andb. split.
    + conv_cmp. assumption.
    + match goal with X : (_ || _) = true |- _ => apply orb_prop in X; destruct X as [Y|Y] end.
      * left. conv_cmp. assumption.
      * right. intros F. rewrite F in Y. discriminate.
Qed.

(* the monitor's content conditions are consequences of the model's theorem: the observation of any
   reachable model state is accepted by [dir_ok] *)
Definition err_code (tm : timer) : Z :=
  match t_err tm with None => 0 | Some (EIdle, _) => 1 | Some (ESecret, _) => 2 end%Z.

Definition obs_of (w : world) : dobs :=
  let wr := Z.of_nat (length (written w)) in
  let e := rc_eof (w_r w) in
  let code := if e then 0%Z else err_code (rc_tm (w_r w)) in
  mkD wr wr (bz (sd_closed (w_s w))) (err_code (sd_tm (w_s w))) 0 0 0
      (Z.of_nat (length (read w))) 1 (-1) (bz e) code 0 0 0
      (if e then 0 else if (code =? 0)%Z then 1 else 0)%Z 1 1.

Theorem monitor_accepts_model : forall c evs, (0 < c_idle c)%N -> dir_ok (obs_of (run c evs)) = true.
Proof.
  intros c evs Hi. destruct (dc_exact c evs Hi) as [[x Hx] E].
  unfold eof in E. unfold dir_ok, obs_of; simpl.
  set (w := run c evs) in *.
  assert (L : length (read w) <= length (written w)) by (rewrite Hx, app_length; lia).
  destruct (rc_eof (w_r w)) eqn:Ee; simpl.
  - destruct (E eq_refl) as [-> _].
    rewrite !Z.leb_refl, Z.eqb_refl. simpl.
    replace (0 <=? Z.of_nat (length (written w)))%Z with true by (symmetry; apply Z.leb_le; lia).
    reflexivity.
  - rewrite Z.leb_refl.
    replace (0 <=? Z.of_nat (length (read w)))%Z with true by (symmetry; apply Z.leb_le; lia).
    replace (Z.of_nat (length (read w)) <=? Z.of_nat (length (written w)))%Z with true
      by (symmetry; apply Z.leb_le; lia).
    simpl. destruct (err_code (rc_tm (w_r w)) =? 0)%Z; reflexivity.
Qed.

(* ------------------------------------------------------------------------------------------ *)
(* coverage: nothing the sender has transmitted is ever forgotten                               *)
(* ------------------------------------------------------------------------------------------ *)

Definition cov (s : sender) (o : nat) : bool :=
  covered o (sd_acked s) || covered o (map snd (sd_inflight s)) || covered o (sd_retx s).

Definition has_fin (l : list seg) : bool := existsb s_fin l.

(* every offset below max_sent_offset lies in an acknowledged, an in-flight or a pending
   (retransmission queue) range; no range reaches beyond max_sent_offset; and once the fin has been
   sent some range in one of the three sets still carries it *)
Record Coverage (s : sender) : Prop := mkCov {
  cv_all : forall o, o < sd_next_off s -> cov s o = true;
  cv_acked : Forall (fun sg => seg_end sg <= sd_next_off s) (sd_acked s);
  cv_fin : sd_fin_sent s = true ->
           has_fin (sd_acked s) || has_fin (map snd (sd_inflight s)) || has_fin (sd_retx s) = true
}.

Lemma covered_app : forall o l1 l2, covered o (l1 ++ l2) = covered o l1 || covered o l2.
Proof. intros. unfold covered. apply existsb_app. Qed.

Lemma take_pn_some : forall pn l sg rest, take_pn pn l = (Some sg, rest) ->
  (forall o, covered o (map snd l) = covers o sg || covered o (map snd rest)) /\
  has_fin (map snd l) = s_fin sg || has_fin (map snd rest).
Proof.
  induction l as [|[q g] t IH]; intros sg rest H; simpl in H; [discriminate|].
  destruct (N.eqb_spec q pn).
  - injection H as <- <-. split; reflexivity.
  - destruct (take_pn pn t) as [r t'] eqn:E. injection H as -> <-.
    destruct (IH _ _ eq_refl) as [A B]. split.
    + intros o. simpl. rewrite A. destruct (covers o g), (covers o sg); reflexivity.
    + simpl. rewrite B. destruct (s_fin g), (s_fin sg); reflexivity.
Qed.

Lemma take_pn_none : forall pn l rest, take_pn pn l = (None, rest) -> rest = l.
Proof.
  induction l as [|[q g] t IH]; intros rest H; simpl in H.
  - injection H as <-. reflexivity.
  - destruct (N.eqb_spec q pn); [discriminate|].
    destruct (take_pn pn t) as [r t'] eqn:E. injection H as -> <-. f_equal. apply IH. reflexivity.
Qed.

Lemma ack_all_cov : forall pns infl acked infl' acked',
  ack_all pns infl acked = (infl', acked') ->
  (forall o, covered o acked' || covered o (map snd infl') = covered o acked || covered o (map snd infl)) /\
  has_fin acked' || has_fin (map snd infl') = has_fin acked || has_fin (map snd infl) /\
  (forall P : seg -> Prop, Forall P acked -> Forall P (map snd infl) -> Forall P acked').
Proof.
  induction pns as [|pn t IH]; intros infl acked infl' acked' H; simpl in H.
  - injection H as <- <-. repeat split; auto.
  - destruct (take_pn pn infl) as [[sg|] rest] eqn:E.
    + destruct (take_pn_some _ _ _ _ E) as [A B].
      destruct (IH _ _ _ _ H) as (C & D & F). repeat split.
      * intros o. rewrite C. simpl. rewrite A.
        destruct (covers o sg), (covered o acked), (covered o (map snd rest)); reflexivity.
      * rewrite D. simpl. rewrite B.
        destruct (s_fin sg), (has_fin acked), (has_fin (map snd rest)); reflexivity.
      * intros P Pa Pi. apply F.
        -- constructor; auto. rewrite Forall_forall in Pi. apply Pi.
           apply (proj1 (take_pn_spec _ _ _ _ E)). reflexivity.
        -- rewrite Forall_forall in *. intros x Hx. apply Pi. apply (proj2 (take_pn_spec _ _ _ _ E)). exact Hx.
    + apply take_pn_none in E. subst. apply IH. exact H.
Qed.

Lemma Coverage_init : forall c, Coverage (w_s (init c)).
Proof. intros. constructor; simpl; intros; try lia; try discriminate; constructor. Qed.

Lemma orb3_l : forall a b c a', (a = true -> a' = true) -> a || b || c = true -> a' || b || c = true.
Proof. intros [] [] [] [] H; simpl; auto. Qed.

Lemma Coverage_step : forall w e, Inv w -> Coverage (w_s w) -> Coverage (w_s (step w e)).
Proof.
  intros w e I [Ca Ck Cf]. unfold cov in Ca. destruct e; simpl; rewrite ?emit_s.
  - (* AppWrite *) unfold s_write. destruct (sd_closed (w_s w) || negb (tm_live (sd_tm (w_s w)))); constructor; auto.
  - (* AppShutdown *) unfold s_shutdown. destruct (negb _); constructor; auto.
  - (* Transmit *)
    destruct (s_transmit (w_s w) k) as [s' op] eqn:E. simpl.
    destruct (s_transmit_cases _ _ _ _ E) as [[-> _]|(len & fin & _ & _ & _ & _ & ->)];
      [constructor; auto|].
    constructor; unfold cov in *; simpl.
    + intros o Ho. destruct (Nat.lt_ge_cases o (sd_next_off (w_s w))) as [L|G].
      * specialize (Ca o L). destruct (covered o (sd_acked (w_s w))); simpl in *; auto.
        destruct (covers o _); simpl; auto.
      * replace (covers o {| s_off := sd_next_off (w_s w); s_len := len; s_fin := fin |}) with true.
        { destruct (covered o (sd_acked (w_s w))); reflexivity. }
        symmetry. unfold covers; simpl. apply andb_true_intro. split; [apply Nat.leb_le | apply Nat.ltb_lt]; lia.
    + eapply Forall_impl; [|exact Ck]. simpl. intros. lia.
    + intros F. apply orb_prop in F. destruct F as [F|F].
      * specialize (Cf F). destruct (has_fin (sd_acked (w_s w))); simpl in *; auto.
        destruct fin; simpl; auto.
      * subst fin. destruct (has_fin (sd_acked (w_s w))); reflexivity.
  - (* Retransmit *)
    unfold s_retransmit. destruct (negb _); simpl; [constructor; auto|].
    destruct (sd_retx (w_s w)) as [|sg rest] eqn:R; simpl; [constructor; unfold cov; simpl; rewrite ?R; auto|].
    constructor; unfold cov in *; simpl; auto.
    + intros o Ho. specialize (Ca o Ho). simpl in Ca.
      destruct (covered o (sd_acked (w_s w))), (covers o sg), (covered o (map snd (sd_inflight (w_s w)))),
        (covered o rest); auto.
    + intros F. specialize (Cf F). simpl in Cf.
      destruct (has_fin (sd_acked (w_s w))), (s_fin sg), (has_fin (map snd (sd_inflight (w_s w)))),
        (has_fin rest); auto.
  - (* Lose *)
    unfold s_lose. destruct (negb _); simpl; [constructor; auto|].
    destruct (take_pn pn (sd_inflight (w_s w))) as [[sg|] rest] eqn:E; simpl; [|constructor; auto].
    destruct (take_pn_some _ _ _ _ E) as [A B].
    constructor; unfold cov in *; simpl; auto.
    + intros o Ho. specialize (Ca o Ho). rewrite A in Ca. rewrite covered_app. simpl.
      destruct (covered o (sd_acked (w_s w))), (covers o sg), (covered o (map snd rest)),
        (covered o (sd_retx (w_s w))); auto.
    + intros F. specialize (Cf F). rewrite B in Cf. unfold has_fin in *. rewrite existsb_app. simpl.
      destruct (existsb s_fin (sd_acked (w_s w))), (s_fin sg), (existsb s_fin (map snd rest)),
        (existsb s_fin (sd_retx (w_s w))); auto.
  - (* Cwnd *) constructor; auto.
  - (* Deliver *) destruct (nth_error _ _); constructor; auto.
  - (* EmitAck *) destruct (_ && _); constructor; auto.
  - (* DeliverAck *)
    destruct (nth_error (w_ctl w) j) as [c|]; [|constructor; auto]. simpl.
    unfold s_on_ctl. destruct (negb _); simpl; [constructor; auto|].
    destruct (ack_all (fst c) (sd_inflight (w_s w)) (sd_acked (w_s w))) as [infl acked] eqn:E. simpl.
    destruct (ack_all_cov _ _ _ _ _ E) as (A & B & F).
    constructor; unfold cov in *; simpl; auto.
    + intros o Ho. rewrite A. apply Ca. exact Ho.
    + apply F; auto. pose proof (i_segs _ I) as Is. apply Forall_app_inv in Is. destruct Is as [Is _].
      eapply Forall_impl; [|exact Is]. intros sg [Hs _]. exact Hs.
    + intros G. rewrite B. apply Cf. exact G.
  - (* DeliverReject *) destruct (_ && _); constructor; auto.
  - (* AppRead *) constructor; auto.
  - (* Tick *) constructor; auto.
  - (* Vanish *) constructor; auto.
  - (* ForgetSecret *) constructor; auto.
Qed.

Lemma Coverage_run_from : forall evs w, Inv w -> Coverage (w_s w) -> Coverage (w_s (run_from w evs)).
Proof. induction evs; simpl; intros; auto. apply IHevs; auto using Inv_step, Coverage_step. Qed.

(* acked, in-flight and pending-retransmission ranges cover everything sent; nothing lies beyond what
   was sent, and what was sent lies within what was written *)
Theorem dc_coverage : forall c evs, (0 < c_idle c)%N ->
  let s := w_s (run c evs) in
  (forall o, o < sd_next_off s -> cov s o = true) /\
  Forall (fun sg => seg_end sg <= sd_next_off s) (sd_acked s ++ map snd (sd_inflight s) ++ sd_retx s) /\
  sd_next_off s <= length (sd_data s) /\
  (sd_fin_sent s = true ->
   has_fin (sd_acked s) || has_fin (map snd (sd_inflight s)) || has_fin (sd_retx s) = true).
Proof.
  intros c evs Hi. cbv zeta.
  pose proof (Inv_run c evs Hi) as I.
  destruct (Coverage_run_from evs (init c) (Inv_init c Hi) (Coverage_init c)) as [A B C].
  fold (run c evs) in *. repeat split; auto.
  - apply Forall_app. split; auto. eapply Forall_impl; [|exact (i_segs _ I)]. intros sg [H _]. exact H.
  - exact (i_off _ I).
Qed.

(* ------------------------------------------------------------------------------------------ *)
(* liveness: a measure argument                                                                 *)
(* ------------------------------------------------------------------------------------------ *)

Definition isnone {A} (o : option A) : bool := match o with None => true | Some _ => false end.

(* what the receiver still lacks: the offsets of the written stream it has no byte for, plus one
   while the final size is unknown *)
Definition missing (w : world) : nat :=
  length (filter (fun o => isnone (lookup o (rc_buf (w_r w)))) (seq 0 (length (sd_data (w_s w))))) +
  (if isnone (rc_final (w_r w)) then 1 else 0).

Definition accepting (r : receiver) : bool := rc_alive r && rc_secret r && tm_live (rc_tm r).

(* a helpful step: the network hands the receiver a packet it accepts (alive, knows the secret, no
   error, packet number not seen) which carries a byte it lacks or the final size it lacks *)
Definition useful (w : world) (e : ev) : bool :=
  match e with
  | Deliver i =>
      match nth_error (w_net w) i with
      | Some p =>
          accepting (w_r w) && negb (mem_N (p_pn p) (rc_seen (w_r w))) &&
          (existsb (fun o => isnone (lookup o (rc_buf (w_r w)))) (seq (s_off (p_seg p)) (s_len (p_seg p)))
           || (s_fin (p_seg p) && isnone (rc_final (w_r w))))
      | None => false
      end
  | _ => false
  end.

Fixpoint count_useful (w : world) (evs : list ev) : nat :=
  match evs with
  | [] => 0
  | e :: t => (if useful w e then 1 else 0) + count_useful (step w e) t
  end.

Lemma filter_le {A} (f g : A -> bool) : forall l,
  (forall x, In x l -> g x = true -> f x = true) -> length (filter g l) <= length (filter f l).
Proof.
  induction l as [|a t IH]; intros H; simpl; auto.
  assert (IH' : length (filter g t) <= length (filter f t)) by (apply IH; intros; apply H; simpl; auto).
  destruct (g a) eqn:G; simpl.
  - rewrite (H a (or_introl eq_refl) G). simpl. lia.
  - destruct (f a); simpl; lia.
Qed.

Lemma filter_lt {A} (f g : A -> bool) : forall l,
  (forall x, In x l -> g x = true -> f x = true) ->
  (exists x, In x l /\ f x = true /\ g x = false) -> length (filter g l) < length (filter f l).
Proof.
  induction l as [|a t IH]; intros H [x [Hin [Hf Hg]]]; simpl; [destruct Hin|].
  assert (Hle : length (filter g t) <= length (filter f t)) by (apply filter_le; intros; apply H; simpl; auto).
  destruct Hin as [<-|Hin].
  - rewrite Hf, Hg. simpl. lia.
  - assert (IH' : length (filter g t) < length (filter f t)).
    { apply IH; [intros; apply H; simpl; auto | exists x; auto]. }
    destruct (g a) eqn:G; simpl.
    + rewrite (H a (or_introl eq_refl) G). simpl. lia.
    + destruct (f a); simpl; lia.
Qed.

Lemma lookup_buf_write_keep : forall bs m off o b,
  lookup o m = Some b -> lookup o (buf_write m off bs) = Some b.
Proof.
  induction bs as [|x t IH]; intros m off o b H; simpl; auto.
  apply IH. destruct (lookup off m) eqn:L; auto.
  simpl. destruct (Nat.eqb_spec off o); auto. subst. congruence.
Qed.

Lemma lookup_buf_write_hit : forall bs m off o,
  off <= o < off + length bs -> lookup o (buf_write m off bs) <> None.
Proof.
  induction bs as [|x t IH]; intros m off o H; simpl in *; [lia|].
  destruct (Nat.eq_dec o off) as [->|Hne].
  - destruct (lookup off m) eqn:L.
    + rewrite (lookup_buf_write_keep t m (S off) off n L). discriminate.
    + rewrite (lookup_buf_write_keep t ((off, x) :: m) (S off) off x); [discriminate|].
      simpl. rewrite Nat.eqb_refl. reflexivity.
  - apply IH. lia.
Qed.

Lemma step_closed : forall w e, sd_closed (w_s w) = true ->
  sd_closed (w_s (step w e)) = true /\ sd_data (w_s (step w e)) = sd_data (w_s w).
Proof.
  intros w e C. destruct e; simpl; rewrite ?emit_s; auto.
  - unfold s_write. rewrite C. simpl. auto.
  - unfold s_shutdown. destruct (negb _); simpl; auto.
  - destruct (s_transmit (w_s w) k) as [s' op] eqn:E. simpl.
    destruct (s_transmit_cases _ _ _ _ E) as [[-> _]|(? & ? & _ & _ & _ & _ & ->)]; simpl; auto.
  - unfold s_retransmit. destruct (negb _); simpl; auto. destruct (sd_retx (w_s w)); simpl; auto.
  - unfold s_lose. destruct (negb _); simpl; auto.
    destruct (take_pn pn (sd_inflight (w_s w))) as [[?|] ?]; simpl; auto.
  - destruct (nth_error _ _); simpl; auto.
  - destruct (_ && _); simpl; auto.
  - destruct (nth_error (w_ctl w) j) as [c|]; simpl; auto. unfold s_on_ctl.
    destruct (negb _); simpl; auto. destruct (ack_all _ _ _). simpl. auto.
  - destruct (_ && _); simpl; auto.
Qed.

(* the measure never grows once the stream is closed, and a helpful step makes it shrink *)
Lemma missing_step : forall w e, Inv w -> sd_closed (w_s w) = true ->
  missing (step w e) + (if useful w e then 1 else 0) <= missing w.
Proof.
  intros w e I C.
  destruct e as [bs| |k| |pn|n|i| |j| |k|t| | ];
    try (match goal with |- context [step w ?ev] => destruct (step_closed w ev C) as [_ D] end;
         unfold missing; rewrite D; simpl; rewrite ?emit_r; simpl; lia).
  - (* Deliver *)
    simpl. destruct (nth_error (w_net w) i) as [p|] eqn:E; [|lia].
    assert (Hp : pkt_ok (sd_data (w_s w)) (sd_closed (w_s w)) p).
    { pose proof (i_net _ I) as F. rewrite Forall_forall in F. apply F. eapply nth_error_In; eauto. }
    destruct Hp as (H1 & H2 & H3).
    unfold r_on_pkt, accepting. destruct (rc_alive (w_r w) && rc_secret (w_r w) && tm_live (rc_tm (w_r w))); simpl; [|unfold missing; simpl; lia].
    destruct (mem_N (p_pn p) (rc_seen (w_r w))); simpl; [unfold missing; simpl; lia|].
    unfold missing; simpl.
    set (buf := rc_buf (w_r w)). set (buf' := buf_write buf (s_off (p_seg p)) (p_bytes p)).
    set (n := length (sd_data (w_s w))).
    assert (Hlen : length (p_bytes p) = s_len (p_seg p)).
    { rewrite H2. unfold slice. rewrite firstn_length, skipn_length. unfold p_end in H1. lia. }
    assert (Hmono : forall x, In x (seq 0 n) -> isnone (lookup x buf') = true -> isnone (lookup x buf) = true).
    { intros x _ Hx. destruct (lookup x buf) eqn:L; auto.
      unfold buf' in Hx. rewrite (lookup_buf_write_keep _ _ _ _ _ L) in Hx. discriminate. }
    pose proof (filter_le (fun o => isnone (lookup o buf)) (fun o => isnone (lookup o buf')) (seq 0 n) Hmono) as Hle.
    destruct (existsb (fun o => isnone (lookup o buf)) (seq (s_off (p_seg p)) (s_len (p_seg p)))) eqn:X; simpl.
    + apply existsb_exists in X. destruct X as [o [Ho Hn]]. apply in_seq in Ho.
      assert (Hlt : length (filter (fun o => isnone (lookup o buf')) (seq 0 n)) <
                    length (filter (fun o => isnone (lookup o buf)) (seq 0 n))).
      { apply filter_lt; auto. exists o. repeat split; auto.
        - apply in_seq. unfold p_end, n in *. lia.
        - unfold buf'. destruct (lookup o (buf_write buf (s_off (p_seg p)) (p_bytes p))) eqn:L; auto.
          exfalso. eapply lookup_buf_write_hit; [|exact L]. lia. }
      destruct (s_fin (p_seg p)); simpl; destruct (isnone (rc_final (w_r w))); simpl; lia.
    + destruct (s_fin (p_seg p)); simpl; destruct (isnone (rc_final (w_r w))); simpl; lia.
  - (* EmitAck *) simpl. destruct (_ && _); unfold missing; simpl; lia.
  - (* DeliverAck *)
    destruct (step_closed w (DeliverAck j) C) as [_ D]. unfold missing. rewrite D. simpl.
    destruct (nth_error (w_ctl w) j); simpl; lia.
  - (* DeliverReject *)
    destruct (step_closed w DeliverReject C) as [_ D]. unfold missing. rewrite D. simpl.
    destruct (_ && _); simpl; lia.
  - (* AppRead *)
    unfold missing; simpl. unfold r_read. destruct (negb _); simpl; lia.
Qed.

Lemma Inv_closed_run : forall evs w, Inv w -> sd_closed (w_s w) = true ->
  missing (run_from w evs) + count_useful w evs <= missing w.
Proof.
  induction evs as [|e t IH]; intros w I C; simpl; [lia|].
  pose proof (missing_step w e I C). destruct (step_closed w e C) as [C' _].
  specialize (IH (step w e) (Inv_step _ _ I) C'). lia.
Qed.

Lemma contig_ge : forall m k off j,
  (forall o, off <= o < off + j -> lookup o m <> None) -> j <= k -> j <= length (contig m off k).
Proof.
  induction k; intros off j H Hj; simpl; [lia|].
  destruct j; [lia|].
  destruct (lookup off m) eqn:L; [|exfalso; apply (H off); [lia|exact L]].
  simpl. apply le_n_S. apply IHk; [|lia]. intros o Ho. apply H. lia.
Qed.

Lemma filter_nil_all {A} (f : A -> bool) : forall l, length (filter f l) = 0 -> forall x, In x l -> f x = false.
Proof.
  induction l; simpl; intros H x Hx; [destruct Hx|].
  destruct (f a) eqn:F; simpl in H; [discriminate|]. destruct Hx as [<-|Hx]; auto.
Qed.

(* once nothing is missing, an application read of sufficient size returns the whole stream and EOF *)
Lemma complete_read : forall w k, Inv w -> missing w = 0 ->
  rc_alive (w_r w) = true -> tm_live (rc_tm (w_r w)) = true ->
  length (sd_data (w_s w)) - length (rc_read (w_r w)) <= k ->
  let w' := step w (AppRead k) in read w' = written w' /\ rc_eof (w_r w') = true.
Proof.
  intros w k I M A L Hk. cbv zeta. unfold read, written. simpl. unfold r_read. rewrite A, L. simpl.
  unfold missing in M.
  assert (M1 : length (filter (fun o => isnone (lookup o (rc_buf (w_r w)))) (seq 0 (length (sd_data (w_s w))))) = 0) by lia.
  assert (M2 : isnone (rc_final (w_r w)) = false) by (destruct (isnone (rc_final (w_r w))); [lia|reflexivity]).
  destruct (rc_final (w_r w)) as [f|] eqn:F; [|discriminate].
  destruct (i_final _ I f F) as [_ ->].
  pose proof (contig_prefix _ _ (i_buf _ I) k _ (i_read _ I)) as Hpre.
  set (got := contig (rc_buf (w_r w)) (length (rc_read (w_r w))) k) in *.
  assert (Hge : length (sd_data (w_s w)) - length (rc_read (w_r w)) <= length got).
  { apply contig_ge; auto. intros o Ho Hn.
    pose proof (filter_nil_all _ _ M1 o) as Q.
    assert (In o (seq 0 (length (sd_data (w_s w))))) by (apply in_seq; lia). specialize (Q H).
    simpl in Q. rewrite Hn in Q. discriminate. }
  assert (Heq : rc_read (w_r w) ++ got = sd_data (w_s w)).
  { apply prefix_same_length; auto. destruct Hpre as [c Hc].
    apply (f_equal (@length N)) in Hc. rewrite !app_length in *. lia. }
  split; auto. rewrite Heq, Nat.eqb_refl. apply orb_true_r.
Qed.

(* the measure argument: in any schedule whatever (any interleaving, any losses, duplicates, delays,
   any sender and timer events) the deficit plus the number of helpful deliveries never exceeds the
   initial deficit *)
Theorem dc_measure : forall c evs0 evs, (0 < c_idle c)%N ->
  let w := run c evs0 in
  sd_closed (w_s w) = true ->
  missing (run_from w evs) + count_useful w evs <= missing w.
Proof. intros c evs0 evs Hi w C. apply Inv_closed_run; auto. apply Inv_run. exact Hi. Qed.

(* eventual delivery.  Hypotheses: the application has shut the stream down (so the deficit is a fixed,
   finite number: at most the stream length + 1); FINITE LOSS / FAIRNESS OF THE NETWORK: the schedule
   contains at least that many helpful deliveries, i.e. of all the packets the network drops, delays or
   duplicates, at least [missing w] useful ones get through to an accepting receiver (dc_useful_enabled
   below shows the protocol always has one to offer); the receiver is still alive and error-free at the
   end (fairness of time: no idle timeout fired first) and the application reads enough.
   Conclusion: the reader has exactly the written stream and EOF. *)
Theorem dc_eventual_delivery : forall c evs0 evs k, (0 < c_idle c)%N ->
  let w := run c evs0 in
  let w1 := run_from w evs in
  sd_closed (w_s w) = true ->
  missing w <= count_useful w evs ->
  rc_alive (w_r w1) = true -> tm_live (rc_tm (w_r w1)) = true ->
  length (written w1) - length (read w1) <= k ->
  let w2 := step w1 (AppRead k) in
  read w2 = written w2 /\ rc_eof (w_r w2) = true.
Proof.
  intros c evs0 evs k Hi w w1 C Hc A L Hk.
  assert (I : Inv w) by (apply Inv_run; exact Hi).
  pose proof (Inv_closed_run evs w I C) as M.
  apply complete_read; auto.
  - apply Inv_run_from. exact I.
  - fold w1 in M. lia.
Qed.

(* ------------------------------------------------------------------------------------------ *)
(* dcrecv monitor                                                                               *)
(* ------------------------------------------------------------------------------------------ *)

(* the (expected_duplicate, code) pairs in front of the -1 marker *)
Inductive recv_pairs : list Z -> list (Z * Z) -> list Z -> Prop :=
| rp_end : forall t, recv_pairs ((-1)%Z :: t) [] t
| rp_cons : forall d code l ps t, d <> (-1)%Z -> recv_pairs l ps t -> recv_pairs (d :: code :: l) ((d, code) :: ps) t.

Lemma recv_pairs_ok_sound : forall n l t, length l <= n -> recv_pairs_ok l = Some t ->
  exists ps, recv_pairs l ps t /\
    Forall (fun p => (fst p = 0%Z -> snd p = 0%Z) /\ (fst p = 0 \/ fst p = 1 \/ fst p = 2)%Z) ps.
Proof.
  induction n; intros l t Hl H.
  - destruct l; [discriminate | simpl in Hl; lia].
  - destruct l as [|d l]; [discriminate|]. simpl in H.
    destruct (Z.eqb_spec d (-1)).
    + injection H as <-. subst. exists []. split; constructor.
    + destruct l as [|code l']; [discriminate|].
      match type of H with (if ?c then _ else _) = _ => destruct c eqn:Cnd end; [|discriminate].
      destruct (IHn l' t) as [ps [A B]]; [simpl in Hl; lia | exact H |].
      exists ((d, code) :: ps). split; [constructor; auto|]. constructor; auto. simpl.
      destruct (Z.eqb_spec d 1) as [E1|E1].
      * subst d. repeat split; lia.
      * destruct (Z.eqb_spec d 2) as [E2|E2].
        -- subst d. repeat split; lia.
        -- apply andb_prop in Cnd. destruct Cnd as [C1 C2]. apply Z.eqb_eq in C1. apply Z.eqb_eq in C2.
           repeat split; lia.
Qed.

Record recv_meaning (out : list Z) : Prop := mkRM {
  rm_shape : exists ops ps rd acked eofz total,
      recv_pairs (tl out) ps [rd; 1%Z; 0%Z; 1%Z; acked; 1%Z; eofz; total] /\ out = ops :: tl out /\
      (* while receiving, every packet with a fresh (space, packet number) was accepted *)
      Forall (fun p => (fst p = 0%Z -> snd p = 0%Z) /\ (fst p = 0 \/ fst p = 1 \/ fst p = 2)%Z) ps /\
      (* correct = 1, duplicates changed nothing, ACK ranges within the accepted numbers, MAX_DATA monotone *)
      (0 <= rd <= total)%Z /\ (eofz = 1%Z -> rd = total)
}.

Theorem dcrecv_judge_sound : forall case out, dcrecv_judge case out = true -> recv_meaning out.
Proof.
  intros case out H. unfold dcrecv_judge in H. destruct out as [|ops rest]; [discriminate|].
  destruct (recv_pairs_ok rest) as [t|] eqn:E; [|discriminate].
  destruct t as [|rd [|correct [|dupchg [|subset [|acked [|mono [|eofz [|total [|? ?]]]]]]]]]; try discriminate.
  split_andb. conv_cmp. subst.
  destruct (recv_pairs_ok_sound (length rest) rest _ (le_n _) E) as [ps [A B]].
  constructor. exists ops, ps, rd, acked, eofz, total. simpl. repeat split; auto; try lia.
  intros Ee. rewrite Ee in *. simpl in *. conv_cmp. assumption.
Qed.

(* ------------------------------------------------------------------------------------------ *)
(* the helpful step is always on offer: freshness of packet numbers, usefulness of a retransmission *)
(* ------------------------------------------------------------------------------------------ *)

Definition Fresh (w : world) : Prop :=
  Forall (fun p => (p_pn p < sd_next_pn (w_s w))%N) (w_net w) /\
  Forall (fun pn => (pn < sd_next_pn (w_s w))%N) (rc_seen (w_r w)).

Lemma Fresh_init : forall c, Fresh (init c).
Proof. intros. split; constructor. Qed.

Lemma next_pn_mono : forall w e, (sd_next_pn (w_s w) <= sd_next_pn (w_s (step w e)))%N.
Proof.
  intros w e. destruct e; simpl; rewrite ?emit_s; try lia.
  - unfold s_write. destruct (_ || _); simpl; lia.
  - unfold s_shutdown. destruct (negb _); simpl; lia.
  - destruct (s_transmit (w_s w) k) as [s' op] eqn:E. simpl.
    destruct (s_transmit_cases _ _ _ _ E) as [[-> _]|(? & ? & _ & _ & _ & _ & ->)]; simpl; lia.
  - unfold s_retransmit. destruct (negb _); simpl; try lia. destruct (sd_retx (w_s w)); simpl; lia.
  - unfold s_lose. destruct (negb _); simpl; try lia.
    destruct (take_pn pn (sd_inflight (w_s w))) as [[?|] ?]; simpl; lia.
  - destruct (nth_error _ _); simpl; lia.
  - destruct (_ && _); simpl; lia.
  - destruct (nth_error (w_ctl w) j) as [c|]; simpl; try lia. unfold s_on_ctl.
    destruct (negb _); simpl; try lia. destruct (ack_all _ _ _). simpl. lia.
  - destruct (_ && _); simpl; lia.
Qed.

Lemma Fresh_step : forall w e, Fresh w -> Fresh (step w e).
Proof.
  intros w e [Fn Fs].
  assert (M := next_pn_mono w e).
  assert (Wn : forall l, Forall (fun p => (p_pn p < sd_next_pn (w_s w))%N) l ->
                         Forall (fun p => (p_pn p < sd_next_pn (w_s (step w e)))%N) l).
  { intros l H. eapply Forall_impl; [|exact H]. simpl. intros. lia. }
  assert (Ws : forall l, Forall (fun pn => (pn < sd_next_pn (w_s w))%N) l ->
                         Forall (fun pn => (pn < sd_next_pn (w_s (step w e)))%N) l).
  { intros l H. eapply Forall_impl; [|exact H]. simpl. intros. lia. }
  split.
  - (* the log *)
    destruct e; try (apply Wn; exact Fn).
    + (* Transmit *)
      simpl in *. destruct (s_transmit (w_s w) k) as [s' op] eqn:E.
      destruct (s_transmit_cases _ _ _ _ E) as [[-> ->]|(len & fin & _ & _ & _ & -> & ->)];
        unfold emit in *; simpl in *; [exact Fn|].
      apply Forall_app. split; [eapply Forall_impl; [|exact Fn]; simpl; intros; lia|].
      constructor; [simpl; lia | constructor].
    + (* Retransmit *)
      simpl in *. unfold s_retransmit in *. destruct (negb _); unfold emit in *; simpl in *; [exact Fn|].
      destruct (sd_retx (w_s w)); simpl in *; [exact Fn|].
      apply Forall_app. split; [eapply Forall_impl; [|exact Fn]; simpl; intros; lia|].
      constructor; [simpl; lia | constructor].
    + simpl. destruct (nth_error _ _); simpl; exact Fn.
    + simpl. destruct (_ && _); simpl; exact Fn.
    + simpl in *. destruct (nth_error (w_ctl w) j); simpl in *; [apply Wn|]; exact Fn.
    + simpl in *. destruct (_ && _); simpl in *; [apply Wn|]; exact Fn.
  - (* the numbers seen *)
    destruct e; try (simpl in *; rewrite ?emit_r; apply Ws; exact Fs).
    + (* Deliver *)
      simpl in *. destruct (nth_error (w_net w) i) as [p|] eqn:E; [|exact Fs]. simpl.
      unfold r_on_pkt. destruct (negb _); [exact Fs|]. destruct (mem_N _ _); [exact Fs|]. simpl.
      constructor; [|exact Fs]. rewrite Forall_forall in Fn. apply Fn. eapply nth_error_In; eauto.
    + simpl. destruct (_ && _); exact Fs.
    + simpl in *. destruct (nth_error (w_ctl w) j); simpl in *; [apply Ws|]; exact Fs.
    + simpl in *. destruct (_ && _); simpl in *; [apply Ws|]; exact Fs.
    + simpl. unfold r_read. destruct (negb _); exact Fs.
Qed.

Lemma Fresh_run : forall c evs, Fresh (run c evs).
Proof.
  intros c evs. unfold run. generalize (Fresh_init c). generalize (init c).
  induction evs; simpl; intros; auto using Fresh_step.
Qed.

(* No deadlock on the protocol's side: whenever a range waiting in the retransmission queue contains a
   byte (or the final size) the receiver lacks, the sender's own [Retransmit] puts a fresh-numbered
   packet on the wire whose delivery to an accepting receiver IS a helpful step.  (With dc_coverage --
   every sent offset is acknowledged, in flight or pending -- and [Lose], which moves any in-flight
   range to the queue, the helpful step needed by dc_eventual_delivery is therefore always on offer
   for every sent-but-unacknowledged byte; what remains for the environment is not to lose it for ever.) *)
Theorem dc_retransmit_useful : forall c evs sg rest, (0 < c_idle c)%N ->
  let w := run c evs in
  tm_live (sd_tm (w_s w)) = true ->
  sd_retx (w_s w) = sg :: rest ->
  accepting (w_r w) = true ->
  (existsb (fun o => isnone (lookup o (rc_buf (w_r w)))) (seq (s_off sg) (s_len sg))
   || (s_fin sg && isnone (rc_final (w_r w)))) = true ->
  useful (step w Retransmit) (Deliver (length (w_net w))) = true.
Proof.
  intros c evs sg rest Hi w L R A U.
  destruct (Fresh_run c evs) as [_ Fs]. fold w in Fs.
  simpl. unfold s_retransmit. rewrite L, R. simpl. unfold emit. simpl.
  rewrite nth_error_app2 by lia. rewrite Nat.sub_diag. simpl. rewrite A. simpl.
  replace (mem_N (sd_next_pn (w_s w)) (rc_seen (w_r w))) with false.
  - simpl. exact U.
  - symmetry. destruct (mem_N (sd_next_pn (w_s w)) (rc_seen (w_r w))) eqn:M; auto.
    unfold mem_N in M. apply existsb_exists in M. destruct M as [y [Hy Ey]]. apply N.eqb_eq in Ey. subst y.
    rewrite Forall_forall in Fs. specialize (Fs _ Hy). lia.
Qed.
