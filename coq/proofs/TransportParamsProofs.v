(* Proofs about model/TransportParams.v against model/Rfc18_2.v (C14). *)
From SQ Require Import lib.Base lib.C14Fmt gen.Gen_C14.
From SQ Require Import model.TransportParams model.Rfc18_2 model.TpClass.
Local Open Scope N_scope.

(* ---------- byte-list helpers ---------- *)
Lemma forallb_firstn : forall {A} (f : A -> bool) n l, forallb f l = true -> forallb f (firstn n l) = true.
Proof.
  induction n; intros [| x t] H; simpl in *; auto.
  apply andb_true_iff in H. destruct H as [H1 H2]. rewrite H1. simpl. auto.
Qed.
Lemma forallb_skipn : forall {A} (f : A -> bool) n l, forallb f l = true -> forallb f (skipn n l) = true.
Proof.
  induction n; intros [| x t] H; simpl in *; auto.
  apply andb_true_iff in H. destruct H as [H1 H2]. auto.
Qed.
Lemma wf_take : forall n l, wf_bytes l = true -> wf_bytes (take n l) = true.
Proof. intros. apply forallb_firstn. assumption. Qed.
Lemma wf_drop : forall n l, wf_bytes l = true -> wf_bytes (drop n l) = true.
Proof. intros. apply forallb_skipn. assumption. Qed.
Lemma len_drop : forall {A} n (l : list A), len (drop n l) = len l - n.
Proof. intros. unfold len, drop. rewrite skipn_length. lia. Qed.
Lemma length_drop_le : forall {A} n (l : list A), (length (drop n l) <= length l)%nat.
Proof. intros. unfold drop. rewrite skipn_length. lia. Qed.
Lemma is_nil_spec : forall {A} (l : list A), is_nil l = true <-> l = [].
Proof. destruct l; simpl; split; congruence. Qed.

(* ---------- the two variable-length integer readers agree on bytes ---------- *)
Lemma vi_len_rfc : forall h, h < 256 ->
  vi_len h = 2 ^ (h / 64) /\ vi_mask (vi_len h) = 2 ^ (8 * 2 ^ (h / 64) - 2).
Proof.
  intros h Hh. unfold vi_len.
  assert (Hq : h / 64 < 4) by (apply N.div_lt_upper_bound; lia).
  remember (h / 64) as q eqn:Eq. clear Eq.
  assert (Hc : q = 0 \/ q = 1 \/ q = 2 \/ q = 3) by lia.
  destruct Hc as [E | [E | [E | E]]]; subst q; split; reflexivity.
Qed.

Lemma vi_decode_rvi : forall b, wf_bytes b = true -> vi_decode b = rvi b.
Proof.
  intros [| h t] Hw; [reflexivity |].
  unfold vi_decode, rvi.
  assert (Hh : h < 256).
  { simpl in Hw. apply andb_true_iff in Hw. destruct Hw as [Hw _]. apply N.ltb_lt in Hw. exact Hw. }
  destruct (vi_len_rfc h Hh) as [E1 E2].
  cbv zeta. rewrite E2, E1. reflexivity.
Qed.

Lemma vi_len_pos : forall h, 1 <= vi_len h.
Proof.
  intros h. unfold vi_len.
  destruct (h / 64 =? 0); [lia |]. destruct (h / 64 =? 1); [lia |]. destruct (h / 64 =? 2); lia.
Qed.

Lemma vi_decode_shrinks : forall b x r, vi_decode b = Some (x, r) -> (length r < length b)%nat.
Proof.
  intros [| h t] x r H; [discriminate |].
  unfold vi_decode in H. cbv zeta in H.
  destruct (N.ltb_spec (len (h :: t)) (vi_len h)) as [L | L]; [discriminate |].
  inversion H; subst. pose proof (vi_len_pos h) as P.
  unfold drop. rewrite skipn_length. unfold len in L. lia.
Qed.

Lemma vi_decode_wf : forall b x r, wf_bytes b = true -> vi_decode b = Some (x, r) -> wf_bytes r = true.
Proof.
  intros [| h t] x r Hw H; [discriminate |].
  unfold vi_decode in H. cbv zeta in H.
  destruct (len (h :: t) <? vi_len h); [discriminate |].
  inversion H; subst. apply wf_drop. exact Hw.
Qed.

(* ---------- the decode loop = the RFC's entry grammar followed by a fold over the entries ---------- *)
Definition codec_ok (f : field) (v : list N) : option value :=
  match decode_value (codec_of f) v with
  | Ok (x, r) => if is_nil r && validate f x then Some x else None
  | Err _ => None
  end.

Definition value_step (server : bool) (f : field) (v : list N) (s : st) : option st :=
  if negb (enabled server f) then None else
  if used f s then None else
  match codec_ok f v with Some x => Some ((f, x) :: s) | None => None end.

Fixpoint process (server : bool) (es : list (N * list N)) (s : st) : option st :=
  match es with
  | [] => Some s
  | e :: t =>
      match lookup (fst e) with
      | Some f => match value_step server f (snd e) s with
                  | Some s' => process server t s'
                  | None => None
                  end
      | None => process server t s
      end
  end.

Lemma vers_loop_no_fuel : forall fuel b acc, (length b < fuel)%nat -> vers_loop fuel b acc <> Err EFuel.
Proof.
  induction fuel; intros b acc H; [lia |].
  cbn [vers_loop]. destruct (is_nil b); [congruence |].
  destruct (vi_decode b) as [[v r] |] eqn:E; [| congruence].
  destruct (negb (v <=? dc_version_max)); [congruence |].
  destruct (len (acc ++ [v]) <? dc_versions_max_len); [| congruence].
  apply IHfuel. apply vi_decode_shrinks in E. lia.
Qed.

Lemma decode_value_no_fuel : forall c s, decode_value c s <> Err EFuel.
Proof.
  intros c s. destruct c; cbn [decode_value].
  - destruct (vi_decode s) as [[x r] |]; congruence.
  - destruct (len s <? n); congruence.
  - congruence.
  - destruct ((lo <=? len s) && (len s <=? hi)); congruence.
  - destruct (len s <? n); congruence.
  - unfold decode_pref. cbv zeta.
    repeat match goal with |- context [if ?c then _ else _] => destruct c; try congruence end.
  - pose proof (vers_loop_no_fuel (S (length s)) s [] (Nat.lt_succ_diag_r _)) as H.
    destruct (vers_loop (S (length s)) s []); congruence.
Qed.

Lemma known_step_frame_err : forall server f inner s e,
  frame inner = Err e -> exists e', known_step server f inner s = Err e' /\ e' <> EFuel.
Proof.
  intros server f inner s e H. unfold known_step.
  destruct (negb (enabled server f)); [eexists; split; [reflexivity | congruence] |].
  destruct (used f s); [eexists; split; [reflexivity | congruence] |].
  rewrite H. exists e. split; [reflexivity |].
  unfold frame in H. destruct (vi_decode inner) as [[l r] |]; [| congruence].
  destruct (len r <? l); congruence.
Qed.

Lemma known_step_frame_ok : forall server f inner s v rest,
  frame inner = Ok (v, rest) ->
  match known_step server f inner s with
  | Ok (rest', s') => rest' = rest /\ value_step server f v s = Some s'
  | Err e => e <> EFuel /\ value_step server f v s = None
  end.
Proof.
  intros server f inner s v rest H. unfold known_step, value_step, codec_ok.
  destruct (negb (enabled server f)); [split; congruence |].
  destruct (used f s); [split; congruence |].
  rewrite H. pose proof (decode_value_no_fuel (codec_of f) v) as NF.
  destruct (decode_value (codec_of f) v) as [[x r] | e]; [| split; congruence].
  destruct (is_nil r); cbn [negb andb]; [| split; congruence].
  destruct (validate f x); simpl; split; first [reflexivity | discriminate].
Qed.

Lemma loop_spec : forall server fuel b s, wf_bytes b = true -> (length b < fuel)%nat ->
  match loop fuel server b s with
  | Ok s' => exists es, rfc_entries fuel b = Some es /\ process server es s = Some s'
  | Err e => e <> EFuel /\
             (rfc_entries fuel b = None \/
              exists es, rfc_entries fuel b = Some es /\ process server es s = None)
  end.
Proof.
  induction fuel; intros b s Hw Hl; [lia |].
  cbn [loop rfc_entries].
  destruct (is_nil b) eqn:En. { exists []. split; reflexivity. }
  rewrite <- (vi_decode_rvi b Hw).
  destruct (vi_decode b) as [[tag inner] |] eqn:E1.
  2: { split; [congruence | left; reflexivity]. }
  pose proof (vi_decode_shrinks _ _ _ E1) as L1.
  pose proof (vi_decode_wf _ _ _ Hw E1) as W1.
  rewrite <- (vi_decode_rvi inner W1).
  destruct (vi_decode inner) as [[l b2] |] eqn:E2.
  2: { assert (F : frame inner = Err EEof) by (unfold frame; rewrite E2; reflexivity).
       destruct (lookup tag) as [f |].
       - destruct (known_step_frame_err server f inner s _ F) as [e' [K NE]]. rewrite K.
         split; [exact NE | left; reflexivity].
       - rewrite F. split; [congruence | left; reflexivity]. }
  pose proof (vi_decode_shrinks _ _ _ E2) as L2.
  pose proof (vi_decode_wf _ _ _ W1 E2) as W2.
  destruct (len b2 <? l) eqn:E3.
  { assert (F : frame inner = Err EEof) by (unfold frame; rewrite E2, E3; reflexivity).
    destruct (lookup tag) as [f |].
    - destruct (known_step_frame_err server f inner s _ F) as [e' [K NE]]. rewrite K.
      split; [exact NE | left; reflexivity].
    - rewrite F. split; [congruence | left; reflexivity]. }
  assert (F : frame inner = Ok (take l b2, drop l b2)) by (unfold frame; rewrite E2, E3; reflexivity).
  assert (Wd : wf_bytes (drop l b2) = true) by (apply wf_drop; exact W2).
  assert (Ld : (length (drop l b2) < fuel)%nat) by (pose proof (length_drop_le l b2); lia).
  destruct (lookup tag) as [f |] eqn:Lk.
  - pose proof (known_step_frame_ok server f inner s _ _ F) as K.
    destruct (known_step server f inner s) as [[rest' s'] | e].
    + destruct K as [-> V].
      specialize (IHfuel (drop l b2) s' Wd Ld).
      destruct (loop fuel server (drop l b2) s') as [s'' | e].
      * destruct IHfuel as [es [R P]]. rewrite R. exists ((tag, take l b2) :: es). split; [reflexivity |].
        cbn [process fst snd]. rewrite Lk, V. exact P.
      * destruct IHfuel as [NE [R | [es [R P]]]]; split; try exact NE.
        -- left. rewrite R. reflexivity.
        -- right. rewrite R. exists ((tag, take l b2) :: es). split; [reflexivity |].
           cbn [process fst snd]. rewrite Lk, V. exact P.
    + destruct K as [NE V]. split; [exact NE |].
      destruct (rfc_entries fuel (drop l b2)) as [es |]; [right | left; reflexivity].
      exists ((tag, take l b2) :: es). split; [reflexivity |].
      cbn [process fst snd]. rewrite Lk, V. reflexivity.
  - rewrite F.
    specialize (IHfuel (drop l b2) s Wd Ld).
    destruct (loop fuel server (drop l b2) s) as [s'' | e].
    + destruct IHfuel as [es [R P]]. rewrite R. exists ((tag, take l b2) :: es). split; [reflexivity |].
      cbn [process fst snd]. rewrite Lk. exact P.
    + destruct IHfuel as [NE [R | [es [R P]]]]; split; try exact NE.
      * left. rewrite R. reflexivity.
      * right. rewrite R. exists ((tag, take l b2) :: es). split; [reflexivity |].
        cbn [process fst snd]. rewrite Lk. exact P.
Qed.

(* ---------- per-parameter table: the source's codec + validator against the RFC rule ---------- *)
Lemma vi_mask_le : forall n, 0 < vi_mask n <= 4611686018427387904.
Proof.
  intros n. unfold vi_mask.
  destruct (n =? 1); [lia |]. destruct (n =? 2); [lia |]. destruct (n =? 4); lia.
Qed.

Lemma vi_decode_bound : forall b x r, vi_decode b = Some (x, r) -> x < 4611686018427387904.
Proof.
  intros [| h t] x r H; [discriminate |].
  unfold vi_decode in H. cbv zeta in H.
  destruct (len (h :: t) <? vi_len h); [discriminate |].
  inversion H; subst. pose proof (vi_mask_le (vi_len h)) as M.
  pose proof (N.mod_lt (be (take (vi_len h) (h :: t))) (vi_mask (vi_len h))) as L. lia.
Qed.

Lemma rint_vi : forall v, wf_bytes v = true ->
  rint v = match vi_decode v with Some (x, []) => Some x | _ => None end.
Proof. intros v W. unfold rint. rewrite <- (vi_decode_rvi v W). reflexivity. Qed.

Lemma table_varint : forall server f v lo hi soft,
  wf_bytes v = true -> codec_of f = CVarint ->
  (forall x, x < 4611686018427387904 -> (x <? lo) || (negb (x <=? hi) && negb soft) = true ->
             validate f (VInt x) = false) ->
  (forall x, x < 4611686018427387904 -> lo <= x <= hi -> validate f (VInt x) = true) ->
  (apply_rule server (RInt lo hi soft) v = MustReject -> codec_ok f v = None) /\
  (apply_rule server (RInt lo hi soft) v = MustAccept -> codec_ok f v <> None).
Proof.
  intros server f v lo hi soft W C Vr Va.
  unfold apply_rule, codec_ok. rewrite C. cbn [decode_value]. rewrite (rint_vi v W).
  destruct (vi_decode v) as [[x r] |] eqn:E; [| split; congruence].
  pose proof (vi_decode_bound _ _ _ E) as B.
  destruct r as [| r0 r]; cbn [is_nil andb]; [| split; congruence].
  destruct (N.ltb_spec x lo) as [L | L].
  - split; [| congruence]. intros _. rewrite Vr; [reflexivity | exact B |].
    apply orb_true_iff. left. apply N.ltb_lt. exact L.
  - destruct (N.leb_spec x hi) as [H | H].
    + split; [congruence |]. intros _. rewrite Va; [congruence | exact B | lia].
    + destruct soft; [split; congruence |]. split; [| congruence]. intros _.
      rewrite Vr; [reflexivity | exact B |].
      apply orb_true_iff. right. apply andb_true_iff. split; [| reflexivity].
      apply negb_true_iff. apply N.leb_gt. exact H.
Qed.


(* the generated ids are the RFC's ids (a changed tag in the source breaks this and the table below) *)
Lemma field_ids_match : map fid fields = Gen_C14.field_ids.
Proof. reflexivity. Qed.

Lemma rfc_rule_of_field : forall f, exists r, rfc_rule (fid f) = Some r.
Proof. intros f. destruct f; eexists; reflexivity. Qed.

Lemma lookup_fid : forall f, lookup (fid f) = Some f.
Proof. destruct f; reflexivity. Qed.

Lemma lookup_some : forall tag f, lookup tag = Some f -> fid f = tag.
Proof.
  intros tag f H. unfold lookup in H. apply find_some in H. destruct H as [_ H].
  apply N.eqb_eq in H. exact H.
Qed.

Definition easy_field (f : field) : bool := match f with FPa | FDcv => false | _ => true end.

Lemma table_int_fields : forall server f v,
  wf_bytes v = true ->
  match f with FIdle | FUdp | FMaxData | FSdBL | FSdBR | FSdU | FSBidi | FSUni | FDgram | FMad | FAcl => True
             | _ => False end ->
  (entry_verdict server (fid f, v) = MustReject -> codec_ok f v = None) /\
  (entry_verdict server (fid f, v) = MustAccept -> codec_ok f v <> None).
Proof.
  intros server f v W Hf.
  destruct f; try contradiction.
  - change (entry_verdict server (fid FIdle, v)) with (apply_rule server (RInt 0 two62 false) v).
    apply table_varint; [exact W | reflexivity | |]; unfold two62; intros x Hx; cbn [validate]; intros; [| reflexivity].
    apply orb_true_iff in H. destruct H as [H | H]; [apply N.ltb_lt in H; lia |].
    apply andb_true_iff in H. destruct H as [H _]. apply negb_true_iff in H. apply N.leb_gt in H. lia.
  - change (entry_verdict server (fid FUdp, v)) with (apply_rule server (RInt 1200 65527 true) v).
    apply table_varint; [exact W | reflexivity | |]; intros x Hx; cbn [validate];
      unfold max_udp_payload_size_min, max_udp_payload_size_max; intros H.
    + rewrite andb_false_r, orb_false_r in H. apply N.ltb_lt in H.
      apply andb_false_iff. left. apply N.leb_gt. exact H.
    + apply andb_true_iff. split; apply N.leb_le; lia.
  - change (entry_verdict server (fid FMaxData, v)) with (apply_rule server (RInt 0 two62 false) v).
    apply table_varint; [exact W | reflexivity | |]; unfold two62; intros x Hx; cbn [validate]; intros; [| reflexivity].
    apply orb_true_iff in H. destruct H as [H | H]; [apply N.ltb_lt in H; lia |].
    apply andb_true_iff in H. destruct H as [H _]. apply negb_true_iff in H. apply N.leb_gt in H. lia.
  - change (entry_verdict server (fid FSdBL, v)) with (apply_rule server (RInt 0 two62 false) v).
    apply table_varint; [exact W | reflexivity | |]; unfold two62; intros x Hx; cbn [validate]; intros; [| reflexivity].
    apply orb_true_iff in H. destruct H as [H | H]; [apply N.ltb_lt in H; lia |].
    apply andb_true_iff in H. destruct H as [H _]. apply negb_true_iff in H. apply N.leb_gt in H. lia.
  - change (entry_verdict server (fid FSdBR, v)) with (apply_rule server (RInt 0 two62 false) v).
    apply table_varint; [exact W | reflexivity | |]; unfold two62; intros x Hx; cbn [validate]; intros; [| reflexivity].
    apply orb_true_iff in H. destruct H as [H | H]; [apply N.ltb_lt in H; lia |].
    apply andb_true_iff in H. destruct H as [H _]. apply negb_true_iff in H. apply N.leb_gt in H. lia.
  - change (entry_verdict server (fid FSdU, v)) with (apply_rule server (RInt 0 two62 false) v).
    apply table_varint; [exact W | reflexivity | |]; unfold two62; intros x Hx; cbn [validate]; intros; [| reflexivity].
    apply orb_true_iff in H. destruct H as [H | H]; [apply N.ltb_lt in H; lia |].
    apply andb_true_iff in H. destruct H as [H _]. apply negb_true_iff in H. apply N.leb_gt in H. lia.
  - change (entry_verdict server (fid FSBidi, v)) with (apply_rule server (RInt 0 1152921504606846976 false) v).
    apply table_varint; [exact W | reflexivity | |]; intros x Hx; cbn [validate]; unfold upper_ok,
      initial_max_streams_bidi_bound_inclusive, initial_max_streams_bidi_bound; intros H.
    + apply orb_true_iff in H. destruct H as [H | H]; [apply N.ltb_lt in H; lia |].
      apply andb_true_iff in H. destruct H as [H _]. apply negb_true_iff in H. exact H.
    + apply N.leb_le. lia.
  - change (entry_verdict server (fid FSUni, v)) with (apply_rule server (RInt 0 1152921504606846976 false) v).
    apply table_varint; [exact W | reflexivity | |]; intros x Hx; cbn [validate]; unfold upper_ok,
      initial_max_streams_uni_bound_inclusive, initial_max_streams_uni_bound; intros H.
    + apply orb_true_iff in H. destruct H as [H | H]; [apply N.ltb_lt in H; lia |].
      apply andb_true_iff in H. destruct H as [H _]. apply negb_true_iff in H. exact H.
    + apply N.leb_le. lia.
  - change (entry_verdict server (fid FDgram, v)) with (apply_rule server (RInt 0 two62 false) v).
    apply table_varint; [exact W | reflexivity | |]; unfold two62; intros x Hx; cbn [validate]; intros; [| reflexivity].
    apply orb_true_iff in H. destruct H as [H | H]; [apply N.ltb_lt in H; lia |].
    apply andb_true_iff in H. destruct H as [H _]. apply negb_true_iff in H. apply N.leb_gt in H. lia.
  - (* max_ack_delay: RFC "values of 2^14 or greater are invalid" against the source's comparison *)
    change (entry_verdict server (fid FMad, v)) with (apply_rule server (RInt 0 16383 false) v).
    apply table_varint; [exact W | reflexivity | |]; intros x Hx; cbn [validate]; unfold upper_ok,
      max_ack_delay_bound_inclusive, max_ack_delay_bound; intros H.
    + apply orb_true_iff in H. destruct H as [H | H]; [apply N.ltb_lt in H; lia |].
      apply andb_true_iff in H. destruct H as [H _]. apply negb_true_iff in H. apply N.leb_gt in H.
      apply N.ltb_ge. lia.
    + apply N.ltb_lt. lia.
  - change (entry_verdict server (fid FAcl, v)) with (apply_rule server (RInt 2 two62 false) v).
    apply table_varint; [exact W | reflexivity | |]; unfold two62; intros x Hx; cbn [validate];
      unfold active_connection_id_limit_min; intros H.
    + apply orb_true_iff in H. destruct H as [H | H]; [apply N.ltb_lt in H; apply N.leb_gt; exact H |].
      apply andb_true_iff in H. destruct H as [H _]. apply negb_true_iff in H. apply N.leb_gt in H. lia.
    + apply N.leb_le. lia.
Qed.

Lemma enabled_common : forall server f,
  match f with FOdcid | FSrt | FPa | FRscid => False | _ => True end -> enabled server f = true.
Proof. intros server f H. destruct f; try contradiction; destruct server; reflexivity. Qed.

Lemma enabled_server_only : forall server f,
  match f with FOdcid | FSrt | FPa | FRscid => True | _ => False end -> enabled server f = server.
Proof. intros server f H. destruct f; try contradiction; destruct server; reflexivity. Qed.

Lemma codec_ok_cid : forall f lo hi v, codec_of f = CCid lo hi ->
  match f with FOdcid | FIscid | FRscid => True | _ => False end ->
  codec_ok f v = if (lo <=? len v) && (len v <=? hi) then Some (VBytes (Some v)) else None.
Proof.
  intros f lo hi v C Hf. unfold codec_ok. rewrite C. cbn [decode_value].
  destruct ((lo <=? len v) && (len v <=? hi)); [| reflexivity].
  destruct f; try contradiction; reflexivity.
Qed.

Lemma table_cid_fields : forall server f v,
  match f with FOdcid | FIscid | FRscid => True | _ => False end ->
  (entry_verdict server (fid f, v) = MustReject -> enabled server f = false \/ codec_ok f v = None) /\
  (entry_verdict server (fid f, v) = MustAccept -> dev_class server (fid f, v) = 0 ->
     enabled server f = true /\ codec_ok f v <> None).
Proof.
  intros server f v Hf. destruct f; try contradiction.
  - change (entry_verdict server (fid FOdcid, v)) with (apply_rule server (RCid 8 20 true) v).
    rewrite (codec_ok_cid FOdcid 8 20 v eq_refl I). rewrite (enabled_server_only server FOdcid I).
    cbn [apply_rule]. unfold server_only, cid_rule.
    destruct server; [| split; [auto | congruence]].
    destruct ((8 <=? len v) && (len v <=? 20)); split; intros; try congruence; auto.
    split; congruence.
  - change (entry_verdict server (fid FIscid, v)) with (apply_rule server (RCid 0 20 false) v).
    rewrite (codec_ok_cid FIscid 0 20 v eq_refl I). rewrite (enabled_common server FIscid I).
    cbn [apply_rule]. unfold cid_rule.
    destruct ((0 <=? len v) && (len v <=? 20)); split; intros; try congruence; auto.
    split; congruence.
  - change (entry_verdict server (fid FRscid, v)) with (apply_rule server (RCid 0 20 true) v).
    rewrite (codec_ok_cid FRscid 4 20 v eq_refl I). rewrite (enabled_server_only server FRscid I).
    cbn [apply_rule]. unfold server_only, cid_rule.
    destruct server; [| split; [auto | congruence]].
    change (dev_class true (fid FRscid, v)) with (if len v <? 4 then 2 else 0).
    destruct (N.leb_spec (len v) 20) as [H | H].
    + rewrite !andb_true_r.
      assert (Z0 : (0 <=? len v) = true) by (apply N.leb_le; lia). rewrite Z0.
      split; [congruence |]. intros _ D. destruct (N.ltb_spec (len v) 4) as [L | L]; [discriminate |].
      destruct (N.leb_spec 4 (len v)); [split; congruence | lia].
    + rewrite !andb_false_r. split; [auto | congruence].
Qed.

Lemma table_token_flag_fields : forall server f v,
  match f with FSrt | FMig | FMtu => True | _ => False end ->
  (entry_verdict server (fid f, v) = MustReject -> enabled server f = false \/ codec_ok f v = None) /\
  (entry_verdict server (fid f, v) = MustAccept -> enabled server f = true /\ codec_ok f v <> None).
Proof.
  intros server f v Hf. destruct f; try contradiction.
  - change (entry_verdict server (fid FMig, v)) with (flag_rule v).
    rewrite (enabled_common server FMig I). unfold flag_rule, codec_ok. cbn [codec_of decode_value validate].
    destruct (is_nil v); cbn [andb]; split; intros; try congruence; auto. split; congruence.
  - change (entry_verdict server (fid FSrt, v)) with
      (server_only server (if len v =? 16 then MustAccept else MustReject)).
    rewrite (enabled_server_only server FSrt I). unfold server_only.
    destruct server; [| split; [auto | congruence]].
    unfold codec_ok. cbn [codec_of decode_value]. unfold stateless_reset_token_len.
    destruct (N.eqb_spec (len v) 16) as [E | E].
    + split; [congruence |]. intros _. split; [reflexivity |].
      destruct (N.ltb_spec (len v) 16); [lia |].
      assert (D : drop 16 v = []).
      { apply length_zero_iff_nil. pose proof (len_drop 16 v) as LD. unfold len in *. lia. }
      rewrite D. cbn [is_nil validate andb]. congruence.
    + split; [| congruence]. intros _. right.
      destruct (N.ltb_spec (len v) 16); [reflexivity |].
      assert (D : is_nil (drop 16 v) = false).
      { destruct (drop 16 v) eqn:Ed; [| reflexivity]. exfalso.
        pose proof (len_drop 16 v) as LD. rewrite Ed in LD. unfold len in *. simpl in LD. lia. }
      rewrite D. reflexivity.
  - change (entry_verdict server (fid FMtu, v)) with (flag_rule v).
    rewrite (enabled_common server FMtu I). unfold flag_rule, codec_ok. cbn [codec_of decode_value validate].
    destruct (is_nil v); cbn [andb]; split; intros; try congruence; auto. split; congruence.
Qed.

Lemma be_single : forall h, be [h] = h.
Proof. intros h. unfold be. cbn [fold_left]. lia. Qed.

Lemma vi_decode_single : forall h, h < 256 ->
  vi_decode [h] = if h <? 64 then Some (h, []) else None.
Proof.
  intros h Hh. unfold vi_decode. cbv zeta. unfold vi_len.
  destruct (N.ltb_spec h 64) as [L | L].
  - rewrite (N.div_small h 64 L). change (0 =? 0) with true. cbv iota.
    change (len [h] <? 1) with false. cbv iota.
    change (take 1 [h]) with [h]. change (drop 1 [h]) with (@nil N). rewrite be_single.
    change (vi_mask 1) with 64. rewrite (N.mod_small h 64 L). reflexivity.
  - assert (Q : 1 <= h / 64) by (apply N.div_le_lower_bound; lia).
    destruct (N.eqb_spec (h / 64) 0) as [E | E]; [lia |].
    destruct (h / 64 =? 1); [reflexivity |]. destruct (h / 64 =? 2); reflexivity.
Qed.

Lemma table_ade : forall server v, wf_bytes v = true ->
  (entry_verdict server (fid FAde, v) = MustReject -> codec_ok FAde v = None) /\
  (entry_verdict server (fid FAde, v) = MustAccept -> dev_class server (fid FAde, v) = 0 ->
     codec_ok FAde v <> None).
Proof.
  intros server v W.
  change (entry_verdict server (fid FAde, v)) with (apply_rule server (RInt 0 20 false) v).
  assert (DC : dev_class server (fid FAde, v) =
               if negb (len v =? 1) && (match rint v with Some x => x <=? 20 | None => false end)
               then 1 else 0) by (destruct server; reflexivity).
  rewrite DC. clear DC.
  unfold codec_ok. change (codec_of FAde) with (CFixed 1). cbn [decode_value apply_rule].
  destruct v as [| h [| h2 t]].
  - split; [reflexivity | discriminate].
  - assert (Hh : h < 256).
    { simpl in W. apply andb_true_iff in W. destruct W as [W _]. apply N.ltb_lt in W. exact W. }
    rewrite (rint_vi [h] W), (vi_decode_single h Hh).
    change (len [h] <? 1) with false. cbv iota.
    change (take 1 [h]) with [h]. change (drop 1 [h]) with (@nil N). rewrite be_single.
    cbn [is_nil andb validate]. unfold upper_ok, ack_delay_exponent_bound_inclusive, ack_delay_exponent_bound.
    destruct (N.ltb_spec h 64) as [L | L].
    + assert (Z0 : (h <? 0) = false) by (apply N.ltb_ge; lia). rewrite Z0.
      destruct (h <=? 20); split; congruence.
    + assert (G : (h <=? 20) = false) by (apply N.leb_gt; lia). rewrite G. split; congruence.
  - assert (L1 : (len (h :: h2 :: t) <? 1) = false).
    { apply N.ltb_ge. unfold len. simpl length. lia. }
    rewrite L1. change (drop 1 (h :: h2 :: t)) with (h2 :: t). cbn [is_nil andb].
    split; [reflexivity |].
    assert (L2 : (len (h :: h2 :: t) =? 1) = false).
    { apply N.eqb_neq. unfold len. simpl length. lia. }
    rewrite L2. cbn [negb andb].
    destruct (rint (h :: h2 :: t)) as [x |]; [| discriminate].
    destruct (x <? 0); [discriminate |]. destruct (x <=? 20); discriminate.
Qed.

(* the table for every parameter except preferred_address and dc_supported_versions *)
Lemma table_easy : forall server f v, wf_bytes v = true -> easy_field f = true ->
  (entry_verdict server (fid f, v) = MustReject -> enabled server f = false \/ codec_ok f v = None) /\
  (entry_verdict server (fid f, v) = MustAccept -> dev_class server (fid f, v) = 0 ->
     enabled server f = true /\ codec_ok f v <> None).
Proof.
  intros server f v W E.
  destruct f; try discriminate.
  - destruct (table_int_fields server FIdle v W I) as [A B].
    split; [intros H; right; exact (A H) | intros H _; split; [apply enabled_common; exact I | exact (B H)]].
  - destruct (table_int_fields server FUdp v W I) as [A B].
    split; [intros H; right; exact (A H) | intros H _; split; [apply enabled_common; exact I | exact (B H)]].
  - destruct (table_int_fields server FMaxData v W I) as [A B].
    split; [intros H; right; exact (A H) | intros H _; split; [apply enabled_common; exact I | exact (B H)]].
  - destruct (table_int_fields server FSdBL v W I) as [A B].
    split; [intros H; right; exact (A H) | intros H _; split; [apply enabled_common; exact I | exact (B H)]].
  - destruct (table_int_fields server FSdBR v W I) as [A B].
    split; [intros H; right; exact (A H) | intros H _; split; [apply enabled_common; exact I | exact (B H)]].
  - destruct (table_int_fields server FSdU v W I) as [A B].
    split; [intros H; right; exact (A H) | intros H _; split; [apply enabled_common; exact I | exact (B H)]].
  - destruct (table_int_fields server FSBidi v W I) as [A B].
    split; [intros H; right; exact (A H) | intros H _; split; [apply enabled_common; exact I | exact (B H)]].
  - destruct (table_int_fields server FSUni v W I) as [A B].
    split; [intros H; right; exact (A H) | intros H _; split; [apply enabled_common; exact I | exact (B H)]].
  - destruct (table_int_fields server FDgram v W I) as [A B].
    split; [intros H; right; exact (A H) | intros H _; split; [apply enabled_common; exact I | exact (B H)]].
  - destruct (table_ade server v W) as [A B].
    split; [intros H; right; exact (A H) | intros H D; split; [apply enabled_common; exact I | exact (B H D)]].
  - destruct (table_int_fields server FMad v W I) as [A B].
    split; [intros H; right; exact (A H) | intros H _; split; [apply enabled_common; exact I | exact (B H)]].
  - destruct (table_token_flag_fields server FMig v I) as [A B].
    split; [exact A | intros H _; exact (B H)].
  - destruct (table_int_fields server FAcl v W I) as [A B].
    split; [intros H; right; exact (A H) | intros H _; split; [apply enabled_common; exact I | exact (B H)]].
  - exact (table_cid_fields server FOdcid v I).
  - destruct (table_token_flag_fields server FSrt v I) as [A B].
    split; [exact A | intros H _; exact (B H)].
  - exact (table_cid_fields server FIscid v I).
  - exact (table_cid_fields server FRscid v I).
  - destruct (table_token_flag_fields server FMtu v I) as [A B].
    split; [exact A | intros H _; exact (B H)].
Qed.

(* ---------- entries level ---------- *)
Lemma lookup_none_rfc : forall id, lookup id = None -> rfc_rule id = None.
Proof.
  intros id H. unfold rfc_rule, rfc_table. cbn [find fst snd].
  repeat match goal with
  | |- context [N.eqb ?k id] =>
      let Ek := fresh "Ek" in
      destruct (N.eqb_spec k id) as [Ek | Ek]; [subst id; vm_compute in H; discriminate |]
  end.
  reflexivity.
Qed.

Lemma known_lookup : forall id, known id = match lookup id with Some _ => true | None => false end.
Proof.
  intros id. unfold known. destruct (lookup id) as [f |] eqn:L.
  - apply lookup_some in L. subst id. destruct (rfc_rule_of_field f) as [r ->]. reflexivity.
  - rewrite (lookup_none_rfc id L). reflexivity.
Qed.

Lemma field_eqb_refl : forall f, field_eqb f f = true.
Proof. destruct f; reflexivity. Qed.
Lemma field_eqb_eq : forall a b, field_eqb a b = true -> a = b.
Proof. destruct a, b; simpl; intros; congruence. Qed.

Definition used_id (s : st) (e : N * list N) : bool :=
  match lookup (fst e) with Some f => used f s | None => false end.

Lemma value_step_some : forall server f v s s', value_step server f v s = Some s' ->
  enabled server f = true /\ used f s = false /\ exists x, codec_ok f v = Some x /\ s' = (f, x) :: s.
Proof.
  intros server f v s s' H. unfold value_step in H.
  destruct (enabled server f); [| discriminate]. destruct (used f s); [discriminate |].
  cbn [negb] in H. destruct (codec_ok f v) as [x |]; [| discriminate].
  inversion H. repeat split; eauto.
Qed.

Definition easy_entries (es : list (N * list N)) : Prop :=
  Forall (fun e => wf_bytes (snd e) = true /\
                   match lookup (fst e) with Some f => easy_field f = true | None => True end) es.

Lemma process_reject : forall server es s, easy_entries es ->
  existsb (used_id s) es = true \/ dup_known es = true \/
  existsb (fun e => is_reject (entry_verdict server e)) es = true ->
  process server es s = None.
Proof.
  induction es as [| [id v] t IH]; intros s Ez H.
  - simpl in H. destruct H as [H | [H | H]]; discriminate.
  - inversion Ez as [| ? ? [Wv Ef] Ez']; subst. cbn [process fst snd].
    cbn [existsb dup_known] in H. unfold used_id at 1 in H. cbn [fst snd] in H, Ef.
    rewrite known_lookup in H.
    destruct (lookup id) as [f |] eqn:Lk.
    + destruct (value_step server f v s) as [s' |] eqn:V; [| reflexivity].
      destruct (value_step_some _ _ _ _ _ V) as [En [Us [x [Cx ->]]]].
      pose proof (lookup_some _ _ Lk) as Fid.
      apply IH; [exact Ez' |].
      rewrite Us in H. cbn [orb andb] in H.
      destruct H as [H | [H | H]].
      * left. apply existsb_exists in H. destruct H as [e [In1 U]]. apply existsb_exists. exists e. split; [exact In1 |].
        unfold used_id in *. destruct (lookup (fst e)) as [g |]; [| discriminate].
        unfold used in *. cbn [existsb fst]. rewrite U. apply orb_true_r.
      * apply orb_true_iff in H. destruct H as [H | H]; [| right; left; exact H].
        left. apply existsb_exists in H. destruct H as [e [In1 U]]. apply existsb_exists. exists e. split; [exact In1 |].
        apply N.eqb_eq in U. unfold used_id. rewrite U, Lk. unfold used. cbn [existsb fst].
        rewrite field_eqb_refl. reflexivity.
      * apply orb_true_iff in H. destruct H as [H | H]; [| right; right; exact H].
        exfalso. destruct (table_easy server f v Wv Ef) as [A _]. rewrite Fid in A.
        destruct (entry_verdict server (id, v)) eqn:EV; try discriminate.
        destruct (A eq_refl) as [A1 | A1]; congruence.
    + apply IH; [exact Ez' |]. cbn [orb andb] in H.
      destruct H as [H | [H | H]]; [left; exact H | right; left; exact H |].
      right. right. unfold entry_verdict at 1 in H. cbn [fst] in H.
      rewrite (lookup_none_rfc id Lk) in H. exact H.
Qed.

Definition is_accept (v : verdict) : bool := match v with MustAccept => true | _ => false end.

Lemma process_accept : forall server es s, easy_entries es ->
  existsb (used_id s) es = false -> dup_known es = false ->
  forallb (fun e => is_accept (entry_verdict server e)) es = true ->
  has_dev server es = false ->
  exists s', process server es s = Some s'.
Proof.
  induction es as [| [id v] t IH]; intros s Ez U D A Dev.
  - exists s. reflexivity.
  - inversion Ez as [| ? ? [Wv Ef] Ez']; subst. cbn [process fst snd].
    cbn [existsb dup_known forallb] in U, D, A. unfold has_dev in Dev. cbn [existsb] in Dev.
    apply orb_false_iff in U. destruct U as [U1 U2].
    apply orb_false_iff in D. destruct D as [D1 D2].
    apply andb_true_iff in A. destruct A as [A1 A2].
    apply orb_false_iff in Dev. destruct Dev as [V1 V2].
    unfold used_id in U1. cbn [fst snd] in U1, Ef. rewrite known_lookup in D1. cbn [fst] in D1.
    destruct (lookup id) as [f |] eqn:Lk.
    + pose proof (lookup_some _ _ Lk) as Fid.
      destruct (table_easy server f v Wv Ef) as [_ T]. rewrite Fid in T.
      destruct (entry_verdict server (id, v)) eqn:EV; try discriminate.
      apply negb_false_iff in V1. apply N.eqb_eq in V1.
      destruct (T eq_refl V1) as [En Cx].
      destruct (codec_ok f v) as [x |] eqn:Cv; [| congruence].
      assert (VS : value_step server f v s = Some ((f, x) :: s)).
      { unfold value_step. rewrite En, U1, Cv. reflexivity. }
      rewrite VS. apply IH; auto.
      cbn [andb] in D1.
      destruct (existsb (used_id ((f, x) :: s)) t) eqn:X; [| reflexivity]. exfalso.
      apply existsb_exists in X. destruct X as [e [In1 X]].
      unfold used_id in X. destruct (lookup (fst e)) as [g |] eqn:Lg; [| discriminate].
      unfold used in X. cbn [existsb fst] in X. apply orb_true_iff in X. destruct X as [X | X].
      * apply field_eqb_eq in X. subst g. apply lookup_some in Lg.
        assert (existsb (fun x0 => fst x0 =? id) t = true); [| congruence].
        apply existsb_exists. exists e. split; [exact In1 |]. apply N.eqb_eq. congruence.
      * assert (existsb (used_id s) t = true); [| congruence].
        apply existsb_exists. exists e. split; [exact In1 |]. unfold used_id. rewrite Lg. exact X.
    + apply IH; auto.
Qed.

(* ---------- block level ---------- *)
Definition no_pa_dc (es : list (N * list N)) : bool :=
  forallb (fun e => negb ((fst e =? 13) || (fst e =? 14417920))) es.

Lemma entries_wf : forall fuel b es, wf_bytes b = true -> rfc_entries fuel b = Some es ->
  Forall (fun e => wf_bytes (snd e) = true) es.
Proof.
  induction fuel; intros b es W H; [discriminate |].
  cbn [rfc_entries] in H. destruct (is_nil b). { inversion H. constructor. }
  rewrite <- (vi_decode_rvi b W) in H.
  destruct (vi_decode b) as [[id b1] |] eqn:E1; [| discriminate].
  pose proof (vi_decode_wf _ _ _ W E1) as W1. rewrite <- (vi_decode_rvi b1 W1) in H.
  destruct (vi_decode b1) as [[l b2] |] eqn:E2; [| discriminate].
  pose proof (vi_decode_wf _ _ _ W1 E2) as W2.
  destruct (len b2 <? l); [discriminate |].
  destruct (rfc_entries fuel (drop l b2)) as [es' |] eqn:R; [| discriminate].
  inversion H; subst. constructor; [apply wf_take; exact W2 |].
  eapply IHfuel; [| exact R]. apply wf_drop. exact W2.
Qed.

Lemma easy_of_no_pa_dc : forall es, Forall (fun e => wf_bytes (snd e) = true) es ->
  no_pa_dc es = true -> easy_entries es.
Proof.
  induction es as [| e t IH]; intros W H; [constructor |].
  inversion W; subst. cbn [no_pa_dc forallb] in H. apply andb_true_iff in H. destruct H as [Q1 Q2].
  constructor; [| apply IH; assumption]. split; [assumption |].
  destruct (lookup (fst e)) as [f |] eqn:L; [| exact I].
  apply lookup_some in L. apply negb_true_iff in Q1. apply orb_false_iff in Q1. destruct Q1 as [P D].
  destruct f; try reflexivity; rewrite <- L in *; vm_compute in P, D; discriminate.
Qed.

Lemma malformed_rejected : forall server blk, wf_bytes blk = true ->
  rfc_entries (S (length blk)) blk = None -> impl_accept server blk = false.
Proof.
  intros server blk W H. unfold impl_accept, decode_parameters.
  pose proof (loop_spec server (S (length blk)) blk [] W (Nat.lt_succ_diag_r _)) as L.
  destruct (loop (S (length blk)) server blk []); [| reflexivity].
  destruct L as [es [R _]]. congruence.
Qed.

Lemma accept_iff_rfc_partial : forall server blk es, wf_bytes blk = true ->
  rfc_entries (S (length blk)) blk = Some es -> no_pa_dc es = true -> has_dev server es = false ->
  (rfc_verdict server blk = MustAccept -> impl_accept server blk = true) /\
  (rfc_verdict server blk = MustReject -> impl_accept server blk = false).
Proof.
  intros server blk es W R NP ND.
  pose proof (easy_of_no_pa_dc es (entries_wf _ _ _ W R) NP) as Ez.
  unfold rfc_verdict, impl_accept, decode_parameters. rewrite R.
  pose proof (loop_spec server (S (length blk)) blk [] W (Nat.lt_succ_diag_r _)) as L.
  unfold entries_verdict. split; intros V.
  - destruct (dup_known es || existsb (fun e => is_reject (entry_verdict server e)) es) eqn:A; [discriminate |].
    destruct (dup_unknown es || existsb (fun e => is_unspec (entry_verdict server e)) es) eqn:B; [discriminate |].
    apply orb_false_iff in A. destruct A as [A1 A2]. apply orb_false_iff in B. destruct B as [_ B2].
    assert (AA : forallb (fun e => is_accept (entry_verdict server e)) es = true).
    { apply forallb_forall. intros e In1.
      assert (X1 : is_reject (entry_verdict server e) = false).
      { destruct (is_reject (entry_verdict server e)) eqn:X; [| reflexivity].
        assert (existsb (fun e => is_reject (entry_verdict server e)) es = true); [| congruence].
        apply existsb_exists. eauto. }
      assert (X2 : is_unspec (entry_verdict server e) = false).
      { destruct (is_unspec (entry_verdict server e)) eqn:X; [| reflexivity].
        assert (existsb (fun e => is_unspec (entry_verdict server e)) es = true); [| congruence].
        apply existsb_exists. eauto. }
      destruct (entry_verdict server e); simpl in *; congruence. }
    assert (U0 : existsb (used_id []) es = false).
    { destruct (existsb (used_id []) es) eqn:X; [| reflexivity].
      apply existsb_exists in X. destruct X as [e [_ X]]. unfold used_id in X.
      destruct (lookup (fst e)); discriminate. }
    destruct (process_accept server es [] Ez U0 A1 AA ND) as [s' P].
    destruct (loop (S (length blk)) server blk []); [reflexivity |].
    destruct L as [_ [L | [es' [R' P']]]]; congruence.
  - destruct (dup_known es || existsb (fun e => is_reject (entry_verdict server e)) es) eqn:A.
    2: { destruct (dup_unknown es || existsb (fun e => is_unspec (entry_verdict server e)) es); discriminate. }
    apply orb_true_iff in A.
    assert (P : process server es [] = None).
    { apply process_reject; [exact Ez |]. destruct A as [A | A]; auto. }
    destruct (loop (S (length blk)) server blk []); [| reflexivity].
    destruct L as [es' [R' P']]. congruence.
Qed.

(* session level: every rejection of the block surfaces as TRANSPORT_PARAMETER_ERROR (0x08), and the
   session never reports any other error code *)
Lemma error_code : forall server blk peer retry initial,
  (impl_accept server blk = false -> session server blk peer retry initial = SError 8) /\
  (session server blk peer retry initial = SAccept \/ session server blk peer retry initial = SError 8).
Proof.
  intros server blk peer retry initial. unfold impl_accept, session.
  destruct (decode_parameters server blk) as [s | e]; cbv zeta.
  2: { split; [reflexivity | right; reflexivity]. }
  split; [discriminate |].
  destruct (negb (cid_matches (get FIscid s) peer)); [right; reflexivity |].
  destruct server; [| left; reflexivity].
  match goal with |- context [negb ?x] => destruct x end; cbn [negb]; [| right; reflexivity].
  destruct (negb (cid_matches (get FOdcid s) initial)); [right; reflexivity | left; reflexivity].
Qed.

(* connection id authentication: acceptance at session level implies the RFC 7.3 equalities *)
Lemma session_accept_cids : forall server blk peer retry initial,
  session server blk peer retry initial = SAccept ->
  exists s, decode_parameters server blk = Ok s /\
    get FIscid s = VBytes (Some peer) /\
    (server = true -> get FOdcid s = VBytes (Some initial) /\
       match retry with Some r => get FRscid s = VBytes (Some r) | None => get FRscid s = VBytes None end).
Proof.
  intros server blk peer retry initial H. unfold session in H. cbv zeta in H.
  destruct (decode_parameters server blk) as [s | e]; [| discriminate]. exists s. split; [reflexivity |].
  assert (CM : forall d x, cid_matches d x = true -> d = VBytes (Some x)).
  { intros d x M. unfold cid_matches in M. destruct d as [| | [c |] | |]; try discriminate.
    destruct (list_eq_dec N.eq_dec c x); [subst; reflexivity | discriminate]. }
  destruct (cid_matches (get FIscid s) peer) eqn:M1; cbn [negb] in H; [| discriminate].
  split; [apply CM; exact M1 |]. intros ->.
  destruct retry as [r |]; destruct (get FRscid s) as [| | [c |] | |] eqn:G; cbn [negb] in H; try discriminate.
  - destruct (cid_matches (VBytes (Some c)) r) eqn:M2; cbn [negb] in H; [| discriminate].
    destruct (cid_matches (get FOdcid s) initial) eqn:M3; cbn [negb] in H; [| discriminate].
    split; [apply CM; exact M3 | apply CM; exact M2].
  - destruct (cid_matches (get FOdcid s) initial) eqn:M3; cbn [negb] in H; [| discriminate].
    split; [apply CM; exact M3 | reflexivity].
Qed.

(* unknown parameters, anywhere in the sequence, change nothing *)
Lemma unknown_ignored : forall server es1 es2 id v s, lookup id = None ->
  process server (es1 ++ (id, v) :: es2) s = process server (es1 ++ es2) s.
Proof.
  induction es1 as [| e t IH]; intros es2 id v s H.
  - cbn [app process fst]. rewrite H. reflexivity.
  - cbn [app process]. destruct (lookup (fst e)) as [f |].
    + destruct (value_step server f (snd e) s); [apply IH; exact H | reflexivity].
    + apply IH. exact H.
Qed.

Lemma decode_is_process : forall server blk s, wf_bytes blk = true ->
  decode_parameters server blk = Ok s ->
  exists es, rfc_entries (S (length blk)) blk = Some es /\ process server es [] = Some s.
Proof.
  intros server blk s W H. unfold decode_parameters in H.
  pose proof (loop_spec server (S (length blk)) blk [] W (Nat.lt_succ_diag_r _)) as L.
  rewrite H in L. exact L.
Qed.

(* ---------- applied exactly: every field of the result is the declared value or the default ---------- *)
Lemma fid_inj : forall f g, fid f = fid g -> f = g.
Proof.
  intros f g H. pose proof (lookup_fid f) as A. pose proof (lookup_fid g) as B. rewrite H in A. congruence.
Qed.

Lemma get_unused : forall f s, used f s = false -> get f s = default f.
Proof.
  intros f s H. unfold get, used in *.
  induction s as [| e t IH]; [reflexivity |]. cbn [existsb find] in *.
  apply orb_false_iff in H. destruct H as [H1 H2]. rewrite H1. apply IH. exact H2.
Qed.

Definition declared_value (f : field) (es : list (N * list N)) : value :=
  match find (fun e => fst e =? fid f) es with
  | Some e => match codec_ok f (snd e) with Some x => x | None => default f end
  | None => default f
  end.

Lemma process_get : forall server es s0 s, process server es s0 = Some s -> forall f,
  get f s = if used f s0 then get f s0 else declared_value f es.
Proof.
  induction es as [| [id v] t IH]; intros s0 s P f.
  - inversion P; subst. destruct (used f s) eqn:U; [reflexivity | apply get_unused; exact U].
  - cbn [process fst snd] in P. unfold declared_value. cbn [find fst snd].
    destruct (lookup id) as [g |] eqn:Lk.
    + destruct (value_step server g v s0) as [s1 |] eqn:V; [| discriminate].
      destruct (value_step_some _ _ _ _ _ V) as [_ [Us [x [Cx ->]]]].
      pose proof (lookup_some _ _ Lk) as Fid.
      rewrite (IH _ _ P f). unfold used at 1. cbn [existsb fst]. unfold get at 1. cbn [find fst snd].
      destruct (field_eqb g f) eqn:E.
      * apply field_eqb_eq in E. subst g. cbn [orb]. rewrite Us.
        rewrite Fid, N.eqb_refl. cbn [snd]. rewrite Cx. reflexivity.
      * cbn [orb]. fold (used f s0). fold (get f s0).
        destruct (N.eqb_spec id (fid f)) as [Q | Q].
        { exfalso. rewrite <- Fid in Q. apply fid_inj in Q. subst g. rewrite field_eqb_refl in E. discriminate. }
        reflexivity.
    + rewrite (IH _ _ P f).
      destruct (N.eqb_spec id (fid f)) as [Q | Q]; [| reflexivity].
      exfalso. subst id. rewrite lookup_fid in Lk. discriminate.
Qed.

Lemma applied_exact : forall server blk s, wf_bytes blk = true ->
  decode_parameters server blk = Ok s ->
  exists es, rfc_entries (S (length blk)) blk = Some es /\
    forall f, get f s = declared_value f es.
Proof.
  intros server blk s W H. destruct (decode_is_process server blk s W H) as [es [R P]].
  exists es. split; [exact R |]. intros f. rewrite (process_get server es [] s P f). reflexivity.
Qed.

(* for the integer parameters decoded as variable-length integers the declared value is the RFC's
   reading of the value field, and the defaults are the RFC's defaults *)
Lemma declared_int_rfc : forall f es dflt,
  codec_of f = CVarint -> default f = VInt dflt ->
  Forall (fun e => wf_bytes (snd e) = true) es ->
  (forall e, In e es -> fst e = fid f -> codec_ok f (snd e) <> None) ->
  declared_value f es = VInt (int_or (fid f) dflt es).
Proof.
  intros f es dflt C D W OK. unfold declared_value, int_or, declared.
  destruct (find (fun e => fst e =? fid f) es) as [e |] eqn:F; [| exact D].
  apply find_some in F. destruct F as [In1 Eq]. apply N.eqb_eq in Eq.
  specialize (OK e In1 Eq). rewrite Forall_forall in W. specialize (W e In1).
  unfold codec_ok in *. rewrite C in *. cbn [decode_value] in *. rewrite (rint_vi (snd e) W).
  destruct (vi_decode (snd e)) as [[x r] |]; [| congruence].
  destruct r; cbn [is_nil andb] in *; [| congruence].
  destruct (validate f (VInt x)); [reflexivity | congruence].
Qed.

Lemma rfc_defaults :
  default FIdle = VInt 0 /\ default FUdp = VInt 65527 /\ default FMaxData = VInt 0 /\
  default FSdBL = VInt 0 /\ default FSdBR = VInt 0 /\ default FSdU = VInt 0 /\
  default FSBidi = VInt 0 /\ default FSUni = VInt 0 /\ default FDgram = VInt 0 /\
  default FAde = VInt 3 /\ default FMad = VInt 25 /\ default FAcl = VInt 2 /\
  default FMig = VFlag false /\ default FMtu = VFlag false /\
  default FOdcid = VBytes None /\ default FSrt = VBytes None /\ default FPa = VPref None /\
  default FIscid = VBytes None /\ default FRscid = VBytes None /\ default FDcv = VVers [].
Proof. repeat split; reflexivity. Qed.

(* the bounds the source states, as the RFC states them *)
Lemma bounds_are_rfc :
  max_ack_delay_bound = 16384 /\ max_ack_delay_bound_inclusive = false /\
  ack_delay_exponent_bound = 20 /\ ack_delay_exponent_bound_inclusive = true /\
  max_udp_payload_size_min = 1200 /\ active_connection_id_limit_min = 2 /\
  initial_max_streams_bidi_bound = 1152921504606846976 /\ initial_max_streams_bidi_bound_inclusive = true /\
  initial_max_streams_uni_bound = 1152921504606846976 /\ initial_max_streams_uni_bound_inclusive = true /\
  cid_max_len = 20 /\ stateless_reset_token_len = 16 /\
  preferred_address_rejects_empty_cid = true /\
  client_may_send_original_destination_connection_id = false /\
  client_may_send_stateless_reset_token = false /\ client_may_send_preferred_address = false /\
  client_may_send_retry_source_connection_id = false /\
  transport_parameter_error_code = 8 /\ session_decode_errors_are_transport_parameter_error = true /\
  max_idle_timeout_unvalidated && initial_max_data_unvalidated
    && initial_max_stream_data_bidi_local_unvalidated && initial_max_stream_data_bidi_remote_unvalidated
    && initial_max_stream_data_uni_unvalidated && max_datagram_frame_size_unvalidated
    && migration_support_unvalidated && stateless_reset_token_unvalidated
    && dc_supported_versions_unvalidated && mtu_probing_complete_support_unvalidated
    && preferred_address_unspecified_is_both = true.
Proof. repeat split; reflexivity. Qed.

(* the accept/reject part of the executable judgement accepts every run of the model *)
Lemma judge_verdict_run : forall c es,
  wf_bytes (case_block c) = true ->
  rfc_entries (S (length (case_block c))) (case_block c) = Some es ->
  no_pa_dc es = true -> has_dev (case_server c) es = false ->
  (entries_verdict (case_server c) es = MustReject -> rejected (TransportParams.run c) = true) /\
  (entries_verdict (case_server c) es = MustAccept -> rejected (TransportParams.run c) = false).
Proof.
  intros c es W R NP ND.
  destruct (accept_iff_rfc_partial (case_server c) (case_block c) es W R NP ND) as [A B].
  unfold rfc_verdict in A, B. rewrite R in A, B. unfold TransportParams.run, impl_accept in *.
  split; intros V.
  - specialize (B V). destruct (decode_parameters (case_server c) (case_block c)); [discriminate | reflexivity].
  - specialize (A V). destruct (decode_parameters (case_server c) (case_block c)); [reflexivity | discriminate].
Qed.

Lemma judge_malformed_run : forall c,
  wf_bytes (case_block c) = true ->
  rfc_entries (S (length (case_block c))) (case_block c) = None ->
  Rfc18_2.judge c (TransportParams.run c) = true.
Proof.
  intros c W R. unfold Rfc18_2.judge. fold (case_block c). rewrite R.
  pose proof (malformed_rejected (case_server c) (case_block c) W R) as M.
  unfold TransportParams.run, impl_accept in *.
  destruct (decode_parameters (case_server c) (case_block c)); [discriminate | reflexivity].
Qed.
