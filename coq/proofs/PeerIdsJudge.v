(* The executable judgement of model/PeerIds.v accepts every run of the model (all cases). *)
From SQ Require Import lib.Base lib.ListX gen.Gen_C13 model.PeerIds proofs.PeerIdsProofs.
Local Open Scope N_scope.

Definition is_open (s : pst_t) : bool := match preg_ s with Some _ => true | None => false end.

Lemma zN_Nz n : zN (Nz n) = n.
Proof. unfold zN, Nz. apply N2Z.id. Qed.

Lemma Nz_inj a b : (Nz a =? Nz b)%Z = (a =? b).
Proof. unfold Nz. destruct (N.eqb_spec a b) as [->|H]; [apply Z.eqb_refl|]. apply Z.eqb_neq. intros E. apply N2Z.inj in E. auto. Qed.

Lemma retire_frames_accept iss dc fs R :
  (forall sq, In sq fs -> exists id, find_seq iss sq = Some id /\ id <> dc) ->
  retire_frames_ok (length fs) iss (Nz dc) (flat_map (fun sq => [25%Z; Nz sq]) fs ++ R) = Some R.
Proof.
  induction fs as [|sq t IH]; intros H; cbn [length flat_map retire_frames_ok app]; [reflexivity|].
  destruct (H sq (or_introl eq_refl)) as (id & Hf & Hn).
  unfold retire_ok. rewrite zN_Nz, Hf, Nz_inj. destruct (N.eqb_spec id dc); [contradiction|].
  assert (E : (0 <=? Nz sq)%Z = true) by (apply Z.leb_le; unfold Nz; lia). rewrite E. cbn [andb negb Z.eqb].
  apply IH. intros x Hx. apply H. now right.
Qed.

Lemma nth_frames {A} (f : N -> list A) fs (x y : A) R d :
  (forall sq, length (f sq) = 2%nat) ->
  nth (2 * length fs + 1) (flat_map f fs ++ x :: y :: R) d = y.
Proof.
  intros Hf. induction fs as [|sq t IH]; cbn [length flat_map app]; [reflexivity|].
  rewrite <- app_assoc. specialize (Hf sq). destruct (f sq) as [|a [|b [|]]]; try discriminate.
  replace (2 * S (length t) + 1)%nat with (S (S (2 * length t + 1))) by lia. cbn [app nth]. exact IH.
Qed.

Ltac fin Er := unfold is_open; cbn [preg_ app close]; rewrite ?Z.eqb_refl, ?Er; cbn [negb app]; rewrite ?Er; reflexivity.

(* one step: the judgement consumes exactly the step's output and continues in a state that satisfies the invariant *)
Lemma jstep_accepts s iss o t R : SInv s iss ->
  exists iss', SInv (fst (step s o)) iss' /\
    jsteps (is_open s) iss (o :: t) (snd (step s o) ++ R) = jsteps (is_open (fst (step s o))) iss' t R.
Proof.
  intros H. destruct o as [[[[code0 a] b] c] d].
  pose proof (gstep_inv (s, iss) (code0, a, b, c, d) H) as HG. cbn [fst snd gstep] in HG.
  unfold step in *. cbn [jsteps]. unfold is_open at 1.
  assert (Hc : zmod code0 6 < 6).
  { unfold zmod, zN. pose proof (Z.mod_pos_bound code0 6 ltac:(lia)). lia. }
  remember (zmod code0 6) as code eqn:Ecode. clear Ecode.
  destruct (preg_ s) as [r|] eqn:Er.
  2:{ exists iss. cbn [fst snd app]. rewrite Z.eqb_refl. cbn [negb]. unfold is_open. rewrite Er. split; [unfold SInv; now rewrite Er|reflexivity]. }
  unfold SInv in H. rewrite Er in H.
  assert (Hcases : code = 0 \/ code = 1 \/ code = 2 \/ code = 3 \/ code = 4 \/ code = 5) by lia.
  destruct Hcases as [->|[->|[->|[->|[->| ->]]]]]; cbn [fst snd app] in *; rewrite ?Z.eqb_refl; cbn [negb].
  - exists iss. unfold is_open. rewrite Er. cbn [app]. split; [exact HG|reflexivity].
  - (* frame *)
    destruct (on_frame r (varint_clamp a) (varint_clamp b) (PID_BASE + zmod c 16) (PTOK_BASE + zmod d 16)) as [rc r1] eqn:Ef.
    cbn [fst] in HG. destruct (N.eqb_spec rc 0) as [->|Hrc]; cbn [negb fst snd app] in *.
    + destruct (is_active r1 (dcid s)); cbn [fst snd app preg_] in *.
      * eexists. split; [exact HG|]. fin Er.
      * destruct (consume r1 (toks s)) as [[[id2 r2] m2]|]; cbn [fst snd app preg_ close] in *.
        -- eexists. split; [exact HG|]. fin Er.
        -- exists iss. split; [exact I|]. fin Er.
    + exists iss. split; [exact I|]. unfold is_open. cbn [preg_ close app].
      assert (E : (Nz rc =? 0)%Z = false) by (apply Z.eqb_neq; unfold Nz; lia). rewrite E. reflexivity.
  - (* migrate *)
    destruct (consume r (toks s)) as [[[id2 r2] m2]|]; cbn [fst snd app preg_] in *.
    + exists iss. split; [exact HG|]. fin Er.
    + exists iss. rewrite Er in *. split; [exact HG|]. fin Er.
  - (* transmit *)
    pose proof (fun sq => retire_frames_issued_not_self r (dcid s) iss (zmod a 4) (zmod b 5) (ppn s) sq H) as Hfr.
    destruct (p_on_transmit r (zmod a 4) (zmod b 5) (ppn s)) as [r' fs]. cbn [fst snd app preg_ dcid] in *.
    exists iss. split; [exact HG|]. unfold is_open. cbn [preg_].
    assert (E : (Z.of_nat (length fs) <? 0)%Z = false) by (apply Z.ltb_ge; lia). rewrite E.
    rewrite Nat2Z.id. rewrite <- !app_assoc. cbn [app].
    rewrite (nth_frames (fun sq => [25%Z; Nz sq]) fs _ _ _ _ (fun _ => eq_refl)).
    rewrite (retire_frames_accept iss (dcid s) fs _ Hfr). fin Er.
  - (* ack *)
    destruct (p_on_ack r (toks s) (zmod a 64) (zmod a 64 + zmod b 4)) as [r' m']. cbn [fst snd app preg_] in *.
    exists iss. split; [exact HG|]. fin Er.
  - (* loss *)
    exists iss. split; [exact HG|]. fin Er.
Qed.

Lemma jsteps_accepts ops : forall s iss R, SInv s iss -> length R = 16%nat ->
  jsteps (is_open s) iss ops (snd (steps s ops) ++ R) = true.
Proof.
  induction ops as [|o t IH]; intros s iss R H HR; cbn [steps].
  - cbn [snd app jsteps]. rewrite HR. reflexivity.
  - destruct (jstep_accepts s iss o t (snd (steps (fst (step s o)) t) ++ R) H) as (iss' & H' & E).
    destruct (step s o) as [s' out] eqn:Es. destruct (steps s' t) as [s'' out'] eqn:Et. cbn [fst snd] in *.
    rewrite Et in E. cbn [snd] in E. rewrite <- app_assoc, E.
    pose proof (IH s' iss' R H' HR) as IH'. rewrite Et in IH'. exact IH'.
Qed.

Theorem judge_run : forall case, judge case (run case) = true.
Proof.
  intros case. unfold judge, run, init.
  set (s0 := mkPS _ _ _ _).
  pose proof (greach_inv case []) as H0. unfold greach in H0. cbn [fold_left fst snd init] in H0. fold s0 in H0.
  pose proof (jsteps_accepts (ops_of (length (tl (tl case))) (tl (tl case))) s0 [(0, PID_BASE)]) as J.
  destruct (steps s0 (ops_of (length (tl (tl case))) (tl (tl case)))) as [s' out]. cbn [snd] in J.
  apply J; [exact H0|]. rewrite map_length, seq_length. reflexivity.
Qed.
