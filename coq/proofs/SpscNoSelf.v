(* No self-notification at operation granularity: while the peer thread is quiescent (between
   operations or gone) and the waker word was not left WAKING by it, a thread's own steps never invoke
   its own waker -- the register() inside its poll always finds the waker word WAITING.  One of the
   ingredients of judge_run for the poll operations.  Decided per program-counter case by enumeration,
   like the wake-up invariants. *)
From SQ Require Import lib.Base lib.ListX gen.Gen_C17.
From SQ Require Import model.Spsc proofs.SpscClose proofs.SpscEnum proofs.SpscWake proofs.SpscWakeInv.
Local Open Scope N_scope.

Definition reg_late (p : pc) : bool := match p with Reg R4 | Reg R5 | Reg R6 | Reg R7 | Wk KDropR W4 | Wk KDropS W4 => true | _ => false end.

Definition calm_rb (c : pc) (rk rnotif : bool) : bool :=
  (negb rk || o_holds (c_on_rw c)) && negb (reg_late c) && negb rnotif.
Definition calm_r (s : st) : bool := calm_rb (cpc s) (w_waking (rw s)) (rnotif s).
Definition calm_sb (p : pc) (sk snotif : bool) : bool :=
  (negb sk || o_holds (p_on_sw p)) && negb (reg_late p) && negb snotif.
Definition calm_s (s : st) : bool := calm_sb (ppc s) (w_waking (sw s)) (snotif s).
Global Arguments calm_rb : simpl never.
Global Arguments calm_sb : simpl never.

Lemma no_self_notify_c : forall cap s, cinv s = true -> winv_r s = true -> quiet (ppc s) = true ->
  calm_r s = true -> calm_r (cstep false cap s) = true.
Proof.
  intros cap s HC H Q K. rewrite cinv_is in HC. dst s. destruct xrw as [rr rk rs].
  unfold winv_r, calm_r, cstep in *. st_cbn.
  revert K. apply implb_elim. revert Q. apply implb_elim. revert H. apply implb_elim. revert HC. apply implb_elim.
  destruct_pc xcpc; wake_case.
Qed.

Lemma no_self_notify_p : forall cap s, cinv s = true -> winv_s cap s = true -> quiet (cpc s) = true ->
  calm_s s = true -> calm_s (pstep false cap s) = true.
Proof.
  intros cap s HC H Q K. rewrite cinv_is in HC. dst s. destruct xsw as [sr sk ss].
  unfold winv_s, calm_s, pstep in *. st_cbn.
  revert K. apply implb_elim. revert Q. apply implb_elim. revert H. apply implb_elim. revert HC. apply implb_elim.
  destruct_pc xppc; wake_case.
Qed.
