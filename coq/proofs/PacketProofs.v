(* Proofs about the reference packet header parser (RFC 9000 section 17) *)
From SQ Require Import lib.Base model.Varint model.Frame model.PacketHeader proofs.VarintProofs proofs.FrameProofs.
From Coq Require Import ZifyBool ZifyNat ZifyN.
Import Varint Frame PacketHeader.
Local Open Scope N_scope.

Lemma p_cid_len : forall lim bs c r, p_cid lim bs = Some (c, r) -> (length r < length bs)%nat.
Proof.
  intros lim bs c r H. unfold p_cid in H.
  destruct (p_byte bs) as [[l b1]|] eqn:E; [apply p_byte_len in E|discriminate].
  destruct (lim <? l); [discriminate|]. apply p_take_len in H. lia.
Qed.

Lemma p_u32_len : forall bs v r, p_u32 bs = Some (v, r) -> (length r <= length bs)%nat.
Proof.
  intros bs v r H. unfold p_u32 in H.
  destruct (p_take 4 bs) as [[l b1]|] eqn:E; [apply p_take_len in E|discriminate].
  injection H as _ <-. exact E.
Qed.

Lemma p_length_body_len : forall bs v r, p_length_body bs = Some (v, r) -> (length r < length bs)%nat.
Proof.
  intros bs v r H. unfold p_length_body in H.
  destruct (vdecode bs) as [[n b1]|] eqn:E; [apply vdecode_len in E|discriminate].
  destruct (p_take n b1) as [[x b2]|] eqn:E2; [apply p_take_len in E2|discriminate].
  injection H as _ <-. lia.
Qed.

Ltac hstep H :=
  match type of H with
  | context [match p_cid ?l ?b with _ => _ end] =>
      let E := fresh "E" in destruct (p_cid l b) as [[? ?]|] eqn:E; [apply p_cid_len in E|discriminate H]
  | context [match p_u32 ?b with _ => _ end] =>
      let E := fresh "E" in destruct (p_u32 b) as [[? ?]|] eqn:E; [apply p_u32_len in E|discriminate H]
  | context [match p_length_body ?b with _ => _ end] =>
      let E := fresh "E" in destruct (p_length_body b) as [[? ?]|] eqn:E; [apply p_length_body_len in E|discriminate H]
  | _ => pstep H
  end.

(* every packet consumes at least one byte of the datagram *)
Theorem packet_progress : forall l bs h r, pdecode l bs = Some (h, r) -> (length r < length bs)%nat.
Proof.
  intros l bs h r H. unfold pdecode in H.
  destruct (p_byte bs) as [[b r1]|] eqn:E0; [apply p_byte_len in E0|discriminate].
  repeat hstep H; try discriminate H; injection H as _ <-; cbn [length] in *; lia.
Qed.

Theorem packets_all_total : forall fuel l bs, (length bs <= fuel)%nat ->
  exists hs ok, pdecode_all fuel l bs = Some (hs, ok).
Proof.
  induction fuel as [|fuel IH]; intros l bs Hl.
  - destruct bs; [|cbn [length] in Hl; lia]. exists [], true. reflexivity.
  - destruct bs as [|b t]; [exists [], true; reflexivity|].
    cbn [pdecode_all]. destruct (pdecode l (b :: t)) as [[h rest]|] eqn:E.
    + apply packet_progress in E. destruct (IH l rest ltac:(lia)) as [hs [ok Hhs]]. rewrite Hhs.
      eexists _, _. reflexivity.
    + exists [], false. reflexivity.
Qed.

(* ------------------------------------------------------------------ round trip, long headers *)
Lemma rt_cid : forall lim c rest, cid_ok lim c = true -> (lim <= 255)%nat ->
  p_cid (N.of_nat lim) (cid_enc c ++ rest) = Some (c, rest).
Proof.
  intros lim c rest H Hl. unfold cid_ok in H. apply andb_true_iff in H. destruct H as [_ H].
  apply Nat.leb_le in H. unfold p_cid, cid_enc. cbn [app p_byte].
  destruct (N.ltb_spec (N.of_nat lim) (N.of_nat (length c))); [lia|].
  now apply rt_take.
Qed.

Lemma rt_u32 : forall v rest, v < 4294967296 -> p_u32 (be_bytes 4 v ++ rest) = Some (v, rest).
Proof.
  intros v rest Hv. unfold p_u32. rewrite (rt_take (be_bytes 4 v) rest 4) by (now rewrite length_be_bytes).
  rewrite be_acc_be_bytes. change (256 ^ N.of_nat 4) with 4294967296.
  rewrite N.mod_small by exact Hv. rewrite N.mul_0_l, N.add_0_l. reflexivity.
Qed.

Lemma rt_length_body : forall body rest, lok body = true ->
  p_length_body (venc_len body ++ rest) = Some (N.of_nat (length body), rest).
Proof.
  intros body rest H. unfold p_length_body, venc_len. unfold lok in H.
  apply andb_true_iff in H. destruct H as [_ H].
  rewrite <- app_assoc, rt_v by exact H. rewrite (rt_take body rest) by reflexivity. reflexivity.
Qed.

Ltac long_start b ver len :=
  wf_all;
  repeat match goal with
  | H : cid_ok _ _ = true |- _ => revert H
  | H : lok _ = true |- _ => revert H
  end; norm_hyps; intros;
  cbn [hencode app]; unfold pdecode; cbn [p_byte];
  (destruct (N.ltb_spec b 128); [lia|]);
  rewrite <- ?app_assoc; rewrite rt_u32 by assumption;
  (destruct (N.eqb_spec ver 0); [lia|]);
  (destruct (N.ltb_spec b 192); [lia|]);
  match goal with H : (b / 16) mod 4 = _ |- _ => rewrite H end;
  subst len.

Theorem long_header_roundtrip : forall l h body rest, wf_long h body = true ->
  pdecode l (hencode h body ++ rest) = Some (h, rest).
Proof.
  intros l h body rest Hwf. unfold wf_long in Hwf. apply andb_true_iff in Hwf. destruct Hwf as [Hbody Hwf].
  destruct h as [ ? ? | ? ? ? ? | b ver dcid scid token len | b ver dcid scid len | b ver dcid scid len | ? ? ? ? ? ?];
    try discriminate Hwf.
  - long_start b ver len. change (0 =? 0) with true. cbv iota. change 255 with (N.of_nat 255).
    rewrite (rt_cid 255) by (assumption || lia). rewrite (rt_cid 255) by (assumption || lia).
    rewrite rt_len by assumption. rewrite rt_length_body by assumption. reflexivity.
  - long_start b ver len.
    change (1 =? 0) with false. change (1 =? 1) with true. cbv iota. change 20 with (N.of_nat 20).
    rewrite (rt_cid 20) by (assumption || lia). rewrite (rt_cid 20) by (assumption || lia).
    rewrite rt_length_body by assumption. reflexivity.
  - long_start b ver len.
    change (2 =? 0) with false. change (2 =? 1) with false. change (2 =? 2) with true. cbv iota.
    change 20 with (N.of_nat 20).
    rewrite (rt_cid 20) by (assumption || lia). rewrite (rt_cid 20) by (assumption || lia).
    rewrite rt_length_body by assumption. reflexivity.
Qed.

Theorem end_header_roundtrip : forall l h body, wf_end l h = true ->
  pdecode l (hencode h body) = Some (h, []).
Proof.
  intros l h body Hwf.
  destruct h as [ b dcid | b dcid scid vs | ? ? ? ? ? ? | ? ? ? ? ? | ? ? ? ? ? | b ver dcid scid token tag];
    try discriminate Hwf; cbn [wf_end] in Hwf; wf_all;
    repeat match goal with H : cid_ok _ _ = true |- _ => revert H end; norm_hyps; intros.
  - (* short *)
    cbn [hencode]. unfold pdecode. cbn [p_byte].
    destruct (N.ltb_spec b 128); [|lia]. destruct (N.ltb_spec b 64); [lia|].
    destruct (N.ltb_spec 20 l); [lia|].
    rewrite (rt_take dcid body l) by lia. reflexivity.
  - (* version negotiation *)
    cbn [hencode]. unfold pdecode. cbn [p_byte].
    destruct (N.ltb_spec b 128); [lia|].
    rewrite (rt_u32 0) by lia. cbn [N.eqb]. change (0 =? 0) with true. cbv iota.
    change 20 with (N.of_nat 20).
    rewrite (rt_cid 20) by (assumption || lia).
    rewrite <- (app_nil_r vs) at 1. rewrite app_assoc. rewrite <- (app_assoc (cid_enc scid)).
    rewrite (rt_cid 20 scid (vs ++ [])) by (assumption || lia). rewrite app_nil_r.
    destruct (N.ltb_spec (N.of_nat (length vs)) 4); [lia|].
    match goal with H : N.of_nat (length vs) mod 4 = 0 |- _ => rewrite H end.
    reflexivity.
  - (* retry *)
    cbn [hencode]. unfold pdecode. cbn [p_byte].
    destruct (N.ltb_spec b 128); [lia|].
    rewrite rt_u32 by assumption.
    destruct (N.eqb_spec ver 0); [lia|]. destruct (N.ltb_spec b 192); [lia|].
    match goal with H : (b / 16) mod 4 = _ |- _ => rewrite H end.
    change (3 =? 0) with false. change (3 =? 1) with false. change (3 =? 2) with false. cbv iota.
    change 20 with (N.of_nat 20).
    rewrite (rt_cid 20) by (assumption || lia). rewrite (rt_cid 20) by (assumption || lia).
    rewrite app_length, Nat2N.inj_add.
    destruct (N.leb_spec (N.of_nat (length token) + N.of_nat (length tag)) 16); [lia|].
    rewrite (rt_take token tag) by lia. reflexivity.
Qed.

(* ------------------------------------------------------------------ truncated packet numbers *)
(* the n bytes carry exactly the n * 8 low-order bits of the packet number *)
Theorem pn_bytes_value : forall n pn, pn_value (pn_bytes n pn) = pn mod 256 ^ N.of_nat n.
Proof. intros n pn. unfold pn_value, pn_bytes. rewrite be_acc_be_bytes. lia. Qed.

Lemma zlist_eqb_app_refl : forall a, zlist_eqb a a = true.
Proof. exact zlist_eqb_refl. Qed.

Theorem judge_pn_run : forall case, judge_pn case (run_pn case) = true.
Proof.
  intros case. unfold run_pn, judge_pn.
  destruct (pn_choice (zN (nth 0 case 0%Z)) (zN (nth 1 case 0%Z))) as [n|] eqn:E; [|reflexivity].
  assert (Hn : n = 1%nat \/ n = 2%nat \/ n = 3%nat \/ n = 4%nat).
  { unfold pn_choice in E.
    repeat match type of E with context [if ?c then _ else _] => destruct c end;
      try discriminate E; injection E as <-; tauto. }
  cbn [app]. rewrite Nat2Z.id.
  destruct Hn as [ -> | [ -> | [ -> | -> ] ] ]; cbn [pn_bytes be_bytes zs map app zlist_eqb];
    repeat (apply andb_true_iff; split); try apply Z.eqb_refl; try (vm_compute; reflexivity).
Qed.

Theorem judge_run : forall case, PacketHeader.judge case (PacketHeader.run case) = true.
Proof. intros case. unfold PacketHeader.judge. apply zlist_eqb_refl. Qed.

Theorem judge_sound : forall case out, PacketHeader.judge case out = true -> out = PacketHeader.run case.
Proof. intros case out H. now apply zlist_eqb_eq. Qed.
