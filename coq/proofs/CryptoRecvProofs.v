(* Proofs about the CRYPTO receive buffer model (model/CryptoRecv.v). *)
From SQ Require Import lib.Base gen.Gen_C04 model.FlowRecv model.CryptoRecv proofs.FlowRecvProofs.
Local Open Scope N_scope.

Lemma limit_is_128k : crypto_rx_limit = 131072 /\ 4096 <= crypto_rx_limit /\ code_crypto_buffer_exceeded = 13.
Proof. repeat split; vm_compute; try reflexivity; discriminate. Qed.

(* a frame is rejected exactly when it reaches beyond 2^62-1 or beyond consumed + limit *)
Lemma crypto_rejects_exactly s off len :
  on_crypto s off len = None <-> (varint_max < off + len \/ ccon s + LIMIT < off + len).
Proof.
  unfold on_crypto. destruct (varint_max <? off + len) eqn:E1.
  - apply N.ltb_lt in E1. split; [auto|reflexivity].
  - apply N.ltb_ge in E1. destruct (LIMIT <? off + len - ccon s) eqn:E2.
    + apply N.ltb_lt in E2. split; [intros _; right; lia|reflexivity].
    + apply N.ltb_ge in E2. split; [discriminate|]. intros [H|H]; lia.
Qed.

(* store bounds *)
Definition segs_below (m : N) (l : list seg) : Prop := Forall (fun x => snd (fst x) <= m) l.

Lemma mk_seg_below lo hi t m : hi <= m -> segs_below m (mk_seg lo hi t).
Proof. intro H. unfold mk_seg. destruct (lo <? hi); constructor; [exact H|constructor]. Qed.

Lemma ins_below : forall l lo hi t m, segs_below m l -> hi <= m -> segs_below m (ins lo hi t l).
Proof.
  induction l as [|[[a b] t'] r IH]; intros lo hi t m H Hm; cbn [ins]; [apply mk_seg_below; exact Hm|].
  inversion H; subst.
  destruct (hi <=? a); [apply Forall_app; split; [apply mk_seg_below; exact Hm|exact H]|].
  destruct (b <=? lo); [constructor; [assumption|apply IH; assumption]|].
  apply Forall_app; split; [apply mk_seg_below; lia|]. constructor; [assumption|apply IH; assumption].
Qed.

Lemma take_below : forall l pos n m, segs_below m l ->
  let '(_, p, l') := take pos n l in segs_below m l' /\ (p = pos \/ p <= m).
Proof.
  induction l as [|[[a b] t] r IH]; intros pos n m H; cbn [take]; [split; [constructor|left; reflexivity]|].
  inversion H as [|x y Hx Hy]; subst. cbn in Hx.
  destruct ((a =? pos) && (0 <? n)) eqn:E; [|split; [exact H|left; reflexivity]].
  apply andb_true_iff in E. destruct E as [E1 E2]. apply N.eqb_eq in E1. subst a.
  destruct (N.min n (b - pos) =? b - pos) eqn:E3.
  - specialize (IH b (n - N.min n (b - pos)) m Hy).
    destruct (take b (n - N.min n (b - pos)) r) as [[runs p] s]. destruct IH as [I1 I2].
    split; [exact I1|]. right. destruct I2; lia.
  - apply N.eqb_neq in E3. split; [constructor; [cbn; exact Hx|exact Hy]|]. right. lia.
Qed.

Lemma contig_below : forall l pos m, segs_below m l -> contig pos l = pos \/ contig pos l <= m.
Proof.
  induction l as [|[[a b] t] r IH]; intros pos m H; cbn [contig]; [left; reflexivity|].
  inversion H; subst. cbn in *. destruct (a =? pos); [|left; reflexivity].
  right. destruct (IH b m H3) as [E|E]; [rewrite E; assumption|exact E].
Qed.

(* invariant: nothing buffered lies beyond cmax, and cmax is within consumed + limit *)
Definition KInv (s : cst) : Prop :=
  segs_below (cmax s) (csegs s) /\ segs_wf (csegs s) /\ cmax s <= ccon s + LIMIT.

Lemma KInv_init : KInv cinit.
Proof. repeat split; try constructor. cbn. lia. Qed.

Lemma on_crypto_inv s off len s' : KInv s -> on_crypto s off len = Some s' -> KInv s'.
Proof.
  intros (H1 & H2 & H3). unfold on_crypto.
  destruct (varint_max <? off + len); [discriminate|].
  destruct (LIMIT <? off + len - ccon s) eqn:E; [discriminate|]. apply N.ltb_ge in E.
  intro X; inversion X; subst; clear X. repeat split; cbn.
  - apply ins_below; [|lia]. eapply Forall_impl; [|exact H1]. cbn. intros; lia.
  - apply ins_wf. exact H2.
  - lia.
Qed.

Lemma consume_inv s n : KInv s -> KInv (snd (consume s n)) /\ fst (consume s n) <= n.
Proof.
  intros (H1 & H2 & H3). unfold consume.
  pose proof (take_pos (csegs s) (ccon s) n H2) as T.
  pose proof (take_below (csegs s) (ccon s) n (cmax s) H1) as B.
  destruct (take (ccon s) n (csegs s)) as [[runs pos] l]. destruct T as (T1 & T2 & T3). destruct B as [B1 B2].
  cbn. split; [|lia]. repeat split; cbn; try assumption. lia.
Qed.

Definition cexec_step (s : cst) (o : cop) : cst :=
  match o with
  | CFrame off len => match on_crypto s off len with Some s' => s' | None => s end
  | CConsume n => snd (consume s n)
  end.
Definition cexec (ops : list cop) : cst := fold_left cexec_step ops cinit.

Lemma cexec_inv : forall ops s, KInv s -> KInv (fold_left cexec_step ops s).
Proof.
  induction ops as [|o r IH]; intros s H; cbn; [exact H|]. apply IH.
  destruct o; cbn.
  - destruct (on_crypto s off len) eqn:E; [eapply on_crypto_inv; eauto|exact H].
  - apply consume_inv. exact H.
Qed.

(* in every reachable state: the received-but-not-consumed span, every buffered byte, and the
   in-order bytes waiting for TLS are within the limit *)
Lemma crypto_buffer_bound ops :
  let s := cexec ops in
  cmax s - ccon s <= LIMIT
  /\ Forall (fun x => snd (fst x) <= ccon s + LIMIT /\ fst (fst x) < snd (fst x)) (csegs s)
  /\ buffered_in_order s <= LIMIT.
Proof.
  intros s. pose proof (cexec_inv ops cinit KInv_init) as (H1 & H2 & H3). fold (cexec ops) in H1, H2, H3. fold s in H1, H2, H3.
  split; [lia|]. split.
  - unfold segs_below, segs_wf in *. rewrite Forall_forall in *. intros x Hx. split; [specialize (H1 x Hx); cbn in H1; lia|apply H2; exact Hx].
  - unfold buffered_in_order. destruct (contig_below (csegs s) (ccon s) (cmax s) H1) as [E|E]; [rewrite E; lia|lia].
Qed.

(* ---------- the judgement accepts every run of the model ---------- *)
Lemma zN_Nz x : zN (Nz x) = x.
Proof. unfold zN, Nz. apply N2Z.id. Qed.
Lemma Nz_nonneg x : (0 <=? Nz x)%Z = true.
Proof. apply Z.leb_le. unfold Nz. apply N2Z.is_nonneg. Qed.

Lemma buffered_le s : KInv s -> ccon s <= cmax s ->
  buffered_in_order s <= LIMIT /\ buffered_in_order s <= cmax s - ccon s.
Proof.
  intros (H1 & H2 & H3) Hc. unfold buffered_in_order.
  destruct (contig_below (csegs s) (ccon s) (cmax s) H1) as [E|E]; [rewrite E|]; lia.
Qed.

Lemma cjudge_steps : forall ops s, KInv s -> ccon s <= cmax s ->
  cjudge_ops (ccon s) (cmax s) ops (csteps s ops) = true.
Proof.
  induction ops as [|o r IH]; intros s HK Hc; [reflexivity|].
  destruct o as [off len|n]; cbn [csteps cjudge_ops].
  - destruct (on_crypto s off len) as [s'|] eqn:E.
    + assert (HN : ~ (varint_max < off + len \/ ccon s + LIMIT < off + len)).
      { intro H. apply crypto_rejects_exactly in H. congruence. }
      pose proof (on_crypto_inv _ _ _ _ HK E) as HK'.
      assert (Es : ccon s' = ccon s /\ cmax s' = N.max (cmax s) (off + len)).
      { unfold on_crypto in E. destruct (varint_max <? off + len); [discriminate|].
        destruct (LIMIT <? off + len - ccon s); [discriminate|]. inversion E; subst; cbn; auto. }
      destruct Es as [Es1 Es2].
      assert (Hc' : ccon s' <= cmax s') by lia.
      destruct (buffered_le s' HK' Hc') as [B1 B2].
      replace (0 =? 0)%Z with true by reflexivity. cbn match.
      assert ((varint_max <? off + len) || (ccon s + LIMIT <? off + len) = false) as ->.
      { apply orb_false_iff. split; [apply N.ltb_ge|apply N.ltb_ge]; lia. }
      rewrite Nz_nonneg, zN_Nz. cbn [negb andb].
      assert (buffered_in_order s' <=? LIMIT = true) as -> by (apply N.leb_le; exact B1).
      assert (buffered_in_order s' <=? N.max (cmax s) (off + len) - ccon s = true) as ->
        by (apply N.leb_le; rewrite <- Es1, <- Es2; exact B2).
      cbn [andb]. rewrite <- Es1, <- Es2. apply IH; assumption.
    + apply crypto_rejects_exactly in E.
      assert (HE : (Nz E_CRYPTO =? 0)%Z = false) by reflexivity. rewrite HE.
      assert (HC : (Nz E_CRYPTO =? 13)%Z = true) by reflexivity. rewrite HC. cbn [orb andb].
      destruct HK as (_ & _ & H3).
      assert ((off + len <=? ccon s + rfc_min_buffer) && (off + len <=? varint_max) = false) as ->.
      { apply andb_false_iff. destruct E as [E|E]; [right|left]; apply N.leb_gt; [exact E|].
        pose proof limit_is_128k as (L1 & L2 & _). unfold LIMIT in E. unfold rfc_min_buffer. lia. }
      reflexivity.
  - pose proof (consume_inv s n HK) as [HK' Hk].
    assert (Hp : ccon (snd (consume s n)) = ccon s + fst (consume s n) /\ cmax (snd (consume s n)) = cmax s
                 /\ ccon (snd (consume s n)) <= cmax s).
    { destruct HK as (H1 & H2 & H3). unfold consume.
      pose proof (take_pos (csegs s) (ccon s) n H2) as T.
      pose proof (take_below (csegs s) (ccon s) n (cmax s) H1) as B.
      destruct (take (ccon s) n (csegs s)) as [[runs pos] l]. destruct T as (T1 & T2 & T3). destruct B as [B1 B2].
      cbn. repeat split; try lia. }
    destruct Hp as (P1 & P2 & P3).
    destruct (consume s n) as [k s'] eqn:EC. cbn [fst snd] in *.
    cbn [cjudge_ops]. rewrite Nz_nonneg, zN_Nz. cbn [andb].
    assert (k <=? n = true) as -> by (apply N.leb_le; exact Hk).
    assert (ccon s + k <=? cmax s = true) as -> by (apply N.leb_le; lia).
    cbn [andb]. rewrite <- P1, <- P2. apply IH; [exact HK'|lia].
Qed.

Lemma cjudge_run : forall c, cjudge c (crun c) = true.
Proof. intro c. unfold cjudge, crun. apply (cjudge_steps _ cinit KInv_init). cbn. lia. Qed.
