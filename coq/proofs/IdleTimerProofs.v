(* Proofs about model/IdleTimer.v and model/RecoveryTimer.v *)
From SQ Require Import lib.Base gen.Gen_C02.
From SQ Require model.IdleTimer model.RecoveryTimer.
Local Open Scope N_scope.

Module Rec.
Import RecoveryTimer.

(* sent-packet bookkeeping: an ack-eliciting packet in flight implies the time of the last
   ack-eliciting packet is known (on_packet_sent sets both; covered by the C09 manager driver) *)
Definition bookkeeping (i : rin) : Prop :=
  ack_eliciting_in_flight i = true -> time_of_last_ae i <> None.

(* whenever check_consistency's timer_required holds after update_pto_timer, the loss timer or the
   PTO timer is armed -- for every combination of inputs *)
Theorem pto_armed_when_required : forall i, bookkeeping i ->
  timer_required i = true ->
  loss_timer_armed i = true \/ exists t, update_pto_timer i = Some (Some t).
Proof.
  intros [la amp app conf aeif pv tol nw per] Hb H. unfold bookkeeping in Hb. cbn in *.
  unfold timer_required, update_pto_timer in *. cbn in *.
  destruct la; [left; reflexivity|right].
  destruct amp, app, conf, aeif, pv, tol as [t|]; cbn in *; try discriminate;
    try (eexists; reflexivity); exfalso; apply Hb; reflexivity.
Qed.

(* update_pto_timer never panics under the bookkeeping invariant, and leaves the PTO timer
   cancelled exactly under its four conditions *)
Theorem pto_cancel_conditions : forall i, bookkeeping i ->
  update_pto_timer i <> None /\
  (update_pto_timer i = Some None <->
   loss_timer_armed i = true \/ at_amplification_limit i = true \/
   (is_application_data i = true /\ handshake_confirmed i = false) \/
   (ack_eliciting_in_flight i = false /\ peer_validated i = true)).
Proof.
  intros [la amp app conf aeif pv tol nw per] Hb. unfold bookkeeping in Hb. cbn in *.
  unfold update_pto_timer. cbn.
  destruct la, amp, app, conf, aeif, pv, tol as [t|]; cbn in *;
    (split; [try discriminate; try (exfalso; apply Hb; reflexivity)
            | split; intros H; try discriminate; try reflexivity; try tauto;
              try (exfalso; apply Hb; reflexivity);
              try (exfalso; intuition discriminate) ]).
Qed.
End Rec.

Import IdleTimer.

Lemma load_peer_min : forall a b, load_peer a b = min_nonzero a b.
Proof.
  intros a b. unfold load_peer, min_nonzero.
  destruct (N.eqb_spec a 0), (N.eqb_spec b 0); try lia.
  destruct (N.ltb_spec b a); lia.
Qed.

(* the effective duration is max(idle, 3 * PTO) (PTO truncated to milliseconds), idle <> 0 *)
Theorem idle_duration_is_max : forall idle pto, idle <> 0 ->
  idle_duration_ms idle pto = Some (N.max idle (3 * (pto / 1000))).
Proof.
  intros idle pto H. unfold idle_duration_ms. destruct (N.eqb_spec idle 0); [contradiction|reflexivity].
Qed.

Definition run_ist (idle : N) (s : ist) (es : list ev) : ist := fold_left (istep idle) es s.
Definition run_ijs (idle : N) (j : ijs) (es : list ev) : ijs := fold_left (ijstep idle) es j.

(* the ghost record of the judge describes the model state exactly *)
Definition irel (idle : N) (j : ijs) (s : ist) : Prop :=
  iclosed s = jclosed j /\ iflag s = jflag j /\
  (iclosed s = false -> itimer s = expected_deadline idle (jreset j)) /\
  (iclosed s = true -> itimer s = None).

Ltac ifin := unfold irel; cbn; repeat split; auto; try discriminate;
  try (intros; reflexivity); try (intros; discriminate).

Lemma irel_step : forall idle j s e, irel idle j s -> irel idle (ijstep idle j e) (istep idle s e).
Proof.
  intros idle [r f c] [tm fl cl] e (H1 & H2 & H3 & H4). cbn in *. subst c f.
  unfold istep, ijstep. cbn [iclosed jclosed iflag jflag itimer jreset].
  destruct cl; [unfold irel; cbn; auto|].
  specialize (H3 eq_refl). subst tm.
  destruct e as [t pto|t pto|t].
  - unfold idle_duration_ms. destruct (N.eqb_spec idle 0) as [E|E].
    + ifin.
    + ifin. unfold idle_duration_ms. destruct (N.eqb_spec idle 0); [contradiction|]. reflexivity.
  - destruct fl; [|ifin].
    unfold idle_duration_ms. destruct (N.eqb_spec idle 0) as [E|E].
    + ifin.
    + ifin. unfold idle_duration_ms. destruct (N.eqb_spec idle 0); [contradiction|]. reflexivity.
  - destruct (expected_deadline idle r) as [d|] eqn:Ed.
    + destruct (d <? tsn t + granularity); ifin.
    + ifin.
Qed.

Lemma irel_init : forall idle, irel idle (mkIjs None false false) ist_init.
Proof. intros. unfold irel; cbn. repeat split; auto; discriminate. Qed.

Lemma irel_run : forall idle es j s, irel idle j s -> irel idle (run_ijs idle j es) (run_ist idle s es).
Proof.
  induction es as [|e es IH]; intros j s H; [exact H|].
  cbn. apply IH. apply irel_step. exact H.
Qed.

Lemma closed_stays : forall idle es s, iclosed s = true -> iclosed (run_ist idle s es) = true.
Proof.
  induction es as [|e es IH]; intros s H; [exact H|].
  cbn. apply IH. unfold istep. rewrite H. exact H.
Qed.

(* the last reset of the idle timer as the events determine it: the last processed packet, or the
   first ack-eliciting packet sent after it *)
Definition last_reset (idle : N) (es : list ev) : option (N * N) :=
  jreset (run_ijs idle (mkIjs None false false) es).

(* idle_deadline: in every history, with the idle timeout enabled, while the connection is open
   and some packet has been processed, the timer is armed at exactly
   last reset + max(idle, 3 PTO at that moment). *)
Theorem idle_deadline : forall idle es s t pto,
  idle <> 0 ->
  s = run_ist idle ist_init es -> iclosed s = false ->
  last_reset idle es = Some (t, pto) ->
  itimer s = Some (deadline (tsn t) (N.max idle (3 * (pto / 1000)))).
Proof.
  intros idle es s t pto Hi -> Hc Hl.
  destruct (irel_run idle es _ _ (irel_init idle)) as (_ & _ & H3 & _).
  rewrite (H3 Hc). unfold last_reset in Hl. rewrite Hl. cbn.
  rewrite (idle_duration_is_max idle pto Hi). reflexivity.
Qed.

(* ... and a timeout notification at (or within the timer granularity of) that deadline closes
   the connection: it is open at t only if t + granularity <= last reset + max(idle, 3 PTO) *)
Theorem idle_timeout_closes : forall idle s d t,
  iclosed s = false -> itimer s = Some d -> d < tsn t + granularity ->
  iclosed (istep idle s (Timeout t)) = true /\ itimer (istep idle s (Timeout t)) = None.
Proof.
  intros idle s d t Hc Ht Hd. unfold istep. rewrite Hc, Ht.
  apply N.ltb_lt in Hd. rewrite Hd. cbn. auto.
Qed.

(* once a packet has been processed the timer stays armed until the connection closes: there is no
   open state without a deadline *)
Theorem idle_always_armed : forall idle es s,
  idle <> 0 -> s = run_ist idle ist_init es -> iclosed s = false ->
  (exists t pto, In (Recv t pto) es) -> exists d, itimer s = Some d.
Proof.
  intros idle es s Hi -> Hc Hex.
  assert (G : forall es' j s0, irel idle j s0 -> iclosed s0 = false ->
              ((exists d, itimer s0 = Some d) \/ exists t pto, In (Recv t pto) es') ->
              iclosed (run_ist idle s0 es') = false -> exists d, itimer (run_ist idle s0 es') = Some d).
  { clear Hc Hex. induction es' as [|e es' IH]; intros j s0 Hr Hc0 Hor Hc.
    - cbn in *. destruct Hor as [H|(t & p & [])]. exact H.
    - cbn in *. pose proof (irel_step idle j s0 e Hr) as Hr'.
      assert (Hc1 : iclosed (istep idle s0 e) = false).
      { destruct (iclosed (istep idle s0 e)) eqn:E; [|reflexivity].
        exfalso. pose proof (closed_stays idle es' _ E) as Hx. unfold run_ist in Hx.
        rewrite Hx in Hc. discriminate. }
      apply (IH _ _ Hr' Hc1); [|exact Hc].
      destruct Hor as [(d & Hd)|(t & p & [Hin|Hin])].
      + left. unfold istep in *. rewrite Hc0 in *. destruct e as [t p|t p|t].
        * destruct (idle_duration_ms idle p); cbn; eauto.
        * destruct (iflag s0); [destruct (idle_duration_ms idle p)|]; cbn; eauto.
        * rewrite Hd in *. destruct (d <? tsn t + granularity); cbn in *; [discriminate|eauto].
      + subst e. left. unfold istep. rewrite Hc0. unfold idle_duration_ms.
        destruct (N.eqb_spec idle 0); [contradiction|]. cbn. eauto.
      + right. eauto. }
  apply (G es _ _ (irel_init idle)); auto.
Qed.

(* blackhole_closes: when no packet is processed any more, the deadline moves at most once -- to the
   first ack-eliciting send after the last receive -- and never again; so the connection closes at
   the first timeout notification at or after  T' + max(idle, 3 PTO)  (idle_timeout_closes). *)
Definition not_recv (e : ev) : Prop := match e with Recv _ _ => False | _ => True end.

Lemma step_keeps : forall idle s1 e,
  iclosed s1 = false -> not_recv e ->
  iflag (istep idle s1 e) = true -> iclosed (istep idle s1 e) = false ->
  iflag s1 = true /\ itimer (istep idle s1 e) = itimer s1.
Proof.
  intros idle s1 e Hc He. unfold istep. rewrite Hc.
  destruct e as [t p|t p|t]; [contradiction| |].
  - destruct (iflag s1) eqn:Ef.
    + destruct (idle_duration_ms idle p); cbn; intros; discriminate.
    + rewrite Ef. intros; discriminate.
  - destruct (itimer s1) as [d|] eqn:Et.
    + destruct (d <? tsn t + granularity); cbn; intros; try discriminate; auto.
    + auto.
Qed.

Theorem blackhole_closes : forall idle es s1 s,
  iclosed s1 = false ->
  Forall not_recv es -> s = run_ist idle s1 es ->
  iclosed s = true \/
  (itimer s = itimer s1 /\ iflag s = iflag s1) \/
  (iflag s1 = true /\ iflag s = false /\
   exists t pto, In (SendAE t pto) es /\
     itimer s = match idle_duration_ms idle pto with
                | Some d => Some (deadline (tsn t) d) | None => itimer s1 end).
Proof.
  intros idle es. induction es as [|e es IH]; intros s1 s Hc Hf ->.
  - right; left. auto.
  - inversion Hf as [|? ? He Hf']; subst. cbn [run_ist fold_left].
    destruct (iclosed (istep idle s1 e)) eqn:Ec1.
    + left. apply (closed_stays idle es _ Ec1).
    + destruct (IH (istep idle s1 e) _ Ec1 Hf' eq_refl) as [H|[(H1 & H2)|(H1 & H2 & t & p & Hin & H3)]].
      * left. exact H.
      * unfold run_ist in *. rewrite H1, H2. clear IH H1 H2.
        unfold istep in *. rewrite Hc in *. destruct e as [t p|t p|t]; [contradiction| |].
        -- destruct (iflag s1) eqn:Ef; [|right; left; auto].
           right; right. split; [reflexivity|].
           destruct (idle_duration_ms idle p) eqn:Ed; cbn; (split; [reflexivity|]);
             exists t, p; rewrite Ed; split; auto; left; reflexivity.
        -- destruct (itimer s1) as [d|] eqn:Et; [|right; left; auto].
           destruct (d <? tsn t + granularity); cbn in *; [discriminate|right; left; auto].
      * (* the flag was still set after e, so e did not consume it and did not move the timer *)
        destruct (step_keeps idle s1 e Hc He H1 Ec1) as [Hf1 Ht1].
        right; right. rewrite Ht1 in H3. repeat split; auto.
        exists t, p. split; [right; exact Hin|exact H3].
Qed.

(* the judge accepts every run of the model *)
Lemma judge_evs_ok : forall idle es j s, irel idle j s ->
  judge_evs idle j es (run_evs idle s es) = true.
Proof.
  induction es as [|e es IH]; intros j s Hr; [reflexivity|].
  cbn [run_evs]. unfold iobs. cbn [app judge_evs].
  pose proof (irel_step idle j s e Hr) as Hr'.
  destruct Hr' as (H1 & H2 & H3 & H4).
  rewrite (IH _ _ (conj H1 (conj H2 (conj H3 H4)))).
  rewrite H1, Z.eqb_refl. cbn [andb].
  destruct (jclosed (ijstep idle j e)) eqn:Ec.
  - rewrite (H4 (eq_trans H1 eq_refl)). reflexivity.
  - rewrite (H3 H1). destruct (expected_deadline idle (jreset (ijstep idle j e))); cbn;
      rewrite ?Z.eqb_refl; reflexivity.
Qed.

Theorem judge_run : forall l, judge l (run l) = true.
Proof.
  intros l. unfold judge, run, idle_of. rewrite load_peer_min, Z.eqb_refl. cbn [andb].
  apply judge_evs_ok. apply irel_init.
Qed.

(* ------------------------------------------------------------------ blackhole, composed: both endpoints *)

(* one endpoint: no packet is processed during [es1 ++ Timeout t :: es2]; the timeout notification at
   t comes at or after the deadline the endpoint had when the blackhole started and after the
   deadline any ack-eliciting send of es1 can have set  =>  the endpoint is closed afterwards *)
Lemma blackhole_timeout_closes : forall idle es1 t es2 s1 d1,
  iclosed s1 = false -> itimer s1 = Some d1 ->
  Forall not_recv es1 ->
  d1 < tsn t + granularity ->
  (forall t' p' d, In (SendAE t' p') es1 -> idle_duration_ms idle p' = Some d ->
                   deadline (tsn t') d < tsn t + granularity) ->
  iclosed (run_ist idle s1 (es1 ++ Timeout t :: es2)) = true.
Proof.
  intros idle es1 t es2 s1 d1 Hc Ht Hf Hd Hall.
  unfold run_ist. rewrite fold_left_app. cbn [fold_left].
  fold (run_ist idle s1 es1). set (s := run_ist idle s1 es1).
  fold (run_ist idle (istep idle s (Timeout t)) es2).
  apply closed_stays.
  destruct (iclosed s) eqn:Ecs; [unfold istep; rewrite Ecs; exact Ecs|].
  destruct (blackhole_closes idle es1 s1 s Hc Hf eq_refl) as [H|[(H1 & _)|(_ & _ & t' & p' & Hin & H3)]].
  - congruence.
  - apply (idle_timeout_closes idle s d1 t Ecs); [congruence|exact Hd].
  - destruct (idle_duration_ms idle p') as [d|] eqn:Ed.
    + apply (idle_timeout_closes idle s (deadline (tsn t') d) t Ecs H3). apply (Hall t' p' d Hin Ed).
    + apply (idle_timeout_closes idle s d1 t Ecs); [congruence|exact Hd].
Qed.

(* two endpoints A and B of one connection, each with its own timer state; an event belongs to one *)
Inductive ev2 := AtA (e : ev) | AtB (e : ev).
Definition step2 (idle : N) (s : ist * ist) (e : ev2) : ist * ist :=
  match e with
  | AtA e => (istep idle (fst s) e, snd s)
  | AtB e => (fst s, istep idle (snd s) e)
  end.
Definition run2 (idle : N) (s : ist * ist) (es : list ev2) : ist * ist := fold_left (step2 idle) es s.
Definition projA (es : list ev2) : list ev := flat_map (fun e => match e with AtA e => [e] | _ => [] end) es.
Definition projB (es : list ev2) : list ev := flat_map (fun e => match e with AtB e => [e] | _ => [] end) es.

Lemma run2_proj : forall idle es s,
  run2 idle s es = (run_ist idle (fst s) (projA es), run_ist idle (snd s) (projB es)).
Proof.
  induction es as [|e es IH]; intros [a b]; [reflexivity|].
  cbn [run2 fold_left]. fold (run2 idle (step2 idle (a, b) e) es). rewrite IH.
  destruct e; reflexivity.
Qed.

(* blackhole_closes at the composed level: from some point on no packet is processed at either
   endpoint (events [es]); both idle timers are armed (each endpoint has processed a packet before);
   each endpoint's timer fires (a timeout notification reaches it) at or after
   T' + max(idle, 3 PTO), T' being its last reset: the deadline it had, or the one its first
   ack-eliciting send since the last receive set.  Then BOTH endpoints have closed the connection
   (idle_timer_expired is reported to the application; nothing is sent). *)
Theorem blackhole_closes_both : forall idle es sa sb da db a1 ta a2 b1 tb b2,
  iclosed sa = false -> iclosed sb = false -> itimer sa = Some da -> itimer sb = Some db ->
  projA es = a1 ++ Timeout ta :: a2 -> projB es = b1 ++ Timeout tb :: b2 ->
  Forall not_recv a1 -> Forall not_recv b1 ->
  da < tsn ta + granularity -> db < tsn tb + granularity ->
  (forall t' p' d, In (SendAE t' p') a1 -> idle_duration_ms idle p' = Some d ->
                   deadline (tsn t') d < tsn ta + granularity) ->
  (forall t' p' d, In (SendAE t' p') b1 -> idle_duration_ms idle p' = Some d ->
                   deadline (tsn t') d < tsn tb + granularity) ->
  iclosed (fst (run2 idle (sa, sb) es)) = true /\ iclosed (snd (run2 idle (sa, sb) es)) = true.
Proof.
  intros. rewrite run2_proj. cbn [fst snd]. rewrite H3, H4. split.
  - apply (blackhole_timeout_closes idle a1 ta a2 sa da); assumption.
  - apply (blackhole_timeout_closes idle b1 tb b2 sb db); assumption.
Qed.
