(* Proofs about the persistent congestion calculator (Recovery.pc_on_lost, model/PcComp.v). *)
From SQ Require Import lib.Base gen.Gen_C09 model.RecTime model.Rtt model.Loss model.Pto model.Recovery model.PcComp.
From SQ Require Import proofs.RecoveryProofs.
From Coq Require Import ZifyBool ZifyN Sorting.Sorted.
Local Open Scope N_scope.

Section Calc.
Variables (first : option N) (cpath : N).

Definition step (c : pcalc) (p : pkt) : pcalc := pc_on_lost c first cpath p.

Lemma extend_best : forall l st prev best,
  extend first cpath st prev best l = N.max best (extend first cpath st prev 0 l).
Proof.
  induction l as [|q t IH]; intros st prev best; cbn [extend]; [lia|].
  destruct (eligible first cpath q && (p_pn q =? prev + 1)); [|lia].
  destruct (p_ae q).
  - rewrite (IH st (p_pn q) (N.max best _)), (IH st (p_pn q) (N.max 0 _)). lia.
  - apply IH.
Qed.

(* a packet number gap ends every continuation *)
Lemma extend_gap : forall l st prev best, (forall q, In q l -> prev + 1 < p_pn q) ->
  extend first cpath st prev best l = best.
Proof.
  intros [|q t] st prev best H; [reflexivity|]. cbn [extend].
  specialize (H q (or_introl eq_refl)).
  destruct (N.eqb_spec (p_pn q) (prev + 1)); [lia|]. rewrite andb_false_r. reflexivity.
Qed.

Definition cont (c : pcalc) (l : list pkt) : N :=
  match cur c with Some (st, _, prev) => extend first cpath st prev 0 l | None => 0 end.

Definition cinv (c : pcalc) (l : list pkt) : Prop :=
  match cur c with
  | Some (st, en, prev) => ts_sub en st <= maxd c /\ forall q, In q l -> prev < p_pn q
  | None => True
  end.

Lemma eligible_step : forall c p, eligible first cpath p = false -> step c p = c.
Proof.
  intros c p H. unfold step, pc_on_lost, eligible in *. destruct first as [ts|]; [|reflexivity].
  destruct (N.ltb_spec (p_time p) ts); [reflexivity|].
  destruct (p_path p =? cpath); cbn [negb]; [|reflexivity].
  assert ((ts <=? p_time p) = true) by lia. rewrite H1 in H. discriminate.
Qed.

Lemma eligible_unfold : forall c p, eligible first cpath p = true ->
  step c p =
  let c1 :=
    match cur c with
    | Some (st, en, prev) =>
        if p_pn p =? prev + 1 then
          let en' := if p_ae p then p_time p else en in
          {| cur := Some (st, en', p_pn p); maxd := N.max (maxd c) (ts_sub en' st) |}
        else {| cur := None; maxd := maxd c |}
    | None => c
    end in
  match cur c1 with
  | None => if p_ae p then {| cur := Some (p_time p, p_time p, p_pn p); maxd := maxd c1 |} else c1
  | Some _ => c1
  end.
Proof.
  intros c p H. unfold step, pc_on_lost, eligible in *. destruct first as [ts|]; [|discriminate].
  apply andb_prop in H as [H1 H2].
  assert ((p_time p <? ts) = false) by lia. rewrite H, H2. reflexivity.
Qed.

Lemma sound_from : forall l c, StronglySorted plt l -> cinv c l ->
  maxd (fold_left step l c) <= N.max (maxd c) (N.max (cont c l) (spec first cpath l)).
Proof.
  induction l as [|p t IH]; intros c Hs Hi; [cbn; lia|].
  inversion Hs as [|? ? Hs' Hf]; subst. rewrite Forall_forall in Hf. unfold plt in Hf.
  cbn [fold_left spec].
  destruct (eligible first cpath p) eqn:El.
  - (* eligible *)
    rewrite eligible_unfold by assumption. cbn [andb].
    unfold cont, cinv in *. destruct (cur c) as [[[st en] prev]|] eqn:Ec.
    + destruct Hi as [Hen Hprev]. cbn [extend]. rewrite El. cbn [andb].
      destruct (N.eqb_spec (p_pn p) (prev + 1)) as [Epn|Epn].
      * (* the period continues *)
        cbv zeta. cbn [cur].
        set (en' := if p_ae p then p_time p else en).
        set (c' := {| cur := Some (st, en', p_pn p); maxd := N.max (maxd c) (ts_sub en' st) |}).
        assert (Hi' : match cur c' with Some (st0, en0, prev0) => ts_sub en0 st0 <= maxd c' /\ forall q, In q t -> prev0 < p_pn q | None => True end).
        { cbn [c' cur maxd]. split; [lia|]. intros q Hq. apply Hf. assumption. }
        specialize (IH c' Hs' Hi'). cbn [c' cur maxd] in IH. fold c'.
        rewrite extend_best. subst en'. destruct (p_ae p); lia.
      * (* a gap: the period ends; a new one may start here *)
        cbv zeta. cbn [cur maxd].
        destruct (p_ae p).
        -- set (c' := {| cur := Some (p_time p, p_time p, p_pn p); maxd := maxd c |}).
           assert (Hi' : match cur c' with Some (st0, en0, prev0) => ts_sub en0 st0 <= maxd c' /\ forall q, In q t -> prev0 < p_pn q | None => True end).
           { cbn [c' cur maxd]. split; [unfold ts_sub; lia|]. intros q Hq. apply Hf. assumption. }
           specialize (IH c' Hs' Hi'). cbn [c' cur maxd] in IH. fold c'. lia.
        -- specialize (IH {| cur := None; maxd := maxd c |} Hs' I). cbn [cur maxd] in IH. lia.
    + cbv zeta. rewrite Ec.
      destruct (p_ae p).
      * set (c' := {| cur := Some (p_time p, p_time p, p_pn p); maxd := maxd c |}).
        assert (Hi' : match cur c' with Some (st0, en0, prev0) => ts_sub en0 st0 <= maxd c' /\ forall q, In q t -> prev0 < p_pn q | None => True end).
        { cbn [c' cur maxd]. split; [unfold ts_sub; lia|]. intros q Hq. apply Hf. assumption. }
        specialize (IH c' Hs' Hi'). cbn [c' cur maxd] in IH. fold c'. lia.
      * assert (Hi' : match cur c with Some (st0, en0, prev0) => ts_sub en0 st0 <= maxd c /\ forall q, In q t -> prev0 < p_pn q | None => True end) by (rewrite Ec; exact I).
        specialize (IH c Hs' Hi'). rewrite Ec in IH. lia.
  - (* not eligible: ignored, but it breaks contiguity *)
    rewrite eligible_step by assumption. cbn [andb].
    assert (Hi' : cinv c t).
    { unfold cinv in *. destruct (cur c) as [[[st en] prev]|]; [|exact I]. destruct Hi as [H1 H2].
      split; [assumption|]. intros q Hq. apply H2. right. assumption. }
    specialize (IH c Hs' Hi').
    assert (Ec : cont c t = 0).
    { unfold cont, cinv in *. destruct (cur c) as [[[st en] prev]|]; [|reflexivity]. destruct Hi as [_ H2].
      apply extend_gap. intros q Hq. specialize (Hf q Hq). specialize (H2 p (or_introl eq_refl)). lia. }
    assert (Ec' : cont c (p :: t) = 0).
    { unfold cont. destruct (cur c) as [[[st en] prev]|]; [|reflexivity]. cbn [extend]. rewrite El. reflexivity. }
    rewrite Ec in IH. rewrite Ec'. lia.
Qed.

(* the calculator never reports more than the longest period witnessed by two ack-eliciting lost
   packets on the path, sent after the first RTT sample, with every packet number in between lost too *)
Theorem pc_sound : forall l, StronglySorted plt l ->
  maxd (fold_left step l pc0) <= spec first cpath l.
Proof.
  intros l Hs. pose proof (sound_from l pc0 Hs I) as H. unfold cont, pc0 in H. cbn [cur maxd] in H. unfold pc0. lia.
Qed.

(* what a positive [spec] means: such a pair of packets exists *)
Inductive chain : N -> N -> list pkt -> N -> Prop :=   (* start time, last pn, remaining packets, duration *)
| chain_here : forall st prev q t, eligible first cpath q = true -> p_pn q = prev + 1 -> p_ae q = true ->
    chain st prev (q :: t) (ts_sub (p_time q) st)
| chain_next : forall st prev q t d, eligible first cpath q = true -> p_pn q = prev + 1 ->
    chain st (p_pn q) t d -> chain st prev (q :: t) d.

Lemma extend_witness : forall l st prev best, best < extend first cpath st prev best l ->
  chain st prev l (extend first cpath st prev best l).
Proof.
  induction l as [|q t IH]; intros st prev best H; cbn [extend] in *; [lia|].
  destruct (eligible first cpath q) eqn:El; cbn [andb] in *; [|lia].
  destruct (N.eqb_spec (p_pn q) (prev + 1)) as [Ep|Ep]; [|lia].
  destruct (p_ae q) eqn:Ea.
  - set (b' := N.max best (ts_sub (p_time q) st)) in *.
    destruct (N.lt_ge_cases b' (extend first cpath st (p_pn q) b' t)) as [Hlt|Hge].
    + apply chain_next; auto.
    + assert (E : extend first cpath st (p_pn q) b' t = b') by (rewrite extend_best in *; lia).
      rewrite E in *. assert (b' = ts_sub (p_time q) st) by lia. rewrite H0. apply chain_here; auto.
  - apply chain_next; auto.
Qed.

Theorem spec_witness : forall l, 0 < spec first cpath l ->
  exists pre p t, l = pre ++ p :: t /\ eligible first cpath p = true /\ p_ae p = true
                  /\ chain (p_time p) (p_pn p) t (spec first cpath l).
Proof.
  induction l as [|p t IH]; intros H; cbn [spec] in *; [lia|].
  destruct (N.max_spec (if eligible first cpath p && p_ae p then extend first cpath (p_time p) (p_pn p) 0 t else 0) (spec first cpath t))
    as [[Hlt ->]|[Hge ->]].
  - destruct (IH ltac:(lia)) as (pre & p' & t' & -> & H1 & H2 & H3).
    exists (p :: pre), p', t'. auto.
  - destruct (eligible first cpath p) eqn:El; destruct (p_ae p) eqn:Ea; cbn [andb] in *; try lia.
    exists [], p, t. repeat split; auto. apply extend_witness. lia.
Qed.

End Calc.

(* ---- judge_run for the component ---- *)
Lemma decode_sorted_from : forall l pn time, StronglySorted plt (decode pn time true l)
  /\ forall q, In q (decode pn time true l) -> pn < p_pn q.
Proof.
  intros l. remember (length l) as n eqn:En. revert l En.
  induction n as [n IH] using lt_wf_ind. intros l En pn time.
  destruct l as [|g [|dt [|ae [|path t]]]].
  1-4: (split; [constructor|intros q []]).
  cbn [decode].
  destruct (IH (length t) ltac:(subst n; cbn [length]; lia) t eq_refl (pn + N.max (zN g) 1) (time + zN dt)) as [Hs Hlt].
  split.
  - constructor; [assumption|]. rewrite Forall_forall. intros q Hq. unfold plt. cbn [p_pn]. apply Hlt. assumption.
  - intros q [<-|Hq]; [cbn [p_pn]; lia|]. specialize (Hlt q Hq). lia.
Qed.

Lemma case_pkts_sorted : forall c, StronglySorted plt (case_pkts c).
Proof.
  intros c. unfold case_pkts. destruct (skipn 3 c) as [|g [|dt [|ae [|path t]]]].
  1-4: constructor.
  cbn [decode]. constructor.
  - apply decode_sorted_from.
  - rewrite Forall_forall. intros q Hq. unfold plt. cbn [p_pn]. apply (decode_sorted_from t (zN g) (1 + zN dt)). assumption.
Qed.

Lemma sorted_app_l : forall a b, StronglySorted plt (a ++ b) -> StronglySorted plt a.
Proof.
  induction a as [|x a IH]; intros b H; [constructor|]. cbn [app] in H. inversion H; subst.
  constructor; [eapply IH; eassumption|]. rewrite Forall_forall in *. intros q Hq. apply H3. apply in_app_iff. left. assumption.
Qed.

Lemma zN_Nz : forall x, zN (Nz x) = x.
Proof. intros. unfold zN, Nz. apply N2Z.id. Qed.

Lemma judge_durations : forall first cpath rest pre,
  StronglySorted plt (pre ++ rest) ->
  judge_from first cpath (pre ++ rest) (length pre)
    (durations (fold_left (step first cpath) pre pc0) first cpath rest) = true.
Proof.
  induction rest as [|p t IH]; intros pre Hs.
  - cbn [durations judge_from]. rewrite app_nil_r. apply Nat.eqb_refl.
  - cbn [durations judge_from].
    assert (E : pre ++ p :: t = (pre ++ [p]) ++ t) by (rewrite <- app_assoc; reflexivity).
    assert (Ef : firstn (S (length pre)) (pre ++ p :: t) = pre ++ [p]).
    { rewrite E. replace (S (length pre)) with (length (pre ++ [p])) by (rewrite app_length; cbn; lia).
      clear. generalize (pre ++ [p]). induction l as [|x l IHl]; cbn [length firstn app]; [reflexivity|]. rewrite IHl. reflexivity. }
    rewrite Ef.
    assert (Ec : pc_on_lost (fold_left (step first cpath) pre pc0) first cpath p = fold_left (step first cpath) (pre ++ [p]) pc0).
    { rewrite fold_left_app. reflexivity. }
    rewrite Ec.
    assert (Hp : StronglySorted plt (pre ++ [p])) by (rewrite E in Hs; eapply sorted_app_l; eassumption).
    pose proof (pc_sound first cpath (pre ++ [p]) Hp) as Hb.
    rewrite zN_Nz.
    assert (E1 : (0 <=? Nz (maxd (fold_left (step first cpath) (pre ++ [p]) pc0)))%Z = true) by (unfold Nz; lia).
    assert (E2 : (maxd (fold_left (step first cpath) (pre ++ [p]) pc0) <=? spec first cpath (pre ++ [p])) = true) by lia.
    assert (E3 : Nat.ltb (length pre) (length (pre ++ p :: t)) = true) by (apply Nat.ltb_lt; rewrite app_length; cbn [length]; lia).
    rewrite E1, E2, E3. cbn [andb].
    specialize (IH (pre ++ [p])). rewrite <- E in IH.
    replace (S (length pre)) with (length (pre ++ [p])) by (rewrite app_length; cbn; lia).
    apply IH. assumption.
Qed.

Theorem judge_run : forall c, judge c (run c) = true.
Proof.
  intros c. unfold judge, run.
  apply (judge_durations (case_first c) (case_cpath c) (case_pkts c) []). apply case_pkts_sorted.
Qed.

Example pc_example :
  run [1; 1; 0;  5; 1000000; 1; 0;  1; 1000000; 0; 0;  1; 1000000; 1; 0;  1; 1000000; 1; 1;  1; 1000000; 1; 0;  1; 500000; 1; 0]%Z
  = [0; 0; 2000000000; 2000000000; 2000000000; 2000000000]%Z.
Proof. vm_compute. reflexivity. Qed.

Lemma pc_threshold : forall r,
  persistent_congestion_threshold r =
  (smoothed r / 1000000 + N.max (4 * (rttvar r / 1000) / 1000) 1 + mad r / 1000000) * 3 * 1000000.
Proof. reflexivity. Qed.

(* the duration the manager compares with that threshold is the calculator's over exactly the packets
   declared lost in this detection, in packet number order *)
Lemma detect_walk_calc : forall m lg now cpath l c ls c' lt,
  detect_walk m lg now cpath l c = (ls, c', lt) ->
  c' = fold_left (step (fts (get_path m cpath)) cpath) ls c.
Proof.
  intros m lg now cpath l. induction l as [|p t IH]; intros c ls c' lt H; cbn [detect_walk] in H.
  - injection H as <- <- <-. reflexivity.
  - destruct (lg <? p_pn p); [injection H as <- <- <-; reflexivity|].
    destruct (detect (loss_time_threshold (rt (get_path m (p_path p)))) (p_time p) k_packet_threshold (p_pn p) lg now).
    + destruct (detect_walk m lg now cpath t (pc_on_lost c (fts (get_path m cpath)) cpath p)) as [[ls1 c1] lt1] eqn:E1.
      injection H as <- <- <-. cbn [fold_left]. apply (IH _ _ _ _ E1).
    + injection H as <- <- <-. reflexivity.
Qed.

(* ---- what the manager hands to the congestion controller when it declares packets lost ---- *)
(* every on_packet_lost call of a detection at time [now] carries timestamp = now (the recovery period
   starts when the loss is detected, RFC 9002 7.3.2), a positive byte count, the path of the packet,
   persistent_congestion = (threshold of that path < duration) && (packet on the path the ACK arrived on) *)
Theorem lost_calls_spec : forall ls m pcd cpath now prev k,
  In k (lost_calls m pcd cpath now prev ls) ->
  k_kind k = 3 /\ k_d k = now /\
  exists p, In p ls /\ 0 < p_bytes p /\ k_a k = p_bytes p /\ k_path k = p_path p
    /\ k_b k = nb ((persistent_congestion_threshold (rt (get_path m (p_path p))) <? pcd) && (p_path p =? cpath)).
Proof.
  induction ls as [|p t IH]; intros m pcd cpath now prev k H; cbn [lost_calls] in H; [destruct H|].
  apply in_app_iff in H as [H|H].
  - destruct (N.ltb_spec 0 (p_bytes p)); [|destruct H]. destruct H as [<-|[]]. cbn [k_kind k_d k_a k_path k_b].
    split; [reflexivity|]. split; [reflexivity|]. exists p. split; [left; reflexivity|]. repeat split; auto.
  - destruct (IH _ _ _ _ _ _ H) as (H1 & H2 & q & Hq & Hr). split; [assumption|]. split; [assumption|]. exists q. split; [right; assumption|assumption].
Qed.

(* new_loss_burst: true for the first lost packet of a detection and after every packet number gap *)
Theorem lost_calls_burst : forall m pcd cpath now prev p t,
  lost_calls m pcd cpath now prev (p :: t) =
  (if 0 <? p_bytes p
   then [{| k_kind := 3; k_path := p_path p; k_a := p_bytes p;
            k_b := nb ((persistent_congestion_threshold (rt (get_path m (p_path p))) <? pcd) && (p_path p =? cpath));
            k_c := nb (match prev with None => true | Some q => negb (p_pn p =? q + 1) end); k_d := now |}]
   else [])
  ++ lost_calls m pcd cpath now (Some (p_pn p)) t.
Proof. reflexivity. Qed.

(* the calls of one detection are those for exactly the packets it declares lost, in packet number
   order, with the duration of the persistent congestion calculator over those packets *)
Theorem detect_calls_spec : forall m now cpath, exists ls,
  snd (detect_and_remove m now cpath) = map p_pn ls
  /\ detect_calls m now cpath =
     lost_calls m (maxd (fold_left (step (fts (get_path m cpath)) cpath) ls pc0)) cpath now None ls.
Proof.
  intros m now cpath. unfold detect_and_remove, detect_calls.
  destruct (largest m) as [lg|]; [|exists []; split; reflexivity].
  destruct (detect_walk m lg now cpath (sentp m) {| cur := None; maxd := 0 |}) as [[ls c] lt] eqn:E.
  exists ls. split; [reflexivity|]. rewrite (detect_walk_calc _ _ _ _ _ _ _ _ _ E). reflexivity.
Qed.
