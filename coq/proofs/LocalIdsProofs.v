(* Proofs about model/LocalIds.v: the registry invariant over every operation sequence. *)
From SQ Require Import lib.Base lib.ListX gen.Gen_C13 model.LocalIds.
From Coq Require Import Sorting.Sorted.
Local Open Scope N_scope.

(* ---------------------------------------------------------------------------------------------- *)
(* registry invariant *)

Definition retconf_below (p : N) (i : info) : Prop :=
  match ist i with PRetConf _ => iseq i < p | _ => True end.

Record RInv (r : reg) : Prop := {
  inv_sorted : StronglySorted N.lt (map iseq (infos r));
  inv_below : Forall (fun i => iseq i < nseq r) (infos r);
  inv_count : active_count r <= lim r;
  inv_retconf : Forall (retconf_below (rpt r)) (infos r);
  inv_rpt : rpt r <= nseq r;
  inv_ids : NoDup (map iid (infos r)) }.

Definition nact (l : list info) : nat := length (filter (fun i => negb (is_retired i)) l).
Lemma active_count_nact r : active_count r = N.of_nat (nact (infos r)).
Proof. reflexivity. Qed.

(* an update of one info that keeps id and sequence number, never un-retires, and moves into
   PendingRetirementConfirmation only below p *)
Definition upd (p : N) (i i' : info) : Prop :=
  iseq i' = iseq i /\ iid i' = iid i /\ (is_retired i = true -> is_retired i' = true) /\
  (retconf_below p i \/ iseq i < p -> retconf_below p i' ) /\
  (match ist i' with PRetConf _ => (match ist i with PRetConf _ => True | _ => iseq i < p end) | _ => True end).

Lemma upd_refl p i : upd p i i.
Proof. unfold upd, retconf_below. repeat split; auto. - intros [H|H]; auto. destruct (ist i); auto.
  - destruct (ist i); auto. Qed.

Lemma upd_seqs p l l' : Forall2 (upd p) l l' -> map iseq l' = map iseq l /\ map iid l' = map iid l.
Proof. induction 1 as [|i i' l l' H _ [IH1 IH2]]; cbn [map]; [auto|]. destruct H as (H1 & H2 & _). now rewrite H1, H2, IH1, IH2. Qed.

Lemma upd_nact p l l' : Forall2 (upd p) l l' -> (nact l' <= nact l)%nat.
Proof.
  induction 1 as [|i i' l l' H _ IH]; [auto|]. unfold nact in *. cbn [filter].
  destruct H as (_ & _ & H & _).
  destruct (is_retired i) eqn:E; cbn [negb].
  - rewrite (H eq_refl). cbn [negb]. exact IH.
  - destruct (is_retired i'); cbn [negb length]; lia.
Qed.

Lemma upd_retconf p q l l' : q <= p -> Forall2 (upd p) l l' -> Forall (retconf_below q) l -> Forall (retconf_below p) l'.
Proof.
  intros Hq. induction 1 as [|i i' l l' H _ IH]; intros HF; constructor.
  - inversion HF; subst. destruct H as (Hs & _ & _ & _ & H5). unfold retconf_below in *.
    destruct (ist i'); auto. rewrite Hs. destruct (ist i); auto. lia.
  - inversion HF; auto.
Qed.

Lemma upd_inv r l' p :
  RInv r -> Forall2 (upd p) (infos r) l' -> rpt r <= p -> p <= nseq r ->
  RInv (mkR l' (nseq r) p (lim r) (rot r)).
Proof.
  intros [A B C D E F] H Hp1 Hp2. destruct (upd_seqs _ _ _ H) as [Hs Hi].
  constructor; cbn [infos nseq rpt lim].
  - now rewrite Hs.
  - clear -B H. induction H as [|i i' l l' Hu _ IH]; constructor; inversion B; subst; auto.
    destruct Hu as (Hu & _). now rewrite Hu.
  - rewrite active_count_nact in *. cbn [infos]. pose proof (upd_nact _ _ _ H). lia.
  - eapply upd_retconf; eauto.
  - exact Hp2.
  - now rewrite Hi.
Qed.

(* ---------------------------------------------------------------------------------------------- *)
(* the operations that only change statuses *)

Lemma Forall2_map_upd p (f : info -> info) l : (forall i, upd p i (f i)) -> Forall2 (upd p) l (map f l).
Proof. intros H. induction l; cbn [map]; constructor; auto. Qed.

Lemma set_st_upd p i s :
  (is_retired i = true -> match s with PRetConf _ | PRemoval _ => True | _ => False end) ->
  (match s with PRetConf _ => match ist i with PRetConf _ => True | _ => iseq i < p end | _ => True end) ->
  upd p i (set_st i s).
Proof.
  intros H1 H2. unfold upd, retconf_below, set_st, is_retired in *; cbn [ist iseq iid].
  repeat split; auto.
  - intros Hr. specialize (H1 Hr). destruct s; auto; contradiction.
  - intros [H|H]; destruct s; auto. destruct (ist i); auto.
Qed.

Lemma on_ack_inv r lo hi : RInv r -> RInv (on_ack r lo hi).
Proof.
  intros H. unfold on_ack. apply (upd_inv r _ (rpt r) H); [|lia|apply (inv_rpt _ H)].
  apply Forall2_map_upd. intros i. destruct (ist i) eqn:E; try apply upd_refl.
  destruct (in_range lo hi pn); [|apply upd_refl].
  unfold upd, retconf_below, is_retired; cbn [ist iseq iid]. rewrite E. repeat split; auto; discriminate.
Qed.

Lemma on_loss_inv r lo hi : RInv r -> RInv (on_loss r lo hi).
Proof.
  intros H. unfold on_loss. apply (upd_inv r _ (rpt r) H); [|lia|apply (inv_rpt _ H)].
  apply Forall2_map_upd. intros i. destruct (ist i) eqn:E; try apply upd_refl.
  destruct (in_range lo hi pn); [|apply upd_refl].
  apply set_st_upd; auto. unfold is_retired. rewrite E. discriminate.
Qed.

Lemma can_tx_0 c : can_tx 0 c = false.
Proof. destruct c as [|[p|p|]]; reflexivity. Qed.

Lemma can_tx_not_retired i c : can_tx (tx_int i) c = true -> is_retired i = false.
Proof. unfold tx_int, is_retired. destruct (ist i); auto; rewrite can_tx_0; discriminate. Qed.

Lemma transmit_in_upd q l p constraint cap pn :
  Forall2 (upd q) l (fst (transmit_in l p constraint cap pn)).
Proof.
  revert cap. induction l as [|i t IH]; intros cap; cbn [transmit_in]; [constructor|].
  destruct (can_tx (tx_int i) constraint) eqn:Ec.
  - destruct (0 <? cap).
    + specialize (IH (cap - 1)). destruct (transmit_in t p constraint (cap - 1) pn) as [t' fs]. cbn [fst] in *.
      constructor; auto. apply set_st_upd; auto.
      rewrite (can_tx_not_retired _ _ Ec). discriminate.
    + specialize (IH cap). destruct (transmit_in t p constraint cap pn). cbn [fst] in *. constructor; auto using upd_refl.
  - specialize (IH cap). destruct (transmit_in t p constraint cap pn). cbn [fst] in *. constructor; auto using upd_refl.
Qed.

Lemma on_transmit_inv r constraint cap pn : RInv r -> RInv (fst (on_transmit r constraint cap pn)).
Proof.
  intros H. unfold on_transmit. destruct (can_tx (tx_interest r) constraint); [|exact H].
  pose proof (transmit_in_upd (rpt r) (infos r) (rpt r) constraint cap pn) as Hu.
  destruct (transmit_in (infos r) (rpt r) constraint cap pn) as [l fs]. cbn [fst] in *.
  apply (upd_inv r _ (rpt r) H Hu); [lia|apply (inv_rpt _ H)].
Qed.

Lemma retire_in_upd q l sq dcid removal : Forall2 (upd q) l (snd (retire_in l sq dcid removal)).
Proof.
  induction l as [|i t IH]; cbn [retire_in]; [constructor|].
  destruct ((match ist i with PRemoval _ => false | _ => true end) && (iseq i =? sq)).
  - destruct (iid i =? dcid); cbn [snd].
    + constructor; [apply upd_refl|]. clear. induction t; constructor; auto using upd_refl.
    + constructor; [apply set_st_upd; auto|]. clear. induction t; constructor; auto using upd_refl.
  - destruct (retire_in t sq dcid removal). cbn [snd] in *. constructor; auto using upd_refl.
Qed.

Lemma on_retire_inv r sq dcid rtt now : RInv r -> RInv (snd (on_retire r sq dcid rtt now)).
Proof.
  intros H. unfold on_retire. destruct (nseq r <=? sq); [exact H|].
  pose proof (retire_in_upd (rpt r) (infos r) sq dcid (now + rtt * rtt_multiplier)) as Hu.
  destruct (retire_in (infos r) sq dcid (now + rtt * rtt_multiplier)) as [code l]. cbn [snd] in *.
  apply (upd_inv r _ (rpt r) H Hu); [lia|apply (inv_rpt _ H)].
Qed.

Lemma retire_hs_upd l l' : retire_hs l = Some l' -> Forall2 (upd 1) l l'.
Proof.
  revert l'. induction l as [|i t IH]; intros l'; cbn [retire_hs]; [discriminate|].
  destruct ((iseq i =? 0) && negb (is_retired i)) eqn:E.
  - intros [= <-]. apply andb_prop in E. destruct E as [E1 E2]. apply N.eqb_eq in E1.
    constructor; [|clear; induction t; constructor; auto using upd_refl].
    apply set_st_upd.
    + intros Hr. rewrite Hr in E2. discriminate.
    + destruct (ist i); auto; lia.
  - destruct (retire_hs t) as [t'|]; cbn [option_map]; [|discriminate]. intros [= <-].
    constructor; auto using upd_refl.
Qed.

Lemma hs_nonempty_nseq r : RInv r -> infos r <> [] -> 1 <= nseq r.
Proof. intros H Hn. destruct (infos r) as [|i t] eqn:E; [congruence|]. pose proof (inv_below _ H) as B. rewrite E in B. inversion B; subst. lia. Qed.

Lemma on_handshake_confirmed_inv r : RInv r -> RInv (on_handshake_confirmed r).
Proof.
  intros H. unfold on_handshake_confirmed. destruct (rot r) eqn:Erot; [|exact H]. rewrite <- Erot.
  destruct (retire_hs (infos r)) as [l|] eqn:E; [|exact H].
  apply (upd_inv r l (N.max (rpt r) 1) H).
  - apply retire_hs_upd in E. clear -E. induction E as [|i i' l l' Hu _ IH]; constructor; auto.
    destruct Hu as (H1 & H2 & H3 & H4 & H5). unfold upd. repeat split; auto.
    + unfold retconf_below in *. intros [Hq|Hq]; destruct (ist i'); auto; destruct (ist i); auto; try lia.
    + destruct (ist i'); auto. destruct (ist i); auto; lia.
  - lia.
  - pose proof (inv_rpt _ H). assert (1 <= nseq r); [|lia].
    apply hs_nonempty_nseq; auto. intros Hn. rewrite Hn in E. discriminate.
Qed.

Lemma set_limit_inv r v : RInv r -> active_count r <= N.min max_active_connection_id_limit v -> RInv (set_limit r v).
Proof. intros [A B C D E F] Hc. constructor; cbn [set_limit infos nseq rpt lim]; auto. Qed.

(* ---------------------------------------------------------------------------------------------- *)
(* timeout *)

Definition ready_map ts (i : info) : info :=
  if is_retire_ready i ts then set_st i (PRetConf (Some (ts + exp_buf))) else i.
Definition ready_max ts (p : N) (i : info) : N := if is_retire_ready i ts then N.max p (iseq i + 1) else p.

Lemma retire_fold ts l acc p :
  fold_left (retire_ready_step ts) l (acc, p) = (acc ++ map (ready_map ts) l, fold_left (ready_max ts) l p).
Proof.
  revert acc p. induction l as [|i t IH]; intros acc p; cbn [fold_left map].
  - now rewrite app_nil_r.
  - unfold retire_ready_step at 2, ready_map at 1, ready_max at 2. destruct (is_retire_ready i ts);
      rewrite IH, <- app_assoc; reflexivity.
Qed.

Lemma ready_max_ge ts l p : p <= fold_left (ready_max ts) l p.
Proof. revert p. induction l as [|i t IH]; intros p; cbn [fold_left]; [lia|]. specialize (IH (ready_max ts p i)). unfold ready_max in *. destruct (is_retire_ready i ts); lia. Qed.

Lemma ready_max_le ts l p n : p <= n -> Forall (fun i => iseq i < n) l -> fold_left (ready_max ts) l p <= n.
Proof.
  revert p. induction l as [|i t IH]; intros p Hp HF; cbn [fold_left]; [lia|]. inversion HF; subst.
  apply IH; auto. unfold ready_max. destruct (is_retire_ready i ts); lia.
Qed.

Lemma ready_max_in ts l p i : In i l -> is_retire_ready i ts = true -> iseq i < fold_left (ready_max ts) l p.
Proof.
  revert p. induction l as [|j t IH]; intros p Hin Hr; [destruct Hin|]. destruct Hin as [->|Hin]; cbn [fold_left].
  - pose proof (ready_max_ge ts t (ready_max ts p i)). unfold ready_max in *. rewrite Hr in *. lia.
  - apply IH; auto.
Qed.

Lemma ready_map_upd ts l q : (forall i, In i l -> is_retire_ready i ts = true -> iseq i < q) ->
  Forall2 (upd q) l (map (ready_map ts) l).
Proof.
  induction l as [|i t IH]; intros H; cbn [map]; constructor.
  - unfold ready_map. destruct (is_retire_ready i ts) eqn:E; [|apply upd_refl].
    apply set_st_upd.
    + intros Hr. unfold is_retire_ready in E. rewrite Hr in E. discriminate.
    + destruct (ist i); auto; apply H; auto; now left.
  - apply IH. intros j Hj. apply H. now right.
Qed.

Lemma filter_inv r (f : info -> bool) : RInv r -> RInv (mkR (filter f (infos r)) (nseq r) (rpt r) (lim r) (rot r)).
Proof.
  intros [A B C D E F]. constructor; cbn [infos nseq rpt lim]; auto.
  - clear -A. induction (infos r) as [|i t IH]; cbn [filter map]; [constructor|].
    inversion A; subst. destruct (f i); cbn [map]; auto. constructor; auto.
    clear -H2. induction t as [|j t IH]; cbn [filter map]; [constructor|]. inversion H2; subst.
    destruct (f j); cbn [map]; auto.
  - clear -B. induction B; cbn [filter]; [constructor|]. destruct (f x); auto.
  - rewrite active_count_nact in *. cbn [infos]. assert (nact (filter f (infos r)) <= nact (infos r))%nat; [|lia].
    clear. unfold nact. induction (infos r) as [|i t IH]; cbn [filter]; [lia|].
    destruct (f i); cbn [filter]; destruct (negb (is_retired i)); cbn [length]; lia.
  - clear -D. induction D; cbn [filter]; [constructor|]. destruct (f x); auto.
  - clear -F. induction (infos r) as [|i t IH]; cbn [filter map]; [constructor|]. inversion F; subst.
    destruct (f i); cbn [map]; auto. constructor; auto. intros Hin. apply H1.
    clear -Hin. induction t as [|j t IH]; cbn [filter map] in *; [auto|]. destruct (f j); cbn [map] in *; [destruct Hin as [Hin|Hin]; [now left|right; auto]|right; auto].
Qed.

Lemma on_timeout_inv r m ts : RInv r -> RInv (fst (on_timeout r m ts)).
Proof.
  intros H. unfold on_timeout. destruct (match timer r with Some t => has_elapsed t ts | None => false end); [|exact H].
  rewrite retire_fold. cbn [app fst].
  set (p := fold_left (ready_max ts) (infos r) (rpt r)).
  assert (H1 : RInv (mkR (map (ready_map ts) (infos r)) (nseq r) p (lim r) (rot r))).
  { apply (upd_inv r _ p H).
    - apply ready_map_upd. intros i Hi Hr. apply ready_max_in; auto.
    - apply ready_max_ge.
    - apply ready_max_le; [apply (inv_rpt _ H)|apply (inv_below _ H)]. }
  exact (filter_inv _ (fun i => negb (is_expired i ts)) H1).
Qed.

(* ---------------------------------------------------------------------------------------------- *)
(* register *)

Lemma register_inv r m c id e tok :
  RInv r -> active_count r < lim r -> RInv (snd (fst (register r m c id e tok))).
Proof.
  intros H Hc. unfold register. destruct (existsb (fun i => iid i =? id) (infos r)) eqn:Ex; [exact H|].
  destruct (map_get m id); [exact H|]. cbn [fst snd].
  destruct H as [A B C D E F]. constructor; cbn [infos nseq rpt lim].
  - rewrite map_app. cbn [map iseq]. clear -A B. induction (infos r) as [|i t IH]; cbn [map app].
    + repeat constructor.
    + inversion A; subst. inversion B; subst. constructor; auto.
      rewrite Forall_app. split; auto.
  - rewrite Forall_app. split; [|repeat constructor; cbn [iseq]; lia].
    eapply Forall_impl; [|exact B]. cbn. intros; lia.
  - rewrite active_count_nact in *. cbn [infos]. unfold nact in *. rewrite filter_app, app_length. cbn. lia.
  - rewrite Forall_app. split; auto. repeat constructor.
  - lia.
  - rewrite map_app. cbn [map iid]. clear -F Ex. induction (infos r) as [|i t IH]; cbn [map app].
    + repeat constructor. auto.
    + cbn [existsb] in Ex. apply orb_false_elim in Ex. destruct Ex as [E1 E2]. inversion F; subst.
      constructor; auto. rewrite in_app_iff. intros [Hin|[Hin|[]]]; auto. apply N.eqb_neq in E1. congruence.
Qed.

Lemma register_count r m c id e tok :
  active_count (snd (fst (register r m c id e tok))) <= active_count r + 1 /\
  lim (snd (fst (register r m c id e tok))) = lim r.
Proof.
  unfold register. destruct (existsb (fun i => iid i =? id) (infos r)); cbn [fst snd]; [split; [lia|reflexivity]|].
  destruct (map_get m id); cbn [fst snd]; [split; [lia|reflexivity]|].
  cbn [lim]. split; auto. rewrite !active_count_nact. cbn [infos]. unfold nact. rewrite filter_app, app_length. cbn. lia.
Qed.

(* ---------------------------------------------------------------------------------------------- *)
(* frames written by on_transmit *)

Lemma transmit_in_frames l p constraint cap pn f :
  In f (snd (transmit_in l p constraint cap pn)) ->
  exists i, In i l /\ f = (iseq i, p, iid i, itok i) /\ is_retired i = false.
Proof.
  revert cap. induction l as [|i t IH]; intros cap; cbn [transmit_in]; [intros []|].
  destruct (can_tx (tx_int i) constraint) eqn:Ec.
  - destruct (0 <? cap).
    + specialize (IH (cap - 1)). destruct (transmit_in t p constraint (cap - 1) pn) as [t' fs]. cbn [snd] in *.
      intros [<-|Hin].
      * exists i. repeat split; [now left|]. eapply can_tx_not_retired; eauto.
      * destruct (IH Hin) as (j & Hj & Hf). exists j. split; [now right|auto].
    + specialize (IH cap). destruct (transmit_in t p constraint cap pn). cbn [snd] in *.
      intros Hin. destruct (IH Hin) as (j & Hj & Hf). exists j. split; [now right|auto].
  - specialize (IH cap). destruct (transmit_in t p constraint cap pn). cbn [snd] in *.
    intros Hin. destruct (IH Hin) as (j & Hj & Hf). exists j. split; [now right|auto].
Qed.

Lemma on_transmit_frames r constraint cap pn f :
  In f (snd (on_transmit r constraint cap pn)) ->
  exists i, In i (infos r) /\ f = (iseq i, rpt r, iid i, itok i) /\ is_retired i = false.
Proof.
  unfold on_transmit. destruct (can_tx (tx_interest r) constraint); [|intros []].
  pose proof (transmit_in_frames (infos r) (rpt r) constraint cap pn f) as H.
  destruct (transmit_in (infos r) (rpt r) constraint cap pn). exact H.
Qed.

(* ---------------------------------------------------------------------------------------------- *)
(* every reachable state of the driver *)

Definition CInv (k : conn) : Prop :=
  match creg k with
  | Some r => RInv r /\ (lset k = false -> lim r <= 2)
  | None => True
  end.
Definition GInv (s : st) : Prop := Forall CInv (conns s).

Lemma Forall_set_nth {A} (P : A -> Prop) : forall i l x, Forall P l -> P x -> Forall P (set_nth i l x).
Proof.
  induction i as [|i IH]; intros [|h t] x HF Hx; cbn [set_nth]; auto; inversion HF; subst; constructor; auto.
Qed.

Lemma Forall_nth_d {A} (P : A -> Prop) d : forall l i, Forall P l -> P d -> P (nth i l d).
Proof. induction l as [|h t IH]; intros [|i] HF Hd; cbn [nth]; auto; inversion HF; subst; auto. Qed.

Lemma CInv_dummy : CInv dummy_conn.
Proof. exact I. Qed.

Lemma register_n_inv n : forall first s c k r a b,
  RInv r -> active_count r + N.of_nat n <= lim r ->
  let '(s', k', r', o) := register_n n first s c k r a b in
  RInv r' /\ lim r' = lim r /\ conns s' = conns s /\ lset k' = lset k.
Proof.
  induction n as [|n IH]; intros first s c k r a b HR Hc; cbn [register_n]; [auto|].
  set (id := match (if first && (0 <? b)%Z then _ else None) with Some x => x | None => ID_BASE + nids s end).
  pose proof (register_inv r (idm s) c id (expiry a (now s)) (TOK_BASE + nids s) HR ltac:(lia)) as H1.
  pose proof (register_count r (idm s) c id (expiry a (now s)) (TOK_BASE + nids s)) as [H2 H3].
  destruct (register r (idm s) c id (expiry a (now s)) (TOK_BASE + nids s)) as [[code r'] m']. cbn [fst snd] in *.
  match goal with |- context [register_n n false ?s1 c ?k1 r' a b] =>
    specialize (IH false s1 c k1 r' a b H1 ltac:(lia)); destruct (register_n n false s1 c k1 r' a b) as [[[s'' k''] r''] o] end.
  destruct IH as (I1 & I2 & I3 & I4). split; [exact I1|]. split; [congruence|]. split; [exact I3|].
  rewrite I4. destruct (code =? 0); reflexivity.
Qed.

Lemma step_inv s o : GInv s -> GInv (fst (step s o)).
Proof.
  intros G. destruct o as [[[[code0 c0] a] b] d]. unfold step.
  set (c := N.to_nat (zmod c0 (Z.of_nat (length (conns s))))).
  set (k := nth c (conns s) dummy_conn).
  assert (Hk : CInv k) by (apply Forall_nth_d; auto; exact CInv_dummy).
  unfold CInv in Hk.
  destruct (creg k) as [r|] eqn:Er; [|exact G]. destruct Hk as [HR HL].
  assert (upd1 : forall r', RInv r' -> lim r' = lim r -> GInv (set_conn s c (with_reg k r'))).
  { intros r' H1 H2. apply Forall_set_nth; auto. unfold CInv; cbn [with_reg creg lset]. split; auto. now rewrite H2. }
  destruct (zmod code0 10) as [|[[[|[]|]|[[]|[]|]|]|[[[]|[]|]|[[]|[]|]|]|]]; try exact G;
  lazymatch goal with
  | |- context [on_retire] => idtac
  | |- context [close_conn] => apply Forall_set_nth; auto; exact I
  | |- context [on_ack] => apply upd1; [apply on_ack_inv; auto|reflexivity]
  | |- context [on_loss] => apply upd1; [apply on_loss_inv; auto|reflexivity]
  | |- context [on_handshake_confirmed] =>
      apply upd1; [apply on_handshake_confirmed_inv; auto|];
      unfold on_handshake_confirmed; destruct (rot r); [|reflexivity]; destruct (retire_hs (infos r)); reflexivity
  | _ => idtac
  end.
  - (* 7 timeout *)
    pose proof (on_timeout_inv r (idm s) (now s + N.min (zN (Z.max a 0)) MAX_STEP) HR) as H.
    match goal with |- context [on_timeout r ?m ?t] =>
      assert (HLm : lim (fst (on_timeout r m t)) = lim r)
        by (unfold on_timeout; destruct (match timer r with Some _ => _ | None => _ end); [|reflexivity];
            destruct (fold_left _ _ _); reflexivity);
      destruct (on_timeout r m t) as [r' m'] end.
    cbn [fst] in *. apply Forall_set_nth; auto. unfold CInv; cbn [with_reg creg lset]. split; auto. now rewrite HLm.
  - (* 3 retire *)
    pose proof (on_retire_inv r (zmod a 16)) as H.
    match goal with |- context [on_retire r ?sq ?dc ?rtt ?nw] => specialize (H dc rtt nw HR);
      assert (HLm : lim (snd (on_retire r sq dc rtt nw)) = lim r)
        by (unfold on_retire; destruct (nseq r <=? sq); [reflexivity|]; destruct (retire_in _ _ _ _); reflexivity);
      destruct (on_retire r sq dc rtt nw) as [rc r'] end.
    cbn [snd] in *. destruct (rc =? 0); cbn [fst].
    + apply upd1; auto.
    + apply Forall_set_nth; auto. exact I.
  - (* 4 transmit *)
    pose proof (on_transmit_inv r (zmod a 4) (zmod b 5) (cpn k) HR) as H.
    assert (HLm : lim (fst (on_transmit r (zmod a 4) (zmod b 5) (cpn k))) = lim r).
    { unfold on_transmit. destruct (can_tx _ _); [|reflexivity]. destruct (transmit_in _ _ _ _ _); reflexivity. }
    destruct (on_transmit r (zmod a 4) (zmod b 5) (cpn k)) as [r' fs]. cbn [fst] in *.
    apply Forall_set_nth; auto. unfold CInv; cbn [creg lset]. split; auto. now rewrite HLm.
  - (* 2 register *)
    set (n := N.min (N.min (interest r) (N.max (zmod d 4) 1)) (MAX_IDS - nids s)).
    pose proof (register_n_inv (N.to_nat n) true s c k r a b HR) as H.
    assert (Hn : active_count r + N.of_nat (N.to_nat n) <= lim r).
    { pose proof (inv_count _ HR). unfold n, interest. lia. }
    specialize (H Hn). destruct (register_n (N.to_nat n) true s c k r a b) as [[[s1 k1] r1] o1].
    destruct H as (I1 & I2 & I3 & I4). cbn [fst]. unfold set_conn. cbn [conns]. rewrite I3.
    apply Forall_set_nth; auto. unfold CInv; cbn [with_reg creg lset]. split; auto. rewrite I2, I4. auto.
  - (* 1 set_limit *)
    destruct (lset k) eqn:El; [exact G|]. cbn [fst]. apply Forall_set_nth; auto. unfold CInv; cbn [creg lset].
    split; [|discriminate]. apply set_limit_inv; auto.
    pose proof (inv_count _ HR). specialize (HL eq_refl).
    assert (2 <= N.min max_active_connection_id_limit (2 + zmod a 7)); [|lia].
    apply N.min_glb; [vm_compute; discriminate|lia].
Qed.

Definition state_after (s : st) (ops : list an_op) : st := fold_left (fun s o => fst (step s o)) ops s.

Lemma new_reg_inv id tok e rotate : RInv (new_reg id tok e rotate).
Proof.
  constructor; cbn [new_reg infos nseq rpt lim map iseq iid].
  - repeat constructor.
  - repeat constructor.
  - vm_compute. discriminate.
  - repeat constructor.
  - lia.
  - repeat constructor. auto.
Qed.

Lemma open_conns_inv n : forall l s, GInv s -> GInv (fst (open_conns n l s)).
Proof.
  induction n as [|n IH]; intros l s G; cbn [open_conns]; [exact G|].
  apply IH. unfold GInv; cbn [conns]. apply Forall_app. split; [exact G|].
  constructor; [|constructor]. unfold CInv; cbn [creg lset]. split; [apply new_reg_inv|].
  intros _. cbn [new_reg lim]. vm_compute. discriminate.
Qed.

Theorem reachable_inv case ops : GInv (state_after (fst (init case)) ops).
Proof.
  assert (G0 : GInv (fst (init case))) by (unfold init; apply open_conns_inv; constructor).
  revert G0. generalize (fst (init case)). induction ops as [|o t IH]; intros s G; cbn [state_after fold_left]; [exact G|].
  apply IH. apply step_inv; auto.
Qed.

(* the registry of an open connection in a reachable state *)
Definition reachable_reg (r : reg) : Prop :=
  exists case ops k, In k (conns (state_after (fst (init case)) ops)) /\ creg k = Some r.

Lemma reachable_reg_inv r : reachable_reg r -> RInv r.
Proof.
  intros (case & ops & k & Hin & Hr). pose proof (reachable_inv case ops) as G.
  unfold GInv in G. rewrite Forall_forall in G. specialize (G k Hin). unfold CInv in G. rewrite Hr in G. tauto.
Qed.

(* ---------------------------------------------------------------------------------------------- *)
(* property level statements *)

(* at any time the ids that count against the peer's limit (everything not yet retired by either side) are
   at most the limit in force, and the limit in force never exceeds what the peer announced *)
Theorem issued_within_limit r : reachable_reg r ->
  active_count r <= lim r /\
  Forall (fun i => match ist i with PRetConf _ => iseq i < rpt r | _ => True end) (infos r).
Proof. intros H. apply reachable_reg_inv in H. split; [apply (inv_count _ H)|apply (inv_retconf _ H)]. Qed.

Theorem set_limit_le_peer r v : lim (set_limit r v) <= v /\ lim (set_limit r v) <= Gen_C13.max_active_connection_id_limit.
Proof. cbn [set_limit lim]. lia. Qed.

(* sequence numbers: strictly increasing along the registry, below the next number; ids pairwise distinct;
   a newly registered id gets exactly the next number, which then increases by one *)
Theorem seq_consecutive_distinct r : reachable_reg r ->
  StronglySorted N.lt (map iseq (infos r)) /\ Forall (fun i => iseq i < nseq r) (infos r) /\
  NoDup (map iid (infos r)).
Proof. intros H. apply reachable_reg_inv in H. destruct H; auto. Qed.

Theorem register_next_seq r m c id e tok r' m' :
  register r m c id e tok = (0, r', m') ->
  exists i, infos r' = infos r ++ [i] /\ iseq i = nseq r /\ iid i = id /\ itok i = tok /\ nseq r' = nseq r + 1 /\
            map_get m id = None /\ map_get m' id = Some c.
Proof.
  unfold register. destruct (existsb _ _); [discriminate|]. destruct (map_get m id) eqn:E; [discriminate|].
  intros [= <- <-]. eexists. cbn [infos nseq map_get]. rewrite N.eqb_refl. repeat split; reflexivity.
Qed.

(* every NEW_CONNECTION_ID frame names an unretired registered id with its own sequence number and token and the
   registry's current retire_prior_to *)
Theorem frames_are_registered r constraint cap pn f : reachable_reg r ->
  In f (snd (on_transmit r constraint cap pn)) ->
  exists i, In i (infos r) /\ f = (iseq i, rpt r, iid i, itok i) /\ is_retired i = false /\
            1 <= iseq i + 1 <= nseq r /\ rpt r <= nseq r.
Proof.
  intros H Hin. apply reachable_reg_inv in H. destruct (on_transmit_frames _ _ _ _ _ Hin) as (i & Hi & Hf & Hr).
  exists i. repeat split; auto; try lia.
  - pose proof (inv_below _ H) as B. rewrite Forall_forall in B. specialize (B i Hi). cbn in B. lia.
  - apply (inv_rpt _ H).
Qed.

(* the full statement "retire_prior_to <= sequence_number in every frame" is false of the faithful model when
   per-id lifetimes are not monotone: the witness is replayed on the implementation by the check *)
Fixpoint bad_frame (l : list Z) : bool :=
  match l with
  | [] => false
  | x :: t => match t with
              | sq :: p :: id :: _ => ((x =? 24) && (sq <? p) && (1000 <=? id) && (id <? 1100))%Z || bad_frame t
              | _ => false
              end
  end.

Definition refuting_case : list Z :=
  [0; 0; 0; 1; 0; 1; 0; 0; 2; 0; 0; 0; 1; 2; 0; 60000000; 0; 1; 7; 0; 31000000; 0; 0; 4; 0; 0; 4; 0]%Z.

Lemma rpt_le_seq_refuted : bad_frame (run refuting_case) = true /\ judge refuting_case (run refuting_case) = false.
Proof. split; vm_compute; reflexivity. Qed.

(* the judgement accepts the model's own output on concrete non-trivial runs *)
Definition example_case : list Z :=
  [1; 1; 60000000; 0; 0;
   1; 0; 1; 0; 0;  2; 0; 60000000; 0; 3;  4; 0; 0; 1; 0;  6; 0; 0; 0; 0;  4; 0; 0; 4; 0;  5; 0; 1; 0; 0;
   8; 0; 0; 0; 0;  3; 0; 0; 2; 1000;  7; 0; 30000000; 0; 0;  2; 0; 60000000; 0; 3;  4; 0; 0; 4; 0;
   7; 0; 30000000; 0; 0;  2; 1; 0; 1; 3; 3; 0; 1; 0; 0]%Z.

Lemma judge_run_example : judge example_case (run example_case) = true /\ (40 < length (run example_case))%nat.
Proof. split; vm_compute; [reflexivity|lia]. Qed.
