(* The write path of coq/model/Reassembler.v keeps the slot-list invariant and stores exactly the
   reader's bytes at the positions nobody wrote before: proof of [WriteOK]. *)
From SQ Require Import lib.Base gen.Gen_C01 model.Reassembler proofs.ReassemblerProofs proofs.ReassemblerSlots
  proofs.ReassemblerBlocks proofs.ReassemblerInv proofs.ReassemblerRefine.
Local Open Scope N_scope.

Definition optl (fo : option slot) : list slot := match fo with Some f => [f] | None => [] end.
Definition lenok (s : slot) : Prop := s_len s = nlen (s_data s).

Ltac dd := repeat match goal with
  | |- context [N.leb ?a ?b] => destruct (N.leb_spec a b)
  | |- context [N.ltb ?a ?b] => destruct (N.ltb_spec a b)
  end; cbn [andb].

Lemma slots_get_app : forall a b p, Forall lenok a ->
  slots_get (a ++ b) p = match slots_get a p with Some x => Some x | None => slots_get b p end.
Proof.
  induction a as [|s a IH]; intros b p H; cbn [app slots_get]; [reflexivity|].
  inversion H as [|? ? H1 H2]; subst. unfold s_end.
  destruct (N.leb_spec (s_start s) p); destruct (N.ltb_spec p (s_start s + s_len s)); cbn [andb]; try (apply IH; assumption).
  destruct (nth_error (s_data s) (N.to_nat (p - s_start s))) eqn:E; [reflexivity|].
  exfalso. apply nth_error_None in E. unfold lenok in H1. rewrite nlen_length in H1. lia.
Qed.

Lemma rd_get_range : forall r p, reader_ok r -> r_off r <= p -> p < r_off r + r_len r -> rd_get r p <> None.
Proof.
  intros r p Hr H1 H2. unfold rd_get. destruct (N.leb_spec (r_off r) p); [|lia].
  apply nth_error_Some. unfold reader_ok in Hr. rewrite nlen_length in Hr. lia.
Qed.

Lemma tw_full : forall s r s1 r1 fo fl, slot_ok s -> reader_ok r -> s_start s <= r_off r ->
  try_write s r = (s1, r1, fo, fl) ->
  reader_ok r1 /\ r_off r <= r_off r1 /\ r_off r1 + r_len r1 = r_off r + r_len r
  /\ (forall p, r_off r1 <= p -> rd_get r1 p = rd_get r p)
  /\ (r_len r1 = 0 \/ s_endalloc s <= r_off r1)
  /\ r_off r1 <= N.max (s_endalloc s) (r_off r)
  /\ s_start s1 = s_start s /\ lenok s1 /\ s_end s <= s_end s1
  /\ (s_end s1 = s_end s \/ s_end s1 <= r_off r1)
  /\ match fo with
     | None => s_endalloc s1 = s_endalloc s /\ s_end s1 <= s_endalloc s
     | Some f => s_len s1 = s_len s /\ s_end s < s_endalloc s1 /\ s_start f = s_endalloc s1
                 /\ s_endalloc f = s_endalloc s /\ lenok f /\ 0 < s_len f /\ s_end f <= s_endalloc f
                 /\ s_end f <= r_off r1 /\ s_start f < s_endalloc f
     end
  /\ (forall p, slots_get (s1 :: optl fo) p =
        match slots_get [s] p with
        | Some b => Some b
        | None => if (r_off r <=? p) && (p <? r_off r1) then rd_get r p else None
        end).
Proof.
  intros s r s1 r1 fo fl (Hs1 & Hs2 & Hs3) Hr Hsr H. unfold try_write in H. unfold s_end in *.
  assert (Hdat : forall p, s_start s <= p -> p < s_start s + s_len s ->
                  nth_error (s_data s) (N.to_nat (p - s_start s)) <> None).
  { intros p H1 H2. apply nth_error_Some. rewrite nlen_length in Hs2. lia. }
  destruct (N.ltb_spec (s_start s + s_len s) (s_endalloc s)) as [He|He].
  2:{ destruct (rd_skip_until_ok r (s_endalloc s) Hr) as (K1 & K2 & K3 & K4 & K5 & K6).
      injection H as <- <- <- <-. unfold lenok. repeat split; auto; try lia.
      intros p. cbn [optl slots_get]. unfold s_end. dd; try reflexivity; try lia;
        try (destruct (nth_error (s_data s) (N.to_nat (p - s_start s))) eqn:E; [reflexivity|exfalso; eapply Hdat; eauto]). }
  destruct (rd_skip_until_ok r (s_start s + s_len s) Hr) as (K1 & K2 & K3 & K4 & K5 & K6).
  set (r0 := rd_skip_until r (s_start s + s_len s)) in *.
  unfold r_empty in H. destruct (N.eqb_spec (r_len r0) 0) as [Hz|Hz].
  { injection H as <- <- <- <-. unfold lenok. repeat split; auto; try lia.
    intros p. cbn [optl slots_get]. unfold s_end. dd; try reflexivity; try lia;
      try (destruct (nth_error (s_data s) (N.to_nat (p - s_start s))) eqn:E; [reflexivity|exfalso; eapply Hdat; eauto]). }
  destruct K4 as [K4|K4]; [contradiction|].
  destruct (N.leb_spec (s_endalloc s) (r_off r0)) as [Hb|Hb].
  { assert (r_off r0 = r_off r) by lia.
    injection H as <- <- <- <-. unfold lenok. repeat split; auto; try lia.
    intros p. cbn [optl slots_get]. unfold s_end. dd; try reflexivity; try lia;
      try (destruct (nth_error (s_data s) (N.to_nat (p - s_start s))) eqn:E; [reflexivity|exfalso; eapply Hdat; eauto]). }
  destruct (N.eqb_spec (r_off r0) (s_start s + s_len s)) as [Ha|Ha].
  - (* append *)
    set (n := N.min (r_len r0) (s_endalloc s - (s_start s + s_len s))) in H.
    destruct (rd_advance_ok r0 n K1 ltac:(unfold n; lia)) as (A1 & A2 & A3 & A4).
    assert (Hn : nlen (ntake n (r_data r0)) = n) by (apply nlen_ntake; unfold reader_ok in K1; unfold n; lia).
    assert (Hn0 : 0 < n) by (unfold n; lia).
    injection H as <- <- <- <-. rewrite A2, A3. unfold lenok, s_end; cbn [s_start s_endalloc s_len s_data].
    split; [exact A1|]. split; [lia|]. split; [lia|].
    split; [intros p Hp; rewrite A4 by lia; apply K6; lia|].
    split; [unfold n; lia|]. split; [unfold n; lia|]. split; [reflexivity|].
    split; [rewrite !nlen_length, app_length in *; lia|]. split; [lia|]. split; [right; lia|].
    split; [split; [reflexivity|unfold n; lia]|].
    intros p. cbn [optl slots_get s_start s_len s_data]. unfold s_end; cbn [s_start s_len].
    destruct (N.leb_spec (s_start s) p); cbn [andb]; [|dd; try reflexivity; lia].
    destruct (N.ltb_spec p (s_start s + s_len s)) as [Hp|Hp].
    + destruct (N.ltb_spec p (s_start s + (s_len s + n))); [|lia].
      rewrite nth_error_app1 by (rewrite nlen_length in Hs2; lia).
      destruct (nth_error (s_data s) (N.to_nat (p - s_start s))) eqn:E; [reflexivity|exfalso; eapply Hdat; eauto].
    + destruct (N.ltb_spec p (s_start s + (s_len s + n))) as [Hq|Hq].
      * destruct (N.leb_spec (r_off r) p); [|lia]. destruct (N.ltb_spec p (r_off r0 + n)); [|lia]. cbn [andb].
        rewrite nth_error_app2 by (rewrite nlen_length in Hs2; lia).
        unfold ntake. rewrite nth_error_firstn_lt by (rewrite nlen_length in Hs2; lia).
        rewrite <- K6 by lia. unfold rd_get. destruct (N.leb_spec (r_off r0) p); [|lia]. f_equal.
        rewrite nlen_length in Hs2. lia.
      * dd; try reflexivity; lia.
  - (* split *)
    assert (Hgt : s_start s + s_len s < r_off r0) by lia.
    assert (Hoff : r_off r0 = r_off r) by lia.
    set (n := N.min (r_len r0) (s_endalloc s - r_off r0)) in H.
    destruct (rd_advance_ok r0 n K1 ltac:(unfold n; lia)) as (A1 & A2 & A3 & A4).
    assert (Hn : nlen (ntake n (r_data r0)) = n) by (apply nlen_ntake; unfold reader_ok in K1; unfold n; lia).
    assert (Hn0 : 0 < n) by (unfold n; lia).
    injection H as <- <- <- <-. rewrite A2, A3. unfold lenok, s_end; cbn [s_start s_endalloc s_len s_data].
    split; [exact A1|]. split; [lia|]. split; [lia|].
    split; [intros p Hp; rewrite A4 by lia; apply K6; lia|].
    split; [unfold n; lia|]. split; [unfold n; lia|]. split; [reflexivity|].
    split; [exact Hs2|]. split; [lia|]. split; [left; reflexivity|].
    split; [repeat split; auto; try lia; unfold n; lia|].
    intros p. cbn [optl slots_get s_start s_len s_data]. unfold s_end; cbn [s_start s_len].
    destruct (N.leb_spec (s_start s) p); cbn [andb].
    2:{ dd; try reflexivity; lia. }
    destruct (N.ltb_spec p (s_start s + s_len s)) as [Hp|Hp].
    + destruct (nth_error (s_data s) (N.to_nat (p - s_start s))) eqn:E; [reflexivity|exfalso; eapply Hdat; eauto].
    + destruct (N.leb_spec (r_off r0) p); destruct (N.ltb_spec p (r_off r0 + n)); cbn [andb];
        destruct (N.leb_spec (r_off r) p); try lia; cbn [andb]; try reflexivity.
      unfold ntake. rewrite nth_error_firstn_lt by lia.
      rewrite <- K6 by lia. unfold rd_get. destruct (N.leb_spec (r_off r0) p); [|lia]. reflexivity.
Qed.

(* ---- list plumbing for the index-based loops ---- *)
Lemma nth_error_zip {A} : forall (pre post : list A), nth_error (pre ++ post) (length pre) = hd_error post.
Proof.
  intros pre post. rewrite nth_error_app2 by lia. rewrite Nat.sub_diag. destruct post; reflexivity.
Qed.
Lemma insert_at_zip {A} : forall (pre post : list A) x, insert_at (length pre) x (pre ++ post) = pre ++ x :: post.
Proof.
  intros pre post x. unfold insert_at. rewrite firstn_app, skipn_app, firstn_all, skipn_all, Nat.sub_diag.
  cbn [firstn skipn app]. rewrite app_nil_r. reflexivity.
Qed.
Lemma set_nth_zip {A} : forall (pre post : list A) s x, set_nth (length pre) (pre ++ s :: post) x = pre ++ x :: post.
Proof. induction pre as [|a pre IH]; intros post s x; cbn [length app set_nth]; [reflexivity|]. rewrite IH. reflexivity. Qed.
Lemma split_two {A} : forall (sl : list A) i s nx, nth_error sl i = Some s -> nth_error sl (S i) = Some nx ->
  sl = firstn i sl ++ s :: nx :: skipn (S (S i)) sl.
Proof.
  induction sl as [|a sl IH]; intros i s nx H1 H2; [destruct i; discriminate|].
  destruct i as [|i]; cbn [nth_error firstn skipn app] in *.
  - injection H1 as ->. destruct sl as [|b sl]; [discriminate|]. cbn in H2. injection H2 as ->. reflexivity.
  - f_equal. apply IH; assumption.
Qed.

(* ---- chain bookkeeping ---- *)
Lemma chain_pre_app : forall a fo mr so P lo b,
  chain_pre fo mr so P lo (a ++ b) <-> chain_pre fo mr so P lo a /\ chain_pre fo mr so (endP fo P a) (endlo lo a) b.
Proof.
  induction a as [|s a IH]; intros fo mr so P lo b; cbn [app chain_pre endP endlo]; [tauto|]. rewrite IH. tauto.
Qed.
Lemma endP_app : forall a fo P b, endP fo P (a ++ b) = endP fo (endP fo P a) b.
Proof. induction a as [|s a IH]; intros; cbn [app endP]; auto. Qed.
Lemma endlo_app : forall a lo b, endlo lo (a ++ b) = endlo (endlo lo a) b.
Proof. induction a as [|s a IH]; intros; cbn [app endlo]; auto. Qed.
Lemma endlo_ge : forall a fo mr so P lo, chain_pre fo mr so P lo a -> lo <= endlo lo a.
Proof.
  induction a as [|s a IH]; intros fo mr so P lo H; cbn [endlo chain_pre] in *; [lia|].
  destruct H as [H1 H2]. specialize (IH _ _ _ _ _ H2). unfold okslot in H1. lia.
Qed.
Lemma chain_pre_lenok : forall a fo mr so P lo, chain_pre fo mr so P lo a -> Forall lenok a.
Proof.
  induction a as [|s a IH]; intros fo mr so P lo H; cbn [chain_pre] in *; constructor.
  - unfold okslot in H. unfold lenok. tauto.
  - eapply IH. apply H.
Qed.
Lemma chain_chain_pre : forall a fo mr so P lo, chain fo mr so P lo a -> chain_pre fo mr so P lo a /\ endP fo P a.
Proof.
  induction a as [|s a IH]; intros fo mr so P lo H; cbn [chain chain_pre endP] in *; [tauto|].
  destruct H as [H1 H2]. destruct (IH _ _ _ _ _ H2). tauto.
Qed.
Lemma okslot_slot_ok : forall fo mr so P lo s, okslot fo mr so P lo s -> slot_ok s.
Proof. unfold okslot, slot_ok. tauto. Qed.

(* a gap after the slots seen so far can only begin at a block boundary (or at the start offset) *)
Lemma gap_lo : forall pre fo mr so (P0 : Prop) lo0 off, chain_pre fo mr so P0 lo0 pre ->
  (P0 -> lo0 <= N.max (block_of off) so) -> endP fo P0 pre -> endlo lo0 pre <= off -> off < fo ->
  endlo lo0 pre <= N.max (block_of off) so.
Proof.
  induction pre as [|s t IH]; intros fo mr so P0 lo0 off Hc Hp He Hl Hf; cbn [chain_pre endP endlo] in *; [auto|].
  destruct Hc as [H1 H2]. eapply IH; eauto. intros [Hb|Hb].
  - pose proof (endlo_ge _ _ _ _ _ _ H2). unfold bend in Hb.
    pose proof (block_after (s_start s) off ltac:(lia)). lia.
  - pose proof (endlo_ge _ _ _ _ _ _ H2). lia.
Qed.

Section Loop.
Variables (fo mr so : N) (st : rstate).
Hypothesis Hfo : final_off st = fo.
Hypothesis Hso : start_off st = so.
Variables (sl0 : list slot) (r0 : reader) (rend : N).

(* what the slot list must hold while the reader stands at r_off r *)
Definition CI (sl : list slot) (r : reader) : Prop := forall p, slots_get sl p =
  match slots_get sl0 p with Some b => Some b | None => if p <? r_off r then rd_get r0 p else None end.

Record LI (pre post : list slot) (r : reader) : Prop := {
  li_pre : chain_pre fo mr so True so pre;
  li_post : chain fo mr so (endP fo True pre) (endlo so pre) post;
  li_rok : reader_ok r;
  li_end : r_off r + r_len r = rend;
  li_mr : rend <= mr;
  li_fo : rend <= fo;
  li_pos : r_len r = 0 \/ endlo so pre <= r_off r;
  li_rd : forall p, r_off r <= p -> rd_get r p = rd_get r0 p;
  li_ci : CI (pre ++ post) r }.

Lemma zip_step : forall pre s post r s1 r1 f fl, LI pre (s :: post) r -> s_start s <= r_off r ->
  try_write s r = (s1, r1, f, fl) ->
  LI (pre ++ s1 :: optl f) post r1 /\ (r_len r1 = 0 \/ s_endalloc s <= r_off r1) /\ r_len r1 <= r_len r.
Proof.
  intros pre s post r s1 r1 f fl [Lpre Lpost Lrok Lend Lmr Lfo Lpos Lrd Lci] Hsr Htw.
  cbn [chain] in Lpost. destruct Lpost as [Hk Ht].
  pose proof (okslot_slot_ok _ _ _ _ _ _ Hk) as Hsok.
  destruct (tw_full _ _ _ _ _ _ Hsok Lrok Hsr Htw) as (T1 & T2 & T3 & T4 & T5 & T6 & T7 & T8 & T9 & T10 & T11 & T12).
  destruct Hk as (A1 & A2 & A3 & A4 & A5 & A6 & A7 & A8).
  pose proof (endlo_ge _ _ _ _ _ _ Lpre) as Hlo.
  assert (Hbs : bend s1 = bend s) by (unfold bend; rewrite T7; reflexivity).
  split; [|split; [exact T5|lia]]. constructor; [ | | exact T1 | lia | exact Lmr | exact Lfo | | | ].
  - (* chain_pre of the new prefix *)
    apply chain_pre_app. split; [exact Lpre|].
    destruct f as [f|]; cbn [optl chain_pre].
    + destruct T11 as (F1 & F2 & F3 & F4 & F5 & F6 & F7 & F8 & F9). unfold s_end in *.
      assert (Hblk : block_of (s_start f) = block_of (s_start s) /\ allocation_size (s_start f) = allocation_size (s_start s)).
      { apply bend_same_block; lia. }
      destruct Hblk as [Hb1 Hb2].
      split; [|split; [|exact I]].
      * unfold okslot, s_end, bend. rewrite T7. unfold bend in A5. unfold lenok in T8. repeat split; auto; try lia.
      * unfold okslot, s_end, bend. rewrite Hb1, Hb2. unfold bend in A5. unfold lenok in F5.
        repeat split; auto; try lia.
    + destruct T11 as [F1 F2]. split; [|exact I]. unfold okslot. rewrite Hbs, T7, F1. unfold lenok in T8.
      unfold s_end in *. repeat split; auto; try lia.
  - (* the rest of the chain is unaffected *)
    rewrite endP_app, endlo_app.
    destruct f as [f|]; cbn [optl endP endlo].
    + destruct T11 as (F1 & F2 & F3 & F4 & F5 & F6 & F7 & F8 & F9). rewrite F4.
      assert (Hblk : block_of (s_start f) = block_of (s_start s) /\ allocation_size (s_start f) = allocation_size (s_start s)).
      { apply bend_same_block; unfold s_end in *; lia. }
      eapply chain_P_impl; [|exact Ht]. unfold Pend, bend. destruct Hblk as [-> ->]. rewrite F4. auto.
    + destruct T11 as [F1 F2]. rewrite F1. eapply chain_P_impl; [|exact Ht]. unfold Pend. rewrite Hbs, F1. auto.
  - (* reader position *)
    destruct T5 as [T5|T5]; [left; exact T5|right]. rewrite endlo_app.
    destruct f as [f|]; cbn [optl endlo].
    + destruct T11 as (F1 & F2 & F3 & F4 & F5 & F6 & F7 & F8 & F9). lia.
    + destruct T11 as [F1 F2]. lia.
  - intros p Hp. rewrite T4 by exact Hp. apply Lrd. lia.
  - (* content *)
    intros p. specialize (Lci p). specialize (T12 p).
    assert (Hl1 : Forall lenok pre) by (eapply chain_pre_lenok; eauto).
    assert (Hl2 : Forall lenok (s1 :: optl f)).
    { constructor; [exact T8|]. destruct f as [f|]; cbn [optl]; constructor; [|constructor]. tauto. }
    rewrite <- app_assoc. rewrite slots_get_app by exact Hl1. rewrite slots_get_app by exact Hl2. rewrite T12.
    rewrite slots_get_app in Lci by exact Hl1. change (s :: post) with ([s] ++ post) in Lci.
    rewrite slots_get_app in Lci by (constructor; [exact A3|constructor]).
    destruct (slots_get pre p) as [b|] eqn:Epre.
    { rewrite Lci. destruct (slots_get sl0 p); [reflexivity|].
      destruct (N.ltb_spec p (r_off r)); destruct (N.ltb_spec p (r_off r1)); try reflexivity; try lia.
      discriminate. }
    destruct (slots_get [s] p) as [b|] eqn:Es.
    { rewrite Lci. destruct (slots_get sl0 p); [reflexivity|].
      destruct (N.ltb_spec p (r_off r)); destruct (N.ltb_spec p (r_off r1)); try reflexivity; try lia.
      discriminate. }
    destruct (N.leb_spec (r_off r) p); destruct (N.ltb_spec p (r_off r1)); cbn [andb].
    + (* freshly written position *)
      rewrite (Lrd p) by lia.
      assert (Hpost : slots_get post p = None).
      { eapply slots_get_below; [eapply chain_slots_ok; exact Ht|]. lia. }
      rewrite Hpost in *.
      destruct (slots_get sl0 p) as [b|] eqn:E0.
      * destruct (N.ltb_spec p (r_off r)); [lia|discriminate].
      * destruct (N.ltb_spec p (r_off r1)); [|lia]. destruct (rd_get r0 p); reflexivity.
    + rewrite Lci. destruct (slots_get sl0 p); [reflexivity|].
      destruct (N.ltb_spec p (r_off r)); [lia|reflexivity].
    + rewrite Lci. destruct (slots_get sl0 p); [reflexivity|].
      destruct (N.ltb_spec p (r_off r)); [reflexivity|lia].
    + lia.
Qed.

Lemma alloc_step : forall pre post r, LI pre post r -> r_len r <> 0 ->
  (match post with [] => True | nx :: _ => r_off r < s_start nx end) ->
  LI pre (allocate_slot st r :: post) r
  /\ s_start (allocate_slot st r) <= r_off r /\ r_off r < s_endalloc (allocate_slot st r).
Proof.
  intros pre post r [Lpre Lpost Lrok Lend Lmr Lfo Lpos Lrd Lci] Hne Hnx.
  destruct Lpos as [Lpos|Lpos]; [contradiction|].
  pose proof (endlo_ge _ _ _ _ _ _ Lpre) as Hlo.
  pose proof (block_bounds (r_off r)) as [Hb1 Hb2].
  set (B := block_of (r_off r)) in *. set (A := allocation_size (r_off r)) in *.
  assert (HP : endP fo True pre).
  { destruct post; cbn [chain] in Lpost; [exact Lpost|]. destruct (chain_chain_pre _ _ _ _ _ _ (proj2 Lpost)) as [_ X].
    clear X. destruct Lpost as [(_ & _ & _ & _ & _ & [X|[X _]] & _) _]; [|exact X].
    exfalso. lia. }
  assert (Hgap : endlo so pre <= N.max B so).
  { eapply gap_lo; eauto; [intros _; lia|lia]. }
  (* the allocated slot *)
  assert (Hal : exists o e, allocate_slot st r = {| s_start := o; s_endalloc := e; s_len := 0; s_data := [] |}
            /\ o = N.max B so /\ r_off r < e /\ e <= B + A /\ (e = B + A \/ fo <= e)).
  { unfold allocate_slot. rewrite Hfo, Hso. fold B. change (align_offset (r_off r) (allocation_size (r_off r))) with B.
    fold A.
    destruct (N.ltb_spec B so) as [Hc|Hc].
    - destruct (N.eqb_spec (fo - r_off r - r_len r) 0) as [Hz|Hz].
      + destruct (N.ltb_spec (r_off r - so + r_len r) (A - (so - B))).
        * eexists _, _. split; [reflexivity|]. repeat split; try lia.
        * eexists _, _. split; [reflexivity|]. repeat split; try lia.
      + eexists _, _. split; [reflexivity|]. repeat split; try lia.
    - destruct (N.eqb_spec (fo - r_off r - r_len r) 0) as [Hz|Hz].
      + destruct (N.ltb_spec (r_off r - B + r_len r) A).
        * eexists _, _. split; [reflexivity|]. repeat split; try lia.
        * eexists _, _. split; [reflexivity|]. repeat split; try lia.
      + eexists _, _. split; [reflexivity|]. repeat split; try lia. }
  destruct Hal as (o & e & Eal & Eo & He1 & He2 & He3). rewrite Eal. cbn [s_start s_endalloc].
  destruct (block_same (r_off r) o) as [Hao Hbo]; [fold B; lia|fold B; fold A; lia|]. fold B in Hbo. fold A in Hao.
  split; [|split; lia].
  set (Nw := {| s_start := o; s_endalloc := e; s_len := 0; s_data := [] |}).
  assert (HPend : Pend fo Nw) by (unfold Pend, bend, Nw; cbn [s_start s_endalloc]; rewrite Hbo, Hao; lia).
  constructor; auto.
  - cbn [chain]. split.
    + unfold okslot, s_end, bend, Nw; cbn [s_start s_endalloc s_len s_data nlen fold_left]. rewrite Hbo, Hao.
      repeat split; auto; try lia.
      destruct (N.eq_dec o (endlo so pre)); [left; assumption|right; split; [exact HP|lia]].
    + destruct post as [|nx post']; cbn [chain] in *; [exact HPend|].
      destruct Lpost as [Hk Ht]. split; [|exact Ht].
      destruct Hk as (A1 & A2 & A3 & A4 & A5 & A6 & A7 & A8).
      assert (Hnxb : s_start nx = block_of (s_start nx)) by (destruct A6 as [A6|[_ A6]]; [lia|exact A6]).
      pose proof (block_before (r_off r) (s_start nx) ltac:(lia)) as Hbb. fold B in Hbb. fold A in Hbb.
      unfold okslot, Nw; cbn [s_start s_endalloc]. repeat split; auto; try lia.
  - (* an empty slot holds nothing *)
    intros p. rewrite <- (Lci p).
    assert (Hl1 : Forall lenok pre) by (eapply chain_pre_lenok; eauto).
    rewrite !slots_get_app by exact Hl1. destruct (slots_get pre p); [reflexivity|].
    cbn [slots_get]. unfold s_end, Nw; cbn [s_start s_len]. dd; try reflexivity; lia.
Qed.

Lemma with_alloc_ok : forall fuel pre post r filled sl' r' idx' f' o', LI pre post r ->
  (N.to_nat (r_len r) <= fuel)%nat ->
  with_alloc fuel st (pre ++ post) r (length pre) filled = (sl', r', idx', f', o') ->
  o' = false /\ exists pre', sl' = pre' ++ post /\ idx' = length pre' /\ LI pre' post r' /\ r_len r' <= r_len r
  /\ (r_len r' = 0 \/ exists nx post', post = nx :: post' /\ s_start nx <= r_off r').
Proof.
  induction fuel as [|k IH]; intros pre post r filled sl' r' idx' f' o' Hli Hfuel H.
  - cbn [with_alloc] in H. unfold r_empty in H. destruct (N.eqb_spec (r_len r) 0) as [Hz|Hz]; [|lia].
    injection H as <- <- <- <- <-. split; [reflexivity|]. exists pre. split; [reflexivity|]. split; [reflexivity|]. split; [exact Hli|]. split; [lia|left; exact Hz].
  - cbn [with_alloc] in H. unfold r_empty in H. destruct (N.eqb_spec (r_len r) 0) as [Hz|Hz].
    { injection H as <- <- <- <- <-. split; [reflexivity|]. exists pre. split; [reflexivity|]. split; [reflexivity|]. split; [exact Hli|]. split; [lia|left; exact Hz]. }
    rewrite nth_error_zip in H.
    assert (Hstop : forall nx post', post = nx :: post' -> negb (r_off r <? s_start nx) = true ->
              (pre ++ post, r, length pre, filled, false) = (sl', r', idx', f', o') ->
              o' = false /\ exists pre', sl' = pre' ++ post /\ idx' = length pre' /\ LI pre' post r' /\ r_len r' <= r_len r
              /\ (r_len r' = 0 \/ exists nx post', post = nx :: post' /\ s_start nx <= r_off r')).
    { intros nx post' E Hs X. injection X as <- <- <- <- <-. split; [reflexivity|]. exists pre.
      split; [reflexivity|]. split; [reflexivity|]. split; [exact Hli|]. split; [lia|]. right. exists nx, post'. split; [exact E|].
      destruct (N.ltb_spec (r_off r) (s_start nx)); [discriminate|lia]. }
    assert (Hnx : match post with [] => True | nx :: _ => r_off r < s_start nx end \/
                  exists nx post', post = nx :: post' /\ negb (r_off r <? s_start nx) = true).
    { destruct post as [|nx post']; [left; exact I|].
      destruct (r_off r <? s_start nx) eqn:El; [left; apply N.ltb_lt; exact El|right; exists nx, post'; split; [reflexivity|rewrite El; reflexivity]]. }
    destruct Hnx as [Hnx|(nx & post' & E & Hs)].
    2:{ subst post. cbn [hd_error] in H. rewrite Hs in H. eapply Hstop; eauto. }
    assert (Hns : match hd_error post with Some nx => negb (r_off r <? s_start nx) | None => false end = false).
    { destruct post as [|nx post']; [reflexivity|]. cbn [hd_error].
      destruct (N.ltb_spec (r_off r) (s_start nx)); [reflexivity|lia]. }
    rewrite Hns in H.
    destruct (alloc_step pre post r Hli Hz Hnx) as (Hli1 & Ha1 & Ha2).
    destruct (try_write (allocate_slot st r) r) as [[[s1 r1] fo1] fl] eqn:Etw.
    destruct (zip_step _ _ _ _ _ _ _ _ Hli1 Ha1 Etw) as (Hli2 & Hpos & Hlen).
    rewrite insert_at_zip in H.
    assert (Hprog : r_len r1 < r_len r).
    { destruct Hli2 as [_ _ _ Le2 _ _ _ _ _]. destruct Hli as [_ _ _ Le _ _ _ _ _]. lia. }
    assert (Hshape : (let '(sl2, idx2) := match fo1 with
                        | Some x => (insert_at (S (length pre)) x (pre ++ s1 :: post), S (S (length pre)))
                        | None => (pre ++ s1 :: post, S (length pre)) end in (sl2, idx2))
                     = ((pre ++ s1 :: optl fo1) ++ post, length (pre ++ s1 :: optl fo1))).
    { destruct fo1 as [x|]; cbn [optl].
      - replace (S (length pre)) with (length (pre ++ [s1])) by (rewrite app_length; cbn; lia).
        replace (pre ++ s1 :: post) with ((pre ++ [s1]) ++ post) by (rewrite <- app_assoc; reflexivity).
        rewrite insert_at_zip. rewrite !app_length. cbn [length]. f_equal; [|lia].
        rewrite <- !app_assoc. reflexivity.
      - rewrite app_length. cbn [length]. f_equal; [|lia]. rewrite <- app_assoc. reflexivity. }
    destruct fo1 as [x|]; cbn [optl] in *.
    + injection Hshape as E1 E2. rewrite E1, E2 in H.
      destruct (IH _ _ _ _ _ _ _ _ _ Hli2 ltac:(lia) H) as (Ho & pre' & Q1 & Q2 & Q3 & Q4 & Q5).
      split; [exact Ho|]. exists pre'. split; [exact Q1|]. split; [exact Q2|]. split; [exact Q3|]. split; [lia|exact Q5].
    + injection Hshape as E1 E2. rewrite E1, E2 in H.
      destruct (IH _ _ _ _ _ _ _ _ _ Hli2 ltac:(lia) H) as (Ho & pre' & Q1 & Q2 & Q3 & Q4 & Q5).
      split; [exact Ho|]. exists pre'. split; [exact Q1|]. split; [exact Q2|]. split; [exact Q3|]. split; [lia|exact Q5].
Qed.

Lemma write_loop_ok : forall fuel pre post r filled sl' idx' f' o', LI pre post r ->
  (r_len r = 0 \/ exists s post', post = s :: post' /\ s_start s <= r_off r) ->
  (r_len r = 0 \/ (N.to_nat (r_len r) + length post <= fuel)%nat) ->
  write_loop fuel st (pre ++ post) r (length pre) filled = (sl', idx', f', o') ->
  o' = false /\ exists pre' post' r', sl' = pre' ++ post' /\ idx' = length pre' /\ LI pre' post' r' /\ r_len r' = 0.
Proof.
  induction fuel as [|k IH]; intros pre post r filled sl' idx' f' o' Hli Hhd Hfuel H.
  - cbn [write_loop] in H. unfold r_empty in H. destruct (N.eqb_spec (r_len r) 0) as [Hz|Hz].
    + injection H as <- <- <- <-. split; [reflexivity|]. exists pre, post, r. split; [reflexivity|]. split; [reflexivity|]. split; auto.
    + exfalso. destruct Hhd as [?|(s & post' & -> & _)]; [contradiction|].
      destruct Hfuel as [?|Hf]; [contradiction|]. cbn [length] in Hf. lia.
  - cbn [write_loop] in H. unfold r_empty in H. destruct (N.eqb_spec (r_len r) 0) as [Hz|Hz].
    { injection H as <- <- <- <-. split; [reflexivity|]. exists pre, post, r. split; [reflexivity|]. split; [reflexivity|]. split; auto. }
    destruct Hhd as [?|(s & post' & -> & Hs)]; [contradiction|].
    destruct Hfuel as [?|Hf]; [contradiction|]. cbn [length] in Hf.
    rewrite nth_error_zip in H. cbn [hd_error] in H.
    destruct (try_write s r) as [[[s1 r1] fo1] fl] eqn:Etw.
    destruct (zip_step _ _ _ _ _ _ _ _ Hli Hs Etw) as (Hli2 & Hpos & Hlen).
    rewrite set_nth_zip in H.
    assert (Hshape : (let '(sl2, idx2) := match fo1 with
                        | Some x => (insert_at (S (length pre)) x (pre ++ s1 :: post'), S (S (length pre)))
                        | None => (pre ++ s1 :: post', S (length pre)) end in (sl2, idx2))
                     = ((pre ++ s1 :: optl fo1) ++ post', length (pre ++ s1 :: optl fo1))).
    { destruct fo1 as [x|]; cbn [optl].
      - replace (S (length pre)) with (length (pre ++ [s1])) by (rewrite app_length; cbn; lia).
        replace (pre ++ s1 :: post') with ((pre ++ [s1]) ++ post') by (rewrite <- app_assoc; reflexivity).
        rewrite insert_at_zip. rewrite !app_length. cbn [length]. f_equal; [|lia].
        rewrite <- !app_assoc. reflexivity.
      - rewrite app_length. cbn [length]. f_equal; [|lia]. rewrite <- app_assoc. reflexivity. }
    set (pre1 := pre ++ s1 :: optl fo1) in *.
    assert (Hcont : forall filled1,
      (if r_len r1 =? 0 then (pre1 ++ post', length pre1, filled1, false)
       else let '(sl3, r3, idx3, filled3, o3) := with_alloc (S k) st (pre1 ++ post') r1 (length pre1) filled1 in
            if o3 then (sl3, idx3, filled3, true) else write_loop k st sl3 r3 idx3 filled3) = (sl', idx', f', o') ->
      o' = false /\ exists pre' post'0 r', sl' = pre' ++ post'0 /\ idx' = length pre' /\ LI pre' post'0 r' /\ r_len r' = 0).
    { intros filled1 X. destruct (N.eqb_spec (r_len r1) 0) as [Hz1|Hz1].
      - injection X as <- <- <- <-. split; [reflexivity|]. exists pre1, post', r1. split; [reflexivity|]. split; [reflexivity|]. split; auto.
      - destruct (with_alloc (S k) st (pre1 ++ post') r1 (length pre1) filled1) as [[[[sl3 r3] idx3] filled3] o3] eqn:Ewa.
        assert (Hfa : (N.to_nat (r_len r1) <= S k)%nat) by lia.
        destruct (with_alloc_ok _ _ _ _ _ _ _ _ _ _ Hli2 Hfa Ewa) as (Ho & pre2 & Q1 & Q2 & Q3 & Q4 & Q5).
        subst o3 sl3 idx3.
        eapply (IH pre2 post' r3 filled3); eauto.
        destruct (N.eq_dec (r_len r3) 0); [left; assumption|right]. lia. }
    destruct fo1 as [x|]; cbn [optl] in *; injection Hshape as E1 E2; rewrite E1, E2 in H; eapply Hcont; exact H.
Qed.

Lemma li_final : forall pre post r, LI pre post r -> r_len r = 0 -> reader_ok r0 -> r_off r0 + r_len r0 = rend ->
  chain fo mr so True so (pre ++ post) /\ (forall p, slots_get (pre ++ post) p = wspec sl0 r0 p).
Proof.
  intros pre post r [Lpre Lpost Lrok Lend Lmr Lfo Lpos Lrd Lci] Hz Hr0 He.
  split; [apply chain_app; split; assumption|].
  intros p. rewrite (Lci p). unfold wspec. destruct (slots_get sl0 p); [reflexivity|].
  destruct (N.ltb_spec p (r_off r)); [reflexivity|].
  unfold rd_get. destruct (N.leb_spec (r_off r0) p); [|reflexivity]. symmetry. apply nth_error_None.
  unfold reader_ok in Hr0. rewrite nlen_length in Hr0. lia.
Qed.

End Loop.

(* ---- unsplit_range: merging a full slot with its neighbour in the same block ---- *)
Lemma merge_ok : forall fo mr so P lo s nx b, chain fo mr so P lo (s :: nx :: b) ->
  s_is_full s = true -> s_start nx = s_end s -> block_of (s_start s) = block_of (s_start nx) ->
  let m := {| s_start := s_start s; s_endalloc := s_endalloc nx; s_len := s_len s + s_len nx; s_data := s_data s ++ s_data nx |} in
  chain fo mr so P lo (m :: b) /\ (forall p, slots_get (m :: b) p = slots_get (s :: nx :: b) p).
Proof.
  intros fo mr so P lo s nx b [Hs [Hn Hb]] Hfull Hadj Hblk m. unfold s_is_full in Hfull. apply N.eqb_eq in Hfull.
  destruct Hs as (A1 & A2 & A3 & A4 & A5 & A6 & A7 & A8). destruct Hn as (B1 & B2 & B3 & B4 & B5 & B6 & B7 & B8).
  unfold s_end in *.
  pose proof (block_eq_in _ _ Hblk) as Hin. pose proof (block_bounds (s_start s)).
  destruct (block_same (s_start s) (s_start nx)) as [Hasz _]; [lia|lia|].
  assert (Hbend : bend nx = bend s) by (unfold bend; rewrite <- Hblk, Hasz; reflexivity).
  split.
  - cbn [chain]. split.
    + unfold okslot, s_end, bend, m; cbn [s_start s_endalloc s_len s_data]. unfold bend in Hbend, B5. rewrite <- Hblk, Hasz in B5.
      repeat split; auto; try lia. rewrite !nlen_length, app_length in *. lia.
    + eapply chain_P_impl; [|exact Hb]. unfold Pend, m. unfold bend at 2; cbn [s_start s_endalloc]. fold (bend s). rewrite <- Hbend. auto.
  - intros p. cbn [slots_get]. unfold s_end, m; cbn [s_start s_len s_data].
    destruct (N.leb_spec (s_start s) p); cbn [andb].
    2:{ destruct (N.leb_spec (s_start nx) p); [lia|reflexivity]. }
    destruct (N.ltb_spec p (s_start s + s_len s)).
    + destruct (N.ltb_spec p (s_start s + (s_len s + s_len nx))); [|lia].
      apply nth_error_app1. rewrite nlen_length in A3. lia.
    + destruct (N.leb_spec (s_start nx) p); [|lia]. cbn [andb].
      destruct (N.ltb_spec p (s_start s + (s_len s + s_len nx))); destruct (N.ltb_spec p (s_start nx + s_len nx)); try lia; [|reflexivity].
      rewrite nth_error_app2 by (rewrite nlen_length in A3; lia). f_equal. rewrite nlen_length in A3. lia.
Qed.

Lemma unsplit_range_ok : forall k sl lo' fo mr so, chain fo mr so True so sl ->
  chain fo mr so True so (unsplit_range sl lo' k) /\ (forall p, slots_get (unsplit_range sl lo' k) p = slots_get sl p).
Proof.
  induction k as [|k IH]; intros sl lo' fo mr so Hc; cbn [unsplit_range]; [split; auto|].
  set (idx := (lo' + k)%nat).
  destruct (nth_error sl idx) as [s|] eqn:E1; [|apply IH; exact Hc].
  destruct (nth_error sl (S idx)) as [nx|] eqn:E2; [|apply IH; exact Hc].
  destruct (s_is_full s && (s_start nx =? s_end s) && (block_of (s_start s) =? block_of (s_start nx))) eqn:Ec; [|apply IH; exact Hc].
  apply andb_true_iff in Ec. destruct Ec as [Ec Ec3]. apply andb_true_iff in Ec. destruct Ec as [Ec1 Ec2].
  apply N.eqb_eq in Ec2. apply N.eqb_eq in Ec3.
  pose proof (split_two sl idx s nx E1 E2) as Esl.
  set (a := firstn idx sl) in *. set (b := skipn (S (S idx)) sl) in *.
  rewrite Esl in Hc. apply chain_app in Hc. destruct Hc as [Hpre Hc].
  destruct (merge_ok _ _ _ _ _ _ _ _ Hc Ec1 Ec2 Ec3) as [Hm1 Hm2]. cbv zeta in Hm1, Hm2.
  set (m := {| s_start := s_start s; s_endalloc := s_endalloc nx; s_len := s_len s + s_len nx; s_data := s_data s ++ s_data nx |}) in *.
  assert (Hc' : chain fo mr so True so (a ++ m :: b)) by (apply chain_app; split; assumption).
  destruct (IH (a ++ m :: b) lo' fo mr so Hc') as [I1 I2]. split; [exact I1|].
  intros p. rewrite I2. transitivity (slots_get (a ++ s :: nx :: b) p); [|rewrite <- Esl; reflexivity].
  assert (Hl : Forall lenok a) by (eapply chain_pre_lenok; eauto).
  rewrite !slots_get_app by exact Hl. destruct (slots_get a p); [reflexivity|]. apply Hm2.
Qed.

(* ---- assembling Reassembler::write_reader_impl ---- *)
Lemma find_slot_spec : forall sl off i acc,
  match find_slot sl off i acc with
  | Some j => (acc = Some j /\ Forall (fun x => off < s_start x) sl)
              \/ exists pre s post, sl = pre ++ s :: post /\ j = (i + length pre)%nat /\ s_start s <= off
  | None => acc = None /\ Forall (fun x => off < s_start x) sl
  end.
Proof.
  induction sl as [|s t IH]; intros off i acc; cbn [find_slot].
  - destruct acc; [left|]; split; auto.
  - specialize (IH off (S i) (if s_start s <=? off then Some i else acc)).
    destruct (find_slot t off (S i) (if s_start s <=? off then Some i else acc)) as [j|].
    + destruct IH as [[E F]|(pre & s' & post & E1 & E2 & E3)].
      * destruct (N.leb_spec (s_start s) off).
        -- injection E as <-. right. exists [], s, t. cbn. repeat split; auto; lia.
        -- left. split; [exact E|constructor; [lia|exact F]].
      * right. exists (s :: pre), s', post. subst t. cbn [app length]. repeat split; auto; lia.
    + destruct IH as [E F]. destruct (N.leb_spec (s_start s) off); [discriminate|]. split; [exact E|constructor; [lia|exact F]].
Qed.

Lemma li_unshift : forall fo mr so sl0 r0 rend pre c post r, LI fo mr so sl0 r0 rend (pre ++ [c]) post r ->
  LI fo mr so sl0 r0 rend pre (c :: post) r /\ (r_len r = 0 \/ s_start c <= r_off r).
Proof.
  intros fo mr so sl0 r0 rend pre c post r [Lpre Lpost Lrok Lend Lmr Lfo Lpos Lrd Lci].
  apply chain_pre_app in Lpre. destruct Lpre as [Lp1 Lp2]. cbn [chain_pre] in Lp2. destruct Lp2 as [Hc _].
  rewrite endP_app, endlo_app in Lpost. cbn [endP endlo] in Lpost. rewrite endlo_app in Lpos. cbn [endlo] in Lpos.
  pose proof Hc as (A1 & A2 & _).
  split; [|destruct Lpos; [left; assumption|right; lia]].
  constructor; auto.
  - cbn [chain]. split; assumption.
  - destruct Lpos; [left; assumption|right; lia].
  - rewrite <- app_assoc in Lci. exact Lci.
Qed.

Lemma write_reader_at_ok : forall st sl0 r0 pre s post r sl' o,
  LI (final_off st) (max_recv st) (start_off st) sl0 r0 (r_off r0 + r_len r0) pre (s :: post) r ->
  reader_ok r0 -> r_len r = 0 \/ s_start s <= r_off r ->
  write_reader_at st (pre ++ s :: post) r (length pre) = (sl', o) ->
  o = false /\ chain (final_off st) (max_recv st) (start_off st) True (start_off st) sl'
  /\ (forall p, slots_get sl' p = wspec sl0 r0 p).
Proof.
  intros st sl0 r0 pre s post r sl' o Hli Hr0 Hs H. unfold write_reader_at in H.
  destruct (write_loop (loop_fuel (pre ++ s :: post) r) st (pre ++ s :: post) r (length pre) false)
    as [[[sl1 idx1] filled] o1] eqn:Ewl.
  assert (Hhd : r_len r = 0 \/ exists s0 post'0, s :: post = s0 :: post'0 /\ s_start s0 <= r_off r).
  { destruct Hs; [left; assumption|right; eauto]. }
  assert (Hfl : r_len r = 0 \/ (N.to_nat (r_len r) + length (s :: post) <= loop_fuel (pre ++ s :: post) r)%nat).
  { right. unfold loop_fuel. rewrite app_length. cbn [length]. lia. }
  destruct (write_loop_ok (final_off st) (max_recv st) (start_off st) st eq_refl eq_refl sl0 r0 (r_off r0 + r_len r0)
              _ _ _ _ _ _ _ _ _ Hli Hhd Hfl Ewl) as (Ho & pre' & post' & r' & E1 & E2 & Hli' & Hz).
  edestruct (li_final (final_off st) (max_recv st) (start_off st) st eq_refl eq_refl) as [Hch Hcont]; [exact Hli'|exact Hz|exact Hr0|reflexivity|].
  subst sl1 o1. destruct filled; injection H as <- <-.
  - destruct (unsplit_range_ok (idx1 - length pre) (pre' ++ post') (length pre) _ _ _ Hch) as [U1 U2].
    split; [reflexivity|]. split; [exact U1|]. intros p. rewrite U2. apply Hcont.
  - split; [reflexivity|]. split; [exact Hch|exact Hcont].
Qed.

Theorem write_ok : WriteOK.
Proof.
  intros st r sl' o Hinv Hrok Hpos Hmr Hfo H. destruct Hinv as (Hc & I2 & I3 & I4 & I5).
  unfold write_reader_impl in H. unfold r_empty in H.
  destruct (N.eqb_spec (r_len r) 0) as [Hz|Hz].
  { injection H as <- <-. split; [reflexivity|]. split; [exact Hc|]. intros p. unfold wspec.
    destruct (slots_get (slots st) p); [reflexivity|]. unfold rd_get. destruct (r_off r <=? p); [|reflexivity].
    symmetry. apply nth_error_None. unfold reader_ok in Hrok. rewrite nlen_length in Hrok. lia. }
  destruct Hpos as [?|Hpos]; [contradiction|].
  (* the loop invariant at the start: nothing written yet *)
  assert (Hci0 : CI (slots st) r (slots st) r).
  { intros p. destruct (slots_get (slots st) p); [reflexivity|]. destruct (N.ltb_spec p (r_off r)); [|reflexivity].
    unfold rd_get. destruct (N.leb_spec (r_off r) p); [lia|reflexivity]. }
  pose proof (find_slot_spec (slots st) (r_off r) 0 None) as Hfs.
  destruct (find_slot (slots st) (r_off r) 0 None) as [idx|].
  - destruct Hfs as [[E _]|(pre & s & post & E1 & E2 & E3)]; [discriminate|]. cbn [Nat.add] in E2. subst idx.
    rewrite E1 in H. rewrite E1 in Hc. pose proof Hc as Hc'. apply chain_app in Hc'. destruct Hc' as [Hp1 Hp2].
    eapply write_reader_at_ok; [|exact Hrok|right; exact E3|rewrite <- E1; rewrite E1; exact H].
    rewrite E1 in Hci0. constructor; auto; try lia; try (rewrite E1; exact Hci0).
    right. cbn [chain] in Hp2. destruct Hp2 as [(A1 & _) _]. lia.
  - destruct Hfs as [_ Hall].
    assert (Hli0 : LI (final_off st) (max_recv st) (start_off st) (slots st) r (r_off r + r_len r) [] (slots st) r).
    { constructor; auto; try lia; try exact I. }
    destruct (alloc_step _ _ _ st eq_refl eq_refl _ _ _ [] (slots st) r Hli0 Hz) as (Hli1 & Ha1 & Ha2).
    { destruct (slots st) as [|nx t]; [exact I|]. inversion Hall; assumption. }
    destruct (try_write (allocate_slot st r) r) as [[[s1 r1] fo1] fl] eqn:Etw.
    edestruct (zip_step (final_off st) (max_recv st) (start_off st) st eq_refl eq_refl) as (Hli2 & Hp2 & Hlen); [exact Hli1|exact Ha1|exact Etw|].
    cbn [app] in Hli2.
    destruct fo1 as [x|]; cbn [optl] in Hli2.
    + destruct (N.eqb_spec (r_len r1) 0) as [Hz1|Hz1].
      * injection H as <- <-. edestruct (li_final (final_off st) (max_recv st) (start_off st) st eq_refl eq_refl) as [Hch Hcont]; [exact Hli2|exact Hz1|exact Hrok|reflexivity|].
        split; [reflexivity|]. split; [exact Hch|exact Hcont].
      * change (s1 :: x :: slots st) with ([s1] ++ x :: slots st) in H. change 1%nat with (length [s1]) in H.
        change [s1; x] with ([s1] ++ [x]) in Hli2. destruct (li_unshift _ _ _ _ _ _ _ _ _ _ Hli2) as [Hli3 Hs3].
        eapply write_reader_at_ok; eauto.
    + destruct (N.eqb_spec (r_len r1) 0) as [Hz1|Hz1].
      * injection H as <- <-. edestruct (li_final (final_off st) (max_recv st) (start_off st) st eq_refl eq_refl) as [Hch Hcont]; [exact Hli2|exact Hz1|exact Hrok|reflexivity|].
        split; [reflexivity|]. split; [exact Hch|exact Hcont].
      * change (s1 :: slots st) with ([] ++ s1 :: slots st) in H. change 0%nat with (length (@nil slot)) in H.
        change [s1] with ([] ++ [s1]) in Hli2. destruct (li_unshift _ _ _ _ _ _ _ _ _ _ Hli2) as [Hli3 Hs3].
        eapply write_reader_at_ok; eauto.
Qed.
