(* Arithmetic of the allocation ladder of reassembler.rs (allocation_size / align_offset):
   the allocation blocks partition the offsets. *)
From SQ Require Import lib.Base gen.Gen_C01 model.Reassembler.
From Coq Require Import ZifyBool ZifyN ZifyNat.
Ltac Zify.zify_post_hook ::= Z.div_mod_to_equations.
Local Open Scope N_scope.

Lemma allocation_size_eq : forall x, allocation_size x =
  if 1048576 <=? x then 65536 else if 262144 <=? x then 32768 else if 65536 <=? x then 16384 else 4096.
Proof. intros x. reflexivity. Qed.

Lemma asz_cases : forall x,
  (x < 65536 /\ allocation_size x = 4096) \/ (65536 <= x < 262144 /\ allocation_size x = 16384)
  \/ (262144 <= x < 1048576 /\ allocation_size x = 32768) \/ (1048576 <= x /\ allocation_size x = 65536).
Proof.
  intros x. rewrite allocation_size_eq.
  destruct (N.leb_spec 1048576 x); [right; right; right; lia|].
  destruct (N.leb_spec 262144 x); [right; right; left; lia|].
  destruct (N.leb_spec 65536 x); [right; left; lia|left; lia].
Qed.

Lemma asz_pos : forall x, 0 < allocation_size x.
Proof. intros x. destruct (asz_cases x) as [H|[H|[H|H]]]; lia. Qed.
Lemma asz_le : forall x, allocation_size x <= 65536.
Proof. intros x. destruct (asz_cases x) as [H|[H|[H|H]]]; lia. Qed.

Lemma block_of_eq : forall x, block_of x = x / allocation_size x * allocation_size x.
Proof. reflexivity. Qed.

(* A1: an offset lies in its block *)
Lemma block_bounds : forall x, block_of x <= x /\ x < block_of x + allocation_size x.
Proof.
  intros x. rewrite block_of_eq. destruct (asz_cases x) as [[H E]|[[H E]|[[H E]|[H E]]]]; rewrite E; lia.
Qed.

(* A2: every offset of a block has that block *)
Lemma block_same : forall x y, block_of x <= y -> y < block_of x + allocation_size x ->
  allocation_size y = allocation_size x /\ block_of y = block_of x.
Proof.
  intros x y. rewrite !block_of_eq.
  destruct (asz_cases x) as [[H E]|[[H E]|[[H E]|[H E]]]]; rewrite E; intros H1 H2;
  destruct (asz_cases y) as [[H' E']|[[H' E']|[[H' E']|[H' E']]]]; rewrite E'; try lia.
Qed.

(* A3: offsets with the same block are in that block *)
Lemma block_eq_in : forall x y, block_of x = block_of y -> y < block_of x + allocation_size x.
Proof.
  intros x y. rewrite !block_of_eq.
  destruct (asz_cases x) as [[H E]|[[H E]|[[H E]|[H E]]]]; rewrite E;
  destruct (asz_cases y) as [[H' E']|[[H' E']|[[H' E']|[H' E']]]]; rewrite E'; intros; lia.
Qed.

(* A4: whatever lies at or after the end of a block has its own block at or after that end *)
Lemma block_after : forall x y, block_of x + allocation_size x <= y -> block_of x + allocation_size x <= block_of y.
Proof.
  intros x y. rewrite !block_of_eq.
  destruct (asz_cases x) as [[H E]|[[H E]|[[H E]|[H E]]]]; rewrite E;
  destruct (asz_cases y) as [[H' E']|[[H' E']|[[H' E']|[H' E']]]]; rewrite E'; intros; lia.
Qed.
(* A5: a block that starts after x starts at or after the end of x's block *)
Lemma block_before : forall x y, x < block_of y -> block_of x + allocation_size x <= block_of y.
Proof.
  intros x y. rewrite !block_of_eq.
  destruct (asz_cases x) as [[H E]|[[H E]|[[H E]|[H E]]]]; rewrite E;
  destruct (asz_cases y) as [[H' E']|[[H' E']|[[H' E']|[H' E']]]]; rewrite E'; intros; lia.
Qed.
Lemma block_idem : forall x, block_of (block_of x) = block_of x.
Proof. intros x. pose proof (block_bounds x). apply block_same; lia. Qed.
