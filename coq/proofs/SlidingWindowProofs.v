(* Proofs about the SlidingWindow model (C16): the u128 window + right edge refines the plain set
   of accepted packet numbers, for every operation sequence. *)
From SQ Require Import lib.Base lib.ListX lib.BitsN gen.Gen_C16 model.SlidingWindow.
Local Open Scope N_scope.

Lemma window_consts : sw_window_bits = 128 /\ sw_window_width = 129 /\ sw_full_delta = 128.
Proof. repeat split. Qed.

(* ---------- word operations, bit by bit ---------- *)
Lemma tb_umask : forall i, N.testbit umask i = (i <? 128).
Proof. intros. unfold umask, wbits. apply testbit_ones. Qed.

Lemma tb_not_w : forall x i, N.testbit (not_w x) i = xorb (N.testbit x i) (i <? 128).
Proof. intros. unfold not_w. rewrite N.lxor_spec, tb_umask. reflexivity. Qed.

Lemma tb_shl_w : forall x d i,
  N.testbit (shl_w x d) i = (d <=? i) && N.testbit x (i - d) && (i <? 128).
Proof. intros. unfold shl_w. rewrite N.land_spec, testbit_shiftl, tb_umask. reflexivity. Qed.

Lemma tb_bit_w : forall k i, N.testbit (bit_w k) i = (i =? k).
Proof. intros. apply testbit_bit. Qed.

Lemma land_bit_zero : forall w k, (N.land w (bit_w k) =? 0) = negb (N.testbit w k).
Proof.
  intros w k. destruct (N.testbit w k) eqn:E; cbn [negb].
  - apply N.eqb_neq. intros H.
    assert (N.testbit (N.land w (bit_w k)) k = true).
    { rewrite N.land_spec, tb_bit_w, E, N.eqb_refl. reflexivity. }
    rewrite H, N.bits_0 in H0. discriminate.
  - apply N.eqb_eq. apply zero_of_bits. intros i.
    rewrite N.land_spec, tb_bit_w. destruct (N.eqb_spec i k) as [->|]; [rewrite E|]; auto using andb_false_r.
Qed.

(* ---------- representation invariant ---------- *)
(* bit i of the window stands for packet number (edge - 1 - i) *)
Definition SInv (s : sw) (acc : list N) : Prop :=
  right_edge s = max_list acc /\
  forall i, N.testbit (window s) i = true <->
    (i < 128 /\ exists e, max_list acc = Some e /\ i + 1 <= e /\ In (e - 1 - i) acc).

Lemma sinv_init : SInv sw_init [].
Proof.
  split; [reflexivity|]. intros i. cbn [window sw_init]. rewrite N.bits_0.
  split; [discriminate|]. intros [_ [e [He _]]]. discriminate.
Qed.

Lemma max_list_nil : max_list [] = None.
Proof. reflexivity. Qed.

Lemma max_list_cons_gt : forall x acc e, max_list acc = Some e -> e < x -> max_list (x :: acc) = Some x.
Proof. intros. rewrite max_list_cons, H. f_equal. lia. Qed.

Lemma max_list_cons_le : forall x acc e, max_list acc = Some e -> x <= e -> max_list (x :: acc) = Some e.
Proof. intros. rewrite max_list_cons, H. f_equal. lia. Qed.

Lemma mem_N_false : forall x l, mem_N x l = false <-> ~ In x l.
Proof.
  intros. rewrite <- mem_N_In. destruct (mem_N x l); intuition congruence.
Qed.

(* check agrees with the reference set *)
Lemma check_spec : forall s acc pn, SInv s acc -> check s pn = spec_check acc pn.
Proof.
  intros s acc pn [Hre Hbits]. unfold check, window_position, spec_check. rewrite Hre.
  destruct (max_list acc) as [e|] eqn:Em; [|reflexivity].
  unfold window_width, sw_window_width.
  destruct (N.leb_spec pn e) as [Hle|Hgt].
  - destruct (N.eqb_spec (e - pn) 0) as [H0|H0].
    + assert (pn = e) by lia. subst pn.
      destruct (N.leb_spec (e + 129) e); [lia|].
      apply max_list_in in Em. apply mem_N_In in Em. rewrite Em. reflexivity.
    + destruct (N.leb_spec 129 (e - pn)) as [Hold|Hin].
      * destruct (N.leb_spec (pn + 129) e); [reflexivity|lia].
      * destruct (N.leb_spec (pn + 129) e); [lia|].
        rewrite land_bit_zero, negb_involutive.
        destruct (N.testbit (window s) (e - pn - 1)) eqn:Eb.
        -- apply Hbits in Eb. destruct Eb as [_ [e' [He' [_ Hin']]]].
           injection He' as <-. replace (e - 1 - (e - pn - 1)) with pn in Hin' by lia.
           apply mem_N_In in Hin'. rewrite Hin'. reflexivity.
        -- destruct (mem_N pn acc) eqn:Emem; [|reflexivity].
           apply mem_N_In in Emem. exfalso.
           assert (N.testbit (window s) (e - pn - 1) = true).
           { apply Hbits. split; [lia|]. exists e. split; [reflexivity|]. split; [lia|].
             replace (e - 1 - (e - pn - 1)) with pn by lia. assumption. }
           congruence.
  - destruct (N.leb_spec (pn + 129) e); [lia|].
    destruct (mem_N pn acc) eqn:Emem; [|reflexivity].
    apply mem_N_In in Emem. pose proof (max_list_ge _ _ _ Em Emem). lia.
Qed.

Definition acc_after (acc : list N) (pn : N) (c : cres) : list N :=
  match c with COk => pn :: acc | _ => acc end.

(* bits of the evicted-set window produced by an accepted insert above the edge *)
Definition removed_ok (w removed delta : N) : Prop :=
  forall i, N.testbit removed i = (i <? 128) && negb (N.testbit w i) && (128 <=? i + delta).

Lemma insert_spec : forall s acc pn s' r, SInv s acc -> insert_with_evicted s pn = (s', r) ->
  icode r = ccode (spec_check acc pn) /\
  SInv s' (acc_after acc pn (spec_check acc pn)) /\
  (forall w e, r = IOk w e ->
     (w = 0 /\ spec_evicted acc pn = []) \/ (exists prev, max_list acc = Some prev /\ e = prev /\ prev < pn /\
                 removed_ok (window s) w (pn - prev))).
Proof.
  intros s acc pn s' r Hinv Hins.
  pose proof (check_spec s acc pn Hinv) as Hchk.
  pose proof Hinv as Hinv0.
  destruct Hinv as [Hre Hbits].
  unfold insert_with_evicted in Hins. unfold check in Hchk.
  unfold window_position in Hins, Hchk. rewrite Hre in Hins, Hchk.
  destruct (max_list acc) as [e|] eqn:Em.
  2:{ (* empty window *)
    injection Hins as <- <-. rewrite <- Hchk. cbn [icode ccode acc_after].
    split; [reflexivity|]. split; [|intros w e Hr; left; split; [congruence|unfold spec_evicted; rewrite Em; reflexivity]].
    assert (acc = []) by (apply max_list_none; assumption). subst acc.
    split; [reflexivity|]. cbn [window]. intros i. split.
    - intros Hb. apply Hbits in Hb. destruct Hb as [_ [e [He _]]]. discriminate.
    - intros [_ [e [He [Hle Hin]]]]. change (max_list [pn]) with (Some pn) in He. injection He as <-.
      destruct Hin as [Hin|[]]. lia. }
  unfold window_width, sw_window_width, sw_full_delta, wbits, sw_window_bits in *.
  destruct (N.leb_spec pn e) as [Hle|Hgt].
  - destruct (N.eqb_spec (e - pn) 0) as [H0|H0].
    { injection Hins as <- <-. rewrite <- Hchk. cbn [icode ccode acc_after].
      split; [reflexivity|]. split; [exact Hinv0|intros; discriminate]. }
    destruct (N.leb_spec 129 (e - pn)) as [Hold|Hin].
    { injection Hins as <- <-. rewrite <- Hchk. cbn [icode ccode acc_after].
      split; [reflexivity|]. split; [exact Hinv0|intros; discriminate]. }
    (* within the window *)
    injection Hins as <- <-. rewrite <- Hchk.
    rewrite land_bit_zero, negb_involutive.
    destruct (N.testbit (window s) (e - pn - 1)) eqn:Eb; cbn [icode ccode acc_after].
    + split; [reflexivity|]. split; [|intros; discriminate].
      split; [cbn [right_edge]; congruence|]. cbn [window]. intros i.
      rewrite N.lor_spec, tb_bit_w, Em. rewrite <- Hbits.
      destruct (N.eqb_spec i (e - pn - 1)) as [->|]; [rewrite Eb|rewrite orb_false_r]; tauto.
    + split; [reflexivity|]. split.
      2:{ intros w e' Hr; left; split; [congruence|]. unfold spec_evicted. rewrite Em.
          destruct (N.ltb_spec e pn); [lia|reflexivity]. }
      split; [cbn [right_edge]; symmetry; eapply max_list_cons_le; [eassumption|lia]|].
      cbn [window]. intros i. rewrite N.lor_spec, tb_bit_w, orb_true_iff, Hbits.
      rewrite (max_list_cons_le pn acc e Em Hle). split.
      * intros [[Hi [e' [He' [Hle' Hin']]]]|Hi].
        -- injection He' as <-. split; [assumption|]. exists e. repeat split; try assumption. right; assumption.
        -- apply N.eqb_eq in Hi. subst i. split; [lia|]. exists e. repeat split; try lia. left. lia.
      * intros [Hi [e' [He' [Hle' [Hin'|Hin']]]]]; injection He' as <-.
        -- right. apply N.eqb_eq. lia.
        -- left. split; [assumption|]. exists e. repeat split; assumption.
  - (* to the right of the edge *)
    assert (Hc : spec_check acc pn = COk) by (rewrite <- Hchk; reflexivity).
    rewrite Hc. cbn [acc_after ccode].
    set (delta := pn - e) in *.
    assert (Hnew : max_list (pn :: acc) = Some pn) by (eapply max_list_cons_gt; eassumption).
    assert (Hacc_le : forall x, In x acc -> x <= e) by (intros; eapply max_list_ge; eassumption).
    destruct (N.ltb_spec delta 129) as [Hnear|Hfar].
    + injection Hins as <- <-. cbn [icode].
      split; [reflexivity|]. split.
      * split; [cbn [right_edge]; symmetry; assumption|]. cbn [window]. intros i.
        rewrite N.lor_spec, tb_bit_w, Hnew.
        assert (Hw1 : N.testbit (if delta <? 128 then shl_w (window s) delta else 0) i = true <->
                      (delta <= i /\ i < 128 /\ N.testbit (window s) (i - delta) = true)).
        { destruct (N.ltb_spec delta 128) as [Hd|Hd].
          - rewrite tb_shl_w, !andb_true_iff, N.leb_le, N.ltb_lt. tauto.
          - rewrite N.bits_0. split; [discriminate|]. intros [? [? _]]. lia. }
        rewrite orb_true_iff, Hw1, Hbits. split.
        -- intros [[Hd [Hi [_ [e' [He' [Hle' Hin']]]]]]|Hi].
           ++ injection He' as <-. split; [assumption|]. exists pn. split; [reflexivity|]. split; [lia|].
              right. replace (pn - 1 - i) with (e - 1 - (i - delta)) by lia. assumption.
           ++ apply N.eqb_eq in Hi. subst i. split; [lia|]. exists pn. split; [reflexivity|]. split; [lia|].
              right. replace (pn - 1 - (delta - 1)) with e by lia. eapply max_list_in; eassumption.
        -- intros [Hi [e' [He' [Hle' Hin']]]]. injection He' as <-.
           destruct Hin' as [Hin'|Hin']; [lia|].
           pose proof (Hacc_le _ Hin') as Hx.
           destruct (N.eq_dec i (delta - 1)) as [->|Hne]; [right; apply N.eqb_refl|]. left.
           split; [lia|]. split; [assumption|]. split; [lia|]. exists e. split; [reflexivity|]. split; [lia|].
           replace (e - 1 - (i - delta)) with (pn - 1 - i) by lia. assumption.
      * intros w e' Hr. injection Hr as <- <-. right. exists e. repeat split; try assumption.
        intros i. rewrite N.land_spec, tb_not_w.
        assert (Hm : N.testbit (if delta =? 128 then umask else not_w (N.shiftr umask (delta mod 128))) i
                     = (i <? 128) && (128 <=? i + delta)).
        { destruct (N.eqb_spec delta 128) as [Hd|Hd].
          - rewrite tb_umask. destruct (N.leb_spec 128 (i + delta)); [|lia]. rewrite andb_true_r. reflexivity.
          - rewrite N.mod_small by lia. rewrite tb_not_w, testbit_shiftr, tb_umask.
            destruct (N.ltb_spec i 128), (N.ltb_spec (i + delta) 128), (N.leb_spec 128 (i + delta)); try lia; reflexivity. }
        rewrite Hm. unfold delta. destruct (N.testbit (window s) i), (i <? 128), (128 <=? i + (pn - e)); reflexivity.
    + injection Hins as <- <-. cbn [icode].
      split; [reflexivity|]. split.
      * split; [cbn [right_edge]; symmetry; assumption|]. cbn [window]. intros i. rewrite N.bits_0, Hnew.
        split; [discriminate|]. intros [Hi [e' [He' [Hle' Hin']]]]. injection He' as <-.
        destruct Hin' as [Hin'|Hin']; [lia|]. pose proof (Hacc_le _ Hin'). lia.
      * intros w e' Hr. injection Hr as <- <-. right. exists e. repeat split; try assumption.
        intros i. rewrite tb_not_w. subst delta.
        destruct (N.ltb_spec i 128) as [Hi|Hi].
        -- destruct (N.leb_spec 128 (i + (pn - e))); [|lia]. destruct (N.testbit (window s) i); reflexivity.
        -- destruct (N.testbit (window s) i) eqn:Eb; [|reflexivity].
           apply Hbits in Eb. lia.
Qed.

(* ---------- nrange ---------- *)
Lemma nrange_empty : forall lo hi, hi < lo -> nrange lo hi = [].
Proof. intros. unfold nrange. replace (N.to_nat (hi + 1 - lo)) with 0%nat by lia. reflexivity. Qed.

Lemma nrange_cons : forall lo hi, lo <= hi -> nrange lo hi = lo :: nrange (lo + 1) hi.
Proof.
  intros lo hi H. unfold nrange.
  replace (N.to_nat (hi + 1 - lo)) with (S (N.to_nat (hi + 1 - (lo + 1)))) by lia.
  cbn [seq map]. f_equal; [lia|]. rewrite <- seq_shift, map_map. apply map_ext. intros. lia.
Qed.

Lemma In_nrange : forall lo hi x, In x (nrange lo hi) <-> lo <= x <= hi.
Proof.
  intros lo hi x. unfold nrange. rewrite in_map_iff. split.
  - intros [i [<- Hi]]. apply in_seq in Hi. lia.
  - intros H. exists (N.to_nat (x - lo)). split; [lia|]. apply in_seq. lia.
Qed.

Lemma nrange_snoc : forall lo hi, lo <= hi + 1 -> nrange lo (hi + 1) = nrange lo hi ++ [hi + 1].
Proof.
  intros lo hi H. unfold nrange.
  replace (N.to_nat (hi + 1 + 1 - lo)) with (N.to_nat (hi + 1 - lo) + 1)%nat by lia.
  rewrite seq_app, map_app. cbn [seq map]. do 2 f_equal. lia.
Qed.

(* ---------- the EvictedSet iterator ---------- *)
(* bits k-1 .. 0 of w, most significant first; bit i stands for re - 1 - i, negative numbers skipped *)
Fixpoint ev_bits (k : nat) (w re : N) : list N :=
  match k with
  | O => []
  | S k' => (if N.testbit w (N.of_nat k') && (N.of_nat k' + 1 <=? re) then [re - 1 - N.of_nat k'] else [])
            ++ ev_bits k' w re
  end.

Lemma ev_bits_skip : forall w re k j, (j <= k)%nat ->
  (forall i, (j <= i < k)%nat -> N.testbit w (N.of_nat i) = false) -> ev_bits k w re = ev_bits j w re.
Proof.
  induction k as [|k IH]; intros j Hj Hz.
  - replace j with 0%nat by lia. reflexivity.
  - destruct (Nat.eq_dec j (S k)) as [->|Hne]; [reflexivity|].
    cbn [ev_bits]. rewrite Hz by lia. cbn [andb app]. apply IH; [lia|]. intros; apply Hz; lia.
Qed.

Definition wfw (w : N) : Prop := forall i, 128 <= i -> N.testbit w i = false.

Lemma shl_w_0 : forall w, wfw w -> shl_w w 0 = w.
Proof.
  intros w H. apply N.bits_inj. intros i. rewrite tb_shl_w, N.sub_0_r.
  replace (0 <=? i) with true by (symmetry; apply N.leb_le; lia). cbn [andb].
  destruct (N.ltb_spec i 128); [apply andb_true_r|]. rewrite H by assumption. reflexivity.
Qed.

Lemma wfw_shl_w : forall w d, wfw (shl_w w d).
Proof. intros w d i Hi. rewrite tb_shl_w. destruct (N.ltb_spec i 128); [lia|apply andb_false_r]. Qed.

Lemma shl_w_shl_w : forall w a b, shl_w (shl_w w a) b = shl_w w (a + b).
Proof.
  intros. apply N.bits_inj. intros i. rewrite !tb_shl_w.
  destruct (N.ltb_spec i 128) as [Hi|Hi]; [|rewrite !andb_false_r; reflexivity]. rewrite !andb_true_r.
  destruct (N.leb_spec b i), (N.leb_spec a (i - b)), (N.leb_spec (a + b) i); try lia; cbn [andb]; try reflexivity.
  destruct (N.ltb_spec (i - b) 128); [|lia]. rewrite andb_true_r. f_equal. lia.
Qed.

Lemma shl_w_big : forall w d, 128 <= d -> shl_w w d = 0.
Proof.
  intros. apply zero_of_bits. intros i. rewrite tb_shl_w.
  destruct (N.ltb_spec i 128); [|apply andb_false_r]. destruct (N.leb_spec d i); [lia|reflexivity].
Qed.

Lemma evicted_iter_spec : forall fuel t w0 re0, wfw w0 -> t <= 128 -> 129 <= t + N.of_nat fuel ->
  evicted_iter fuel (shl_w w0 t) (re0 + t) = ev_bits (N.to_nat (128 - t)) w0 re0.
Proof.
  induction fuel as [|f IH]; intros t w0 re0 Hwf Ht Hfuel; [lia|].
  cbn [evicted_iter]. unfold wbits, window_width, sw_window_bits, sw_window_width.
  set (w := shl_w w0 t).
  assert (Hwb : forall i, N.testbit w (i + t) = N.testbit w0 i && (i + t <? 128)).
  { intros i. unfold w. rewrite tb_shl_w. replace (i + t - t) with i by lia.
    destruct (N.leb_spec t (i + t)); [reflexivity|lia]. }
  destruct (N.eqb_spec w 0) as [Hz|Hnz].
  - (* no bit left *)
    symmetry. rewrite (ev_bits_skip w0 re0 _ 0%nat); [reflexivity|lia|].
    intros i Hi. specialize (Hwb (N.of_nat i)). rewrite Hz, N.bits_0 in Hwb.
    destruct (N.ltb_spec (N.of_nat i + t) 128); [|lia]. rewrite andb_true_r in Hwb. congruence.
  - pose proof (size_pos w Hnz) as Hs1.
    assert (Hs2 : N.size w <= 128) by (apply size_le_of_bits; apply wfw_shl_w).
    pose proof (testbit_top w Hnz) as Htop.
    assert (Hts : t <= N.size w - 1).
    { destruct (N.le_gt_cases t (N.size w - 1)); [assumption|]. exfalso.
      pose proof (tb_shl_w w0 t (N.size w - 1)) as E. fold w in E. rewrite Htop in E.
      destruct (N.leb_spec t (N.size w - 1)); [lia|discriminate]. }
    set (j := N.size w - 1 - t).
    assert (Hj : N.testbit w0 j = true).
    { specialize (Hwb j). replace (j + t) with (N.size w - 1) in Hwb by (unfold j; lia).
      rewrite Htop in Hwb. symmetry in Hwb. apply andb_true_iff in Hwb. tauto. }
    assert (Habove : forall i, (N.to_nat j < i < N.to_nat (128 - t))%nat -> N.testbit w0 (N.of_nat i) = false).
    { intros i Hi. specialize (Hwb (N.of_nat i)).
      rewrite testbit_above_size in Hwb by (unfold j in Hi; lia).
      destruct (N.ltb_spec (N.of_nat i + t) 128); [|lia]. rewrite andb_true_r in Hwb. congruence. }
    replace (128 - N.size w + 1) with (128 - j - t) by (unfold j; lia).
    assert (Hw' : (if 128 - j - t =? 128 then 0 else shl_w w (128 - j - t)) = shl_w w0 (128 - j)).
    { destruct (N.eqb_spec (128 - j - t) 128) as [E|E].
      - symmetry. apply shl_w_big. lia.
      - unfold w. rewrite shl_w_shl_w. f_equal. unfold j. lia. }
    rewrite Hw'. replace (re0 + t + (128 - j - t)) with (re0 + (128 - j)) by (unfold j; lia).
    rewrite IH by (try assumption; unfold j in *; lia).
    replace (N.to_nat (128 - (128 - j))) with (N.to_nat j) by (unfold j; lia).
    rewrite (ev_bits_skip w0 re0 (N.to_nat (128 - t)) (S (N.to_nat j))); [|unfold j; lia|intros; apply Habove; lia].
    cbn [ev_bits]. rewrite N2Nat.id, Hj. cbn [andb].
    destruct (N.leb_spec 129 (re0 + (128 - j))), (N.leb_spec (j + 1) re0); try (unfold j in *; lia).
    + cbn [app]. f_equal. unfold j in *. lia.
    + reflexivity.
Qed.

Lemma evicted_list_bits : forall w re, wfw w -> evicted_list w re = ev_bits 128 w re.
Proof.
  intros w re H. unfold evicted_list.
  pose proof (evicted_iter_spec 129 0 w re H) as E. rewrite shl_w_0, N.add_0_r in E by assumption.
  rewrite E by lia. reflexivity.
Qed.

Lemma ev_bits_filter : forall w re k,
  ev_bits k w re = filter (fun x => (x <? re) && N.testbit w (re - 1 - x)) (nrange (re - N.of_nat k) (re - 1)).
Proof.
  intros w re. induction k as [|k IH].
  - cbn [ev_bits]. rewrite N.sub_0_r. destruct (N.eq_dec re 0) as [->|Hre].
    + reflexivity.
    + rewrite nrange_empty by lia. reflexivity.
  - cbn [ev_bits]. rewrite IH. destruct (N.leb_spec (N.of_nat k + 1) re) as [Hle|Hgt].
    + rewrite (nrange_cons (re - N.of_nat (S k))) by lia. cbn [filter].
      replace (re - N.of_nat (S k) + 1) with (re - N.of_nat k) by lia.
      replace (re - 1 - (re - N.of_nat (S k))) with (N.of_nat k) by lia.
      destruct (N.ltb_spec (re - N.of_nat (S k)) re); [|lia]. cbn [andb].
      rewrite andb_true_r. destruct (N.testbit w (N.of_nat k)); [|reflexivity].
      cbn [app]. f_equal. lia.
    + rewrite andb_false_r. cbn [app]. f_equal. f_equal. lia.
Qed.

(* the evicted set of an accepted insert above the edge is what the reference set says *)
Lemma evicted_spec : forall s acc pn prev w, SInv s acc -> max_list acc = Some prev -> prev < pn ->
  removed_ok (window s) w (pn - prev) -> evicted_list w prev = spec_evicted acc pn.
Proof.
  intros s acc pn prev w [Hre Hbits] Em Hgt Hrem.
  assert (Hwf : wfw w).
  { intros i Hi. rewrite Hrem. destruct (N.ltb_spec i 128); [lia|reflexivity]. }
  rewrite evicted_list_bits by assumption. rewrite ev_bits_filter.
  unfold spec_evicted. rewrite Em. destruct (N.ltb_spec prev pn); [|lia].
  assert (Hprev : In prev acc) by (eapply max_list_in; eassumption).
  destruct (N.eq_dec prev 0) as [->|Hp].
  - change (nrange (0 - N.of_nat 128) (0 - 1)) with [0]. change (nrange (0 - 128) 0) with [0].
    cbn [filter]. apply mem_N_In in Hprev. rewrite Hprev. reflexivity.
  - change (N.of_nat 128) with 128.
    replace (nrange (prev - 128) prev) with (nrange (prev - 128) (prev - 1) ++ [prev - 1 + 1]).
    2:{ rewrite <- nrange_snoc by lia. f_equal; lia. }
    rewrite filter_app. cbn [filter]. replace (prev - 1 + 1) with prev by lia. apply mem_N_In in Hprev. rewrite Hprev. cbn [negb andb].
    rewrite app_nil_r. apply filter_ext_in. intros x Hx. apply In_nrange in Hx.
    destruct (N.ltb_spec x prev); [|lia]. cbn [andb].
    rewrite Hrem. destruct (N.ltb_spec (prev - 1 - x) 128); [|lia]. cbn [andb].
    f_equal.
    + f_equal. destruct (mem_N x acc) eqn:Emem.
      * apply mem_N_In in Emem. apply Hbits. split; [lia|]. exists prev. split; [assumption|]. split; [lia|].
        replace (prev - 1 - (prev - 1 - x)) with x by lia. assumption.
      * apply mem_N_false in Emem. destruct (N.testbit (window s) (prev - 1 - x)) eqn:Eb; [|reflexivity].
        exfalso. apply Emem. apply Hbits in Eb. destruct Eb as [_ [e [He [Hle Hin]]]].
        rewrite Em in He. injection He as <-. replace (prev - 1 - (prev - 1 - x)) with x in Hin by lia. assumption.
    + destruct (N.leb_spec 128 (prev - 1 - x + (pn - prev))), (N.leb_spec (x + 129) pn); try lia; reflexivity.
Qed.

(* ---------- every operation sequence ---------- *)
Lemma dump_of_ext : forall f g hi, (forall x, f x = g x) -> dump_of f hi = dump_of g hi.
Proof.
  intros f g hi H. unfold dump_of.
  rewrite (filter_ext (fun x => match f x with CDup => true | _ => false end)
                      (fun x => match g x with CDup => true | _ => false end)) by (intros; rewrite H; reflexivity).
  rewrite (filter_ext (fun x => match f x with CTooOld => true | _ => false end)
                      (fun x => match g x with CTooOld => true | _ => false end)) by (intros; rewrite H; reflexivity).
  reflexivity.
Qed.

Lemma step_refines : forall s acc op pn, SInv s acc ->
  snd (step_out s op pn) = snd (spec_step acc op pn) /\
  SInv (fst (step_out s op pn)) (fst (spec_step acc op pn)).
Proof.
  intros s acc op pn Hinv. unfold step_out, spec_step.
  destruct (insert_with_evicted s pn) as [s' r] eqn:Eins.
  destruct (insert_spec _ _ _ _ _ Hinv Eins) as (Hcode & Hinv' & Hev).
  destruct (op =? 0)%Z.
  - cbn [fst snd]. split; [|exact Hinv'].
    rewrite Hcode. f_equal.
    destruct r as [w e| |]; destruct (spec_check acc pn) eqn:Ec; try discriminate; try reflexivity.
    destruct (Hev w e eq_refl) as [[-> Hs]|(prev & Em & -> & Hlt & Hrem)].
    + rewrite Hs. reflexivity.
    + rewrite (evicted_spec s acc pn prev w Hinv Em Hlt Hrem). reflexivity.
  - destruct (op =? 1)%Z; cbn [fst snd].
    + split; [|exact Hinv]. rewrite (check_spec s acc pn Hinv). reflexivity.
    + split; [|exact Hinv']. rewrite Hcode. reflexivity.
Qed.

Lemma run_from_spec : forall n c hi s acc, (length c <= n)%nat -> SInv s acc ->
  run_from hi s c = spec_from hi acc c.
Proof.
  induction n as [|n IH]; intros c hi s acc Hlen Hinv.
  - destruct c; [reflexivity|cbn in Hlen; lia].
  - destruct c as [|op [|z t]]; try reflexivity.
    cbn [run_from spec_from].
    destruct (step_refines s acc op (zN z) Hinv) as [Ho Hi].
    destruct (step_out s op (zN z)) as [s' o]. destruct (spec_step acc op (zN z)) as [acc' o'].
    cbn [fst snd] in *. subst o'.
    rewrite (dump_of_ext (check s') (spec_check acc')) by (intros; apply check_spec; assumption).
    rewrite (IH t _ s' acc'); [reflexivity|cbn [length] in Hlen; lia|assumption].
Qed.

(* the model's observable outputs are those of the reference set, for every case *)
Theorem run_is_spec : forall c, run c = spec_run c.
Proof. intros c. unfold run, spec_run. apply (run_from_spec (length c)); [lia|apply sinv_init]. Qed.

Lemma zlist_eqb_refl : forall l, zlist_eqb l l = true.
Proof. induction l as [|x l IH]; cbn [zlist_eqb]; [reflexivity|]. rewrite Z.eqb_refl, IH. reflexivity. Qed.

Lemma zlist_eqb_eq : forall a b, zlist_eqb a b = true -> a = b.
Proof.
  induction a as [|x a IH]; intros [|y b] H; cbn [zlist_eqb] in H; try discriminate; [reflexivity|].
  apply andb_true_iff in H. destruct H as [H1 H2]. apply Z.eqb_eq in H1. subst. f_equal. auto.
Qed.

Theorem judge_run : forall c, judge c (run c) = true.
Proof. intros c. unfold judge. rewrite run_is_spec. apply zlist_eqb_refl. Qed.

(* the judgement accepts exactly the reference answer *)
Theorem judge_sound : forall c out, judge c out = true -> out = spec_run c.
Proof. intros c out H. symmetry. apply zlist_eqb_eq. exact H. Qed.

(* ---------- the statement of the property over histories ---------- *)
(* an operation history: (op, pn) pairs; the window state and the set of accepted numbers side by side *)
Definition sw_steps (ops : list (Z * N)) : sw * list N :=
  fold_left (fun st o => (fst (step_out (fst st) (fst o) (snd o)), fst (spec_step (snd st) (fst o) (snd o))))
            ops (sw_init, []).

Lemma sw_steps_inv : forall ops, SInv (fst (sw_steps ops)) (snd (sw_steps ops)).
Proof.
  intros ops. unfold sw_steps.
  assert (G : forall st, SInv (fst st) (snd st) ->
     SInv (fst (fold_left (fun st o => (fst (step_out (fst st) (fst o) (snd o)), fst (spec_step (snd st) (fst o) (snd o)))) ops st))
          (snd (fold_left (fun st o => (fst (step_out (fst st) (fst o) (snd o)), fst (spec_step (snd st) (fst o) (snd o)))) ops st))).
  { induction ops as [|o ops IH]; intros st H; [exact H|]. cbn [fold_left]. apply IH. cbn [fst snd].
    apply step_refines. exact H. }
  apply G. apply sinv_init.
Qed.

Lemma spec_check_ok_iff : forall acc pn,
  spec_check acc pn = COk <-> (~ In pn acc /\ (acc = [] \/ exists e, max_list acc = Some e /\ e < pn + 129)).
Proof.
  intros acc pn. unfold spec_check. destruct (max_list acc) as [e|] eqn:Em.
  - destruct (N.leb_spec (pn + 129) e) as [H|H].
    + split; [discriminate|]. intros [_ [->|[e' [He' Hlt]]]]; [discriminate|]. injection He' as <-. lia.
    + destruct (mem_N pn acc) eqn:Emem.
      * apply mem_N_In in Emem. split; [discriminate|]. intros [Hn _]. contradiction.
      * apply mem_N_false in Emem. split; [|reflexivity]. intros _. split; [assumption|]. right. exists e. split; [reflexivity|lia].
  - apply max_list_none in Em. subst acc. split; [|reflexivity]. intros _. split; [intros []|left; reflexivity].
Qed.

Lemma spec_check_old_iff : forall acc pn,
  spec_check acc pn = CTooOld <-> exists e, max_list acc = Some e /\ pn + 129 <= e.
Proof.
  intros acc pn. unfold spec_check. destruct (max_list acc) as [e|] eqn:Em.
  - destruct (N.leb_spec (pn + 129) e) as [H|H].
    + split; [|reflexivity]. intros _. exists e. split; [reflexivity|assumption].
    + split.
      * destruct (mem_N pn acc); discriminate.
      * intros [e' [He' Hle]]. injection He' as <-. lia.
  - split; [discriminate|]. intros [e [He _]]. discriminate.
Qed.

Lemma spec_evicted_in : forall acc pn x, In x (spec_evicted acc pn) <->
  exists e, max_list acc = Some e /\ e < pn /\ ~ In x acc /\ x < e /\ e <= x + 128 /\ x + 129 <= pn.
Proof.
  intros acc pn x. unfold spec_evicted. destruct (max_list acc) as [e|] eqn:Em.
  - destruct (N.ltb_spec e pn) as [Hlt|Hge].
    + rewrite filter_In, In_nrange, andb_true_iff, negb_true_iff, mem_N_false, N.leb_le. split.
      * intros [[H1 H2] [H3 H4]]. exists e. repeat split; try assumption; try lia.
        destruct (N.eq_dec x e) as [->|]; [exfalso; apply H3; eapply max_list_in; eassumption|lia].
      * intros [e' [He' H]]. injection He' as <-. repeat split; try tauto; lia.
    + split; [intros []|]. intros [e' [He' H]]. injection He' as <-. lia.
  - split; [intros []|]. intros [e' [He' _]]. discriminate.
Qed.

(* sliding_refines: after any history, with [acc] the set of numbers whose insert was accepted:
   check/insert answer Ok exactly for the numbers not in the set and inside (or right of) the window,
   TooOld exactly for those 129 or more below the largest accepted, Duplicate otherwise;
   the evicted set of an accepted insert is exactly the reference one *)
Theorem sliding_refines : forall ops pn, let s := fst (sw_steps ops) in let acc := snd (sw_steps ops) in
  (check s pn = COk <-> (~ In pn acc /\ (acc = [] \/ exists e, max_list acc = Some e /\ e < pn + 129))) /\
  (check s pn = CTooOld <-> exists e, max_list acc = Some e /\ pn + 129 <= e) /\
  icode (snd (insert_with_evicted s pn)) = ccode (check s pn) /\
  (forall w e, snd (insert_with_evicted s pn) = IOk w e ->
     forall x, In x (evicted_list w e) <->
       exists m, max_list acc = Some m /\ m < pn /\ ~ In x acc /\ x < m /\ m <= x + 128 /\ x + 129 <= pn) /\
  SInv (fst (insert_with_evicted s pn)) (acc_after acc pn (check s pn)).
Proof.
  intros ops pn s acc. pose proof (sw_steps_inv ops) as Hinv. fold s acc in Hinv.
  rewrite (check_spec s acc pn Hinv).
  split; [apply spec_check_ok_iff|]. split; [apply spec_check_old_iff|].
  destruct (insert_with_evicted s pn) as [s' r] eqn:Eins.
  destruct (insert_spec _ _ _ _ _ Hinv Eins) as (Hcode & Hinv' & Hev). cbn [fst snd].
  split; [assumption|]. split; [|assumption].
  intros w e Hr x. rewrite <- spec_evicted_in.
  destruct (Hev w e Hr) as [[-> Hs]|(prev & Em & -> & Hlt & Hrem)].
  - rewrite Hs. split; [intros H; exact H|intros []].
  - rewrite (evicted_spec s acc pn prev w Hinv Em Hlt Hrem). tauto.
Qed.
