(* Properties of [round24] (round to nearest even at 24 significant bits), pure N arithmetic. *)
From SQ Require Import lib.Base gen.Gen_C10 model.Cubic.
Local Open Scope N_scope.

Lemma size_le_24 : forall x, N.size x <= 24 <-> x < 2 ^ 24.
Proof.
  intros x. split; intros H.
  - pose proof (N.size_gt x) as G.
    assert (2 ^ N.size x <= 2 ^ 24) by (apply N.pow_le_mono_r; lia). lia.
  - destruct (N.le_gt_cases (N.size x) 24) as [L|L]; [exact L|exfalso].
    pose proof (N.size_le x) as G. rewrite N.succ_double_spec in G.
    assert (2 ^ 25 <= 2 ^ N.size x) by (apply N.pow_le_mono_r; lia).
    change (2 ^ 25) with (2 * 2 ^ 24) in H0. lia.
Qed.

Lemma round24_small : forall x, x < 2 ^ 24 -> round24 x = x.
Proof.
  intros x H. unfold round24. apply size_le_24 in H.
  destruct (N.leb_spec (N.size x) 24); [reflexivity|lia].
Qed.

(* the decomposition used by the rounding branch *)
Lemma round24_big : forall x, 2 ^ 24 <= x ->
  let p := 2 ^ (N.size x - 24) in
  let q := x / p in let r := x mod p in
  x = q * p + r /\ r < p /\ 2 ^ 23 <= q /\ 2 <= p /\ (exists k, p = 2 ^ k /\ 1 <= k) /\
  (round24 x = q * p \/ (round24 x = (q + 1) * p /\ p <= 2 * r)) /\ (round24 x = q * p -> 2 * r <= p).
Proof.
  intros x H p q r.
  assert (S : 24 < N.size x).
  { destruct (N.le_gt_cases (N.size x) 24) as [L|L]; [|exact L]. apply size_le_24 in L. lia. }
  assert (P0 : p <> 0) by (apply N.pow_nonzero; lia).
  assert (Hp : 2 ^ N.size x = 2 ^ 24 * p).
  { unfold p. rewrite <- N.pow_add_r. f_equal. lia. }
  pose proof (N.size_le x) as G. rewrite N.succ_double_spec in G.
  assert (Hx : 2 ^ 23 * p <= x).
  { change (2 ^ 24) with (2 * 2 ^ 23) in Hp. rewrite Hp in G.
    assert (2 * (2 ^ 23 * p) <= 2 * x + 1) by lia. lia. }
  assert (E : x = q * p + r).
  { unfold q, r. rewrite (N.mul_comm (x / p) p). apply N.div_mod. exact P0. }
  assert (R : r < p) by (apply N.mod_lt; exact P0).
  assert (Q : 2 ^ 23 <= q).
  { unfold q. apply N.div_le_lower_bound; [exact P0|]. rewrite N.mul_comm. exact Hx. }
  assert (P2 : 2 <= p).
  { unfold p. change 2 with (2 ^ 1) at 1. apply N.pow_le_mono_r; lia. }
  repeat split; try assumption.
  - exists (N.size x - 24). split; [reflexivity|lia].
  - unfold round24. destruct (N.leb_spec (N.size x) 24); [lia|].
    fold p. fold q. fold r.
    destruct (N.ltb_spec p (2 * r)); cbn [orb].
    + right. split; [reflexivity|lia].
    + destruct (N.eqb_spec (2 * r) p); cbn [andb].
      * destruct (N.odd q); [right; split; [reflexivity|lia]|left; reflexivity].
      * left; reflexivity.
  - unfold round24. destruct (N.leb_spec (N.size x) 24); [lia|].
    fold p. fold q. fold r.
    destruct (N.ltb_spec p (2 * r)); cbn [orb].
    + intros C. assert (q * p < (q + 1) * p) by (apply N.mul_lt_mono_pos_r; lia). lia.
    + intros _. lia.
Qed.

(* relative error: round24 x <= x * (1 + 2^-24) *)
Lemma round24_upper : forall x, 2 ^ 24 * round24 x <= (2 ^ 24 + 1) * x.
Proof.
  intros x. destruct (N.lt_ge_cases x (2 ^ 24)) as [L|L].
  - rewrite round24_small by exact L. lia.
  - destruct (round24_big x L) as (E & R & Q & P2 & _ & [C|[C D]] & _).
    + rewrite C. set (p := 2 ^ (N.size x - 24)) in *. set (q := x / p) in *. set (r := x mod p) in *.
      remember (q * p) as qp. change (2 ^ 24) with 16777216 in *. lia.
    + rewrite C. set (p := 2 ^ (N.size x - 24)) in *. set (q := x / p) in *. set (r := x mod p) in *.
      assert (2 ^ 23 * p <= q * p) by (apply N.mul_le_mono_r; exact Q).
      replace ((q + 1) * p) with (q * p + p) by lia. remember (q * p) as qp.
      change (2 ^ 24) with 16777216 in *. change (2 ^ 23) with 8388608 in *. lia.
Qed.

(* a value with at most 24 significant bits *)
Definition repr24 (y : N) : Prop := exists m j, y = m * 2 ^ j /\ m < 2 ^ 24.

Lemma repr24_small : forall y, y < 2 ^ 24 -> repr24 y.
Proof. intros y H. exists y, 0. split; [change (2 ^ 0) with 1; lia|exact H]. Qed.

Lemma repr24_scale : forall y k, repr24 y -> repr24 (2 ^ k * y).
Proof.
  intros y k (m & j & E & M). exists m, (j + k). split; [|exact M].
  rewrite N.pow_add_r. rewrite E. lia.
Qed.

Lemma pow2_dvd_or_lt : forall j k m, m * 2 ^ j = m * 2 ^ j -> (k <= j \/ j < k).
Proof. intros. lia. Qed.

(* rounding never crosses a representable value *)
Lemma round24_ge : forall x y, repr24 y -> y <= x -> y <= round24 x.
Proof.
  intros x y (m & j & E & M) L.
  destruct (N.lt_ge_cases x (2 ^ 24)) as [S|S].
  - rewrite round24_small by exact S. exact L.
  - destruct (round24_big x S) as (Ex & R & Q & P2 & (k & Pk & K1) & C & _).
    set (p := 2 ^ (N.size x - 24)) in *. set (q := x / p) in *. set (r := x mod p) in *.
    assert (G : y <= q * p).
    { destruct (N.le_gt_cases k j) as [KJ|KJ].
      - (* p divides y *)
        assert (Ey : y = (m * 2 ^ (j - k)) * p).
        { rewrite Pk, E. rewrite <- N.mul_assoc, <- N.pow_add_r. do 2 f_equal. lia. }
        set (c := m * 2 ^ (j - k)) in *.
        destruct (N.le_gt_cases c q) as [CQ|CQ].
        + rewrite Ey. apply N.mul_le_mono_r. exact CQ.
        + exfalso. assert ((q + 1) * p <= c * p) by (apply N.mul_le_mono_r; lia). lia.
      - (* y < 2^24 * 2^j <= 2^23 * p *)
        assert (2 ^ j * 2 <= p).
        { rewrite Pk. replace k with (j + (k - j)) by lia. rewrite N.pow_add_r.
          apply N.mul_le_mono_l. change 2 with (2 ^ 1) at 1. apply N.pow_le_mono_r; lia. }
        assert (2 ^ 23 * p <= q * p) by (apply N.mul_le_mono_r; exact Q).
        assert (m * 2 ^ j <= 2 ^ 24 * 2 ^ j) by (apply N.mul_le_mono_r; lia).
        change (2 ^ 24) with (2 ^ 23 * 2) in H1. lia. }
    destruct C as [C|[C _]]; rewrite C; [exact G|].
    assert (q * p <= (q + 1) * p) by (apply N.mul_le_mono_r; lia). lia.
Qed.

Lemma round24_le : forall x y, repr24 y -> x <= y -> round24 x <= y.
Proof.
  intros x y (m & j & E & M) L.
  destruct (N.lt_ge_cases x (2 ^ 24)) as [S|S].
  - rewrite round24_small by exact S. exact L.
  - destruct (round24_big x S) as (Ex & R & Q & P2 & (k & Pk & K1) & C & D).
    set (p := 2 ^ (N.size x - 24)) in *. set (q := x / p) in *. set (r := x mod p) in *.
    destruct C as [C|[C D']]; rewrite C; [lia|].
    (* rounding up: r > 0, so y > q*p; y is a multiple of p (it is >= 2^23 p with 24 bits) *)
    assert (r <> 0) by lia.
    assert (2 ^ 23 * p <= q * p) by (apply N.mul_le_mono_r; exact Q).
    destruct (N.le_gt_cases k j) as [KJ|KJ].
    + assert (Ey : y = (m * 2 ^ (j - k)) * p).
      { rewrite Pk, E. rewrite <- N.mul_assoc, <- N.pow_add_r. do 2 f_equal. lia. }
      set (c := m * 2 ^ (j - k)) in *.
      destruct (N.le_gt_cases (q + 1) c) as [CQ|CQ].
      * rewrite Ey. apply N.mul_le_mono_r. exact CQ.
      * exfalso. assert (c * p <= q * p) by (apply N.mul_le_mono_r; lia). lia.
    + exfalso.
      assert (2 ^ j * 2 <= p).
      { rewrite Pk. replace k with (j + (k - j)) by lia. rewrite N.pow_add_r.
        apply N.mul_le_mono_l. change 2 with (2 ^ 1) at 1. apply N.pow_le_mono_r; lia. }
      assert (m * 2 ^ j <= 2 ^ 24 * 2 ^ j) by (apply N.mul_le_mono_r; lia).
      change (2 ^ 24) with (2 ^ 23 * 2) in H2. lia.
Qed.

Lemma round24_mono_ge_self : forall x c, repr24 c -> c <= x -> c <= round24 x.
Proof. exact (fun x c H L => round24_ge x c H L). Qed.
