(* Proofs about model/StreamId.v *)
From SQ Require Import lib.Base gen.Gen_C12.
From SQ Require Import model.StreamId.
Local Open Scope N_scope.

Definition Inv (server : bool) (t : N) (c : lctl) (y : mty) : Prop :=
  y_lim y = l_peer c /\
  y_last y = (if l_opened c =? 0 then None
              else Some (sid_initial server t + Gen_C12.stream_id_step * (l_opened c - 1))).

Lemma sid_initial_lt : forall server t, sid_initial server t < 4.
Proof. intros server t. destruct server; destruct t; reflexivity. Qed.

Lemma t_cases : forall a, zN a mod 2 = 0 \/ zN a mod 2 = 1.
Proof. intros a. assert (H : zN a mod 2 < 2) by (apply N.mod_lt; discriminate). revert H. generalize (zN a mod 2). intros y H. lia. Qed.

(* every id the model hands out satisfies both judgements *)
Lemma open_ok12 : forall server t c y id c', Inv server t c y -> l_open server t c = (Some id, c') ->
  ok12 server t y id = true /\ Inv server t c' (mk_mty (Some id) (y_lim y)).
Proof.
  intros server t c y id c' [H1 H2] H. unfold l_open in H.
  destruct (l_avail c <? 1); [discriminate|]. injection H as <- <-.
  pose proof (sid_initial_lt server t) as Hi. unfold stream_id_step in *.
  split.
  - unfold ok12. apply andb_true_intro. split.
    + apply N.eqb_eq.
      replace (sid_initial server t + 4 * l_opened c) with (sid_initial server t + l_opened c * 4) by lia.
      rewrite N.mod_add by discriminate. apply N.mod_small; assumption.
    + rewrite H2. destruct (l_opened c =? 0) eqn:E; [reflexivity|]. apply N.eqb_neq in E. apply N.ltb_lt. lia.
  - unfold Inv. cbn. split; [assumption|].
    replace (l_opened c + 1 =? 0) with false by (symmetry; apply N.eqb_neq; lia).
    unfold stream_id_step. do 2 f_equal. lia.
Qed.

Lemma open_ok03 : forall server t c y id c', Inv server t c y -> l_open server t c = (Some id, c') ->
  ok03 server t y id = true.
Proof.
  intros server t c y id c' [H1 H2] H. unfold l_open in H.
  destruct (l_avail c <? 1) eqn:E; [discriminate|]. injection H as <- <-.
  apply N.ltb_ge in E. unfold l_avail in E.
  pose proof (sid_initial_lt server t) as Hi.
  unfold ok03, stream_id_step. apply N.ltb_lt. rewrite H1.
  replace (sid_initial server t + 4 * l_opened c) with (sid_initial server t + l_opened c * 4) by lia.
  rewrite N.div_add by discriminate. rewrite N.div_small by assumption. lia.
Qed.

Lemma Inv_max : forall server t c y v, Inv server t c y ->
  Inv server t (l_max_streams c v) (mk_mty (y_last y) (N.max (y_lim y) v)).
Proof.
  intros server t c y v [H1 H2]. unfold l_max_streams, Inv.
  destruct (v <=? l_peer c) eqn:E; cbn; [apply N.leb_le in E|apply N.leb_gt in E]; split; try assumption; lia.
Qed.

Lemma Inv_close : forall server t c y, Inv server t c y -> Inv server t (l_close c) y.
Proof. intros server t c y [H1 H2]. split; assumption. Qed.

Section W.
  Variable ok : bool -> N -> mty -> N -> bool.
  Variable server : bool.
  Hypothesis Hok : forall t c y id c', Inv server t c y -> l_open server t c = (Some id, c') ->
    ok server t y id = true.

  Lemma walk_run : forall fuel s yb yu ops,
    Inv server 0 (sm_bidi s) yb -> Inv server 1 (sm_uni s) yu ->
    walk ok fuel server yb yu ops (run_ops fuel server s ops) = true.
  Proof.
    induction fuel as [|fuel IH]; intros s yb yu ops Hb Hu; [reflexivity|].
    destruct ops as [|op r]; [reflexivity|].
    destruct op as [|p|p]; try reflexivity.
    destruct p as [[p|p|]|[p|[p|p|]|]|]; try reflexivity.
    - (* 3: close *)
      cbn [run_ops walk]. destruct (nx r) as [a r1].
      destruct (sm_flags s) eqn:Ef; [apply IH; assumption|].
      match goal with |- context [if ?b then _ else _] => destruct b end; apply IH; cbn; auto using Inv_close.
    - (* 4: open through another handle *)
      cbn [run_ops walk]. destruct (nx r) as [h r0]. destruct (nx r0) as [a r1].
      destruct (64 <=? l_opened (sm_bidi s) + l_opened (sm_uni s)); [reflexivity|].
      destruct (t_cases a) as [E|E]; rewrite E; change (1 =? 0) with false; change (0 =? 0) with true; cbv iota.
      + destruct (l_open server 0 (sm_bidi s)) as [[id|] c'] eqn:Eo; cbn [app].
        * replace (Nz id <? 0)%Z with false by (symmetry; apply Z.ltb_ge; unfold Nz; lia).
          unfold zN, Nz. rewrite N2Z.id. rewrite (Hok _ _ _ _ _ Hb Eo).
          change (0 =? 0) with true. cbv iota. apply IH; cbn; [|assumption].
          destruct (open_ok12 _ _ _ _ _ _ Hb Eo) as [_ H]. exact H.
        * change (-1 <? 0)%Z with true. cbv iota. apply IH; assumption.
      + destruct (l_open server 1 (sm_uni s)) as [[id|] c'] eqn:Eo; cbn [app].
        * replace (Nz id <? 0)%Z with false by (symmetry; apply Z.ltb_ge; unfold Nz; lia).
          unfold zN, Nz. rewrite N2Z.id. rewrite (Hok _ _ _ _ _ Hu Eo).
          change (1 =? 0) with false. cbv iota. apply IH; cbn; [assumption|].
          destruct (open_ok12 _ _ _ _ _ _ Hu Eo) as [_ H]. exact H.
        * change (-1 <? 0)%Z with true. cbv iota. apply IH; assumption.
    - (* 2: MAX_STREAMS *)
      cbn [run_ops walk]. destruct (nx r) as [a r1]. destruct (nx r1) as [b r2].
      destruct (t_cases a) as [E|E]; rewrite E; cbn [N.eqb]; change (1 =? 0) with false; change (0 =? 0) with true; cbv iota;
        apply IH; cbn; auto using Inv_max.
    - (* 1: open *)
      cbn [run_ops walk]. destruct (nx r) as [a r1].
      destruct (64 <=? l_opened (sm_bidi s) + l_opened (sm_uni s)); [reflexivity|].
      destruct (t_cases a) as [E|E]; rewrite E; change (1 =? 0) with false; change (0 =? 0) with true; cbv iota.
      + destruct (l_open server 0 (sm_bidi s)) as [[id|] c'] eqn:Eo; cbn [app].
        * replace (Nz id <? 0)%Z with false by (symmetry; apply Z.ltb_ge; unfold Nz; lia).
          unfold zN, Nz. rewrite N2Z.id. rewrite (Hok _ _ _ _ _ Hb Eo).
          change (0 =? 0) with true. cbv iota. apply IH; cbn; [|assumption].
          destruct (open_ok12 _ _ _ _ _ _ Hb Eo) as [_ H]. exact H.
        * change (-1 <? 0)%Z with true. cbv iota. apply IH; assumption.
      + destruct (l_open server 1 (sm_uni s)) as [[id|] c'] eqn:Eo; cbn [app].
        * replace (Nz id <? 0)%Z with false by (symmetry; apply Z.ltb_ge; unfold Nz; lia).
          unfold zN, Nz. rewrite N2Z.id. rewrite (Hok _ _ _ _ _ Hu Eo).
          change (1 =? 0) with false. cbv iota. apply IH; cbn; [assumption|].
          destruct (open_ok12 _ _ _ _ _ _ Hu Eo) as [_ H]. exact H.
        * change (-1 <? 0)%Z with true. cbv iota. apply IH; assumption.
  Qed.
End W.

Lemma Inv_init : forall server t p l, Inv server t (mk_lctl p l 0 0) (mk_mty None p).
Proof. intros. split; reflexivity. Qed.

Theorem judge12_run : forall case, judge12 case (run case) = true.
Proof.
  intros case. unfold judge12, judge_with, run.
  destruct (nx case) as [a r0]. destruct (nx r0) as [b r1]. destruct (nx r1) as [c r2].
  destruct (nx r2) as [d r3]. destruct (nx r3) as [e r4].
  apply walk_run; try apply Inv_init.
  intros t c0 y id c' Hi Ho. apply (open_ok12 _ _ _ _ _ _ Hi Ho).
Qed.

Theorem judge03_run : forall case, judge03 case (run case) = true.
Proof.
  intros case. unfold judge03, judge_with, run.
  destruct (nx case) as [a r0]. destruct (nx r0) as [b r1]. destruct (nx r1) as [c r2].
  destruct (nx r2) as [d r3]. destruct (nx r3) as [e r4].
  apply walk_run; try apply Inv_init.
  intros t c0 y id c' Hi Ho. apply (open_ok03 _ _ _ _ _ _ Hi Ho).
Qed.
