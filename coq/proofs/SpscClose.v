(* Proofs about model/Spsc.v: invariants of the interleaving system, by induction over the
   schedule (every capacity, every program, every interleaving). *)
From SQ Require Import lib.Base lib.ListX gen.Gen_C17.
From SQ Require Import model.Spsc.
Local Open Scope N_scope.

(* ---------------------------------------------------------------------------------------- *)
(* generic tactics                                                                           *)
(* ---------------------------------------------------------------------------------------- *)
Ltac st_cbn := cbn [set_head set_tail set_open set_slots set_rw set_sw set_freed set_released set_rnotif set_snotif set_rwakes set_swakes set_ppc set_ph set_pt set_pprev set_pitems set_pcode set_pout set_pwas set_pparked set_cpc set_ch set_ct set_cprev set_cwant set_ccode set_cgot set_cwas set_cparked set_pushed set_received set_discarded set_bad set_uaf set_npub set_hpub set_phc set_ctc head tail open slots rw sw freed released rnotif snotif rwakes swakes ppc ph pt pprev pitems pcode pout pwas pparked cpc ch ct cprev cwant ccode cgot cwas cparked pushed received discarded bad uaf npub hpub phc ctc
  cfg_pre_s cfg_post_s cfg_pre_r cfg_post_r is1 Gen_C17.close_pre_wake_sender Gen_C17.close_post_wake_sender Gen_C17.close_pre_wake_receiver Gen_C17.close_post_wake_receiver
  notify_r notify_s p_acq_ret c_acq_ret do_wk wake_step reg_step w_reg w_waking w_slot touches wk_targets_r_p wk_targets_r_c wk_is_drop andb orb negb] in *.

Ltac split_ifs :=
  repeat match goal with
  | |- context [if ?c then _ else _] => destruct c eqn:?; st_cbn
  | |- context [match ?x with _ => _ end] => destruct x eqn:?; st_cbn
  end.

(* ---------------------------------------------------------------------------------------- *)
(* Layer C: the close protocol (who swapped `open`, who frees)                               *)
(* ---------------------------------------------------------------------------------------- *)
Definition swapped (p : pc) : bool :=
  match p with
  | Wk KClose2 _ | Wk KDropR _ | Wk KDropS _ | Drop1 | Drop2 | Drop3 | Free | Done => true
  | _ => false
  end.
Definition in_drop (p : pc) : bool :=
  match p with
  | Wk KDropR _ | Wk KDropS _ | Drop1 | Drop2 | Drop3 | Free => true
  | Rel => true     (* with swapped Rel = false: excluded by cinv (pc of the repaired close only) *)
  | _ => false
  end.
Definition has_freed (p : pc) (was : bool) : bool := match p with Done => negb was | _ => false end.

Definition cinv_b (o pw cw fr sp sc dp dc fp fc : bool) : bool :=
  eqb o (negb (sp || sc))
  && implb dp sp && implb dc sc
  && (if sp then (if sc then xorb pw cw else pw) else true)
  && (if sc then (if sp then true else cw) else true)
  && (if dp then negb pw else true)
  && (if dc then negb cw else true)
  && eqb fr (fp || fc).

Definition cinv (s : st) : bool :=
  cinv_b (open s) (pwas s) (cwas s) (freed s)
         (swapped (ppc s)) (swapped (cpc s)) (in_drop (ppc s)) (in_drop (cpc s))
         (has_freed (ppc s) (pwas s)) (has_freed (cpc s) (cwas s)).

Lemma cinv_init : forall cap, cinv (init cap) = true.
Proof. reflexivity. Qed.

Ltac bool_brute :=
  repeat match goal with
  | b : bool |- _ => destruct b
  end; cbn in *; try reflexivity; try discriminate.

Lemma cinv_pbegin : forall op s, ppc s = Idle -> cinv s = true -> cinv (pbegin op s) = true.
Proof.
  intros op s Hp. destruct s. cbn in Hp. subst. unfold cinv, pbegin. destruct op; st_cbn; auto.
  all: cbn [swapped in_drop has_freed]; intros H; exact H.
Qed.

Ltac dst s := destruct s as [xhead xtail xopen xslots xrw xsw xfreed xreleased xrnotif xsnotif xrwakes xswakes xppc xph xpt xpprev xpitems xpcode xpout xpwas xpparked xcpc xch xct xcprev xcwant xccode xcgot xcwas xcparked xpushed xreceived xdiscarded xbad xuaf xnpub xhpub xphc xctc].

Ltac destruct_pc p :=
  destruct p as [ | [ | | | ] [ | | ] | [ | | | | | | ] | | | | [ | | | | ] [ | | [ | ] | ] | | | | | | | ].

Global Arguments cinv_b : simpl never.

Lemma cinv_close : forall o pw cw fr sc dc fc,
  cinv_b o pw cw fr false sc false dc false fc = true ->
  cinv_b false o cw fr true sc false dc false fc = true.
Proof. intros. bool_brute. Qed.
Lemma cinv_free : forall o pw cw fr sc dc fc,
  cinv_b o pw cw fr true sc true dc false fc = true ->
  cinv_b o pw cw true true sc false dc (negb pw) fc = true.
Proof. intros. bool_brute. Qed.
Lemma cinv_done1 : forall o cw fr sc dc fc,
  cinv_b o true cw fr true sc false dc false fc = true ->
  cinv_b o true cw fr true sc false dc (negb true) fc = true.
Proof. intros. bool_brute. Qed.
Lemma cinv_drop1 : forall o cw fr sc dc fc,
  cinv_b o false cw fr true sc false dc false fc = true ->
  cinv_b o false cw fr true sc true dc false fc = true.
Proof. intros. bool_brute. Qed.

Ltac pc_cases x :=
  destruct_pc x; unfold do_wk, wake_step, reg_step; st_cbn; cbn [swapped in_drop has_freed] in *;
  split_ifs; cbn [swapped in_drop has_freed] in *.

Lemma cinv_pstep : forall cap s, cinv s = true -> cinv (pstep false cap s) = true.
Proof.
  intros cap s. dst s.
  unfold cinv, pstep. st_cbn. intros H.
  pc_cases xppc; try exact H.
  all: try (exfalso; revert H; clear; unfold cinv_b; generalize (swapped xcpc) (in_drop xcpc) (has_freed xcpc xcwas); intros; bool_brute; fail).
  all: try (eapply cinv_close; exact H).
  all: try (eapply cinv_free; exact H).
  all: try (eapply cinv_done1; exact H).
  all: try (eapply cinv_drop1; exact H).
Qed.

Lemma cinv_close_c : forall o pw cw fr sp dp fp,
  cinv_b o pw cw fr sp false dp false fp false = true ->
  cinv_b false pw o fr sp true dp false fp false = true.
Proof. intros. bool_brute. Qed.
Lemma cinv_free_c : forall o pw cw fr sp dp fp,
  cinv_b o pw cw fr sp true dp true fp false = true ->
  cinv_b o pw cw true sp true dp false fp (negb cw) = true.
Proof. intros. bool_brute. Qed.
Lemma cinv_done1_c : forall o pw fr sp dp fp,
  cinv_b o pw true fr sp true dp false fp false = true ->
  cinv_b o pw true fr sp true dp false fp (negb true) = true.
Proof. intros. bool_brute. Qed.
Lemma cinv_drop1_c : forall o pw fr sp dp fp,
  cinv_b o pw false fr sp true dp false fp false = true ->
  cinv_b o pw false fr sp true dp true fp false = true.
Proof. intros. bool_brute. Qed.

Lemma cinv_cstep : forall cap s, cinv s = true -> cinv (cstep false cap s) = true.
Proof.
  intros cap s. dst s.
  unfold cinv, cstep. st_cbn. intros H.
  pc_cases xcpc; try exact H.
  all: try (exfalso; revert H; clear; unfold cinv_b; generalize (swapped xppc) (in_drop xppc) (has_freed xppc xpwas); intros; bool_brute; fail).
  all: try (eapply cinv_close_c; exact H).
  all: try (eapply cinv_free_c; exact H).
  all: try (eapply cinv_done1_c; exact H).
  all: try (eapply cinv_drop1_c; exact H).
Qed.

Lemma cinv_cbegin : forall op s, cpc s = Idle -> cinv s = true -> cinv (cbegin op s) = true.
Proof.
  intros op s Hp. dst s. cbn in Hp. subst. unfold cinv, cbegin. destruct op; st_cbn; auto.
Qed.

