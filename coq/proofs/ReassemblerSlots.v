(* Slot-level invariant lemmas for coq/model/Reassembler.v: RInv and the byte map of a slot list,
   preservation and content correctness for pop, skip and reset (the read side). *)
From SQ Require Import lib.Base gen.Gen_C01 model.Reassembler proofs.ReassemblerProofs.
Local Open Scope N_scope.

(* slots sorted, allocated ranges pairwise disjoint and non-empty, start <= end <= end_allocated,
   cached length = length of the data, first slot at or after the lower bound *)
Fixpoint slots_ok (lo : N) (sl : list slot) : Prop :=
  match sl with
  | [] => True
  | s :: t => lo <= s_start s /\ s_start s < s_endalloc s /\ s_len s = nlen (s_data s)
              /\ s_end s <= s_endalloc s /\ slots_ok (s_endalloc s) t
  end.

Definition RInv (st : rstate) : Prop :=
  slots_ok (start_off st) (slots st)
  /\ Forall (fun s => s_end s <= max_recv st) (slots st)
  /\ start_off st <= max_recv st /\ max_recv st <= final_off st /\ max_recv st <= varint_max.

(* the byte map a slot list holds *)
Fixpoint slots_get (sl : list slot) (p : N) : option N :=
  match sl with
  | [] => None
  | s :: t => if (s_start s <=? p) && (p <? s_end s) then nth_error (s_data s) (N.to_nat (p - s_start s))
              else slots_get t p
  end.

Lemma slots_ok_weaken : forall sl lo lo', lo' <= lo -> slots_ok lo sl -> slots_ok lo' sl.
Proof. intros [|s t] lo lo' H; cbn [slots_ok]; [auto|]. intros (H1 & H2); split; [lia|exact H2]. Qed.

Lemma slots_get_below : forall sl lo p, slots_ok lo sl -> p < lo -> slots_get sl p = None.
Proof.
  induction sl as [|s t IH]; intros lo p H Hp; cbn [slots_get slots_ok] in *; [reflexivity|].
  destruct H as (H1 & H2 & H3 & H4 & H5).
  destruct (N.leb_spec (s_start s) p); [lia|]. cbn [andb]. eapply IH; [exact H5|lia].
Qed.

Lemma RInv_init : RInv rinit.
Proof. unfold RInv, rinit; cbn. repeat split; auto; try lia. Qed.

Lemma nlen_ndrop {A} : forall k (l : list A), k <= nlen l -> nlen (ndrop k l) = nlen l - k.
Proof. intros k l H. unfold ndrop. rewrite !nlen_length in *. rewrite skipn_length. lia. Qed.
Lemma nlen_ntake {A} : forall k (l : list A), k <= nlen l -> nlen (ntake k l) = k.
Proof. intros k l H. unfold ntake. rewrite !nlen_length in *. rewrite firstn_length. lia. Qed.

(* pop: the chunk is exactly the bytes the slots hold at [start_offset, start_offset + n), n <= watermark,
   n = 0 only when nothing is there (or the watermark is 0); what is left is untouched; RInv is kept *)
Lemma rpop_correct : forall st w st' n chunk, RInv st -> rpop st w = (st', n, chunk) ->
  RInv st'
  /\ n = nlen chunk /\ n <= w
  /\ start_off st' = start_off st + n
  /\ (forall i, i < n -> nth_error chunk (N.to_nat i) = slots_get (slots st) (start_off st + i)
                         /\ nth_error chunk (N.to_nat i) <> None)
  /\ (forall p, start_off st + n <= p -> slots_get (slots st') p = slots_get (slots st) p)
  /\ (n = 0 -> w = 0 \/ slots_get (slots st) (start_off st) = None).
Proof.
  intros st w st' n chunk (Hok & Hmax & Hsm & Hmf & Hmv) H. unfold rpop in H.
  destruct (slots st) as [|s t] eqn:Esl.
  { injection H as <- <- <-. unfold RInv. rewrite Esl. cbn. repeat split; auto; try lia; try (intros i Hi; lia). }
  cbn [slots_ok] in Hok. destruct Hok as (H1 & H2 & H3 & H4 & H5).
  inversion Hmax as [|? ? Hm1 Hm2]; subst.
  unfold s_is_occupied in H.
  destruct (N.eqb_spec (s_len s) 0) as [Hz|Hz]; cbn [negb andb] in H.
  { injection H as <- <- <-. unfold RInv. rewrite Esl. cbn [slots_ok slots_get nlen fold_left].
    split; [repeat split; auto|]. repeat split; auto; try lia; try (intros i Hi; lia).
    intros _. right. unfold s_end. rewrite Hz.
    destruct (N.leb_spec (s_start s) (start_off st)); cbn [andb].
    - destruct (N.ltb_spec (start_off st) (s_start s + 0)); [lia|]. eapply slots_get_below; [exact H5|lia].
    - eapply slots_get_below; [exact H5|lia]. }
  destruct (N.eqb_spec (s_start s) (start_off st)) as [Hs|Hs]; cbn [negb] in H.
  2:{ injection H as <- <- <-. unfold RInv. rewrite Esl. cbn [slots_ok slots_get nlen fold_left].
      split; [repeat split; auto|]. repeat split; auto; try lia; try (intros i Hi; lia).
      intros _. right. destruct (N.leb_spec (s_start s) (start_off st)); [lia|]. cbn [andb].
      eapply slots_get_below; [exact H5|lia]. }
  unfold s_end in *.
  (* both branches hand out a prefix of the first slot's data *)
  set (whole := match final_size st with Some f => (f <=? s_endalloc s) && (s_len s <=? w) | None => false end) in H.
  destruct whole eqn:Ew.
  - (* Slot::consume *)
    assert (Hw : s_len s <= w).
    { unfold whole in Ew. destruct (final_size st); [|discriminate]. apply andb_true_iff in Ew.
      destruct Ew as [_ Ew]. apply N.leb_le in Ew. exact Ew. }
    unfold s_should_drop in H; cbn [s_start s_endalloc] in H. rewrite N.eqb_refl in H.
    injection H as <- <- <-. cbn [slots start_off max_recv final_off].
    split.
    { unfold RInv; cbn [slots start_off max_recv final_off]. repeat split; auto; try lia.
      eapply slots_ok_weaken; [|exact H5]. lia. }
    split; [exact H3|]. split; [exact Hw|]. split; [reflexivity|]. split.
    { intros i Hi. cbn [slots_get]; unfold s_end. rewrite <- Hs.
      destruct (N.leb_spec (s_start s) (s_start s + i)); [|lia].
      destruct (N.ltb_spec (s_start s + i) (s_start s + s_len s)); [|lia]. cbn [andb].
      replace (s_start s + i - s_start s) with i by lia. split; [reflexivity|].
      apply nth_error_Some. rewrite nlen_length in H3. lia. }
    split.
    { intros p Hp. cbn [slots_get]; unfold s_end. destruct (N.leb_spec (s_start s) p); [|lia].
      destruct (N.ltb_spec p (s_start s + s_len s)); [lia|]. reflexivity. }
    intros Hn. contradiction.
  - (* BytesMut::read_chunk(watermark) *)
    set (len := N.min (s_len s) w) in H.
    assert (Hlen : len <= s_len s) by (unfold len; lia).
    assert (Hlen' : len <= nlen (s_data s)) by lia.
    unfold s_should_drop in H; cbn [s_start s_endalloc] in H.
    destruct (N.eqb_spec (s_start s + len) (s_endalloc s)) as [Hd|Hd].
    + injection H as <- <- <-. cbn [slots start_off max_recv final_off].
      split.
      { unfold RInv; cbn [slots start_off max_recv final_off]. repeat split; auto; try lia.
        eapply slots_ok_weaken; [|exact H5]. lia. }
      split; [symmetry; apply nlen_ntake; exact Hlen'|]. split; [unfold len; lia|]. split; [reflexivity|]. split.
      { intros i Hi. cbn [slots_get]; unfold s_end. rewrite <- Hs.
        destruct (N.leb_spec (s_start s) (s_start s + i)); [|lia].
        destruct (N.ltb_spec (s_start s + i) (s_start s + s_len s)); [|lia]. cbn [andb].
        replace (s_start s + i - s_start s) with i by lia. unfold ntake.
        rewrite nth_error_firstn_lt by lia. split; [reflexivity|].
        apply nth_error_Some. rewrite nlen_length in H3. lia. }
      split.
      { intros p Hp. cbn [slots_get]; unfold s_end. destruct (N.leb_spec (s_start s) p); [|lia].
        destruct (N.ltb_spec p (s_start s + s_len s)); [lia|]. reflexivity. }
      intros Hn. left. unfold len in Hn. lia.
    + injection H as <- <- <-. cbn [slots start_off max_recv final_off].
      split.
      { unfold RInv; cbn [slots start_off max_recv final_off slots_ok s_start s_endalloc s_len s_data].
        unfold s_end; cbn [s_start s_len].
        split; [repeat split; auto; try lia; rewrite nlen_ndrop by exact Hlen'; lia|].
        split; [constructor; [unfold s_end; cbn [s_start s_len]; unfold s_end in Hm1; lia|exact Hm2]|].
        unfold s_end in Hm1. repeat split; auto; lia. }
      split; [symmetry; apply nlen_ntake; exact Hlen'|]. split; [unfold len; lia|]. split; [reflexivity|]. split.
      { intros i Hi. cbn [slots_get]; unfold s_end. rewrite <- Hs.
        destruct (N.leb_spec (s_start s) (s_start s + i)); [|lia].
        destruct (N.ltb_spec (s_start s + i) (s_start s + s_len s)); [|lia]. cbn [andb].
        replace (s_start s + i - s_start s) with i by lia. unfold ntake.
        rewrite nth_error_firstn_lt by lia. split; [reflexivity|].
        apply nth_error_Some. rewrite nlen_length in H3. lia. }
      split.
      { intros p Hp. cbn [slots_get s_start s_len s_data]. unfold s_end; cbn [s_start s_len].
        rewrite <- Hs in Hp.
        destruct (N.leb_spec (s_start s + len) p); [|lia].
        destruct (N.leb_spec (s_start s) p); [|lia]. cbn [andb].
        replace (s_start s + len + (s_len s - len)) with (s_start s + s_len s) by lia.
        destruct (N.ltb_spec p (s_start s + s_len s)); [|reflexivity].
        unfold ndrop. rewrite nth_error_skipn_add. f_equal. lia. }
      intros Hn. left. unfold len in Hn. lia.
Qed.

(* skip: the slots below the new start offset go, the one containing it is trimmed, the bytes at and above
   it are untouched *)
Lemma skip_slots_correct : forall sl lo c m, slots_ok lo sl -> lo <= c -> Forall (fun s => s_end s <= m) sl ->
  slots_ok c (skip_slots sl c)
  /\ Forall (fun s => s_end s <= N.max m c) (skip_slots sl c)
  /\ (forall p, c <= p -> slots_get (skip_slots sl c) p = slots_get sl p).
Proof.
  induction sl as [|s t IH]; intros lo c m Hok Hlo Hm; cbn [skip_slots].
  { repeat split; auto. }
  cbn [slots_ok] in Hok. destruct Hok as (H1 & H2 & H3 & H4 & H5).
  inversion Hm as [|? ? Hm1 Hm2]; subst. unfold s_end in *.
  destruct (N.ltb_spec (s_endalloc s) c) as [Hc|Hc].
  { destruct (IH (s_endalloc s) c m H5 ltac:(lia) Hm2) as (K1 & K2 & K3).
    split; [exact K1|]. split; [exact K2|]. intros p Hp. rewrite K3 by exact Hp.
    cbn [slots_get]; unfold s_end. destruct (N.ltb_spec p (s_start s + s_len s)); [lia|].
    rewrite andb_false_r. reflexivity. }
  assert (Hm2' : Forall (fun s0 => s_start s0 + s_len s0 <= N.max m c) t).
  { eapply Forall_impl; [|exact Hm2]. cbn. intros; lia. }
  unfold slot_skip_until. destruct (N.leb_spec (s_start s) c) as [Hs|Hs].
  - unfold s_should_drop; cbn [s_start s_endalloc].
    replace (s_start s + (c - s_start s)) with c by lia.
    destruct (N.eqb_spec c (s_endalloc s)) as [Hd|Hd].
    + split; [rewrite Hd; exact H5|]. split; [exact Hm2'|]. intros p Hp.
      cbn [slots_get]; unfold s_end. destruct (N.ltb_spec p (s_start s + s_len s)); [lia|].
      rewrite andb_false_r. reflexivity.
    + assert (Hn : nlen (ndrop (N.min (c - s_start s) (s_len s)) (s_data s)) = s_len s - (c - s_start s)).
      { rewrite nlen_ndrop by lia. lia. }
      split.
      { cbn [slots_ok s_start s_endalloc s_len s_data]. unfold s_end; cbn [s_start s_len].
        repeat split; auto; try lia. }
      split.
      { constructor; [cbn [s_start s_len]; lia|exact Hm2']. }
      intros p Hp. cbn [slots_get s_start s_len s_data]. unfold s_end; cbn [s_start s_len].
      destruct (N.leb_spec c p); [|lia]. destruct (N.leb_spec (s_start s) p); [|lia]. cbn [andb].
      destruct (N.ltb_spec p (c + (s_len s - (c - s_start s)))) as [Hp1|Hp1];
        destruct (N.ltb_spec p (s_start s + s_len s)) as [Hp2|Hp2]; try lia; try reflexivity.
      unfold ndrop. rewrite nth_error_skipn_add. f_equal. lia.
  - unfold s_should_drop. destruct (N.eqb_spec (s_start s) (s_endalloc s)); [lia|].
    split; [cbn [slots_ok]; unfold s_end; repeat split; auto; lia|].
    split; [constructor; [lia|exact Hm2']|]. intros p Hp. reflexivity.
Qed.

Lemma rskip_correct : forall st n st' c, RInv st -> rskip st n = (st', c) ->
  RInv st' /\ (c <> 0%Z -> st' = st)
  /\ (forall p, start_off st' <= p -> slots_get (slots st') p = slots_get (slots st) p).
Proof.
  intros st n st' c (Hok & Hmax & Hsm & Hmf & Hmv) H. unfold rskip in H.
  assert (Hinv : RInv st) by (unfold RInv; auto).
  destruct (N.eqb_spec n 0). { injection H as <- <-. split; [exact Hinv|]. split; [intros X; now contradiction X|auto]. }
  destruct (N.ltb_spec varint_max (start_off st + n)). { injection H as <- <-. split; [exact Hinv|]. split; auto. }
  destruct (match final_size st with Some f => f <? start_off st + n | None => false end) eqn:Ef.
  { injection H as <- <-. split; [exact Hinv|]. split; auto. }
  injection H as <- <-. cbn [slots start_off max_recv final_off].
  destruct (skip_slots_correct (slots st) (start_off st) (start_off st + n) (max_recv st) Hok ltac:(lia) Hmax)
    as (K1 & K2 & K3).
  split; [|split; [intros X; now contradiction X|exact K3]].
  unfold RInv; cbn [slots start_off max_recv final_off]. split; [exact K1|]. split; [exact K2|].
  split; [lia|]. split; [|lia].
  unfold final_size in Ef. destruct (N.eqb_spec (final_off st) unknown_final_size) as [E|E].
  - rewrite E. pose proof unknown_gt_varint. lia.
  - destruct (N.ltb_spec (final_off st) (start_off st + n)); [discriminate|]. lia.
Qed.

(* the read side as a whole: pop, skip and reset keep RInv *)
Lemma read_side_inv : forall st o, RInv st -> (match o with Write _ => False | _ => True end) -> RInv (fst (rstep st o)).
Proof.
  intros st o Hinv Ho. destruct o as [w|wm|n|]; [contradiction| | |]; cbn [rstep].
  - destruct (rpop st wm) as [[st' n] chunk] eqn:E. cbn [fst]. eapply rpop_correct; eauto.
  - destruct (rskip st n) as [st' c] eqn:E. cbn [fst]. eapply rskip_correct; eauto.
  - cbn [fst]. apply RInv_init.
Qed.

(* ------------------------------------------------------------------------------------------ *)
(* write side, one slot: Slot::try_write_reader keeps the slot well formed, splits the allocation
   exactly at the reader's offset, never moves the reader's end and never overwrites data *)
Definition slot_ok (s : slot) : Prop :=
  s_start s < s_endalloc s /\ s_len s = nlen (s_data s) /\ s_end s <= s_endalloc s.
Definition reader_ok (r : reader) : Prop := r_len r = nlen (r_data r).
Definition rd_get (r : reader) (p : N) : option N :=
  if r_off r <=? p then nth_error (r_data r) (N.to_nat (p - r_off r)) else None.

Lemma rd_advance_ok : forall r k, reader_ok r -> k <= r_len r ->
  reader_ok (rd_advance r k) /\ r_off (rd_advance r k) = r_off r + k /\ r_len (rd_advance r k) = r_len r - k
  /\ (forall p, r_off r + k <= p -> rd_get (rd_advance r k) p = rd_get r p).
Proof.
  intros r k Hr Hk. unfold reader_ok in *. unfold rd_advance; cbn [r_off r_len r_data].
  split; [rewrite nlen_ndrop by lia; lia|]. split; [reflexivity|]. split; [reflexivity|].
  intros p Hp. unfold rd_get; cbn [r_off r_data].
  destruct (N.leb_spec (r_off r + k) p); [|lia]. destruct (N.leb_spec (r_off r) p); [|lia].
  unfold ndrop. rewrite nth_error_skipn_add. f_equal. lia.
Qed.

Lemma rd_skip_until_ok : forall r o, reader_ok r ->
  reader_ok (rd_skip_until r o) /\ r_off r <= r_off (rd_skip_until r o)
  /\ r_off (rd_skip_until r o) + r_len (rd_skip_until r o) = r_off r + r_len r
  /\ (r_len (rd_skip_until r o) = 0 \/ o <= r_off (rd_skip_until r o))
  /\ (r_off (rd_skip_until r o) <= N.max o (r_off r))
  /\ (forall p, r_off (rd_skip_until r o) <= p -> rd_get (rd_skip_until r o) p = rd_get r p).
Proof.
  intros r o Hr. unfold rd_skip_until. destruct (N.ltb_spec (r_off r) o) as [H|H].
  - destruct (rd_advance_ok r (N.min (o - r_off r) (r_len r)) Hr ltac:(lia)) as (K1 & K2 & K3 & K4).
    rewrite K2, K3. repeat split; auto; try lia.
  - repeat split; auto; lia.
Qed.

Lemma try_write_shape : forall s r s1 r1 fo fl, slot_ok s -> reader_ok r -> try_write s r = (s1, r1, fo, fl) ->
  reader_ok r1 /\ r_off r <= r_off r1 /\ r_off r1 + r_len r1 = r_off r + r_len r
  /\ (forall p, r_off r1 <= p -> rd_get r1 p = rd_get r p)
  /\ slot_ok s1 /\ s_start s1 = s_start s
  /\ (forall p, p < s_end s -> slots_get [s1] p = slots_get [s] p)          (* nothing is overwritten *)
  /\ match fo with
     | None => s_endalloc s1 = s_endalloc s
     | Some f => slot_ok f /\ s_start f = s_endalloc s1 /\ s_endalloc f = s_endalloc s /\ 0 < s_len f
                 /\ s_end s < s_start f                                       (* split strictly after the data *)
     end.
Proof.
  intros s r s1 r1 fo fl (Hs1 & Hs2 & Hs3) Hr H. unfold try_write in H. unfold s_end in *.
  assert (Hsok : slot_ok s) by (unfold slot_ok, s_end; auto).
  destruct (N.ltb_spec (s_start s + s_len s) (s_endalloc s)) as [He|He].
  2:{ destruct (rd_skip_until_ok r (s_endalloc s) Hr) as (K1 & K2 & K3 & K4 & K5 & K6).
      injection H as <- <- <- <-. repeat split; auto. }
  destruct (rd_skip_until_ok r (s_start s + s_len s) Hr) as (K1 & K2 & K3 & K4 & K5 & K6).
  set (r0 := rd_skip_until r (s_start s + s_len s)) in *.
  unfold r_empty in H. destruct (N.eqb_spec (r_len r0) 0) as [Hz|Hz].
  { injection H as <- <- <- <-. repeat split; auto. }
  destruct (N.leb_spec (s_endalloc s) (r_off r0)) as [Hb|Hb].
  { injection H as <- <- <- <-. repeat split; auto. }
  destruct (N.eqb_spec (r_off r0) (s_start s + s_len s)) as [Ha|Ha].
  - (* append *)
    set (n := N.min (r_len r0) (s_endalloc s - (s_start s + s_len s))) in H.
    destruct (rd_advance_ok r0 n K1 ltac:(unfold n; lia)) as (A1 & A2 & A3 & A4).
    injection H as <- <- <- <-.
    split; [exact A1|]. split; [lia|]. split; [lia|].
    split; [intros p Hp; rewrite A4 by lia; apply K6; lia|].
    assert (Hn : nlen (ntake n (r_data r0)) = n) by (apply nlen_ntake; unfold reader_ok in K1; unfold n; lia).
    split.
    { unfold slot_ok, s_end; cbn [s_start s_endalloc s_len s_data]. split; [exact Hs1|]. split.
      - rewrite !nlen_length, app_length in *. lia.
      - unfold n. lia. }
    split; [reflexivity|]. split; [|reflexivity].
    intros p Hp. cbn [slots_get s_start s_len s_data]. unfold s_end; cbn [s_start s_len].
    destruct (N.leb_spec (s_start s) p); cbn [andb]; [|reflexivity].
    destruct (N.ltb_spec p (s_start s + (s_len s + n))); [|lia].
    destruct (N.ltb_spec p (s_start s + s_len s)); [|lia].
    rewrite nth_error_app1; [reflexivity|]. rewrite nlen_length in Hs2. lia.
  - (* split *)
    assert (Hgt : s_start s + s_len s < r_off r0) by lia.
    set (n := N.min (r_len r0) (s_endalloc s - r_off r0)) in H.
    destruct (rd_advance_ok r0 n K1 ltac:(unfold n; lia)) as (A1 & A2 & A3 & A4).
    injection H as <- <- <- <-.
    split; [exact A1|]. split; [lia|]. split; [lia|].
    split; [intros p Hp; rewrite A4 by lia; apply K6; lia|].
    assert (Hn : nlen (ntake n (r_data r0)) = n) by (apply nlen_ntake; unfold reader_ok in K1; unfold n; lia).
    split; [unfold slot_ok, s_end; cbn [s_start s_endalloc s_len s_data]; repeat split; auto; lia|].
    split; [reflexivity|]. split.
    { intros p Hp. cbn [slots_get s_start s_len s_data]. unfold s_end; cbn [s_start s_len]. reflexivity. }
    unfold slot_ok, s_end; cbn [s_start s_endalloc s_len s_data]. repeat split; auto; try lia; unfold n; lia.
Qed.

(* ... and what it stores is the reader's bytes at their own positions: no displacement, no alteration *)
Lemma try_write_content : forall s r s1 r1 fo fl, slot_ok s -> reader_ok r -> try_write s r = (s1, r1, fo, fl) ->
  forall p, s_end s <= p -> r_off r <= p -> p < r_off r1 -> p < s_endalloc s ->
  slots_get (s1 :: match fo with Some f => [f] | None => [] end) p = rd_get r p /\ rd_get r p <> None.
Proof.
  intros s r s1 r1 fo fl (Hs1 & Hs2 & Hs3) Hr H p Hp1 Hp2 Hp3 Hp4. unfold try_write in H. unfold s_end in *.
  destruct (N.ltb_spec (s_start s + s_len s) (s_endalloc s)) as [He|He]; [|lia].
  destruct (rd_skip_until_ok r (s_start s + s_len s) Hr) as (K1 & K2 & K3 & K4 & K5 & K6).
  set (r0 := rd_skip_until r (s_start s + s_len s)) in *.
  unfold r_empty in H. destruct (N.eqb_spec (r_len r0) 0) as [Hz|Hz].
  { injection H as <- <- <- <-. lia. }
  destruct K4 as [K4|K4]; [contradiction|].
  destruct (N.leb_spec (s_endalloc s) (r_off r0)) as [Hb|Hb].
  { injection H as <- <- <- <-. lia. }
  assert (Hin : forall q, r_off r0 <= q -> q < r_off r0 + r_len r0 -> rd_get r0 q <> None).
  { intros q Hq1 Hq2. unfold rd_get. destruct (N.leb_spec (r_off r0) q); [|lia].
    apply nth_error_Some. unfold reader_ok in K1. rewrite nlen_length in K1. lia. }
  destruct (N.eqb_spec (r_off r0) (s_start s + s_len s)) as [Ha|Ha].
  - set (n := N.min (r_len r0) (s_endalloc s - (s_start s + s_len s))) in H.
    destruct (rd_advance_ok r0 n K1 ltac:(unfold n; lia)) as (A1 & A2 & A3 & A4).
    injection H as <- <- <- <-. rewrite A2 in Hp3.
    rewrite <- K6 by lia. split; [|apply Hin; lia].
    cbn [slots_get s_start s_len s_data]. unfold s_end; cbn [s_start s_len].
    destruct (N.leb_spec (s_start s) p); [|lia]. destruct (N.ltb_spec p (s_start s + (s_len s + n))); [|lia].
    cbn [andb]. rewrite nth_error_app2 by (rewrite nlen_length in Hs2; lia).
    unfold ntake. rewrite nth_error_firstn_lt by (rewrite nlen_length in Hs2; lia).
    unfold rd_get. destruct (N.leb_spec (r_off r0) p); [|lia]. f_equal. rewrite nlen_length in Hs2. lia.
  - set (n := N.min (r_len r0) (s_endalloc s - r_off r0)) in H.
    destruct (rd_advance_ok r0 n K1 ltac:(unfold n; lia)) as (A1 & A2 & A3 & A4).
    injection H as <- <- <- <-. rewrite A2 in Hp3.
    assert (Hoff : r_off r0 = r_off r) by lia.
    rewrite <- K6 by lia. split; [|apply Hin; lia].
    cbn [slots_get s_start s_len s_data]. unfold s_end; cbn [s_start s_len].
    destruct (N.ltb_spec p (s_start s + s_len s)); [lia|]. rewrite andb_false_r.
    destruct (N.leb_spec (r_off r0) p); [|lia]. destruct (N.ltb_spec p (r_off r0 + n)); [|lia]. cbn [andb].
    unfold ntake. rewrite nth_error_firstn_lt by lia.
    unfold rd_get. destruct (N.leb_spec (r_off r0) p); [|lia]. reflexivity.
Qed.
