(* Proofs about the IntervalSet model (C16), part 4: insert / remove from any valid start index,
   the public operations, and union / difference with the running index. *)
From SQ Require Import lib.Base lib.ListX gen.Gen_C16 model.IntervalSet.
From SQ Require Import proofs.IntervalSetProofs proofs.IntervalSetRemove proofs.IntervalSetSearch.
Local Open Scope N_scope.

Lemma wf_app_inv : forall emax (p q : list ival), iswf emax (p ++ q) ->
  iswf emax q /\ (forall b, In b p -> fst b <= snd b).
Proof.
  intros emax. induction p as [|h p IH]; intros q H; cbn [app] in H.
  - split; [assumption|intros ? []].
  - cbn [iswf] in H. destruct H as (H1 & _ & _ & H4). destruct (IH q H4) as [W V].
    split; [assumption|]. intros b [<-|Hb]; auto.
Qed.

Lemma ref_ins_prefix : forall (p q : list ival) a1 a2, a1 <= a2 ->
  (forall b, In b p -> fst b <= snd b) -> (forall b, In b p -> snd b + 1 < a1) ->
  ref_ins a1 a2 (p ++ q) = p ++ ref_ins a1 a2 q.
Proof.
  induction p as [|[c d] p IH]; intros q a1 a2 Ha Hv Hp; [reflexivity|].
  cbn [app ref_ins]. pose proof (Hv _ (or_introl eq_refl)) as H1. pose proof (Hp _ (or_introl eq_refl)) as H2.
  cbn [fst snd] in *. destruct (N.ltb_spec (a2 + 1) c); [lia|]. destruct (N.ltb_spec (d + 1) a1); [|lia].
  f_equal. apply IH; [assumption|intros; apply Hv; right; assumption|intros; apply Hp; right; assumption].
Qed.

Lemma ref_rem_prefix : forall (p q : list ival) a1 a2,
  (forall b, In b p -> snd b < a1) -> ref_rem a1 a2 (p ++ q) = p ++ ref_rem a1 a2 q.
Proof.
  induction p as [|[c d] p IH]; intros q a1 a2 Hp; [reflexivity|].
  cbn [app ref_rem]. pose proof (Hp _ (or_introl eq_refl)) as H2. cbn [snd] in H2.
  destruct (N.ltb_spec d a1); [|lia]. f_equal. apply IH. intros; apply Hp; right; assumption.
Qed.

(* where the scan of insert stops: everything before the returned slot ends at or below a.end *)
Lemma iscan_idx : forall emax q k a1 a2, iswf emax q -> a1 <= a2 -> a2 <= emax ->
  k + N.of_nat (length q) < usize_max ->
  match iscan emax q k (a1, a2) usize_max 0 with
  | IFound idx => k <= idx /\ idx <= k + N.of_nat (length q) /\
                  forall b, In b (firstn (N.to_nat (idx - k)) q) -> snd b <= a2
  | IDone a' rs re => (rs = usize_max -> forall b, In b q -> snd b <= a2) /\
                      (rs <= k + N.of_nat (length q) -> forall b, In b (firstn (N.to_nat (rs - k)) q) -> snd b <= a2)
  end.
Proof.
  intros emax. induction q as [|b t IH]; intros k a1 a2 Hwf Ha Hae Hk.
  - cbn [iscan]. split; [intros _ ? []|]. intros _. replace (N.to_nat (usize_max - k)) with (N.to_nat (usize_max - k)) by reflexivity. cbn [firstn]. destruct (N.to_nat (usize_max - k)); intros ? [].
  - pose proof (wf_after _ _ _ Hwf) as Haft.
    pose proof Hwf as Hwf0. cbn [iswf] in Hwf. destruct Hwf as (Hbv & Hbm & Hgap & Hwft).
    destruct b as [c d]. cbn [fst snd length] in *.
    assert (Hmin : N.min usize_max k = k) by lia.
    assert (Hmax1 : N.max 0 (k + 1) = k + 1) by lia.
    assert (Hk0 : forall (x : list ival), firstn (N.to_nat (k - k)) x = []) by (intros; replace (N.to_nat (k - k)) with 0%nat by lia; reflexivity).
    assert (Htouched : forall a1', a1' <= a2 -> (forall b', In b' t -> a1' < fst b') ->
              match iscan emax t (k + 1) (a1', a2) k (k + 1) with
              | IFound _ => False
              | IDone a' rs re => rs = k
              end).
    { intros a1' Ha' Hl. destruct (iscan_touched emax t (k + 1) a1' a2 k Hwft ltac:(lia) Hl Ha') as (a' & re' & E & _).
      rewrite E. reflexivity. }
    cbn [iscan fst snd].
    destruct (N.compare_spec a1 c) as [E1|L1|G1]; destruct (N.compare_spec a2 d) as [E2|L2|G2].
    + subst a1 a2. split; [lia|]. split; [lia|]. replace (N.to_nat (k + 1 - k)) with 1%nat by lia.
      cbn [firstn]. intros ? [<-|[]]. cbn [snd]. lia.
    + split; [lia|]. split; [lia|]. rewrite Hk0. intros ? [].
    + rewrite Hmin, Hmax1. specialize (Htouched a1 Ha). 
      destruct (iscan emax t (k + 1) (a1, a2) k (k + 1)); [exfalso; apply Htouched; intros b' Hb'; pose proof (Haft b' Hb'); lia|].
      rewrite Htouched by (intros b' Hb'; pose proof (Haft b' Hb'); lia).
      split; [lia|]. intros _. rewrite Hk0. intros ? [].
    + rewrite Hmin. split; [lia|]. intros _. rewrite Hk0. intros ? [].
    + destruct (should_coalesce emax (c, d) (a1, a2)); rewrite Hmin; (split; [lia|]); intros _; rewrite Hk0; intros ? [].
    + rewrite Hmin, Hmax1. specialize (Htouched a1 Ha).
      destruct (iscan emax t (k + 1) (a1, a2) k (k + 1)); [exfalso; apply Htouched; intros b' Hb'; pose proof (Haft b' Hb'); lia|].
      rewrite Htouched by (intros b' Hb'; pose proof (Haft b' Hb'); lia).
      split; [lia|]. intros _. rewrite Hk0. intros ? [].
    + subst a2. split; [lia|]. split; [lia|]. replace (N.to_nat (k + 1 - k)) with 1%nat by lia.
      cbn [firstn]. intros ? [<-|[]]. cbn [snd]. lia.
    + split; [lia|]. split; [lia|]. rewrite Hk0. intros ? [].
    + rewrite coalesce_lt by (cbn [snd]; lia). cbn [fst snd].
      destruct (N.leb_spec a1 (d + 1)) as [Hco|Hno].
      * rewrite Hmin, Hmax1. specialize (Htouched c ltac:(lia)).
        destruct (iscan emax t (k + 1) (c, a2) k (k + 1)); [exfalso; apply Htouched; intros b' Hb'; pose proof (Haft b' Hb'); lia|].
        rewrite Htouched by (intros b' Hb'; pose proof (Haft b' Hb'); lia).
        split; [lia|]. intros _. rewrite Hk0. intros ? [].
      * specialize (IH (k + 1) a1 a2 Hwft Ha Hae ltac:(lia)).
        destruct (iscan emax t (k + 1) (a1, a2) usize_max 0) as [idx|a' rs re].
        -- destruct IH as (I1 & I2 & I3). split; [lia|]. split; [lia|].
           replace (N.to_nat (idx - k)) with (S (N.to_nat (idx - (k + 1)))) by lia. cbn [firstn].
           intros b' [<-|Hb']; [cbn [snd]; lia|auto].
        -- destruct IH as (I1 & I2). split.
           ++ intros Hr b' [<-|Hb']; [cbn [snd]; lia|auto].
           ++ intros Hr. destruct (N.le_gt_cases rs k) as [Hle|Hgt].
              ** replace (N.to_nat (rs - k)) with 0%nat by lia. intros ? [].
              ** replace (N.to_nat (rs - k)) with (S (N.to_nat (rs - (k + 1)))) by lia. cbn [firstn].
                 intros b' [<-|Hb']; [cbn [snd]; lia|apply I2; [lia|assumption]].
Qed.

Lemma in_firstn_app : forall (p x : list ival) n b, In b (firstn n (p ++ x)) ->
  In b p \/ In b (firstn (n - length p) x).
Proof.
  intros p x n b H. rewrite firstn_app in H. apply in_app_or in H. destruct H as [H|H]; [left|right; assumption].
  eapply (In_nth _ _ (0,0)) in H. destruct H as (i & Hi & <-). rewrite firstn_length in Hi.
  apply Nat.min_glb_lt_iff in Hi. destruct Hi as [Hi1 Hi2].
  rewrite nth_firstn_lt by exact Hi1. apply nth_In. exact Hi2.
Qed.

(* insert::insert from any slot such that everything before it lies strictly (and not adjacently) below a *)
Lemma insert_at_gen : forall emax l a1 a2 si lim, iswf emax l -> a1 <= a2 -> a2 <= emax ->
  N.of_nat (length l) < usize_max -> si <= N.of_nat (length l) ->
  (forall b, In b (firstn (N.to_nat si) l) -> snd b + 1 < a1) ->
  match insert_at emax l (a1, a2) si lim with
  | Some (l', idx) => l' = ref_ins a1 a2 l /\
      ((length l < length (ref_ins a1 a2 l))%nat -> under_limit lim (N.of_nat (length l)) = true) /\
      idx <= N.of_nat (length l') /\
      (forall b, In b (firstn (N.to_nat idx) l') -> snd b <= a2)
  | None => (length l < length (ref_ins a1 a2 l))%nat /\ under_limit lim (N.of_nat (length l)) = false
  end.
Proof.
  intros emax l a1 a2 si lim Hwf Ha Hae Hlen Hsi Hpre. unfold insert_at.
  set (p := firstn (N.to_nat si) l) in *. set (q := skipn (N.to_nat si) l).
  assert (El : l = p ++ q) by (symmetry; apply firstn_skipn).
  assert (Hp : N.of_nat (length p) = si) by (unfold p; rewrite firstn_length; lia).
  assert (Hlq : N.of_nat (length l) = si + N.of_nat (length q)) by (rewrite El at 1; rewrite app_length; lia).
  rewrite El in Hwf. destruct (wf_app_inv _ _ _ Hwf) as [Hwq Hvp].
  assert (Eref : ref_ins a1 a2 l = p ++ ref_ins a1 a2 q) by (rewrite El at 1; apply ref_ins_prefix; assumption).
  assert (Hple : forall b, In b p -> snd b <= a2) by (intros b Hb; specialize (Hpre b Hb); lia).
  pose proof (iscan_untouched emax q si a1 a2 Hwq Ha Hae ltac:(lia)) as H.
  pose proof (iscan_idx emax q si a1 a2 Hwq Ha Hae ltac:(lia)) as Hi.
  destruct (iscan emax q si (a1, a2) usize_max 0) as [idx|a' rs re].
  - destruct Hi as (I1 & I2 & I3). rewrite Eref, H. split; [exact El|]. split; [rewrite <- El; lia|]. split; [lia|].
    intros b Hb. rewrite El in Hb. apply in_firstn_app in Hb. destruct Hb as [Hb|Hb]; [auto|].
    apply I3. replace (N.to_nat (idx - si)) with (N.to_nat idx - length p)%nat by lia. assumption.
  - unfold iapply. destruct Hi as [Hi1 Hi2]. destruct H as [(-> & -> & E)|(H1 & H2 & H3 & E)].
    + change (0 <? usize_max) with true. cbn iota.
      assert (Hl : length (ref_ins a1 a2 l) = S (length l)).
      { rewrite Eref, E, El, !app_length. cbn [length]. lia. }
      destruct (under_limit lim (N.of_nat (length l))) eqn:Eu.
      * split; [rewrite Eref, E, El, app_assoc; reflexivity|]. split; [auto|]. split; [rewrite app_length; lia|].
        rewrite Nat2N.id. intros b Hb. rewrite firstn_app, firstn_all, Nat.sub_diag in Hb. cbn [firstn] in Hb.
        rewrite app_nil_r in Hb. rewrite El in Hb. apply in_app_or in Hb. destruct Hb; auto.
      * split; [lia|reflexivity].
    + destruct (N.ltb_spec re rs); [lia|].
      assert (Efn : firstn (N.to_nat rs) l = p ++ firstn (N.to_nat (rs - si)) q).
      { rewrite El. replace (N.to_nat rs) with (length p + N.to_nat (rs - si))%nat by lia. apply firstn_app_len. }
      assert (Esk : forall re', rs <= re' -> re' <= si + N.of_nat (length q) ->
                 skipn (N.to_nat re') l = skipn (N.to_nat (re' - si)) q).
      { intros re' ? ?. rewrite El. replace (N.to_nat re') with (length p + N.to_nat (re' - si))%nat by lia. apply skipn_app_len. }
      assert (Eres : firstn (N.to_nat rs) l ++ a' :: skipn (N.to_nat re) l = ref_ins a1 a2 l).
      { rewrite Eref, E, Efn, Esk by lia. rewrite <- app_assoc. reflexivity. }
      assert (Hl : length (ref_ins a1 a2 l) = (N.to_nat rs + 1 + (length l - N.to_nat re))%nat).
      { rewrite <- Eres. apply len_splice; lia. }
      assert (Hidx : forall b, In b (firstn (N.to_nat rs) (ref_ins a1 a2 l)) -> snd b <= a2).
      { intros b Hb. rewrite <- Eres in Hb. rewrite firstn_app in Hb.
        rewrite firstn_length in Hb. replace (N.to_nat rs - Nat.min (N.to_nat rs) (length l))%nat with 0%nat in Hb by lia.
        cbn [firstn] in Hb. rewrite app_nil_r, firstn_firstn, Nat.min_id, Efn in Hb.
        apply in_app_or in Hb. destruct Hb as [Hb|Hb]; [auto|]. apply Hi2; [lia|assumption]. }
      destruct (N.eqb_spec (re - rs) 0) as [E0|E0].
      * assert (re = rs) by lia. subst re.
        destruct (under_limit lim (N.of_nat (length l))) eqn:Eu.
        -- split; [exact Eres|]. split; [auto|]. split; [rewrite Eres, Hl; lia|]. rewrite Eres. exact Hidx.
        -- split; [lia|reflexivity].
      * destruct (N.eqb_spec (re - rs) 1) as [E1|E1].
        { replace (N.to_nat rs + 1)%nat with (N.to_nat re) by lia. split; [exact Eres|]. split; [lia|]. split; [rewrite Eres, Hl; lia|]. rewrite Eres. exact Hidx. }
        destruct (N.eqb_spec (re - rs) 2) as [E2|E2].
        { replace (N.to_nat rs + 2)%nat with (N.to_nat re) by lia. split; [exact Eres|]. split; [lia|]. split; [rewrite Eres, Hl; lia|]. rewrite Eres. exact Hidx. }
        split; [exact Eres|]. split; [lia|]. split; [rewrite Eres, Hl; lia|]. rewrite Eres. exact Hidx.
Qed.

Lemma remove_at_gen : forall emax l a1 a2 si lim, iswf emax l -> a1 <= a2 -> a2 <= emax ->
  N.of_nat (length l) < usize_max -> si <= N.of_nat (length l) ->
  (forall b, In b (firstn (N.to_nat si) l) -> snd b < a1) ->
  let cp := match lim with Some lim => N.of_nat (length l) + 1 <? lim | None => true end in
  match remove_at emax l (a1, a2) si lim with
  | Some (l', idx) => l' = ref_rem a1 a2 l /\
      ((length l < length (ref_rem a1 a2 l))%nat -> cp = true) /\
      idx <= N.of_nat (length l') /\
      (forall b, In b (firstn (N.to_nat idx) l') -> snd b <= a2)
  | None => (length l < length (ref_rem a1 a2 l))%nat /\ cp = false
  end.
Proof.
  intros emax l a1 a2 si lim Hwf Ha Hae Hlen Hsi Hpre cp. rewrite remove_at_unfold. cbn zeta. fold cp.
  set (p := firstn (N.to_nat si) l) in *. set (q := skipn (N.to_nat si) l).
  assert (El : l = p ++ q) by (symmetry; apply firstn_skipn).
  assert (Hp : N.of_nat (length p) = si) by (unfold p; rewrite firstn_length; lia).
  assert (Hlq : N.of_nat (length l) = si + N.of_nat (length q)) by (rewrite El at 1; rewrite app_length; lia).
  rewrite El in Hwf. destruct (wf_app_inv _ _ _ Hwf) as [Hwq Hvp].
  assert (Eref : ref_rem a1 a2 l = p ++ ref_rem a1 a2 q) by (rewrite El at 1; apply ref_rem_prefix; assumption).
  pose proof (rscan_main emax cp q si p a1 a2 Hp Hwq Ha Hae ltac:(lia)) as H.
  destruct (apply_rm (p ++ fst (rscan emax q si (a1, a2) usize_max 0 cp)) (snd (rscan emax q si (a1, a2) usize_max 0 cp)) cp) as [[res idx]|].
  - destruct H as (Hres & Hidx & Hcp). rewrite Eref. split; [exact Hres|]. split.
    + intros Hl. apply Hcp. rewrite El, !app_length in Hl. lia.
    + destruct Hidx as [->|(Hb0 & r & Hr & Hr')]; [split; [lia|intros ? []]|]. split; [exact Hb0|]. rewrite Hr. intros b Hb.
      apply in_app_or in Hb. destruct Hb as [Hb|Hb]; [specialize (Hpre b Hb); lia|auto].
  - destruct H as [H1 H2]. split; [|exact H2]. rewrite Eref, El, !app_length. lia.
Qed.

(* ---------- the public operations equal the reference operations ---------- *)
Theorem insert_refines : forall emax s a b, iswf emax (intervals s) -> b <= emax ->
  N.of_nat (length (intervals s)) < usize_max -> lim_ok s ->
  insert emax s a b = ref_insert s a b.
Proof.
  intros emax s a b Hwf Hb Hlen Hlim. unfold insert, ref_insert.
  destruct (N.ltb_spec b a) as [|Hab]; [reflexivity|].
  destruct (intervals s) as [|i0 l0] eqn:El.
  - cbn [ref_ins length]. change (0 <? 1)%nat with true. cbn [andb].
    change ((0 =? 0)%nat) with true. cbn [negb]. rewrite andb_false_r. reflexivity.
  - rewrite <- El in *. assert (Hne : intervals s <> []) by (rewrite El; discriminate).
    destruct (index_for_spec emax (intervals s) (a, b) Hwf Hne) as [Hi Hp]. cbn [fst] in Hp.
    pose proof (insert_at_gen emax (intervals s) a b (index_for (intervals s) (a, b)) (limit s) Hwf Hab Hb Hlen Hi Hp) as H.
    assert (Hnz : (length (intervals s) =? 0)%nat = false) by (rewrite El; reflexivity).
    rewrite Hnz. cbn [negb]. rewrite andb_true_r.
    destruct (insert_at emax (intervals s) (a, b) _ (limit s)) as [[l' idx]|].
    + destruct H as (-> & Hu & _).
      destruct (Nat.ltb_spec (length (intervals s)) (length (ref_ins a b (intervals s)))) as [Hg|Hg].
      * rewrite (Hu Hg). reflexivity.
      * reflexivity.
    + destruct H as [Hg Hu]. rewrite Hu. apply Nat.ltb_lt in Hg. rewrite Hg. reflexivity.
Qed.

Theorem remove_refines : forall emax s a b, iswf emax (intervals s) -> b <= emax ->
  N.of_nat (length (intervals s)) < usize_max ->
  remove emax s a b = ref_remove s a b.
Proof.
  intros emax s a b Hwf Hb Hlen. unfold remove, ref_remove.
  destruct (N.ltb_spec b a) as [|Hab]; [reflexivity|].
  destruct (intervals s) as [|i0 l0] eqn:El.
  - cbn [ref_rem length]. change (0 <? 0)%nat with false. cbn [andb]. destruct s as [lim l]. cbn in El. subst l. reflexivity.
  - rewrite <- El in *. assert (Hne : intervals s <> []) by (rewrite El; discriminate).
    destruct (index_for_spec emax (intervals s) (a, b) Hwf Hne) as [Hi Hp]. cbn [fst] in Hp.
    pose proof (remove_at_gen emax (intervals s) a b (index_for (intervals s) (a, b)) (limit s) Hwf Hab Hb Hlen Hi) as H.
    cbn zeta in H. specialize (H ltac:(intros b' Hb'; specialize (Hp b' Hb'); lia)).
    destruct (remove_at emax (intervals s) (a, b) _ (limit s)) as [[l' idx]|].
    + destruct H as (-> & Hu & _).
      destruct (Nat.ltb_spec (length (intervals s)) (length (ref_rem a b (intervals s)))) as [Hg|Hg].
      * rewrite (Hu Hg). reflexivity.
      * reflexivity.
    + destruct H as [Hg Hu]. rewrite Hu. apply Nat.ltb_lt in Hg. rewrite Hg. reflexivity.
Qed.

(* ---------- ref_rem keeps the representation invariant ---------- *)
Lemma ref_rem_gap : forall emax l a b lo, iswf emax l -> a <= b -> gap lo l -> gap lo (ref_rem a b l).
Proof.
  intros emax. induction l as [|[c d] t IH]; intros a b lo Hwf Hab Hg; cbn [ref_rem]; [exact I|].
  cbn [iswf fst snd] in Hwf. destruct Hwf as (Hcd & Hd & Hgap & Hwft). cbn [gap fst] in Hg.
  destruct (N.ltb_spec d a); [cbn; assumption|]. destruct (N.ltb_spec b c); [cbn; assumption|].
  destruct (N.ltb_spec c a); [cbn; assumption|]. destruct (N.ltb_spec b d); [cbn; lia|]. cbn [app].
  apply IH; [assumption|assumption|]. destruct t as [|[c' d'] t']; [exact I|]. cbn in Hgap |- *. lia.
Qed.

Lemma ref_rem_wf : forall emax l a b, iswf emax l -> a <= b -> iswf emax (ref_rem a b l).
Proof.
  intros emax. induction l as [|[c d] t IH]; intros a b Hwf Hab; cbn [ref_rem]; [exact I|].
  pose proof Hwf as Hwf0. cbn [iswf fst snd] in Hwf. destruct Hwf as (Hcd & Hd & Hgap & Hwft).
  destruct (N.ltb_spec d a).
  - cbn [iswf fst snd]. repeat split; auto. eapply ref_rem_gap; eassumption.
  - destruct (N.ltb_spec b c); [assumption|].
    assert (Hbey : b < d -> ref_rem a b t = t).
    { intros. eapply ref_rem_beyond; [eassumption|assumption|]. eapply gap_beyond; [eassumption|lia]. }
    assert (Hg2 : forall lo, lo <= d -> gap lo (ref_rem a b t)).
    { intros lo Hlo. eapply ref_rem_gap; [eassumption|assumption|]. destruct t as [|[c' d'] t']; [exact I|]. cbn in Hgap |- *. lia. }
    destruct (N.ltb_spec c a); destruct (N.ltb_spec b d); cbn [app iswf fst snd gap].
    + rewrite Hbey by assumption. repeat split; try lia; assumption.
    + repeat split; try lia; [apply Hg2; lia|apply IH; assumption].
    + rewrite Hbey by assumption. repeat split; try lia; assumption.
    + apply IH; assumption.
Qed.

Lemma ref_rem_length : forall emax l a b, iswf emax l -> a <= b -> (length (ref_rem a b l) <= S (length l))%nat.
Proof.
  intros emax. induction l as [|[c d] t IH]; intros a b Hwf Hab; cbn [ref_rem length]; [lia|].
  cbn [iswf fst snd] in Hwf. destruct Hwf as (Hcd & Hd & Hgap & Hwft).
  destruct (N.ltb_spec d a); [cbn [length]; specialize (IH a b Hwft Hab); lia|].
  destruct (N.ltb_spec b c); [cbn [length]; lia|].
  destruct (N.ltb_spec b d).
  - rewrite (ref_rem_beyond emax t a b Hwft Hab) by (eapply gap_beyond; [eassumption|lia]).
    destruct (c <? a); cbn [app length]; lia.
  - specialize (IH a b Hwft Hab). destruct (c <? a); cbn [app length]; lia.
Qed.

Lemma ref_ins_nonempty : forall l a b, ref_ins a b l <> [].
Proof.
  induction l as [|[c d] t IH]; intros a b; cbn [ref_ins]; [discriminate|].
  destruct (b + 1 <? c); [discriminate|]. destruct (d + 1 <? a); [discriminate|]. apply IH.
Qed.

(* ---------- set_operation: the running index keeps the start-slot precondition ---------- *)
Definition mk (lim : option N) (l : list ival) : iset := {| limit := lim; intervals := l |}.

Lemma next_pre : forall emax (o : ival) rest (l' : list ival) idx, iswf emax (o :: rest) ->
  (forall b, In b (firstn (N.to_nat idx) l') -> snd b <= snd o) ->
  match rest with [] => True | o' :: _ => forall b, In b (firstn (N.to_nat idx) l') -> snd b + 1 < fst o' end.
Proof.
  intros emax o rest l' idx Hwf H. destruct rest as [|o' r]; [exact I|].
  cbn [iswf gap] in Hwf. destruct Hwf as (_ & _ & Hg & _). intros b Hb. specialize (H b Hb). lia.
Qed.

Lemma union_loop : forall emax others l idx lim, iswf emax l -> iswf emax others -> l <> [] ->
  N.of_nat (length l) + N.of_nat (length others) < usize_max -> idx <= N.of_nat (length l) ->
  match others with [] => True | o :: _ => forall b, In b (firstn (N.to_nat idx) l) -> snd b + 1 < fst o end ->
  set_op_loop (insert_at emax) l others idx lim =
  (intervals (fst (ref_fold ref_insert (mk lim l) others)), snd (ref_fold ref_insert (mk lim l) others)).
Proof.
  intros emax. induction others as [|[a b] rest IH]; intros l idx lim Hwf Hwo Hne Hlen Hidx Hpre.
  - reflexivity.
  - pose proof Hwo as Hwo0. cbn [iswf fst snd] in Hwo. destruct Hwo as (Hab & Hb & Hgap & Hwr).
    cbn [length] in Hlen. cbn [set_op_loop ref_fold fst] in *.
    pose proof (insert_at_gen emax l a b idx lim Hwf Hab Hb ltac:(lia) Hidx Hpre) as H.
    unfold ref_insert. cbn [mk intervals limit]. destruct (N.ltb_spec b a); [lia|].
    assert (Hnz : (length l =? 0)%nat = false) by (destruct l; [congruence|reflexivity]).
    rewrite Hnz. cbn [negb]. rewrite andb_true_r.
    destruct (insert_at emax l (a, b) idx lim) as [[l' idx']|].
    + destruct H as (-> & Hu & Hi' & Hpost).
      assert (Hc : (length l <? length (ref_ins a b l))%nat && negb (under_limit lim (N.of_nat (length l))) = false).
      { destruct (Nat.ltb_spec (length l) (length (ref_ins a b l))) as [Hg|Hg]; [rewrite (Hu Hg)|]; reflexivity. }
      rewrite Hc. change (0 =? 0)%Z with true. cbn iota.
      pose proof (ref_ins_length l a b).
      apply IH; try assumption.
      * apply ref_ins_wf; assumption.
      * apply ref_ins_nonempty.
      * lia.
      * apply (next_pre emax (a, b) rest _ idx' Hwo0 Hpost).
    + destruct H as [Hg Hu]. apply Nat.ltb_lt in Hg. rewrite Hg, Hu. reflexivity.
Qed.

Lemma difference_loop : forall emax others l idx lim, iswf emax l -> iswf emax others ->
  N.of_nat (length l) + N.of_nat (length others) < usize_max -> idx <= N.of_nat (length l) ->
  match others with [] => True | o :: _ => forall b, In b (firstn (N.to_nat idx) l) -> snd b + 1 < fst o end ->
  set_op_loop (remove_at emax) l others idx lim =
  (intervals (fst (ref_fold ref_remove (mk lim l) others)), snd (ref_fold ref_remove (mk lim l) others)).
Proof.
  intros emax. induction others as [|[a b] rest IH]; intros l idx lim Hwf Hwo Hlen Hidx Hpre.
  - reflexivity.
  - pose proof Hwo as Hwo0. cbn [iswf fst snd] in Hwo. destruct Hwo as (Hab & Hb & Hgap & Hwr).
    cbn [length] in Hlen. cbn [set_op_loop ref_fold fst] in *.
    pose proof (remove_at_gen emax l a b idx lim Hwf Hab Hb ltac:(lia) Hidx) as H. cbn zeta in H.
    specialize (H ltac:(intros b' Hb'; specialize (Hpre b' Hb'); lia)).
    unfold ref_remove. cbn [mk intervals limit]. destruct (N.ltb_spec b a); [lia|].
    destruct (remove_at emax l (a, b) idx lim) as [[l' idx']|].
    + destruct H as (-> & Hu & Hi' & Hpost).
      assert (Hc : (length l <? length (ref_rem a b l))%nat &&
                   negb (match lim with Some lim0 => N.of_nat (length l) + 1 <? lim0 | None => true end) = false).
      { destruct (Nat.ltb_spec (length l) (length (ref_rem a b l))) as [Hg|Hg]; [rewrite (Hu Hg)|]; reflexivity. }
      rewrite Hc. change (0 =? 0)%Z with true. cbn iota.
      pose proof (ref_rem_length emax l a b Hwf Hab).
      apply IH; try assumption.
      * apply ref_rem_wf; assumption.
      * lia.
      * apply (next_pre emax (a, b) rest _ idx' Hwo0 Hpost).
    + destruct H as [Hg Hu]. apply Nat.ltb_lt in Hg. rewrite Hg, Hu. reflexivity.
Qed.

Theorem union_refines : forall emax s other, iswf emax (intervals s) -> iswf emax other ->
  N.of_nat (length (intervals s)) + N.of_nat (length other) < usize_max ->
  union emax s other = ref_union s other.
Proof.
  intros emax s other Hwf Hwo Hlen. unfold union, ref_union.
  destruct (intervals s) as [|i0 l0] eqn:El; [reflexivity|]. rewrite <- El in *.
  assert (Hne : intervals s <> []) by (rewrite El; discriminate).
  unfold set_operation. destruct other as [|o rest].
  - destruct s; reflexivity.
  - destruct (index_for_spec emax (intervals s) o Hwf Hne) as [Hi Hp].
    rewrite (union_loop emax (o :: rest) (intervals s) _ (limit s) Hwf Hwo Hne Hlen Hi Hp).
    replace (mk (limit s) (intervals s)) with s by (destruct s; reflexivity).
    destruct (ref_fold ref_insert s (o :: rest)) as [s' c] eqn:E. cbn [fst snd]. f_equal.
    assert (Hl : limit s' = limit s).
    { clear -E. revert s s' c E. induction (o :: rest) as [|[a b] r IHr]; intros s s' c E; cbn [ref_fold] in E.
      - injection E as <- <-. reflexivity.
      - destruct (ref_insert s a b) as [s1 c1] eqn:E1.
        assert (limit s1 = limit s).
        { unfold ref_insert in E1. destruct (b <? a); [injection E1 as <- _; reflexivity|].
          destruct (_ && _ && _); injection E1 as <- _; reflexivity. }
        destruct (c1 =? 0)%Z; [rewrite (IHr _ _ _ E); assumption|injection E as <- _; assumption]. }
    destruct s'; cbn in *; subst; reflexivity.
Qed.

Lemma ref_fold_remove_empty : forall emax o lim, iswf emax o ->
  ref_fold ref_remove (mk lim []) o = (mk lim [], 0%Z).
Proof.
  intros emax. induction o as [|[a b] r IHr]; intros lim Hwo; cbn [ref_fold]; [reflexivity|].
  cbn [iswf fst snd] in Hwo. destruct Hwo as (Hab & _ & _ & Hwr).
  unfold ref_remove. cbn [mk intervals limit ref_rem length]. destruct (N.ltb_spec b a); [lia|].
  change (0 <? 0)%nat with false. cbn [andb]. change (0 =? 0)%Z with true. cbn iota. apply (IHr lim Hwr).
Qed.

Lemma ref_fold_remove_limit : forall o s, limit (fst (ref_fold ref_remove s o)) = limit s.
Proof.
  induction o as [|[a b] r IHr]; intros s; cbn [ref_fold]; [reflexivity|].
  destruct (ref_remove s a b) as [s1 c1] eqn:E1.
  assert (limit s1 = limit s).
  { unfold ref_remove in E1. destruct (b <? a); [injection E1 as <- _; reflexivity|].
    destruct (_ && _); injection E1 as <- _; reflexivity. }
  destruct (c1 =? 0)%Z; [rewrite IHr; assumption|cbn [fst]; assumption].
Qed.

Theorem difference_refines : forall emax s other, iswf emax (intervals s) -> iswf emax other ->
  N.of_nat (length (intervals s)) + N.of_nat (length other) < usize_max ->
  difference emax s other = ref_difference s other.
Proof.
  intros emax s other Hwf Hwo Hlen. unfold difference, ref_difference.
  destruct (intervals s) as [|i0 l0] eqn:El.
  - destruct s as [lim l]. cbn in El. subst l. symmetry. apply (ref_fold_remove_empty emax other lim Hwo).
  - rewrite <- El in *. assert (Hne : intervals s <> []) by (rewrite El; discriminate).
    unfold set_operation. destruct other as [|o rest].
    + destruct s; reflexivity.
    + destruct (index_for_spec emax (intervals s) o Hwf Hne) as [Hi Hp].
      rewrite (difference_loop emax (o :: rest) (intervals s) _ (limit s) Hwf Hwo Hlen Hi Hp).
      replace (mk (limit s) (intervals s)) with s by (destruct s; reflexivity).
      pose proof (ref_fold_remove_limit (o :: rest) s) as Hl.
      destruct (ref_fold ref_remove s (o :: rest)) as [s' c]. cbn [fst snd] in *. f_equal.
      destruct s'; cbn in *; subst; reflexivity.
Qed.
