(* Proofs about packet number truncation and expansion (C08, component pn). *)
From SQ Require Import lib.Base gen.Gen_C08 model.PacketNumber.
Local Open Scope N_scope.
Lemma land_shiftl_small : forall q k t, t < 2^k -> N.land (N.shiftl q k) t = 0.
Proof.
  intros q k t Ht. apply N.bits_inj. intro i. rewrite N.land_spec, N.bits_0.
  destruct (N.lt_ge_cases i k) as [H|H].
  - rewrite N.shiftl_spec_low by assumption. reflexivity.
  - rewrite <- (N.mod_small t (2^k)) by assumption. rewrite N.mod_pow2_bits_high by assumption.
    apply andb_false_r.
Qed.
Lemma cand_N : forall e k t, t < 2^k -> N.lor (N.ldiff e (2^k - 1)) t = (e / 2^k) * 2^k + t.
Proof.
  intros e k t Ht. rewrite N.sub_1_r, <- N.ones_equiv, N.ldiff_ones_r.
  rewrite <- N.lxor_lor by (apply land_shiftl_small; assumption).
  rewrite <- N.add_nocarry_lxor by (apply land_shiftl_small; assumption).
  rewrite N.shiftl_mul_pow2, N.shiftr_div_pow2. reflexivity.
Qed.
Local Open Scope Z_scope.
Lemma Zland_shiftl_small : forall q k t, 0 <= k -> 0 <= t < 2^k -> Z.land (Z.shiftl q k) t = 0.
Proof.
  intros q k t Hk Ht. apply Z.bits_inj'. intros i Hi. rewrite Z.land_spec, Z.bits_0.
  destruct (Z.lt_ge_cases i k) as [H|H].
  - rewrite Z.shiftl_spec_low by assumption. reflexivity.
  - rewrite <- (Z.mod_small t (2^k)) by assumption. rewrite Z.mod_pow2_bits_high by lia.
    apply andb_false_r.
Qed.
Lemma cand_Z : forall e k t, 0 <= k -> 0 <= t < 2^k ->
  Z.lor (Z.land e (Z.lnot (Z.shiftl 1 k - 1))) t = (e / 2^k) * 2^k + t.
Proof.
  intros e k t Hk Ht. rewrite Z.shiftl_1_l. rewrite Z.sub_1_r, <- Z.ones_equiv.
  rewrite <- Z.ldiff_land, Z.ldiff_ones_r by assumption.
  rewrite <- Z.lxor_lor by (apply Zland_shiftl_small; assumption).
  rewrite <- Z.add_nocarry_lxor by (apply Zland_shiftl_small; assumption).
  rewrite Z.shiftl_mul_pow2, Z.shiftr_div_pow2 by assumption. reflexivity.
Qed.
Local Open Scope N_scope.
Ltac Zify.zify_post_hook ::= Z.div_mod_to_equations.

Definition valid_len (len : N) : Prop := len = 1 \/ len = 2 \/ len = 3 \/ len = 4.

Lemma mod_lt_win : forall len pn, pn mod win len < win len.
Proof. intros. apply N.mod_lt. unfold win. apply N.pow_nonzero. discriminate. Qed.

(* arithmetic form of the candidate *)
Lemma impl_decode_arith : forall L len t, t < win len ->
  impl_decode L len t =
  let expected_pn := L + 1 in
  let pn_win := win len in
  let pn_hwin := pn_win / 2 in
  let candidate_pn := (expected_pn / pn_win) * pn_win + t in
  let a := match checked_sub64 expected_pn pn_hwin with Some v => candidate_pn <=? v | None => false end in
  let b := match checked_sub64 two62 pn_win with Some v => candidate_pn <? v | None => false end in
  let c := match checked_add64 expected_pn pn_hwin with Some v => v <? candidate_pn | None => false end in
  let d := pn_win <=? candidate_pn in
  let ab := a && b in
  let cd := negb ab && c && d in
  let candidate_pn := if ab then candidate_pn + pn_win else candidate_pn in
  let candidate_pn := if cd then candidate_pn - pn_win else candidate_pn in
  if candidate_pn <=? varint_max then candidate_pn else varint_max.
Proof.
  intros L len t Ht. unfold impl_decode. unfold win in *. rewrite cand_N by assumption. reflexivity.
Qed.

Ltac no_if t :=
  lazymatch t with
  | context [if _ then _ else _] => fail
  | context [match _ with Some _ => _ | None => _ end] => fail
  | _ => idtac
  end.
(* case split on the comparisons, innermost first *)
Ltac split_cmp :=
  repeat (match goal with
    | |- context [N.leb ?a ?b] => no_if a; no_if b; destruct (N.leb_spec a b)
    | |- context [N.ltb ?a ?b] => no_if a; no_if b; destruct (N.ltb_spec a b)
    end; cbn [andb negb orb]).

(* name quotient and remainder of x by the literal w, leaving only linear facts *)
Ltac name_divmod x w :=
  let q := fresh "q" in let r := fresh "r" in
  pose proof (N.div_mod x w ltac:(discriminate));
  pose proof (N.mod_lt x w ltac:(discriminate));
  set (q := x / w) in *; set (r := x mod w) in *; clearbody q r.

Ltac solve_len w h L pn :=
  cbv zeta; name_divmod (L + 1) w; name_divmod pn w; split_cmp; lia.

Lemma reconstruct_rx : forall L len pn, valid_len len -> L < two62 -> pn < two62 ->
  L + 1 < pn + win len / 2 -> pn <= L + 1 + win len / 2 ->
  impl_decode L len (pn mod win len) = pn.
Proof.
  intros L len pn Hl HL Hpn H1 H2.
  rewrite impl_decode_arith by apply mod_lt_win.
  unfold checked_sub64, checked_add64, two62, two64, varint_max in *.
  destruct Hl as [-> | [-> | [-> | ->]]].
  - change (win 1) with 256 in *. change (256/2) with 128 in *. solve_len 256 128 L pn.
  - change (win 2) with 65536 in *. change (65536/2) with 32768 in *. solve_len 65536 32768 L pn.
  - change (win 3) with 16777216 in *. change (16777216/2) with 8388608 in *. solve_len 16777216 8388608 L pn.
  - change (win 4) with 4294967296 in *. change (4294967296/2) with 2147483648 in *. solve_len 4294967296 2147483648 L pn.
Qed.

(* ---------------- sender side ---------------- *)

Lemma truncate_some : forall pn la len t, pn < two62 -> truncate pn la = Some (len, t) ->
  valid_len len /\ t = pn mod win len /\ la <= pn /\ 2 * (pn - la) < win len /\
  (len = 1 \/ win (len - 1) <= 2 * (pn - la)).
Proof.
  intros pn la len t Hpn. unfold truncate, derive_truncation_range, checked_sub64, checked_mul64,
    varint_new, len_from_varint, truncate_value, two62, two64, varint_max,
    pn_u8_max, pn_u16_max, pn_u24_max, pn_u32_max in *.
  destruct (N.leb_spec la pn); [|discriminate].
  destruct (N.ltb_spec ((pn - la) * 2) 18446744073709551616); [|discriminate].
  destruct (N.leb_spec ((pn - la) * 2) 4611686018427387903); [|discriminate].
  unfold valid_len.
  destruct (N.leb_spec ((pn - la) * 2) 255).
  { intros E; injection E as <- <-. change (win 1) with 256. repeat split; try lia. }
  destruct (N.leb_spec ((pn - la) * 2) 65535).
  { intros E; injection E as <- <-. change (win 2) with 65536. change (win (2 - 1)) with 256. repeat split; try lia. }
  destruct (N.leb_spec ((pn - la) * 2) 16777215).
  { intros E; injection E as <- <-. change (win 3) with 16777216. change (win (3 - 1)) with 65536. repeat split; try lia. }
  destruct (N.leb_spec ((pn - la) * 2) 4294967295); [|discriminate].
  intros E; injection E as <- <-. change (win 4) with 4294967296. change (win (4 - 1)) with 16777216. repeat split; try lia.
Qed.

Lemma truncate_defined : forall la pn, la <= pn -> pn < two62 ->
  (truncate pn la = None <-> 4294967296 <= 2 * (pn - la)).
Proof.
  intros la pn Hle Hpn. unfold truncate, derive_truncation_range, checked_sub64, checked_mul64,
    varint_new, len_from_varint, two62, two64, varint_max,
    pn_u8_max, pn_u16_max, pn_u24_max, pn_u32_max in *.
  destruct (N.leb_spec la pn); [|lia].
  destruct (N.ltb_spec ((pn - la) * 2) 18446744073709551616); [|lia].
  destruct (N.leb_spec ((pn - la) * 2) 4611686018427387903); [|split; [lia|reflexivity]].
  destruct (N.leb_spec ((pn - la) * 2) 255); [split; [discriminate|lia]|].
  destruct (N.leb_spec ((pn - la) * 2) 65535); [split; [discriminate|lia]|].
  destruct (N.leb_spec ((pn - la) * 2) 16777215); [split; [discriminate|lia]|].
  destruct (N.leb_spec ((pn - la) * 2) 4294967295); [split; [discriminate|lia]|].
  split; [lia|reflexivity].
Qed.

Lemma truncate_below : forall la pn, pn < la -> truncate pn la = None.
Proof.
  intros la pn H. unfold truncate, derive_truncation_range, checked_sub64.
  destruct (N.leb_spec la pn); [lia|reflexivity].
Qed.

Lemma half_win : forall len, valid_len len -> 2 * (win len / 2) = win len.
Proof. intros len [-> | [-> | [-> | ->]]]; reflexivity. Qed.

Lemma reconstruct : forall la L pn len t, la <= pn -> pn < two62 ->
  truncate pn la = Some (len, t) -> la <= L -> L < two62 ->
  L + 1 < pn + win len / 2 -> pn <= L + 1 + win len / 2 ->
  impl_decode L len t = pn.
Proof.
  intros la L pn len t _ Hpn Ht _ HL H1 H2.
  destruct (truncate_some _ _ _ _ Hpn Ht) as (Hv & -> & _).
  apply reconstruct_rx; assumption.
Qed.

Lemma reconstruct_in_order : forall la L pn len t, pn < two62 ->
  truncate pn la = Some (len, t) -> la <= L -> L < pn ->
  impl_decode L len t = pn.
Proof.
  intros la L pn len t Hpn Ht HL Hlt.
  destruct (truncate_some _ _ _ _ Hpn Ht) as (Hv & -> & Hle & Hd & _).
  pose proof (half_win len Hv).
  apply reconstruct_rx; try assumption; unfold two62 in *; lia.
Qed.

(* relation to the informative pseudo code of A.2: the implementation follows the normative
   "more than twice the range" of section 17.1, which is one byte more exactly when the distance is
   a power 2^(8b-1) *)
Lemma truncate_vs_rfc_a2 : forall pn la len t, pn < two62 -> truncate pn la = Some (len, t) ->
  exists b, rfc_a2_num_bytes pn la = Some b /\
            (len = b \/ (len = b + 1 /\ pn - la = win b / 2)).
Proof.
  intros pn la len t Hpn Ht.
  destruct (truncate_some _ _ _ _ Hpn Ht) as (Hv & _ & Hle & Hd & Hmin).
  unfold rfc_a2_num_bytes.
  destruct Hv as [-> | [-> | [-> | ->]]];
    repeat match goal with H : context [win ?x] |- _ =>
      let v := eval vm_compute in (win x) in change (win x) with v in H end;
    repeat match goal with H : context [N.sub ?x 1] |- _ =>
      let v := eval vm_compute in (N.sub x 1) in change (N.sub x 1) with v in H end;
    repeat match goal with H : context [win ?x] |- _ =>
      let v := eval vm_compute in (win x) in change (win x) with v in H end.
  all: repeat match goal with |- context [N.leb ?a ?b] => destruct (N.leb_spec a b) end.
  all: try (eexists; split; [reflexivity|]; 
            repeat match goal with |- context [win ?x] =>
              let v := eval vm_compute in (win x / 2) in change (win x / 2) with v end; lia).
  all: try lia.
Qed.

(* ---------------- receiver side, window form ---------------- *)

Lemma valid_len_mod4 : forall x, valid_len (x mod 4 + 1).
Proof.
  intros x. unfold valid_len. pose proof (N.mod_lt x 4 ltac:(discriminate)).
  set (r := x mod 4) in *. clearbody r. lia.
Qed.

Ltac win_consts :=
  change (win 1) with 256 in *; change (win 2) with 65536 in *;
  change (win 3) with 16777216 in *; change (win 4) with 4294967296 in *.

Lemma window_pn_decoded : forall L len t, valid_len len -> L < two62 -> t < win len ->
  (0 <= window_pn L len t < Nz two62)%Z ->
  Nz (impl_decode L len t) = window_pn L len t.
Proof.
  intros L len t Hv HL Ht Hp.
  assert (E : impl_decode L len (Z.to_N (window_pn L len t) mod win len) = Z.to_N (window_pn L len t)).
  { apply reconstruct_rx; try assumption; unfold window_pn, two62, Nz in *;
      destruct Hv as [-> | [-> | [-> | ->]]]; win_consts; lia. }
  assert (E2 : Z.to_N (window_pn L len t) mod win len = t).
  { clear E. unfold window_pn in *.
    set (w := Nz (win len)) in *. set (lo := (Nz L + 1 - w / 2 + 1)%Z) in *.
    apply N2Z.inj. rewrite N2Z.inj_mod. rewrite Z2N.id by lia. fold (Nz (win len)). fold w.
    rewrite Zplus_mod_idemp_r. replace (lo + (Nz t - lo))%Z with (Nz t) by ring.
    apply Z.mod_small. unfold Nz, w. split; [apply N2Z.is_nonneg | apply N2Z.inj_lt; assumption]. }
  rewrite E2 in E. rewrite E. unfold Nz. lia.
Qed.

(* ---------------- the executable judgement accepts every run of the model ---------------- *)

Definition wf_case (c : list Z) : Prop := arg 2 c < two62 /\ arg 3 c < two62.

Lemma in_rfc_window_true : forall L len pn, in_rfc_window L len pn = true ->
  L + 1 < pn + win len / 2 /\ pn <= L + 1 + win len / 2.
Proof.
  intros L len pn H. unfold in_rfc_window in H. apply andb_true_iff in H as [H1 H2].
  apply N.ltb_lt in H1. apply N.leb_le in H2. split; assumption.
Qed.

Lemma judge_rx_part : forall L x y d2, L < two62 ->
  d2 = Nz (impl_decode L (x mod 4 + 1) (y mod win (x mod 4 + 1))) ->
  (let p := window_pn L (x mod 4 + 1) (y mod win (x mod 4 + 1)) in
   if ((0 <=? p) && (p <? Nz two62))%Z then (d2 =? p)%Z else true) = true.
Proof.
  intros L x y d2 HL ->. cbv zeta.
  destruct ((0 <=? _) && (_ <? _))%Z eqn:E; [|reflexivity].
  apply andb_true_iff in E as [E1 E2]. apply Z.leb_le in E1. apply Z.ltb_lt in E2.
  apply Z.eqb_eq. apply window_pn_decoded; auto using valid_len_mod4, mod_lt_win.
Qed.

Lemma judge_run : forall c, wf_case c -> judge c (run c) = true.
Proof.
  intros c [Hpn HL]. unfold judge, run.
  set (la := arg 1 c) in *. set (pn := arg 2 c) in *. set (L := arg 3 c) in *.
  destruct (truncate pn la) as [[len t]|] eqn:Et.
  - destruct (truncate_some _ _ _ _ Hpn Et) as (Hv & Htv & _).
    assert (Hz : zN (Nz len) = len) by (unfold zN, Nz; apply N2Z.id).
    apply andb_true_iff. split; [|apply judge_rx_part; auto].
    destruct (Z.eqb_spec (Nz len) 0) as [E0|_]; [reflexivity|].
    rewrite Hz.
    repeat (apply andb_true_iff; split).
    + unfold Nz, valid_len in *. apply Z.leb_le. lia.
    + unfold Nz, valid_len in *. apply Z.leb_le. lia.
    + apply Z.eqb_eq. now rewrite Htv.
    + destruct (la <=? L) eqn:E1; [|reflexivity]. apply N.leb_le in E1.
      destruct (L <? pn) eqn:E2; cbn [andb orb].
      * apply N.ltb_lt in E2. apply Z.eqb_eq. f_equal.
        eapply reconstruct_in_order; eassumption.
      * destruct (in_rfc_window L len pn) eqn:E3; [|reflexivity].
        apply in_rfc_window_true in E3 as [W1 W2]. apply Z.eqb_eq. f_equal.
        subst t. apply reconstruct_rx; assumption.
  - cbn [Z.eqb]. apply judge_rx_part; auto.
Qed.

(* ---------------- the implementation's decoder is RFC 9000 A.3 ---------------- *)

Ltac split_cmpZ :=
  repeat (match goal with
    | |- context [N.leb ?a ?b] => no_if a; no_if b; destruct (N.leb_spec a b)
    | |- context [N.ltb ?a ?b] => no_if a; no_if b; destruct (N.ltb_spec a b)
    | |- context [Z.leb ?a ?b] => no_if a; no_if b; destruct (Z.leb_spec a b)
    | |- context [Z.ltb ?a ?b] => no_if a; no_if b; destruct (Z.ltb_spec a b)
    end; cbn [andb negb orb]).

Ltac Zify.zify_post_hook ::= idtac.
(* A.3 returns a number of at least 2^62 only when largest_pn is already 2^62 - 1 (no packet can
   follow it); the implementation then saturates at VarInt::MAX *)
Lemma decode_is_rfc_a3 : forall L len t, valid_len len -> L < two62 -> t < win len ->
  Nz (impl_decode L len t) = Z.min (rfc_a3_decode (Nz L) (Nz t) (8 * Nz len)) (Nz varint_max) /\
  (L + 1 < two62 -> Nz (impl_decode L len t) = rfc_a3_decode (Nz L) (Nz t) (8 * Nz len)).
Proof.
  intros L len t Hv HL Ht.
  rewrite impl_decode_arith by assumption. unfold rfc_a3_decode.
  assert (Hk : (0 <= 8 * Nz len)%Z) by (unfold Nz; lia).
  assert (Htz : (0 <= Nz t < 2 ^ (8 * Nz len))%Z).
  { unfold Nz, win in *. split; [lia|]. change 2%Z with (Z.of_N 2). change 8%Z with (Z.of_N 8).
    rewrite <- N2Z.inj_mul, <- N2Z.inj_pow. lia. }
  rewrite cand_Z by assumption. rewrite !Z.shiftl_1_l.
  unfold checked_sub64, checked_add64, two62, two64, varint_max, Nz in *.
  destruct Hv as [-> | [-> | [-> | ->]]]; win_consts; cbv zeta.
  all: replace (Z.of_N L + 1)%Z with (Z.of_N (L + 1)) by lia.
  - change (2 ^ (8 * Z.of_N 1))%Z with (Z.of_N 256) in *. rewrite <- (N2Z.inj_div (L + 1) 256).
    change (2^62)%Z with 4611686018427387904%Z.
    change (256 / 2) with 128. change (Z.of_N 256 / 2)%Z with 128%Z.
    name_divmod (L + 1) 256. split_cmpZ. all: lia.
  - change (2 ^ (8 * Z.of_N 2))%Z with (Z.of_N 65536) in *. rewrite <- (N2Z.inj_div (L + 1) 65536).
    change (2^62)%Z with 4611686018427387904%Z.
    change (65536 / 2) with 32768. change (Z.of_N 65536 / 2)%Z with 32768%Z.
    name_divmod (L + 1) 65536. split_cmpZ. all: lia.
  - change (2 ^ (8 * Z.of_N 3))%Z with (Z.of_N 16777216) in *. rewrite <- (N2Z.inj_div (L + 1) 16777216).
    change (2^62)%Z with 4611686018427387904%Z.
    change (16777216 / 2) with 8388608. change (Z.of_N 16777216 / 2)%Z with 8388608%Z.
    name_divmod (L + 1) 16777216. split_cmpZ. all: lia.
  - change (2 ^ (8 * Z.of_N 4))%Z with (Z.of_N 4294967296) in *. rewrite <- (N2Z.inj_div (L + 1) 4294967296).
    change (2^62)%Z with 4611686018427387904%Z.
    change (4294967296 / 2) with 2147483648. change (Z.of_N 4294967296 / 2)%Z with 2147483648%Z.
    name_divmod (L + 1) 4294967296. split_cmpZ. all: lia.
Qed.

(* the exact equality fails at L = 2^62 - 1 only because A.3 then leaves the packet number range *)
Lemma decode_is_rfc_a3_at_max :
  impl_decode varint_max 1 0 = varint_max /\ rfc_a3_decode (Nz varint_max) 0 8 = Nz two62.
Proof. split; vm_compute; reflexivity. Qed.
