(* Proofs about model/PeerIds.v: validation rules of NEW_CONNECTION_ID and the RETIRE_CONNECTION_ID invariant. *)
From SQ Require Import lib.Base lib.ListX gen.Gen_C13 model.PeerIds.
Local Open Scope N_scope.

(* ---------------------------------------------------------------------------------------------- *)
(* validation rules (RFC 9000 section 19.15 / 5.1.1 / 5.1.2) *)

(* an already registered id conflicts with a frame *)
Definition conflict (id tok sq : N) (i : pinfo) : Prop :=
  (pid i = id /\ (ptok i <> Some tok \/ pseq i <> sq)) \/
  (pid i <> id /\ (pseq i = sq \/ ptok i = Some tok)).

Lemma opt_eqb_spec a b : opt_eqb a b = true <-> a = Some b.
Proof.
  unfold opt_eqb. destruct a as [x|]; [|split; discriminate].
  rewrite N.eqb_eq. split; [intros ->; reflexivity|intros [= ->]; reflexivity].
Qed.

Lemma validate_none i id tok sq : validate i id tok sq = None <-> conflict id tok sq i.
Proof.
  unfold validate, conflict.
  assert (E2 : if opt_eqb (ptok i) tok then ptok i = Some tok else ptok i <> Some tok).
  { destruct (opt_eqb (ptok i) tok) eqn:E; [now apply opt_eqb_spec|]. intros H. apply opt_eqb_spec in H. congruence. }
  destruct (N.eqb_spec (pid i) id) as [E1|E1]; destruct (opt_eqb (ptok i) tok);
  destruct (N.eqb_spec (pseq i) sq) as [E3|E3]; cbn [negb orb];
  (split; intros H; [try discriminate|try reflexivity]); intuition congruence.
Qed.

Lemma scan_none l id tok sq rpt pos :
  scan l id tok sq rpt pos = None <-> Exists (conflict id tok sq) l.
Proof.
  revert pos. induction l as [|i t IH]; intros pos; cbn [scan].
  - split; [discriminate|intros H; inversion H].
  - destruct (validate i id tok sq) as [dup|] eqn:E.
    + specialize (IH (S pos)). destruct (scan t id tok sq rpt (S pos)) as [[[[t' cnt] dup'] pend]|].
      * split; [discriminate|]. intros H. inversion H; subst.
        -- apply validate_none in H1. congruence.
        -- apply IH in H1. discriminate.
      * split; [intros _; right; apply IH; reflexivity|reflexivity].
    + split; [intros _; left; apply validate_none; exact E|reflexivity].
Qed.

Lemma on_new_codes r id sq rpt tok :
  fst (on_new_connection_id r id sq rpt tok) = PROTOCOL_VIOLATION <-> Exists (conflict id tok sq) (pinfos r).
Proof.
  unfold on_new_connection_id. rewrite <- (scan_none (pinfos r) id tok sq (N.max (prpt r) rpt) 0).
  destruct (scan (pinfos r) id tok sq (N.max (prpt r) rpt) 0) as [[[[l cnt] dup] pend]|]; [|split; reflexivity].
  split; [|discriminate]. intros H. exfalso. revert H.
  destruct dup.
  - destruct (_ <? _); cbn [fst]; vm_compute; discriminate.
  - destruct (if p_active _ then _ else _) as [l2 c2]. destruct (_ <? c2); [cbn [fst]; vm_compute; discriminate|].
    destruct (_ <? _); cbn [fst]; vm_compute; discriminate.
Qed.

(* a NEW_CONNECTION_ID frame is answered with PROTOCOL_VIOLATION exactly when retire_prior_to exceeds the
   sequence number (the RFC prescribes FRAME_ENCODING_ERROR there; the implementation's decoder error is mapped
   to PROTOCOL_VIOLATION), a field does not fit u32, or a registered id conflicts with it *)
Theorem frame_protocol_violation_iff r sq rpt id tok :
  fst (on_frame r sq rpt id tok) = PROTOCOL_VIOLATION <->
  sq < rpt \/ u32_lim <= sq \/ u32_lim <= rpt \/ Exists (conflict id tok sq) (pinfos r).
Proof.
  unfold on_frame.
  destruct (N.ltb_spec sq rpt); [cbn [fst]; split; auto|].
  destruct (N.leb_spec u32_lim sq); [cbn [fst]; split; auto|].
  destruct (N.leb_spec u32_lim rpt); [cbn [fst]; split; auto|].
  rewrite on_new_codes. split; [auto|]. intros [?|[?|[?|?]]]; auto; lia.
Qed.

Theorem frame_codes r sq rpt id tok :
  let c := fst (on_frame r sq rpt id tok) in c = 0 \/ c = PROTOCOL_VIOLATION \/ c = CONNECTION_ID_LIMIT_ERROR.
Proof.
  cbn zeta. unfold on_frame. destruct (sq <? rpt); [auto|]. destruct (u32_lim <=? sq); [auto|].
  destruct (u32_lim <=? rpt); [auto|]. unfold on_new_connection_id.
  destruct (scan _ _ _ _ _ _) as [[[[l cnt] dup] pend]|]; [|auto].
  destruct dup.
  - destruct (_ <? _); auto.
  - destruct (if p_active _ then _ else _) as [l2 c2]. destruct (_ <? c2); [auto|]. destruct (_ <? _); auto.
Qed.

(* ---------------------------------------------------------------------------------------------- *)
(* what scan does to the list *)

Definition same_id (i i' : pinfo) : Prop := pid i' = pid i /\ pseq i' = pseq i /\ (p_active i' = true -> p_active i = true).

Lemma scan_shape l id tok sq rpt pos l' cnt dup pend :
  scan l id tok sq rpt pos = Some (l', cnt, dup, pend) ->
  Forall2 same_id l l' /\ Forall (fun i => validate i id tok sq <> None) l /\
  (dup = false -> Forall (fun i => pid i <> id) l).
Proof.
  revert pos l' cnt dup pend. induction l as [|i t IH]; intros pos l' cnt dup pend; cbn [scan].
  - intros [= <- <- <- <-]. repeat split; constructor.
  - destruct (validate i id tok sq) as [d|] eqn:E; [|discriminate].
    destruct (scan t id tok sq rpt (S pos)) as [[[[t' c'] d'] p']|] eqn:Es; [|discriminate].
    intros [= <- <- <- <-]. destruct (IH _ _ _ _ _ Es) as (H1 & H2 & H3). repeat split.
    + constructor; auto. unfold same_id. destruct (p_retire_ready i rpt) eqn:Er; cbn [set_pst pid pseq]; auto.
      repeat split; auto. unfold p_active at 1. cbn [pst]. discriminate.
    + constructor; auto. congruence.
    + intros Hd. apply orb_false_elim in Hd. destruct Hd as [-> Hd]. constructor; auto.
      unfold validate in E. destruct (pid i =? id) eqn:Ei; [|apply N.eqb_neq in Ei; auto].
      destruct (negb _ || negb _); discriminate.
Qed.

(* ---------------------------------------------------------------------------------------------- *)
(* RETIRE_CONNECTION_ID: only issued sequence numbers, never in a packet addressed with that id *)

Record PInv (r : preg) (dc : N) (iss : issued) : Prop := {
  pi_nodup : NoDup (map pid (pinfos r));
  pi_issued : Forall (fun i => find_seq iss (pseq i) = Some (pid i)) (pinfos r);
  pi_dcid : is_active r dc = true }.

Lemma Forall2_same_ids l l' : Forall2 same_id l l' -> map pid l' = map pid l /\ map pseq l' = map pseq l.
Proof. induction 1 as [|i i' l l' (H1 & H2 & _) _ [IH1 IH2]]; cbn [map]; [auto|]. now rewrite H1, H2, IH1, IH2. Qed.

Lemma Forall_pids (P : N -> N -> Prop) l l' : map pid l' = map pid l -> map pseq l' = map pseq l ->
  Forall (fun i => P (pseq i) (pid i)) l -> Forall (fun i => P (pseq i) (pid i)) l'.
Proof.
  revert l'. induction l as [|i t IH]; intros [|i' t'] H1 H2 HF; try discriminate; constructor.
  - cbn [map] in *. injection H1 as -> _. injection H2 as -> _. inversion HF; auto.
  - cbn [map] in *. injection H1 as _ H1. injection H2 as _ H2. inversion HF; subst. apply IH; auto.
Qed.

(* status-only updates: same ids and sequence numbers in the same order, activity of every id preserved *)
Definition keeps (l l' : list pinfo) : Prop :=
  Forall2 (fun i i' => pid i' = pid i /\ pseq i' = pseq i /\ p_active i' = p_active i) l l'.

Lemma keeps_refl l : keeps l l.
Proof. unfold keeps. induction l; constructor; auto. Qed.

Lemma keeps_inv r l' dc iss : PInv r dc iss -> keeps (pinfos r) l' -> PInv (mkPR l' (prpt r)) dc iss.
Proof.
  intros [A B C] H.
  assert (Hm : map pid l' = map pid (pinfos r) /\ map pseq l' = map pseq (pinfos r)).
  { clear -H. induction H as [|i i' l l' (H1 & H2 & _) _ [IH1 IH2]]; cbn [map]; [auto|]. now rewrite H1, H2, IH1, IH2. }
  destruct Hm as [Hm1 Hm2]. constructor; cbn [pinfos].
  - now rewrite Hm1.
  - apply (Forall_pids (fun s i => find_seq iss s = Some i) _ _ Hm1 Hm2 B).
  - unfold is_active in *. cbn [pinfos]. clear -H C. induction H as [|i i' l l' (H1 & H2 & H3) _ IH]; [exact C|].
    cbn [existsb] in *. rewrite H1, H3. apply orb_true_iff in C. apply orb_true_iff. destruct C; auto.
Qed.

Lemma ptransmit_keeps l constraint cap pn : keeps l (fst (ptransmit_in l constraint cap pn)).
Proof.
  revert cap. induction l as [|i t IH]; intros cap; cbn [ptransmit_in]; [constructor|].
  destruct (can_tx (ptx_int i) constraint && (0 <? cap)) eqn:E.
  - specialize (IH (cap - 1)). destruct (ptransmit_in t constraint (cap - 1) pn). cbn [fst] in *. constructor; auto.
    cbn [set_pst pid pseq]. repeat split. apply andb_prop in E. destruct E as [E _].
    unfold p_active, ptx_int in *. cbn [pst]. destruct (pst i); auto; destruct constraint as [|[|[]|]]; discriminate.
  - specialize (IH cap). destruct (ptransmit_in t constraint cap pn). cbn [fst] in *. constructor; auto.
Qed.

Lemma ptransmit_frames l constraint cap pn sq :
  In sq (snd (ptransmit_in l constraint cap pn)) -> exists i, In i l /\ pseq i = sq /\ p_active i = false.
Proof.
  revert cap. induction l as [|i t IH]; intros cap; cbn [ptransmit_in]; [intros []|].
  destruct (can_tx (ptx_int i) constraint && (0 <? cap)) eqn:E.
  - specialize (IH (cap - 1)). destruct (ptransmit_in t constraint (cap - 1) pn). cbn [snd] in *.
    intros [<-|Hin].
    + exists i. repeat split; [now left|]. apply andb_prop in E. destruct E as [E _].
      unfold p_active, ptx_int in *. destruct (pst i); auto; destruct constraint as [|[|[]|]]; discriminate.
    + destruct (IH Hin) as (j & Hj & Hf). exists j. split; [now right|auto].
  - specialize (IH cap). destruct (ptransmit_in t constraint cap pn). cbn [snd] in *.
    intros Hin. destruct (IH Hin) as (j & Hj & Hf). exists j. split; [now right|auto].
Qed.

(* the invariant gives the property for every frame written *)
Theorem retire_frames_issued_not_self r dc iss constraint cap pn sq :
  PInv r dc iss -> In sq (snd (p_on_transmit r constraint cap pn)) ->
  exists id, find_seq iss sq = Some id /\ id <> dc.
Proof.
  intros [A B C] Hin. unfold p_on_transmit in Hin. destruct (can_tx (ptx_interest r) constraint); [|destruct Hin].
  pose proof (ptransmit_frames (pinfos r) constraint cap pn sq) as H.
  destruct (ptransmit_in (pinfos r) constraint cap pn). cbn [snd] in *.
  destruct (H Hin) as (i & Hi & Hs & Ha). exists (pid i). rewrite Forall_forall in B. split; [rewrite <- Hs; auto|].
  intros Heq. unfold is_active in C. apply existsb_exists in C. destruct C as (j & Hj & Hc).
  apply andb_prop in Hc. destruct Hc as [Hc1 Hc2]. apply N.eqb_eq in Hc1.
  (* i and j carry the same id, so they are the same entry, but one is active and the other is not *)
  assert (i = j); [|congruence].
  clear -A Hi Hj Heq Hc1. induction (pinfos r) as [|x t IH]; [destruct Hi|]. cbn [map] in A. inversion A; subst.
  destruct Hi as [->|Hi], Hj as [->|Hj]; auto.
  - exfalso. apply H1. rewrite Heq. now apply in_map.
  - exfalso. apply H1. rewrite <- Heq. now apply in_map.
Qed.

(* ---------------------------------------------------------------------------------------------- *)
(* the invariant in every reachable state of the driver *)

Lemma keeps_active l l' id : keeps l l' ->
  existsb (fun i => (pid i =? id) && p_active i) l' = existsb (fun i => (pid i =? id) && p_active i) l.
Proof. induction 1 as [|i i' l l' (H1 & H2 & H3) _ IH]; [reflexivity|]. cbn [existsb]. now rewrite H1, H3, IH. Qed.

Lemma map_set_nth {B} (f : pinfo -> B) k : forall l x d, f x = f (nth k l d) -> map f (set_nth k l x) = map f l.
Proof.
  induction k as [|k IH]; intros [|h t] x d H; cbn [set_nth map nth] in *; auto.
  - change (set_nth 0 (h :: t) x) with (x :: t). cbn [map]. now rewrite H.
  - change (set_nth (S k) (h :: t) x) with (h :: set_nth k t x). cbn [map]. f_equal. eapply IH; eauto.
Qed.

Lemma issued_step iss sq id tok l :
  Forall (fun i => validate i id tok sq <> None) l ->
  Forall (fun i => find_seq iss (pseq i) = Some (pid i)) l ->
  Forall (fun i => find_seq ((sq, id) :: iss) (pseq i) = Some (pid i)) l.
Proof.
  intros H1 H2. induction l as [|i t IH]; constructor; inversion H1; inversion H2; subst; auto.
  cbn [find_seq]. destruct (N.eqb_spec sq (pseq i)) as [E|E]; auto.
  f_equal. unfold validate in H3. destruct (N.eqb_spec (pid i) id) as [Ei|Ei]; auto.
  exfalso. apply H3. rewrite E, N.eqb_refl. reflexivity.
Qed.

Lemma on_new_ok r id sq rpt tok r1 dc iss :
  PInv r dc iss -> on_new_connection_id r id sq rpt tok = (0, r1) ->
  NoDup (map pid (pinfos r1)) /\ Forall (fun i => find_seq ((sq, id) :: iss) (pseq i) = Some (pid i)) (pinfos r1).
Proof.
  intros [A B C]. unfold on_new_connection_id.
  destruct (scan (pinfos r) id tok sq (N.max (prpt r) rpt) 0) as [[[[l cnt] dup] pend]|] eqn:Es; [|discriminate].
  destruct (scan_shape _ _ _ _ _ _ _ _ _ _ Es) as (S1 & S2 & S3).
  destruct (Forall2_same_ids _ _ S1) as [M1 M2].
  pose proof (issued_step iss sq id tok _ S2 B) as B'.
  pose proof (Forall_pids (fun s i => find_seq ((sq, id) :: iss) s = Some i) _ _ M1 M2 B') as Bl.
  destruct dup.
  - destruct (_ <? _); [discriminate|]. intros [= <-]. cbn [pinfos]. split; [now rewrite M1|exact Bl].
  - specialize (S3 eq_refl).
    set (fresh := mkP id sq (Some tok) (if sq <? N.max (prpt r) rpt then PPendRet else PNew)).
    assert (Hl2 : forall l2 c2, (if p_active fresh then
                      match pend with
                      | Some k => (set_nth k l (set_pst (nth k l fresh) PPendRet), cnt + 1 - 1)
                      | None => (l, cnt + 1) end else (l, cnt)) = (l2, c2) ->
                   map pid l2 = map pid l /\ map pseq l2 = map pseq l).
    { intros l2 c2. destruct (p_active fresh); [|intros [= <- <-]; auto]. destruct pend as [k|]; intros [= <- <-]; auto.
      split; apply (map_set_nth _ k l _ fresh); reflexivity. }
    destruct (if p_active fresh then _ else _) as [l2 c2] eqn:El2. destruct (Hl2 _ _ eq_refl) as [N1 N2].
    unfold CONNECTION_ID_LIMIT_ERROR.
    destruct (peer_active_connection_id_limit <? c2); [discriminate|].
    destruct (peer_retired_connection_id_limit <? _); [discriminate|]. intros [= <-]. cbn [pinfos]. split.
    + rewrite map_app, N1, M1. cbn [map pid fresh]. clear -A S3.
      induction (pinfos r) as [|i t IH]; cbn [map app]; [repeat constructor; auto|].
      inversion A; subst. inversion S3; subst. constructor; auto.
      rewrite in_app_iff. intros [H|[H|[]]]; auto.
    + apply Forall_app. split.
      * apply (Forall_pids (fun s i => find_seq ((sq, id) :: iss) s = Some i) l l2); auto.
      * repeat constructor. cbn [find_seq fresh pseq pid]. now rewrite N.eqb_refl.
Qed.

Lemma consume_in_keeps l id tk l' : consume_in l = Some (id, tk, l') ->
  keeps l l' /\ existsb (fun i => (pid i =? id) && p_active i) l' = true.
Proof.
  revert l'. induction l as [|i t IH]; intros l'; cbn [consume_in]; [discriminate|].
  destruct (pst i) eqn:E.
  1: { intros [= <- <- <-]. split.
       - constructor; [|apply keeps_refl]. cbn [set_pst pid pseq]. unfold p_active. cbn [pst]. now rewrite E.
       - cbn [existsb set_pst pid]. now rewrite N.eqb_refl. }
  all: destruct (consume_in t) as [[[id' tk'] t']|]; [|discriminate]; intros [= <- <- <-];
       destruct (IH _ eq_refl) as [K1 K2]; split; [constructor; auto|cbn [existsb]; rewrite K2; apply orb_true_r].
Qed.

Definition SInv (s : pst_t) (iss : issued) : Prop :=
  match preg_ s with Some r => PInv r (dcid s) iss | None => True end.

(* the issued map as the judgement maintains it: the pair of every accepted frame is put in front *)
Definition gstep (si : pst_t * issued) (o : an_op) : pst_t * issued :=
  let '(s, iss) := si in
  let '(code0, a, b, c, d) := o in
  let s' := fst (step s o) in
  (s', match preg_ s, zmod code0 6 with
       | Some r, 1 => if fst (on_frame r (varint_clamp a) (varint_clamp b) (PID_BASE + zmod c 16) (PTOK_BASE + zmod d 16)) =? 0
                      then (varint_clamp a, PID_BASE + zmod c 16) :: iss else iss
       | _, _ => iss
       end).

Lemma PInv_keeps r l' dc dc' iss : PInv r dc iss -> keeps (pinfos r) l' ->
  existsb (fun i => (pid i =? dc') && p_active i) l' = true -> PInv (mkPR l' (prpt r)) dc' iss.
Proof.
  intros H K Hd. destruct (keeps_inv r l' dc iss H K) as [A B _]. constructor; auto.
Qed.

Lemma gstep_inv si o : SInv (fst si) (snd si) -> SInv (fst (gstep si o)) (snd (gstep si o)).
Proof.
  destruct si as [s iss]. destruct o as [[[[code0 a] b] c] d]. cbn [fst snd gstep]. unfold SInv, step.
  destruct (preg_ s) as [r|] eqn:Er; [|intros _; cbn [fst]; rewrite Er; exact I].
  intros H.
  assert (Hc : zmod code0 6 < 6).
  { unfold zmod, zN. pose proof (Z.mod_pos_bound code0 6 ltac:(lia)). lia. }
  remember (zmod code0 6) as code eqn:Ecode. clear Ecode.
  assert (Hcases : code = 0 \/ code = 1 \/ code = 2 \/ code = 3 \/ code = 4 \/ code = 5) by lia.
  destruct Hcases as [->|[->|[->|[->|[->| ->]]]]]; cbn [fst preg_ dcid].
  - rewrite Er. exact H.
  - (* 1 frame *)
    set (sq := varint_clamp a). set (rp := varint_clamp b). set (id := PID_BASE + zmod c 16). set (tk := PTOK_BASE + zmod d 16).
    destruct (on_frame r sq rp id tk) as [rc r1] eqn:Ef. cbn [fst].
    destruct (N.eqb_spec rc 0) as [->|Hrc]; cbn [negb]; [|cbn [fst close preg_]; exact I].
    assert (Hn : on_new_connection_id r id sq rp tk = (0, r1)).
    { unfold on_frame in Ef. destruct (sq <? rp); [discriminate|]. destruct (u32_lim <=? sq); [discriminate|].
      destruct (u32_lim <=? rp); [discriminate|]. exact Ef. }
    destruct (on_new_ok _ _ _ _ _ _ _ _ H Hn) as [A1 B1].
    destruct (is_active r1 (dcid s)) eqn:Ea; cbn [fst preg_ dcid].
    + constructor; auto.
    + unfold consume. destruct (consume_in (pinfos r1)) as [[[id2 tk2] l2]|] eqn:Ec; cbn [fst preg_ dcid close]; [|exact I].
      destruct (consume_in_keeps _ _ _ _ Ec) as [K1 K2].
      assert (Hm : map pid l2 = map pid (pinfos r1) /\ map pseq l2 = map pseq (pinfos r1)).
      { clear -K1. induction K1 as [|i i' l l' (H1 & H2 & _) _ [IH1 IH2]]; cbn [map]; [auto|]. now rewrite H1, H2, IH1, IH2. }
      destruct Hm as [Hm1 Hm2]. constructor; cbn [pinfos]; [now rewrite Hm1| |exact K2].
      apply (Forall_pids (fun s0 i => find_seq ((sq, id) :: iss) s0 = Some i) _ _ Hm1 Hm2 B1).
  - (* 2 migrate *)
    unfold consume. destruct (consume_in (pinfos r)) as [[[id2 tk2] l2]|] eqn:Ec; cbn [fst preg_ dcid]; [|rewrite Er; exact H].
    destruct (consume_in_keeps _ _ _ _ Ec) as [K1 K2]. apply (PInv_keeps r l2 (dcid s) id2 iss H K1 K2).
  - (* 3 transmit *)
    unfold p_on_transmit. destruct (can_tx (ptx_interest r) (zmod a 4)); cbn [fst preg_ dcid]; [|exact H].
    pose proof (ptransmit_keeps (pinfos r) (zmod a 4) (zmod b 5) (ppn s)) as K.
    destruct (ptransmit_in (pinfos r) (zmod a 4) (zmod b 5) (ppn s)) as [l fs]. cbn [fst preg_ dcid] in *.
    apply (keeps_inv r l _ _ H K).
  - (* 4 ack *)
    unfold p_on_ack. cbn [fst preg_ dcid]. destruct H as [A B C]. constructor; cbn [pinfos].
    + clear -A. induction (pinfos r) as [|i t IH]; cbn [filter map]; [constructor|]. inversion A; subst.
      destruct (negb _); cbn [map]; auto. constructor; auto. intros Hin. apply H1.
      clear -Hin. induction t as [|j t IH]; cbn [filter map] in *; [auto|].
      destruct (negb _); cbn [map] in *; [destruct Hin; [now left|right; auto]|right; auto].
    + clear -B. induction B; cbn [filter]; [constructor|]. destruct (negb _); auto.
    + unfold is_active in *. cbn [pinfos]. clear -C. induction (pinfos r) as [|i t IH]; cbn [filter existsb] in *; [exact C|].
      apply orb_true_iff in C. destruct C as [C|C].
      * apply andb_prop in C. destruct C as [C1 C2].
        assert (Hna : acked (zmod a 64) (zmod a 64 + zmod b 4) i = false).
        { unfold acked. unfold p_active in C2. destruct (pst i); try discriminate; reflexivity. }
        rewrite Hna. cbn [negb existsb]. rewrite C1, C2. reflexivity.
      * destruct (negb _); cbn [existsb]; [rewrite (IH C); apply orb_true_r|auto].
  - (* 5 loss *)
    unfold p_on_loss. apply (keeps_inv r _ _ _ H). unfold keeps.
    clear. induction (pinfos r) as [|i t IH]; cbn [map]; constructor; auto.
    unfold acked. destruct (pst i) eqn:E; auto. destruct (in_range _ _ pn); auto.
    cbn [set_pst pid pseq]. unfold p_active. cbn [pst]. now rewrite E.
Qed.

Definition greach (case : list Z) (ops : list an_op) : pst_t * issued :=
  fold_left gstep ops (fst (init case), [(0, PID_BASE)]).

Theorem greach_inv case ops : SInv (fst (greach case ops)) (snd (greach case ops)).
Proof.
  unfold greach.
  assert (H0 : SInv (fst (fst (init case), [(0, PID_BASE)])) (snd (fst (init case), [(0, PID_BASE)]))).
  { cbn [fst snd init]. unfold SInv. cbn [preg_ dcid]. constructor; cbn [pinfos map pid pseq find_seq].
    - repeat constructor. auto.
    - repeat constructor.
    - unfold is_active. cbn [pinfos existsb pid]. rewrite N.eqb_refl. unfold p_active. cbn [pst].
      destruct (hd 0 case mod 2 =? 1)%Z; destruct (hd 0 (tl case) mod 2 =? 1)%Z; reflexivity. }
  revert H0. generalize (fst (init case), [(0, PID_BASE)]). induction ops as [|o t IH]; intros si H; cbn [fold_left]; auto.
  apply IH. apply gstep_inv. exact H.
Qed.

(* every RETIRE_CONNECTION_ID frame written in any reachable state names a sequence number the peer issued, and
   the id issued (most recently) under that number is not the destination connection id in use *)
Theorem retire_only_issued_not_self case ops r constraint cap pn sq :
  preg_ (fst (greach case ops)) = Some r ->
  In sq (snd (p_on_transmit r constraint cap pn)) ->
  exists id, find_seq (snd (greach case ops)) sq = Some id /\ id <> dcid (fst (greach case ops)).
Proof.
  intros Hr Hin. pose proof (greach_inv case ops) as H. unfold SInv in H. rewrite Hr in H.
  eapply retire_frames_issued_not_self; eauto.
Qed.

Definition example_case : list Z :=
  [1; 1;  1; 1; 0; 1; 1;  1; 2; 1; 2; 2;  3; 0; 4; 0; 0;  5; 0; 0; 0; 0;  3; 1; 4; 0; 0;  4; 1; 0; 0; 0;
   1; 3; 3; 3; 3;  2; 0; 0; 0; 0;  3; 0; 1; 0; 0;  1; 1; 0; 1; 1;  3; 0; 4; 0; 0;  1; 4; 5; 4; 4]%Z.

Lemma judge_run_example : judge example_case (run example_case) = true /\ (40 < length (run example_case))%nat.
Proof. split; vm_compute; [reflexivity|lia]. Qed.
