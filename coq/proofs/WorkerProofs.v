(* Proofs about model/Worker.v: conservation of credits and no lost wake-up, for every schedule and
   every sender program (one Sender handle), by induction with an invariant.  The wake-up invariant
   reuses SpscWakeInv.waker_inv (the AtomicWaker protocol) and is decided per program-counter case by
   enumeration of its finite arguments. *)
From SQ Require Import lib.Base lib.ListX gen.Gen_C17.
From SQ Require Import model.Spsc model.Worker proofs.SpscClose proofs.SpscEnum proofs.SpscWake proofs.SpscWakeInv.
Local Open Scope N_scope.

Definition s_on_wk (p : pc) : option (bool * wsub) := match p with Wk _ w => Some (false, w) | _ => None end.

Definition wwinv_b (sp rp : pc) (reg waking slot ntf prk rem_pos nosend : bool) : bool :=
  waker_inv (s_on_wk sp) None rp reg waking slot ntf prk
  && implb (after_q1 rp prk && negb ntf && rem_pos) (is_persist_wk sp)
  && implb (idle_parked rp prk && negb ntf && nosend) (is_close2_wk sp || match sp with Done => false | _ => false end)
  && implb nosend (match sp with Wk KClose2 _ | Done => true | _ => false end).
Global Arguments wwinv_b : simpl never.

Definition wwinv (s : wst) : bool :=
  wwinv_b (spc s) (rpc s) (w_reg (wk s)) (w_waking (wk s)) (w_slot (wk s)) (notif s) (parked s)
          (0 <? remaining s) (senders s =? 0).

Ltac wcbn := wst_cbn; cbn [andb orb negb w_reg w_waking w_slot] in *.
Ltac wgen_bools := change (N.ltb 0 0) with false in *; repeat match goal with
  | |- context [N.eqb ?a ?b] => generalize (N.eqb a b); intro
  | |- context [N.ltb ?a ?b] => generalize (N.ltb a b); intro
  end.
Ltac wsplit :=
  repeat match goal with
  | |- context [if ?c then _ else _] =>
      match c with
      | context [?b] => is_var b; match type of b with bool => destruct b end
      end; wcbn
  | |- context [if ?c then _ else _] => destruct c eqn:?; wcbn;
      repeat match goal with E : ?t = _ |- context [?t] => rewrite E end
  | |- context [match ?x with _ => _ end] => destruct x eqn:?; wcbn
  end.
Ltac wcase := unfold wake_step, reg_step; wcbn; wsplit; wcbn; cbn; wgen_bools; enum_finish.

Lemma wwinv_init : wwinv winit = true.
Proof. vm_compute. reflexivity. Qed.

Lemma wwinv_rstep : forall s, wwinv s = true -> wwinv (rstep s) = true.
Proof.
  intros s H. wdst s. destruct xwk as [rr rk rs]. unfold wwinv, rstep in *. wcbn.
  revert H. apply implb_elim.
  destruct_pc xrpc; wcase.
Qed.

Lemma wwinv_sstep : forall s, wwinv s = true -> wwinv (sstep s) = true.
Proof.
  intros s H. wdst s. destruct xwk as [rr rk rs]. unfold wwinv, sstep in *. wcbn.
  revert H. apply implb_elim.
  destruct_pc xspc; wcase.
Qed.
Lemma wwinv_rbegin : forall s, rpc s = Idle -> wwinv s = true -> wwinv (rbegin s) = true.
Proof.
  intros s Hp H. wdst s. cbn in Hp. subst. destruct xwk as [rr rk rs]. unfold wwinv, rbegin in *. wcbn.
  revert H. apply implb_elim. cbn. wgen_bools. enum_finish.
Qed.
Lemma wwinv_sbegin : forall op s, spc s = Idle -> wwinv s = true -> wwinv (sbegin op s) = true.
Proof.
  intros op s Hp H. wdst s. cbn in Hp. subst. destruct xwk as [rr rk rs]. unfold wwinv, sbegin in *.
  revert H. apply implb_elim. destruct op; wcbn; cbn; wgen_bools; enum_finish.
Qed.

(* conservation of credits: what was submitted is waiting, held by the receiver, or finished *)
Definition cons_inv (s : wst) : Prop :=
  submitted s < two64 -> remaining s + credits s + finished s = submitted s.

Lemma cons_rstep : forall s, cons_inv s -> cons_inv (rstep s).
Proof.
  intros s H. wdst s. unfold cons_inv, rstep in *. wcbn.
  destruct_pc xrpc; unfold reg_step; wcbn; cbn; wsplit; cbn; intros; try (apply H; assumption); try (specialize (H ltac:(assumption)); lia).
Qed.
Lemma cons_sstep : forall s, cons_inv s -> cons_inv (sstep s).
Proof.
  intros s H. wdst s. unfold cons_inv, sstep in *. wcbn.
  destruct_pc xspc; unfold wake_step; wcbn; cbn; wsplit; cbn; intros; try (apply H; assumption).
  assert (xsubmitted < two64) as Hb by lia. specialize (H Hb). rewrite N.mod_small by lia. lia.
Qed.

Record wkgood (s : wst) : Prop := mkWkG { wkg_w : wwinv s = true; wkg_c : cons_inv s }.

Lemma wkgood_step : forall y t, wkgood (z_st y) -> wkgood (z_st (wsys_step y t)).
Proof.
  intros [s sp rp] t [W C]. unfold wsys_step. cbn [z_st z_sp z_rp]. destruct t.
  - destruct (spc s) eqn:E; try (cbn [z_st]; constructor; [apply wwinv_sstep|apply cons_sstep]; auto);
      try (constructor; auto; fail).
    destruct sp as [|op r]; cbn [z_st]; [constructor; auto|].
    constructor; [apply wwinv_sbegin; auto|].
    wdst s. unfold cons_inv, sbegin in *. destruct op; wcbn; cbn; auto.
  - destruct (rpc s) eqn:E; try (cbn [z_st]; constructor; [apply wwinv_rstep|apply cons_rstep]; auto).
    destruct rp; cbn [z_st]; [constructor; auto|].
    constructor; [apply wwinv_rbegin; auto|].
    wdst s. unfold cons_inv, rbegin in *. wcbn. cbn. auto.
Qed.

Theorem wkgood_exec : forall sched sp rp, wkgood (z_st (wexec sched sp rp)).
Proof.
  intros. unfold wexec.
  assert (G : wkgood (z_st (mkWy winit sp rp))).
  { constructor; [apply wwinv_init|]. unfold cons_inv. cbn. lia. }
  revert G. generalize (mkWy winit sp rp). induction sched as [|t r IH]; intros y G; cbn [fold_left]; auto.
  apply IH. apply wkgood_step. exact G.
Qed.

(* the sender is inside a wake() that is going to invoke the receiver's waker *)
Definition wk_pending (s : wst) : bool :=
  match spc s with
  | Wk _ w => match w with
              | W1 => negb (w_reg (wk s)) && negb (w_waking (wk s)) && w_slot (wk s)
              | W2 => w_slot (wk s)
              | W3 tk => tk
              | W4 => true
              end
  | _ => false
  end.
Definition wparked (s : wst) : bool :=
  (match rpc s with Idle => true | _ => false end) && parked s && negb (notif s).

(* every schedule, every sender program, any number of polls: credits are conserved, and a parked
   receiver (last poll Pending, not notified) with work waiting or the sender gone has a wake in flight *)
Theorem worker_no_lost_wakeup : forall sched sp rp,
  let s := z_st (wexec sched sp rp) in
  implb (wparked s && ((0 <? remaining s) || (senders s =? 0))) (wk_pending s) = true.
Proof.
  intros sched sp rp s. destruct (wkgood_exec sched sp rp) as [W _]. fold s in W. revert W.
  wdst s. destruct xwk as [rr rk rs]. unfold wwinv, wparked, wk_pending. wcbn.
  apply implb_elim. wgen_bools. enum_finish.
Qed.

Theorem worker_conservation : forall sched sp rp,
  let s := z_st (wexec sched sp rp) in
  submitted s < two64 -> remaining s + credits s + finished s = submitted s.
Proof. intros sched sp rp s. destruct (wkgood_exec sched sp rp) as [_ C]. exact C. Qed.
