(* The executable "one fast retransmission per recovery period" judgement of CcGate accepts every
   replay of the CUBIC model - for every case, every oracle answer sequence, panicking runs included. *)
From SQ Require Import lib.Base model.Cubic model.CcGate.
Local Open Scope N_scope.

Definition req (k : ckind) : bool := match k with Recovery _ true => true | _ => false end.

(* the relation between the judge's memory and the model state:
   the judge's previous flag is the model's flag; outside recovery no grant is outstanding;
   inside recovery an outstanding grant is the start of this recovery period *)
Definition grel (g : gj) (s : cstate) : Prop :=
  gprev g = req (kind s) /\
  match kind s with
  | Recovery t _ => ggrant g = None \/ ggrant g = Some t
  | _ => ggrant g = None
  end.

Lemma gate_short : forall ops g rows, (length rows <= 5)%nat -> gate_from 9 5 g ops rows = true.
Proof.
  induction ops as [|o t IH]; intros g rows L; cbn [gate_from]; [reflexivity|].
  assert (E : nth 5 rows 0%Z = 0%Z) by (apply nth_overflow; lia).
  rewrite E. change (negb (0 =? 0)%Z) with false. cbn [andb].
  apply IH. rewrite skipn_length. lia.
Qed.

Lemma cur_of_row : forall s rest, negb (nth 5 (row s ++ rest) 0 =? 0)%Z = req (kind s).
Proof. intros s rest. unfold row. cbn [app nth]. unfold req. destruct (kind s) as [|t [|]|]; reflexivity. Qed.

Lemma skip_row : forall s rest, skipn 9 (row s ++ rest) = rest.
Proof. intros s rest. unfold row. reflexivity. Qed.

(* how each operation moves the kind *)
Lemma kind_clear_req' : forall s, kind (clear_req s) =
  match kind s with Recovery t true => Recovery t false | k => k end.
Proof. intros s. unfold clear_req. destruct (kind s) as [|t [|]|] eqn:K; cbn [set_kind kind]; congruence. Qed.

Lemma kind_congestion_event : forall s now, kind (congestion_event s now) =
  match kind s with Recovery t r => Recovery t r | _ => Recovery now true end.
Proof. intros s now. unfold congestion_event. destruct (kind s) eqn:K; cbn [kind set_hi]; congruence. Qed.

Lemma kind_on_rtt_update : forall s a b c d,
  kind (on_rtt_update s a b c d) = kind s \/
  (kind s = SlowStart /\ kind (on_rtt_update s a b c d) = CongAvoid).
Proof.
  intros s a b c d. unfold on_rtt_update.
  match goal with |- context [match kind ?S1 with _ => _ end] => set (s1 := S1) end.
  assert (K1 : kind s1 = kind s).
  { subst s1. destruct (match thr s with Some t => t <=? cwnd s | None => false end); [reflexivity|].
    repeat match goal with
           | |- context [match ?x with _ => _ end] => destruct x
           | |- context [if ?x then _ else _] => destruct x
           end; reflexivity. }
  destruct (kind s1) eqn:K; rewrite <- K1; try (left; rewrite K; reflexivity).
  destruct (thr s1) as [t|]; [|left; rewrite K; reflexivity].
  destruct (t <=? cwnd s1); [right|left; rewrite K; reflexivity].
  split; reflexivity.
Qed.

Lemma kind_on_ack : forall s bytes st a,
  kind (on_ack s bytes st a) = kind s \/
  (kind s = SlowStart /\ kind (on_ack s bytes st a) = CongAvoid) \/
  (exists t r, kind s = Recovery t r /\ t < st /\
               match kind (on_ack s bytes st a) with Recovery _ _ => False | _ => True end).
Proof.
  intros s bytes st a. unfold on_ack.
  set (s1 := ack1 s bytes). assert (K1 : kind s1 = kind s) by reflexivity.
  destruct (uu s1); [left; exact K1|].
  assert (K2 : kind (ack2 s1 st) = kind s \/
               exists t r, kind s = Recovery t r /\ t < st /\ kind (ack2 s1 st) = CongAvoid).
  { unfold ack2. rewrite K1. destruct (kind s) as [|t r|] eqn:K; try (left; exact K1).
    destruct (N.ltb_spec t st) as [L|L]; [right; exists t, r; repeat split; assumption|left; exact K1]. }
  set (s2 := ack2 s1 st) in *.
  destruct (max_cwnd s2 <=? cwnd s2).
  - destruct K2 as [K2|(t & r & A & B & C)]; [left; exact K2|].
    right; right. exists t, r. rewrite C. repeat split; assumption.
  - destruct (kind s2) as [|t2 r2|] eqn:K.
    + assert (Ks : kind s = SlowStart).
      { destruct K2 as [K2|(t & r & A & B & C)]; congruence. }
      destruct (thr s2) as [th|]; cbn [set_cwnd set_kind kind].
      * destruct (th <=? _); cbn [set_cwnd set_kind kind]; [right; left; split; [exact Ks|reflexivity]|left; congruence].
      * left. congruence.
    + destruct K2 as [K2|(t & r & A & B & C)]; [left; congruence|congruence].
    + cbn [set_cwnd kind]. rewrite K.
      destruct K2 as [K2|(t & r & A & B & C)]; [left; congruence|].
      right; right. exists t, r. repeat split; assumption.
Qed.

Lemma gate_replay_from : forall ops s g rows, grel g s ->
  gate_from 9 5 g ops (replay_from s ops rows) = true.
Proof.
  induction ops as [|o ops IH]; intros s g rows [Gp Gg]; cbn [gate_from replay_from]; [reflexivity|].
  destruct (next_answer rows) as [a rows'].
  destruct (step s o a) as [s'|] eqn:E; [|apply gate_short; repeat constructor].
  rewrite cur_of_row, skip_row. rewrite Gp.
  destruct o as [bytes app now|bytes st now|bytes pers now|now|m|bytes|st now rtt|]; cbn [step] in E.
  - (* Sent *)
    assert (K : kind s' = kind s \/ (exists t, kind s = Recovery t true /\ kind s' = Recovery t false)).
    { destruct (bytes =? 0); [left; congruence|]. destruct (u32_max <? bif s + bytes); [discriminate|].
      injection E as <-. cbn [set_hs kind]. rewrite kind_clear_req'. cbn [set_uu set_bif kind].
      destruct (kind s) as [|t [|]|]; eauto. }
    destruct K as [K|(t0 & K0 & K)]; rewrite K.
    + rewrite andb_negb_r. cbn [andb]. apply IH. split; cbn [gprev ggrant]; [rewrite K; reflexivity|rewrite K; exact Gg].
    + cbn [req andb]. apply IH. split; cbn [gprev ggrant]; [rewrite K; reflexivity|].
      rewrite K. rewrite K0 in Gg. exact Gg.
  - (* Ack *)
    destruct (bif s <? bytes); [discriminate|]. injection E as <-.
    destruct (kind_on_ack s bytes st a) as [K|[[K0 K]|(t0 & r0 & K0 & L & K)]].
    + rewrite K, andb_negb_r. cbn [andb]. apply IH. split; cbn [gprev ggrant]; [rewrite K; reflexivity|].
      rewrite K. destruct (kind s) as [|t0 r0|]; try (rewrite Gg; reflexivity).
      destruct Gg as [Gg|Gg]; rewrite Gg; [left; reflexivity|]. destruct (t0 <? st); [left|right]; reflexivity.
    + rewrite K, K0. cbn [req andb]. apply IH. split; cbn [gprev ggrant]; [rewrite K; reflexivity|].
      rewrite K. rewrite K0 in Gg. rewrite Gg. reflexivity.
    + assert (R : req (kind (on_ack s bytes st a)) = false).
      { destruct (kind (on_ack s bytes st a)); [reflexivity|contradiction|reflexivity]. }
      rewrite R. cbn [andb]. apply IH. split; cbn [gprev ggrant]; [rewrite R; reflexivity|].
      assert (G' : match ggrant g with Some T => if T <? st then None else Some T | None => None end = None).
      { rewrite K0 in Gg. destruct Gg as [Gg|Gg]; rewrite Gg; [reflexivity|].
        apply N.ltb_lt in L. rewrite L. reflexivity. }
      rewrite G'. destruct (kind (on_ack s bytes st a)); [reflexivity|contradiction|reflexivity].
  - (* Lost *)
    destruct ((bytes =? 0) || (bif s <? bytes)); [discriminate|].
    destruct pers; injection E as <-.
    + cbn [set_kind set_cwnd kind req andb]. apply IH. split; reflexivity.
    + rewrite kind_congestion_event. cbn [set_bif kind].
      destruct (kind s) as [|t0 r0|] eqn:K; [cbn [req negb andb]| |cbn [req negb andb]].
      * rewrite Gg. apply IH. split; cbn [gprev ggrant]; rewrite kind_congestion_event; cbn [set_bif kind]; rewrite K;
          [reflexivity|right; reflexivity].
      * destruct r0; cbn [req negb andb]; apply IH; split; cbn [gprev ggrant]; rewrite kind_congestion_event; cbn [set_bif kind]; rewrite K;
          first [reflexivity|exact Gg].
      * rewrite Gg. apply IH. split; cbn [gprev ggrant]; rewrite kind_congestion_event; cbn [set_bif kind]; rewrite K;
          [reflexivity|right; reflexivity].
  - (* Ecn *)
    injection E as <-. rewrite kind_congestion_event.
    destruct (kind s) as [|t0 r0|] eqn:K; [cbn [req negb andb]| |cbn [req negb andb]].
    + rewrite Gg. apply IH. split; cbn [gprev ggrant]; rewrite kind_congestion_event, K; [reflexivity|right; reflexivity].
    + destruct r0; cbn [req negb andb]; apply IH; split; cbn [gprev ggrant]; rewrite kind_congestion_event, K; first [reflexivity|exact Gg].
    + rewrite Gg. apply IH. split; cbn [gprev ggrant]; rewrite kind_congestion_event, K; [reflexivity|right; reflexivity].
  - (* Mtu *)
    injection E as <-. cbn [kind]. rewrite andb_negb_r. apply IH. split; cbn [gprev ggrant kind]; [reflexivity|exact Gg].
  - (* Discard *)
    destruct (bif s <? bytes); [discriminate|]. injection E as <-. rewrite kind_clear_req'. cbn [set_bif kind].
    destruct (kind s) as [|t0 [|]|] eqn:K; cbn [req negb andb]; apply IH; split; cbn [gprev ggrant];
      rewrite ?kind_clear_req'; cbn [set_bif kind]; rewrite ?K; try reflexivity; exact Gg.
  - (* RttUpd *)
    destruct (tls (hs s)) as [last|]; [|discriminate]. injection E as <-.
    destruct (kind_on_rtt_update s st now rtt last) as [K|[K0 K]].
    + rewrite K, andb_negb_r. apply IH. split; cbn [gprev ggrant]; rewrite K; [reflexivity|exact Gg].
    + rewrite K, K0. cbn [req andb]. apply IH. split; cbn [gprev ggrant]; rewrite K; [reflexivity|].
      rewrite K0 in Gg. exact Gg.
  - (* Nop *)
    injection E as <-. rewrite andb_negb_r. apply IH. split; [reflexivity|exact Gg].
Qed.

(* the judgement accepts every replay of the model: every case, every oracle answer sequence *)
Theorem gate_judge_replay : forall case rows, cubic_gate_judge case (replay case rows) = true.
Proof.
  intros [|m t] rows; [reflexivity|]. unfold cubic_gate_judge, replay.
  rewrite skip_row. apply gate_replay_from. split; reflexivity.
Qed.
