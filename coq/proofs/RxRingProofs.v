(* Proofs about model/RxRing.v: the rx socket task never leaves a parked consumer unnotified after it
   released messages into the ring -- on every exit path of Receiver::poll, for every socket script,
   ring size and prior state. *)
From SQ Require Import lib.Base lib.ListX gen.Gen_C17.
From SQ Require Import model.CursorRing model.RxRing.
Local Open Scope N_scope.

Lemma early_wakes_true : early_wakes = true.
Proof. reflexivity. Qed.

Lemma ppa_frame : forall size s s' n, producer_poll_acquire size s = (s', n) ->
  cw s' = cw s /\ released s' = released s /\ ropen s' = ropen s /\ cwakes s' = cwakes s.
Proof.
  intros size s s' n. unfold producer_poll_acquire.
  destruct (acquire_producer size u32max (cur s)) as [c1 n1]. destruct (0 <? n1).
  - intros E. inversion E. subst. cbn. auto.
  - destruct (acquire_producer size u32max c1) as [c2 n2]. intros E. inversion E. subst. cbn. auto.
Qed.

Lemma wake_consumer_spec : forall s, cw (wake_consumer s) = false /\ released (wake_consumer s) = released s
  /\ ropen (wake_consumer s) = ropen s /\ cwakes s <= cwakes (wake_consumer s)
  /\ (cw s = true -> cwakes (wake_consumer s) = cwakes s + 1).
Proof. intros s. unfold wake_consumer. destruct (cw s) eqn:E; cbn; repeat split; auto; try lia; try discriminate. Qed.

(* loop invariant: once a message has been released in this poll (pending_wake), every exit wakes *)
Lemma rx_loop_wakes : forall fuel size script pwk s s' code,
  rx_loop fuel size script pwk s = (s', code) -> code <> 7 -> ropen s' = true ->
  released s <= released s' /\
  ((pwk = true \/ released s < released s') -> cw s' = false /\ (cw s = true -> cwakes s < cwakes s')).
Proof.
  induction fuel as [|f IH]; intros size script pwk s s' code; cbn [rx_loop].
  - intros E. inversion E. congruence.
  - destruct (producer_poll_acquire size s) as [s1 n] eqn:Ep.
    destruct (ppa_frame _ _ _ _ Ep) as (F1 & F2 & F3 & F4).
    destruct (n =? 0).
    + destruct (negb (ropen s1)) eqn:Eo.
      * intros E Hc Ho. inversion E. subst. rewrite Ho in Eo. discriminate.
      * rewrite early_wakes_true, andb_true_r. intros E Hc Ho. inversion E. subst. clear E.
        destruct pwk.
        -- destruct (wake_consumer_spec s1) as (W1 & W2 & W3 & W4 & W5). split; [lia|].
           intros _. split; auto. intros Hcw. rewrite W5 by congruence. lia.
        -- split; [lia|]. intros [H|H]; [discriminate|lia].
    + destruct script as [|v rest].
      * intros E Hc Ho. inversion E. subst. clear E.
        destruct pwk.
        -- destruct (wake_consumer_spec s1) as (W1 & W2 & W3 & W4 & W5). split; [lia|].
           intros _. split; auto. intros Hcw. rewrite W5 by congruence. lia.
        -- split; [lia|]. intros [H|H]; [discriminate|lia].
      * destruct v as [|p].
        -- intros E Hc Ho. inversion E. subst. clear E.
           destruct pwk.
           ++ destruct (wake_consumer_spec s1) as (W1 & W2 & W3 & W4 & W5). split; [lia|].
              intros _. split; auto. intros Hcw. rewrite W5 by congruence. lia.
           ++ split; [lia|]. intros [H|H]; [discriminate|lia].
        -- destruct (produce size (N.min (N.pos p) (p_len (cur s1))) (cur s1)) as [c2 k] eqn:Epr.
           intros E Hc Ho. apply IH in E; auto. cbn [released cw cwakes] in E. destruct E as (L & K).
           split; [lia|]. intros _. destruct K as (K1 & K2); auto.
           split; auto. intros Hcw. rewrite <- F4. apply K2. congruence.
Qed.

(* the fuel of task_poll suffices: every iteration consumes a script entry or returns *)
Lemma rx_loop_fuel : forall size scr fuel pwk r r',
  (length scr < fuel)%nat -> rx_loop fuel size scr pwk r = (r', 7) -> False.
Proof.
  intros size scr. induction scr as [|v rest IHs]; intros fuel pwk r r' Hf; destruct fuel as [|f]; try lia; cbn [rx_loop];
    destruct (producer_poll_acquire size r) as [r1 n]; destruct (n =? 0);
    try (destruct (negb (ropen r1)); intros X; inversion X; fail).
  - intros X. inversion X. destruct (ropen (if pwk then wake_consumer r1 else r1)); discriminate.
  - destruct v.
    + intros X. inversion X. destruct (ropen (if pwk then wake_consumer r1 else r1)); discriminate.
    + destruct (produce size (N.min (N.pos p) (p_len (cur r1))) (cur r1)). intros X. apply IHs in X; auto. cbn in Hf. lia.
Qed.

(* Receiver::poll, any socket script, any state of the ring: if this poll released at least one message
   and the consumer is still there, the consumer's waker cell is empty when poll returns, and if it
   was registered its waker has been invoked during this poll *)
Theorem rx_task_no_lost_wakeup : forall size script s s' code,
  task_poll size script s = (s', code) -> ropen s' = true -> released s < released s' ->
  cw s' = false /\ (cw s = true -> cwakes s < cwakes s').
Proof.
  intros size script s s' code E Ho Hr. unfold task_poll in E.
  assert (Hc : code <> 7).
  { intros ->. apply rx_loop_fuel in E; auto. }
  apply rx_loop_wakes in E; auto.
  destruct E as (_ & K). destruct (has_dw s); cbn [released cw cwakes] in *; apply K; auto.
Qed.

(* ---------------------------------------------------------------------------------------- *)
(* the executable judgement accepts every run of the model                                   *)
(* ---------------------------------------------------------------------------------------- *)
From SQ Require Import proofs.SpscData proofs.CursorProofs.

Section Judge.
Variable size : N.
Hypothesis Hs0 : 0 < size.
Hypothesis Hs1 : size <= 2147483648.

Definition rgood (s : rst) : Prop := cinvr size (cur s) /\ released s = tw (cur s).

Lemma ppa_good : forall s s' n, producer_poll_acquire size s = (s', n) -> rgood s -> rgood s' /\ tr (cur s') = tr (cur s).
Proof.
  intros s s' n. unfold producer_poll_acquire, rgood.
  destruct (acquire_producer size u32max (cur s)) as [c1 n1] eqn:E1.
  assert (A1 : cinvr size (cur s) -> cinvr size c1 /\ tw c1 = tw (cur s) /\ tr c1 = tr (cur s)).
  { intros C. split. { replace c1 with (fst (acquire_producer size u32max (cur s))) by (rewrite E1; auto). apply inv_acquire_producer; auto. }
    revert E1. unfold acquire_producer. destruct (_ <=? _); [intros X; inversion X; auto|]. destruct (_ =? _); intros X; inversion X; auto. }
  destruct (0 <? n1).
  - intros E [C R]. inversion E. subst. cbn. destruct (A1 C) as (A & B & D). rewrite B, D. auto.
  - destruct (acquire_producer size u32max c1) as [c2 n2] eqn:E2. intros E [C R]. inversion E. subst. cbn.
    destruct (A1 C) as (A & B & D).
    assert (A2 : cinvr size c2 /\ tw c2 = tw c1 /\ tr c2 = tr c1).
    { split. { replace c2 with (fst (acquire_producer size u32max c1)) by (rewrite E2; auto). apply inv_acquire_producer; auto. }
      revert E2. unfold acquire_producer. destruct (_ <=? _); [intros X; inversion X; auto|]. destruct (_ =? _); intros X; inversion X; auto. }
    destruct A2 as (A' & B' & D'). rewrite B', D', B, D. auto.
Qed.

Lemma acqp_len : forall w c c' n, acquire_producer size w c = (c', n) -> n = p_len c'.
Proof.
  intros w c c' n. unfold acquire_producer. destruct (_ <=? _); [intros X; inversion X; auto|].
  destruct (_ =? _); intros X; inversion X; auto.
Qed.
Lemma ppa_len : forall s s' n, producer_poll_acquire size s = (s', n) -> n = p_len (cur s').
Proof.
  intros s s' n. unfold producer_poll_acquire.
  destruct (acquire_producer size u32max (cur s)) as [c1 n1] eqn:E1. apply acqp_len in E1.
  destruct (0 <? n1).
  - intros X. inversion X. subst. cbn. auto.
  - destruct (acquire_producer size u32max c1) as [c2 n2] eqn:E2. apply acqp_len in E2.
    intros X. inversion X. subst. cbn. auto.
Qed.

(* a poll that released nothing leaves the consumer's waker alone *)
Ltac fin := split; [assumption|]; split; [congruence|]; split; [lia|]; intros; try discriminate; split; congruence.

Lemma rx_loop_good : forall fuel script pwk s s' code,
  rx_loop fuel size script pwk s = (s', code) -> rgood s ->
  rgood s' /\ tr (cur s') = tr (cur s) /\ released s <= released s' /\
  (pwk = false -> released s' = released s -> cw s' = cw s /\ cwakes s' = cwakes s).
Proof.
  induction fuel as [|f IH]; intros script pwk s s' code; cbn [rx_loop].
  - intros E G. inversion E. subst. split; [auto|]. split; [auto|]. split; [apply N.le_refl|]. auto.
  - destruct (producer_poll_acquire size s) as [s1 n] eqn:Ep. intros E G.
    destruct (ppa_good _ _ _ Ep G) as (G1 & T1). destruct (ppa_frame _ _ _ _ Ep) as (F1 & F2 & F3 & F4).
    pose proof (ppa_len _ _ _ Ep) as Hn.
    assert (W : forall x, rgood x -> rgood (wake_consumer x) /\ tr (cur (wake_consumer x)) = tr (cur x) /\ released (wake_consumer x) = released x).
    { intros x Gx. unfold wake_consumer. destruct (cw x); auto. }
    destruct (n =? 0) eqn:En.
    + destruct (negb (ropen s1)).
      * inversion E. subst. fin.
      * inversion E. subst. destruct pwk; cbn [andb].
        -- destruct early_wakes; [destruct (W s1 G1) as (W1 & W2 & W3)|]; fin.
        -- fin.
    + destruct script as [|v rest]; [|destruct v as [|p]].
      * inversion E. subst. destruct pwk; [destruct (W s1 G1) as (W1 & W2 & W3)|]; fin.
      * inversion E. subst. destruct pwk; [destruct (W s1 G1) as (W1 & W2 & W3)|]; fin.
      * destruct (produce size (N.min (N.pos p) (p_len (cur s1))) (cur s1)) as [c2 k] eqn:Epr.
        assert (Gp : cinvr size c2 /\ tw c2 = tw (cur s1) + k /\ tr c2 = tr (cur s1) /\ k = N.min (N.pos p) (p_len (cur s1))).
        { destruct G1 as [C1 R1]. split. { replace c2 with (fst (produce size (N.min (N.pos p) (p_len (cur s1))) (cur s1))) by (rewrite Epr; auto). apply inv_produce; auto. }
          revert Epr. unfold produce. intros X. inversion X. cbn. repeat split; auto. lia. }
        destruct Gp as (Gc & Gt & Gr & Gk).
        apply N.eqb_neq in En.
        apply IH in E.
        -- cbn [cur released cw cwakes] in E. destruct E as (E1 & E2 & E3 & E4).
           split; [assumption|]; split; [congruence|]; split; [lia|]; intros; exfalso; lia.
        -- unfold rgood. cbn [cur released]. destruct G1 as [C1 R1]. split; auto. rewrite R1, Gt, Gk. reflexivity.
Qed.

Lemma acqc_spec : forall w c c' n, 1 <= w -> cinvr size c -> acquire_consumer size w c = (c', n) ->
  cinvr size c' /\ tw c' = tw c /\ tr c' = tr c /\ n <= tw c - tr c /\ (n = 0 -> tw c = tr c).
Proof.
  intros w c c' n Hw C E.
  assert (C' : cinvr size c') by (replace c' with (fst (acquire_consumer size w c)) by (rewrite E; auto); apply inv_acquire_consumer; auto).
  split; [exact C'|]. clear C'.
  pose proof (ci_ord _ _ C) as O. pose proof (ci_clen _ _ C) as CL.
  revert E. unfold acquire_consumer.
  destruct (N.min w size <=? c_len c) eqn:E1.
  - intros X. inversion X. subst. apply N.leb_le in E1. split; [auto|]. split; [auto|]. split; lia.
  - destruct (c_cp c =? g_prod c) eqn:E2.
    + intros X. inversion X. subst. apply N.eqb_eq in E2.
      rewrite (ci_ccp _ _ C), (ci_prod _ _ C) in E2. apply mod_inj_window in E2; [|reflexivity|lia|unfold two32; lia].
      split; [auto|]. split; [auto|]. split; lia.
    + intros X. inversion X. subst. cbn [tw tr]. split; [auto|]. split; [auto|].
      rewrite (ci_prod _ _ C), (ci_ccc _ _ C). rewrite wsub32_spec by (unfold two32; lia). split; lia.
Qed.

Ltac sp := split; [solve [auto | congruence | lia]|].
Lemma cpa_spec : forall w s s' code n, 1 <= w -> rgood s -> consumer_poll_acquire size w s = (s', code, n) ->
  rgood s' /\ tw (cur s') = tw (cur s) /\ tr (cur s') = tr (cur s) /\ cwakes s' = cwakes s /\ ropen s' = ropen s /\
  ((code = 1 /\ 0 < n /\ n <= tw (cur s) - tr (cur s)) \/
   (code = 0 /\ n = 0 /\ tw (cur s) = tr (cur s) /\ cw s' = true)).
Proof.
  intros w s s' code n Hw [C R] E. revert E. unfold consumer_poll_acquire.
  destruct (acquire_consumer size w (cur s)) as [c1 n1] eqn:E1.
  destruct (acqc_spec _ _ _ _ Hw C E1) as (C1 & T1 & T2 & L1 & Z1).
  destruct (0 <? n1) eqn:P1.
  - intros X. inversion X. subst. apply N.ltb_lt in P1. unfold rgood. cbn.
    split; [split; [exact C1|congruence]|]. sp. sp. sp. sp. left. sp. sp. lia.
  - destruct (acquire_consumer size w c1) as [c2 n2] eqn:E2.
    destruct (acqc_spec _ _ _ _ Hw C1 E2) as (C2 & T3 & T4 & L2 & Z2).
    destruct (0 <? n2) eqn:P2.
    + intros X. inversion X. subst. apply N.ltb_lt in P2. unfold rgood. cbn.
      split; [split; [exact C2|congruence]|]. sp. sp. sp. sp. left. sp. sp. lia.
    + intros X. inversion X. subst. apply N.ltb_ge in P2. unfold rgood. cbn.
      split; [split; [exact C2|congruence]|]. sp. sp. sp. sp. right. sp. sp.
      assert (n2 = 0) as Hz by lia. specialize (Z2 Hz). split; [congruence|reflexivity].
Qed.

Lemma crel_spec : forall a s, rgood s ->
  let s' := consumer_release size a s in
  rgood s' /\ tw (cur s') = tw (cur s) /\ tr (cur s') = tr (cur s) + N.min a (c_len (cur s)) /\
  cw s' = cw s /\ cwakes s' = cwakes s /\ ropen s' = ropen s /\ N.min a (c_len (cur s)) <= tw (cur s) - tr (cur s).
Proof.
  intros a s [C R]. unfold consumer_release.
  destruct (consume size (N.min a (c_len (cur s))) (cur s)) as [c1 vs] eqn:E.
  assert (C1 : cinvr size c1) by (replace c1 with (fst (consume size (N.min a (c_len (cur s))) (cur s))) by (rewrite E; auto); apply inv_consume; auto).
  assert (T : tw c1 = tw (cur s) /\ tr c1 = tr (cur s) + N.min a (c_len (cur s))).
  { revert E. unfold consume. intros X. inversion X. cbn. split; auto. f_equal. lia. }
  destruct T as [T1 T2]. pose proof (ci_ord _ _ C). pose proof (ci_clen _ _ C).
  unfold wake_task, set_cur, rgood. destruct (pw _); cbn; (split; [split; [exact C1|congruence]|]); sp; sp; sp; sp; sp; lia.
Qed.

Lemma task_poll_spec : forall script s s' code, rgood s -> task_poll size script s = (s', code) ->
  rgood s' /\ tr (cur s') = tr (cur s) /\ released s <= released s' /\
  (released s' = released s -> cw s' = cw s /\ cwakes s' = cwakes s).
Proof.
  intros script s s' code G E. unfold task_poll in E. apply rx_loop_good in E.
  - destruct (has_dw s); cbn [cur released cw cwakes] in E; destruct E as (A & B & C & D); (split; [exact A|]); sp; sp; intros; apply D; auto.
  - destruct (has_dw s); auto.
Qed.

Lemma rx_loop_ropen : forall fuel script pwk s s' code, rx_loop fuel size script pwk s = (s', code) -> ropen s' = ropen s.
Proof.
  induction fuel as [|f IH]; intros script pwk s s' code; cbn [rx_loop].
  - intros E. inversion E. auto.
  - destruct (producer_poll_acquire size s) as [s1 n] eqn:Ep. destruct (ppa_frame _ _ _ _ Ep) as (F1 & F2 & F3 & F4).
    assert (W : forall x, ropen (wake_consumer x) = ropen x) by (intros x; unfold wake_consumer; destruct (cw x); auto).
    destruct (n =? 0).
    + destruct (negb (ropen s1)); intros E; inversion E; subst; auto.
      destruct (pwk && early_wakes); [rewrite W|]; auto.
    + destruct script as [|v rest]; [|destruct v as [|p]]; try (intros E; inversion E; subst; destruct pwk; [rewrite W|]; auto; fail).
      destruct (produce size (N.min (N.pos p) (p_len (cur s1))) (cur s1)) as [c2 k]. intros E. apply IH in E. cbn in E. congruence.
Qed.

Lemma task_poll_ropen : forall script s s' code, task_poll size script s = (s', code) -> ropen s' = ropen s.
Proof.
  intros script s s' code E. unfold task_poll in E. apply rx_loop_ropen in E. destruct (has_dw s); cbn in E; auto.
Qed.

Definition wait_ok (wait : option Z) (s : rst) : Prop :=
  match wait with Some w0 => ropen s = true /\ cw s = true /\ w0 = Nz (cwakes s) | None => True end.

Lemma drop_good : forall s, rgood s -> rgood (consumer_drop s) /\ cur (consumer_drop s) = cur s.
Proof.
  intros s G. unfold consumer_drop, wake_task. cbn. destruct (pw s); cbn; destruct (dw s); cbn; auto.
Qed.

Lemma judge_rrun : forall fuel ops alive s wait,
  rgood s -> wait_ok wait s -> (alive = false -> wait = None) -> (alive = true -> ropen s = true) ->
  rjudge fuel ops wait (Nz (tw (cur s)) - Nz (tr (cur s))) (rrun fuel size ops alive s) = true \/ (fuel <= length ops)%nat.
Proof.
  induction fuel as [|f IH]; intros ops alive s wait G Wk Ha Hro; [right; lia|].
  destruct ops as [|op r]; [left; reflexivity|].
  cbn [rrun rjudge].
  set (a := N.min (zN (hd 0%Z r)) 100000). set (b := N.min (zN (hd 0%Z (tl r))) 100000).
  assert (Hlen : forall X : Prop, (X \/ (f <= length (tl (tl r)))%nat) -> X \/ (S f <= length (op :: r))%nat).
  { intros X [H|H]; [left; auto|right]. destruct r as [|x [|y r]]; cbn in *; lia. }
  assert (O : tr (cur s) <= tw (cur s)) by (destruct G as [C _]; pose proof (ci_ord _ _ C); lia).
  assert (DROP : (if negb alive
     then [9%Z; 0%Z; Nz (cwakes s); Nz (twakes s)] ++ rrun f size (tl (tl r)) alive s
     else let s' := consumer_drop s in [0%Z; 0%Z; Nz (cwakes s'); Nz (twakes s')] ++ rrun f size (tl (tl r)) false s') = 
     (if negb alive
     then [9%Z; 0%Z; Nz (cwakes s); Nz (twakes s)] ++ rrun f size (tl (tl r)) alive s
     else let s' := consumer_drop s in [0%Z; 0%Z; Nz (cwakes s'); Nz (twakes s')] ++ rrun f size (tl (tl r)) false s')) by reflexivity.
  clear DROP.
  assert (DR : rjudge f (tl (tl r)) None (Nz (tw (cur s)) - Nz (tr (cur s)))
     (if negb alive then rrun f size (tl (tl r)) alive s else rrun f size (tl (tl r)) false (consumer_drop s)) = true
     \/ (f <= length (tl (tl r)))%nat).
  { destruct alive; cbn [negb].
    - destruct (drop_good s G) as [Gd Cd]. rewrite <- Cd. apply IH; auto; try exact I; try discriminate.
    - apply IH; auto; try exact I; try discriminate. }
  destruct op as [|[[ | | ]|[ | | ]|]|].
  - (* task poll *)
    destruct (task_poll size [a; b] s) as [s' code] eqn:E.
    destruct (task_poll_spec _ _ _ _ G E) as (G' & T & M & K).
    pose proof (task_poll_ropen _ _ _ _ E) as Ro.
    destruct G as [C R]. destruct G' as [C' R'].
    cbn [app].
    set (n := released s' - released s).
    assert (Hn : (0 <=? Nz n)%Z = true) by (apply Z.leb_le; unfold Nz; lia).
    rewrite Hn. cbn [andb].
    apply Hlen.
    destruct (0 <? Nz n)%Z eqn:Pn.
    + apply Z.ltb_lt in Pn.
      assert (OK : match wait with Some w0 => (w0 <? Nz (cwakes s'))%Z | None => true end = true).
      { destruct wait as [w0|]; auto. destruct Wk as (W1 & W2 & W3).
        destruct (rx_task_no_lost_wakeup size [a; b] s s' code E) as (_ & Q); [congruence|unfold Nz in Pn; unfold n in Pn; lia|].
        apply Z.ltb_lt. specialize (Q W2). subst w0. unfold Nz. lia. }
      rewrite OK. cbn [andb].
      replace (Nz (tw (cur s)) - Nz (tr (cur s)) + Nz n)%Z with (Nz (tw (cur s')) - Nz (tr (cur s')))%Z
        by (rewrite T, <- R', <- R; unfold n, Nz; lia).
      apply IH; [split; auto|exact I|auto|intros Hal; rewrite Ro; auto].
    + apply Z.ltb_ge in Pn. cbn [andb].
      assert (Req : released s' = released s) by (unfold n, Nz in Pn; lia).
      replace (Nz (tw (cur s)) - Nz (tr (cur s)) + Nz n)%Z with (Nz (tw (cur s')) - Nz (tr (cur s')))%Z
        by (rewrite T, <- R', <- R; unfold n, Nz; lia).
      apply IH; [split; auto| |auto|intros Hal; rewrite Ro; auto].
      destruct wait as [w0|]; [|exact I]. destruct Wk as (W1 & W2 & W3). destruct (K Req) as [K1 K2].
      repeat split; congruence.
  - apply Hlen. cbn [app]. destruct alive; cbn [negb app]; exact DR.
  - apply Hlen. cbn [app]. destruct alive; cbn [negb app]; exact DR.
  - apply Hlen. cbn [app]. destruct alive; cbn [negb app]; exact DR.
  - apply Hlen. cbn [app]. destruct alive; cbn [negb app]; exact DR.
  - apply Hlen. cbn [app]. destruct alive; cbn [negb app]; exact DR.
  - (* release *)
    apply Hlen. destruct alive; cbn [negb].
    + destruct (crel_spec a s G) as (G' & T1 & T2 & K1 & K2 & K3 & L).
      cbn [app]. cbn [Z.eqb].
      set (n := N.min a (c_len (cur s))) in *.
      replace (0 <=? Nz n)%Z with true by (symmetry; apply Z.leb_le; unfold Nz; lia).
      replace (Nz n <=? Nz (tw (cur s)) - Nz (tr (cur s)))%Z with true by (symmetry; apply Z.leb_le; unfold Nz; lia).
      cbn [andb].
      replace (Nz (tw (cur s)) - Nz (tr (cur s)) - Nz n)%Z with (Nz (tw (cur (consumer_release size a s))) - Nz (tr (cur (consumer_release size a s))))%Z
        by (rewrite T1, T2; unfold Nz; lia).
      apply IH; auto; [|intros Hal; rewrite K3; auto].
      destruct wait as [w0|]; [|exact I]. destruct Wk as (W1 & W2 & W3). repeat split; congruence.
    + cbn [app]. cbn [Z.eqb]. rewrite (Ha eq_refl). apply IH; auto; try exact I; try discriminate.
  - (* consumer poll_acquire *)
    apply Hlen. destruct alive; cbn [negb].
    + destruct (consumer_poll_acquire size (N.max a 1) s) as [[s' code] n] eqn:E.
      assert (Hw1 : 1 <= N.max a 1) by lia.
      destruct (cpa_spec _ _ _ _ _ Hw1 G E) as (G' & T1 & T2 & K1 & K2 & [(c1 & c2 & c3)|(c1 & c2 & c3 & c4)]).
      * subst code. cbn [app]. cbn [Z.eqb Nz Z.of_N].
        replace (0 <? Nz n)%Z with true by (symmetry; apply Z.ltb_lt; unfold Nz; lia).
        replace (Nz n <=? Nz (tw (cur s)) - Nz (tr (cur s)))%Z with true by (symmetry; apply Z.leb_le; unfold Nz; lia).
        cbn [andb]. rewrite <- T1, <- T2. apply IH; auto; [exact I|intros Hal; rewrite K2; auto].
      * subst code n. cbn [app]. cbn [Z.eqb Nz Z.of_N].
        replace (Nz (tw (cur s)) - Nz (tr (cur s)) =? 0)%Z with true by (symmetry; apply Z.eqb_eq; rewrite c3; lia).
        cbn [andb]. rewrite <- T1, <- T2. apply IH; auto; [|discriminate|intros Hal; rewrite K2; auto].
        cbn. repeat split; auto. rewrite K2. auto.
    + cbn [app]. cbn [Z.eqb]. rewrite (Ha eq_refl). apply IH; auto; try exact I; try discriminate.
  - apply Hlen. cbn [app]. destruct alive; cbn [negb app]; exact DR.
Qed.
End Judge.

Theorem rxring_judge_run : forall case, RxRing.judge case (RxRing.run case) = true.
Proof.
  intros case. unfold judge, run, rsize.
  set (k2 := N.min (zN (hd 0%Z case)) 6).
  assert (Hp : 0 < 2 ^ k2) by (apply N.neq_0_lt_0; apply N.pow_nonzero; discriminate).
  assert (Hl : 2 ^ k2 <= 2147483648) by (change 2147483648 with (2 ^ 31); apply N.pow_le_mono_r; [discriminate|unfold k2; lia]).
  assert (G : rgood (2 ^ k2) (rinit (2 ^ k2))).
  { split; [apply cinvr_init; auto; unfold two32; lia|reflexivity]. }
  assert (A : true = false -> @None Z = None) by auto.
  assert (B : true = true -> ropen (rinit (2 ^ k2)) = true) by auto.
  destruct (judge_rrun (2 ^ k2) Hp Hl (S (length case)) (tl case) true (rinit (2 ^ k2)) None G I A B) as [J|J].
  - exact J.
  - exfalso. destruct case; cbn in J; lia.
Qed.
