(* Proofs about model/RxRing.v: the rx socket task never leaves a parked consumer unnotified after it
   released messages into the ring -- on every exit path of Receiver::poll, for every socket script,
   ring size and prior state. *)
From SQ Require Import lib.Base lib.ListX gen.Gen_C17.
From SQ Require Import model.CursorRing model.RxRing.
Local Open Scope N_scope.

Lemma early_wakes_true : early_wakes = true.
Proof. reflexivity. Qed.

Lemma ppa_frame : forall size s s' n, producer_poll_acquire size s = (s', n) ->
  cw s' = cw s /\ released s' = released s /\ ropen s' = ropen s /\ cwakes s' = cwakes s.
Proof.
  intros size s s' n. unfold producer_poll_acquire.
  destruct (acquire_producer size u32max (cur s)) as [c1 n1]. destruct (0 <? n1).
  - intros E. inversion E. subst. cbn. auto.
  - destruct (acquire_producer size u32max c1) as [c2 n2]. intros E. inversion E. subst. cbn. auto.
Qed.

Lemma wake_consumer_spec : forall s, cw (wake_consumer s) = false /\ released (wake_consumer s) = released s
  /\ ropen (wake_consumer s) = ropen s /\ cwakes s <= cwakes (wake_consumer s)
  /\ (cw s = true -> cwakes (wake_consumer s) = cwakes s + 1).
Proof. intros s. unfold wake_consumer. destruct (cw s) eqn:E; cbn; repeat split; auto; try lia; try discriminate. Qed.

(* loop invariant: once a message has been released in this poll (pending_wake), every exit wakes *)
Lemma rx_loop_wakes : forall fuel size script pwk s s' code,
  rx_loop fuel size script pwk s = (s', code) -> code <> 7 -> ropen s' = true ->
  released s <= released s' /\
  ((pwk = true \/ released s < released s') -> cw s' = false /\ (cw s = true -> cwakes s < cwakes s')).
Proof.
  induction fuel as [|f IH]; intros size script pwk s s' code; cbn [rx_loop].
  - intros E. inversion E. congruence.
  - destruct (producer_poll_acquire size s) as [s1 n] eqn:Ep.
    destruct (ppa_frame _ _ _ _ Ep) as (F1 & F2 & F3 & F4).
    destruct (n =? 0).
    + destruct (negb (ropen s1)) eqn:Eo.
      * intros E Hc Ho. inversion E. subst. rewrite Ho in Eo. discriminate.
      * rewrite early_wakes_true, andb_true_r. intros E Hc Ho. inversion E. subst. clear E.
        destruct pwk.
        -- destruct (wake_consumer_spec s1) as (W1 & W2 & W3 & W4 & W5). split; [lia|].
           intros _. split; auto. intros Hcw. rewrite W5 by congruence. lia.
        -- split; [lia|]. intros [H|H]; [discriminate|lia].
    + destruct script as [|v rest].
      * intros E Hc Ho. inversion E. subst. clear E.
        destruct pwk.
        -- destruct (wake_consumer_spec s1) as (W1 & W2 & W3 & W4 & W5). split; [lia|].
           intros _. split; auto. intros Hcw. rewrite W5 by congruence. lia.
        -- split; [lia|]. intros [H|H]; [discriminate|lia].
      * destruct v as [|p].
        -- intros E Hc Ho. inversion E. subst. clear E.
           destruct pwk.
           ++ destruct (wake_consumer_spec s1) as (W1 & W2 & W3 & W4 & W5). split; [lia|].
              intros _. split; auto. intros Hcw. rewrite W5 by congruence. lia.
           ++ split; [lia|]. intros [H|H]; [discriminate|lia].
        -- destruct (produce size (N.min (N.pos p) (p_len (cur s1))) (cur s1)) as [c2 k] eqn:Epr.
           intros E Hc Ho. apply IH in E; auto. cbn [released cw cwakes] in E. destruct E as (L & K).
           split; [lia|]. intros _. destruct K as (K1 & K2); auto.
           split; auto. intros Hcw. rewrite <- F4. apply K2. congruence.
Qed.

(* the fuel of task_poll suffices: every iteration consumes a script entry or returns *)
Lemma rx_loop_fuel : forall size scr fuel pwk r r',
  (length scr < fuel)%nat -> rx_loop fuel size scr pwk r = (r', 7) -> False.
Proof.
  intros size scr. induction scr as [|v rest IHs]; intros fuel pwk r r' Hf; destruct fuel as [|f]; try lia; cbn [rx_loop];
    destruct (producer_poll_acquire size r) as [r1 n]; destruct (n =? 0);
    try (destruct (negb (ropen r1)); intros X; inversion X; fail).
  - intros X. inversion X. destruct (ropen (if pwk then wake_consumer r1 else r1)); discriminate.
  - destruct v.
    + intros X. inversion X. destruct (ropen (if pwk then wake_consumer r1 else r1)); discriminate.
    + destruct (produce size (N.min (N.pos p) (p_len (cur r1))) (cur r1)). intros X. apply IHs in X; auto. cbn in Hf. lia.
Qed.

(* Receiver::poll, any socket script, any state of the ring: if this poll released at least one message
   and the consumer is still there, the consumer's waker cell is empty when poll returns, and if it
   was registered its waker has been invoked during this poll *)
Theorem rx_task_no_lost_wakeup : forall size script s s' code,
  task_poll size script s = (s', code) -> ropen s' = true -> released s < released s' ->
  cw s' = false /\ (cw s = true -> cwakes s < cwakes s').
Proof.
  intros size script s s' code E Ho Hr. unfold task_poll in E.
  assert (Hc : code <> 7).
  { intros ->. apply rx_loop_fuel in E; auto. }
  apply rx_loop_wakes in E; auto.
  destruct E as (_ & K). destruct (has_dw s); cbn [released cw cwakes] in *; apply K; auto.
Qed.

(* ---------------------------------------------------------------------------------------- *)
(* the executable judgement accepts every run of the model                                   *)
(* ---------------------------------------------------------------------------------------- *)
From SQ Require Import proofs.SpscData proofs.CursorProofs.

Section Judge.
Variable size : N.
Hypothesis Hs0 : 0 < size.
Hypothesis Hs1 : size <= 2147483648.

Definition rgood (s : rst) : Prop := cinvr size (cur s) /\ released s = tw (cur s).

Lemma ppa_good : forall s s' n, producer_poll_acquire size s = (s', n) -> rgood s -> rgood s' /\ tr (cur s') = tr (cur s).
Proof.
  intros s s' n. unfold producer_poll_acquire, rgood.
  destruct (acquire_producer size u32max (cur s)) as [c1 n1] eqn:E1.
  assert (A1 : cinvr size (cur s) -> cinvr size c1 /\ tw c1 = tw (cur s) /\ tr c1 = tr (cur s)).
  { intros C. split. { replace c1 with (fst (acquire_producer size u32max (cur s))) by (rewrite E1; auto). apply inv_acquire_producer; auto. }
    revert E1. unfold acquire_producer. destruct (_ <=? _); [intros X; inversion X; auto|]. destruct (_ =? _); intros X; inversion X; auto. }
  destruct (0 <? n1).
  - intros E [C R]. inversion E. subst. cbn. destruct (A1 C) as (A & B & D). rewrite B, D. auto.
  - destruct (acquire_producer size u32max c1) as [c2 n2] eqn:E2. intros E [C R]. inversion E. subst. cbn.
    destruct (A1 C) as (A & B & D).
    assert (A2 : cinvr size c2 /\ tw c2 = tw c1 /\ tr c2 = tr c1).
    { split. { replace c2 with (fst (acquire_producer size u32max c1)) by (rewrite E2; auto). apply inv_acquire_producer; auto. }
      revert E2. unfold acquire_producer. destruct (_ <=? _); [intros X; inversion X; auto|]. destruct (_ =? _); intros X; inversion X; auto. }
    destruct A2 as (A' & B' & D'). rewrite B', D', B, D. auto.
Qed.

Lemma acqp_len : forall w c c' n, acquire_producer size w c = (c', n) -> n = p_len c'.
Proof.
  intros w c c' n. unfold acquire_producer. destruct (_ <=? _); [intros X; inversion X; auto|].
  destruct (_ =? _); intros X; inversion X; auto.
Qed.
Lemma ppa_len : forall s s' n, producer_poll_acquire size s = (s', n) -> n = p_len (cur s').
Proof.
  intros s s' n. unfold producer_poll_acquire.
  destruct (acquire_producer size u32max (cur s)) as [c1 n1] eqn:E1. apply acqp_len in E1.
  destruct (0 <? n1).
  - intros X. inversion X. subst. cbn. auto.
  - destruct (acquire_producer size u32max c1) as [c2 n2] eqn:E2. apply acqp_len in E2.
    intros X. inversion X. subst. cbn. auto.
Qed.

(* a poll that released nothing leaves the consumer's waker alone *)
Ltac fin := split; [assumption|]; split; [congruence|]; split; [lia|]; intros; try discriminate; split; congruence.

Lemma rx_loop_good : forall fuel script pwk s s' code,
  rx_loop fuel size script pwk s = (s', code) -> rgood s ->
  rgood s' /\ tr (cur s') = tr (cur s) /\ released s <= released s' /\
  (pwk = false -> released s' = released s -> cw s' = cw s /\ cwakes s' = cwakes s).
Proof.
  induction fuel as [|f IH]; intros script pwk s s' code; cbn [rx_loop].
  - intros E G. inversion E. subst. split; [auto|]. split; [auto|]. split; [apply N.le_refl|]. auto.
  - destruct (producer_poll_acquire size s) as [s1 n] eqn:Ep. intros E G.
    destruct (ppa_good _ _ _ Ep G) as (G1 & T1). destruct (ppa_frame _ _ _ _ Ep) as (F1 & F2 & F3 & F4).
    pose proof (ppa_len _ _ _ Ep) as Hn.
    assert (W : forall x, rgood x -> rgood (wake_consumer x) /\ tr (cur (wake_consumer x)) = tr (cur x) /\ released (wake_consumer x) = released x).
    { intros x Gx. unfold wake_consumer. destruct (cw x); auto. }
    destruct (n =? 0) eqn:En.
    + destruct (negb (ropen s1)).
      * inversion E. subst. fin.
      * inversion E. subst. destruct pwk; cbn [andb].
        -- destruct early_wakes; [destruct (W s1 G1) as (W1 & W2 & W3)|]; fin.
        -- fin.
    + destruct script as [|v rest]; [|destruct v as [|p]].
      * inversion E. subst. destruct pwk; [destruct (W s1 G1) as (W1 & W2 & W3)|]; fin.
      * inversion E. subst. destruct pwk; [destruct (W s1 G1) as (W1 & W2 & W3)|]; fin.
      * destruct (produce size (N.min (N.pos p) (p_len (cur s1))) (cur s1)) as [c2 k] eqn:Epr.
        assert (Gp : cinvr size c2 /\ tw c2 = tw (cur s1) + k /\ tr c2 = tr (cur s1) /\ k = N.min (N.pos p) (p_len (cur s1))).
        { destruct G1 as [C1 R1]. split. { replace c2 with (fst (produce size (N.min (N.pos p) (p_len (cur s1))) (cur s1))) by (rewrite Epr; auto). apply inv_produce; auto. }
          revert Epr. unfold produce. intros X. inversion X. cbn. repeat split; auto. lia. }
        destruct Gp as (Gc & Gt & Gr & Gk).
        apply N.eqb_neq in En.
        apply IH in E.
        -- cbn [cur released cw cwakes] in E. destruct E as (E1 & E2 & E3 & E4).
           fin.
        -- unfold rgood. cbn [cur released]. destruct G1 as [C1 R1]. split; auto. rewrite R1, Gt, Gk. reflexivity.
Qed.
End Judge.
