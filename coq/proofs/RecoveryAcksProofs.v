(* judge_acks is implied by the full manager judgement (either strictness), hence accepts every run of the
   manager model. *)
From SQ Require Import lib.Base model.Recovery model.RecoveryAcks.
From SQ Require proofs.RttProofs proofs.RecoveryJudgeProofs.
Local Open Scope N_scope.

Lemma calls_acks : forall now rs l, calls_ok now rs l = true -> acks_ok rs l = true.
Proof.
  intros now rs l. remember (length l) as n eqn:En. revert l En.
  induction n as [n IH] using lt_wf_ind. intros l En H.
  destruct l as [|k [|x [|a [|b [|c [|d t]]]]]]; cbn [calls_ok acks_ok] in *; try discriminate; [reflexivity|].
  apply andb_prop in H as [H1 H2].
  rewrite (IH (length t)) with (l := t); [|subst n; cbn [length]; lia|reflexivity|exact H2].
  rewrite andb_true_r.
  destruct (k =? 5)%Z eqn:K5; [|reflexivity].
  apply Z.eqb_eq in K5. subst k. cbn in H1. apply andb_prop in H1 as [_ H1]. exact H1.
Qed.

Lemma jstep_m_acks : forall tol app client j c a b d e f g o j' out' stop,
  jstep_m tol app client j c a b d e f g o = Some (j', out', stop) ->
  exists code lost hulls calls rest,
    parse_obs o = Some (code, lost, hulls, calls, rest, out') /\
    acks_ok (op_ranges (j_last j) c b d e f) calls = true /\
    j_last j' = alast (j_last j) c a /\
    stop = ((c =? 6)%Z && negb app).
Proof.
  intros tol app client j c a b d e f g o j' out' stop E. unfold jstep_m in E.
  destruct (parse_obs o) as [[[[[[code lost] hulls] calls] rest] remaining]|]; [|discriminate].
  destruct (negb (all_nonneg _)); [discriminate|].
  destruct (negb (calls_ok _ _ calls)) eqn:EC; [discriminate|]. apply negb_false_iff in EC.
  apply calls_acks in EC.
  exists code, lost, hulls, calls, rest.
  assert (G : out' = remaining /\ j_last j' = alast (j_last j) c a /\ stop = ((c =? 6)%Z && negb app)).
  { unfold alast. clear EC.
    destruct (c =? 1)%Z eqn:C1.
    { apply Z.eqb_eq in C1. subst c.
      match type of E with (if ?x then _ else _) = _ => destruct x end; [|discriminate].
      injection E as <- <- <-. repeat split. }
    destruct ((c =? 3) || (c =? 4))%Z eqn:C34.
    { assert (C6 : (c =? 6)%Z = false).
      { apply orb_true_iff in C34. destruct C34 as [C|C]; apply Z.eqb_eq in C; subst c; reflexivity. }
      rewrite C6.
      repeat match type of E with
             | (if ?x then _ else _) = _ => destruct x; try discriminate E
             | (match ?x with _ => _ end) = _ => destruct x; try discriminate E
             end; injection E as <- <- <-; repeat split. }
    destruct (c =? 5)%Z eqn:C5.
    { apply Z.eqb_eq in C5. subst c.
      repeat match type of E with
             | (if ?x then _ else _) = _ => destruct x; try discriminate E
             | (match ?x with _ => _ end) = _ => destruct x; try discriminate E
             end; injection E as <- <- <-; repeat split. }
    destruct ((c =? 6)%Z && negb app) eqn:C6.
    { match type of E with (if ?x then _ else _) = _ => destruct x end; [|discriminate].
      injection E as <- <- <-. repeat split. }
    destruct ((c =? 7)%Z && client).
    { match type of E with (if ?x then _ else _) = _ => destruct x end; [|discriminate].
      injection E as <- <- <-. repeat split. }
    match type of E with (if ?x then _ else _) = _ => destruct x end; [|discriminate].
    injection E as <- <- <-. repeat split. }
  destruct G as (-> & G2 & G3). repeat split; assumption.
Qed.

Lemma judge_ops_acks : forall l tol app client j out,
  judge_ops tol app client j l out = true -> ajudge_ops app (j_last j) l out = true.
Proof.
  induction l as [l Hl | c a b d e f g x t IH] using RttProofs.list_ind8; intros tol app client j out H.
  - destruct l as [|c [|a [|b [|d [|e [|f [|g [|x t]]]]]]]]; try exact H. cbn [length] in Hl. lia.
  - cbn [judge_ops ajudge_ops] in *.
    destruct (jstep_m tol app client j c a b d e f g out) as [[[j' out'] stop]|] eqn:E; [|discriminate].
    destruct (jstep_m_acks _ _ _ _ _ _ _ _ _ _ _ _ _ _ _ E) as (code & lost & hulls & calls & rest & P & A & L & S).
    rewrite P, A. cbn [andb]. rewrite <- S. destruct stop; [exact H|].
    rewrite <- L. eapply IH. exact H.
Qed.

Theorem judge_g_acks : forall tol case out, judge_g tol case out = true -> judge_acks case out = true.
Proof.
  intros tol case out H. unfold judge_g, judge_acks in *.
  destruct case as [|sp [|cf [|mad [|st ops]]]]; try exact H.
  apply judge_ops_acks in H. exact H.
Qed.

(* the C08 judgement accepts every run of the manager model: any space, client or server, with space
   discards and Retry *)
Theorem judge_acks_run : forall case, judge_acks case (run case) = true.
Proof. intros case. apply (judge_g_acks true). apply RecoveryJudgeProofs.judge_tol_run. Qed.

Lemma acks_ok_meaning : forall rs (x a b c d : Z) t,
  acks_ok rs (5%Z :: x :: a :: b :: c :: d :: t) = true ->
  exists r, In r rs /\ fst r <= zN a /\ zN a <= zN b /\ zN b <= snd r.
Proof.
  intros rs x a b c d t H. cbn [acks_ok] in H. change (5 =? 5)%Z with true in H. cbn match in H.
  apply andb_prop in H as [H _]. unfold in_some_range in H. apply andb_prop in H as [H1 H2].
  apply existsb_exists in H2 as (r & Hr & H2). apply andb_prop in H2 as [H2 H3].
  apply N.leb_le in H1. apply N.leb_le in H2. apply N.leb_le in H3.
  exists r. repeat split; assumption.
Qed.
