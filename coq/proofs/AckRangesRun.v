(* ack::Ranges (C16): judge_run for the whole op alphabet of the `ack` component. *)
From SQ Require Import lib.Base lib.ListX gen.Gen_C16 model.IntervalSet model.AckRanges.
From SQ Require Import proofs.IntervalSetProofs proofs.IntervalSetSearch proofs.IntervalSetOps proofs.IntervalSetRun proofs.AckRangesProofs.
Local Open Scope N_scope.

Lemma ref_remove_ainv : forall s a b, AInv s -> AInv (fst (ref_remove s a b)).
Proof.
  intros s a b (Hwf & L & Hlim & HL1 & HlenL & HLm). unfold ref_remove.
  destruct (N.ltb_spec b a) as [|Hab]; [cbn [fst]; split; [assumption|exists L; auto]|].
  rewrite Hlim.
  destruct (Nat.ltb_spec (length (intervals s)) (length (ref_rem a b (intervals s)))) as [Hg|Hg];
    destruct (N.ltb_spec (N.of_nat (length (intervals s)) + 1) L) as [Hc|Hc]; cbn [negb andb fst intervals limit];
    try (split; [assumption|exists L; auto]);
    (split; [apply ref_rem_wf; assumption|]); exists L; cbn [intervals limit]; repeat split; try assumption.
  - pose proof (ref_rem_length pmax (intervals s) a b Hwf Hab). lia.
  - lia.
  - lia.
Qed.

Definition astep_ok (a b : N) : bool := (a <=? pmax) && (b <=? pmax).

Fixpoint acase_ok (c : list Z) : bool :=
  match c with
  | _ :: a :: b :: t => astep_ok (zN a) (zN b) && acase_ok t
  | _ => true
  end.

Lemma astep_refines : forall s op a b, AInv s -> astep_ok a b = true ->
  astep model_ack s op a b = astep ref_ack s op a b /\ AInv (fst (astep ref_ack s op a b)).
Proof.
  intros s op a b Hinv Hok. unfold astep_ok in Hok. apply andb_true_iff in Hok. destruct Hok as [Ha Hb].
  apply N.leb_le in Ha. apply N.leb_le in Hb.
  pose proof Hinv as (Hwf & L & Hlim & HL1 & HlenL & HLm).
  unfold astep. cbn [k_insert_range k_contains k_remove model_ack ref_ack].
  destruct (op =? 0)%Z.
  { destruct (N.ltb_spec b a); [split; [reflexivity|exact Hinv]|].
    rewrite (insert_range_refines s a b Hinv ltac:(lia) Hb). split; [reflexivity|].
    apply ref_insert_range_inv; [assumption|lia|assumption]. }
  destruct (op =? 1)%Z.
  { rewrite (insert_range_refines s a a Hinv ltac:(lia) Ha). split; [reflexivity|].
    apply ref_insert_range_inv; [assumption|lia|assumption]. }
  destruct (op =? 2)%Z.
  { rewrite (contains_spec pmax s a Hwf). split; [reflexivity|exact Hinv]. }
  destruct (op =? 3)%Z.
  { rewrite (remove_refines pmax s a b Hwf Hb ltac:(lia)).
    pose proof (ref_remove_ainv s a b Hinv) as H.
    destruct (ref_remove s a b) as [s' c]. cbn [fst] in *. split; [reflexivity|exact H]. }
  split; [reflexivity|]. unfold pop_min. destruct (intervals s) as [|h t] eqn:El; cbn [fst]; [exact Hinv|].
  split; [cbn [intervals]; cbn [iswf] in Hwf; tauto|]. exists L. cbn [intervals limit length] in *. repeat split; try assumption. lia.
Qed.

Lemma arun_refines : forall n c s, (length c <= n)%nat -> AInv s -> acase_ok c = true ->
  arun_ops model_ack s c = arun_ops ref_ack s c.
Proof.
  induction n as [|n IH]; intros c s Hlen Hinv Hok.
  - destruct c; [reflexivity|cbn in Hlen; lia].
  - destruct c as [|op [|a [|b t]]]; try reflexivity.
    cbn [arun_ops acase_ok] in *. apply andb_true_iff in Hok. destruct Hok as [Hs Hrest].
    destruct (astep_refines s op (zN a) (zN b) Hinv Hs) as [Heq Hinv'].
    rewrite Heq. destruct (astep ref_ack s op (zN a) (zN b)) as [s' o]. cbn [fst] in Hinv'.
    rewrite (IH t s'); [reflexivity|cbn [length] in Hlen; lia|assumption|assumption].
Qed.

(* case well-formedness: the limit fits a usize, every operand is a packet number (<= 2^62-1) *)
Definition ack_case_ok (c : list Z) : bool :=
  match c with
  | [] => true
  | l :: t => (N.max 1 (zN l) <? usize_max) && acase_ok t
  end.

Lemma ack_init_inv : forall l, N.max 1 (zN l) < usize_max -> AInv (ack_init l).
Proof.
  intros l H. split; [exact I|]. exists (N.max 1 (zN l)). cbn [ack_init limit intervals length]. repeat split; try lia.
Qed.

Theorem ack_run_is_spec : forall c, ack_case_ok c = true -> AckRanges.run c = AckRanges.spec_run c.
Proof.
  intros [|l t] H; [reflexivity|]. cbn [ack_case_ok] in H. apply andb_true_iff in H. destruct H as [H1 H2].
  apply N.ltb_lt in H1. unfold AckRanges.run, AckRanges.spec_run.
  apply (arun_refines (length t)); [lia|apply ack_init_inv; assumption|assumption].
Qed.

Theorem ack_judge_run : forall c, ack_case_ok c = true -> AckRanges.judge c (AckRanges.run c) = true.
Proof. intros c H. unfold AckRanges.judge. rewrite ack_run_is_spec by assumption. apply zlist_eqb_refl. Qed.
