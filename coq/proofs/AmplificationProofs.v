(* Proofs for the C11 models. *)
From SQ Require Import lib.Base lib.ListX gen.Gen_C11 model.Amplification.
Local Open Scope N_scope.

Lemma mult_is_3 : anti_amplification_multiplier = 3.
Proof. reflexivity. Qed.
Lemma mds_is_1200 : minimum_max_datagram_size = 1200.
Proof. reflexivity. Qed.

(* ---------------- reachable path states ---------------- *)

Inductive areach : astate -> Prop :=
| R_init : forall srv, areach (ainit srv)
| R_recv : forall s n, areach s -> areach (fst (on_recv s n))
| R_send : forall s n, areach s -> areach (fst (on_send s n))
| R_valid : forall s, areach s -> areach (on_validate s).

(* the ledger inequality: holds in every reachable unvalidated state, whatever the sizes *)
Definition Inv (s : astate) : Prop :=
  validated s = false -> sent s + allow s <= 3 * recvd s + forgiven s.

(* the exact ledger: as long as three times the bytes received fits the u32 counter *)
Definition InvEq (s : astate) : Prop :=
  validated s = false -> 3 * recvd s < two32 ->
  sent s + allow s = 3 * recvd s + forgiven s /\ forgiven s <= sent s.

Lemma mod_le_self : forall a, a mod two32 <= a.
Proof. intros a. apply N.mod_le. unfold two32. lia. Qed.

Lemma inv_recv : forall s n, Inv s -> Inv (fst (on_recv s n)).
Proof.
  intros s n H. unfold on_recv. cbn [fst]. destruct (validated s) eqn:Ev; [exact H|].
  unfold Inv in *. cbn [validated sent allow recvd forgiven]. intros _.
  specialize (H Ev). rewrite mult_is_3. unfold sat_add32.
  pose proof (mod_le_self (n * 3)). lia.
Qed.

Lemma inv_send : forall s n, Inv s -> Inv (fst (on_send s n)).
Proof.
  intros s n H. unfold on_send.
  destruct (at_limit s || (n =? 0)); cbn [fst]; [exact H|].
  destruct (validated s) eqn:Ev; [exact H|].
  unfold Inv in *. cbn [validated sent allow recvd forgiven]. intros _.
  specialize (H Ev). rewrite mds_is_1200. unfold sat_sub32.
  assert (Hb : N.min n 1200 mod two32 = N.min n 1200).
  { apply N.mod_small. unfold two32. lia. }
  rewrite Hb. lia.
Qed.

Lemma inv_reach : forall s, areach s -> Inv s.
Proof.
  induction 1 as [srv|s n Hr IH|s n Hr IH|s Hr IH].
  - unfold Inv, ainit. cbn. lia.
  - apply inv_recv; assumption.
  - apply inv_send; assumption.
  - unfold Inv, on_validate. cbn. discriminate.
Qed.

Lemma inveq_recv : forall s n, InvEq s -> InvEq (fst (on_recv s n)).
Proof.
  intros s n H. unfold on_recv. cbn [fst]. destruct (validated s) eqn:Ev; [exact H|].
  unfold InvEq in *. cbn [validated sent allow recvd forgiven]. intros _ Hfit.
  assert (Hfit0 : 3 * recvd s < two32) by lia.
  destruct (H Ev Hfit0) as [Heq Hle]. rewrite mult_is_3. unfold sat_add32.
  assert (Hm : (n * 3) mod two32 = n * 3) by (apply N.mod_small; lia).
  rewrite Hm. unfold two32, u32_max in *. split; lia.
Qed.

Lemma inveq_send : forall s n, InvEq s -> InvEq (fst (on_send s n)).
Proof.
  intros s n H. unfold on_send.
  destruct (at_limit s || (n =? 0)); cbn [fst]; [exact H|].
  destruct (validated s) eqn:Ev; [exact H|].
  unfold InvEq in *. cbn [validated sent allow recvd forgiven]. intros _ Hfit.
  destruct (H Ev Hfit) as [Heq Hle]. rewrite mds_is_1200. unfold sat_sub32.
  assert (Hb : N.min n 1200 mod two32 = N.min n 1200).
  { apply N.mod_small. unfold two32. lia. }
  rewrite Hb. split; lia.
Qed.

Lemma inveq_reach : forall s, areach s -> InvEq s.
Proof.
  induction 1 as [srv|s n Hr IH|s n Hr IH|s Hr IH].
  - unfold InvEq, ainit. cbn. lia.
  - apply inveq_recv; assumption.
  - apply inveq_send; assumption.
  - unfold InvEq, on_validate. cbn. discriminate.
Qed.

(* outside the recorded known class the literal bound holds at the start of every send *)
Lemma bound_outside_known : forall s, areach s -> validated s = false ->
  forgiven s < allow s -> sent s < 3 * recvd s.
Proof. intros s Hr Hv Hf. pose proof (inv_reach s Hr Hv). lia. Qed.

(* and in any case the total is bounded by 3x received plus the forgiven overshoot *)
Lemma total_bound : forall s, areach s -> validated s = false ->
  sent s <= 3 * recvd s + forgiven s.
Proof. intros s Hr Hv. pose proof (inv_reach s Hr Hv). lia. Qed.

(* a blocked path sends nothing: at the limit on_send is the identity *)
Lemma blocked_sends_nothing : forall s n, at_limit s = true -> on_send s n = (s, 0%Z).
Proof. intros s n H. unfold on_send. rewrite H. reflexivity. Qed.

(* ---------------- the judgement accepts every run of the model ---------------- *)

Definition Rel (s : astate) (j : jstate) : Prop :=
  jv j = validated s /\ jS j = sent s /\ jR j = recvd s /\ jA j = allow s /\ jF j = forgiven s.

Lemma rel_recv : forall s j n, Rel s j -> Rel (fst (on_recv s n)) (j_recv j n).
Proof.
  intros s j n (Hv & HS & HR & HA & HF). unfold on_recv, j_recv. cbn [fst].
  rewrite Hv. destruct (validated s) eqn:Ev.
  - unfold Rel. rewrite Ev. repeat split; assumption.
  - unfold Rel. cbn [jv jS jR jA jF validated sent recvd allow forgiven].
    rewrite mult_is_3, HS, HR, HA, HF. repeat split; reflexivity.
Qed.

Lemma ajudge_known_run : forall fuel ops s j, Rel s j -> Inv s ->
  ajudge true fuel j ops (arun fuel s ops) = true.
Proof.
  induction fuel as [|fuel IH]; intros ops s j Hrel Hinv; [reflexivity|].
  cbn [ajudge arun]. destruct ops as [|z t]; [reflexivity|].
  destruct (z =? 0)%Z.
  { destruct (on_recv s (zN (hd 0%Z t))) as [s' o] eqn:E.
    apply IH.
    - replace s' with (fst (on_recv s (zN (hd 0%Z t)))) by (rewrite E; reflexivity).
      apply rel_recv; assumption.
    - replace s' with (fst (on_recv s (zN (hd 0%Z t)))) by (rewrite E; reflexivity).
      apply inv_recv; assumption. }
  destruct (z =? 1)%Z.
  { destruct (on_send s (zN (hd 0%Z t))) as [s' o] eqn:E.
    assert (Hinv' : Inv s').
    { replace s' with (fst (on_send s (zN (hd 0%Z t)))) by (rewrite E; reflexivity).
      apply inv_send; assumption. }
    unfold on_send in E. set (n := zN (hd 0%Z t)) in *.
    destruct Hrel as (Hv & HS & HR & HA & HF).
    destruct (at_limit s || (n =? 0)) eqn:Eb.
    - injection E as <- <-. change (0 <? 0)%Z with false. cbn match.
      change (zN 0 =? 0) with true. cbn [orb].
      apply IH; [repeat split; assumption|assumption].
    - injection E as <- <-. apply orb_false_iff in Eb as [Hlim Hn0].
      apply N.eqb_neq in Hn0. rewrite mds_is_1200 in *.
      set (b := N.min n 1200) in *.
      assert (Hbpos : 0 < b) by (unfold b; lia).
      assert (Hz : (Nz b <? 0)%Z = false) by (apply Z.ltb_ge; unfold Nz; lia).
      rewrite Hz. assert (Hzn : zN (Nz b) = b) by (unfold zN, Nz; lia). rewrite Hzn.
      assert (Hb0 : (b =? 0) = false) by (apply N.eqb_neq; lia). rewrite Hb0. cbn [orb].
      rewrite Hv. destruct (validated s) eqn:Ev.
      + apply IH; [unfold Rel; rewrite Ev; repeat split; assumption|assumption].
      + (* an unvalidated send: the model only sends with a positive allowance, and the
           ledger inequality turns a breach into A <= F *)
        apply andb_true_iff. split.
        * unfold send_ok. rewrite HS, HR, HA, HF.
          unfold at_limit in Hlim. rewrite Ev in Hlim. cbn [negb andb] in Hlim.
          apply N.eqb_neq in Hlim. specialize (Hinv Ev).
          destruct (N.leb_spec (3 * recvd s) (sent s)) as [Hbr|Hok]; [|reflexivity].
          apply andb_true_iff. split; [apply N.ltb_lt; lia|apply N.leb_le; lia].
        * apply IH; [|assumption].
          unfold Rel, j_send. cbn [jv jS jR jA jF validated sent recvd allow forgiven].
          rewrite HS, HR, HA, HF. repeat split; reflexivity. }
  destruct (z =? 2)%Z.
  { apply IH.
    - destruct Hrel as (Hv & HS & HR & HA & HF). unfold Rel, on_validate. cbn. repeat split; assumption.
    - unfold Inv, on_validate. cbn. discriminate. }
  apply IH; assumption.
Qed.

Lemma amp_known_run : forall case, amp_known case (amp_run case) = true.
Proof.
  intros [|srv ops]; [reflexivity|]. unfold amp_known, amp_judge_with, amp_run.
  apply ajudge_known_run.
  - unfold Rel, jinit, ainit. cbn. repeat split; reflexivity.
  - unfold Inv, ainit. cbn. lia.
Qed.

(* the literal property is FALSE of the faithful model (finding F2): recv 1201; send 1200 x4;
   recv 21; send 1200 -- the last send starts with 4800 bytes sent against 3 x 1222 = 3666 *)
Definition f2_witness : list Z := [1; 0; 1201; 1; 1200; 1; 1200; 1; 1200; 1; 1200; 0; 21; 1; 1200]%Z.
Lemma amp_literal_refuted : amp_judge f2_witness (amp_run f2_witness) = false.
Proof. vm_compute. reflexivity. Qed.
Lemma amp_witness_in_known_class : amp_known f2_witness (amp_run f2_witness) = true.
Proof. vm_compute. reflexivity. Qed.

(* ---------------- stateless reset ---------------- *)

Section Reset.
  Variable pick : N -> N -> N.
  Hypothesis pick_in_range : forall lo hi, lo <= hi -> lo <= pick lo hi <= hi.

  Lemma reset_smaller : forall tag trig buf n,
    reset_len pick tag trig buf = Some n ->
    reset_min_len tag <= n /\ n < trig /\ n <= buf.
  Proof.
    intros tag trig buf n. unfold reset_len.
    assert (Hm : reset_trigger_margin = 1) by reflexivity.
    assert (Ht : reset_token_len = 16) by reflexivity.
    assert (Hw : reset_min_len_without_tag = 26) by reflexivity.
    unfold reset_min_len. rewrite Hm, Ht, Hw.
    destruct (N.ltb_spec (N.min (trig - 1) buf) (26 + tag)) as [Hlt|Hge]; [discriminate|].
    intros H. injection H as <-.
    pose proof (pick_in_range (26 + tag - 16) (N.min (trig - 1) buf - 16)) as Hp.
    assert (Hle : 26 + tag - 16 <= N.min (trig - 1) buf - 16) by lia.
    specialize (Hp Hle). lia.
  Qed.

  Lemma reset_none_iff : forall tag trig buf,
    reset_len pick tag trig buf = None <-> N.min (trig - 1) buf < reset_min_len tag.
  Proof.
    intros tag trig buf. unfold reset_len.
    assert (Hm : reset_trigger_margin = 1) by reflexivity. rewrite Hm.
    destruct (N.ltb_spec (N.min (trig - 1) buf) (reset_min_len tag)) as [Hlt|Hge].
    - split; [intros _; assumption|reflexivity].
    - split; [discriminate|lia].
  Qed.
End Reset.

Lemma reset_judge_run : forall case,
  let out := reset_run case in
  match out with
  | [0%Z; m] => reset_judge case out = true
  | [1%Z; m] => forall len fb, (0 < len)%Z -> (len < nth 1 case 0)%Z -> reset_judge case [1%Z; m; len; fb] = true
  | _ => False
  end.
Proof.
  intros case. unfold reset_run. cbv zeta.
  destruct (reset_len _ _ _ _); cbn iota.
  - intros len fb H1 H2. unfold reset_judge. apply andb_true_iff. split; apply Z.ltb_lt; assumption.
  - reflexivity.
Qed.

(* ---------------- version negotiation ---------------- *)

Lemma supported_is_v1 : supported_versions = [1].
Proof. reflexivity. Qed.

(* Version Negotiation is queued only by a server, for an Initial of an unsupported version in
   a datagram of at least 1200 bytes; never for a Version Negotiation packet *)
Lemma vn_rules : forall server kind version len acc,
  vn_decide server kind version len = (acc, true) ->
  server = true /\ kind = 2 /\ supported version = false /\ 1200 <= len.
Proof.
  intros server kind version len acc. unfold vn_decide.
  destruct server; cbn [negb]; [|intros H; discriminate].
  destruct (N.eqb_spec kind 2) as [->|Hk].
  - destruct (supported version) eqn:Es; [intros H; discriminate|].
    intros H. injection H as _ H. apply N.leb_le in H. rewrite mds_is_1200 in H. auto.
  - destruct (kind =? 3); intros H; discriminate.
Qed.

Lemma vn_len_le : forall dlen slen, dlen <= 20 -> slen <= 20 -> vn_len dlen slen <= 55.
Proof. intros. unfold vn_len. rewrite supported_is_v1. cbn [length]. lia. Qed.

Lemma vn_judge_run : forall case, vn_judge case (vn_run case) = true.
Proof.
  intros case. unfold vn_run, vn_judge. cbv zeta.
  set (server := negb (zN (nth 0 case 0%Z) =? 0)).
  set (kind := zN (nth 1 case 0%Z)).
  set (version := zN (nth 2 case 0%Z) mod two32).
  set (len := N.min (zN (nth 3 case 0%Z)) 3000).
  set (dlen := N.min (zN (nth 5 case 0%Z)) 20).
  set (slen := N.min (zN (nth 6 case 0%Z)) 20).
  destruct (vn_decide server kind version len) as [acc vn] eqn:Ed.
  destruct vn; cbn [app].
  - destruct (vn_rules _ _ _ _ _ Ed) as (Hs & Hk & Hsup & Hlen).
    change (1 =? 0)%Z with false. cbn match.
    rewrite Hs, Hk. change (2 =? 2) with true. cbn [andb].
    unfold supported in Hsup. rewrite supported_is_v1 in Hsup. rewrite Hsup. cbn [negb andb].
    assert (Hl : (1200 <=? Nz len)%Z = true) by (apply Z.leb_le; unfold Nz; lia).
    rewrite Hl. change (1 =? 1)%Z with true. cbn [andb forallb].
    pose proof (vn_len_le dlen slen) as Hv.
    assert (Hd : dlen <= 20) by (unfold dlen; lia).
    assert (Hsl : slen <= 20) by (unfold slen; lia).
    specialize (Hv Hd Hsl).
    assert (Hpos : 0 < vn_len dlen slen) by (unfold vn_len; lia).
    rewrite andb_true_r. apply andb_true_iff. split; [apply Z.ltb_lt|apply Z.leb_le]; unfold Nz; lia.
  - reflexivity.
Qed.
