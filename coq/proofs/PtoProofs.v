(* Proofs about model/Pto.v (Pto state machine, PTO backoff arithmetic). *)
From SQ Require Import lib.Base gen.Gen_C09 model.RecTime model.Pto.
From Coq Require Import ZifyBool ZifyN.
Local Open Scope N_scope.

Lemma has_elapsed_spec : forall t now, has_elapsed t now = true <-> t < now + 1000.
Proof. intros. unfold has_elapsed. change gran_us with 1000. lia. Qed.

(* ---- Pto::on_timeout ---- *)
(* an expiry is reported exactly when a timer is armed and due within the timer granularity; it asks
   for two probes when packets are in flight, otherwise one, and disarms the timer *)
Theorem on_timeout_ready : forall p inflight now p',
  on_timeout p inflight now = (p', true) <->
  exists e, timer p = Some e /\ e < now + 1000
            /\ p' = {| timer := None; st := Req (if inflight then 2 else 1) |}.
Proof.
  intros p inflight now p'. unfold on_timeout, is_expired.
  change pto_tx_in_flight with 2. change pto_tx_idle with 1.
  destruct (timer p) as [e|] eqn:Et.
  - destruct (has_elapsed e now) eqn:E.
    + apply has_elapsed_spec in E. split.
      * intros H. injection H as <-. exists e. auto.
      * intros (e' & He & _ & ->). reflexivity.
    + assert (~ e < now + 1000) by (rewrite <- has_elapsed_spec; congruence). split.
      * intros H0. discriminate.
      * intros (e' & He & Hlt & _). injection He as <-. contradiction.
  - split; [discriminate|]. intros (e' & He & _). discriminate.
Qed.

Theorem on_timeout_pending : forall p inflight now,
  snd (on_timeout p inflight now) = false -> fst (on_timeout p inflight now) = p.
Proof. intros p inflight now. unfold on_timeout. destruct (is_expired (timer p) now); [discriminate|reflexivity]. Qed.

(* an armed timer that is due does fire *)
Theorem on_timeout_due : forall p inflight now e, timer p = Some e -> e <= now ->
  snd (on_timeout p inflight now) = true.
Proof.
  intros p inflight now e Ht Hle. unfold on_timeout, is_expired. rewrite Ht.
  assert (has_elapsed e now = true) by (apply has_elapsed_spec; lia). rewrite H. reflexivity.
Qed.

(* ---- PTO backoff ---- *)
(* Manager::on_timeout: pto_backoff = min(2 * pto_backoff, max_pto_backoff) *)
Theorem backoff_next_spec : forall b m, backoff_next b m = N.min (2 * b) m.
Proof. intros. unfold backoff_next. change pto_backoff_mult with 2. lia. Qed.

Fixpoint backoff_after (m : N) (k : nat) : N :=
  match k with O => initial_pto_backoff | S k' => backoff_next (backoff_after m k') m end.

(* after k consecutive expiries under a cap m >= 1 the multiplier is min(2^k, m) *)
Theorem backoff_after_spec : forall m k, 1 <= m -> backoff_after m k = N.min (2 ^ N.of_nat k) m.
Proof.
  intros m k Hm. induction k as [|k IH].
  - cbn [backoff_after]. change initial_pto_backoff with 1. change (2 ^ N.of_nat 0) with 1. lia.
  - cbn [backoff_after]. rewrite IH, backoff_next_spec.
    rewrite Nat2N.inj_succ, N.pow_succ_r by lia. lia.
Qed.

(* the cap that space::on_timeout passes is twice the current multiplier, so one connection timeout
   doubles it exactly once however many packet number spaces expire; a u32 overflow closes the connection *)
Theorem backoff_cap_spec : forall b,
  backoff_cap b = if 2 * b <=? 4294967295 then Some (2 * b) else None.
Proof. intros. unfold backoff_cap. change pto_backoff_cap_mult with 2. change u32_max with 4294967295. rewrite (N.mul_comm b 2). reflexivity. Qed.

Theorem backoff_doubles : forall b m, backoff_cap b = Some m ->
  backoff_next b m = 2 * b /\ backoff_next (backoff_next b m) m = 2 * b.
Proof.
  intros b m H. rewrite backoff_cap_spec in H. destruct (2 * b <=? 4294967295); [|discriminate].
  injection H as <-. rewrite !backoff_next_spec. lia.
Qed.

(* ---- judge_run ---- *)
Definition pinv (p : pto) (j : pj) : Prop :=
  jexp j = timer p /\ jtx j = transmissions p /\ (st p = Idle \/ exists n, st p = Req n /\ 1 <= n).

Lemma zN_Nz : forall x, zN (Nz x) = x.
Proof. intros. unfold zN, Nz. apply N2Z.id. Qed.
Lemma Nz_nonneg : forall x, (0 <=? Nz x)%Z = true.
Proof. intros. unfold Nz. lia. Qed.
Lemma bz_01 : forall b, ((bz b =? 0) || (bz b =? 1))%Z = true.
Proof. intros []; reflexivity. Qed.

Lemma eqb01 : (0 =? 1)%Z = false. Proof. reflexivity. Qed.
Lemma armed_eq : forall (t : option N),
  (bz match t with Some _ => true | None => false end =? match t with Some _ => 1 | None => 0 end)%Z = true.
Proof. intros [e|]; reflexivity. Qed.

Lemma pjudge_pstep : forall p j c a b, pinv p j ->
  exists j', pjudge_step j c a b (pobs (fst (pstep p c a b)) (snd (pstep p c a b))) = Some j'
             /\ pinv (fst (pstep p c a b)) j'.
Proof.
  intros p j c a b (He & Ht & Hs).
  destruct p as [tm s]; destruct j as [je jt]. cbn [timer st jexp jtx] in *. subst je.
  unfold transmissions in Ht; cbn [st] in Ht.
  unfold pjudge_step, pobs, pstep. rewrite Nz_nonneg, bz_01, zN_Nz. cbn [andb negb jexp jtx].
  destruct (c =? 1)%Z.
  { unfold on_timeout, is_expired; cbn [timer st].
    change pto_tx_in_flight with 2. change pto_tx_idle with 1.
    destruct tm as [e|].
    - destruct (has_elapsed e (ts_norm (zN b))) eqn:E; cbn [fst snd bz timer st transmissions].
      + rewrite Z.eqb_refl.
        assert (E' : (e <? ts_norm (zN b) + 1000) = true) by (apply has_elapsed_spec in E; lia).
        rewrite E'. cbn [andb].
        destruct (negb (a =? 0)%Z).
        * change ((1 <=? 2) && (2 <=? 2) && (0 =? 0)%Z) with true. cbn match.
          eexists. split; [reflexivity|]. unfold pinv; cbn. split; [reflexivity|]. split; [reflexivity|].
          right. exists 2. split; [reflexivity|lia].
        * change ((1 <=? 1) && (1 <=? 2) && (0 =? 0)%Z) with true. cbn match.
          eexists. split; [reflexivity|]. unfold pinv; cbn. split; [reflexivity|]. split; [reflexivity|].
          right. exists 1. split; [reflexivity|lia].
      + rewrite eqb01.
        assert (E' : (e <=? ts_norm (zN b)) = false).
        { assert (~ e < ts_norm (zN b) + 1000) by (rewrite <- has_elapsed_spec; congruence). lia. }
        rewrite E'. rewrite Ht, N.eqb_refl. cbn.
        eexists. split; [reflexivity|]. unfold pinv; cbn. auto.
    - cbn [fst snd bz timer st transmissions]. rewrite eqb01. rewrite Ht, N.eqb_refl. cbn.
      eexists. split; [reflexivity|]. unfold pinv; cbn. auto. }
  destruct (c =? 2)%Z.
  { cbn [fst snd bz update timer st transmissions]. rewrite eqb01. rewrite Z.eqb_refl.
    unfold ts_add, ts_of_dur. rewrite zN_Nz, Ht, !N.eqb_refl. cbn [andb].
    eexists. split; [reflexivity|]. unfold pinv; cbn. auto. }
  destruct (c =? 3)%Z.
  { cbn [fst snd bz cancel timer st transmissions]. rewrite eqb01. rewrite Z.eqb_refl.
    rewrite Ht, N.eqb_refl. cbn [andb].
    eexists. split; [reflexivity|]. unfold pinv; cbn. auto. }
  destruct (c =? 4)%Z.
  { cbn [fst snd bz]. rewrite eqb01.
    unfold transmissions at 1 2. unfold on_transmit_once. cbn [st timer].
    destruct Hs as [->|(n & -> & Hn)].
    - subst jt. change (0 <? 0) with false. cbn match. cbn [timer st transmissions]. rewrite N.eqb_refl, armed_eq. cbn [andb].
      eexists. split; [reflexivity|]. unfold pinv; cbn. auto.
    - subst jt. assert (E0 : (0 <? n) = true) by lia. rewrite E0.
      assert (E1 : (n =? 0) = false) by lia. rewrite E1.
      destruct (N.eqb_spec n 1) as [->|Hn1]; cbn [timer st transmissions].
      + change (1 - 1) with 0. rewrite N.eqb_refl, armed_eq. cbn [andb].
        eexists. split; [reflexivity|]. unfold pinv; cbn. auto.
      + rewrite N.eqb_refl, ?E0. cbn [timer]. rewrite armed_eq. cbn [andb].
        eexists. split; [reflexivity|]. unfold pinv; cbn. split; [reflexivity|]. split; [reflexivity|].
        right. exists (n - 1). split; [reflexivity|lia]. }
  destruct (c =? 5)%Z.
  { cbn [fst snd bz]. rewrite eqb01. unfold force_transmit. cbn [st timer].
    destruct Hs as [->|(n & -> & Hn)].
    - subst jt. rewrite N.eqb_refl. cbn [timer st transmissions]. rewrite N.eqb_refl, armed_eq. cbn [andb].
      eexists. split; [reflexivity|]. unfold pinv; cbn. split; [reflexivity|]. split; [reflexivity|].
      right. exists 1. split; [reflexivity|lia].
    - subst jt. assert (E1 : (n =? 0) = false) by lia. rewrite E1.
      cbn [timer st transmissions]. rewrite N.eqb_refl, armed_eq. cbn [andb].
      eexists. split; [reflexivity|]. unfold pinv; cbn. split; [reflexivity|]. split; [reflexivity|].
      right. exists n. split; [reflexivity|lia]. }
  { cbn [fst snd bz timer st]. rewrite eqb01. unfold transmissions at 1; cbn [st].
    rewrite Ht, N.eqb_refl, armed_eq. cbn [andb].
    eexists. split; [reflexivity|]. unfold pinv; cbn. auto. }
Qed.

Lemma list_ind4 (P : list Z -> Prop) :
  (forall l, (length l < 4)%nat -> P l) ->
  (forall c a b x t, P t -> P (c :: a :: b :: x :: t)) ->
  forall l, P l.
Proof.
  intros Hs Hc l. remember (length l) as n eqn:En. revert l En.
  induction n as [n IH] using lt_wf_ind. intros l En.
  destruct l as [|c [|a [|b [|x t]]]]; try (apply Hs; cbn; lia).
  apply Hc. apply (IH (length t)); [subst n; cbn [length]; lia | reflexivity].
Qed.

Lemma judge_run_from : forall l p j, pinv p j -> judge_from j l (run_from p l) = true.
Proof.
  induction l as [l Hl | c a b x t IH] using list_ind4; intros p j Hi.
  - destruct l as [|c [|a [|b [|x t]]]]; try reflexivity. cbn [length] in Hl. lia.
  - cbn [run_from judge_from].
    destruct (pjudge_pstep p j c a b Hi) as (j' & Hj & Hi').
    destruct (pstep p c a b) as [p' rdy]. cbn [fst snd] in *.
    change (firstn 4 (pobs p' rdy ++ run_from p' t)) with (pobs p' rdy).
    change (skipn 4 (pobs p' rdy ++ run_from p' t)) with (run_from p' t).
    rewrite Hj. apply IH. assumption.
Qed.

Theorem judge_run : forall l, judge l (run l) = true.
Proof.
  intros l. unfold judge, run. apply judge_run_from.
  unfold pinv, pto_init. cbn. auto.
Qed.
