(* Proofs about the CUBIC model (model/Cubic.v). *)
From SQ Require Import lib.Base gen.Gen_C10 model.Cubic proofs.Round24.
Local Open Scope N_scope.

(* ---- generated constants: the values RFC 9002 / RFC 9438 name ---- *)
Lemma min_window_mult_is_2 : cubic_min_window_mult_man = 2 /\ cubic_min_window_mult_sh = 0.
Proof. split; reflexivity. Qed.
Lemma initial_window_consts : initial_window_packets = 10 /\ initial_window_limit = 14720 /\ initial_window_floor_packets = 2.
Proof. repeat split; reflexivity. Qed.
(* 0.7f32 = 11744051 / 2^24 (the binary32 nearest to 0.7), 0.4f32 = 13421773 / 2^25 *)
Lemma beta_is_0_7 : beta_cubic_bits = 1060320051 /\ beta_cubic_man = 11744051 /\ beta_cubic_sh = 24
  /\ 10 * beta_cubic_man < 7 * 2 ^ 24 + 5 /\ 7 * 2 ^ 24 < 10 * beta_cubic_man + 5.
Proof. repeat split; reflexivity. Qed.
Lemma c_is_0_4 : cubic_c_man = 13421773 /\ cubic_c_sh = 25
  /\ 10 * cubic_c_man < 4 * 2 ^ 25 + 5 /\ 4 * 2 ^ 25 < 10 * cubic_c_man + 5.
Proof. repeat split; reflexivity. Qed.

Lemma min_window_eq : forall m, min_window m = 8192 * m.
Proof.
  intros m. unfold min_window, FX, cubic_min_window_mult_man, cubic_min_window_mult_sh.
  change (2 ^ 0) with 1. rewrite N.div_1_r. lia.
Qed.

Lemma to_u32_min_window : forall m, m < 65536 -> to_u32 (min_window m) = 2 * m.
Proof.
  intros m H. rewrite min_window_eq. unfold to_u32, FX, u32_max.
  replace (8192 * m) with (2 * m * 4096) by lia. rewrite N.div_mul by lia. lia.
Qed.

Lemma floor_u32_eq : forall m, floor_u32 m = 2 * m.
Proof.
  intros m. unfold floor_u32, cubic_min_window_mult_man, cubic_min_window_mult_sh.
  change (2 ^ 0) with 1. rewrite N.div_1_r. reflexivity.
Qed.

Lemma repr_min_window : forall m, m < 65536 -> repr24 (min_window m).
Proof.
  intros m H. rewrite min_window_eq. exists m, 13. change (2 ^ 13) with 8192. change (2 ^ 24) with 16777216. lia.
Qed.

Lemma initial_window_bounds : forall m, m < 65536 -> 2 * m <= initial_window m /\ initial_window m <= 10 * m.
Proof.
  intros m H. unfold initial_window. rewrite to_u32_min_window by exact H.
  unfold initial_window_packets, initial_window_limit, initial_window_floor_packets. lia.
Qed.

(* RFC 9002 7.2: the initial window is min(10 mds, max(14720, 2 mds)) *)
Lemma initial_window_rfc : forall m, m < 65536 ->
  initial_window m = N.min (10 * m) (N.max 14720 (2 * m)).
Proof.
  intros m H. unfold initial_window. rewrite to_u32_min_window by exact H.
  unfold initial_window_packets, initial_window_limit, initial_window_floor_packets. lia.
Qed.

Lemma fx_of_int_ge : forall n y, y < 2 ^ 24 -> y <= n -> FX * y <= fx_of_int n.
Proof.
  intros n y Y L. unfold fx_of_int. apply N.mul_le_mono_l. apply round24_ge; [apply repr24_small; exact Y|exact L].
Qed.

Lemma to_u32_ge : forall x k, k <= u32_max -> FX * k <= x -> k <= to_u32 x.
Proof.
  intros x k K L. unfold to_u32. apply N.min_glb; [|exact K].
  apply N.div_le_lower_bound; [unfold FX; lia|exact L].
Qed.

(* ---- state-update projections ---- *)
Lemma clear_req_proj : forall s, mds (clear_req s) = mds s /\ cwnd (clear_req s) = cwnd s /\ bif (clear_req s) = bif s
  /\ uu (clear_req s) = uu s /\ mds0 (clear_req s) = mds0 s /\ bif_hi (clear_req s) = bif_hi s.
Proof. intros s. unfold clear_req. destruct (kind s) as [|t [|]|]; repeat split; reflexivity. Qed.

Lemma ack2_proj : forall s t, mds (ack2 s t) = mds s /\ cwnd (ack2 s t) = cwnd s /\ bif (ack2 s t) = bif s
  /\ uu (ack2 s t) = uu s /\ bif_hi (ack2 s t) = bif_hi s.
Proof.
  intros s t. unfold ack2. destruct (kind s) as [|t0 r|]; try (repeat split; reflexivity).
  destruct (t0 <? t); repeat split; reflexivity.
Qed.

Lemma on_rtt_update_proj : forall s st now rtt last,
  mds (on_rtt_update s st now rtt last) = mds s /\ cwnd (on_rtt_update s st now rtt last) = cwnd s /\
  bif (on_rtt_update s st now rtt last) = bif s /\ uu (on_rtt_update s st now rtt last) = uu s /\
  tls (hs (on_rtt_update s st now rtt last)) = tls (hs s) /\
  (forall t r, kind s = Recovery t r -> kind (on_rtt_update s st now rtt last) = Recovery t r).
Proof.
  intros s st now rtt last. unfold on_rtt_update.
  set (s1 := if match thr s with Some t => t <=? cwnd s | None => false end then s else _).
  assert (P1 : mds s1 = mds s /\ cwnd s1 = cwnd s /\ bif s1 = bif s /\ uu s1 = uu s /\ tls (hs s1) = tls (hs s) /\ kind s1 = kind s).
  { unfold s1. destruct (match thr s with Some t => t <=? cwnd s | None => false end); [repeat split; reflexivity|].
    set (h3 := {| tls := _; sc := _ + 1; lmin := _; cmin := _; rend := _ |}).
    assert (T : tls h3 = tls (hs s)).
    { unfold h3. cbn [tls].
      destruct (match rend (hs s) with None => true | Some e => e <=? st end); cbn [sc tls];
        match goal with |- tls (if ?c then _ else _) = _ => destruct c end; reflexivity. }
    destruct (lmin h3) as [l|]; [|repeat split; try reflexivity; exact T].
    destruct (cmin h3) as [c|]; [|repeat split; try reflexivity; exact T].
    destruct (sc h3 =? hss_n_sampling); [|repeat split; try reflexivity; exact T].
    match goal with |- context[if ?c then _ else _] => destruct c end; repeat split; try reflexivity; exact T. }
  destruct P1 as (A & B & C & D & E & K).
  destruct (kind s1) eqn:K1.
  - destruct (thr s1) as [t|]; [destruct (t <=? cwnd s1)|]; cbn [mds cwnd bif uu hs set_kind];
      (repeat split; try assumption; intros t0 r0 K0; congruence).
  - repeat split; try assumption. intros t0 r0 K0. congruence.
  - repeat split; try assumption. intros t0 r0 K0. congruence.
Qed.

Definition floor_inv (s : cstate) : Prop := min_window (mds s) <= cwnd s /\ mds s < 65536.

Lemma max_cwnd_ge : forall s, min_window (mds s) <= max_cwnd s.
Proof. intros s. unfold max_cwnd. apply N.le_max_r. Qed.

Lemma congestion_event_floor : forall s now, floor_inv s -> floor_inv (congestion_event s now).
Proof.
  intros s now [F M]. unfold congestion_event, floor_inv.
  destruct (kind s); cbn [mds cwnd set_hi]; (split; [|exact M]); try exact F;
    unfold mult_decrease; apply N.le_max_r.
Qed.

(* where the oracle's answer is consulted, and what is assumed of it *)
Definition oracle_ok_step (s : cstate) (o : op) (a : N) : Prop :=
  match o with
  | Ack bytes sent_time _ => ca_site s bytes sent_time = true -> min_window (mds s) <= a
  | Mtu m => m < 65536
  | _ => True
  end.

Lemma on_ack_floor : forall s bytes st a, floor_inv s ->
  (ca_site s bytes st = true -> min_window (mds s) <= a) -> floor_inv (on_ack s bytes st a).
Proof.
  intros s bytes st a [F M] O. unfold on_ack. unfold ca_site in O.
  set (s1 := ack1 s bytes) in *.
  assert (I1 : floor_inv s1) by (split; [exact F|exact M]).
  destruct (uu s1); [exact I1|]. cbn [negb andb] in O.
  set (s2 := ack2 s1 st) in *.
  destruct (ack2_proj s1 st) as (E1 & E2 & _).
  assert (I2 : floor_inv s2) by (unfold floor_inv, s2; rewrite E1, E2; exact I1).
  destruct (N.leb_spec (max_cwnd s2) (cwnd s2)) as [L|L]; [exact I2|]. cbn [negb andb] in O.
  destruct I2 as [F2 M2].
  assert (G : forall x, cwnd s2 <= x -> min_window (mds s2) <= N.min (round24 x) (max_cwnd s2)).
  { intros x X. apply N.min_glb; [|apply max_cwnd_ge].
    apply round24_ge; [apply repr_min_window; exact M2|lia]. }
  destruct (kind s2) eqn:K.
  - assert (I3 : floor_inv (set_cwnd s2 (N.min (round24 (cwnd s2 + fx_of_int bytes)) (max_cwnd s2)))).
    { split; [|exact M2]. cbn [mds cwnd set_cwnd]. apply G. lia. }
    destruct (thr s2) as [t|]; [|exact I3]. destruct (t <=? _); exact I3.
  - split; assumption.
  - split; [|exact M2]. cbn [mds cwnd set_cwnd]. apply N.min_glb.
    + unfold s2 in *. rewrite E1. apply O. reflexivity.
    + unfold ca_clamp. apply G. apply N.le_add_r.
Qed.

Lemma step_floor : forall s o a s', floor_inv s -> oracle_ok_step s o a -> step s o a = Some s' -> floor_inv s'.
Proof.
  intros s o a s' I O H. destruct I as [F M]. unfold step in H. destruct o as [bytes app snow|bytes st now|bytes pers now|now|m|bytes|ust unow urtt|].
  - destruct (bytes =? 0); [injection H as <-; split; assumption|].
    destruct (u32_max <? bif s + bytes); [discriminate|]. injection H as <-.
    unfold floor_inv. cbn [mds cwnd set_hs]. destruct (clear_req_proj (set_uu (set_bif s (bif s + bytes))
      match app with 0 => under_utilized (set_bif s (bif s + bytes)) | 1 => false | _ => under_utilized (set_bif s (bif s + bytes)) end)) as (E1 & E2 & _).
    rewrite E1, E2. split; assumption.
  - destruct (bif s <? bytes); [discriminate|]. injection H as <-.
    apply on_ack_floor; [split; assumption|exact O].
  - destruct ((bytes =? 0) || (bif s <? bytes)); [discriminate|].
    pose proof (congestion_event_floor (set_bif s (bif s - bytes)) now (conj F M)) as [F1 M1].
    destruct pers; injection H as <-; [|split; assumption].
    split; [cbn [mds cwnd set_cwnd set_kind]; lia|exact M1].
  - injection H as <-. apply congestion_event_floor. split; assumption.
  - injection H as <-. cbn in O. split; [|exact O]. cbn [mds cwnd].
    rewrite min_window_eq. replace (8192 * m) with (FX * (2 * m)) by (unfold FX; lia).
    apply fx_of_int_ge; [change (2 ^ 24) with 16777216; lia|].
    pose proof (initial_window_bounds m O). lia.
  - destruct (bif s <? bytes); [discriminate|]. injection H as <-.
    unfold floor_inv. destruct (clear_req_proj (set_bif s (bif s - bytes))) as (E1 & E2 & _).
    rewrite E1, E2. split; assumption.
  - destruct (tls (hs s)) as [last|]; [|discriminate]. injection H as <-.
    destruct (on_rtt_update_proj s ust unow urtt last) as (E1 & E2 & _). unfold floor_inv. rewrite E1, E2. split; assumption.
  - injection H as <-. split; assumption.
Qed.

Lemma cinit_floor : forall m, m < 65536 -> floor_inv (cinit m).
Proof.
  intros m H. split; [|exact H]. cbn [cinit mds cwnd].
  rewrite min_window_eq. replace (8192 * m) with (FX * (2 * m)) by (unfold FX; lia).
  apply fx_of_int_ge; [change (2 ^ 24) with 16777216; lia|].
  pose proof (initial_window_bounds m H). lia.
Qed.

(* ---- histories ---- *)
Fixpoint steps (s : cstate) (l : list (op * N)) : option cstate :=
  match l with
  | [] => Some s
  | (o, a) :: t => match step s o a with Some s' => steps s' t | None => None end
  end.

Fixpoint oracle_ok (s : cstate) (l : list (op * N)) : Prop :=
  match l with
  | [] => True
  | (o, a) :: t => oracle_ok_step s o a /\ match step s o a with Some s' => oracle_ok s' t | None => True end
  end.

Lemma steps_floor : forall l s s', floor_inv s -> oracle_ok s l -> steps s l = Some s' -> floor_inv s'.
Proof.
  induction l as [|[o a] t IH]; intros s s' I O H; cbn [steps oracle_ok] in *.
  - injection H as <-. exact I.
  - destruct O as [O1 O2]. destruct (step s o a) as [s1|] eqn:E; [|discriminate].
    apply (IH s1); [eapply step_floor; eassumption|exact O2|exact H].
Qed.

(* cubic_floor: after every history the window is at least two datagrams, both as the f32 the
   controller keeps and as the u32 it reports *)
Theorem cubic_floor : forall m l s', m < 65536 -> steps (cinit m) l = Some s' -> oracle_ok (cinit m) l ->
  FX * (2 * mds s') <= cwnd s' /\ 2 * mds s' <= wnd s'.
Proof.
  intros m l s' M H O. destruct (steps_floor l _ _ (cinit_floor m M) O H) as [F B].
  rewrite min_window_eq in F. split; [unfold FX; lia|].
  unfold wnd. apply to_u32_ge; [unfold u32_max; lia|unfold FX; lia].
Qed.

(* ---- loss / ECN ---- *)
Definition is_congestion_signal (o : op) : bool :=
  match o with Lost _ _ _ | Ecn _ => true | _ => false end.

Lemma mult_decrease_le : forall c m, min_window m <= c -> mult_decrease c m <= c.
Proof.
  intros c m F. unfold mult_decrease. apply N.max_lub; [|exact F].
  unfold beta_cubic_man, beta_cubic_sh.
  pose proof (round24_upper (c * 11744051)) as U.
  apply N.div_le_upper_bound; [apply N.pow_nonzero; lia|].
  change (2 ^ 24) with 16777216 in *. lia.
Qed.

Lemma congestion_event_le : forall s now, floor_inv s -> cwnd (congestion_event s now) <= cwnd s.
Proof.
  intros s now [F M]. unfold congestion_event. destruct (kind s); cbn [cwnd set_hi]; try lia;
    apply mult_decrease_le; exact F.
Qed.

Theorem cubic_loss_never_increases : forall s o a s', floor_inv s -> is_congestion_signal o = true ->
  step s o a = Some s' -> cwnd s' <= cwnd s /\ wnd s' <= wnd s.
Proof.
  intros s o a s' I C H.
  assert (G : cwnd s' <= cwnd s).
  { destruct o; try discriminate; unfold step in H.
    - destruct ((bytes =? 0) || (bif s <? bytes)); [discriminate|].
      pose proof (congestion_event_le (set_bif s (bif s - bytes)) now I) as L. cbn [cwnd set_bif] in L.
      destruct persistent; injection H as <-; [|exact L].
      cbn [cwnd set_cwnd set_kind].
      destruct (congestion_event_floor (set_bif s (bif s - bytes)) now I) as [F1 _].
      assert (mds (congestion_event (set_bif s (bif s - bytes)) now) = mds s).
      { unfold congestion_event. cbn [kind set_bif]. destruct (kind s); reflexivity. }
      destruct I as [F M]. rewrite H. exact F.
    - injection H as <-. apply congestion_event_le. exact I. }
  split; [exact G|]. unfold wnd, to_u32.
  assert (cwnd s' / FX <= cwnd s / FX) by (apply N.div_le_mono; [unfold FX; lia|exact G]). lia.
Qed.

(* at most one reduction per recovery period: inside a recovery period a loss or ECN signal
   (short of persistent congestion) leaves the window alone ... *)
Theorem cubic_once_per_recovery : forall s o a s' t r, kind s = Recovery t r -> is_congestion_signal o = true ->
  (forall b now, o <> Lost b true now) -> step s o a = Some s' ->
  cwnd s' = cwnd s /\ exists r', kind s' = Recovery t r'.
Proof.
  intros s o a s' t r K C NP H. destruct o; try discriminate; unfold step in H.
  - destruct ((bytes =? 0) || (bif s <? bytes)); [discriminate|].
    destruct persistent; [exfalso; eapply NP; reflexivity|]. injection H as <-.
    unfold congestion_event. cbn [kind set_bif]. rewrite K. cbn [cwnd kind set_hi set_bif]. split; [reflexivity|eauto].
  - injection H as <-. unfold congestion_event. rewrite K. cbn [cwnd kind set_hi]. split; [reflexivity|eauto].
Qed.

(* ... and a recovery period ends only by the acknowledgement of a packet sent after it began
   (while not application limited), or by persistent congestion *)
Theorem cubic_recovery_ends_only_by_ack : forall s o a s' t r, kind s = Recovery t r -> step s o a = Some s' ->
  (exists r', kind s' = Recovery t r') \/
  (exists b st now, o = Ack b st now /\ t < st /\ uu s = false) \/
  (exists b now, o = Lost b true now).
Proof.
  intros s o a s' t r K H. unfold step in H. destruct o as [bytes app snow|bytes st now|bytes pers now|now|m|bytes|ust unow urtt|].
  - left. destruct (bytes =? 0); [injection H as <-; eauto|].
    destruct (u32_max <? bif s + bytes); [discriminate|]. injection H as <-. cbn [kind set_hs].
    unfold clear_req. cbn [kind set_uu set_bif]. rewrite K. destruct r; cbn [kind set_kind set_uu set_bif]; eauto.
  - destruct (bif s <? bytes); [discriminate|]. injection H as <-.
    unfold on_ack. set (s1 := ack1 s bytes).
    assert (K1 : kind s1 = Recovery t r) by exact K.
    assert (U1 : uu s1 = uu s) by reflexivity.
    destruct (uu s1) eqn:U; [left; eauto|].
    unfold ack2. rewrite K1.
    destruct (N.ltb_spec t st) as [L|L].
    + right; left. exists bytes, st, now. repeat split; [exact L|congruence].
    + left. destruct (max_cwnd s1 <=? cwnd s1); [eauto|]. rewrite K1. eauto.
  - destruct ((bytes =? 0) || (bif s <? bytes)); [discriminate|].
    destruct pers; [right; right; eauto|]. injection H as <-. left.
    unfold congestion_event. cbn [kind set_bif]. rewrite K. cbn [kind set_hi set_bif]. eauto.
  - injection H as <-. left. unfold congestion_event. rewrite K. cbn [kind set_hi]. eauto.
  - injection H as <-. left. cbn [kind]. eauto.
  - destruct (bif s <? bytes); [discriminate|]. injection H as <-. left.
    unfold clear_req. cbn [kind set_bif]. rewrite K. destruct r; cbn [kind set_kind set_bif]; eauto.
  - destruct (tls (hs s)) as [last|]; [|discriminate]. injection H as <-. left.
    destruct (on_rtt_update_proj s ust unow urtt last) as (_ & _ & _ & _ & _ & P). rewrite (P t r K). eauto.
  - injection H as <-. eauto.
Qed.

(* application limited: an acknowledgement changes neither the window nor the phase *)
Theorem cubic_app_limited_frozen : forall s b st now a s', uu s = true -> step s (Ack b st now) a = Some s' ->
  cwnd s' = cwnd s /\ kind s' = kind s /\ bif s' = bif s - b.
Proof.
  intros s b st now a s' U H. unfold step in H. destruct (bif s <? b); [discriminate|]. injection H as <-.
  unfold on_ack. assert (U1 : uu (ack1 s b) = true) by exact U. rewrite U1. repeat split; reflexivity.
Qed.

(* persistent congestion: exactly the minimum window, back to slow start *)
Theorem cubic_persistent_collapse : forall s b now a s', mds s < 65536 -> step s (Lost b true now) a = Some s' ->
  cwnd s' = FX * (2 * mds s) /\ wnd s' = 2 * mds s /\ kind s' = SlowStart /\ mds s' = mds s.
Proof.
  intros s b now a s' M H. unfold step in H. destruct ((b =? 0) || (bif s <? b)); [discriminate|]. injection H as <-.
  assert (E : mds (congestion_event (set_bif s (bif s - b)) now) = mds s).
  { unfold congestion_event. cbn [kind set_bif]. destruct (kind s); reflexivity. }
  cbn [cwnd kind mds set_cwnd set_kind]. rewrite E. repeat split.
  - rewrite min_window_eq. unfold FX. lia.
  - unfold wnd. cbn [cwnd set_cwnd set_kind]. apply to_u32_min_window. exact M.
Qed.

(* ---- bytes in flight ---- *)
Definition sent_of (o : op) : N := match o with Sent b _ _ => b | _ => 0 end.
Definition removed_of (o : op) : N := match o with Ack b _ _ | Lost b _ _ | Discard b => b | _ => 0 end.
Fixpoint total (f : op -> N) (l : list (op * N)) : N :=
  match l with [] => 0 | (o, _) :: t => f o + total f t end.

(* the caller's obligation (the code `expect`s it): never remove more than is outstanding,
   keep the counter within u32, a lost packet has a size *)
Definition op_valid (b : N) (o : op) : bool :=
  match o with
  | Sent bytes _ _ => (bytes =? 0) || (b + bytes <=? u32_max)
  | Ack bytes _ _ => bytes <=? b
  | Lost bytes _ _ => negb (bytes =? 0) && (bytes <=? b)
  | Discard bytes => bytes <=? b
  | _ => true
  end.

Lemma on_ack_proj : forall s b st a, bif (on_ack s b st a) = bif s - b /\ uu (on_ack s b st a) = uu s
  /\ mds (on_ack s b st a) = mds s.
Proof.
  intros s b st a. unfold on_ack. set (s1 := ack1 s b).
  assert (P1 : bif s1 = bif s - b /\ uu s1 = uu s /\ mds s1 = mds s) by (repeat split; reflexivity).
  destruct (uu s1) eqn:U; [rewrite U; exact P1|].
  destruct (ack2_proj s1 st) as (E1 & E2 & E3 & E4 & _). set (s2 := ack2 s1 st) in *.
  assert (P2 : bif s2 = bif s - b /\ uu s2 = uu s /\ mds s2 = mds s).
  { destruct P1 as (A & B & C). repeat split; congruence. }
  destruct (max_cwnd s2 <=? cwnd s2); [exact P2|].
  destruct (kind s2); try exact P2.
  destruct (thr s2) as [t|]; [destruct (t <=? _)|]; exact P2.
Qed.

Lemma congestion_event_proj : forall s now, bif (congestion_event s now) = bif s /\ uu (congestion_event s now) = uu s
  /\ mds (congestion_event s now) = mds s.
Proof. intros s now. unfold congestion_event. destruct (kind s); repeat split; reflexivity. Qed.

(* on_rtt_update additionally `expect`s that a packet has been sent *)
Definition has_sent (s : cstate) : bool := match tls (hs s) with Some _ => true | None => false end.
Definition cop_valid (s : cstate) (o : op) : bool :=
  op_valid (bif s) o && match o with RttUpd _ _ _ => has_sent s | _ => true end.

Lemma step_some_iff : forall s o a, cop_valid s o = true <-> step s o a <> None.
Proof.
  intros s o a. unfold cop_valid, op_valid, step. destruct o as [bytes app snow|bytes st now|bytes pers now|now|m|bytes|ust unow urtt|];
    rewrite ?andb_true_r.
  - destruct (N.eqb_spec bytes 0); cbn [orb]; [split; [discriminate|reflexivity]|].
    destruct (N.ltb_spec u32_max (bif s + bytes)); destruct (N.leb_spec (bif s + bytes) u32_max); try lia;
      split; try discriminate; try congruence.
  - destruct (N.ltb_spec (bif s) bytes); destruct (N.leb_spec bytes (bif s)); try lia; split; try discriminate; congruence.
  - destruct (N.eqb_spec bytes 0); cbn [orb negb andb]; [split; [discriminate|congruence]|].
    destruct (N.ltb_spec (bif s) bytes); destruct (N.leb_spec bytes (bif s)); try lia;
      destruct pers; split; try discriminate; congruence.
  - split; [discriminate|reflexivity].
  - split; [discriminate|reflexivity].
  - destruct (N.ltb_spec (bif s) bytes); destruct (N.leb_spec bytes (bif s)); try lia; split; try discriminate; congruence.
  - unfold has_sent. cbn [andb]. destruct (tls (hs s)); split; try discriminate; congruence.
  - split; [discriminate|reflexivity].
Qed.

Lemma step_bif : forall s o a s', step s o a = Some s' ->
  bif s' + removed_of o = bif s + sent_of o /\ (bif s <= u32_max -> bif s' <= u32_max).
Proof.
  intros s o a s' H. unfold step in H. destruct o as [bytes app snow|bytes st now|bytes pers now|now|m|bytes|ust unow urtt|]; cbn [removed_of sent_of].
  - destruct (N.eqb_spec bytes 0); [injection H as <-; lia|].
    destruct (N.ltb_spec u32_max (bif s + bytes)); [discriminate|]. injection H as <-. cbn [bif set_hs].
    match goal with |- context[clear_req ?x] => destruct (clear_req_proj x) as (_ & _ & E & _) end.
    rewrite E. cbn [bif set_uu set_bif]. lia.
  - destruct (N.ltb_spec (bif s) bytes); [discriminate|]. injection H as <-.
    destruct (on_ack_proj s bytes st a) as (E & _). rewrite E. lia.
  - destruct ((bytes =? 0) || (bif s <? bytes)) eqn:G; [discriminate|].
    apply orb_false_iff in G. destruct G as [_ G]. apply N.ltb_ge in G.
    destruct (congestion_event_proj (set_bif s (bif s - bytes)) now) as (E & _). cbn [bif set_bif] in E.
    destruct pers; injection H as <-; cbn [bif set_cwnd set_kind]; rewrite E; lia.
  - injection H as <-. destruct (congestion_event_proj s now) as (E & _). rewrite E. lia.
  - injection H as <-. cbn [bif]. lia.
  - destruct (N.ltb_spec (bif s) bytes); [discriminate|]. injection H as <-.
    destruct (clear_req_proj (set_bif s (bif s - bytes))) as (_ & _ & E & _). rewrite E. cbn [bif set_bif]. lia.
  - destruct (tls (hs s)) as [last|]; [|discriminate]. injection H as <-.
    destruct (on_rtt_update_proj s ust unow urtt last) as (_ & _ & E & _). rewrite E. lia.
  - injection H as <-. lia.
Qed.

(* whether a packet has been sent: set by the first real send, never cleared *)
Lemma step_has_sent : forall s o a s', step s o a = Some s' ->
  has_sent s' = has_sent s || match o with Sent b _ _ => negb (b =? 0) | _ => false end.
Proof.
  intros s o a s' H. unfold step in H. unfold has_sent.
  destruct o as [bytes app snow|bytes st now|bytes pers now|now|m|bytes|ust unow urtt|].
  - destruct (N.eqb_spec bytes 0); cbn [negb]; [injection H as <-; rewrite orb_false_r; reflexivity|].
    destruct (u32_max <? bif s + bytes); [discriminate|]. injection H as <-. cbn [hs set_hs tls]. rewrite orb_true_r. reflexivity.
  - destruct (bif s <? bytes); [discriminate|]. injection H as <-. rewrite orb_false_r.
    assert (E : hs (on_ack s bytes st a) = hs s).
    { unfold on_ack. set (s1 := ack1 s bytes). assert (E1 : hs s1 = hs s) by reflexivity.
      destruct (uu s1); [exact E1|]. set (s2 := ack2 s1 st).
      assert (E2 : hs s2 = hs s). { unfold s2, ack2. destruct (kind s1) as [|t0 r0|]; try exact E1. destruct (t0 <? st); exact E1. }
      destruct (max_cwnd s2 <=? cwnd s2); [exact E2|]. destruct (kind s2); try exact E2.
      destruct (thr s2) as [t|]; [destruct (t <=? _)|]; exact E2. }
    rewrite E. reflexivity.
  - destruct ((bytes =? 0) || (bif s <? bytes)); [discriminate|]. rewrite orb_false_r.
    assert (E : hs (congestion_event (set_bif s (bif s - bytes)) now) = hs s) by (unfold congestion_event; cbn [kind set_bif]; destruct (kind s); reflexivity).
    destruct pers; injection H as <-; cbn [hs set_cwnd set_kind]; rewrite E; reflexivity.
  - injection H as <-. rewrite orb_false_r. unfold congestion_event. destruct (kind s); reflexivity.
  - injection H as <-. rewrite orb_false_r. reflexivity.
  - destruct (bif s <? bytes); [discriminate|]. injection H as <-. rewrite orb_false_r.
    unfold clear_req. cbn [kind set_bif]. destruct (kind s) as [|t0 [|]|]; reflexivity.
  - destruct (tls (hs s)) as [last|] eqn:T; [|discriminate]. injection H as <-. rewrite orb_false_r.
    destruct (on_rtt_update_proj s ust unow urtt last) as (_ & _ & _ & _ & E & _). rewrite E, T. reflexivity.
  - injection H as <-. rewrite orb_false_r. reflexivity.
Qed.

(* bytes_in_flight is exactly what was sent minus what was acknowledged, lost or discarded; it
   never goes negative and stays within u32 along every history the controller accepts *)
Theorem bif_matches_outstanding : forall l s s', steps s l = Some s' ->
  bif s' + total removed_of l = bif s + total sent_of l /\ (bif s <= u32_max -> bif s' <= u32_max).
Proof.
  induction l as [|[o a] t IH]; intros s s' H; cbn [steps total] in *.
  - injection H as <-. lia.
  - destruct (step s o a) as [s1|] eqn:E; [|discriminate].
    destruct (step_bif _ _ _ _ E) as [A B]. destruct (IH _ _ H) as [C D]. split; [lia|auto].
Qed.

(* ... and the controller accepts a history exactly when every operation is valid for the bytes
   outstanding at that point (no other panic, no overflow) *)
Fixpoint hist_valid (b : N) (sent : bool) (l : list (op * N)) : bool :=
  match l with
  | [] => true
  | (o, _) :: t =>
      op_valid b o && match o with RttUpd _ _ _ => sent | _ => true end
      && hist_valid (b + sent_of o - removed_of o) (sent || match o with Sent x _ _ => negb (x =? 0) | _ => false end) t
  end.

Theorem no_panic_iff_valid : forall l s, steps s l <> None <-> hist_valid (bif s) (has_sent s) l = true.
Proof.
  induction l as [|[o a] t IH]; intros s; cbn [steps hist_valid].
  - split; [reflexivity|discriminate].
  - pose proof (step_some_iff s o a) as V. unfold cop_valid in V. destruct (step s o a) as [s1|] eqn:E.
    + assert (H : op_valid (bif s) o && match o with RttUpd _ _ _ => has_sent s | _ => true end = true) by (apply V; discriminate).
      rewrite H. cbn [andb].
      destruct (step_bif _ _ _ _ E) as [A _]. rewrite <- (step_has_sent _ _ _ _ E).
      replace (bif s + sent_of o - removed_of o) with (bif s1) by lia. apply IH.
    + destruct (op_valid (bif s) o && match o with RttUpd _ _ _ => has_sent s | _ => true end);
        [exfalso; apply V; reflexivity|]. cbn [andb]. split; [congruence|discriminate].
Qed.

Lemma min_window_is_2_mds : forall m, min_window m = FX * (2 * m) /\ floor_u32 m = 2 * m.
Proof. intros m. split; [rewrite min_window_eq; unfold FX; lia|apply floor_u32_eq]. Qed.

(* ---- saturation: the window stays at or below 2^31 bytes while at most 2^30 bytes have been
        sent (growth is capped by 2 * bytes_in_flight_hi); on_mtu_update is the only other source
        of growth and carries a visible premise on the window the model computes for it ---- *)
Definition SENT_CAP : N := 1073741824.   (* 2^30 *)
Definition WCAP : N := FX * 2147483648.  (* 2^31 bytes in FX units *)

Definition csat (s : cstate) (S : N) : Prop :=
  cwnd s <= WCAP /\ bif_hi s <= S /\ bif s <= S /\ mds s < 65536.

Definition cmtu_step_ok (o : op) (s' : cstate) : Prop :=
  match o with Mtu m => m < 65536 /\ cwnd s' <= WCAP | _ => True end.

Lemma mult_decrease_le_max : forall c m, mult_decrease c m <= N.max c (min_window m).
Proof.
  intros c m. unfold mult_decrease. apply N.max_lub; [|lia].
  unfold beta_cubic_man, beta_cubic_sh.
  pose proof (round24_upper (c * 11744051)) as U.
  assert (round24 (c * 11744051) / 2 ^ 24 <= c).
  { apply N.div_le_upper_bound; [apply N.pow_nonzero; lia|]. change (2 ^ 24) with 16777216 in *. lia. }
  lia.
Qed.

Lemma min_window_le_wcap : forall m, m < 65536 -> min_window m <= WCAP.
Proof. intros m H. rewrite min_window_eq. unfold WCAP, FX. lia. Qed.

Lemma repr24_pow2 : forall k, repr24 (2 ^ k).
Proof. intros k. exists 1, k. split; [lia|change (2 ^ 24) with 16777216; lia]. Qed.

Lemma max_cwnd_le_wcap : forall s S, bif_hi s <= S -> S <= SENT_CAP -> cwnd s <= WCAP -> mds s < 65536 ->
  max_cwnd s <= WCAP.
Proof.
  intros s S H1 H2 C M. unfold max_cwnd. apply N.max_lub; [|apply min_window_le_wcap; exact M].
  assert (R : round24 (bif_hi s) <= 2 ^ 30).
  { apply round24_le; [apply repr24_pow2|]. unfold SENT_CAP in H2. change (2 ^ 30) with 1073741824. lia. }
  destruct (kind s).
  - unfold fx_of_int, ss_max_cwnd_mult_man, ss_max_cwnd_mult_sh. change (2 ^ 0) with 1. rewrite N.div_1_r.
    unfold WCAP. change (2 ^ 30) with 1073741824 in R. unfold FX. lia.
  - exact C.
  - unfold max_cwnd_mult_man, max_cwnd_mult_sh. change (2 ^ 1) with 2.
    assert (R2 : round24 (round24 (bif_hi s) * 3) <= 2 ^ 32).
    { apply round24_le; [apply repr24_pow2|]. change (2 ^ 30) with 1073741824 in R. change (2 ^ 32) with 4294967296. lia. }
    apply N.div_le_upper_bound; [lia|]. unfold WCAP, FX. change (2 ^ 32) with 4294967296 in R2. lia.
Qed.

Lemma step_sat : forall s o a s' S, csat s S -> S + sent_of o <= SENT_CAP -> step s o a = Some s' ->
  cmtu_step_ok o s' -> csat s' (S + sent_of o).
Proof.
  intros s o a s' S (C & H & B & M) T E K. unfold csat.
  unfold step in E. destruct o as [bytes app snow|bytes st now|bytes pers now|now|m|bytes|ust unow urtt|]; cbn [sent_of] in *.
  - destruct (N.eqb_spec bytes 0) as [Z|Z]; [injection E as <-; repeat split; try assumption; lia|].
    destruct (N.ltb_spec u32_max (bif s + bytes)); [discriminate|]. injection E as <-. cbn [cwnd bif_hi bif mds set_hs].
    match goal with |- context[clear_req ?x] => destruct (clear_req_proj x) as (E1 & E2 & E3 & _ & _ & E6) end.
    rewrite E1, E2, E3, E6. cbn [cwnd bif_hi bif mds set_uu set_bif]. repeat split; try assumption; lia.
  - destruct (N.ltb_spec (bif s) bytes); [discriminate|]. injection E as <-. rewrite N.add_0_r in *.
    unfold on_ack. set (s1 := ack1 s bytes).
    assert (S1 : csat s1 S) by (unfold csat, s1, ack1; cbn [cwnd bif_hi bif mds set_bif set_hi]; repeat split; try assumption; lia).
    destruct (uu s1); [exact S1|]. set (s2 := ack2 s1 st).
    destruct (ack2_proj s1 st) as (A1 & A2 & A3 & _ & A5). fold s2 in A1, A2, A3, A5.
    assert (S2 : csat s2 S) by (destruct S1 as (X1 & X2 & X3 & X4); unfold csat; rewrite A1, A2, A3, A5; repeat split; assumption).
    destruct (N.leb_spec (max_cwnd s2) (cwnd s2)); [exact S2|].
    destruct S2 as (X1 & X2 & X3 & X4).
    pose proof (max_cwnd_le_wcap s2 S X2 T X1 X4) as MC.
    destruct (kind s2) eqn:K2.
    + assert (S3 : csat (set_cwnd s2 (N.min (round24 (cwnd s2 + fx_of_int bytes)) (max_cwnd s2))) S).
      { unfold csat. cbn [cwnd bif_hi bif mds set_cwnd]. repeat split; try assumption. lia. }
      destruct (thr s2) as [t|]; [|exact S3]. destruct (t <=? _); exact S3.
    + repeat split; assumption.
    + unfold csat. cbn [cwnd bif_hi bif mds set_cwnd]. repeat split; try assumption.
      unfold ca_clamp. lia.
  - destruct ((bytes =? 0) || (bif s <? bytes)); [discriminate|]. rewrite N.add_0_r in *.
    assert (G : csat (congestion_event (set_bif s (bif s - bytes)) now) S).
    { unfold congestion_event. cbn [kind set_bif]. destruct (kind s); unfold csat; cbn [cwnd bif_hi bif mds set_hi set_bif];
        repeat split; try assumption; try lia;
        (pose proof (mult_decrease_le_max (cwnd s) (mds s)); pose proof (min_window_le_wcap (mds s) M); lia). }
    destruct pers; injection E as <-; [|exact G].
    destruct G as (G1 & G2 & G3 & G4). unfold csat. cbn [cwnd bif_hi bif mds set_cwnd set_kind]. repeat split; try assumption.
    apply min_window_le_wcap. exact G4.
  - injection E as <-. rewrite N.add_0_r.
    unfold congestion_event. destruct (kind s); unfold csat; cbn [cwnd bif_hi bif mds set_hi];
      repeat split; try assumption; try lia;
      (pose proof (mult_decrease_le_max (cwnd s) (mds s)); pose proof (min_window_le_wcap (mds s) M); lia).
  - injection E as E. cbn in K. destruct K as [K1 K2]. subst s'. rewrite N.add_0_r. unfold csat in *. cbn [cwnd bif_hi bif mds] in *.
    repeat split; assumption.
  - destruct (N.ltb_spec (bif s) bytes); [discriminate|]. injection E as <-. rewrite N.add_0_r.
    destruct (clear_req_proj (set_bif s (bif s - bytes))) as (E1 & E2 & E3 & _ & _ & E6).
    unfold csat. rewrite E1, E2, E3, E6. cbn [cwnd bif_hi bif mds set_bif]. repeat split; try assumption; lia.
  - destruct (tls (hs s)) as [last|]; [|discriminate]. injection E as <-. rewrite N.add_0_r.
    destruct (on_rtt_update_proj s ust unow urtt last) as (E1 & E2 & E3 & _).
    assert (E4 : bif_hi (on_rtt_update s ust unow urtt last) = bif_hi s).
    { unfold on_rtt_update.
      set (s1 := if match thr s with Some t => t <=? cwnd s | None => false end then s else _).
      assert (P : bif_hi s1 = bif_hi s).
      { unfold s1. destruct (match thr s with Some t => t <=? cwnd s | None => false end); [reflexivity|].
        repeat match goal with |- context[match ?c with Some _ => _ | None => _ end] => destruct c end;
        repeat match goal with |- context[if ?c then _ else _] => destruct c end; reflexivity. }
      destruct (kind s1); try exact P. destruct (thr s1) as [t|]; [destruct (t <=? cwnd s1)|]; exact P. }
    unfold csat. rewrite E1, E2, E3, E4. repeat split; assumption.
  - injection E as <-. rewrite N.add_0_r. repeat split; assumption.
Qed.

Lemma csat_wnd : forall s S, csat s S -> wnd s < u32_max.
Proof.
  intros s S (C & _). unfold wnd, to_u32.
  assert (cwnd s / FX <= 2147483648) by (apply N.div_le_upper_bound; [unfold FX; lia|unfold WCAP in C; lia]).
  unfold u32_max. lia.
Qed.
