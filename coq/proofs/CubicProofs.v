(* Proofs about the CUBIC model (model/Cubic.v). *)
From SQ Require Import lib.Base gen.Gen_C10 model.Cubic proofs.Round24.
Local Open Scope N_scope.

(* ---- generated constants: the values RFC 9002 / RFC 9438 name ---- *)
Lemma min_window_mult_is_2 : cubic_min_window_mult_man = 2 /\ cubic_min_window_mult_sh = 0.
Proof. split; reflexivity. Qed.
Lemma initial_window_consts : initial_window_packets = 10 /\ initial_window_limit = 14720 /\ initial_window_floor_packets = 2.
Proof. repeat split; reflexivity. Qed.
(* 0.7f32 = 11744051 / 2^24 (the binary32 nearest to 0.7), 0.4f32 = 13421773 / 2^25 *)
Lemma beta_is_0_7 : beta_cubic_bits = 1060320051 /\ beta_cubic_man = 11744051 /\ beta_cubic_sh = 24
  /\ 10 * beta_cubic_man < 7 * 2 ^ 24 + 5 /\ 7 * 2 ^ 24 < 10 * beta_cubic_man + 5.
Proof. repeat split; reflexivity. Qed.
Lemma c_is_0_4 : cubic_c_man = 13421773 /\ cubic_c_sh = 25
  /\ 10 * cubic_c_man < 4 * 2 ^ 25 + 5 /\ 4 * 2 ^ 25 < 10 * cubic_c_man + 5.
Proof. repeat split; reflexivity. Qed.

Lemma min_window_eq : forall m, min_window m = 8192 * m.
Proof.
  intros m. unfold min_window, FX, cubic_min_window_mult_man, cubic_min_window_mult_sh.
  change (2 ^ 0) with 1. rewrite N.div_1_r. lia.
Qed.

Lemma to_u32_min_window : forall m, m < 65536 -> to_u32 (min_window m) = 2 * m.
Proof.
  intros m H. rewrite min_window_eq. unfold to_u32, FX, u32_max.
  replace (8192 * m) with (2 * m * 4096) by lia. rewrite N.div_mul by lia. lia.
Qed.

Lemma floor_u32_eq : forall m, floor_u32 m = 2 * m.
Proof.
  intros m. unfold floor_u32, cubic_min_window_mult_man, cubic_min_window_mult_sh.
  change (2 ^ 0) with 1. rewrite N.div_1_r. reflexivity.
Qed.

Lemma repr_min_window : forall m, m < 65536 -> repr24 (min_window m).
Proof.
  intros m H. rewrite min_window_eq. exists m, 13. change (2 ^ 13) with 8192. change (2 ^ 24) with 16777216. lia.
Qed.

Lemma initial_window_bounds : forall m, m < 65536 -> 2 * m <= initial_window m /\ initial_window m <= 10 * m.
Proof.
  intros m H. unfold initial_window. rewrite to_u32_min_window by exact H.
  unfold initial_window_packets, initial_window_limit, initial_window_floor_packets. lia.
Qed.

(* RFC 9002 7.2: the initial window is min(10 mds, max(14720, 2 mds)) *)
Lemma initial_window_rfc : forall m, m < 65536 ->
  initial_window m = N.min (10 * m) (N.max 14720 (2 * m)).
Proof.
  intros m H. unfold initial_window. rewrite to_u32_min_window by exact H.
  unfold initial_window_packets, initial_window_limit, initial_window_floor_packets. lia.
Qed.

Lemma fx_of_int_ge : forall n y, y < 2 ^ 24 -> y <= n -> FX * y <= fx_of_int n.
Proof.
  intros n y Y L. unfold fx_of_int. apply N.mul_le_mono_l. apply round24_ge; [apply repr24_small; exact Y|exact L].
Qed.

Lemma to_u32_ge : forall x k, k <= u32_max -> FX * k <= x -> k <= to_u32 x.
Proof.
  intros x k K L. unfold to_u32. apply N.min_glb; [|exact K].
  apply N.div_le_lower_bound; [unfold FX; lia|exact L].
Qed.

(* ---- state-update projections ---- *)
Lemma clear_req_proj : forall s, mds (clear_req s) = mds s /\ cwnd (clear_req s) = cwnd s /\ bif (clear_req s) = bif s
  /\ uu (clear_req s) = uu s /\ mds0 (clear_req s) = mds0 s /\ bif_hi (clear_req s) = bif_hi s.
Proof. intros s. unfold clear_req. destruct (kind s) as [|t [|]|]; repeat split; reflexivity. Qed.

Lemma ack2_proj : forall s t, mds (ack2 s t) = mds s /\ cwnd (ack2 s t) = cwnd s /\ bif (ack2 s t) = bif s
  /\ uu (ack2 s t) = uu s /\ bif_hi (ack2 s t) = bif_hi s.
Proof.
  intros s t. unfold ack2. destruct (kind s) as [|t0 r|]; try (repeat split; reflexivity).
  destruct (t0 <? t); repeat split; reflexivity.
Qed.

Definition floor_inv (s : cstate) : Prop := min_window (mds s) <= cwnd s /\ mds s < 65536.

Lemma max_cwnd_ge : forall s, min_window (mds s) <= max_cwnd s.
Proof. intros s. unfold max_cwnd. apply N.le_max_r. Qed.

Lemma congestion_event_floor : forall s now, floor_inv s -> floor_inv (congestion_event s now).
Proof.
  intros s now [F M]. unfold congestion_event, floor_inv.
  destruct (kind s); cbn [mds cwnd set_hi]; (split; [|exact M]); try exact F;
    unfold mult_decrease; apply N.le_max_r.
Qed.

(* where the oracle's answer is consulted, and what is assumed of it *)
Definition oracle_ok_step (s : cstate) (o : op) (a : N) : Prop :=
  match o with
  | Ack bytes sent_time _ => ca_site s bytes sent_time = true -> min_window (mds s) <= a
  | Mtu m => m < 65536
  | _ => True
  end.

Lemma on_ack_floor : forall s bytes st a, floor_inv s ->
  (ca_site s bytes st = true -> min_window (mds s) <= a) -> floor_inv (on_ack s bytes st a).
Proof.
  intros s bytes st a [F M] O. unfold on_ack. unfold ca_site in O.
  set (s1 := ack1 s bytes) in *.
  assert (I1 : floor_inv s1) by (split; [exact F|exact M]).
  destruct (uu s1); [exact I1|]. cbn [negb andb] in O.
  set (s2 := ack2 s1 st) in *.
  destruct (ack2_proj s1 st) as (E1 & E2 & _).
  assert (I2 : floor_inv s2) by (unfold floor_inv, s2; rewrite E1, E2; exact I1).
  destruct (N.leb_spec (max_cwnd s2) (cwnd s2)) as [L|L]; [exact I2|]. cbn [negb andb] in O.
  destruct I2 as [F2 M2].
  assert (G : forall x, cwnd s2 <= x -> min_window (mds s2) <= N.min (round24 x) (max_cwnd s2)).
  { intros x X. apply N.min_glb; [|apply max_cwnd_ge].
    apply round24_ge; [apply repr_min_window; exact M2|lia]. }
  destruct (kind s2) eqn:K.
  - assert (I3 : floor_inv (set_cwnd s2 (N.min (round24 (cwnd s2 + fx_of_int bytes)) (max_cwnd s2)))).
    { split; [|exact M2]. cbn [mds cwnd set_cwnd]. apply G. lia. }
    destruct (thr s2) as [t|]; [|exact I3]. destruct (t <=? _); exact I3.
  - split; assumption.
  - split; [|exact M2]. cbn [mds cwnd set_cwnd]. apply N.min_glb.
    + unfold s2 in *. rewrite E1. apply O. reflexivity.
    + unfold ca_clamp. apply G. apply N.le_add_r.
Qed.

Lemma step_floor : forall s o a s', floor_inv s -> oracle_ok_step s o a -> step s o a = Some s' -> floor_inv s'.
Proof.
  intros s o a s' I O H. destruct I as [F M]. unfold step in H. destruct o as [bytes app|bytes st now|bytes pers now|now|m|bytes|].
  - destruct (bytes =? 0); [injection H as <-; split; assumption|].
    destruct (u32_max <? bif s + bytes); [discriminate|]. injection H as <-.
    unfold floor_inv. destruct (clear_req_proj (set_uu (set_bif s (bif s + bytes))
      match app with 0 => under_utilized (set_bif s (bif s + bytes)) | 1 => false | _ => under_utilized (set_bif s (bif s + bytes)) end)) as (E1 & E2 & _).
    rewrite E1, E2. split; assumption.
  - destruct (bif s <? bytes); [discriminate|]. injection H as <-.
    apply on_ack_floor; [split; assumption|exact O].
  - destruct ((bytes =? 0) || (bif s <? bytes)); [discriminate|].
    pose proof (congestion_event_floor (set_bif s (bif s - bytes)) now (conj F M)) as [F1 M1].
    destruct pers; injection H as <-; [|split; assumption].
    split; [cbn [mds cwnd set_cwnd set_kind]; lia|exact M1].
  - injection H as <-. apply congestion_event_floor. split; assumption.
  - injection H as <-. cbn in O. split; [|exact O]. cbn [mds cwnd].
    rewrite min_window_eq. replace (8192 * m) with (FX * (2 * m)) by (unfold FX; lia).
    apply fx_of_int_ge; [change (2 ^ 24) with 16777216; lia|].
    pose proof (initial_window_bounds m O). lia.
  - destruct (bif s <? bytes); [discriminate|]. injection H as <-.
    unfold floor_inv. destruct (clear_req_proj (set_bif s (bif s - bytes))) as (E1 & E2 & _).
    rewrite E1, E2. split; assumption.
  - injection H as <-. split; assumption.
Qed.

Lemma cinit_floor : forall m, m < 65536 -> floor_inv (cinit m).
Proof.
  intros m H. split; [|exact H]. cbn [cinit mds cwnd].
  rewrite min_window_eq. replace (8192 * m) with (FX * (2 * m)) by (unfold FX; lia).
  apply fx_of_int_ge; [change (2 ^ 24) with 16777216; lia|].
  pose proof (initial_window_bounds m H). lia.
Qed.

(* ---- histories ---- *)
Fixpoint steps (s : cstate) (l : list (op * N)) : option cstate :=
  match l with
  | [] => Some s
  | (o, a) :: t => match step s o a with Some s' => steps s' t | None => None end
  end.

Fixpoint oracle_ok (s : cstate) (l : list (op * N)) : Prop :=
  match l with
  | [] => True
  | (o, a) :: t => oracle_ok_step s o a /\ match step s o a with Some s' => oracle_ok s' t | None => True end
  end.

Lemma steps_floor : forall l s s', floor_inv s -> oracle_ok s l -> steps s l = Some s' -> floor_inv s'.
Proof.
  induction l as [|[o a] t IH]; intros s s' I O H; cbn [steps oracle_ok] in *.
  - injection H as <-. exact I.
  - destruct O as [O1 O2]. destruct (step s o a) as [s1|] eqn:E; [|discriminate].
    apply (IH s1); [eapply step_floor; eassumption|exact O2|exact H].
Qed.

(* cubic_floor: after every history the window is at least two datagrams, both as the f32 the
   controller keeps and as the u32 it reports *)
Theorem cubic_floor : forall m l s', m < 65536 -> steps (cinit m) l = Some s' -> oracle_ok (cinit m) l ->
  FX * (2 * mds s') <= cwnd s' /\ 2 * mds s' <= wnd s'.
Proof.
  intros m l s' M H O. destruct (steps_floor l _ _ (cinit_floor m M) O H) as [F B].
  rewrite min_window_eq in F. split; [unfold FX; lia|].
  unfold wnd. apply to_u32_ge; [unfold u32_max; lia|unfold FX; lia].
Qed.

(* ---- loss / ECN ---- *)
Definition is_congestion_signal (o : op) : bool :=
  match o with Lost _ _ _ | Ecn _ => true | _ => false end.

Lemma mult_decrease_le : forall c m, min_window m <= c -> mult_decrease c m <= c.
Proof.
  intros c m F. unfold mult_decrease. apply N.max_lub; [|exact F].
  unfold beta_cubic_man, beta_cubic_sh.
  pose proof (round24_upper (c * 11744051)) as U.
  apply N.div_le_upper_bound; [apply N.pow_nonzero; lia|].
  change (2 ^ 24) with 16777216 in *. lia.
Qed.

Lemma congestion_event_le : forall s now, floor_inv s -> cwnd (congestion_event s now) <= cwnd s.
Proof.
  intros s now [F M]. unfold congestion_event. destruct (kind s); cbn [cwnd set_hi]; try lia;
    apply mult_decrease_le; exact F.
Qed.

Theorem cubic_loss_never_increases : forall s o a s', floor_inv s -> is_congestion_signal o = true ->
  step s o a = Some s' -> cwnd s' <= cwnd s /\ wnd s' <= wnd s.
Proof.
  intros s o a s' I C H.
  assert (G : cwnd s' <= cwnd s).
  { destruct o; try discriminate; unfold step in H.
    - destruct ((bytes =? 0) || (bif s <? bytes)); [discriminate|].
      pose proof (congestion_event_le (set_bif s (bif s - bytes)) now I) as L. cbn [cwnd set_bif] in L.
      destruct persistent; injection H as <-; [|exact L].
      cbn [cwnd set_cwnd set_kind].
      destruct (congestion_event_floor (set_bif s (bif s - bytes)) now I) as [F1 _].
      assert (mds (congestion_event (set_bif s (bif s - bytes)) now) = mds s).
      { unfold congestion_event. cbn [kind set_bif]. destruct (kind s); reflexivity. }
      destruct I as [F M]. rewrite H. exact F.
    - injection H as <-. apply congestion_event_le. exact I. }
  split; [exact G|]. unfold wnd, to_u32.
  assert (cwnd s' / FX <= cwnd s / FX) by (apply N.div_le_mono; [unfold FX; lia|exact G]). lia.
Qed.

(* at most one reduction per recovery period: inside a recovery period a loss or ECN signal
   (short of persistent congestion) leaves the window alone ... *)
Theorem cubic_once_per_recovery : forall s o a s' t r, kind s = Recovery t r -> is_congestion_signal o = true ->
  (forall b now, o <> Lost b true now) -> step s o a = Some s' ->
  cwnd s' = cwnd s /\ exists r', kind s' = Recovery t r'.
Proof.
  intros s o a s' t r K C NP H. destruct o; try discriminate; unfold step in H.
  - destruct ((bytes =? 0) || (bif s <? bytes)); [discriminate|].
    destruct persistent; [exfalso; eapply NP; reflexivity|]. injection H as <-.
    unfold congestion_event. cbn [kind set_bif]. rewrite K. cbn [cwnd kind set_hi set_bif]. split; [reflexivity|eauto].
  - injection H as <-. unfold congestion_event. rewrite K. cbn [cwnd kind set_hi]. split; [reflexivity|eauto].
Qed.

(* ... and a recovery period ends only by the acknowledgement of a packet sent after it began
   (while not application limited), or by persistent congestion *)
Theorem cubic_recovery_ends_only_by_ack : forall s o a s' t r, kind s = Recovery t r -> step s o a = Some s' ->
  (exists r', kind s' = Recovery t r') \/
  (exists b st now, o = Ack b st now /\ t < st /\ uu s = false) \/
  (exists b now, o = Lost b true now).
Proof.
  intros s o a s' t r K H. unfold step in H. destruct o as [bytes app|bytes st now|bytes pers now|now|m|bytes|].
  - left. destruct (bytes =? 0); [injection H as <-; eauto|].
    destruct (u32_max <? bif s + bytes); [discriminate|]. injection H as <-.
    unfold clear_req. cbn [kind set_uu set_bif]. rewrite K. destruct r; cbn [kind set_kind set_uu set_bif]; eauto.
  - destruct (bif s <? bytes); [discriminate|]. injection H as <-.
    unfold on_ack. set (s1 := ack1 s bytes).
    assert (K1 : kind s1 = Recovery t r) by exact K.
    assert (U1 : uu s1 = uu s) by reflexivity.
    destruct (uu s1) eqn:U; [left; eauto|].
    unfold ack2. rewrite K1.
    destruct (N.ltb_spec t st) as [L|L].
    + right; left. exists bytes, st, now. repeat split; [exact L|congruence].
    + left. destruct (max_cwnd s1 <=? cwnd s1); [eauto|]. rewrite K1. eauto.
  - destruct ((bytes =? 0) || (bif s <? bytes)); [discriminate|].
    destruct pers; [right; right; eauto|]. injection H as <-. left.
    unfold congestion_event. cbn [kind set_bif]. rewrite K. cbn [kind set_hi set_bif]. eauto.
  - injection H as <-. left. unfold congestion_event. rewrite K. cbn [kind set_hi]. eauto.
  - injection H as <-. left. cbn [kind]. eauto.
  - destruct (bif s <? bytes); [discriminate|]. injection H as <-. left.
    unfold clear_req. cbn [kind set_bif]. rewrite K. destruct r; cbn [kind set_kind set_bif]; eauto.
  - injection H as <-. eauto.
Qed.

(* application limited: an acknowledgement changes neither the window nor the phase *)
Theorem cubic_app_limited_frozen : forall s b st now a s', uu s = true -> step s (Ack b st now) a = Some s' ->
  cwnd s' = cwnd s /\ kind s' = kind s /\ bif s' = bif s - b.
Proof.
  intros s b st now a s' U H. unfold step in H. destruct (bif s <? b); [discriminate|]. injection H as <-.
  unfold on_ack. assert (U1 : uu (ack1 s b) = true) by exact U. rewrite U1. repeat split; reflexivity.
Qed.

(* persistent congestion: exactly the minimum window, back to slow start *)
Theorem cubic_persistent_collapse : forall s b now a s', mds s < 65536 -> step s (Lost b true now) a = Some s' ->
  cwnd s' = FX * (2 * mds s) /\ wnd s' = 2 * mds s /\ kind s' = SlowStart /\ mds s' = mds s.
Proof.
  intros s b now a s' M H. unfold step in H. destruct ((b =? 0) || (bif s <? b)); [discriminate|]. injection H as <-.
  assert (E : mds (congestion_event (set_bif s (bif s - b)) now) = mds s).
  { unfold congestion_event. cbn [kind set_bif]. destruct (kind s); reflexivity. }
  cbn [cwnd kind mds set_cwnd set_kind]. rewrite E. repeat split.
  - rewrite min_window_eq. unfold FX. lia.
  - unfold wnd. cbn [cwnd set_cwnd set_kind]. apply to_u32_min_window. exact M.
Qed.

(* ---- bytes in flight ---- *)
Definition sent_of (o : op) : N := match o with Sent b _ => b | _ => 0 end.
Definition removed_of (o : op) : N := match o with Ack b _ _ | Lost b _ _ | Discard b => b | _ => 0 end.
Fixpoint total (f : op -> N) (l : list (op * N)) : N :=
  match l with [] => 0 | (o, _) :: t => f o + total f t end.

(* the caller's obligation (the code `expect`s it): never remove more than is outstanding,
   keep the counter within u32, a lost packet has a size *)
Definition op_valid (b : N) (o : op) : bool :=
  match o with
  | Sent bytes _ => (bytes =? 0) || (b + bytes <=? u32_max)
  | Ack bytes _ _ => bytes <=? b
  | Lost bytes _ _ => negb (bytes =? 0) && (bytes <=? b)
  | Discard bytes => bytes <=? b
  | _ => true
  end.

Lemma on_ack_proj : forall s b st a, bif (on_ack s b st a) = bif s - b /\ uu (on_ack s b st a) = uu s
  /\ mds (on_ack s b st a) = mds s.
Proof.
  intros s b st a. unfold on_ack. set (s1 := ack1 s b).
  assert (P1 : bif s1 = bif s - b /\ uu s1 = uu s /\ mds s1 = mds s) by (repeat split; reflexivity).
  destruct (uu s1) eqn:U; [rewrite U; exact P1|].
  destruct (ack2_proj s1 st) as (E1 & E2 & E3 & E4 & _). set (s2 := ack2 s1 st) in *.
  assert (P2 : bif s2 = bif s - b /\ uu s2 = uu s /\ mds s2 = mds s).
  { destruct P1 as (A & B & C). repeat split; congruence. }
  destruct (max_cwnd s2 <=? cwnd s2); [exact P2|].
  destruct (kind s2); try exact P2.
  destruct (thr s2) as [t|]; [destruct (t <=? _)|]; exact P2.
Qed.

Lemma congestion_event_proj : forall s now, bif (congestion_event s now) = bif s /\ uu (congestion_event s now) = uu s
  /\ mds (congestion_event s now) = mds s.
Proof. intros s now. unfold congestion_event. destruct (kind s); repeat split; reflexivity. Qed.

Lemma step_some_iff : forall s o a, op_valid (bif s) o = true <-> step s o a <> None.
Proof.
  intros s o a. unfold op_valid, step. destruct o as [bytes app|bytes st now|bytes pers now|now|m|bytes|].
  - destruct (N.eqb_spec bytes 0); cbn [orb]; [split; [discriminate|reflexivity]|].
    destruct (N.ltb_spec u32_max (bif s + bytes)); destruct (N.leb_spec (bif s + bytes) u32_max); try lia;
      split; try discriminate; try congruence.
  - destruct (N.ltb_spec (bif s) bytes); destruct (N.leb_spec bytes (bif s)); try lia; split; try discriminate; congruence.
  - destruct (N.eqb_spec bytes 0); cbn [orb negb andb]; [split; [discriminate|congruence]|].
    destruct (N.ltb_spec (bif s) bytes); destruct (N.leb_spec bytes (bif s)); try lia;
      destruct pers; split; try discriminate; congruence.
  - split; [discriminate|reflexivity].
  - split; [discriminate|reflexivity].
  - destruct (N.ltb_spec (bif s) bytes); destruct (N.leb_spec bytes (bif s)); try lia; split; try discriminate; congruence.
  - split; [discriminate|reflexivity].
Qed.

Lemma step_bif : forall s o a s', step s o a = Some s' ->
  bif s' + removed_of o = bif s + sent_of o /\ (bif s <= u32_max -> bif s' <= u32_max).
Proof.
  intros s o a s' H. unfold step in H. destruct o as [bytes app|bytes st now|bytes pers now|now|m|bytes|]; cbn [removed_of sent_of].
  - destruct (N.eqb_spec bytes 0); [injection H as <-; lia|].
    destruct (N.ltb_spec u32_max (bif s + bytes)); [discriminate|]. injection H as <-.
    match goal with |- context[clear_req ?x] => destruct (clear_req_proj x) as (_ & _ & E & _) end.
    rewrite E. cbn [bif set_uu set_bif]. lia.
  - destruct (N.ltb_spec (bif s) bytes); [discriminate|]. injection H as <-.
    destruct (on_ack_proj s bytes st a) as (E & _). rewrite E. lia.
  - destruct ((bytes =? 0) || (bif s <? bytes)) eqn:G; [discriminate|].
    apply orb_false_iff in G. destruct G as [_ G]. apply N.ltb_ge in G.
    destruct (congestion_event_proj (set_bif s (bif s - bytes)) now) as (E & _). cbn [bif set_bif] in E.
    destruct pers; injection H as <-; cbn [bif set_cwnd set_kind]; rewrite E; lia.
  - injection H as <-. destruct (congestion_event_proj s now) as (E & _). rewrite E. lia.
  - injection H as <-. cbn [bif]. lia.
  - destruct (N.ltb_spec (bif s) bytes); [discriminate|]. injection H as <-.
    destruct (clear_req_proj (set_bif s (bif s - bytes))) as (_ & _ & E & _). rewrite E. cbn [bif set_bif]. lia.
  - injection H as <-. lia.
Qed.

(* bytes_in_flight is exactly what was sent minus what was acknowledged, lost or discarded; it
   never goes negative and stays within u32 along every history the controller accepts *)
Theorem bif_matches_outstanding : forall l s s', steps s l = Some s' ->
  bif s' + total removed_of l = bif s + total sent_of l /\ (bif s <= u32_max -> bif s' <= u32_max).
Proof.
  induction l as [|[o a] t IH]; intros s s' H; cbn [steps total] in *.
  - injection H as <-. lia.
  - destruct (step s o a) as [s1|] eqn:E; [|discriminate].
    destruct (step_bif _ _ _ _ E) as [A B]. destruct (IH _ _ H) as [C D]. split; [lia|auto].
Qed.

(* ... and the controller accepts a history exactly when every operation is valid for the bytes
   outstanding at that point (no other panic, no overflow) *)
Fixpoint hist_valid (b : N) (l : list (op * N)) : bool :=
  match l with
  | [] => true
  | (o, _) :: t => op_valid b o && hist_valid (b + sent_of o - removed_of o) t
  end.

Theorem no_panic_iff_valid : forall l s, steps s l <> None <-> hist_valid (bif s) l = true.
Proof.
  induction l as [|[o a] t IH]; intros s; cbn [steps hist_valid].
  - split; [reflexivity|discriminate].
  - pose proof (step_some_iff s o a) as V. destruct (step s o a) as [s1|] eqn:E.
    + assert (op_valid (bif s) o = true) by (apply V; discriminate). rewrite H. cbn [andb].
      destruct (step_bif _ _ _ _ E) as [A _].
      replace (bif s + sent_of o - removed_of o) with (bif s1) by lia. apply IH.
    + destruct (op_valid (bif s) o); [exfalso; apply V; reflexivity|]. cbn [andb]. split; [congruence|discriminate].
Qed.

Lemma min_window_is_2_mds : forall m, min_window m = FX * (2 * m) /\ floor_u32 m = 2 * m.
Proof. intros m. split; [rewrite min_window_eq; unfold FX; lia|apply floor_u32_eq]. Qed.
