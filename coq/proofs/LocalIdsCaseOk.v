(* The executable premise "all registrations of the case use one lifetime" and what it gives for the run of the
   case: retire_prior_to <= sequence_number in every NEW_CONNECTION_ID frame of every prefix of the run. *)
From SQ Require Import lib.Base lib.ListX gen.Gen_C13 model.LocalIds proofs.LocalIdsProofs proofs.LocalIdsLifetime.
Local Open Scope N_scope.

Definition oeqb (a b : option N) : bool :=
  match a, b with Some x, Some y => x =? y | None, None => true | _, _ => false end.
Lemma oeqb_eq a b : oeqb a b = true -> a = b.
Proof. destruct a, b; cbn; try discriminate; auto. intros H. apply N.eqb_eq in H. now subst. Qed.

(* lifetimes of the handshake ids in the header (rot, life)^n *)
Fixpoint header_lives (n : nat) (l : list Z) : list Z :=
  match n with O => [] | S n => hd 0%Z (tl l) :: header_lives n (tl (tl l)) end.

Definition op_ok (L : option N) (o : an_op) : bool :=
  let '(code0, c0, a, b, d) := o in if zmod code0 10 =? 2 then oeqb (life a) L else true.

Definition case_ops (case : list Z) : list an_op := let rest := snd (init case) in ops_of (length rest) rest.

(* every handshake id and every register op of the case carries the same lifetime *)
Definition lcid_case_ok (case : list Z) : bool :=
  let nconn := N.to_nat (zmod (hd 0%Z case) 3 + 1) in
  let hl := header_lives nconn (tl case) in
  let L := life (hd 0%Z hl) in
  forallb (fun v => oeqb (life v) L) hl && forallb (op_ok L) (case_ops case).

Lemma open_conns_gl L n : forall l s, GL L s -> Forall (fun v => life v = L) (header_lives n l) ->
  GL L (fst (open_conns n l s)).
Proof.
  induction n as [|n IH]; intros l s G Hl; cbn [open_conns header_lives] in *; [exact G|].
  inversion Hl; subst. apply IH; auto. unfold GL in *. cbn [conns now]. apply Forall_app. split; [exact G|].
  constructor; [|constructor]. cbn [creg]. apply new_reg_linv. auto.
Qed.

Lemma Forall_firstn {A} (P : A -> Prop) n : forall l, Forall P l -> Forall P (firstn n l).
Proof. induction n as [|n IH]; intros [|x t] H; cbn [firstn]; try constructor; inversion H; auto. Qed.

Theorem case_ok_rpt_le_seq case : lcid_case_ok case = true ->
  forall n c r constraint cap pn f,
    creg (nth c (conns (state_after (fst (init case)) (firstn n (case_ops case)))) dummy_conn) = Some r ->
    In f (snd (on_transmit r constraint cap pn)) ->
    let '(sq, p, _, _) := f in p <= sq.
Proof.
  unfold lcid_case_ok. intros H. apply andb_prop in H. destruct H as [H1 H2].
  set (L := life (hd 0%Z (header_lives (N.to_nat (zmod (hd 0%Z case) 3 + 1)) (tl case)))) in *.
  intros n. apply (rpt_le_seq_constant_lifetime L).
  - unfold init. apply open_conns_inv. constructor.
  - unfold init. apply open_conns_gl; [constructor|].
    rewrite forallb_forall in H1. apply Forall_forall. intros v Hv. apply oeqb_eq. auto.
  - apply Forall_firstn. rewrite forallb_forall in H2. apply Forall_forall. intros [[[[code0 c0] a] b] d] Ho.
    specialize (H2 _ Ho). unfold op_ok in H2. unfold op_life. intros E. rewrite E in H2. cbn in H2. apply oeqb_eq. exact H2.
Qed.

(* the premise holds of a constant-lifetime run and fails for the recorded finding *)
Definition constant_case : list Z :=
  [0; 1; 60000000;  1; 0; 1; 0; 0;  2; 0; 60000000; 0; 3;  4; 0; 0; 4; 0;  7; 0; 30000000; 0; 0;  2; 0; 60000000; 0; 3;  4; 0; 0; 4; 0]%Z.

Lemma case_ok_examples : lcid_case_ok constant_case = true /\ judge constant_case (run constant_case) = true /\
  lcid_case_ok refuting_case = false.
Proof. repeat split; vm_compute; reflexivity. Qed.
