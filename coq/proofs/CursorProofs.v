(* Proofs about model/CursorRing.v: for every sequence of operations (= every SC interleaving of a
   producer and a consumer thread, each operation having at most one shared access), the producer is
   never granted an entry that is still unread and the consumer is never granted an entry that was not
   written; u32 wrap-around of the indices included. *)
From SQ Require Import lib.Base lib.ListX gen.Gen_C17.
From SQ Require Import model.CursorRing proofs.SpscData.
Local Open Scope N_scope.

Record cinvr (size : N) (s : cst) : Prop := mkCI {
  ci_prod : g_prod s = tw s mod two32;
  ci_cons : g_cons s = tr s mod two32;
  ci_pcp : p_cp s = tw s mod two32;
  ci_ccc : c_cc s = tr s mod two32;
  ci_pcc : p_cc s = (pcg s + size) mod two32;
  ci_ccp : c_cp s = cpg s mod two32;
  ci_plen : p_len s = pcg s + size - tw s;
  ci_clen : c_len s = cpg s - tr s;
  ci_ord : pcg s <= tr s /\ tr s <= cpg s /\ cpg s <= tw s /\ tw s <= pcg s + size
}.

Lemma two32_pos : 0 < two32. Proof. reflexivity. Qed.

Lemma wadd32_mod : forall a b, wadd32 (a mod two32) b = (a + b) mod two32.
Proof. intros. unfold wadd32. rewrite N.add_mod_idemp_l by discriminate. reflexivity. Qed.

Lemma wsub32_spec : forall A B, A <= B -> B < A + two32 -> wsub32 (B mod two32) (A mod two32) = B - A.
Proof. intros. unfold wsub32. apply count_spec2; auto. reflexivity. Qed.

Lemma cinvr_init : forall size, 0 < size -> size < two32 -> cinvr size (cinit size).
Proof.
  intros size H0 H1. constructor; cbn; try reflexivity; try lia.
Qed.

Section Steps.
Variable size : N.
Hypothesis Hs0 : 0 < size.
Hypothesis Hs1 : size <= 2147483648.

Lemma inv_acquire_producer : forall w s, cinvr size s -> cinvr size (fst (acquire_producer size w s)).
Proof.
  intros w s [H1 H2 H3 H4 H5 H6 H7 H8 H9]. unfold acquire_producer.
  destruct (N.min w size <=? p_len s); [constructor; auto|].
  destruct (p_cc s =? wadd32 (g_cons s) size); [constructor; auto|].
  cbn [fst]. rewrite H2, wadd32_mod. constructor; cbn; auto; try lia.
  rewrite H3. apply wsub32_spec; unfold two32; lia.
Qed.

Lemma inv_acquire_consumer : forall w s, cinvr size s -> cinvr size (fst (acquire_consumer size w s)).
Proof.
  intros w s [H1 H2 H3 H4 H5 H6 H7 H8 H9]. unfold acquire_consumer.
  destruct (N.min w size <=? c_len s); [constructor; auto|].
  destruct (c_cp s =? g_prod s); [constructor; auto|].
  cbn [fst]. constructor; cbn; auto; try lia.
  rewrite H1, H4. apply wsub32_spec; unfold two32; lia.
Qed.

Lemma inv_produce : forall k s, cinvr size s -> cinvr size (fst (produce size k s)).
Proof.
  intros k s [H1 H2 H3 H4 H5 H6 H7 H8 H9]. unfold produce. cbn [fst].
  assert (N.min k (p_len s) <= p_len s) by lia.
  constructor; cbn; auto; try lia.
  - rewrite H1. apply wadd32_mod.
  - rewrite H3. apply wadd32_mod.
Qed.

Lemma inv_consume : forall k s, cinvr size s -> cinvr size (fst (consume size k s)).
Proof.
  intros k s [H1 H2 H3 H4 H5 H6 H7 H8 H9]. unfold consume. cbn [fst].
  assert (N.min k (c_len s) <= c_len s) by lia.
  constructor; cbn; auto; try lia.
  - rewrite H2. apply wadd32_mod.
  - rewrite H4. apply wadd32_mod.
Qed.

(* operations as data, so that "every sequence" can be quantified *)
Inductive cop := CAcqP (w : N) | CProd (k : N) | CAcqC (w : N) | CCons (k : N).
Definition cstep1 (s : cst) (o : cop) : cst :=
  match o with
  | CAcqP w => fst (acquire_producer size w s)
  | CProd k => fst (produce size k s)
  | CAcqC w => fst (acquire_consumer size w s)
  | CCons k => fst (consume size k s)
  end.

Theorem cursor_invariant : forall ops, cinvr size (fold_left cstep1 ops (cinit size)).
Proof.
  intros ops. assert (G : cinvr size (cinit size)) by (apply cinvr_init; unfold two32; lia).
  revert G. generalize (cinit size). induction ops as [|o r IH]; intros s G; cbn [fold_left]; auto.
  apply IH. destruct o; cbn [cstep1];
    [apply inv_acquire_producer|apply inv_produce|apply inv_acquire_consumer|apply inv_consume]; auto.
Qed.

(* the windows the two sides believe they own never overlap and never exceed what exists:
   [tr, tw) is written and unread; the consumer's window is inside it, the producer's window
   [tw, tw + p_len) stays within `size` entries of the oldest unread one *)
Theorem cursor_safe : forall ops,
  let s := fold_left cstep1 ops (cinit size) in
  c_len s <= tw s - tr s /\ p_len s + (tw s - tr s) <= size /\ tr s <= tw s /\ tw s - tr s <= size.
Proof.
  intros ops s. destruct (cursor_invariant ops) as [H1 H2 H3 H4 H5 H6 H7 H8 H9]. fold s in H7, H8, H9. lia.
Qed.
End Steps.

(* ---------------------------------------------------------------------------------------- *)
(* entries: what the consumer reads is what the producer wrote, in order, each once          *)
(* ---------------------------------------------------------------------------------------- *)
Lemma mod_mod_divides : forall a k, k <= 32 -> (a mod two32) mod 2 ^ k = a mod 2 ^ k.
Proof.
  intros a k Hk. unfold two32. replace 4294967296 with (2 ^ k * 2 ^ (32 - k)).
  - rewrite N.mod_mul_r by (apply N.pow_nonzero; discriminate).
    rewrite N.mul_comm, N.mod_add by (apply N.pow_nonzero; discriminate).
    apply N.mod_mod. apply N.pow_nonzero. discriminate.
  - rewrite <- N.pow_add_r. replace (k + (32 - k)) with 32 by lia. reflexivity.
Qed.

Lemma write_slots_spec : forall size k t sl,
  0 < size -> length sl = N.to_nat size -> (k <= N.to_nat size)%nat ->
  let sl' := write_slots k (t mod size) size (t + 1) sl in
  length sl' = N.to_nat size /\
  (forall i, t <= i -> i < t + N.of_nat k -> nth (N.to_nat (i mod size)) sl' 0 = i + 1) /\
  (forall i, (forall j, t <= j -> j < t + N.of_nat k -> j mod size <> i mod size) ->
             nth (N.to_nat (i mod size)) sl' 0 = nth (N.to_nat (i mod size)) sl 0).
Proof.
  intros size k. induction k as [|k IH]; intros t sl Hs Hl Hk; cbn [write_slots].
  - repeat split; auto. intros; lia.
  - pose proof (N.mod_lt t size ltac:(lia)) as Hlt.
    rewrite N.add_mod_idemp_l by lia.
    assert (Hl' : length (set_nth (N.to_nat (t mod size)) sl (t + 1)) = N.to_nat size) by (rewrite length_set_nth; auto).
    destruct (IH (t + 1) (set_nth (N.to_nat (t mod size)) sl (t + 1)) Hs Hl' ltac:(lia)) as (L & A & B).
    repeat split; auto.
    + intros i Hlo Hhi. destruct (N.eq_dec i t) as [->|Hne].
      * rewrite B. { rewrite nth_set_nth_eq by lia. reflexivity. }
        intros j Hj1 Hj2 E. symmetry in E. apply mod_inj_window in E; lia.
      * apply A; lia.
    + intros i Hd. rewrite B.
      * rewrite nth_set_nth_ne; auto; try lia. intros E. apply N2Nat.inj in E. apply (Hd t); auto; lia.
      * intros j Hj1 Hj2. apply Hd; lia.
Qed.

Fixpoint cseq (from : N) (k : nat) : list N :=
  match k with O => [] | S k' => from :: cseq (from + 1) k' end.

Lemma read_slots_spec : forall size k t sl,
  0 < size ->
  (forall i, t <= i -> i < t + N.of_nat k -> nth (N.to_nat (i mod size)) sl 0 = i + 1) ->
  read_slots k (t mod size) size sl = cseq (t + 1) k.
Proof.
  intros size k. induction k as [|k IH]; intros t sl Hs H; cbn [read_slots cseq]; auto.
  rewrite (H t) by lia. f_equal. rewrite N.add_mod_idemp_l by lia. apply IH; auto.
  intros i Hlo Hhi. apply H; lia.
Qed.

Record dinvr (size : N) (s : cst) : Prop := mkDI {
  di_len : length (slots s) = N.to_nat size;
  di_slots : forall i, tr s <= i -> i < tw s -> nth (N.to_nat (i mod size)) (slots s) 0 = i + 1
}.

Section Data.
Variable k2 : N.
Hypothesis Hk : k2 <= 31.
Let size := 2 ^ k2.

Lemma size_pos : 0 < size.
Proof. unfold size. apply N.neq_0_lt_0. apply N.pow_nonzero. discriminate. Qed.
Lemma size_le : size <= 2147483648.
Proof. unfold size. change 2147483648 with (2 ^ 31). apply N.pow_le_mono_r; [discriminate|exact Hk]. Qed.

Lemma dinv_step : forall s o, cinvr size s -> dinvr size s -> dinvr size (cstep1 size s o).
Proof.
  pose proof size_pos as Hp. pose proof size_le as Hl.
  intros s o C [L S]. pose proof (ci_ord _ _ C) as O.
  destruct o; cbn [cstep1].
  - unfold acquire_producer. destruct (_ <=? _); [constructor; auto|]. destruct (_ =? _); constructor; auto.
  - unfold produce. cbn [fst].
    set (kk := N.min k (p_len s)).
    assert (Hkl : kk <= p_len s) by (unfold kk; lia). rewrite (ci_plen _ _ C) in Hkl.
    replace (p_cp s mod size) with (tw s mod size)
      by (rewrite (ci_pcp _ _ C); unfold size; symmetry; apply mod_mod_divides; lia).
    destruct (write_slots_spec size (N.to_nat kk) (tw s) (slots s) Hp L ltac:(lia)) as (L' & A & B).
    constructor; cbn [slots tr tw]; auto.
    intros i Hlo Hhi. destruct (N.lt_ge_cases i (tw s)).
    + rewrite B; auto. intros j Hj1 Hj2 E. symmetry in E. apply mod_inj_window in E; lia.
    + apply A; lia.
  - unfold acquire_consumer. destruct (_ <=? _); [constructor; auto|]. destruct (_ =? _); constructor; auto.
  - unfold consume. cbn [fst]. constructor; cbn [slots tr tw]; auto. intros i Hlo Hhi. apply S; lia.
Qed.

Theorem cursor_data : forall ops, dinvr size (fold_left (cstep1 size) ops (cinit size)).
Proof.
  pose proof size_pos as Hp. pose proof size_le as Hl.
  intros ops.
  assert (G : cinvr size (cinit size) /\ dinvr size (cinit size)).
  { split; [apply cinvr_init; unfold two32; lia|]. constructor; cbn; [apply repeat_length|intros; lia]. }
  revert G. generalize (cinit size). induction ops as [|o r IH]; intros s [C D]; cbn [fold_left]; auto.
  apply IH. split; [|apply dinv_step; auto].
  destruct o; cbn [cstep1];
    [apply inv_acquire_producer|apply inv_produce|apply inv_acquire_consumer|apply inv_consume]; auto.
Qed.

(* what a consume operation returns, after any history: the next sequence numbers, in order *)
Theorem cursor_fifo : forall ops k,
  let s := fold_left (cstep1 size) ops (cinit size) in
  snd (consume size k s) = cseq (tr s + 1) (N.to_nat (N.min k (c_len s))).
Proof.
  pose proof size_pos as Hp. pose proof size_le as Hl.
  intros ops k s. pose proof (cursor_invariant size Hp Hl ops) as C. pose proof (cursor_data ops) as D.
  fold s in C, D. unfold consume. cbn [snd].
  replace (c_cc s mod size) with (tr s mod size)
    by (rewrite (ci_ccc _ _ C); unfold size; symmetry; apply mod_mod_divides; lia).
  apply read_slots_spec; auto. intros i Hlo Hhi. apply (di_slots _ _ D); auto.
  pose proof (ci_ord _ _ C). rewrite (ci_clen _ _ C) in Hhi. lia.
Qed.

(* state-level form of cursor_fifo *)
Lemma consume_vals : forall s k, cinvr size s -> dinvr size s ->
  snd (consume size k s) = cseq (tr s + 1) (N.to_nat (N.min k (c_len s))).
Proof.
  pose proof size_pos as Hp.
  intros s k C D. unfold consume. cbn [snd].
  replace (c_cc s mod size) with (tr s mod size)
    by (rewrite (ci_ccc _ _ C); unfold size; symmetry; apply mod_mod_divides; lia).
  apply read_slots_spec; auto. intros i Hlo Hhi. apply (di_slots _ _ D); auto.
  pose proof (ci_ord _ _ C). rewrite (ci_clen _ _ C) in Hhi. lia.
Qed.

Lemma consecutive_cseq : forall k from, consecutive (Nz from) (map Nz (cseq from k)) = true.
Proof.
  induction k as [|k IH]; intros from; cbn [cseq map consecutive]; auto.
  rewrite Z.eqb_refl. cbn [andb]. replace (Nz from + 1)%Z with (Nz (from + 1)) by (unfold Nz; lia). apply IH.
Qed.
Lemma cseq_length : forall k from, length (cseq from k) = k.
Proof. induction k; intros; cbn; auto. Qed.

Lemma firstn_map_app {A B} (g : A -> B) : forall (l : list A) (r : list B), firstn (length l) (map g l ++ r) = map g l.
Proof. induction l; intros; cbn; auto. f_equal. auto. Qed.
Lemma skipn_map_app {A B} (g : A -> B) : forall (l : list A) (r : list B), skipn (length l) (map g l ++ r) = r.
Proof. induction l; intros; cbn; auto. Qed.

Ltac consume_case size f r arg s C D IH O :=
  destruct (consume size arg s) as [s' vs] eqn:E;
  assert (C' : cinvr size s') by (replace s' with (fst (consume size arg s)) by (rewrite E; auto); apply inv_consume; auto; try apply size_pos; try apply size_le);
  assert (D' : dinvr size s') by (replace s' with (cstep1 size s (CCons arg)) by (unfold cstep1; rewrite E; reflexivity); apply dinv_step; auto);
  assert (V : vs = cseq (tr s + 1) (N.to_nat (N.min arg (c_len s)))) by (replace vs with (snd (consume size arg s)) by (rewrite E; auto); apply consume_vals; auto);
  assert (T : tw s' = tw s /\ tr s' = tr s + N.min arg (c_len s)) by (revert E; unfold consume; intros X; inversion X; auto);
  destruct T as [T1 T2]; pose proof (ci_clen _ _ C) as CL;
  destruct (IH (tl r) s' C' D') as [J|J]; [|right; destruct r; cbn in *; lia];
  left; cbn [cjudge];
  assert (Lv : length vs = N.to_nat (N.min arg (c_len s))) by (rewrite V; apply cseq_length);
  replace (Z.of_nat (length vs) <? 0)%Z with false by (symmetry; apply Z.ltb_ge; lia);
  replace (Nz (tr s) + Z.of_nat (length vs))%Z with (Nz (tr s')) by (unfold Nz; lia);
  rewrite Nat2Z.id;
  replace (length (map Nz vs ++ crun f size (tl r) s') <? length vs)%nat with false
    by (symmetry; apply Nat.ltb_ge; rewrite app_length, map_length; lia);
  rewrite firstn_map_app, skipn_map_app;
  rewrite V at 1; replace (Nz (tr s) + 1)%Z with (Nz (tr s + 1)) by (unfold Nz; lia);
  rewrite consecutive_cseq; cbn [andb];
  rewrite T1 in J; rewrite J;
  replace (Nz (tr s') <=? Nz (tw s))%Z with true; auto;
  symmetry; apply Z.leb_le; unfold Nz; lia.

(* the executable judgement accepts every run of the model (every operation sequence, sizes 2^k2) *)
Lemma judge_crun : forall fuel ops s, cinvr size s -> dinvr size s ->
  cjudge fuel (Nz size) ops (Nz (tw s)) (Nz (tr s)) (crun fuel size ops s) = true \/ (fuel <= length ops)%nat.
Proof.
  pose proof size_pos as Hp. pose proof size_le as Hl.
  induction fuel as [|f IH]; intros ops s C D; [right; lia|].
  destruct ops as [|op r]; [left; reflexivity|].
  cbn [crun cjudge].
  set (arg := N.min (zN (hd 0%Z r)) 100000).
  assert (Hlen : (S f <= length (op :: r))%nat -> (f <= length (tl r))%nat -> False \/ True) by auto.
  pose proof (ci_ord _ _ C) as O.
  destruct op as [|[[ | | ]|[ | | ]|]|]; cbn [crun].
  - (* acquire_producer *)
    destruct (acquire_producer size arg s) as [s' n] eqn:E.
    assert (C' : cinvr size s') by (replace s' with (fst (acquire_producer size arg s)) by (rewrite E; auto); apply inv_acquire_producer; auto).
    assert (D' : dinvr size s') by (replace s' with (cstep1 size s (CAcqP arg)) by (unfold cstep1; rewrite E; reflexivity); apply dinv_step; auto).
    assert (Hn : n = p_len s').
    { revert E. unfold acquire_producer. destruct (_ <=? _); [intros X; inversion X; auto|]. destruct (_ =? _); intros X; inversion X; auto. }
    assert (T : tw s' = tw s /\ tr s' = tr s).
    { revert E. unfold acquire_producer. destruct (_ <=? _); [intros X; inversion X; auto|]. destruct (_ =? _); intros X; inversion X; auto. }
    destruct T as [T1 T2]. pose proof (ci_plen _ _ C') as PL. pose proof (ci_ord _ _ C') as O'.
    destruct (IH (tl r) s' C' D') as [J|J]; [|right; destruct r; cbn in *; lia].
    left. rewrite T1, T2 in J. rewrite J. unfold Nz in *.
    replace (0 <=? Z.of_N n)%Z with true by (symmetry; apply Z.leb_le; lia).
    replace (Z.of_N n <=? Z.of_N size - (Z.of_N (tw s) - Z.of_N (tr s)))%Z with true; auto.
    symmetry. apply Z.leb_le. lia.
  - consume_case size f r arg s C D IH O.
  - consume_case size f r arg s C D IH O.
  - consume_case size f r arg s C D IH O.
  - consume_case size f r arg s C D IH O.
  - consume_case size f r arg s C D IH O.
  - (* acquire_consumer *)
    destruct (acquire_consumer size arg s) as [s' n] eqn:E.
    assert (C' : cinvr size s') by (replace s' with (fst (acquire_consumer size arg s)) by (rewrite E; auto); apply inv_acquire_consumer; auto).
    assert (D' : dinvr size s') by (replace s' with (cstep1 size s (CAcqC arg)) by (unfold cstep1; rewrite E; reflexivity); apply dinv_step; auto).
    assert (Hn : n = c_len s').
    { revert E. unfold acquire_consumer. destruct (_ <=? _); [intros X; inversion X; auto|]. destruct (_ =? _); intros X; inversion X; auto. }
    assert (T : tw s' = tw s /\ tr s' = tr s).
    { revert E. unfold acquire_consumer. destruct (_ <=? _); [intros X; inversion X; auto|]. destruct (_ =? _); intros X; inversion X; auto. }
    destruct T as [T1 T2]. pose proof (ci_clen _ _ C') as CL. pose proof (ci_ord _ _ C') as O'.
    destruct (IH (tl r) s' C' D') as [J|J]; [|right; destruct r; cbn in *; lia].
    left. rewrite T1, T2 in J. rewrite J. unfold Nz in *.
    replace (0 <=? Z.of_N n)%Z with true by (symmetry; apply Z.leb_le; lia).
    replace (Z.of_N n <=? Z.of_N (tw s) - Z.of_N (tr s))%Z with true; auto.
    symmetry. apply Z.leb_le. lia.
  - (* produce *)
    destruct (produce size arg s) as [s' n] eqn:E.
    assert (C' : cinvr size s') by (replace s' with (fst (produce size arg s)) by (rewrite E; auto); apply inv_produce; auto).
    assert (D' : dinvr size s') by (replace s' with (cstep1 size s (CProd arg)) by (unfold cstep1; rewrite E; reflexivity); apply dinv_step; auto).
    assert (T : tw s' = tw s + n /\ tr s' = tr s) by (revert E; unfold produce; intros X; inversion X; auto).
    destruct T as [T1 T2]. pose proof (ci_ord _ _ C') as O'.
    destruct (IH (tl r) s' C' D') as [J|J]; [|right; destruct r; cbn in *; lia].
    left. rewrite T1, T2 in J. unfold Nz in *. replace (Z.of_N (tw s) + Z.of_N n)%Z with (Z.of_N (tw s + n)) by lia.
    rewrite J.
    replace (0 <=? Z.of_N n)%Z with true by (symmetry; apply Z.leb_le; lia).
    replace (Z.of_N (tw s + n) - Z.of_N (tr s) <=? Z.of_N size)%Z with true; auto.
    symmetry. apply Z.leb_le. lia.
  - consume_case size f r arg s C D IH O.
Qed.
End Data.

Theorem cursor_judge_run : forall case, CursorRing.judge case (CursorRing.run case) = true.
Proof.
  intros case. unfold judge, run, csize.
  set (k2 := N.min (zN (hd 0%Z case)) 10).
  assert (Hk : k2 <= 31) by (unfold k2; lia).
  assert (C : cinvr (2 ^ k2) (cinit (2 ^ k2))).
  { apply cinvr_init; [apply size_pos|]. pose proof (size_le k2 Hk). unfold two32. lia. }
  assert (D : dinvr (2 ^ k2) (cinit (2 ^ k2))).
  { constructor; cbn; [apply repeat_length|intros; lia]. }
  destruct (judge_crun k2 Hk (S (length case)) (tl case) (cinit (2 ^ k2)) C D) as [J|J].
  - exact J.
  - exfalso. destruct case; cbn in J; lia.
Qed.
