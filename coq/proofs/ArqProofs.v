(* Proofs for the C01 composition model. *)
From Coq Require Import List Arith Lia Bool.
Import ListNotations.
From SQ Require Import model.Arq.

Section ArqProofs.
  Variable byte : Type.
  Notation frame := (frame byte).
  Notation rstate := (rstate byte).

  (* every stored byte is the written byte at that offset *)
  Definition Agree (w : list byte) (buf : list (option byte)) : Prop :=
    forall i b, nth_error buf i = Some (Some b) -> nth_error w i = Some b.

  Lemma agree_nil : forall w, Agree w [].
  Proof. intros w i b H. destruct i; discriminate. Qed.

  Lemma nth_error_put : forall buf i b j x,
    nth_error (put byte buf i b) j = Some (Some x) ->
    nth_error buf j = Some (Some x) \/ (j = i /\ x = b).
  Proof.
    induction buf as [|h t IH]; intros i b j x H.
    - revert j H. induction i as [|i IHi]; intros j H; cbn [put] in H.
      + destruct j as [|j]; cbn in H; [injection H as ->; right; auto|destruct j; discriminate].
      + destruct j as [|j]; cbn in H; [discriminate|].
        destruct (IHi j H) as [Hl|[-> ->]]; [destruct j; discriminate|right; auto].
    - destruct i as [|i]; cbn [put] in H.
      + destruct h as [y|].
        * left; exact H.
        * destruct j as [|j]; cbn in H |- *; [injection H as ->; right; auto|left; exact H].
      + destruct j as [|j]; cbn in H |- *; [left; exact H|].
        destruct (IH i b j x H) as [Hl|[-> ->]]; [left; exact Hl|right; auto].
  Qed.

  Lemma agree_put : forall w buf i b, Agree w buf -> nth_error w i = Some b -> Agree w (put byte buf i b).
  Proof.
    intros w buf i b Ha Hw j x H.
    destruct (nth_error_put _ _ _ _ _ H) as [Hl|[-> ->]]; [apply Ha; exact Hl|exact Hw].
  Qed.

  Lemma nth_error_firstn_some : forall (l : list byte) len k b,
    nth_error (firstn len l) k = Some b -> nth_error l k = Some b.
  Proof.
    induction l as [|x l IH]; intros len k b H.
    - destruct len; destruct k; discriminate.
    - destruct len as [|len]; [destruct k; discriminate|].
      destruct k as [|k]; cbn in H |- *; [exact H|]. eapply IH; exact H.
  Qed.

  Lemma nth_error_skipn_add : forall (l : list byte) off k, nth_error (skipn off l) k = nth_error l (off + k).
  Proof.
    induction l as [|x l IH]; intros off k.
    - destruct off; destruct k; reflexivity.
    - destruct off as [|off]; [reflexivity|]. cbn [skipn]. rewrite IH. reflexivity.
  Qed.

  Lemma nth_error_slice : forall (w : list byte) off len k b,
    nth_error (slice byte w off len) k = Some b -> nth_error w (off + k) = Some b.
  Proof.
    intros w off len k b H. unfold slice in H.
    apply nth_error_firstn_some in H. rewrite nth_error_skipn_add in H. exact H.
  Qed.

  Lemma agree_put_all : forall data w buf off,
    Agree w buf -> (forall k b, nth_error data k = Some b -> nth_error w (off + k) = Some b) ->
    Agree w (put_all byte buf off data).
  Proof.
    induction data as [|d t IH]; intros w buf off Ha Hd; cbn [put_all]; [assumption|].
    apply IH.
    - apply agree_put; [assumption|]. specialize (Hd 0 d eq_refl). rewrite Nat.add_0_r in Hd. exact Hd.
    - intros k b Hk. specialize (Hd (S k) b Hk). rewrite Nat.add_succ_r in Hd. exact Hd.
  Qed.

  Lemma agree_on_frame : forall w fin s f,
    Agree w (r_buf byte s) -> consistent byte w fin f -> Agree w (r_buf byte (on_frame byte s f)).
  Proof.
    intros w fin s f Ha (Hlen & Hdata & _). unfold on_frame. cbn [r_buf].
    apply agree_put_all; [assumption|].
    intros k b Hk. rewrite Hdata in Hk. eapply nth_error_slice; eassumption.
  Qed.

  Lemma agree_deliver_from : forall w fin fs s,
    Agree w (r_buf byte s) -> Forall (consistent byte w fin) fs ->
    Agree w (r_buf byte (fold_left (on_frame byte) fs s)).
  Proof.
    intros w fin fs. induction fs as [|f t IH]; intros s Ha Hf; cbn [fold_left]; [assumption|].
    inversion Hf as [|? ? Hc Ht]; subst. apply IH; [eapply agree_on_frame; eassumption|assumption].
  Qed.

  (* the readable prefix is a prefix of what was written *)
  Lemma prefix_is_prefix : forall w buf, Agree w buf -> prefix byte buf = firstn (length (prefix byte buf)) w.
  Proof.
    intros w buf. revert w. induction buf as [|h t IH]; intros w Ha; [reflexivity|].
    destruct h as [b|]; cbn [prefix]; [|reflexivity].
    pose proof (Ha 0 b eq_refl) as H0. destruct w as [|x w]; [discriminate|].
    cbn in H0. injection H0 as ->. cbn [length firstn]. f_equal.
    apply IH. intros i y Hi. exact (Ha (S i) y Hi).
  Qed.

  (* the final size the receiver learns is the length of the written stream *)
  Lemma final_is_length : forall w fin fs s,
    (forall z, r_final byte s = Some z -> z = length w) ->
    Forall (consistent byte w fin) fs ->
    forall z, r_final byte (fold_left (on_frame byte) fs s) = Some z -> z = length w.
  Proof.
    intros w fin fs. induction fs as [|f t IH]; intros s Hs Hf z Hz; cbn [fold_left] in Hz; [auto|].
    inversion Hf as [|? ? Hc Ht]; subst. eapply IH; [|eassumption|exact Hz].
    intros z' Hz'. unfold on_frame in Hz'. cbn [r_final] in Hz'.
    destruct (r_final byte s) as [z0|] eqn:E.
    - injection Hz' as <-. apply Hs. reflexivity.
    - destruct Hc as (_ & _ & Hfin). destruct (f_fin byte f) eqn:Ef; [|discriminate].
      injection Hz' as <-. destruct (Hfin eq_refl) as [_ He]. exact He.
  Qed.

  (* C01, composed: whatever list of sender frames the network hands to the receiver (any drops,
     duplicates, reorderings), what the application reads is a prefix of what was written, and
     at a clean end of stream it is exactly what was written *)
  Theorem stream_exact_delivery : forall w fin fs n,
    Forall (consistent byte w fin) fs ->
    let s := deliver byte fs in
    bytes_read byte s n = firstn (min n (length (prefix byte (r_buf byte s)))) w
    /\ (clean_fin byte s n -> bytes_read byte s n = w).
  Proof.
    intros w fin fs n Hf s.
    assert (Ha : Agree w (r_buf byte s)).
    { unfold s, deliver. eapply agree_deliver_from; [apply agree_nil|eassumption]. }
    pose proof (prefix_is_prefix w _ Ha) as Hp.
    assert (H1 : bytes_read byte s n = firstn (min n (length (prefix byte (r_buf byte s)))) w).
    { unfold bytes_read. rewrite Hp at 1. rewrite firstn_firstn. reflexivity. }
    split; [exact H1|].
    intros (z & Hz & -> & Hle).
    assert (Hzl : z = length w).
    { unfold s, deliver in Hz. eapply final_is_length; [|eassumption|exact Hz]. intros z' H'. discriminate. }
    rewrite H1, Hzl. rewrite Nat.min_l by lia. apply firstn_all.
  Qed.

  (* idempotence: a duplicate of a frame already delivered changes nothing *)
  Lemma put_idem : forall buf i b, put byte (put byte buf i b) i b = put byte buf i b.
  Proof.
    induction buf as [|h t IH]; intros i b.
    - induction i as [|i IHi]; cbn [put]; [reflexivity|]. f_equal. exact IHi.
    - destruct i as [|i]; cbn [put]; [destruct h; reflexivity|]. f_equal. apply IH.
  Qed.
End ArqProofs.
