(* Refinement of the specification by the slot model: observables, judge completeness, and the
   step-by-step simulation.  The write path enters through [WriteOK], proved in ReassemblerWrite.v. *)
From SQ Require Import lib.Base gen.Gen_C01 model.Reassembler proofs.ReassemblerProofs proofs.ReassemblerSlots
  proofs.ReassemblerBlocks proofs.ReassemblerInv.
Local Open Scope N_scope.

(* ---- maximality of [reach] and completeness of [cks_range]: counting the write boundaries above p ---- *)
Fixpoint cnt (segs : list seg) (p : N) : nat :=
  match segs with
  | [] => 0
  | g :: t => Nat.add (Nat.add (if p <? g_off g then 1%nat else 0%nat) (if p <? g_end g then 1%nat else 0%nat)) (cnt t p)
  end.

Lemma cnt_mono : forall segs p q, p <= q -> (cnt segs q <= cnt segs p)%nat.
Proof.
  induction segs as [|g t IH]; intros p q H; cbn [cnt]; [lia|]. specialize (IH p q H).
  destruct (N.ltb_spec q (g_off g)); destruct (N.ltb_spec p (g_off g));
  destruct (N.ltb_spec q (g_end g)); destruct (N.ltb_spec p (g_end g)); lia.
Qed.
Lemma cnt_le : forall segs p, (cnt segs p <= 2 * length segs)%nat.
Proof.
  induction segs as [|g t IH]; intros p; cbn [cnt length]; [lia|]. specialize (IH p).
  destruct (p <? g_off g); destruct (p <? g_end g); lia.
Qed.
Lemma cnt_pos : forall segs g p, In g segs -> p < g_end g -> (0 < cnt segs p)%nat.
Proof.
  induction segs as [|g0 t IH]; intros g p Hin Hp; [destruct Hin|]. cbn [cnt].
  destruct Hin as [->|Hin].
  - destruct (N.ltb_spec p (g_end g)); lia.
  - specialize (IH g p Hin Hp). lia.
Qed.

Lemma win_in : forall segs p lim g e, win segs p lim = Some (g, e) -> In g segs.
Proof.
  induction segs as [|g0 t IH]; intros p lim g e H; cbn [win] in H; [discriminate|].
  destruct ((g_off g0 <=? p) && (p <? g_end g0)).
  - injection H as <- <-. left; reflexivity.
  - right. eapply IH; eauto.
Qed.

Lemma win_endpoint : forall segs p lim g e, win segs p lim = Some (g, e) -> p < e ->
  e = lim \/ (cnt segs e < cnt segs p)%nat.
Proof.
  induction segs as [|g0 t IH]; intros p lim g e H Hpe; cbn [win] in H; [discriminate|].
  pose proof (cnt_mono t p e ltac:(lia)) as Hm. cbn [cnt].
  destruct (N.leb_spec (g_off g0) p) as [Ha|Ha]; cbn [andb] in H.
  - destruct (N.ltb_spec p (g_end g0)) as [Hb|Hb].
    + injection H as <- <-. destruct (N.min_spec lim (g_end g0)) as [[_ E]|[_ E]]; [left; exact E|].
      right. rewrite E in *.
      destruct (N.ltb_spec (g_end g0) (g_off g0)); destruct (N.ltb_spec p (g_off g0));
      destruct (N.ltb_spec (g_end g0) (g_end g0)); destruct (N.ltb_spec p (g_end g0)); lia.
    + destruct (N.ltb_spec p (g_off g0)); [lia|].
      destruct (IH _ _ _ _ H Hpe) as [E|E]; [left; exact E|right].
      destruct (N.ltb_spec e (g_off g0)); destruct (N.ltb_spec e (g_end g0));
      destruct (N.ltb_spec p (g_end g0)); lia.
  - destruct (N.ltb_spec p (g_off g0)); [|lia].
    destruct (IH _ _ _ _ H Hpe) as [E|E].
    + destruct (N.min_spec lim (g_off g0)) as [[_ E']|[_ E']]; [left; lia|]. right.
      rewrite E' in E. subst e.
      destruct (N.ltb_spec (g_off g0) (g_off g0)); destruct (N.ltb_spec (g_off g0) (g_end g0));
      destruct (N.ltb_spec p (g_end g0)); lia.
    + right. destruct (N.ltb_spec e (g_off g0)); destruct (N.ltb_spec e (g_end g0));
      destruct (N.ltb_spec p (g_end g0)); lia.
Qed.

Definition segs_ok (segs : list seg) : Prop :=
  Forall seg_wf segs /\ Forall (fun g => g_end g <= varint_max) segs.

Lemma u64_gt_varint : varint_max < u64_max.
Proof. reflexivity. Qed.

(* [reach] stops only at a position nobody has written *)
Lemma reach_max : forall fuel segs p, segs_ok segs -> p <= varint_max -> (cnt segs p < fuel)%nat ->
  sget segs (reach fuel segs p) = None.
Proof.
  induction fuel as [|k IH]; intros segs p [Hw Hv] Hp Hc; [lia|]. cbn [reach].
  destruct (win segs p u64_max) as [[g e]|] eqn:Ewin.
  - destruct (win_sound _ _ _ _ _ Hw Ewin) as (K0 & K1 & K2 & K3 & K4 & K5).
    pose proof u64_gt_varint.
    destruct (N.ltb_spec p e) as [Hpe|Hpe]; [|specialize (K2 ltac:(lia)); lia].
    pose proof (win_in _ _ _ _ _ Ewin) as Hin. pose proof (proj1 (Forall_forall _ _) Hv g Hin) as Hvg. cbn in Hvg.
    destruct (win_endpoint _ _ _ _ _ Ewin Hpe) as [E|E]; [lia|].
    apply IH; [split; auto| lia | lia].
  - eapply win_none; eauto.
Qed.

Lemma all_some_get : forall n segs p, all_some (sp_bytes segs p n) ->
  forall q, p <= q -> q < p + N.of_nat n -> sget segs q <> None.
Proof.
  induction n as [|n IH]; intros segs p H q H1 H2; [lia|]. cbn [sp_bytes] in H.
  inversion H as [|? ? Hx Ht]; subst. destruct (N.eq_dec q p) as [->|Hne]; [exact Hx|].
  apply (IH segs (p + 1) Ht); lia.
Qed.

Lemma cks_range_done : forall k segs e h, cks_range k segs e e h = Some h.
Proof. intros [|k] segs e h; cbn [cks_range]; rewrite N.leb_refl; reflexivity. Qed.

(* [cks_range] succeeds on every received stretch *)
Lemma cks_range_complete : forall fuel segs p e h, Forall seg_wf segs ->
  (forall q, p <= q -> q < e -> sget segs q <> None) -> (cnt segs p <= fuel)%nat ->
  exists h', cks_range fuel segs p e h = Some h'.
Proof.
  induction fuel as [|k IH]; intros segs p e h Hw Hcov Hc.
  - cbn [cks_range]. destruct (N.leb_spec e p) as [Hep|Hep]; [eauto|]. exfalso.
    specialize (Hcov p ltac:(lia) Hep).
    destruct (win segs p e) as [[g e']|] eqn:Ewin; [|apply Hcov; eapply win_none; eauto].
    destruct (win_sound _ _ _ _ _ Hw Ewin) as (K0 & K1 & K2 & K3 & K4 & K5). specialize (K2 Hep).
    pose proof (cnt_pos segs g p (win_in _ _ _ _ _ Ewin) ltac:(lia)). lia.
  - cbn [cks_range]. destruct (N.leb_spec e p) as [Hep|Hep]; [eauto|].
    pose proof (Hcov p ltac:(lia) Hep) as Hp.
    destruct (win segs p e) as [[g e']|] eqn:Ewin; [|exfalso; apply Hp; eapply win_none; eauto].
    destruct (win_sound _ _ _ _ _ Hw Ewin) as (K0 & K1 & K2 & K3 & K4 & K5). specialize (K2 Hep).
    destruct (N.ltb_spec p e'); [|lia].
    destruct (win_endpoint _ _ _ _ _ Ewin K2) as [E|E].
    + subst e'. rewrite cks_range_done. eauto.
    + apply IH; auto; [intros q Hq1 Hq2; apply Hcov; lia|lia].
Qed.

(* ---- the counters of the slot model ---- *)
Lemma walk_spec : forall sl prev bytes chunks, slots_ok prev sl ->
  let '(tot, b, c) := walk sl prev bytes chunks in
  prev <= tot /\ b = bytes + (tot - prev)
  /\ (forall q, prev <= q -> q < tot -> slots_get sl q <> None) /\ slots_get sl tot = None
  /\ (tot =? prev) = match sl with [] => true | s :: _ => negb (s_is_occupied s prev) end.
Proof.
  induction sl as [|s t IH]; intros prev bytes chunks Hok; cbn [walk].
  { rewrite N.eqb_refl. repeat split; auto; try lia; try (intros; lia). }
  cbn [slots_ok] in Hok. destruct Hok as (H1 & H2 & H3 & H4 & H5). unfold s_end in *.
  assert (Hbelow : forall q, q < s_endalloc s -> slots_get t q = None) by (intros; eapply slots_get_below; eauto).
  unfold s_is_occupied. destruct (N.eqb_spec (s_len s) 0) as [Hz|Hz]; cbn [negb andb].
  { rewrite N.eqb_refl. repeat split; auto; try lia; try (intros; lia).
    cbn [slots_get]; unfold s_end. destruct (N.leb_spec (s_start s) prev);
      destruct (N.ltb_spec prev (s_start s + s_len s)); cbn [andb]; try lia; apply Hbelow; lia. }
  destruct (N.eqb_spec (s_start s) prev) as [Hs|Hs].
  2:{ rewrite N.eqb_refl. repeat split; auto; try lia; try (intros; lia).
      cbn [slots_get]. destruct (N.leb_spec (s_start s) prev); [lia|]. cbn [andb]. apply Hbelow. lia. }
  specialize (IH (s_start s + s_len s) (bytes + s_len s) (chunks + 1)
                 (slots_ok_weaken _ _ _ H4 H5)).
  unfold s_end. destruct (walk t (s_start s + s_len s) (bytes + s_len s) (chunks + 1)) as [[tot b] c].
  destruct IH as (K1 & K2 & K3 & K4 & K5). subst prev.
  split; [lia|]. split; [lia|]. split; [|split].
  - intros q Hq1 Hq2. cbn [slots_get]; unfold s_end.
    destruct (N.leb_spec (s_start s) q); [|lia]. destruct (N.ltb_spec q (s_start s + s_len s)); cbn [andb].
    + apply nth_error_Some. rewrite nlen_length in H3. lia.
    + apply K3; lia.
  - cbn [slots_get]; unfold s_end. destruct (N.ltb_spec tot (s_start s + s_len s)); [lia|].
    rewrite andb_false_r. exact K4.
  - destruct (N.eqb_spec tot (s_start s)); [lia|reflexivity].
Qed.

(* the abstraction relation *)
Definition Abs (st : rstate) (s : spec) : Prop :=
  Inv st /\ CR st s /\ segs_ok (sp_segs s)
  /\ (forall p, start_off st <= p -> slots_get (slots st) p = sget (sp_segs s) p).

Lemma Abs_init : Abs rinit spec_init.
Proof.
  split; [apply Inv_init|]. split; [apply CR_init|]. split; [split; constructor|]. intros p _. reflexivity.
Qed.

Lemma Abs_total : forall st s, Abs st s ->
  fst (fst (walk (slots st) (start_off st) 0 0)) = sp_total s.
Proof.
  intros st s (Hinv & Hcr & [Hw Hv] & Hget). pose proof (Inv_RInv _ Hinv) as (Hok & _).
  destruct Hinv as (_ & I2 & I3 & I4 & _). destruct Hcr as (C1 & _).
  pose proof (walk_spec (slots st) (start_off st) 0 0 Hok) as Hwalk.
  destruct (walk (slots st) (start_off st) 0 0) as [[tot b] c]. cbn [fst].
  destruct Hwalk as (K1 & K2 & K3 & K4 & K5).
  unfold sp_total. rewrite <- C1. set (fuel := (2 * length (sp_segs s) + 1)%nat).
  destruct (reach_sound fuel (sp_segs s) (start_off st) Hw) as [R1 R2].
  assert (R3 : sget (sp_segs s) (reach fuel (sp_segs s) (start_off st)) = None).
  { apply reach_max; [split; auto|lia|]. pose proof (cnt_le (sp_segs s) (start_off st)). unfold fuel. lia. }
  set (r := reach fuel (sp_segs s) (start_off st)) in *.
  destruct (N.lt_trichotomy tot r) as [Hlt|[Heq|Hgt]]; [|exact Heq|].
  - exfalso. apply (all_some_get _ _ _ R2 tot); [lia|lia|]. rewrite <- Hget by lia. exact K4.
  - exfalso. apply (K3 r); [lia|lia|]. rewrite Hget by lia. exact R3.
Qed.

Lemma Abs_obs : forall st s, Abs st s -> exists c, r_obs st = sp_obs s ++ [c].
Proof.
  intros st s Ha. pose proof (Abs_total _ _ Ha) as Ht.
  destruct Ha as (Hinv & Hcr & _ & _). pose proof (Inv_RInv _ Hinv) as (Hok & _).
  destruct Hcr as (C1 & C2 & C3 & C4).
  pose proof (walk_spec (slots st) (start_off st) 0 0 Hok) as Hwalk.
  unfold r_obs, sp_obs. destruct (walk (slots st) (start_off st) 0 0) as [[tot b] c]. cbn [fst] in Ht.
  destruct Hwalk as (K1 & K2 & K3 & K4 & K5). rewrite <- Ht, <- C1, <- C3.
  exists (Nz c). cbn [app]. f_equal; [f_equal; lia|]. do 3 f_equal.
  assert (E1 : r_is_empty st = (tot =? start_off st)). { rewrite K5. unfold r_is_empty. reflexivity. }
  rewrite E1. destruct (final_size st) as [f|]; [|reflexivity]. rewrite (N.eqb_sym tot f). reflexivity.
Qed.

(* ---- the write path enters as one statement, proved in ReassemblerWrite.v ---- *)
Definition wspec (sl : list slot) (r : reader) (p : N) : option N :=
  match slots_get sl p with Some b => Some b | None => rd_get r p end.

Definition WriteOK : Prop := forall st r sl' o, Inv st -> reader_ok r ->
  (r_len r = 0 \/ start_off st <= r_off r) ->
  r_off r + r_len r <= max_recv st -> r_off r + r_len r <= final_off st ->
  write_reader_impl st r = (sl', o) ->
  o = false /\ chain (final_off st) (max_recv st) (start_off st) True (start_off st) sl'
  /\ (forall p, slots_get sl' p = wspec (slots st) r p).

(* the shape of an accepted write *)
Lemma rwrite_ok_form : forall st w st', Inv st -> wf_wr w -> rwrite st w = (st', 0%Z) ->
  exists fo',
    let r := rd_skip_until {| r_off := w_off w; r_len := nlen (w_data w); r_data := w_data w |} (start_off st) in
    let st1 := {| slots := slots st; start_off := start_off st; max_recv := N.max (max_recv st) (w_end w);
                  final_off := fo'; oof := oof st |} in
    st' = {| slots := fst (write_reader_impl st1 r); start_off := start_off st;
             max_recv := N.max (max_recv st) (w_end w); final_off := fo';
             oof := oof st || snd (write_reader_impl st1 r) |}
    /\ fo' <= final_off st /\ N.max (max_recv st) (w_end w) <= fo' /\ w_end w <= varint_max.
Proof.
  intros st w st' (Hc & I2 & I3 & I4 & I5) Hwf H. unfold rwrite in H. fold (w_end w) in H.
  destruct (N.ltb_spec varint_max (w_end w)) as [Hx|Hx]; [discriminate|].
  set (r := rd_skip_until _ _) in *.
  assert (Hend : r_off r + r_len r = w_end w).
  { unfold r. rewrite rd_skip_until_end. cbn [r_off r_len]. reflexivity. }
  rewrite Hend in H. destruct (N.ltb_spec varint_max (w_end w)); [lia|].
  pose proof unknown_gt_varint as Hu.
  unfold wf_wr in Hwf. unfold final_size in H.
  destruct (w_fin w) as [f|]; destruct (N.eqb_spec (final_off st) unknown_final_size) as [Ef|Ef].
  - destruct (N.leb_spec (max_recv st) f); [|discriminate].
    destruct (write_reader_impl _ r) as [sl o] eqn:Ew. injection H as <-. exists f. cbn zeta. rewrite Ew.
    cbn [fst snd]. repeat split; auto; lia.
  - destruct (N.eqb_spec f (final_off st)); [|discriminate].
    destruct (write_reader_impl _ r) as [sl o] eqn:Ew. injection H as <-. exists (final_off st). cbn zeta. rewrite Ew.
    cbn [fst snd]. repeat split; auto; lia.
  - destruct (write_reader_impl _ r) as [sl o] eqn:Ew. injection H as <-. exists (final_off st). cbn zeta. rewrite Ew.
    cbn [fst snd]. repeat split; auto; lia.
  - destruct (N.leb_spec (w_end w) (final_off st)); [|discriminate].
    destruct (write_reader_impl _ r) as [sl o] eqn:Ew. injection H as <-. exists (final_off st). cbn zeta. rewrite Ew.
    cbn [fst snd]. repeat split; auto; lia.
Qed.

Lemma sget_app_one : forall segs g p,
  sget (segs ++ [g]) p = match sget segs p with Some b => Some b | None => seg_get g p end.
Proof.
  intros segs g p. destruct (sget segs p) as [b|] eqn:E.
  - apply sget_app_stable. exact E.
  - apply sget_app_new. exact E.
Qed.

Section WithWrite.
Hypothesis W : WriteOK.

Lemma write_abs : forall st s w st' c, Abs st s -> wf_wr w -> rwrite st w = (st', c) ->
  Abs st' (fst (spec_write s w)) /\ (c = 0%Z <-> snd (spec_write s w) = true).
Proof.
  intros st s w st' c Ha Hwf H. pose proof Ha as (Hinv & Hcr & [Hsw Hsv] & Hget).
  destruct (write_step _ _ _ _ _ Hcr Hwf H) as (Hcr' & Hacc & Hrej). split; [|exact Hacc].
  destruct (Z.eq_dec c 0) as [->|Hn].
  2:{ rewrite (Hrej Hn).
      assert (E : fst (spec_write s w) = s).
      { destruct (reject_unchanged _ _ _ _ _ Hcr Hwf H) as (_ & _ & E). apply E. exact Hn. }
      rewrite E. exact Ha. }
  destruct (rwrite_ok_form _ _ _ Hinv Hwf H) as (fo' & Hform). cbn zeta in Hform.
  set (r := rd_skip_until {| r_off := w_off w; r_len := nlen (w_data w); r_data := w_data w |} (start_off st)) in *.
  set (st1 := {| slots := slots st; start_off := start_off st; max_recv := N.max (max_recv st) (w_end w);
                 final_off := fo'; oof := oof st |}) in *.
  destruct Hform as (Est & Hfo & Hmr & Hwe).
  pose proof Hinv as (Hc & I2 & I3 & I4 & I5).
  assert (Hinv1 : Inv st1).
  { unfold Inv, st1; cbn [slots start_off max_recv final_off oof].
    split; [eapply chain_mono; [| |exact Hc]; lia|]. repeat split; auto; lia. }
  assert (Hr0 : reader_ok {| r_off := w_off w; r_len := nlen (w_data w); r_data := w_data w |}) by reflexivity.
  destruct (rd_skip_until_ok _ (start_off st) Hr0) as (K1 & K2 & K3 & K4 & K5 & K6). fold r in K1, K2, K3, K4, K5, K6.
  cbn [r_off r_len] in K2, K3, K5, K6.
  destruct (write_reader_impl st1 r) as [sl' o] eqn:Ew. cbn [fst snd] in Est.
  destruct (W st1 r sl' o Hinv1 K1) as (Ho & Hch & Hcont); auto.
  { unfold st1; cbn [max_recv]. unfold w_end. lia. }
  { unfold st1; cbn [final_off]. unfold w_end in Hmr. lia. }
  subst o. rewrite orb_false_r in Est.
  assert (Hacc1 : snd (spec_write s w) = true) by (apply Hacc; reflexivity).
  unfold spec_write in *. destruct (exceeds_max (w_end w) || contradicts s (w_end w) (w_fin w)); [discriminate|].
  cbn [fst snd] in *. subst st'.
  split; [|split; [exact Hcr'|split]].
  - unfold Inv; cbn [slots start_off max_recv final_off oof]. unfold st1 in Hch; cbn in Hch.
    split; [exact Hch|]. repeat split; auto; lia.
  - cbn [sp_segs]. split; apply Forall_app; split; auto; constructor; auto; unfold seg_wf; cbn; reflexivity || lia.
  - intros p Hp. cbn [slots sp_segs start_off] in *. rewrite Hcont. unfold wspec. unfold st1; cbn [slots].
    rewrite sget_app_one, Hget by exact Hp. destruct (sget (sp_segs s) p); [reflexivity|].
    assert (Hrd : rd_get r p = rd_get {| r_off := w_off w; r_len := nlen (w_data w); r_data := w_data w |} p).
    { destruct (N.le_gt_cases (r_off r) p) as [Hle|Hgt]; [apply K6; exact Hle|].
      unfold rd_get; cbn [r_off]. destruct (N.leb_spec (r_off r) p); [lia|].
      destruct (N.leb_spec (w_off w) p); [lia|reflexivity]. }
    rewrite Hrd. reflexivity.
Qed.

End WithWrite.

(* ---- pop and skip ---- *)
Lemma map_some_inj : forall (a b : list N), map Some a = map Some b -> a = b.
Proof.
  induction a as [|x a IH]; intros [|y b] H; cbn [map] in H; try discriminate; [reflexivity|].
  injection H as -> H. f_equal. apply IH. exact H.
Qed.

Lemma pop_abs : forall st s w st' n chunk, Abs st s -> rpop st w = (st', n, chunk) ->
  Abs st' (sp_take s n)
  /\ (n <=? N.min (sp_len s) w) && Bool.eqb (n =? 0) (N.min (sp_len s) w =? 0) = true
  /\ exists h, cks_range (2 * length (sp_segs s) + 1) (sp_segs s) (sp_consumed s) (sp_consumed s + n) (0, 0) = Some h
               /\ h = cks (0, 0) chunk.
Proof.
  intros st s w st' n chunk Ha H. pose proof (Abs_total _ _ Ha) as Htot.
  destruct Ha as (Hinv & Hcr & [Hsw Hsv] & Hget). pose proof (Inv_RInv _ Hinv) as HR.
  destruct (rpop_correct _ _ _ _ _ HR H) as (_ & Hn & Hw & Hso & Hchunk & Hrest & Hzero).
  pose proof Hcr as (C1 & C2 & C3 & C4).
  pose proof Hinv as (_ & I2 & I3 & I4 & _).
  (* coverage of the popped range in the specification *)
  assert (Hcov : forall q, sp_consumed s <= q -> q < sp_consumed s + n -> sget (sp_segs s) q <> None).
  { intros q Hq1 Hq2. rewrite <- C1 in *. rewrite <- Hget by lia.
    destruct (Hchunk (q - start_off st) ltac:(lia)) as [E1 E2].
    replace (start_off st + (q - start_off st)) with q in E1 by lia. rewrite <- E1. exact E2. }
  set (fuel := (2 * length (sp_segs s) + 1)%nat).
  assert (Hreach : sp_consumed s + n <= sp_total s).
  { unfold sp_total. fold fuel.
    destruct (reach_sound fuel (sp_segs s) (sp_consumed s) Hsw) as [R1 R2].
    assert (R3 : sget (sp_segs s) (reach fuel (sp_segs s) (sp_consumed s)) = None).
    { apply reach_max; [split; auto|lia|]. pose proof (cnt_le (sp_segs s) (sp_consumed s)). unfold fuel. lia. }
    destruct (N.le_gt_cases (sp_consumed s + n) (reach fuel (sp_segs s) (sp_consumed s))); [assumption|].
    exfalso. apply (Hcov (reach fuel (sp_segs s) (sp_consumed s))); auto. }
  split; [|split].
  - split; [eapply rpop_inv; eauto|]. split; [eapply pop_step; eauto|]. split; [split; auto|].
    intros p Hp. cbn [sp_take sp_segs]. rewrite Hrest by lia. apply Hget. lia.
  - unfold sp_len. apply andb_true_iff. split; [apply N.leb_le; lia|].
    destruct (N.eqb_spec n 0) as [Hz|Hz]; destruct (N.eqb_spec (N.min (sp_total s - sp_consumed s) w) 0) as [Hm|Hm];
      try reflexivity; exfalso.
    + destruct (Hzero Hz) as [Hw0|Hnone]; [lia|].
      rewrite Hget in Hnone by lia. rewrite C1 in Hnone.
      destruct (reach_sound fuel (sp_segs s) (sp_consumed s) Hsw) as [R1 R2]. fold fuel in Hm. unfold sp_total in Hm. fold fuel in Hm.
      apply (all_some_get _ _ _ R2 (sp_consumed s)); [lia|lia|exact Hnone].
    + lia.
  - destruct (cks_range_complete fuel (sp_segs s) (sp_consumed s) (sp_consumed s + n) (0, 0) Hsw Hcov) as [h Eh].
    { pose proof (cnt_le (sp_segs s) (sp_consumed s)). unfold fuel. lia. }
    exists h. split; [exact Eh|].
    destruct (cks_range_sound _ _ _ _ _ _ Hsw Eh) as (bytes & Eb & Ehh).
    replace (sp_consumed s + n - sp_consumed s) with n in Eb by lia.
    assert (Ec : sp_bytes (sp_segs s) (sp_consumed s) (length chunk) = map Some chunk).
    { apply sp_bytes_nth. intros i Hi. rewrite nlen_length in Hn.
      destruct (Hchunk (N.of_nat i) ltac:(lia)) as [E1 _]. rewrite Nat2N.id in E1. rewrite E1.
      rewrite <- C1. symmetry. apply Hget. lia. }
    assert (El : length chunk = N.to_nat n) by (rewrite nlen_length in Hn; lia).
    rewrite El in Ec. rewrite Ec in Eb. apply map_some_inj in Eb. subst bytes. exact Ehh.
Qed.

Lemma skip_abs : forall st s n st' c, Abs st s -> rskip st n = (st', c) ->
  Abs st' (fst (spec_skip s n)) /\ (c = 0%Z <-> snd (spec_skip s n) = true).
Proof.
  intros st s n st' c (Hinv & Hcr & Hsegs & Hget) H. pose proof (Inv_RInv _ Hinv) as HR.
  destruct (skip_step _ _ _ _ _ Hcr H) as (Hcr' & Hacc & Hrej). split; [|exact Hacc].
  destruct (rskip_correct _ _ _ _ HR H) as (_ & _ & Hrest).
  split; [eapply rskip_inv; eauto|]. split; [exact Hcr'|].
  assert (Esegs : sp_segs (fst (spec_skip s n)) = sp_segs s).
  { unfold spec_skip. destruct (n =? 0); [reflexivity|]. destruct (_ || _); reflexivity. }
  rewrite Esegs. split; [exact Hsegs|]. intros p Hp. rewrite Hrest by exact Hp. apply Hget.
  destruct Hcr as (C1 & _). destruct Hcr' as (C1' & _).
  assert (sp_consumed s <= sp_consumed (fst (spec_skip s n))).
  { unfold spec_skip. destruct (n =? 0); [cbn; lia|]. destruct (_ || _); cbn; lia. }
  lia.
Qed.

(* ---- generated payload has the requested length ---- *)
Lemma blk_bytes_length : forall tt key q i0 cnt, (length tt >= 512)%nat -> (cnt <= 256)%nat ->
  length (blk_bytes tt key q i0 cnt) = cnt.
Proof.
  intros tt key q i0 cnt Ht Hc. unfold blk_bytes. rewrite map_length, firstn_length, skipn_length.
  assert (N.land (N.of_nat i0 + pb_b (blockkey key q)) 255 <= 255).
  { change 255 with (N.ones 8). rewrite N.land_ones. pose proof (N.mod_upper_bound (N.of_nat i0 + pb_b (blockkey key q)) (2 ^ 8)).
    change (2 ^ 8) with 256 in *. change (N.ones 8) with 255. lia. }
  lia.
Qed.
Lemma gen_blocks_length : forall fuel tt key q i0 n, (length tt >= 512)%nat -> (i0 < 256)%nat -> (n <= fuel)%nat ->
  length (gen_blocks fuel tt key q i0 n) = n.
Proof.
  induction fuel as [|k IH]; intros tt key q i0 n Ht Hi Hn.
  - destruct n; [reflexivity|lia].
  - destruct n as [|n]; [reflexivity|]. cbn [gen_blocks].
    rewrite app_length, blk_bytes_length by (auto; lia). rewrite IH by (auto; lia). lia.
Qed.
Lemma table_length : forall salt, length (table salt) = 256%nat.
Proof. intros. unfold table. rewrite map_length, seq_length. reflexivity. Qed.
Lemma gen_bytes_nlen : forall tt key off len, (length tt >= 512)%nat -> nlen (gen_bytes tt key off len) = len.
Proof.
  intros tt key off len Ht. rewrite nlen_length. unfold gen_bytes. rewrite gen_blocks_length; auto; try lia.
  assert (N.land off 255 <= 255).
  { change 255 with (N.ones 8). rewrite N.land_ones. pose proof (N.mod_upper_bound off (2 ^ 8)).
    change (2 ^ 8) with 256 in *. change (N.ones 8) with 255. lia. }
  lia.
Qed.

Definition wf_dop (o : dop) : Prop := match o with DOp (Write w) => wf_wr w | _ => True end.

Lemma decode1_wf : forall tt salt l o rest, (length tt >= 512)%nat -> decode1 tt salt l = Some (o, rest) ->
  wf_dop o /\ (length rest < length l)%nat.
Proof.
  intros tt salt l o rest Ht H. unfold decode1 in H. destruct l as [|c t]; [discriminate|].
  assert (Hmk : forall off len var fin, (match fin with Some f => off + len <= f | None => True end) ->
            wf_dop (mk_write tt salt off len var fin)).
  { intros off len var fin Hf. unfold mk_write.
    destruct (N.ltb_spec varint_max off); cbn [orb]; [exact I|].
    destruct fin as [f|]; [destruct (N.ltb_spec varint_max f); [exact I|]|];
      cbn [wf_dop]; unfold wf_wr, w_end; cbn [w_fin w_off w_data]; [|exact I].
    rewrite gen_bytes_nlen by exact Ht. lia. }
  assert (Htl : forall (x : list Z), (length (tl x) <= length x)%nat) by (intros [|? ?]; cbn; lia).
  pose proof (Htl t). pose proof (Htl (tl t)). pose proof (Htl (tl (tl t))). pose proof (Htl (tl (tl (tl t)))).
  injection H as H. cbn [length].
  repeat match type of H with context [match ?x with _ => _ end] => destruct x end;
    injection H as <- <-; (split; [try exact I; try (apply Hmk; try exact I; lia)|lia]).
Qed.

(* ---- every record the model prints is accepted by the judge ---- *)
Lemma zeqb_list_refl : forall l, zeqb_list l l = true.
Proof.
  intros l. unfold zeqb_list. rewrite Nat.eqb_refl. cbn [andb].
  induction l as [|x l IH]; cbn [combine forallb]; [reflexivity|]. cbn [fst snd]. rewrite Z.eqb_refl. exact IH.
Qed.
Lemma sp_obs_5 : forall s, exists a b c d e, sp_obs s = [a; b; c; d; e].
Proof. intros s. unfold sp_obs. cbv zeta. eauto 10. Qed.

Lemma split8 : forall (rec rest : list Z), length rec = 8%nat -> firstn 8 (rec ++ rest) = rec /\ skipn 8 (rec ++ rest) = rest.
Proof.
  intros rec rest H. do 8 (destruct rec as [|? rec]; [discriminate|]). destruct rec; [|discriminate].
  split; reflexivity.
Qed.

Section WithWrite2.
Hypothesis W : WriteOK.

Lemma step_rec : forall tt salt st s l o rest k, (length tt >= 512)%nat -> Abs st s ->
  decode1 tt salt l = Some (o, rest) ->
  exists rec st' s', length rec = 8%nat /\ run_from (S k) tt salt st l = rec ++ run_from k tt salt st' rest
    /\ judge_op s o rec = Some s' /\ Abs st' s'.
Proof.
  intros tt salt st s l o rest k Ht Ha Hdec. destruct (decode1_wf _ _ _ _ _ Ht Hdec) as [Hwf _].
  cbn [run_from]. rewrite Hdec. destruct o as [op|].
  2:{ destruct (Abs_obs _ _ Ha) as [ch Eo]. destruct (sp_obs_5 s) as (x0 & x1 & x2 & x3 & x4 & E5).
      exists (1%Z :: 0%Z :: r_obs st), st, s. rewrite Eo, E5. cbn [app length].
      split; [reflexivity|]. split; [reflexivity|]. split; [|exact Ha].
      unfold judge_op. rewrite E5, zeqb_list_refl. reflexivity. }
  destruct op as [w|wm|n|]; cbn [rstep].
  - destruct (rwrite st w) as [st' c] eqn:E. cbn [wf_dop] in Hwf.
    destruct (write_abs W _ _ _ _ _ Ha Hwf E) as [Ha' Hacc].
    destruct (Abs_obs _ _ Ha') as [ch Eo]. destruct (sp_obs_5 (fst (spec_write s w))) as (x0 & x1 & x2 & x3 & x4 & E5).
    assert (Hoof : oof st' = false) by (destruct Ha' as ((_ & _ & _ & _ & Ho) & _); exact Ho).
    exists ([c; 0%Z] ++ r_obs st'), st', (fst (spec_write s w)). rewrite Hoof, Eo, E5. cbn [app length].
    split; [reflexivity|]. split; [reflexivity|]. split; [|exact Ha'].
    unfold judge_op. destruct (spec_write s w) as [s' acc]. cbn [fst snd] in *. rewrite E5, zeqb_list_refl.
    assert (Bool.eqb acc (c =? 0)%Z = true).
    { destruct (Z.eqb_spec c 0) as [e|ne]; destruct acc; try reflexivity; exfalso.
      - apply Hacc in e. discriminate. - apply ne. apply Hacc. reflexivity. }
    rewrite H. reflexivity.
  - destruct (rpop st wm) as [[st' n] chunk] eqn:E.
    destruct (pop_abs _ _ _ _ _ _ Ha E) as (Ha' & Hsize & h & Eh & Ehc).
    destruct (Abs_obs _ _ Ha') as [ch Eo]. destruct (sp_obs_5 (sp_take s n)) as (x0 & x1 & x2 & x3 & x4 & E5).
    assert (Hoof : oof st' = false) by (destruct Ha' as ((_ & _ & _ & _ & Ho) & _); exact Ho).
    exists ([Nz n; Nz (cks_out (cks (0, 0) chunk))] ++ r_obs st'), st', (sp_take s n). rewrite Hoof, Eo, E5. cbn [app length].
    split; [reflexivity|]. split; [reflexivity|]. split; [|exact Ha'].
    unfold judge_op. destruct (Z.ltb_spec (Nz n) 0) as [Hneg|_]; [unfold Nz in Hneg; lia|].
    replace (zN (Nz n)) with n by (unfold zN, Nz; lia).
    rewrite Eh, Hsize, E5, zeqb_list_refl. subst h. rewrite Z.eqb_refl. reflexivity.
  - destruct (rskip st n) as [st' c] eqn:E.
    destruct (skip_abs _ _ _ _ _ Ha E) as [Ha' Hacc].
    destruct (Abs_obs _ _ Ha') as [ch Eo]. destruct (sp_obs_5 (fst (spec_skip s n))) as (x0 & x1 & x2 & x3 & x4 & E5).
    assert (Hoof : oof st' = false) by (destruct Ha' as ((_ & _ & _ & _ & Ho) & _); exact Ho).
    exists ([c; 0%Z] ++ r_obs st'), st', (fst (spec_skip s n)). rewrite Hoof, Eo, E5. cbn [app length].
    split; [reflexivity|]. split; [reflexivity|]. split; [|exact Ha'].
    unfold judge_op. destruct (spec_skip s n) as [s' acc]. cbn [fst snd] in *. rewrite E5, zeqb_list_refl.
    assert (Bool.eqb acc (c =? 0)%Z = true).
    { destruct (Z.eqb_spec c 0) as [e|ne]; destruct acc; try reflexivity; exfalso.
      - apply Hacc in e. discriminate. - apply ne. apply Hacc. reflexivity. }
    rewrite H. reflexivity.
  - destruct (Abs_obs _ _ Abs_init) as [ch Eo]. destruct (sp_obs_5 spec_init) as (x0 & x1 & x2 & x3 & x4 & E5).
    exists ([0%Z; 0%Z] ++ r_obs rinit), rinit, spec_init. cbn [oof rinit]. rewrite Eo, E5. cbn [app length].
    split; [reflexivity|]. split; [reflexivity|]. split; [|exact Abs_init].
    unfold judge_op. rewrite E5, zeqb_list_refl. reflexivity.
Qed.

Lemma judge_run_from : forall fuel tt salt st s l, (length tt >= 512)%nat -> (length l < fuel)%nat -> Abs st s ->
  judge_from fuel tt salt s l (run_from fuel tt salt st l) = true.
Proof.
  induction fuel as [|k IH]; intros tt salt st s l Ht Hl Ha; [lia|].
  destruct (decode1 tt salt l) as [[o rest]|] eqn:Hdec.
  - destruct (step_rec _ _ _ _ _ _ _ k Ht Ha Hdec) as (rec & st' & s' & Hlen & Hrun & Hj & Ha').
    rewrite Hrun. cbn [judge_from]. rewrite Hdec. destruct (split8 rec (run_from k tt salt st' rest) Hlen) as [E1 E2].
    rewrite E1, E2, Hj. apply IH; auto. destruct (decode1_wf _ _ _ _ _ Ht Hdec) as [_ Hs]. lia.
  - cbn [judge_from]. rewrite Hdec. reflexivity.
Qed.

(* the specification's judgement accepts every run of the slot model, on every case *)
Lemma judge_run : forall case, judge case (run case) = true.
Proof.
  intros case. unfold judge, run. cbv zeta. apply judge_run_from.
  - rewrite app_length, table_length. lia.
  - destruct case; cbn [tl length]; lia.
  - apply Abs_init.
Qed.

End WithWrite2.
