(* Proofs about the IntervalSet model (C16), part 3: binary_search_with / contains / index_for. *)
From SQ Require Import lib.Base lib.ListX gen.Gen_C16 model.IntervalSet proofs.IntervalSetProofs.
Local Open Scope N_scope.

Definition d0 : ival := (0, 0).

Lemma wf_nth_valid : forall emax l i, iswf emax l -> (i < length l)%nat -> fst (nth i l d0) <= snd (nth i l d0).
Proof.
  intros emax. induction l as [|b t IH]; intros i Hwf Hi; cbn [length] in Hi; [lia|].
  cbn [iswf] in Hwf. destruct Hwf as (H1 & _ & _ & H4). destruct i as [|i]; cbn [nth]; [assumption|]. apply IH; [assumption|lia].
Qed.

Lemma wf_nth_lt : forall emax l i j, iswf emax l -> (i < j)%nat -> (j < length l)%nat ->
  snd (nth i l d0) + 1 < fst (nth j l d0).
Proof.
  intros emax. induction l as [|b t IH]; intros i j Hwf Hij Hj; cbn [length] in Hj; [lia|].
  destruct j as [|j]; [lia|]. cbn [nth]. destruct i as [|i].
  - apply (wf_after _ _ _ Hwf). apply nth_In. lia.
  - cbn [iswf] in Hwf. apply IH; [tauto|lia|lia].
Qed.

Lemma cmp_ival_spec : forall i v, fst i <= snd i ->
  match cmp_ival_value i v with
  | Eq => fst i <= v <= snd i
  | Lt => snd i < v
  | Gt => v < fst i
  end.
Proof.
  intros [a b] v H. unfold cmp_ival_value. cbn [fst snd] in *.
  destruct (N.compare_spec a v), (N.compare_spec b v); lia.
Qed.

Section Search.
Variable emax : N.
Variable l : list ival.
Variable v : N.
Hypothesis Hwf : iswf emax l.

Notation len := (N.of_nat (length l)).
Notation at_ i := (nth (N.to_nat i) l d0).

Definition bs_inv (base size : N) : Prop :=
  1 <= size /\ base + size <= len /\ (base = 0 \/ snd (at_ base) < v) /\
  (forall j, base + size <= j -> j < len -> v < fst (at_ j)).

Lemma bs_loop_spec : forall fuel size base, bs_inv base size -> size <= N.of_nat fuel ->
  match bs_loop fuel l v size base with
  | inl mid => mid < len /\ fst (at_ mid) <= v <= snd (at_ mid)
  | inr b => b < len /\ (b = 0 \/ snd (at_ b) < v) /\ (forall j, b + 1 <= j -> j < len -> v < fst (at_ j))
  end.
Proof.
  induction fuel as [|f IH]; intros size base (H1 & H2 & H3 & H4) Hf.
  - cbn in Hf. lia.
  - cbn [bs_loop]. destruct (N.leb_spec size 1) as [Hs|Hs].
    + assert (size = 1) by lia. subst size. repeat split; try assumption; try lia.
    + assert (Hhalf : 1 <= size / 2 /\ 2 * (size / 2) <= size).
      { pose proof (N.mul_div_le size 2 ltac:(lia)).
        assert (size / 2 <> 0) by (intros E; apply N.div_small_iff in E; lia).
        pose proof (N.le_0_l (size / 2)). lia. }
      set (half := size / 2) in *. clearbody half. destruct Hhalf as [Hh1 Hh2]. set (mid := base + half).
      assert (Hmid : mid < len) by (unfold mid; lia).
      pose proof (cmp_ival_spec (at_ mid) v (wf_nth_valid emax l (N.to_nat mid) Hwf ltac:(lia))) as Hc.
      replace (0, 0) with d0 by reflexivity.
      destruct (cmp_ival_value (at_ mid) v).
      * split; assumption.
      * (* Less: base = mid *)
        apply IH; [|lia]. split; [lia|]. split; [unfold mid; lia|]. split; [right; assumption|].
        intros j Hj Hj'. apply H4; unfold mid in *; lia.
      * (* Greater: keep base, shrink *)
        apply IH; [|lia]. split; [lia|]. split; [lia|]. split; [assumption|].
        intros j Hj Hj'. destruct (N.eq_dec j mid) as [->|Hne]; [assumption|].
        assert (Hlt : (N.to_nat mid < N.to_nat j)%nat) by (unfold mid in *; lia).
        pose proof (wf_nth_lt emax l _ _ Hwf Hlt ltac:(lia)).
        pose proof (wf_nth_valid emax l (N.to_nat mid) Hwf ltac:(lia)). lia.
Qed.

(* the outcome of binary_search_with on a non-empty well-formed set *)
Lemma binary_search_spec : l <> [] ->
  let '(c, i) := binary_search l v in
  i < len /\
  (c = Eq <-> mem v l) /\
  (forall b, In b (firstn (N.to_nat i) l) -> snd b + 1 < v).
Proof.
  intros Hne. unfold binary_search.
  assert (Hlen : 1 <= len) by (destruct l; [congruence|cbn [length]; lia]).
  destruct (N.eqb_spec len 0); [lia|].
  pose proof (bs_loop_spec (length l) len 0) as H.
  assert (Hinv : bs_inv 0 len). { repeat split; try lia. }
  specialize (H Hinv ltac:(lia)).
  assert (Hpre : forall i, i < len -> fst (at_ i) <= v ->
            forall b, In b (firstn (N.to_nat i) l) -> snd b + 1 < v).
  { intros i Hi Hv b Hb. apply (In_nth _ _ d0) in Hb. destruct Hb as (m & Hn & <-).
    rewrite firstn_length in Hn. rewrite nth_firstn_lt by lia.
    pose proof (wf_nth_lt emax l m (N.to_nat i) Hwf ltac:(lia) ltac:(lia)). lia. }
  assert (Hmem : forall i, i < len -> fst (at_ i) <= v <= snd (at_ i) -> mem v l).
  { intros i Hi Hv. exists (at_ i). split; [apply nth_In; lia|assumption]. }
  destruct (bs_loop (length l) l v len 0) as [mid|b].
  - destruct H as [Hm Hv]. split; [assumption|]. split; [split; [intros _; eauto|reflexivity]|].
    apply Hpre; [assumption|lia].
  - destruct H as (Hb & Hlo & Hhi).
    pose proof (cmp_ival_spec (at_ b) v (wf_nth_valid emax l (N.to_nat b) Hwf ltac:(lia))) as Hc.
    replace (0, 0) with d0 by reflexivity.
    assert (Hnot : ~ (fst (at_ b) <= v <= snd (at_ b)) -> ~ mem v l).
    { intros Hn (i & Hi & Hv). apply (In_nth _ _ d0) in Hi. destruct Hi as (m & Hn' & <-).
      destruct (Nat.lt_trichotomy m (N.to_nat b)) as [Hlt|[->|Hgt]].
      - pose proof (wf_nth_lt emax l m (N.to_nat b) Hwf Hlt ltac:(lia)).
        pose proof (wf_nth_valid emax l (N.to_nat b) Hwf ltac:(lia)).
        destruct Hlo as [->|Hlo]; [lia|]. lia.
      - tauto.
      - specialize (Hhi (N.of_nat m) ltac:(lia) ltac:(lia)). rewrite Nat2N.id in Hhi. lia. }
    split; [assumption|].
    destruct (cmp_ival_value (at_ b) v).
    + split; [split; [intros _; eauto|reflexivity]|]. apply Hpre; [assumption|lia].
    + split; [split; [discriminate|intros Hm; exfalso; revert Hm; apply Hnot; lia]|].
      apply Hpre; [assumption|]. pose proof (wf_nth_valid emax l (N.to_nat b) Hwf ltac:(lia)). lia.
    + split; [split; [discriminate|intros Hm; exfalso; revert Hm; apply Hnot; lia]|].
      pose proof (wf_nth_valid emax l (N.to_nat b) Hwf ltac:(lia)).
      destruct Hlo as [->|Hlo]; [intros b' []|lia].
Qed.

End Search.

(* contains is membership *)
Theorem contains_spec : forall emax s v, iswf emax (intervals s) ->
  contains s v = mem_ivals v (intervals s).
Proof.
  intros emax s v Hwf. unfold contains.
  destruct (intervals s) as [|b t] eqn:El.
  - reflexivity.
  - rewrite <- El in *. assert (Hne : intervals s <> []) by (rewrite El; discriminate).
    pose proof (binary_search_spec emax (intervals s) v Hwf Hne) as H.
    destruct (binary_search (intervals s) v) as [c i]. cbn [fst]. destruct H as (_ & Hc & _).
    destruct (mem_ivals v (intervals s)) eqn:Em.
    + apply mem_ivals_iff in Em. apply Hc in Em. subst c. reflexivity.
    + destruct c; try reflexivity. exfalso. assert (Hm : mem v (intervals s)) by (apply Hc; reflexivity).
      apply mem_ivals_iff in Hm. congruence.
Qed.

(* index_for returns a slot such that everything before it ends at least two below the new start *)
Theorem index_for_spec : forall emax l a, iswf emax l -> l <> [] ->
  index_for l a <= N.of_nat (length l) /\
  forall b, In b (firstn (N.to_nat (index_for l a)) l) -> snd b + 1 < fst a.
Proof.
  intros emax l a Hwf Hne. unfold index_for.
  destruct (N.of_nat (length l) <? iset_linear_threshold).
  - split; [lia|]. intros b [].
  - pose proof (binary_search_spec emax l (fst a) Hwf Hne) as H.
    destruct (binary_search l (fst a)) as [c i]. cbn [snd]. destruct H as (Hi & _ & Hp). split; [lia|assumption].
Qed.
