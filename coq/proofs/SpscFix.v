(* The candidate repair of `State::close` (model parameter fx = true): after its last wake each side
   does `released.swap(true)`; the side that finds it already set is the last one out and frees.
   Theorem: with that step order no access to the header happens after it was deallocated, in any
   schedule.  (The FIFO / wake-up invariants of the other files are proved for fx = false, the step
   order of the current source; see props/C17.v.) *)
From SQ Require Import lib.Base lib.ListX gen.Gen_C17.
From SQ Require Import model.Spsc proofs.SpscClose proofs.SpscEnum.
Local Open Scope N_scope.

(* past the released.swap *)
Definition past_rel (p : pc) : bool :=
  match p with
  | Wk KDropR _ | Wk KDropS _ | Drop1 | Drop2 | Drop3 | Free | Done => true
  | _ => false
  end.
Definition is_done_pc (p : pc) : bool := match p with Done => true | _ => false end.

Definition proper_drop (p : pc) : bool :=
  match p with Wk KDropR _ | Wk KDropS _ | Drop1 | Drop2 | Drop3 | Free => true | _ => false end.

Definition finv_b (p c : pc) (rel pw cw fr uf : bool) : bool :=
  eqb rel (past_rel p || past_rel c)
  && (if past_rel p then (if past_rel c then xorb pw cw else pw) else true)
  && (if past_rel c then (if past_rel p then true else cw) else true)
  && implb (proper_drop p) (negb pw)
  && implb (proper_drop c) (negb cw)
  && eqb fr ((is_done_pc p && negb pw) || (is_done_pc c && negb cw))
  && negb uf.
Global Arguments finv_b : simpl never.

Definition finv (s : st) : bool :=
  finv_b (ppc s) (cpc s) (released s) (pwas s) (cwas s) (freed s) (uaf s).

Ltac split_ifs3 :=
  repeat match goal with
  | |- context [if ?c then _ else _] =>
      match c with
      | context [?b] => is_var b; match type of b with bool => destruct b end
      end; st_cbn
  | |- context [if ?c then _ else _] => destruct c eqn:?; st_cbn
  | |- context [match ?x with _ => _ end] => destruct x eqn:?; st_cbn
  end.
Ltac enum_fin :=
  repeat match goal with x : _ |- _ => clear x end;
  repeat match goal with
  | x : bool |- _ => revert x; apply fa_bool
  | x : pc |- _ => revert x; apply fa_pc
  end;
  vm_compute; reflexivity.
Lemma implb_elim' : forall a b, implb a b = true -> a = true -> b = true.
Proof. intros [] []; cbn; auto. Qed.

Lemma finv_init : forall cap, finv (init cap) = true.
Proof. reflexivity. Qed.

Lemma finv_pstep : forall cap s, finv s = true -> finv (pstep true cap s) = true.
Proof.
  intros cap s H. dst s. unfold finv, pstep in *. st_cbn. revert H. apply implb_elim'.
  destruct_pc xppc; unfold do_wk, wake_step, reg_step; st_cbn; split_ifs3; enum_fin.
Qed.
Lemma finv_cstep : forall cap s, finv s = true -> finv (cstep true cap s) = true.
Proof.
  intros cap s H. dst s. unfold finv, cstep in *. st_cbn. revert H. apply implb_elim'.
  destruct_pc xcpc; unfold do_wk, wake_step, reg_step; st_cbn; split_ifs3; enum_fin.
Qed.
Lemma finv_pbegin : forall op s, ppc s = Idle -> finv s = true -> finv (pbegin op s) = true.
Proof.
  intros op s Hp H. dst s. cbn in Hp. subst. unfold finv, pbegin in *. revert H. apply implb_elim'.
  destruct op; st_cbn; enum_fin.
Qed.
Lemma finv_cbegin : forall op s, cpc s = Idle -> finv s = true -> finv (cbegin op s) = true.
Proof.
  intros op s Hp H. dst s. cbn in Hp. subst. unfold finv, cbegin in *. revert H. apply implb_elim'.
  destruct op; st_cbn; enum_fin.
Qed.

Lemma finv_sys_step : forall cap y t, finv (y_st y) = true -> finv (y_st (sys_step true cap y t)) = true.
Proof.
  intros cap [s pp cp] t G. unfold sys_step. cbn [y_st y_pp y_cp] in *. destruct t.
  - destruct (ppc s) eqn:Ep; try (cbn [y_st]; apply finv_pstep; auto).
    destruct pp; cbn [y_st]; auto. apply finv_pbegin; auto.
  - destruct (cpc s) eqn:Ep; try (cbn [y_st]; apply finv_cstep; auto).
    destruct cp; cbn [y_st]; auto. apply finv_cbegin; auto.
Qed.

(* repaired step order: no use after free, in any schedule, for any capacity and programs *)
Theorem fixed_no_use_after_free : forall cap sched pp cp,
  uaf (y_st (exec true cap sched pp cp)) = false.
Proof.
  intros cap sched pp cp.
  assert (H : finv (y_st (exec true cap sched pp cp)) = true).
  { unfold exec. generalize (mkSys (init cap) pp cp) (finv_init cap : finv (y_st (mkSys (init cap) pp cp)) = true).
    induction sched as [|t r IH]; intros y G; cbn [fold_left]; auto. apply IH. apply finv_sys_step. exact G. }
  unfold finv, finv_b in H. destruct (uaf _); auto. rewrite andb_false_r in H. discriminate.
Qed.

(* the schedule that exhibits the use-after-free in the current code is harmless in the repaired one *)
Example fixed_witness_schedule : uaf (y_st (exec true 2 (repeat false 5 ++ repeat true 18 ++ [false]) [ODropS] [ODropR])) = false.
Proof. apply fixed_no_use_after_free. Qed.
