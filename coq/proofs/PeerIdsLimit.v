(* The exact outcome of PeerIdRegistry::on_new_connection_id in terms of a direct specification of the id set
   after the frame: when CONNECTION_ID_LIMIT_ERROR is returned. *)
From SQ Require Import lib.Base lib.ListX gen.Gen_C13 model.PeerIds proofs.PeerIdsProofs.
Local Open Scope N_scope.

(* specification *)
Definition retire_by (rp : N) (i : pinfo) : pinfo := if p_retire_ready i rp then set_pst i PPendRet else i.
Fixpoint first_pending (l : list pinfo) (pos : nat) : option nat :=
  match l with
  | [] => None
  | i :: t => match pst i with PInUsePending => Some pos | _ => first_pending t (S pos) end
  end.
Definition pact (l : list pinfo) : N := N.of_nat (length (filter p_active l)).

(* the registered ids after a conflict-free frame, and whether the frame was a retransmission:
   ids below the (largest) retire_prior_to are retired; a new id is appended (already retired when it lies below
   retire_prior_to); if it is usable, the handshake id waiting for a replacement is retired as well *)
Definition after_frame (r : preg) (id sq rpt tok : N) : list pinfo * bool :=
  let rp := N.max (prpt r) rpt in
  let l1 := map (retire_by rp) (pinfos r) in
  if existsb (fun i => pid i =? id) (pinfos r) then (l1, true)
  else
    let fresh := mkP id sq (Some tok) (if sq <? rp then PPendRet else PNew) in
    let l2 := if p_active fresh then
                match first_pending l1 0 with
                | Some k => set_nth k l1 (set_pst (nth k l1 fresh) PPendRet)
                | None => l1
                end
              else l1 in
    (l2 ++ [fresh], false).

Lemma validate_ok i id tok sq : ~ conflict id tok sq i -> validate i id tok sq = Some (pid i =? id).
Proof.
  intros H. destruct (validate i id tok sq) as [d|] eqn:E; [|apply validate_none in E; contradiction].
  unfold validate in E. destruct (pid i =? id).
  - destruct (negb _ || negb _); [discriminate|congruence].
  - destruct (_ || _); [discriminate|congruence].
Qed.

Lemma scan_spec l id tok sq rp : forall pos, ~ Exists (conflict id tok sq) l ->
  scan l id tok sq rp pos =
  Some (map (retire_by rp) l, pact (map (retire_by rp) l), existsb (fun i => pid i =? id) l,
        first_pending (map (retire_by rp) l) pos).
Proof.
  induction l as [|i t IH]; intros pos H; cbn [scan map existsb first_pending]; [reflexivity|].
  rewrite validate_ok by (intros C; apply H; now left).
  rewrite IH by (intros C; apply H; now right). fold (retire_by rp i).
  assert (E : (if p_active (retire_by rp i) then pact (map (retire_by rp) t) + 1 else pact (map (retire_by rp) t))
              = pact (retire_by rp i :: map (retire_by rp) t)).
  { unfold pact. cbn [filter]. destruct (p_active (retire_by rp i)); cbn [length]; lia. }
  rewrite E. reflexivity.
Qed.

Lemma first_pending_some l : forall pos k d, first_pending l pos = Some k ->
  exists j, k = (pos + j)%nat /\ (j < length l)%nat /\ pst (nth j l d) = PInUsePending.
Proof.
  induction l as [|i t IH]; intros pos k d; cbn [first_pending]; [discriminate|].
  destruct (pst i) eqn:E; try (intros H; destruct (IH _ _ d H) as (j & -> & Hj & Hp); exists (S j); cbn [length nth]; repeat split; auto; lia).
  intros [= <-]. exists 0%nat. cbn [length nth]. repeat split; auto; lia.
Qed.

Lemma pact_set_nth k : forall l x d, (k < length l)%nat -> p_active (nth k l d) = true -> p_active x = false ->
  pact (set_nth k l x) + 1 = pact l.
Proof.
  unfold pact. induction k as [|k IH]; intros [|h t] x d Hk Ha Hx; cbn [length] in Hk; try lia.
  - change (set_nth 0 (h :: t) x) with (x :: t). cbn [filter nth] in *. rewrite Hx, Ha. cbn [length]. lia.
  - change (set_nth (S k) (h :: t) x) with (h :: set_nth k t x). cbn [filter nth] in *.
    specialize (IH t x d ltac:(lia) Ha Hx). destruct (p_active h); cbn [length]; lia.
Qed.

Lemma pact_app a b : pact (a ++ b) = pact a + pact b.
Proof. unfold pact. rewrite filter_app, app_length. lia. Qed.

(* RFC 9000 5.1.1 / 5.1.2: a conflict-free frame is refused exactly when, after retiring by retire_prior_to and
   adding the id, more than active_connection_id_limit ids are usable (not checked for a retransmission) or more
   than twice that many retirements are outstanding; the error is CONNECTION_ID_LIMIT_ERROR *)
Theorem on_new_connection_id_exact r id sq rpt tok : ~ Exists (conflict id tok sq) (pinfos r) ->
  on_new_connection_id r id sq rpt tok =
  let '(lf, dup) := after_frame r id sq rpt tok in
  if (negb dup && (Gen_C13.peer_active_connection_id_limit <? pact lf))
     || (Gen_C13.peer_retired_connection_id_limit <? N.of_nat (length lf) - pact lf)
  then (CONNECTION_ID_LIMIT_ERROR, r) else (0, mkPR lf (N.max (prpt r) rpt)).
Proof.
  intros H. unfold on_new_connection_id, after_frame. rewrite (scan_spec _ _ _ _ _ 0%nat H).
  set (rp := N.max (prpt r) rpt). set (l1 := map (retire_by rp) (pinfos r)).
  destruct (existsb (fun i => pid i =? id) (pinfos r)); cbn [negb andb orb]; [reflexivity|].
  set (fresh := mkP id sq (Some tok) (if sq <? rp then PPendRet else PNew)).
  destruct (p_active fresh) eqn:Ea.
  - destruct (first_pending l1 0) as [k|] eqn:Ep.
    + destruct (first_pending_some l1 0 k fresh Ep) as (j & -> & Hj & Hp). cbn [Nat.add] in *.
      assert (Hc : pact (set_nth j l1 (set_pst (nth j l1 fresh) PPendRet) ++ [fresh]) = pact l1 + 1 - 1).
      { rewrite pact_app. pose proof (pact_set_nth j l1 (set_pst (nth j l1 fresh) PPendRet) fresh Hj) as P.
        unfold p_active at 1 in P. rewrite Hp in P. specialize (P eq_refl eq_refl).
        unfold pact at 2. cbn [filter]. rewrite Ea. cbn [length]. lia. }
      rewrite Hc. destruct (_ <? pact l1 + 1 - 1); cbn [orb]; [reflexivity|]. destruct (_ <? _); reflexivity.
    + assert (Hc : pact (l1 ++ [fresh]) = pact l1 + 1).
      { rewrite pact_app. unfold pact at 2. cbn [filter]. rewrite Ea. reflexivity. }
      rewrite Hc. destruct (_ <? pact l1 + 1); cbn [orb]; [reflexivity|]. destruct (_ <? _); reflexivity.
  - assert (Hc : pact (l1 ++ [fresh]) = pact l1).
    { rewrite pact_app. unfold pact at 2. cbn [filter]. rewrite Ea. cbn [length]. lia. }
    rewrite Hc. destruct (_ <? pact l1); cbn [orb]; [reflexivity|]. destruct (_ <? _); reflexivity.
Qed.

Corollary limit_error_iff r id sq rpt tok : ~ Exists (conflict id tok sq) (pinfos r) ->
  (fst (on_new_connection_id r id sq rpt tok) = CONNECTION_ID_LIMIT_ERROR <->
   let '(lf, dup) := after_frame r id sq rpt tok in
   (dup = false /\ Gen_C13.peer_active_connection_id_limit < pact lf) \/
   Gen_C13.peer_retired_connection_id_limit < N.of_nat (length lf) - pact lf).
Proof.
  intros H. rewrite (on_new_connection_id_exact _ _ _ _ _ H). destruct (after_frame r id sq rpt tok) as [lf dup].
  destruct (N.ltb_spec peer_active_connection_id_limit (pact lf)) as [A|A];
  destruct (N.ltb_spec peer_retired_connection_id_limit (N.of_nat (length lf) - pact lf)) as [B|B];
  destruct dup; cbn [negb andb orb fst]; split; intros X; try reflexivity; try (vm_compute in X; discriminate);
  try (destruct X as [[X1 X2]|X]; try discriminate; lia); auto.
Qed.
