(* Proofs about model/Sync.v: the sync state machines never quiesce with an undelivered value. *)
From SQ Require Import lib.Base gen.Gen_C02.
From SQ Require Import model.Sync.
Local Open Scope N_scope.

(* ------------------------------------------------------------------ small helpers *)

Lemma cap_add_ge : forall a d, a <= varint_max -> a <= cap_add a d /\ cap_add a d <= varint_max.
Proof. intros a d H. unfold cap_add. lia. Qed.

Lemma fold_left_app1 {A B} (f : A -> B -> A) l x a :
  fold_left f (l ++ [x]) a = f (fold_left f l a) x.
Proof. rewrite fold_left_app. reflexivity. Qed.

Definition wants_transmit (d : delivery) : Prop := exists v, d = Requested v \/ d = Lost v.
Definition in_flight (d : delivery) : Prop := exists v p t, d = InFlight v p t.

(* ------------------------------------------------------------------ IncrementalValueSync *)

Definition ivs_next (s : ivs) (o : op) : ivs := fst (ivs_step s o).
Definition ivs_reach (l a t : N) (ops : list op) : ivs := fold_left ivs_next ops (ivs_new l a t).

(* the latest value is significant: it differs from the acknowledged one by at least the threshold *)
Definition needs_delivery (s : ivs) : Prop :=
  latest s <> ackd s /\ thr s <= latest s - ackd s.

Lemma needs_spec : forall l a t, needs l a t = true <-> (l <> a /\ t <= l - a).
Proof.
  intros. unfold needs. rewrite andb_true_iff, negb_true_iff, N.eqb_neq, N.leb_le. tauto.
Qed.

Definition iinv (s : ivs) : Prop :=
  ackd s <= latest s /\ latest s <= varint_max /\
  match idel s with
  | NotRequested => needs (latest s) (ackd s) (thr s) = false
  | Requested _ | Lost _ => ackd s < latest s
  | InFlight v _ _ =>
      ackd s <= v /\ v <= latest s /\ ackd s < latest s /\ (latest s = v \/ latest s - v < thr s)
  | Delivered _ => False
  | Cancelled _ => True
  end.

Lemma request_if_inv : forall l a t d n,
  a <= l -> l <= varint_max ->
  match d with
  | NotRequested => True
  | Requested _ | Lost _ => a < l
  | InFlight v _ _ => a <= v /\ v <= l /\ a < l
  | Delivered _ => False
  | Cancelled _ => True
  end ->
  iinv (request_if (mkIvs l a t d n)).
Proof.
  intros l a t d n Hal Hl Hd. unfold request_if, should_send. cbn [idel latest ackd thr ipn].
  destruct d as [|v|v|v p ts|v|o]; cbn [is_cancelled]; try contradiction.
  - (* NotRequested *)
    destruct (N.eqb_spec l a); cbn [negb].
    + unfold iinv; cbn. unfold needs. subst. rewrite N.eqb_refl. cbn. lia.
    + destruct (N.leb_spec t (l - a)).
      * unfold iinv; cbn. lia.
      * unfold iinv; cbn. unfold needs. repeat split; try lia.
        apply andb_false_iff. right. apply N.leb_gt. lia.
  - destruct (N.eqb_spec l a); cbn [negb]; [lia|].
    destruct (N.leb_spec t (l - a)); unfold iinv; cbn; lia.
  - destruct (N.eqb_spec l a); cbn [negb]; [lia|].
    destruct (N.leb_spec t (l - a)); unfold iinv; cbn; lia.
  - destruct (N.eqb_spec l a); cbn [negb]; [lia|].
    destruct (N.leb_spec t (l - v)); unfold iinv; cbn; lia.
  - unfold iinv; cbn. lia.
Qed.

Lemma ivs_new_inv : forall l a t, a <= l -> l <= varint_max -> iinv (ivs_new l a t).
Proof. intros. unfold ivs_new. apply request_if_inv; auto. Qed.

Lemma ivs_step_inv : forall s o, iinv s -> iinv (ivs_next s o).
Proof.
  intros s o (Hal & Hl & Hd). unfold ivs_next.
  destruct o; cbn [ivs_step fst]; try (unfold iinv; tauto).
  - (* update *)
    destruct (cap_add_ge (latest s) d Hl) as [H1 H2].
    apply request_if_inv; try lia.
    destruct (idel s); try tauto; lia.
  - (* transmit *)
    destruct (try_transmit (idel s) c) eqn:Et.
    + destruct cap; cbn [fst]; unfold iinv; cbn [idel latest ackd thr].
      * destruct (idel s); cbn in Et; try discriminate; lia.
      * tauto.
    + cbn [fst]; unfold iinv; cbn [idel latest ackd thr]. tauto.
  - (* ack *)
    destruct (idel s) eqn:E; cbn [fst]; try (unfold iinv; rewrite E; tauto).
    destruct (in_range pn lo hi); cbn [fst].
    + unfold iinv; cbn [idel latest ackd thr]. repeat split; try lia.
      unfold needs. destruct Hd as (? & ? & ? & [Hv|Hv]).
      * subst. rewrite N.eqb_refl. reflexivity.
      * apply andb_false_iff. right. apply N.leb_gt. lia.
    + unfold iinv; rewrite E; tauto.
  - (* loss *)
    destruct (idel s) eqn:E; cbn [fst]; try (unfold iinv; rewrite E; tauto).
    destruct (in_range pn lo hi); cbn [fst].
    + unfold iinv; cbn [idel latest ackd thr]. lia.
    + unfold iinv; rewrite E; tauto.
  - (* stop *)
    unfold iinv; cbn [idel latest ackd thr].
    destruct (idel s); cbn [cancel]; tauto.
Qed.

Lemma ivs_reach_inv : forall l a t ops, a <= l -> l <= varint_max -> iinv (ivs_reach l a t ops).
Proof.
  intros l a t ops Hal Hl. unfold ivs_reach.
  induction ops as [|o ops IH] using rev_ind; cbn.
  - apply ivs_new_inv; auto.
  - rewrite fold_left_app1. apply ivs_step_inv. exact IH.
Qed.

(* In every reachable state that is not cancelled: a latest value that is not acknowledged (and is
   significant) is in flight, or the component asks for a transmission. *)
Theorem incsync_never_stuck : forall l a t ops s,
  a <= l -> l <= varint_max ->
  s = ivs_reach l a t ops ->
  is_cancelled (idel s) = false ->
  needs_delivery s ->
  in_flight (idel s) \/ wants_transmit (idel s).
Proof.
  intros l a t ops s Hal Hl -> Hc Hn.
  destruct (ivs_reach_inv l a t ops Hal Hl) as (_ & _ & Hd).
  destruct (idel (ivs_reach l a t ops)) eqn:E; try discriminate.
  - exfalso. apply needs_spec in Hn. congruence.
  - right. exists v. auto.
  - right. exists v. auto.
  - left. exists v, pn, ts. reflexivity.
  - contradiction.
Qed.

(* ... and each of the two ways out makes progress: *)
(* the loss of the packet in flight brings the interest back (LostData) with the latest value *)
Theorem incsync_loss_rerequests : forall s v p t lo hi,
  idel s = InFlight v p t -> in_range p lo hi = true ->
  idel (ivs_next s (OLoss lo hi)) = Lost (latest s).
Proof. intros s v p t lo hi E H. unfold ivs_next. cbn. rewrite E, H. reflexivity. Qed.

(* a transmit opportunity (constraint allows, frame fits) writes the latest value and is in flight *)
Theorem incsync_transmit_progress : forall s c t,
  try_transmit (idel s) c = true ->
  ivs_step s (OTransmit c true t) =
    (mkIvs (latest s) (ackd s) (thr s) (InFlight (latest s) (ipn s) t) (ipn s + 1), (Some (latest s), 0)).
Proof. intros s c t H. cbn. rewrite H. reflexivity. Qed.

(* the acknowledgement of the packet in flight ends the delivery with the acknowledged value recorded *)
Theorem incsync_ack_completes : forall s v p t lo hi,
  idel s = InFlight v p t -> in_range p lo hi = true ->
  ivs_next s (OAck lo hi) = mkIvs (latest s) v (thr s) NotRequested (ipn s).
Proof. intros s v p t lo hi E H. unfold ivs_next. cbn. rewrite E, H. reflexivity. Qed.

(* sync_monotone: whatever is transmitted is the latest value, which is never below the
   acknowledged value; the acknowledged value and the latest value never decrease. *)
Theorem sync_monotone : forall l a t ops o s' v r,
  a <= l -> l <= varint_max ->
  ivs_step (ivs_reach l a t ops) o = (s', (Some v, r)) ->
  v = latest (ivs_reach l a t ops) /\ ackd (ivs_reach l a t ops) <= v.
Proof.
  intros l a t ops o s' v r Hal Hl H.
  destruct (ivs_reach_inv l a t ops Hal Hl) as (Hle & _ & _).
  set (s := ivs_reach l a t ops) in *.
  destruct o; cbn in H; try (inversion H; fail).
  - destruct (try_transmit (idel s) c); [destruct cap|]; inversion H; subst. split; [reflexivity|exact Hle].
  - destruct (idel s); try (inversion H; fail). destruct (in_range pn lo hi); inversion H.
  - destruct (idel s); try (inversion H; fail). destruct (in_range pn lo hi); inversion H.
Qed.

Theorem sync_ackd_latest_monotone : forall s o, iinv s ->
  ackd s <= ackd (ivs_next s o) /\ latest s <= latest (ivs_next s o).
Proof.
  intros s o (Hal & Hl & Hd). unfold ivs_next.
  destruct o; cbn [ivs_step fst]; try lia.
  - unfold request_if. destruct (cap_add_ge (latest s) d Hl).
    destruct (should_send _); cbn; lia.
  - destruct (try_transmit (idel s) c); [destruct cap|]; cbn; lia.
  - destruct (idel s); cbn; try lia. destruct (in_range pn lo hi); cbn; lia.
  - destruct (idel s); cbn; try lia. destruct (in_range pn lo hi); cbn; lia.
  - cbn. lia.
Qed.


(* ------------------------------------------------------------------ ivs: the judge accepts the model *)

Definition irel (j : ij) (s : ivs) : Prop :=
  jl j = latest s /\ ja j = ackd s /\ jth j = thr s /\ jpn j = ipn s /\
  jstop j = is_cancelled (idel s) /\ jint j = Nz (interest (idel s)) /\
  jinf j = bz (is_inflight (idel s)) /\
  (forall v p t, idel s = InFlight v p t -> jout j = Some (p, v)).

Ltac split_andb := repeat (apply andb_true_iff; split).

Lemma ivs_always_ok : forall j s, iinv s -> irel j s ->
  ivs_always j (Nz (interest (idel s))) (bz (is_inflight (idel s))) (bz (is_cancelled (idel s)))
             (Nz (latest s)) = true.
Proof.
  intros [l a th out pn stop int inf] [sl sa st d sn] (Hal & Hl & Hd) (E1 & E2 & E3 & E4 & E5 & E6 & E7 & E8).
  cbn in *. subst. unfold ivs_always. cbn [jl ja jth jout jstop].
  rewrite !Z.eqb_refl. cbn [andb].
  destruct d as [|v|v|v p ts|v|o]; cbn [interest is_inflight is_cancelled bz Nz Z.of_N negb andb] in *;
    try contradiction.
  - rewrite Hd. destruct (N.eqb_spec sl sa); reflexivity.
  - destruct (N.eqb_spec sl sa); [lia|]. destruct (needs sl sa st); reflexivity.
  - destruct (N.eqb_spec sl sa); [lia|]. destruct (needs sl sa st); reflexivity.
  - rewrite (E8 v p ts eq_refl).
    destruct (N.eqb_spec sl sa); [lia|]. destruct (needs sl sa st); reflexivity.
  - destruct (N.eqb_spec sl sa); reflexivity.
Qed.

Definition tx_f (r : txres) : Z := match fst r with Some _ => 1%Z | None => 0%Z end.
Definition tx_v (r : txres) : Z := match fst r with Some v => Nz v | None => 0%Z end.

Lemma tx_ints_eq : forall r, tx_ints r = [tx_f r; tx_v r; Nz (snd r)].
Proof. intros [[v|] x]; reflexivity. Qed.

Lemma jstep_close : forall (ok : bool) j' s',
  ok = true -> iinv s' -> irel j' s' ->
  (if ok && ivs_always j' (Nz (interest (idel s'))) (bz (is_inflight (idel s')))
                       (bz (is_cancelled (idel s'))) (Nz (latest s'))
   then Some j' else None) = Some j' /\ irel j' s'.
Proof.
  intros ok j' s' -> Hi Hr. rewrite (ivs_always_ok j' s' Hi Hr). split; [reflexivity|exact Hr].
Qed.

Lemma hit_inflight : forall j s v p t lo hi, irel j s -> idel s = InFlight v p t ->
  hit (jout j) lo hi = in_range p lo hi.
Proof.
  intros j s v p t lo hi (_ & _ & _ & _ & _ & _ & _ & H) E. rewrite (H v p t E). reflexivity.
Qed.

Lemma ivs_jstep_ok : forall j s o, iinv s -> irel j s ->
  let s' := fst (ivs_step s o) in
  let r := snd (ivs_step s o) in
  exists j',
    ivs_jstep j o (tx_f r) (tx_v r) (Nz (snd r)) (Nz (interest (idel s'))) (bz (is_inflight (idel s')))
              (bz (is_cancelled (idel s'))) (Nz (latest s')) = Some j' /\ irel j' s'.
Proof.
  intros j s o Hi Hr.
  pose proof (ivs_step_inv s o Hi) as Hi'. unfold ivs_next in Hi'.
  pose proof Hr as (E1 & E2 & E3 & E4 & E5 & E6 & E7 & E8).
  cbv zeta. unfold ivs_jstep. revert Hi'.
  destruct o; cbn [ivs_step].
  - (* update *)
    intros Hi'. eexists. apply jstep_close; [reflexivity | exact Hi' |].
    cbn [fst]. unfold irel, request_if.
    destruct (should_send _) eqn:Es; cbn [jl ja jth jpn jstop jint jinf jout latest ackd thr ipn idel].
    + rewrite E1, E2, E3, E4. repeat split; auto.
      * unfold should_send in Es. cbn [idel] in Es. rewrite E5.
        destruct (is_cancelled (idel s)); [discriminate|reflexivity].
      * intros; discriminate.
    + rewrite E1, E2, E3, E4. repeat split; auto.
  - (* transmit *)
    assert (Hop : (negb (jstop j) && (((jint j =? 1)%Z && can_transmit c) || ((jint j =? 2)%Z && can_retransmit c)))
                  = try_transmit (idel s) c).
    { rewrite E5, E6. destruct (idel s); cbn; try reflexivity;
        destruct (can_transmit c), (can_retransmit c); reflexivity. }
    rewrite Hop.
    destruct (try_transmit (idel s) c) eqn:Et.
    + destruct cap; cbn [fst snd tx_f tx_v]; intros Hi'.
      * eexists. apply jstep_close; [| exact Hi' |].
        -- cbn [interest is_inflight bz Nz Z.of_N andb negb zb idel latest]. rewrite E1, !Z.eqb_refl. reflexivity.
        -- assert (Hns : jstop j = false)
             by (rewrite E5; destruct (idel s); cbn in Et |- *; try discriminate; reflexivity).
           unfold irel. cbn. rewrite E1, E2, E3, E4. change ((1 =? 1)%Z) with true. cbn iota.
           repeat split; auto.
           intros v p t0 H. inversion H; subst. reflexivity.
      * eexists. apply jstep_close; [| exact Hi' |].
        -- cbn [andb negb idel]. destruct (idel s); cbn in Et |- *; try discriminate; reflexivity.
        -- unfold irel. cbn. rewrite E1, E2, E3, E4. repeat split; auto.
    + cbn [fst snd tx_f tx_v]. intros Hi'. eexists. apply jstep_close; [| exact Hi' |].
      * cbn. reflexivity.
      * unfold irel. cbn. rewrite E1, E2, E3, E4. repeat split; auto.
  - (* ack *)
    destruct (idel s) eqn:E;
      try (destruct (hit (jout j) lo hi); cbn [fst snd tx_f tx_v no_tx]; intros Hi';
           eexists; (apply jstep_close; [reflexivity | exact Hi' |]);
           unfold irel; cbn [jl ja jth jpn jstop jint jinf jout]; rewrite ?E7, E; cbn [is_inflight bz zb Z.eqb];
           repeat split; auto; try (rewrite E5; reflexivity); try (rewrite E6; reflexivity);
           intros; congruence).
    rewrite (hit_inflight j s v pn ts lo hi Hr E).
    destruct (in_range pn lo hi) eqn:Eh; cbn [fst snd tx_f tx_v no_tx]; intros Hi'.
    + eexists. apply jstep_close; [reflexivity | exact Hi' |].
      unfold irel; cbn [jl ja jth jpn jstop jint jinf jout latest ackd thr ipn idel].
      rewrite E7, (E8 v pn ts eq_refl). cbn [is_inflight bz zb interest is_cancelled].
      destruct Hi as (_ & _ & Hd). rewrite E in Hd.
      repeat split; auto; try lia.
      * unfold zb. change ((1 =? 1)%Z) with true. cbn iota. rewrite E2. lia.
      * intros; discriminate.
    + eexists. apply jstep_close; [reflexivity | exact Hi' |].
      unfold irel; cbn [jl ja jth jpn jstop jint jinf jout]. rewrite E.
      repeat split; auto; try (rewrite E5; reflexivity).
      all: try (intros v0 p0 t0 H; rewrite <- E in H; exact (E8 v0 p0 t0 H)).
  - (* loss *)
    destruct (idel s) eqn:E;
      try (destruct (hit (jout j) lo hi); cbn [fst snd tx_f tx_v no_tx]; intros Hi';
           eexists; (apply jstep_close; [ rewrite ?E7; cbn; reflexivity | exact Hi' |]);
           unfold irel; cbn [jl ja jth jpn jstop jint jinf jout]; rewrite E; cbn [is_inflight bz zb Z.eqb];
           repeat split; auto; try (rewrite E5; reflexivity); try (rewrite E6; reflexivity);
           intros; congruence).
    rewrite (hit_inflight j s v pn ts lo hi Hr E).
    destruct (in_range pn lo hi) eqn:Eh; cbn [fst snd tx_f tx_v no_tx]; intros Hi'.
    + eexists. apply jstep_close; [ | exact Hi' |].
      * cbn. destruct (zb (jinf j) && negb (jstop j)); reflexivity.
      * unfold irel; cbn [jl ja jth jpn jstop jint jinf jout latest ackd thr ipn idel].
        repeat split; auto; try (rewrite E5; reflexivity).
        intros; discriminate.
    + eexists. apply jstep_close; [reflexivity | exact Hi' |].
      unfold irel; cbn [jl ja jth jpn jstop jint jinf jout]. rewrite E.
      repeat split; auto; try (rewrite E5; reflexivity).
      all: try (intros v0 p0 t0 H; rewrite <- E in H; exact (E8 v0 p0 t0 H)).
  - (* stop *)
    cbn [fst snd tx_f tx_v no_tx]. intros Hi'.
    eexists. apply jstep_close; [reflexivity | exact Hi' |].
    unfold irel; cbn [jl ja jth jpn jstop jint jinf jout latest ackd thr ipn idel].
    repeat split; auto; destruct (idel s); cbn; try reflexivity; intros; discriminate.
  - cbn [fst snd tx_f tx_v no_tx]. intros Hi'. eexists. apply jstep_close; [reflexivity | exact Hi' | unfold irel; cbn; tauto].
  - cbn [fst snd tx_f tx_v no_tx]. intros Hi'. eexists. apply jstep_close; [reflexivity | exact Hi' | unfold irel; cbn; tauto].
  - cbn [fst snd tx_f tx_v no_tx]. intros Hi'. eexists. apply jstep_close; [reflexivity | exact Hi' | unfold irel; cbn; tauto].
  - cbn [fst snd tx_f tx_v no_tx]. intros Hi'. eexists. apply jstep_close; [reflexivity | exact Hi' | unfold irel; cbn; tauto].
  - cbn [fst snd tx_f tx_v no_tx]. intros Hi'. eexists. apply jstep_close; [reflexivity | exact Hi' | unfold irel; cbn; tauto].
Qed.

Lemma ivs_judge_ops_ok : forall ops j s, iinv s -> irel j s ->
  ivs_judge_ops j ops (ivs_run_ops s ops) = true.
Proof.
  induction ops as [|o ops IH]; intros j s Hi Hr; [reflexivity|].
  cbn [ivs_run_ops].
  destruct (ivs_jstep_ok j s o Hi Hr) as (j' & Hj & Hr').
  pose proof (ivs_step_inv s o Hi) as Hi'. unfold ivs_next in Hi'.
  destruct (ivs_step s o) as [s' r]. cbn [fst snd] in *.
  rewrite tx_ints_eq. unfold ivs_obs. cbn [app ivs_judge_ops].
  rewrite Hj. apply IH; assumption.
Qed.

Lemma arg_le : forall cap i l, arg cap i l <= cap.
Proof. intros. unfold arg, argN. lia. Qed.

Theorem ivs_judge_run : forall l, ivs_judge l (ivs_run l) = true.
Proof.
  intros l. unfold ivs_judge, ivs_run, ivs_init.
  set (a := arg varint_max 0 l). set (d := arg varint_max 1 l). set (t := arg varint_max 2 l).
  assert (Ha : a <= varint_max) by apply arg_le.
  destruct (cap_add_ge a d Ha) as [H1 H2].
  pose proof (ivs_new_inv (cap_add a d) a t H1 H2) as Hi.
  set (s := ivs_new (cap_add a d) a t) in *.
  assert (Hs : latest s = cap_add a d /\ ackd s = a /\ thr s = t /\ ipn s = 0 /\
               is_cancelled (idel s) = false /\ is_inflight (idel s) = false).
  { unfold s, ivs_new, request_if. destruct (should_send _); cbn; repeat split; reflexivity. }
  destruct Hs as (L1 & L2 & L3 & L4 & L5 & L6).
  unfold ivs_obs. cbn [app].
  set (j := mkIj (cap_add a d) a t None 0 false (Nz (interest (idel s))) (bz (is_inflight (idel s)))).
  assert (Hr : irel j s).
  { unfold irel, j; cbn. rewrite L1, L2, L3, L4, L5. repeat split; auto.
    intros v p t0 H. rewrite H in L6. discriminate. }
  rewrite (ivs_always_ok j s Hi Hr). rewrite L6 at 1. cbn [bz andb].
  change ((0 =? 0)%Z) with true. cbn [andb].
  apply ivs_judge_ops_ok; assumption.
Qed.

(* ------------------------------------------------------------------ OnceSync *)

Definition osy_next (s : osy) (o : op) : osy := fst (fst (osy_step s o)).
Definition osy_reach (ops : list op) : osy := fold_left osy_next ops osy_init.

(* whether a delivery has been requested and not stopped since, as the operations determine it *)
Inductive gph := GIdle | GLive | GStopped.
Definition gstep (g : gph) (o : op) : gph :=
  match o with
  | ORequest _ => match g with GIdle => GLive | x => x end   (* request_delivery after stop_sync has no effect *)
  | OForce _ => GLive
  | OStop => GStopped
  | _ => g
  end.
Definition ghost (ops : list op) : gph := fold_left gstep ops GIdle.

Definition delivered (d : delivery) : Prop := exists v, d = Delivered v.

Definition ginv (g : gph) (d : delivery) : Prop :=
  match g with
  | GIdle => d = NotRequested
  | GLive => match d with Requested _ | Lost _ | InFlight _ _ _ | Delivered _ => True | _ => False end
  | GStopped => is_cancelled d = true
  end.

Lemma osy_ginv_step : forall g s o, ginv g (odel s) -> ginv (gstep g o) (odel (osy_next s o)).
Proof.
  intros g [d n] o H. unfold osy_next. cbn [odel] in *.
  destruct o; cbn [osy_step fst odel gstep]; try exact H.
  - destruct (try_transmit d c) eqn:Et.
    + destruct d; cbn in Et; try discriminate; destruct cap; cbn; destruct g; cbn in *; auto; discriminate.
    + cbn. exact H.
  - destruct d; cbn; try exact H. destruct (in_range pn lo hi); cbn; [|exact H].
    destruct g; cbn in *; auto; discriminate.
  - destruct d; cbn; try exact H. destruct (in_range pn lo hi); cbn; [|exact H].
    destruct g; cbn in *; auto; discriminate.
  - destruct d; reflexivity.
  - destruct g, d; cbn in *; auto; try discriminate; try contradiction.
  - reflexivity.
Qed.

Lemma osy_ginv_reach : forall ops, ginv (ghost ops) (odel (osy_reach ops)).
Proof.
  induction ops as [|o ops IH] using rev_ind; [reflexivity|].
  unfold ghost, osy_reach in *. rewrite !fold_left_app1. apply osy_ginv_step. exact IH.
Qed.

(* A requested delivery is never forgotten: in every history in which a delivery was requested
   (or forced) and not stopped since, the value has been delivered, is in flight, or the component
   reports transmission interest. *)
Theorem oncesync_never_forgotten : forall ops,
  ghost ops = GLive ->
  delivered (odel (osy_reach ops)) \/ in_flight (odel (osy_reach ops)) \/ wants_transmit (odel (osy_reach ops)).
Proof.
  intros ops H. pose proof (osy_ginv_reach ops) as G. rewrite H in G. cbn in G.
  destruct (odel (osy_reach ops)); try contradiction.
  - right; right. exists v; auto.
  - right; right. exists v; auto.
  - right; left. exists v, pn, ts; reflexivity.
  - left. exists v; reflexivity.
Qed.

(* after the loss of the packet in flight the same value is requested again *)
Theorem oncesync_loss_rerequests : forall s v p t lo hi,
  odel s = InFlight v p t -> in_range p lo hi = true ->
  odel (osy_next s (OLoss lo hi)) = Lost v.
Proof. intros s v p t lo hi E H. unfold osy_next. cbn. rewrite E, H. reflexivity. Qed.

Definition orel (j : oj) (s : osy) : Prop :=
  match jph j, odel s with
  | PIdle, NotRequested => True
  | PPending v, Requested v' | PPending v, Lost v' | PPending v, InFlight v' _ _ => v = v'
  | PDone, Delivered _ => True
  | PStopped, Cancelled _ => True
  | _, _ => False
  end /\
  ojpn j = opn s /\ oint j = Nz (interest (odel s)) /\ oinf j = bz (is_inflight (odel s)) /\
  (forall v p t, odel s = InFlight v p t -> oout j = Some (p, 0)).

Ltac rw_bools :=
  repeat match goal with
  | H : ?x = true |- context[?x] => rewrite H
  | H : ?x = false |- context[?x] => rewrite H
  end.
Ltac ofin :=
  unfold orel; cbn; rw_bools; cbn; repeat split; auto;
  try (let H := fresh in intros ? ? ? H; inversion H; subst; reflexivity);
  try (intros; discriminate).

Lemma hit_some : forall p x lo hi, hit (Some (p, x)) lo hi = in_range p lo hi.
Proof. reflexivity. Qed.

Local Arguments hit : simpl never.
Local Arguments in_range : simpl never.
Local Arguments can_transmit : simpl never.
Local Arguments can_retransmit : simpl never.

Ltac split_bools :=
  repeat match goal with
  | |- context[in_range ?a ?b ?c] => destruct (in_range a b c) eqn:?
  | |- context[hit ?a ?b ?c] => destruct (hit a b c) eqn:?
  | |- context[can_transmit ?c] => destruct (can_transmit c) eqn:?
  | |- context[can_retransmit ?c] => destruct (can_retransmit c) eqn:?
  end.

Lemma osy_jstep_ok : forall j s o, orel j s ->
  let s' := fst (fst (osy_step s o)) in
  let r := snd (fst (osy_step s o)) in
  let rdy := snd (osy_step s o) in
  exists j',
    osy_jstep j o (tx_f r) (tx_v r) (Nz (snd r)) (Nz (interest (odel s'))) (bz (is_inflight (odel s')))
              (bz (is_cancelled (odel s'))) (bz rdy) = Some j' /\ orel j' s'.
Proof.
  intros [ph out pn int inf] [d n] o (Hph & Hpn & Hint & Hinf & Hout).
  cbn [jph oout ojpn oint oinf odel opn] in *. subst pn int inf. cbv zeta.
  destruct o; destruct d as [|dv|dv|dv dp dts|dv|od]; destruct ph; try contradiction;
    try rewrite (Hout _ _ _ eq_refl) in *; try subst;
    try match goal with |- context[OTransmit _ ?cap _] => destruct cap end;
    unfold osy_jstep, osy_always; cbn; rewrite ?hit_some;
    split_bools; cbn; rewrite ?Z.eqb_refl;
    (eexists; split; [reflexivity | ofin]).
Qed.

Lemma osy_judge_ops_ok : forall ops j s, orel j s ->
  osy_judge_ops j ops (osy_run_ops s ops) = true.
Proof.
  induction ops as [|o ops IH]; intros j s Hr; [reflexivity|].
  cbn [osy_run_ops].
  destruct (osy_jstep_ok j s o Hr) as (j' & Hj & Hr').
  destruct (osy_step s o) as [[s' r] rdy]. cbn [fst snd] in *.
  rewrite tx_ints_eq. unfold osy_obs. cbn [app osy_judge_ops].
  rewrite Hj. apply IH; assumption.
Qed.

Theorem osy_judge_run : forall l, osy_judge l (osy_run l) = true.
Proof.
  intros l. unfold osy_judge, osy_run, osy_obs. cbn [app osy_init odel interest is_inflight is_cancelled bz Nz Z.of_N].
  assert (Hr : orel (mkOj PIdle None 0 0%Z 0%Z) osy_init).
  { unfold orel; cbn. repeat split; auto. intros; discriminate. }
  change (osy_always (mkOj PIdle None 0 0%Z 0%Z) 0%Z 0%Z 0%Z) with true. cbn [andb].
  apply osy_judge_ops_ok. exact Hr.
Qed.

(* ------------------------------------------------------------------ PeriodicSync *)

Definition psy_next (s : psy) (o : op) : psy := fst (psy_step s o).
Definition psy_reach (ops : list op) : psy := fold_left psy_next ops psy_init.

(* request_delivery was called since the start / since the last stop_sync *)
Definition pgstep (g : bool) (o : op) : bool :=
  match o with OUpdate _ => true | OStop => false | _ => g end.
Definition pghost (ops : list op) : bool := fold_left pgstep ops false.

Definition timer_armed (s : psy) : Prop := exists e, ptimer s = Some e.

Definition pinv (g : bool) (s : psy) : Prop :=
  match pdel s with
  | NotRequested => ptimer s <> None \/ g = false
  | Delivered _ => ptimer s <> None
  | Cancelled _ => g = false /\ ptimer s = None
  | _ => True
  end.

Local Arguments tsn : simpl never.
Local Arguments double16 : simpl never.
Local Arguments granularity : simpl never.
Local Arguments cap_add : simpl never.

Ltac split_bools2 :=
  repeat match goal with
  | |- context[in_range ?a ?b ?c] => destruct (in_range a b c) eqn:?
  | |- context[hit ?a ?b ?c] => destruct (hit a b c) eqn:?
  | |- context[can_transmit ?c] => destruct (can_transmit c) eqn:?
  | |- context[can_retransmit ?c] => destruct (can_retransmit c) eqn:?
  | |- context[N.ltb ?a ?b] => destruct (N.ltb a b) eqn:?
  end.

Lemma psy_pinv_step : forall g s o, pinv g s -> pinv (pgstep g o) (psy_next s o).
Proof.
  intros g [l per tm d dlv bo n] o H. unfold pinv, psy_next in *. cbn [pdel ptimer] in *.
  destruct o; destruct d; destruct tm; destruct g;
    try match goal with |- context[OTransmit _ ?cap _] => destruct cap end;
    cbn in *; split_bools2; cbn in *; try tauto; try (left; discriminate); try discriminate;
    try (intuition congruence).
Qed.

Lemma psy_pinv_reach : forall ops, pinv (pghost ops) (psy_reach ops).
Proof.
  induction ops as [|o ops IH] using rev_ind.
  - cbn. right. reflexivity.
  - unfold pghost, psy_reach in *. rewrite !fold_left_app1. apply psy_pinv_step. exact IH.
Qed.

(* A periodic sync with a pending delivery (requested since the last stop) is in flight, or asks
   for a transmission, or its delivery timer is armed. *)
Theorem periodicsync_never_forgotten : forall ops,
  pghost ops = true ->
  in_flight (pdel (psy_reach ops)) \/ wants_transmit (pdel (psy_reach ops)) \/ timer_armed (psy_reach ops).
Proof.
  intros ops H. pose proof (psy_pinv_reach ops) as G. rewrite H in G. unfold pinv in G.
  unfold timer_armed.
  destruct (pdel (psy_reach ops)).
  - right; right. destruct (ptimer (psy_reach ops)) as [e|]; [exists e; reflexivity|].
    destruct G as [G|G]; [congruence|discriminate].
  - right; left. exists v; auto.
  - right; left. exists v; auto.
  - left. exists v, pn, ts; reflexivity.
  - right; right. destruct (ptimer (psy_reach ops)) as [e|]; [exists e; reflexivity|congruence].
  - destruct G; discriminate.
Qed.

(* the armed timer leads to progress: once it has expired, on_timeout requests the latest value *)
Theorem periodicsync_timeout_requests : forall s e t,
  ptimer s = Some e -> e < tsn t + granularity ->
  pdel (psy_next s (OTimeout t)) = Requested (platest s) /\ ptimer (psy_next s (OTimeout t)) = None.
Proof.
  intros s e t E H. unfold psy_next. cbn [psy_step]. unfold expired. rewrite E.
  apply N.ltb_lt in H. rewrite H. cbn. auto.
Qed.

Theorem periodicsync_loss_rerequests : forall s v p t lo hi,
  pdel s = InFlight v p t -> in_range p lo hi = true ->
  pdel (psy_next s (OLoss lo hi)) = Lost v.
Proof. intros s v p t lo hi E H. unfold psy_next. cbn. rewrite E, H. reflexivity. Qed.

Definition prel (j : pj) (s : psy) : Prop :=
  pjl j = platest s /\ pjpn j = ppn s /\ pjint j = Nz (interest (pdel s)) /\
  pjarm j = bz (match ptimer s with Some _ => true | None => false end) /\
  pjexp j = Nz (match ptimer s with Some e => e | None => 0 end) /\
  pjout j = match pdel s with InFlight _ p _ => Some (p, 0) | _ => None end /\
  pinv (pjact j) s.

Lemma hit_none : forall lo hi, hit None lo hi = false.
Proof. reflexivity. Qed.

Lemma Nz_ltb : forall a b, (Nz a <? Nz b)%Z = (a <? b).
Proof.
  intros. unfold Nz. destruct (Z.ltb_spec (Z.of_N a) (Z.of_N b)), (N.ltb_spec a b); try reflexivity; lia.
Qed.

Ltac pfin :=
  unfold prel, pinv; cbn; rw_bools; cbn; repeat split; auto; try congruence;
  try (left; discriminate); try (right; reflexivity); try tauto;
  try (unfold arm; discriminate).

Lemma psy_jstep_ok : forall j s o, prel j s ->
  let s' := fst (psy_step s o) in
  let r := snd (psy_step s o) in
  exists j',
    psy_jstep j o (tx_f r) (tx_v r) (Nz (snd r)) (Nz (interest (pdel s')))
              (bz (match ptimer s' with Some _ => true | None => false end))
              (Nz (match ptimer s' with Some e => e | None => 0 end))
              (bz (pdelivered s')) = Some j' /\ prel j' s'.
Proof.
  intros [jl act out pn int arm exp] [l per tm d dlv bo n] o (H1 & H2 & H3 & H4 & H5 & H6 & H7).
  cbn [pjl pjact pjout pjpn pjint pjarm pjexp platest pperiod ptimer pdel pdelivered pbackoff ppn] in *.
  subst jl pn int arm exp out. cbv zeta. unfold pinv in H7. cbn [pdel ptimer] in H7.
  destruct o; destruct d as [|dv|dv|dv dp dts|dv|od]; destruct tm as [e|]; destruct act;
    try (exfalso; intuition congruence);
    try match goal with |- context[OTransmit _ ?cap _] => destruct cap end;
    unfold psy_jstep, psy_always; cbn; rewrite ?hit_some, ?hit_none, ?Nz_ltb;
    split_bools2; cbn; rewrite ?Z.eqb_refl;
    (eexists; split; [reflexivity | pfin]).
Qed.

Lemma psy_judge_ops_ok : forall ops j s, prel j s ->
  psy_judge_ops j ops (psy_run_ops s ops) = true.
Proof.
  induction ops as [|o ops IH]; intros j s Hr; [reflexivity|].
  cbn [psy_run_ops].
  destruct (psy_jstep_ok j s o Hr) as (j' & Hj & Hr').
  destruct (psy_step s o) as [s' r]. cbn [fst snd] in *.
  rewrite tx_ints_eq. unfold psy_obs. cbn [app psy_judge_ops].
  rewrite Hj. apply IH; assumption.
Qed.

Theorem psy_judge_run : forall l, psy_judge l (psy_run l) = true.
Proof.
  intros l. unfold psy_judge, psy_run, psy_obs.
  cbn [app psy_init pdel ptimer pdelivered interest bz Nz Z.of_N].
  assert (Hr : prel (mkPj 0 false None 0 0%Z 0%Z 0%Z) psy_init).
  { unfold prel, pinv; cbn. repeat split; auto. }
  change (psy_always (mkPj 0 false None 0 0%Z 0%Z 0%Z) 0%Z 0%Z) with true. cbn [andb].
  apply psy_judge_ops_ok. exact Hr.
Qed.
