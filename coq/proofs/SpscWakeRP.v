(* One of the four preservation lemmas of proofs/SpscWakeInv.v (separate files so that they compile in parallel). *)
From SQ Require Import lib.Base lib.ListX gen.Gen_C17.
From SQ Require Import model.Spsc proofs.SpscClose proofs.SpscEnum proofs.SpscWake proofs.SpscWakeInv.
Local Open Scope N_scope.

Lemma winv_r_pstep : forall cap s, cinv s = true -> winv_r s = true -> winv_r (pstep false cap s) = true.
Proof.
  intros cap s HC H. rewrite cinv_is in HC. dst s. destruct xrw as [rr rk rs].
  unfold winv_r, pstep in *. st_cbn.
  revert H. apply implb_elim. revert HC. apply implb_elim.
  destruct_pc xppc; wake_case.
Qed.
