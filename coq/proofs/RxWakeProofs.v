(* Proofs about model/RxWake.v: a parked reader is woken as soon as its watermark is buffered, the
   flow-control watermark is reached, or FIN / reset arrives. *)
From SQ Require Import lib.Base model.RxWake.
Local Open Scope N_scope.

Definition reach (w : N) (ops : list rop) : rx := fold_left rx_step ops (rx_init w).

Lemma half_le : forall w, w / 2 <= w.
Proof. intros. apply N.div_le_upper_bound; lia. Qed.

(* structural invariant *)
Definition sinv (s : rx) : Prop :=
  1 <= rw s /\ cons s <= sent s /\ sent s <= cons s + rw s /\
  (ended s = 0 \/ ended s = 1 \/ ended s = 2) /\
  (rst s = 0 \/ rst s = 1 \/ rst s = 2) /\
  (rst s = 2 <-> ended s = 2) /\
  (rst s = 1 -> ended s = 1 /\ cons s = sent s) /\
  (ended s = 1 -> rst s = 0 -> cons s < sent s).

(* a stored waiter means: Receiving, not reset, and the buffer is below the wake threshold *)
Definition winv (s : rx) : Prop :=
  forall L, waiter s = Some L ->
    rst s = 0 /\ ended s <> 2 /\ blen s < N.max 1 (N.min L (fc_watermark s)).

Ltac bool_hyps :=
  repeat match goal with
  | H : (_ && _) = true |- _ => apply andb_true_iff in H; destruct H
  | H : (_ || _) = false |- _ => apply orb_false_iff in H; destruct H
  | H : (_ =? _) = true |- _ => apply N.eqb_eq in H
  | H : (_ =? _) = false |- _ => apply N.eqb_neq in H
  | H : (_ <? _) = true |- _ => apply N.ltb_lt in H
  | H : (_ <? _) = false |- _ => apply N.ltb_ge in H
  | H : (_ <=? _) = true |- _ => apply N.leb_le in H
  | H : (_ <=? _) = false |- _ => apply N.leb_gt in H
  | H : negb _ = true |- _ => apply negb_true_iff in H
  | H : negb _ = false |- _ => apply negb_false_iff in H
  end.

Lemma inv_init : forall w, 1 <= w -> sinv (rx_init w) /\ winv (rx_init w).
Proof.
  intros w H. split.
  - unfold sinv; cbn. repeat split; auto; try lia; try discriminate; intros; try lia; discriminate.
  - intros L HL. discriminate.
Qed.

Lemma inv_step : forall s o, sinv s -> winv s -> sinv (rx_step s o) /\ winv (rx_step s o).
Proof.
  intros [w sn cn en rs wt wk] o S W. unfold sinv, winv, blen, fc_watermark in *. cbn in S, W.
  destruct S as (S1 & S2 & S3 & S4 & S5 & S6 & S7 & S8).
  pose proof (half_le w) as Hh.
  destruct o as [n fin|l h|]; cbn [rx_step].
  - (* data *)
    unfold rx_data, room, fc_watermark. cbn [rw sent cons ended rst waiter wakes].
    destruct ((en =? 0) && ((0 <? N.min n (cn + w - sn)) || fin)) eqn:E; [|cbn; tauto].
    apply andb_true_iff in E. destruct E as [E0 E1]. apply N.eqb_eq in E0. subst en.
    assert (R0 : rs = 0) by (destruct S5 as [?|[R|R]]; auto; [destruct (S7 R); lia|destruct S6 as [S6 _]; specialize (S6 R); lia]).
    subst rs.
    set (n' := N.min n (cn + w - sn)) in *.
    assert (Hn : sn + n' <= cn + w) by lia.
    destruct fin.
    + (* FIN: always wakes *)
      rewrite orb_true_r. unfold wake. cbn [rw sent cons ended rst waiter wakes andb].
      destruct (N.eqb_spec cn (sn + n')) as [Ec|Ec];
        destruct wt; cbn; (split; [repeat split; auto; try lia; try (intros; lia); try (intros; discriminate)
                                  | intros L HL; try discriminate]).
      all: try (exfalso; lia).
      all: try (intros Hx; destruct Hx; lia).
      all: try (destruct (W L HL) as (_ & _ & Hb); split; [reflexivity|split; [discriminate|]]; cbn; lia).
    + rewrite orb_false_r. cbn [andb].
      destruct wt as [l0|].
      * destruct (W l0 eq_refl) as (_ & _ & Hb).
        destruct ((1 <=? sn + n' - cn) && (N.min l0 (w / 2) <=? sn + n' - cn)) eqn:C.
        -- unfold wake; cbn. split; [repeat split; auto; try lia; intros; try lia; try discriminate|intros L HL; discriminate].
           all: try (destruct H; lia).
        -- cbn. split; [repeat split; auto; try lia; intros; try lia; try discriminate|].
           all: try (destruct H; lia).
           intros L HL. inversion HL; subst. repeat split; auto; try discriminate.
           apply andb_false_iff in C. destruct C as [C|C]; apply N.leb_gt in C; cbn; lia.
      * cbn. split; [repeat split; auto; try lia; intros; try lia; try discriminate|intros L HL; discriminate].
        all: try (destruct H; lia).
  - (* read *)
    unfold rx_read, blen, fc_watermark. cbn [rw sent cons ended rst waiter wakes].
    destruct (N.eqb_spec rs 2) as [R2|R2]; [cbn; split; [tauto|intros L HL; discriminate]|].
    destruct (N.eqb_spec rs 1) as [R1|R1]; [cbn; split; [tauto|intros L HL; discriminate]|].
    assert (R0 : rs = 0) by lia. subst rs.
    assert (E2 : en <> 2) by (intros E; apply S6 in E; lia).
    cbn [fst].
    set (high := N.max h 1). set (low := N.min l high).
    set (ok := N.min (w / 2) low <=? sn - cn).
    set (take := if ok then N.min high (sn - cn) else 0).
    assert (Ht : take <= sn - cn) by (unfold take; destruct ok; lia).
    set (park := negb ok || (take =? 0)).
    set (done := (en =? 1) && (cn + take =? sn)).
    assert (Hdp : done = true -> park = true -> False).
    { intros Hd Hp. unfold done in Hd. apply andb_true_iff in Hd. destruct Hd as [Hd1 Hd2].
      apply N.eqb_eq in Hd1. apply N.eqb_eq in Hd2.
      assert (cn < sn) by (apply S8; auto).
      unfold park in Hp. apply orb_true_iff in Hp. destruct Hp as [Hp|Hp].
      - apply negb_true_iff in Hp. unfold take in *. rewrite Hp in *. lia.
      - apply N.eqb_eq in Hp. lia. }
    cbn [rw sent cons ended rst waiter wakes].
    split.
    + assert (Hd : done = true -> en = 1 /\ cn + take = sn).
      { unfold done. intros Hx. apply andb_true_iff in Hx. destruct Hx as [A B].
        apply N.eqb_eq in A. apply N.eqb_eq in B. auto. }
      assert (Hnd : done = false -> en <> 1 \/ cn + take <> sn).
      { unfold done. intros Hx. apply andb_false_iff in Hx. destruct Hx as [A|A]; apply N.eqb_neq in A; auto. }
      destruct done; [destruct (Hd eq_refl)|pose proof (Hnd eq_refl)];
        repeat split; intros; try lia.
    + intros L HL. destruct park eqn:P.
      * inversion HL; subst L. destruct done eqn:D; [exfalso; auto|].
        split; [reflexivity|]. split; [exact E2|]. cbn [sent cons rw].
        unfold park, take in *. destruct ok eqn:O; unfold ok in O.
        -- cbn [negb orb] in P. apply N.eqb_eq in P. apply N.leb_le in O.
           assert (sn - cn = 0) by (unfold high in P; lia). lia.
        -- apply N.leb_gt in O. lia.
      * destruct done eqn:D; [discriminate|].
        destruct (W L HL) as (_ & _ & Hb). split; [reflexivity|]. split; [exact E2|].
        cbn [sent cons rw]. lia.
  - (* reset *)
    unfold rx_reset. cbn [rw sent cons ended rst waiter wakes].
    destruct (N.eqb_spec en 0) as [E|E]; [|cbn; tauto].
    unfold wake. cbn [rw sent cons ended rst waiter wakes].
    destruct wt; cbn; (split; [repeat split; auto; try lia; intros; try lia; try discriminate
                              |intros L HL; discriminate]).
Qed.

Lemma inv_reach : forall w ops, 1 <= w -> sinv (reach w ops) /\ winv (reach w ops).
Proof.
  intros w ops H. unfold reach. induction ops as [|o ops IH] using rev_ind.
  - apply inv_init; auto.
  - rewrite fold_left_app. cbn. destruct IH. apply inv_step; auto.
Qed.

Lemma rw_reach : forall w ops, rw (reach w ops) = w.
Proof.
  intros w ops. unfold reach. induction ops as [|o ops IH] using rev_ind; [reflexivity|].
  rewrite fold_left_app. cbn. set (s := fold_left rx_step ops (rx_init w)) in *.
  destruct o; cbn [rx_step].
  - unfold rx_data. destruct (_ && _); [|exact IH]. destruct (_ || _); unfold wake; cbn; [destruct (waiter s)|]; cbn; exact IH.
  - unfold rx_read. destruct (rst s =? 2); [exact IH|]. destruct (rst s =? 1); exact IH.
  - unfold rx_reset. destruct (ended s =? 0); [|exact IH]. unfold wake; cbn. destruct (waiter s); exact IH.
Qed.

(* reader_woken: in every reachable state, a stored waiter (parked reader, no wake delivered yet)
   implies: the stream is still Receiving, no reset has arrived, fewer bytes are buffered than
   min(the reader's remaining low watermark, the flow-control watermark w/2) (at least one byte
   always suffices when that minimum is 0) -- and therefore the flow-control window still admits
   more data: there is no state with a parked reader and a peer blocked on the stream window. *)
Theorem reader_woken : forall w ops L,
  1 <= w -> waiter (reach w ops) = Some L ->
  let s := reach w ops in
  rst s = 0 /\ ended s <> 2 /\
  blen s < N.max 1 (N.min L (w / 2)) /\
  sent s < cons s + w.
Proof.
  intros w ops L Hw HL. cbv zeta.
  destruct (inv_reach w ops Hw) as [S W]. destruct (W L HL) as (R & E & B).
  unfold fc_watermark in B. rewrite rw_reach in B.
  repeat split; auto. unfold blen in B. pose proof (half_le w).
  destruct S as (_ & S2 & _). lia.
Qed.

(* FIN (in-order, so the stream is complete) and reset wake the reader at once *)
Theorem reader_woken_by_fin_or_reset : forall s n,
  ended s = 0 ->
  waiter (rx_data s n true) = None /\ waiter (rx_reset s) = None.
Proof.
  intros s n E. unfold rx_data, rx_reset, wake. rewrite E. cbn [N.eqb andb].
  change (0 =? 0) with true. cbn [andb]. rewrite !orb_true_r. cbn.
  destruct (waiter s); cbn; auto.
Qed.

(* "as soon as": the data frame that makes the buffer reach the threshold wakes the reader *)
Theorem reader_woken_at_threshold : forall s n L,
  ended s = 0 -> waiter s = Some L -> 0 < N.min n (room s) ->
  let len := sent s + N.min n (room s) - cons s in
  1 <= len -> N.min L (fc_watermark s) <= len ->
  waiter (rx_data s n false) = None /\ wakes (rx_data s n false) = wakes s + 1.
Proof.
  intros s n L E HL Hn len H1 H2. unfold rx_data. rewrite E, HL.
  change (0 =? 0) with true. cbn [andb].
  apply N.ltb_lt in Hn. rewrite Hn. cbn [orb].
  apply N.leb_le in H1. apply N.leb_le in H2. fold len. rewrite H1, H2. cbn [andb orb].
  unfold wake. cbn. auto.
Qed.

(* The full statement "a parked reader is never left without a wake once no more data can arrive" is
   FALSE of the faithful model (and of the implementation, same case): a request polled after the FIN
   has been fully received, with a low watermark above what remains, is parked for good. *)
Lemma reader_parked_on_finished_stream_refuted :
  let s := reach 100 [RData 10 true; RRead 20 20] in
  waiter s = Some 20 /\ ended s = 1 /\ blen s = 10 /\
  judge [100; 2; 10; 1; 20; 20]%Z (run [100; 2; 10; 1; 20; 20]%Z) = false.
Proof. vm_compute. repeat split; reflexivity. Qed.
