(* Proofs about model/RxWake.v (with out-of-order delivery): the wake rules of the receive stream,
   step by step.  The history-level invariant proved for the in-order model has not been re-proved
   for this extended model. *)
From SQ Require Import lib.Base model.RxWake.
Local Open Scope N_scope.

Definition reach (w : N) (ops : list rop) : rx := fold_left rx_step ops (rx_init w).

Lemma complete_wake : forall s, complete (wake s) = complete s.
Proof. intros s. unfold wake. destruct (waiter s); reflexivity. Qed.

Lemma waiter_wake : forall s, waiter (wake s) = None.
Proof. intros s. unfold wake. destruct (waiter s) eqn:E; [reflexivity|exact E]. Qed.

(* the shape of an effective frame step: a candidate state, woken iff crossed or complete *)
Lemma frame_shape : forall (b : bool) (s1 s : rx),
  complete s = false ->
  complete (if b then (if crossed s1 || complete s1 then wake s1 else s1) else s) = true ->
  waiter (if b then (if crossed s1 || complete s1 then wake s1 else s1) else s) = None.
Proof.
  intros b s1 s H0 H1. destruct b; [|congruence].
  destruct (crossed s1 || complete s1) eqn:E.
  - apply waiter_wake.
  - apply orb_false_iff in E. destruct E as [_ E]. congruence.
Qed.

(* whichever frame completes the stream (the FIN frame, or the gap filler arriving after the FIN) wakes
   the reader, however large its low watermark *)
Theorem reader_woken_when_complete : forall s n fin,
  complete s = false -> complete (rx_data s n fin) = true -> waiter (rx_data s n fin) = None.
Proof. intros s n fin. unfold rx_data. apply frame_shape. Qed.

Theorem reader_woken_when_complete_ooo : forall s g n fin,
  complete s = false -> complete (rx_ooo s g n fin) = true -> waiter (rx_ooo s g n fin) = None.
Proof. intros s g n fin. unfold rx_ooo. apply frame_shape. Qed.

(* a reset wakes the reader at once *)
Theorem reader_woken_by_reset : forall s, ended s = 0 -> waiter (rx_reset s) = None.
Proof. intros s E. unfold rx_reset. rewrite E. change (0 =? 0) with true. cbn iota. apply waiter_wake. Qed.

Lemma threshold_shape : forall (b : bool) (s1 s : rx) L,
  waiter s1 = Some L ->
  (if b then (if crossed s1 || complete s1 then wake s1 else s1) else s) <> s ->
  let s' := (if b then (if crossed s1 || complete s1 then wake s1 else s1) else s) in
  1 <= blen s' -> N.min L (fc_watermark s') <= blen s' -> waiter s' = None.
Proof.
  intros b s1 s L HL Hne. cbv zeta. destruct b; [|congruence].
  destruct (crossed s1 || complete s1) eqn:E; [intros; apply waiter_wake|].
  intros H1 H2. exfalso. apply orb_false_iff in E. destruct E as [E _].
  unfold crossed in E. rewrite HL in E.
  apply N.leb_le in H1. apply N.leb_le in H2. rewrite H1, H2 in E. discriminate.
Qed.

(* "as soon as": any effective data frame after which the contiguous buffer holds at least one byte
   and at least min(the parked reader's low watermark, the flow-control watermark) wakes the reader *)
Theorem reader_woken_at_threshold : forall s n fin L,
  waiter s = Some L -> rx_data s n fin <> s ->
  let s' := rx_data s n fin in
  1 <= blen s' -> N.min L (fc_watermark s') <= blen s' ->
  waiter s' = None.
Proof. intros s n fin L HL. unfold rx_data. apply threshold_shape. exact HL. Qed.

(* non-vacuity: parked with low watermark 20; the FIN segment [5,10) arrives first (no wake: 3 bytes
   buffered, gap open), then the gap filler [3,5) completes the stream: woken with 10 bytes buffered *)
Example reader_woken_by_gap_filler :
  let s1 := reach 100 [RData 3 false; RRead 20 20; ROoo 2 5 true] in
  let s2 := reach 100 [RData 3 false; RRead 20 20; ROoo 2 5 true; RData 2 false] in
  waiter s1 = Some 20 /\ wakes s1 = 0 /\ complete s1 = false /\
  waiter s2 = None /\ wakes s2 = 1 /\ complete s2 = true /\ blen s2 = 10.
Proof. vm_compute. repeat split; reflexivity. Qed.

(* The full statement "a parked reader is never left without a wake once no more data can arrive" is
   FALSE of the faithful model (and of the implementation, same case): a request polled after the
   stream has been completely received, with a low watermark above what remains, is parked for good. *)
Lemma reader_parked_on_finished_stream_refuted :
  let s := reach 100 [RData 10 true; RRead 20 20] in
  waiter s = Some 20 /\ ended s = 1 /\ blen s = 10 /\
  judge [100; 2; 10; 1; 20; 20]%Z (run [100; 2; 10; 1; 20; 20]%Z) = false.
Proof. vm_compute. repeat split; reflexivity. Qed.
