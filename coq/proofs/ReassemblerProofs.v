(* Proofs about coq/model/Reassembler.v *)
From SQ Require Import lib.Base gen.Gen_C01 model.Reassembler.
Local Open Scope N_scope.

(* ------------------------------------------------------------------------------------------ *)
(* basics *)

Lemma nlen_acc {A} : forall (l : list A) a, fold_left (fun n _ => N.succ n) l a = a + N.of_nat (length l).
Proof.
  induction l as [|x l IH]; intros a; cbn [fold_left length].
  - cbn. lia.
  - rewrite IH. lia.
Qed.
Lemma nlen_length {A} : forall (l : list A), nlen l = N.of_nat (length l).
Proof. intros l. unfold nlen. rewrite nlen_acc. lia. Qed.

Lemma unknown_gt_varint : varint_max < unknown_final_size.
Proof. reflexivity. Qed.

(* ------------------------------------------------------------------------------------------ *)
(* Part A: rejection and the cursors.  These facts need nothing about the slots. *)

(* a write as the VarInt type and the Reader contract allow it: an announced final offset is a VarInt
   and not below the end of the data *)
Definition wf_wr (w : wr) : Prop :=
  match w_fin w with Some f => w_end w <= f /\ f <= varint_max | None => True end.
Definition wf_op (o : op) : Prop := match o with Write w => wf_wr w | _ => True end.

(* the abstract cursors of a model state *)
Definition cursors_of (st : rstate) (segs : list seg) : spec :=
  {| sp_segs := segs; sp_consumed := start_off st; sp_maxrecv := max_recv st; sp_final := final_size st |}.

Lemma rd_skip_until_end : forall r o, r_off (rd_skip_until r o) + r_len (rd_skip_until r o) = r_off r + r_len r.
Proof.
  intros r o. unfold rd_skip_until. destruct (N.ltb_spec (r_off r) o); [|reflexivity].
  unfold rd_advance; cbn [r_off r_len]. lia.
Qed.

Lemma final_size_some : forall st f, final_size st = Some f -> final_off st = f /\ f <> unknown_final_size.
Proof.
  intros st f. unfold final_size. destruct (N.eqb_spec (final_off st) unknown_final_size); [discriminate|].
  intros H; injection H as <-. auto.
Qed.

(* the model's verdict on a write, in terms of its cursors only *)
Lemma rwrite_code : forall st w st' c, rwrite st w = (st', c) -> wf_wr w ->
  (forall f, final_size st = Some f -> f <= varint_max) ->
  let s := cursors_of st [] in
  (c <> 0%Z <-> exceeds_max (w_end w) || contradicts s (w_end w) (w_fin w) = true)
  /\ (c <> 0%Z -> st' = st)
  /\ (c = 0%Z -> start_off st' = start_off st /\ max_recv st' = N.max (max_recv st) (w_end w)
                 /\ final_size st' = match w_fin w with Some f => Some f | None => final_size st end).
Proof.
  intros st w st' c H Hwf Hfin s. unfold rwrite in H. fold (w_end w) in H.
  unfold exceeds_max.
  destruct (N.ltb_spec varint_max (w_end w)) as [Hx|Hx].
  { injection H as <- <-. cbn [orb]. repeat split; auto; try discriminate. }
  cbn [orb].
  set (r := rd_skip_until _ _) in H.
  assert (Hend : r_off r + r_len r = w_end w).
  { unfold r. rewrite rd_skip_until_end. cbn [r_off r_len]. reflexivity. }
  rewrite Hend in H.
  destruct (N.ltb_spec varint_max (w_end w)) as [Hy|_]; [lia|].
  unfold contradicts, s, cursors_of; cbn [sp_final sp_maxrecv].
  unfold wf_wr in Hwf.
  destruct (w_fin w) as [f|] eqn:Ef; destruct (final_size st) as [f0|] eqn:Ef0.
  - (* Some, Some *)
    destruct (N.eqb_spec f f0) as [->|Hne].
    + destruct (write_reader_impl _ r) as [sl o] eqn:Ew. injection H as <- <-. cbn [negb].
      split; [split; [intros X; now contradiction X|discriminate]|]. split; [intros X; now contradiction X|].
      intros _. cbn [start_off max_recv]. repeat split.
      destruct (final_size_some _ _ Ef0) as [E1 E2].
      unfold final_size; cbn [final_off]. rewrite E1.
      destruct (N.eqb_spec f0 unknown_final_size); [contradiction|reflexivity].
    + injection H as <- <-. cbn [negb]. repeat split; auto; try discriminate.
  - (* Some, None *)
    destruct (N.leb_spec (max_recv st) f) as [Hle|Hgt].
    + destruct (write_reader_impl _ r) as [sl o] eqn:Ew. injection H as <- <-.
      destruct (N.ltb_spec f (max_recv st)); [lia|].
      split; [split; [intros X; now contradiction X|discriminate]|]. split; [intros X; now contradiction X|].
      intros _. cbn [start_off max_recv]. repeat split.
      unfold final_size; cbn [final_off].
      destruct (N.eqb_spec f unknown_final_size) as [E|_]; [|reflexivity].
      pose proof unknown_gt_varint. lia.
    + injection H as <- <-. destruct (N.ltb_spec f (max_recv st)); [|lia].
      repeat split; auto; try discriminate.
  - (* None, Some *)
    destruct (N.leb_spec (w_end w) f0) as [Hle|Hgt].
    + destruct (write_reader_impl _ r) as [sl o] eqn:Ew. injection H as <- <-.
      destruct (N.ltb_spec f0 (w_end w)); [lia|].
      split; [split; [intros X; now contradiction X|discriminate]|]. split; [intros X; now contradiction X|].
      intros _. cbn [start_off max_recv]. repeat split.
      destruct (final_size_some _ _ Ef0) as [E1 E2].
      unfold final_size; cbn [final_off]. rewrite E1.
      destruct (N.eqb_spec f0 unknown_final_size); [contradiction|reflexivity].
    + injection H as <- <-. destruct (N.ltb_spec f0 (w_end w)); [|lia].
      repeat split; auto; try discriminate.
  - (* None, None *)
    destruct (write_reader_impl _ r) as [sl o] eqn:Ew. injection H as <- <-.
    split; [split; [intros X; now contradiction X|discriminate]|]. split; [intros X; now contradiction X|].
    intros _. cbn [start_off max_recv]. repeat split.
    unfold final_size in *; cbn [final_off].
    destruct (N.eqb_spec (final_off st) unknown_final_size); [reflexivity|discriminate].
Qed.

(* cursor refinement relation between a model state and a specification state *)
Definition CR (st : rstate) (s : spec) : Prop :=
  start_off st = sp_consumed s /\ max_recv st = sp_maxrecv s /\ final_size st = sp_final s
  /\ (forall f, sp_final s = Some f -> f <= varint_max).

Lemma contradicts_cursors : forall s1 s2 e fin,
  sp_maxrecv s1 = sp_maxrecv s2 -> sp_final s1 = sp_final s2 -> contradicts s1 e fin = contradicts s2 e fin.
Proof. intros s1 s2 e fin H1 H2. unfold contradicts. rewrite H1, H2. reflexivity. Qed.

Lemma write_step : forall st s w st' c, CR st s -> wf_wr w -> rwrite st w = (st', c) ->
  CR st' (fst (spec_write s w)) /\ (c = 0%Z <-> snd (spec_write s w) = true) /\ (c <> 0%Z -> st' = st).
Proof.
  intros st s w st' c (Hc & Hm & Hf & Hv) Hwf H.
  assert (Hv' : forall f, final_size st = Some f -> f <= varint_max) by (intros f; rewrite Hf; apply Hv).
  destruct (rwrite_code _ _ _ _ H Hwf Hv') as (Hrej & Hsame & Hok).
  rewrite (contradicts_cursors _ s) in Hrej by (cbn; auto).
  unfold spec_write. destruct (exceeds_max (w_end w) || contradicts s (w_end w) (w_fin w)) eqn:E; cbn [fst snd].
  - assert (Hn : c <> 0%Z) by (apply Hrej; reflexivity).
    rewrite (Hsame Hn). split; [unfold CR; auto|]. split; [split; [intros X; contradiction|discriminate]|auto].
  - assert (Hz : c = 0%Z). { destruct (Z.eq_dec c 0) as [e|n]; [exact e|]. apply Hrej in n. discriminate. }
    destruct (Hok Hz) as (H1 & H2 & H3).
    split; [|split; [split; auto|intros X; contradiction]].
    unfold CR; cbn [sp_consumed sp_maxrecv sp_final]. repeat split; try congruence.
    + rewrite H3, Hf. reflexivity.
    + intros f. unfold wf_wr in Hwf. destruct (w_fin w) as [f1|].
      * intros X; injection X as <-. apply Hwf.
      * apply Hv.
Qed.

Lemma skip_step : forall st s n st' c, CR st s -> rskip st n = (st', c) ->
  CR st' (fst (spec_skip s n)) /\ (c = 0%Z <-> snd (spec_skip s n) = true) /\ (c <> 0%Z -> st' = st).
Proof.
  intros st s n st' c (Hc & Hm & Hf & Hv) H. unfold rskip in H. unfold spec_skip.
  destruct (N.eqb_spec n 0).
  { injection H as <- <-. cbn [fst snd]. split; [unfold CR; auto|]. split; [split; auto|intros X; now contradiction X]. }
  rewrite <- Hc, <- Hf.
  assert (Hcr : CR st s) by (unfold CR; auto).
  destruct (N.ltb_spec varint_max (start_off st + n)); cbn [orb].
  { injection H as <- <-. cbn [fst snd]. split; [exact Hcr|]. split; [split; [intros X; discriminate|discriminate]|auto]. }
  destruct (final_size st) as [f|] eqn:Ef.
  - destruct (N.ltb_spec f (start_off st + n)).
    + injection H as <- <-. cbn [fst snd]. split; [exact Hcr|]. split; [split; [intros X; discriminate|discriminate]|auto].
    + injection H as <- <-. cbn [fst snd]. split; [|split; [split; auto|intros X; now contradiction X]].
      unfold CR; cbn [start_off max_recv sp_consumed sp_maxrecv sp_final]. split; [congruence|]. split; [congruence|].
      split; [unfold final_size in *; cbn [final_off]; exact Ef|intros f0 X; apply Hv; rewrite <- Hf; exact X].
  - injection H as <- <-. cbn [fst snd]. split; [|split; [split; auto|intros X; now contradiction X]].
    unfold CR; cbn [start_off max_recv sp_consumed sp_maxrecv sp_final]. split; [congruence|]. split; [congruence|].
    split; [unfold final_size in *; cbn [final_off]; exact Ef|intros f0 X; discriminate].
Qed.

Lemma pop_step : forall st s w st' n chunk, CR st s -> rpop st w = (st', n, chunk) -> CR st' (sp_take s n).
Proof.
  intros st s w st' n chunk (Hc & Hm & Hf & Hv) H. unfold rpop in H.
  destruct (slots st) as [|sl t].
  { injection H as <- <- <-. unfold CR, sp_take; cbn. repeat split; auto. lia. }
  destruct (negb (s_is_occupied sl (start_off st))).
  { injection H as <- <- <-. unfold CR, sp_take; cbn. repeat split; auto. lia. }
  destruct (match final_size st with Some f => _ | None => false end).
  - injection H as <- <- <-. unfold CR, sp_take; cbn. repeat split; auto; try congruence.
  - injection H as <- <- <-. unfold CR, sp_take; cbn. repeat split; auto; try congruence.
Qed.

(* the specification driven by the chunk sizes the model chose *)
Definition popped_n (st : rstate) (o : op) : N :=
  match o with Pop w => snd (fst (rpop st w)) | _ => 0 end.
Definition sstep_with (s : spec) (o : op) (n : N) : spec * bool :=
  match o with
  | Write w => spec_write s w
  | Skip k => spec_skip s k
  | Pop _ => (sp_take s n, true)
  | Reset => (spec_init, true)
  end.
Definition accepted (res : list Z) (o : op) : bool :=
  match o with Write _ | Skip _ => (hd 0%Z res =? 0)%Z | _ => true end.

(* along every operation sequence the cursors of the model equal those of the specification, the
   model accepts exactly the writes and skips the specification accepts, and a rejected operation
   leaves the whole model state (slots included) unchanged *)
Fixpoint lockstep (st : rstate) (s : spec) (ops : list op) : Prop :=
  match ops with
  | [] => True
  | o :: t =>
      let st' := fst (rstep st o) in
      let '(s', acc) := sstep_with s o (popped_n st o) in
      CR st' s' /\ accepted (snd (rstep st o)) o = acc /\ (acc = false -> st' = st) /\ lockstep st' s' t
  end.

Lemma CR_init : CR rinit spec_init.
Proof. unfold CR; cbn. repeat split; auto. discriminate. Qed.

Lemma lockstep_all : forall ops st s, Forall wf_op ops -> CR st s -> lockstep st s ops.
Proof.
  induction ops as [|o t IH]; intros st s Hwf Hcr; [exact I|].
  inversion Hwf as [|? ? Ho Ht]; subst. cbn [lockstep].
  destruct o as [w|wm|n|]; cbn [rstep sstep_with popped_n].
  - destruct (rwrite st w) as [st' c] eqn:E. cbn [fst snd].
    destruct (write_step _ _ _ _ _ Hcr Ho E) as (H1 & H2 & H3).
    destruct (spec_write s w) as [s' acc] eqn:Es. cbn [fst snd] in *.
    split; [exact H1|]. split.
    { unfold accepted; cbn [hd]. destruct (Z.eqb_spec c 0) as [e|n0].
      - symmetry. apply H2. exact e.
      - destruct acc; [|reflexivity]. exfalso. apply n0. apply H2. reflexivity. }
    split.
    { intros ->. apply H3. intros e. apply H2 in e. discriminate. }
    apply IH; assumption.
  - destruct (rpop st wm) as [[st' n] chunk] eqn:E. cbn [fst snd].
    split; [eapply pop_step; eauto|]. split; [reflexivity|]. split; [discriminate|].
    apply IH; [assumption|eapply pop_step; eauto].
  - destruct (rskip st n) as [st' c] eqn:E. cbn [fst snd].
    destruct (skip_step _ _ _ _ _ Hcr E) as (H1 & H2 & H3).
    destruct (spec_skip s n) as [s' acc] eqn:Es. cbn [fst snd] in *.
    split; [exact H1|]. split.
    { unfold accepted; cbn [hd]. destruct (Z.eqb_spec c 0) as [e|n0].
      - symmetry. apply H2. exact e.
      - destruct acc; [|reflexivity]. exfalso. apply n0. apply H2. reflexivity. }
    split.
    { intros ->. apply H3. intros e. apply H2 in e. discriminate. }
    apply IH; assumption.
  - cbn [fst snd]. split; [apply CR_init|]. split; [reflexivity|]. split; [discriminate|].
    apply IH; [assumption|apply CR_init].
Qed.

(* ------------------------------------------------------------------------------------------ *)
(* Part B: what the specification means.  First write wins, and what is popped is the contiguous
   prefix of that map: every byte once, in order, unaltered. *)

Lemma sget_app_stable : forall segs l p b, sget segs p = Some b -> sget (segs ++ l) p = Some b.
Proof.
  induction segs as [|g t IH]; intros l p b H; cbn [sget app] in *; [discriminate|].
  destruct (seg_get g p); [exact H|]. apply IH. exact H.
Qed.

(* a position nobody has written yet is decided by the next write that covers it *)
Lemma sget_app_new : forall segs g p, sget segs p = None -> sget (segs ++ [g]) p = seg_get g p.
Proof.
  induction segs as [|g0 t IH]; intros g p H; cbn [sget app] in *.
  - destruct (seg_get g p); reflexivity.
  - destruct (seg_get g0 p); [discriminate|]. apply IH. exact H.
Qed.

Definition all_some (l : list (option N)) : Prop := Forall (fun x => x <> None) l.

Lemma sp_bytes_stable : forall n segs l p, all_some (sp_bytes segs p n) -> sp_bytes (segs ++ l) p n = sp_bytes segs p n.
Proof.
  induction n as [|n IH]; intros segs l p H; cbn [sp_bytes] in *; [reflexivity|].
  inversion H as [|? ? Hx Ht]; subst. f_equal.
  - destruct (sget segs p) as [b|] eqn:E; [|contradiction]. apply sget_app_stable. exact E.
  - apply IH. exact Ht.
Qed.

Lemma sp_bytes_length : forall n segs p, length (sp_bytes segs p n) = n.
Proof. induction n; intros; cbn [sp_bytes length]; auto. Qed.

Lemma sp_bytes_app : forall a b segs p,
  sp_bytes segs p (a + b) = sp_bytes segs p a ++ sp_bytes segs (p + N.of_nat a) b.
Proof.
  induction a as [|a IH]; intros b segs p.
  - cbn [Nat.add sp_bytes app]. f_equal. cbn. lia.
  - cbn [Nat.add sp_bytes app]. f_equal. rewrite IH. do 2 f_equal. lia.
Qed.

(* a run of the specification in which every pop takes some number n of bytes (any chunking) *)
Fixpoint run_with (s : spec) (ops : list (op * N)) : spec :=
  match ops with [] => s | (o, n) :: t => run_with (fst (sstep_with s o n)) t end.
(* the pops of that run: position and bytes handed out *)
Fixpoint events (s : spec) (ops : list (op * N)) : list (N * list (option N)) :=
  match ops with
  | [] => []
  | (o, n) :: t =>
      match o with Pop _ => [(sp_consumed s, sp_bytes (sp_segs s) (sp_consumed s) (N.to_nat n))] | _ => [] end
      ++ events (fst (sstep_with s o n)) t
  end.
(* every pop takes only bytes that are there *)
Fixpoint pops_available (s : spec) (ops : list (op * N)) : Prop :=
  match ops with
  | [] => True
  | (o, n) :: t =>
      match o with Pop _ => all_some (sp_bytes (sp_segs s) (sp_consumed s) (N.to_nat n)) | _ => True end
      /\ pops_available (fst (sstep_with s o n)) t
  end.
Definition no_reset (ops : list (op * N)) : Prop := Forall (fun on => fst on <> Reset) ops.
Definition no_skip (ops : list (op * N)) : Prop := Forall (fun on => match fst on with Skip _ => False | _ => True end) ops.

Lemma step_segs_extend : forall s o n, o <> Reset -> exists l, sp_segs (fst (sstep_with s o n)) = sp_segs s ++ l.
Proof.
  intros s o n Hr. destruct o as [w|wm|k|]; cbn [sstep_with].
  - unfold spec_write. destruct (_ || _); cbn [fst sp_segs]; [exists []; now rewrite app_nil_r|eauto].
  - exists []. cbn. now rewrite app_nil_r.
  - unfold spec_skip. destruct (k =? 0); [exists []; cbn; now rewrite app_nil_r|].
    destruct (_ || _); cbn [fst sp_segs]; exists []; now rewrite app_nil_r.
  - contradiction.
Qed.

Lemma run_segs_extend : forall ops s, no_reset ops -> exists l, sp_segs (run_with s ops) = sp_segs s ++ l.
Proof.
  induction ops as [|[o n] t IH]; intros s H; cbn [run_with].
  - exists []. now rewrite app_nil_r.
  - inversion H as [|? ? Ho Ht]; subst. cbn [fst] in Ho.
    destruct (step_segs_extend s o n Ho) as [l1 E1].
    destruct (IH (fst (sstep_with s o n)) Ht) as [l2 E2].
    exists (l1 ++ l2). rewrite E2, E1, app_assoc. reflexivity.
Qed.

Lemma step_consumed_mono : forall s o n, o <> Reset -> sp_consumed s <= sp_consumed (fst (sstep_with s o n)).
Proof.
  intros s o n Hr. destruct o as [w|wm|k|]; cbn [sstep_with].
  - unfold spec_write. destruct (_ || _); cbn; lia.
  - cbn. lia.
  - unfold spec_skip. destruct (k =? 0); [cbn; lia|]. destruct (_ || _); cbn; lia.
  - contradiction.
Qed.

(* (1) every chunk handed out is, position by position, the first-write-wins content of the final map:
       later writes (duplicates, overlaps, different content) never change what was or will be read *)
Lemma events_first_wins : forall ops s, no_reset ops -> pops_available s ops ->
  Forall (fun ev => snd ev = sp_bytes (sp_segs (run_with s ops)) (fst ev) (length (snd ev)) /\ all_some (snd ev))
         (events s ops).
Proof.
  induction ops as [|[o n] t IH]; intros s Hr Ha; cbn [events run_with]; [constructor|].
  inversion Hr as [|? ? Ho Ht]; subst. cbn [fst] in Ho. destruct Ha as [Ha1 Ha2].
  apply Forall_app. split; [|apply IH; assumption].
  destruct o as [w|wm|k|]; try constructor; [|constructor].
  cbn [fst snd]. rewrite sp_bytes_length. split; [|exact Ha1].
  destruct (run_segs_extend t (fst (sstep_with s (Pop wm) n)) Ht) as [l E].
  rewrite E. cbn [sstep_with fst sp_take sp_segs]. symmetry. apply sp_bytes_stable. exact Ha1.
Qed.

(* (2) in order, each position at most once: a chunk starts at or after the end of the previous one *)
Fixpoint ordered_from (c : N) (evs : list (N * list (option N))) : Prop :=
  match evs with
  | [] => True
  | (pos, bytes) :: t => c <= pos /\ ordered_from (pos + nlen bytes) t
  end.
Lemma ordered_from_weaken : forall evs c c', c' <= c -> ordered_from c evs -> ordered_from c' evs.
Proof. intros [|[pos b] t] c c' H; cbn [ordered_from]; [auto|]. intros [H1 H2]. split; [lia|exact H2]. Qed.

Lemma events_ordered : forall ops s, no_reset ops -> ordered_from (sp_consumed s) (events s ops).
Proof.
  induction ops as [|[o n] t IH]; intros s Hr; cbn [events]; [exact I|].
  inversion Hr as [|? ? Ho Ht]; subst. cbn [fst] in Ho.
  destruct o as [w|wm|k|]; cbn [app].
  - eapply ordered_from_weaken; [|apply IH; exact Ht]. apply step_consumed_mono. exact Ho.
  - cbn [ordered_from]. split; [lia|].
    rewrite nlen_length, sp_bytes_length.
    eapply ordered_from_weaken; [|apply IH; exact Ht]. cbn [sstep_with fst sp_take sp_consumed]. lia.
  - eapply ordered_from_weaken; [|apply IH; exact Ht]. apply step_consumed_mono. exact Ho.
  - contradiction.
Qed.

(* (3) without skips: the concatenation of everything popped is exactly the prefix of the final map *)
Lemma step_consumed_noskip : forall s o n, o <> Reset -> (match o with Skip _ => False | _ => True end) ->
  sp_consumed (fst (sstep_with s o n)) = sp_consumed s + match o with Pop _ => n | _ => 0 end.
Proof.
  intros s o n Hr Hs. destruct o as [w|wm|k|]; cbn [sstep_with]; try contradiction.
  - unfold spec_write. destruct (_ || _); cbn; lia.
  - cbn. lia.
Qed.

Lemma run_consumed_mono : forall t s1, no_reset t -> sp_consumed s1 <= sp_consumed (run_with s1 t).
Proof.
  induction t as [|[o1 n1] t IH]; intros s1 Ht; cbn [run_with]; [lia|].
  inversion Ht as [|? ? Ho1 Ht1]; subst. cbn [fst] in Ho1.
  pose proof (step_consumed_mono s1 o1 n1 Ho1). specialize (IH (fst (sstep_with s1 o1 n1)) Ht1). lia.
Qed.

Lemma pops_are_prefix_from : forall ops s, no_reset ops -> no_skip ops -> pops_available s ops ->
  concat (map snd (events s ops)) =
  sp_bytes (sp_segs (run_with s ops)) (sp_consumed s) (N.to_nat (sp_consumed (run_with s ops) - sp_consumed s)).
Proof.
  induction ops as [|[o n] t IH]; intros s Hr Hs Ha; cbn [events run_with map concat].
  - replace (sp_consumed s - sp_consumed s) with 0 by lia. reflexivity.
  - inversion Hr as [|? ? Ho Ht]; subst. inversion Hs as [|? ? Ho' Ht']; subst. cbn [fst] in Ho, Ho'.
    destruct Ha as [Ha1 Ha2].
    rewrite map_app, concat_app, IH by assumption.
    pose proof (step_consumed_noskip s o n Ho Ho') as Hc.
    set (s1 := fst (sstep_with s o n)) in *.
    pose proof (run_consumed_mono t s1 Ht) as Hmono.
    destruct o as [w|wm|k|]; try contradiction.
    + cbn [map concat app]. rewrite Hc. replace (sp_consumed s + 0) with (sp_consumed s) in * by lia. reflexivity.
    + cbn [map concat app snd]. rewrite app_nil_r.
      replace (N.to_nat (sp_consumed (run_with s1 t) - sp_consumed s))
        with (N.to_nat n + N.to_nat (sp_consumed (run_with s1 t) - sp_consumed s1))%nat by lia.
      rewrite sp_bytes_app. f_equal.
      * destruct (run_segs_extend t s1 Ht) as [l E]. rewrite E. unfold s1. cbn [sstep_with fst sp_take sp_segs].
        symmetry. apply sp_bytes_stable. exact Ha1.
      * rewrite Hc. do 2 f_equal. lia.
Qed.

(* ------------------------------------------------------------------------------------------ *)
(* Part B3: the executable walkers of the judge ([win], [cks_range], [reach]) compute what the
   reference definition [sget] says. *)

Definition seg_wf (g : seg) : Prop := g_end g = g_off g + nlen (g_data g).

Lemma seg_get_left : forall g p, p < g_off g -> seg_get g p = None.
Proof. intros g p H. unfold seg_get. destruct (N.leb_spec (g_off g) p); [lia|reflexivity]. Qed.
Lemma seg_get_right : forall g p, seg_wf g -> g_end g <= p -> seg_get g p = None.
Proof.
  intros g p Hw H. unfold seg_get. destruct (N.leb_spec (g_off g) p); [|reflexivity].
  apply nth_error_None. unfold seg_wf in Hw. rewrite nlen_length in Hw. lia.
Qed.
Lemma seg_get_in : forall g p, seg_wf g -> g_off g <= p -> p < g_end g ->
  seg_get g p = nth_error (g_data g) (N.to_nat (p - g_off g)) /\ seg_get g p <> None.
Proof.
  intros g p Hw H1 H2. unfold seg_get. destruct (N.leb_spec (g_off g) p); [|lia]. split; [reflexivity|].
  apply nth_error_Some. unfold seg_wf in Hw. rewrite nlen_length in Hw. lia.
Qed.

Lemma win_sound : forall segs p lim g e, Forall seg_wf segs -> win segs p lim = Some (g, e) ->
  seg_wf g /\ g_off g <= p /\ (p < lim -> p < e) /\ e <= lim /\ e <= g_end g
  /\ (forall q, p <= q < e -> sget segs q = seg_get g q).
Proof.
  induction segs as [|g0 t IH]; intros p lim g e Hw H; cbn [win] in H; [discriminate|].
  inversion Hw as [|? ? Hw0 Hwt]; subst.
  destruct (N.leb_spec (g_off g0) p) as [Ha|Ha]; cbn [andb] in H.
  - destruct (N.ltb_spec p (g_end g0)) as [Hb|Hb].
    + injection H as <- <-. repeat split; auto; try lia.
      intros q Hq. cbn [sget]. destruct (seg_get_in g0 q Hw0) as [_ Hn]; try lia.
      destruct (seg_get g0 q); [reflexivity|contradiction].
    + destruct (N.ltb_spec p (g_off g0)); [lia|].
      destruct (IH p lim g e Hwt H) as (K0 & K1 & K2 & K3 & K4 & K5).
      repeat split; auto. intros q Hq. cbn [sget]. rewrite seg_get_right by (auto; lia). apply K5. exact Hq.
  - destruct (N.ltb_spec p (g_off g0)); [|lia].
    destruct (IH p (N.min lim (g_off g0)) g e Hwt H) as (K0 & K1 & K2 & K3 & K4 & K5).
    repeat split; auto; try lia. intros q Hq. cbn [sget]. rewrite seg_get_left by lia. apply K5. exact Hq.
Qed.

Lemma win_none : forall segs p lim, Forall seg_wf segs -> win segs p lim = None -> sget segs p = None.
Proof.
  induction segs as [|g0 t IH]; intros p lim Hw H; cbn [win sget] in *; [reflexivity|].
  inversion Hw as [|? ? Hw0 Hwt]; subst.
  destruct (N.leb_spec (g_off g0) p) as [Ha|Ha]; cbn [andb] in H.
  - destruct (N.ltb_spec p (g_end g0)) as [Hb|Hb]; [discriminate|].
    rewrite seg_get_right by auto. eapply IH; eauto.
  - rewrite seg_get_left by lia. eapply IH; eauto.
Qed.

Lemma nth_error_firstn_lt {A} : forall n (l : list A) i, (i < n)%nat -> nth_error (firstn n l) i = nth_error l i.
Proof.
  induction n as [|n IH]; intros l i Hi; [lia|].
  destruct l as [|x l]; [reflexivity|]. destruct i as [|i]; cbn [firstn nth_error]; [reflexivity|]. apply IH. lia.
Qed.
Lemma nth_error_skipn_add {A} : forall k (l : list A) i, nth_error (skipn k l) i = nth_error l (k + i).
Proof.
  induction k as [|k IH]; intros l i; cbn [skipn Nat.add]; [reflexivity|].
  destruct l as [|x l]; [now destruct i|]. cbn [nth_error]. apply IH.
Qed.
Lemma nth_error_take_drop {A} : forall (l : list A) k n i, (i < n)%nat ->
  nth_error (firstn n (skipn k l)) i = nth_error l (k + i).
Proof. intros. rewrite nth_error_firstn_lt by assumption. apply nth_error_skipn_add. Qed.

Lemma sp_bytes_nth : forall l segs p, (forall i, (i < length l)%nat -> sget segs (p + N.of_nat i) = nth_error l i) ->
  sp_bytes segs p (length l) = map Some l.
Proof.
  induction l as [|x l IH]; intros segs p H; cbn [length sp_bytes map]; [reflexivity|]. f_equal.
  - specialize (H 0%nat ltac:(cbn; lia)). cbn [nth_error] in H. rewrite <- H. f_equal. cbn. lia.
  - apply IH. intros i Hi. specialize (H (S i) ltac:(cbn [length]; lia)). cbn [nth_error] in H.
    rewrite <- H. f_equal. lia.
Qed.

Lemma cks_app : forall a b h, cks h (a ++ b) = cks (cks h a) b.
Proof. intros. unfold cks. apply fold_left_app. Qed.

(* the checksum the judge compares with is that of exactly the bytes the map holds at [p, e) *)
Lemma cks_range_sound : forall fuel segs p e h h', Forall seg_wf segs -> cks_range fuel segs p e h = Some h' ->
  exists bytes, sp_bytes segs p (N.to_nat (e - p)) = map Some bytes /\ h' = cks h bytes.
Proof.
  induction fuel as [|k IH]; intros segs p e h h' Hw H.
  - cbn [cks_range] in H. destruct (N.leb_spec e p); [|discriminate]. injection H as <-.
    exists []. replace (e - p) with 0 by lia. split; reflexivity.
  - cbn [cks_range] in H. destruct (N.leb_spec e p) as [Hep|Hep].
    { injection H as <-. exists []. replace (e - p) with 0 by lia. split; reflexivity. }
    destruct (win segs p e) as [[g e']|] eqn:Ewin; [|discriminate].
    destruct (N.ltb_spec p e') as [Hpe|]; [|discriminate].
    destruct (win_sound _ _ _ _ _ Hw Ewin) as (K0 & K1 & K2 & K3 & K4 & K5).
    set (b1 := ntake (e' - p) (ndrop (p - g_off g) (g_data g))) in H.
    destruct (IH _ _ _ _ _ Hw H) as (b2 & E2 & Eh).
    assert (Hlen : length b1 = N.to_nat (e' - p)).
    { unfold b1, ntake, ndrop. rewrite firstn_length, skipn_length. unfold seg_wf in K0. rewrite nlen_length in K0. lia. }
    exists (b1 ++ b2). split.
    + replace (N.to_nat (e - p)) with (length b1 + N.to_nat (e - e'))%nat by lia.
      rewrite sp_bytes_app, map_app. f_equal.
      * apply sp_bytes_nth. intros i Hi. rewrite K5 by lia.
        destruct (seg_get_in g (p + N.of_nat i) K0) as [Eg _]; try lia. rewrite Eg.
        unfold b1, ntake, ndrop. rewrite nth_error_take_drop by lia. f_equal. lia.
      * rewrite Hlen. replace (p + N.of_nat (N.to_nat (e' - p))) with e' by lia. exact E2.
    + rewrite cks_app. exact Eh.
Qed.

(* everything up to [reach] is received *)
Lemma reach_sound : forall fuel segs p, Forall seg_wf segs ->
  p <= reach fuel segs p /\ all_some (sp_bytes segs p (N.to_nat (reach fuel segs p - p))).
Proof.
  induction fuel as [|k IH]; intros segs p Hw; cbn [reach].
  - replace (p - p) with 0 by lia. split; [lia|constructor].
  - destruct (win segs p u64_max) as [[g e]|] eqn:Ewin.
    + destruct (N.ltb_spec p e) as [Hpe|Hpe].
      * destruct (IH segs e Hw) as [H1 H2].
        destruct (win_sound _ _ _ _ _ Hw Ewin) as (K0 & K1 & K2 & K3 & K4 & K5).
        split; [lia|].
        replace (N.to_nat (reach k segs e - p)) with (N.to_nat (e - p) + N.to_nat (reach k segs e - e))%nat by lia.
        rewrite sp_bytes_app. apply Forall_app. split.
        -- clear H2. assert (Hq : forall n q, p <= q -> q + N.of_nat n <= e -> all_some (sp_bytes segs q n)).
           { induction n as [|n IHn]; intros q Hq1 Hq2; cbn [sp_bytes]; constructor.
             - rewrite K5 by lia. apply seg_get_in; auto; lia.
             - apply IHn; lia. }
           apply Hq; lia.
        -- replace (p + N.of_nat (N.to_nat (e - p))) with e by lia. exact H2.
      * replace (p - p) with 0 by lia. split; [lia|constructor].
    + replace (p - p) with 0 by lia. split; [lia|constructor].
Qed.

(* ... and the position where [reach] stopped because no write owns it is not received *)
Lemma reach_stop : forall segs p, Forall seg_wf segs -> win segs p u64_max = None -> sget segs p = None.
Proof. intros. eapply win_none; eauto. Qed.

(* ------------------------------------------------------------------------------------------ *)
(* the rejection theorem in the form of the property text *)
Lemma reject_unchanged : forall st s w st' c, CR st s -> wf_wr w -> rwrite st w = (st', c) ->
  (c <> 0%Z -> st' = st)
  /\ (c <> 0%Z <-> exceeds_max (w_end w) = true \/ contradicts s (w_end w) (w_fin w) = true)
  /\ (c <> 0%Z -> fst (spec_write s w) = s).
Proof.
  intros st s w st' c Hcr Hwf H. destruct (write_step _ _ _ _ _ Hcr Hwf H) as (_ & H2 & H3).
  split; [exact H3|].
  assert (E : snd (spec_write s w) = negb (exceeds_max (w_end w) || contradicts s (w_end w) (w_fin w))).
  { unfold spec_write. destruct (_ || _); reflexivity. }
  split; [|intros Hn; unfold spec_write].
  - rewrite <- orb_true_iff. split.
    + intros Hn. destruct (_ || _) eqn:Eo; [reflexivity|]. exfalso. apply Hn. apply H2. rewrite E. reflexivity.
    + intros Ho Hz. apply H2 in Hz. rewrite E, Ho in Hz. discriminate.
  - destruct (exceeds_max (w_end w) || contradicts s (w_end w) (w_fin w)) eqn:Eo; [reflexivity|].
    exfalso. apply Hn. apply H2. rewrite E. reflexivity.
Qed.

(* concrete cases, run through the slot model and judged by the specification inside Coq *)
Definition ex_case1 : list Z := [7; 0; 4; 4; 0; 2; 0; 0; 4; 0; 2; 2]%Z.
Definition ex_case2 : list Z := [9; 4; 4090; 0; 4094; 5; 0; 1; 4090; 4; 0; 0; 4090; 9; 1; 3; 3; 2; 2; 1; 0; 1; 0; 0; 5000; 1; 0]%Z.
Definition ex_case3 : list Z := [3; 1; 5; 5; 0; 0; 8; 3; 0; 4; 3; 0; 0; 5; 0; 6; 0; 10; 0; 0; 2; 2]%Z.
Lemma examples_judged : judge ex_case1 (run ex_case1) = true /\ judge ex_case2 (run ex_case2) = true
  /\ judge ex_case3 (run ex_case3) = true.
Proof. repeat split; vm_compute; reflexivity. Qed.
(* and a wrong answer is not accepted: the same run with one popped checksum altered, one length
   altered, one rejected write reported as accepted *)
Lemma examples_rejected :
  judge ex_case1 (set_nth 25 (run ex_case1) 5%Z) = false
  /\ judge ex_case1 (set_nth 24 (run ex_case1) 7%Z) = false
  /\ judge ex_case3 (set_nth 8 (run ex_case3) 0%Z) = false.
Proof. repeat split; vm_compute; reflexivity. Qed.
