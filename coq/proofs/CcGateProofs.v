From SQ Require Import lib.Base model.Cubic model.CcGate.
Local Open Scope N_scope.

(* a congestion-controlled packet may be sent freely only while a whole datagram still fits
   below the window; otherwise the gate is CongestionLimited, except for the single fast
   retransmission RFC 9002 7.3.2 allows right after entering recovery *)
Theorem gate : forall amp s, 0 < mds s ->
  (cubic_constraint amp s = Unconstrained -> amp = false /\ bif s + mds s <= wnd s) /\
  (cubic_constraint amp s = RetransmissionOnly ->
     amp = false /\ wnd s < bif s + mds s /\ exists t, kind s = Recovery t true) /\
  (amp = false -> wnd s < bif s + mds s -> (forall t, kind s <> Recovery t true) ->
     cubic_constraint amp s = CongestionLimited).
Proof.
  intros amp s M. unfold cubic_constraint, transmission_constraint, congestion_limited.
  destruct amp; cbn [negb].
  - repeat split; intros; discriminate.
  - destruct (N.ltb_spec (wnd s - bif s) (mds s)) as [L|L].
    + destruct (kind s) as [|t [|]|] eqn:K; repeat split; intros; try discriminate; try lia; eauto.
      exfalso. eapply H1. reflexivity.
    + repeat split; intros; try discriminate; try lia; exfalso; lia.
Qed.
