(* Proofs about the IntervalSet model (C16), part 2: Removal::scan + apply computes ref_rem. *)
From SQ Require Import lib.Base lib.ListX gen.Gen_C16 model.IntervalSet proofs.IntervalSetProofs.
Local Open Scope N_scope.

(* the Removal state only accumulates min / max: a scan started with any replace_range is the scan
   started with usize::MAX..0, combined afterwards *)
Definition rcombine (rs re : N) (r : rscan_res) : rscan_res :=
  match r with RFound i => RFound i | RDone x y p => RDone (N.min rs x) (N.max re y) p end.

Lemma rscan_acc : forall emax q k a rs re cp, rs <= usize_max ->
  rscan emax q k a rs re cp =
  (fst (rscan emax q k a usize_max 0 cp), rcombine rs re (snd (rscan emax q k a usize_max 0 cp))).
Proof.
  intros emax. induction q as [|b t IH]; intros k a rs re cp Hrs.
  - cbn [rscan fst snd rcombine]. do 2 f_equal; lia.
  - cbn [rscan].
    destruct (fst a ?= fst b), (snd a ?= snd b); cbn [fst snd rcombine];
      try (do 2 f_equal; lia); try reflexivity.
    + (* (Equal, Greater) *)
      rewrite (IH (k + 1) a (N.min rs k) (N.max re (k + 1)) cp) by lia.
      rewrite (IH (k + 1) a (N.min usize_max k) (N.max 0 (k + 1)) cp) by lia.
      destruct (rscan emax t (k + 1) a usize_max 0 cp) as [t' r]. cbn [fst snd]. f_equal.
      destruct r; cbn [rcombine]; [reflexivity|]. f_equal; lia.
    + (* (Less, Less) *)
      destruct (should_coalesce emax b a); cbn [fst snd rcombine]; do 2 f_equal; lia.
    + (* (Less, Greater) *)
      rewrite (IH (k + 1) a (N.min rs k) (N.max re (k + 1)) cp) by lia.
      rewrite (IH (k + 1) a (N.min usize_max k) (N.max 0 (k + 1)) cp) by lia.
      destruct (rscan emax t (k + 1) a usize_max 0 cp) as [t' r]. cbn [fst snd]. f_equal.
      destruct r; cbn [rcombine]; [reflexivity|]. f_equal; lia.
    + (* (Greater, Less) *)
      destruct cp; cbn [fst snd rcombine]; do 2 f_equal; lia.
    + (* (Greater, Greater) *)
      destruct (should_coalesce emax a b).
      * rewrite (IH (k + 1) a (N.min rs (k + 1)) re cp) by lia.
        rewrite (IH (k + 1) a (N.min usize_max (k + 1)) 0 cp) by lia.
        destruct (rscan emax t (k + 1) a usize_max 0 cp) as [t' r]. cbn [fst snd]. f_equal.
        destruct r; cbn [rcombine]; [reflexivity|]. f_equal; lia.
      * rewrite (IH (k + 1) a rs re cp) by lia.
        destruct (rscan emax t (k + 1) a usize_max 0 cp) as [t' r]. cbn [fst snd]. reflexivity.
Qed.

Lemma ref_rem_beyond : forall emax t a1 a2, iswf emax t -> a1 <= a2 ->
  match t with [] => True | b :: _ => a2 < fst b end -> ref_rem a1 a2 t = t.
Proof.
  intros emax [|[c d] t] a1 a2 Hwf Ha H; [reflexivity|]. cbn [ref_rem]. cbn [fst] in H.
  cbn [iswf fst snd] in Hwf. destruct Hwf as (Hcd & _).
  destruct (N.ltb_spec d a1); [lia|]. destruct (N.ltb_spec a2 c); [reflexivity|lia].
Qed.

Lemma gap_beyond : forall d t a2, gap d t -> a2 <= d + 1 ->
  match t with [] => True | b :: _ => a2 < fst b end.
Proof. intros d [|b t] a2 H H'; [exact I|]. cbn [gap] in H. lia. Qed.

(* scanning intervals that all start after a.start: m whole intervals are marked for removal, the next
   one may be trimmed in place *)
Lemma rscan_after : forall emax cp t k a1 a2, iswf emax t -> (forall b, In b t -> a1 < fst b) ->
  a1 <= a2 -> a2 <= emax ->
  exists t' m x y, rscan emax t k (a1, a2) usize_max 0 cp = (t', RDone x y None) /\
    length t' = length t /\ (m <= length t)%nat /\ ref_rem a1 a2 t = skipn m t' /\
    ((m = 0%nat /\ x = usize_max /\ (y = 0 \/ y = k)) \/ ((0 < m)%nat /\ x = k /\ y = k + N.of_nat m)).
Proof.
  intros emax cp. induction t as [|b t IH]; intros k a1 a2 Hwf Hlt Ha Hae.
  - exists [], 0%nat, usize_max, 0. cbn [rscan ref_rem skipn length]. repeat split; auto.
  - pose proof (Hlt b (or_introl eq_refl)) as Hb.
    pose proof (wf_after _ _ _ Hwf) as Haft.
    pose proof Hwf as Hwf0. cbn [iswf] in Hwf. destruct Hwf as (Hbv & Hbm & Hgap & Hwft).
    destruct b as [c d]. cbn [fst snd] in *.
    cbn [rscan fst snd]. rewrite (proj2 (N.compare_lt_iff a1 c)) by assumption.
    cbn [ref_rem].
    destruct (N.ltb_spec d a1); [lia|].
    destruct (N.compare_spec a2 d) as [He|Hl|Hg].
    + (* (Less, Equal) *) subst d.
      exists ((c, a2) :: t), 1%nat, k, (k + 1). replace (N.min usize_max k) with k by (unfold usize_max, u64_max in *; lia).
      replace (N.max 0 (k + 1)) with (k + 1) by lia.
      split; [reflexivity|]. cbn [length skipn]. repeat split; try lia.
      * destruct (N.ltb_spec a2 c); [lia|]. destruct (N.ltb_spec c a1); [lia|]. destruct (N.ltb_spec a2 a2); [lia|].
        cbn [app]. eapply ref_rem_beyond; [eassumption|assumption|]. eapply gap_beyond; [eassumption|lia].
      * right. repeat split; lia.
    + (* (Less, Less) *)
      rewrite coalesce_lt by (cbn [snd]; lia). cbn [fst snd].
      destruct (N.leb_spec c (a2 + 1)) as [Hco|Hno].
      * exists ((step_up_sat emax a2, d) :: t), 0%nat, usize_max, k.
        unfold end_exclusive. cbn [snd]. replace (N.max 0 k) with k by lia.
        split; [reflexivity|]. cbn [length skipn]. repeat split; try lia.
        -- unfold step_up_sat. destruct (N.ltb_spec a2 emax); [|lia].
           destruct (N.ltb_spec a2 c).
           ++ replace (a2 + 1) with c by lia. reflexivity.
           ++ destruct (N.ltb_spec c a1); [lia|]. destruct (N.ltb_spec a2 d); [|lia]. cbn [app]. f_equal.
              eapply ref_rem_beyond; [eassumption|assumption|]. eapply gap_beyond; [eassumption|lia].
        -- left. auto.
      * exists ((c, d) :: t), 0%nat, usize_max, 0.
        split; [reflexivity|]. cbn [length skipn]. repeat split; try lia.
        -- destruct (N.ltb_spec a2 c); [reflexivity|lia].
        -- left. auto.
    + (* (Less, Greater): B is removed, continue *)
      rewrite rscan_acc by (unfold usize_max, u64_max; lia).
      destruct (IH (k + 1) a1 a2 Hwft) as (t' & m & x & y & E & Hlen & Hm & Href & Hxy); try assumption.
      { intros b' Hb'. pose proof (Haft b' Hb'). lia. }
      rewrite E. cbn [fst snd rcombine].
      exists ((c, d) :: t'), (S m).
      destruct Hxy as [(-> & -> & Hy)|(Hm0 & -> & ->)].
      * exists k, (k + 1). split.
        { do 2 f_equal. f_equal; destruct Hy as [-> | ->]; unfold usize_max, u64_max; lia. }
        cbn [length skipn]. repeat split; try lia.
        -- destruct (N.ltb_spec a2 c); [lia|]. destruct (N.ltb_spec c a1); [lia|]. destruct (N.ltb_spec a2 d); [lia|].
           cbn [app]. exact Href.
        -- right. repeat split; lia.
      * exists k, (k + N.of_nat (S m)). split.
        { do 2 f_equal. f_equal; lia. }
        cbn [length skipn]. repeat split; try lia.
        -- destruct (N.ltb_spec a2 c); [lia|]. destruct (N.ltb_spec c a1); [lia|]. destruct (N.ltb_spec a2 d); [lia|].
           cbn [app]. exact Href.
        -- right. repeat split; lia.
Qed.
