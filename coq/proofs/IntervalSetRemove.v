(* Proofs about the IntervalSet model (C16), part 2: Removal::scan + apply computes ref_rem. *)
From SQ Require Import lib.Base lib.ListX gen.Gen_C16 model.IntervalSet proofs.IntervalSetProofs.
Local Open Scope N_scope.

(* the Removal state only accumulates min / max: a scan started with any replace_range is the scan
   started with usize::MAX..0, combined afterwards *)
Definition rcombine (rs re : N) (r : rscan_res) : rscan_res :=
  match r with RFound i => RFound i | RDone x y p => RDone (N.min rs x) (N.max re y) p end.

Lemma rscan_acc : forall emax q k a rs re cp, rs <= usize_max ->
  rscan emax q k a rs re cp =
  (fst (rscan emax q k a usize_max 0 cp), rcombine rs re (snd (rscan emax q k a usize_max 0 cp))).
Proof.
  intros emax. induction q as [|b t IH]; intros k a rs re cp Hrs.
  - cbn [rscan fst snd rcombine]. do 2 f_equal; lia.
  - cbn [rscan].
    destruct (fst a ?= fst b), (snd a ?= snd b); cbn [fst snd rcombine];
      try (do 2 f_equal; lia); try reflexivity.
    + (* (Equal, Greater) *)
      rewrite (IH (k + 1) a (N.min rs k) (N.max re (k + 1)) cp) by lia.
      rewrite (IH (k + 1) a (N.min usize_max k) (N.max 0 (k + 1)) cp) by lia.
      destruct (rscan emax t (k + 1) a usize_max 0 cp) as [t' r]. cbn [fst snd]. f_equal.
      destruct r; cbn [rcombine]; [reflexivity|]. f_equal; lia.
    + (* (Less, Less) *)
      destruct (should_coalesce emax b a); cbn [fst snd rcombine]; do 2 f_equal; lia.
    + (* (Less, Greater) *)
      rewrite (IH (k + 1) a (N.min rs k) (N.max re (k + 1)) cp) by lia.
      rewrite (IH (k + 1) a (N.min usize_max k) (N.max 0 (k + 1)) cp) by lia.
      destruct (rscan emax t (k + 1) a usize_max 0 cp) as [t' r]. cbn [fst snd]. f_equal.
      destruct r; cbn [rcombine]; [reflexivity|]. f_equal; lia.
    + (* (Greater, Less) *)
      destruct cp; cbn [fst snd rcombine]; do 2 f_equal; lia.
    + (* (Greater, Greater) *)
      destruct (should_coalesce emax a b).
      * rewrite (IH (k + 1) a (N.min rs (k + 1)) re cp) by lia.
        rewrite (IH (k + 1) a (N.min usize_max (k + 1)) 0 cp) by lia.
        destruct (rscan emax t (k + 1) a usize_max 0 cp) as [t' r]. cbn [fst snd]. f_equal.
        destruct r; cbn [rcombine]; [reflexivity|]. f_equal; lia.
      * rewrite (IH (k + 1) a rs re cp) by lia.
        destruct (rscan emax t (k + 1) a usize_max 0 cp) as [t' r]. cbn [fst snd]. reflexivity.
Qed.

Lemma ref_rem_beyond : forall emax t a1 a2, iswf emax t -> a1 <= a2 ->
  match t with [] => True | b :: _ => a2 < fst b end -> ref_rem a1 a2 t = t.
Proof.
  intros emax [|[c d] t] a1 a2 Hwf Ha H; [reflexivity|]. cbn [ref_rem]. cbn [fst] in H.
  cbn [iswf fst snd] in Hwf. destruct Hwf as (Hcd & _).
  destruct (N.ltb_spec d a1); [lia|]. destruct (N.ltb_spec a2 c); [reflexivity|lia].
Qed.

Lemma gap_beyond : forall d t a2, gap d t -> a2 <= d + 1 ->
  match t with [] => True | b :: _ => a2 < fst b end.
Proof. intros d [|b t] a2 H H'; [exact I|]. cbn [gap] in H. lia. Qed.

(* scanning intervals that all start after a.start: m whole intervals are marked for removal, the next
   one may be trimmed in place *)
Lemma rscan_after : forall emax cp t k a1 a2, iswf emax t -> (forall b, In b t -> a1 < fst b) ->
  a1 <= a2 -> a2 <= emax -> k + N.of_nat (length t) < usize_max ->
  exists t' m x y, rscan emax t k (a1, a2) usize_max 0 cp = (t', RDone x y None) /\
    length t' = length t /\ (m <= length t)%nat /\ ref_rem a1 a2 t = skipn m t' /\
    ((m = 0%nat /\ x = usize_max /\ (y = 0 \/ y = k)) \/ ((0 < m)%nat /\ x = k /\ y = k + N.of_nat m)).
Proof.
  intros emax cp. induction t as [|b t IH]; intros k a1 a2 Hwf Hlt Ha Hae Hk.
  - exists [], 0%nat, usize_max, 0. cbn [rscan ref_rem skipn length]. repeat split; auto.
  - pose proof (Hlt b (or_introl eq_refl)) as Hb.
    pose proof (wf_after _ _ _ Hwf) as Haft.
    pose proof Hwf as Hwf0. cbn [iswf] in Hwf. destruct Hwf as (Hbv & Hbm & Hgap & Hwft).
    destruct b as [c d]. cbn [fst snd length] in *.
    cbn [rscan fst snd]. rewrite (proj2 (N.compare_lt_iff a1 c)) by assumption.
    cbn [ref_rem].
    destruct (N.ltb_spec d a1); [lia|].
    destruct (N.compare_spec a2 d) as [He|Hl|Hg].
    + (* (Less, Equal) *) subst d.
      exists ((c, a2) :: t), 1%nat, k, (k + 1). replace (N.min usize_max k) with k by lia.
      replace (N.max 0 (k + 1)) with (k + 1) by lia.
      split; [reflexivity|]. cbn [length skipn]. split; [reflexivity|]. split; [lia|]. split.
      * destruct (N.ltb_spec a2 c); [lia|]. destruct (N.ltb_spec c a1); [lia|]. destruct (N.ltb_spec a2 a2); [lia|].
        cbn [app]. eapply ref_rem_beyond; [eassumption|assumption|]. eapply gap_beyond; [eassumption|lia].
      * right. repeat split; lia.
    + (* (Less, Less) *)
      rewrite coalesce_lt by (cbn [snd]; lia). cbn [fst snd].
      destruct (N.leb_spec c (a2 + 1)) as [Hco|Hno].
      * exists ((step_up_sat emax a2, d) :: t), 0%nat, usize_max, k.
        unfold end_exclusive. cbn [snd]. replace (N.max 0 k) with k by lia.
        split; [reflexivity|]. cbn [length skipn]. split; [reflexivity|]. split; [lia|]. split.
        -- unfold step_up_sat. destruct (N.ltb_spec a2 emax); [|lia].
           destruct (N.ltb_spec a2 c).
           ++ replace (a2 + 1) with c by lia. reflexivity.
           ++ destruct (N.ltb_spec c a1); [lia|]. destruct (N.ltb_spec a2 d); [|lia]. cbn [app]. f_equal.
              eapply ref_rem_beyond; [eassumption|assumption|]. eapply gap_beyond; [eassumption|lia].
        -- left. auto.
      * exists ((c, d) :: t), 0%nat, usize_max, 0.
        split; [reflexivity|]. cbn [length skipn]. split; [reflexivity|]. split; [lia|]. split.
        -- destruct (N.ltb_spec a2 c); [reflexivity|lia].
        -- left. auto.
    + (* (Less, Greater): B is removed, continue *)
      rewrite rscan_acc by lia.
      destruct (IH (k + 1) a1 a2 Hwft) as (t' & m & x & y & E & Hlen & Hm & Href & Hxy); try assumption.
      { intros b' Hb'. pose proof (Haft b' Hb'). lia. }
      { lia. }
      rewrite E. cbn [fst snd rcombine].
      assert (Hr : (if a2 <? c then (c, d) :: t
                    else (if c <? a1 then [(c, a1 - 1)] else []) ++ (if a2 <? d then [(a2 + 1, d)] else []) ++ ref_rem a1 a2 t)
                   = skipn (S m) ((c, d) :: t')).
      { destruct (N.ltb_spec a2 c); [lia|]. destruct (N.ltb_spec c a1); [lia|]. destruct (N.ltb_spec a2 d); [lia|].
        cbn [app skipn]. exact Href. }
      exists ((c, d) :: t'), (S m).
      destruct Hxy as [(-> & -> & Hy)|(Hm0 & -> & ->)].
      * exists k, (k + 1). split.
        { replace (N.min (N.min usize_max k) usize_max) with k by lia.
          replace (N.max (N.max 0 (k + 1)) y) with (k + 1) by (destruct Hy as [-> | ->]; lia). reflexivity. }
        cbn [length]. split; [lia|]. split; [lia|]. split; [exact Hr|].
        right. repeat split; lia.
      * exists k, (k + N.of_nat (S m)). split.
        { replace (N.min (N.min usize_max k) (k + 1)) with k by lia.
          replace (N.max (N.max 0 (k + 1)) (k + 1 + N.of_nat m)) with (k + N.of_nat (S m)) by lia. reflexivity. }
        cbn [length]. split; [lia|]. split; [lia|]. split; [exact Hr|].
        right. repeat split; lia.
Qed.

(* ---------- Removal::apply ---------- *)
Definition apply_rm (l' : list ival) (r : rscan_res) (cp : bool) : option (list ival * N) :=
  match r with
  | RFound idx => Some (l', idx)
  | RDone rs re (Some p) =>
      if cp then Some (firstn (N.to_nat rs) l' ++ p :: skipn (N.to_nat rs) l', rs) else None
  | RDone rs re None =>
      if re <? rs then Some (l', 0)
      else if re - rs =? 0 then Some (l', rs)
      else if re - rs =? 1 then Some (firstn (N.to_nat rs) l' ++ skipn (N.to_nat rs + 1) l', rs)
      else Some (firstn (N.to_nat rs) l' ++ skipn (N.to_nat re) l', rs)
  end.

Lemma apply_rm_cut : forall l' rs re cp, rs <= re ->
  apply_rm l' (RDone rs re None) cp = Some (firstn (N.to_nat rs) l' ++ skipn (N.to_nat re) l', rs).
Proof.
  intros. cbn [apply_rm]. destruct (N.ltb_spec re rs); [lia|].
  destruct (N.eqb_spec (re - rs) 0).
  - replace re with rs by lia. rewrite firstn_skipn. reflexivity.
  - destruct (N.eqb_spec (re - rs) 1); [|reflexivity].
    replace (N.to_nat rs + 1)%nat with (N.to_nat re) by lia. reflexivity.
Qed.

Lemma apply_rm_none : forall l' rs re cp, re < rs -> apply_rm l' (RDone rs re None) cp = Some (l', 0).
Proof. intros. cbn [apply_rm]. destruct (N.ltb_spec re rs); [reflexivity|lia]. Qed.

Lemma skipn_app_len : forall (p x : list ival) j, skipn (length p + j) (p ++ x) = skipn j x.
Proof. induction p as [|h p IH]; intros; cbn [length app]; [reflexivity|]. cbn [Nat.add skipn]. apply IH. Qed.

Lemma firstn_app_len : forall (p x : list ival) j, firstn (length p + j) (p ++ x) = p ++ firstn j x.
Proof. intros. apply firstn_app_2. Qed.

Lemma remove_at_unfold : forall emax l a si lim,
  remove_at emax l a si lim =
  let cp := match lim with Some lim => N.of_nat (length l) + 1 <? lim | None => true end in
  let qr := rscan emax (skipn (N.to_nat si) l) si a usize_max 0 cp in
  apply_rm (firstn (N.to_nat si) l ++ fst qr) (snd qr) cp.
Proof.
  intros. unfold remove_at. cbn zeta.
  destruct (rscan emax (skipn (N.to_nat si) l) si a usize_max 0 _) as [q' r]. cbn [fst snd].
  destruct r as [idx|rs re [p|]]; reflexivity.
Qed.

Definition idx_ok (res : list ival) (idx : N) (p : list ival) (a2 : N) : Prop :=
  idx = 0 \/ (idx <= N.of_nat (length res) /\ exists r, firstn (N.to_nat idx) res = p ++ r /\ forall b, In b r -> snd b <= a2).

Lemma idx_ok_at : forall p x k a2 r, N.of_nat (length p) = k -> firstn (length r) x = r ->
  (length r <= length x)%nat -> (forall b, In b r -> snd b <= a2) ->
  idx_ok (p ++ x) (k + N.of_nat (length r)) p a2.
Proof.
  intros p x k a2 r Hk Hf Hl Hr. right. split; [rewrite app_length; lia|]. exists r. split; [|assumption].
  replace (N.to_nat (k + N.of_nat (length r))) with (length p + length r)%nat by lia.
  rewrite firstn_app_len. f_equal. exact Hf.
Qed.

Ltac norm_idx p :=
  repeat match goal with
  | |- context [N.to_nat (N.of_nat (length p))] => rewrite Nat2N.id
  end.

Lemma cut_app : forall (p x : list ival) k i j, N.of_nat (length p) = k ->
  firstn (N.to_nat (k + N.of_nat i)) (p ++ x) ++ skipn (N.to_nat (k + N.of_nat j)) (p ++ x)
  = p ++ firstn i x ++ skipn j x.
Proof.
  intros p x k i j Hk.
  replace (N.to_nat (k + N.of_nat i)) with (length p + i)%nat by lia.
  replace (N.to_nat (k + N.of_nat j)) with (length p + j)%nat by lia.
  rewrite firstn_app_len, skipn_app_len, app_assoc. reflexivity.
Qed.

Lemma cut_app' : forall (p x : list ival) k i j rs re, N.of_nat (length p) = k ->
  rs = k + N.of_nat i -> re = k + N.of_nat j ->
  firstn (N.to_nat rs) (p ++ x) ++ skipn (N.to_nat re) (p ++ x) = p ++ firstn i x ++ skipn j x.
Proof. intros; subst rs re. apply cut_app; assumption. Qed.

Lemma rscan_main : forall emax cp q k p a1 a2,
  N.of_nat (length p) = k -> iswf emax q -> a1 <= a2 -> a2 <= emax ->
  k + N.of_nat (length q) < usize_max ->
  match apply_rm (p ++ fst (rscan emax q k (a1, a2) usize_max 0 cp))
                 (snd (rscan emax q k (a1, a2) usize_max 0 cp)) cp with
  | Some (res, idx) => res = p ++ ref_rem a1 a2 q /\ idx_ok res idx p a2 /\
                       ((length q < length (ref_rem a1 a2 q))%nat -> cp = true)
  | None => (length q < length (ref_rem a1 a2 q))%nat /\ cp = false
  end.
Proof.
  intros emax cp. induction q as [|b t IH]; intros k p a1 a2 Hk Hwf Ha Hae Hlen.
  - cbn [rscan fst snd]. rewrite apply_rm_none by (unfold usize_max, u64_max; lia).
    cbn [ref_rem length]. repeat split; [left; reflexivity|lia].
  - pose proof (wf_after _ _ _ Hwf) as Haft.
    pose proof Hwf as Hwf0. cbn [iswf] in Hwf. destruct Hwf as (Hbv & Hbm & Hgap & Hwft).
    destruct b as [c d]. cbn [fst snd length] in *.
    assert (Hmin : N.min usize_max k = k) by lia.
    assert (Hmin1 : N.min usize_max (k + 1) = k + 1) by lia.
    assert (Hmax1 : N.max 0 (k + 1) = k + 1) by lia.
    assert (Hmax0 : N.max 0 k = k) by lia.
    assert (Hbey : forall x, x <= d + 1 -> a1 <= x -> ref_rem a1 x t = t).
    { intros x Hx Hx'. eapply ref_rem_beyond; [eassumption|assumption|]. eapply gap_beyond; eassumption. }
    assert (Hk0 : k = k + N.of_nat 0) by lia.
    assert (Hk1 : k + 1 = k + N.of_nat 1) by lia.
    cbn [rscan fst snd].
    destruct (N.compare_spec a1 c) as [E1|L1|G1]; destruct (N.compare_spec a2 d) as [E2|L2|G2].
    + (* (Equal, Equal) *) subst a1 a2. cbn [ref_rem]. cbn [fst snd]. rewrite Hmin, Hmax1, apply_rm_cut by lia.
      rewrite (cut_app' p _ k 0%nat 1%nat) by (assumption || lia). cbn [firstn skipn app].
      destruct (N.ltb_spec d c); [lia|]. destruct (N.ltb_spec d c); [lia|]. destruct (N.ltb_spec c c); [lia|].
      destruct (N.ltb_spec d d); [lia|]. cbn [app]. rewrite Hbey by lia.
      split; [reflexivity|]. split; [|cbn [length]; lia].
      rewrite Hk0. apply (idx_ok_at p t _ d []); auto. cbn; lia. intros ? [].
    + (* (Equal, Less) *) subst a1. cbn [ref_rem]. cbn [fst snd apply_rm].
      unfold end_exclusive, step_up_sat. cbn [snd]. destruct (N.ltb_spec a2 emax); [|lia].
      destruct (N.ltb_spec d c); [lia|]. destruct (N.ltb_spec a2 c); [lia|]. destruct (N.ltb_spec c c); [lia|].
      destruct (N.ltb_spec a2 d); [|lia]. cbn [app]. rewrite Hbey by lia.
      split; [reflexivity|]. split; [|cbn [length]; lia].
      rewrite Hk0. apply (idx_ok_at p _ _ a2 []); auto. cbn; lia. intros ? [].
    + (* (Equal, Greater) *) subst a1. cbn [ref_rem].
      rewrite rscan_acc by lia.
      destruct (rscan_after emax cp t (k + 1) c a2 Hwft) as (t' & m & x & y & E & Hl' & Hm & Href & Hxy); try assumption; try lia.
      { intros b' Hb'. pose proof (Haft b' Hb'). lia. }
      rewrite E. cbn [fst snd rcombine].
      assert (Ers : N.min (N.min usize_max k) x = k) by (destruct Hxy as [(_ & -> & _)|(_ & -> & _)]; lia).
      assert (Ere : N.max (N.max 0 (k + 1)) y = k + N.of_nat (S m)).
      { destruct Hxy as [(-> & _ & [->| ->])|(_ & _ & ->)]; lia. }
      rewrite Ers, Ere, apply_rm_cut by lia.
      rewrite (cut_app' p _ k 0%nat (S m)) by (assumption || lia). cbn [firstn skipn app].
      destruct (N.ltb_spec d c); [lia|]. destruct (N.ltb_spec a2 c); [lia|]. destruct (N.ltb_spec c c); [lia|].
      destruct (N.ltb_spec a2 d); [lia|]. cbn [app]. rewrite Href.
      split; [reflexivity|]. split.
      * rewrite Hk0. apply (idx_ok_at p _ _ a2 []); auto. cbn; lia. intros ? [].
      * rewrite <- Href. cbn [length]. intros Hlt. exfalso.
        assert (length (ref_rem c a2 t) <= length t)%nat by (rewrite Href, skipn_length; lia). lia.
    + (* (Less, Equal) *) subst a2. cbn [ref_rem]. cbn [fst snd]. rewrite Hmin, Hmax1, apply_rm_cut by lia.
      rewrite (cut_app' p _ k 0%nat 1%nat) by (assumption || lia). cbn [firstn skipn app].
      destruct (N.ltb_spec d a1); [lia|]. destruct (N.ltb_spec d c); [lia|]. destruct (N.ltb_spec c a1); [lia|].
      destruct (N.ltb_spec d d); [lia|]. cbn [app]. rewrite Hbey by lia.
      split; [reflexivity|]. split; [|cbn [length]; lia].
      rewrite Hk0. apply (idx_ok_at p t _ d []); auto. cbn; lia. intros ? [].
    + (* (Less, Less) *) cbn [ref_rem].
      rewrite coalesce_lt by (cbn [snd]; lia). cbn [fst snd].
      destruct (N.ltb_spec d a1); [lia|].
      destruct (N.leb_spec c (a2 + 1)) as [Hco|Hno]; cbn [fst snd].
      * rewrite Hmax0, apply_rm_none by lia.
        unfold end_exclusive, step_up_sat. cbn [snd]. destruct (N.ltb_spec a2 emax); [|lia].
        split; [|split; [left; reflexivity|]].
        -- f_equal. destruct (N.ltb_spec a2 c).
           ++ replace (a2 + 1) with c by lia. reflexivity.
           ++ destruct (N.ltb_spec c a1); [lia|]. destruct (N.ltb_spec a2 d); [|lia]. cbn [app]. rewrite Hbey by lia. reflexivity.
        -- destruct (N.ltb_spec a2 c); [cbn [length]; lia|].
           destruct (N.ltb_spec c a1); [lia|]. destruct (N.ltb_spec a2 d); [|lia]. cbn [app]. rewrite Hbey by lia. cbn [length]; lia.
      * rewrite apply_rm_none by lia. destruct (N.ltb_spec a2 c); [|lia].
        split; [reflexivity|]. split; [left; reflexivity|cbn [length]; lia].
    + (* (Less, Greater) *) cbn [ref_rem].
      rewrite rscan_acc by lia.
      destruct (rscan_after emax cp t (k + 1) a1 a2 Hwft) as (t' & m & x & y & E & Hl' & Hm & Href & Hxy); try assumption; try lia.
      { intros b' Hb'. pose proof (Haft b' Hb'). lia. }
      rewrite E. cbn [fst snd rcombine].
      assert (Ers : N.min (N.min usize_max k) x = k) by (destruct Hxy as [(_ & -> & _)|(_ & -> & _)]; lia).
      assert (Ere : N.max (N.max 0 (k + 1)) y = k + N.of_nat (S m)).
      { destruct Hxy as [(-> & _ & [->| ->])|(_ & _ & ->)]; lia. }
      rewrite Ers, Ere, apply_rm_cut by lia.
      rewrite (cut_app' p _ k 0%nat (S m)) by (assumption || lia). cbn [firstn skipn app].
      destruct (N.ltb_spec d a1); [lia|]. destruct (N.ltb_spec a2 c); [lia|]. destruct (N.ltb_spec c a1); [lia|].
      destruct (N.ltb_spec a2 d); [lia|]. cbn [app]. rewrite Href.
      split; [reflexivity|]. split.
      * rewrite Hk0. apply (idx_ok_at p _ _ a2 []); auto. cbn; lia. intros ? [].
      * rewrite <- Href. cbn [length]. intros Hlt. exfalso.
        assert (length (ref_rem a1 a2 t) <= length t)%nat by (rewrite Href, skipn_length; lia). lia.
    + (* (Greater, Equal) *) subst a2. cbn [ref_rem]. cbn [fst snd apply_rm]. unfold start_exclusive, step_down_sat. cbn [fst].
      destruct (N.ltb_spec d a1); [lia|]. destruct (N.ltb_spec d c); [lia|]. destruct (N.ltb_spec c a1); [|lia].
      destruct (N.ltb_spec d d); [lia|]. cbn [app]. rewrite Hbey by lia.
      split; [reflexivity|]. split; [|cbn [length]; lia].
      rewrite Hk1. apply (idx_ok_at p _ _ d [(c, a1 - 1)]); auto. cbn; lia.
      intros ? [<-|[]]. cbn [snd]. lia.
    + (* (Greater, Less): split *) cbn [ref_rem].
      destruct (N.ltb_spec d a1); [lia|]. destruct (N.ltb_spec a2 c); [lia|]. destruct (N.ltb_spec c a1); [|lia].
      destruct (N.ltb_spec a2 d); [|lia]. cbn [app]. rewrite Hbey by lia.
      destruct cp; cbn [fst snd apply_rm].
      * rewrite Hmin1. unfold start_exclusive, step_down_sat, end_exclusive, step_up_sat. cbn [fst snd].
        destruct (N.ltb_spec a2 emax); [|lia].
        replace (N.to_nat (k + 1)) with (length p + 1)%nat by lia.
        rewrite firstn_app_len, skipn_app_len. cbn [firstn skipn].
        split; [rewrite <- app_assoc; reflexivity|]. split; [|reflexivity].
        rewrite <- app_assoc. cbn [app]. rewrite Hk1. apply (idx_ok_at p _ _ a2 [(c, a1 - 1)]); auto. cbn; lia.
        intros ? [<-|[]]. cbn [snd]. lia.
      * split; [cbn [length]; lia|reflexivity].
    + (* (Greater, Greater) *)
      rewrite coalesce_lt by (cbn [snd]; lia). cbn [fst snd].
      destruct (N.leb_spec a1 (d + 1)) as [Hco|Hno].
      * rewrite rscan_acc by lia.
        destruct (rscan_after emax cp t (k + 1) a1 a2 Hwft) as (t' & m & x & y & E & Hl' & Hm & Href & Hxy); try assumption; try lia.
        { intros b' Hb'. pose proof (Haft b' Hb'). lia. }
        rewrite E. cbn [fst snd rcombine]. unfold start_exclusive, step_down_sat. cbn [fst].
        assert (Hres : ref_rem a1 a2 (@cons ival (c, d) t) = @cons ival (c, a1 - 1) (skipn m t')).
        { cbn [ref_rem]. destruct (N.ltb_spec d a1).
          - replace (a1 - 1) with d by lia. rewrite Href. reflexivity.
          - destruct (N.ltb_spec a2 c); [lia|]. destruct (N.ltb_spec c a1); [|lia]. destruct (N.ltb_spec a2 d); [lia|].
            cbn [app]. rewrite Href. reflexivity. }
        assert (Hlenres : (length (@cons ival (c, (a1 - 1)%N) (skipn m t')) <= S (length t))%nat) by (cbn [length]; rewrite skipn_length; lia).
        destruct Hxy as [(-> & -> & [-> | ->])|(Hm0 & -> & ->)].
        -- rewrite Hmin1. replace (N.min (k + 1) usize_max) with (k + 1) by lia. replace (N.max 0 0) with 0 by lia.
           rewrite apply_rm_none by lia. rewrite Hres. cbn [skipn]. split; [reflexivity|]. split; [left; reflexivity|]. cbn [length skipn] in *. lia.
        -- rewrite Hmin1. replace (N.min (k + 1) usize_max) with (k + 1) by lia. replace (N.max 0 (k + 1)) with (k + 1) by lia.
           rewrite apply_rm_cut by lia. rewrite Hres. rewrite firstn_skipn. cbn [skipn]. split; [reflexivity|]. split; [|cbn [length skipn] in *; lia].
           rewrite Hk1. apply (idx_ok_at p _ _ a2 [(c, a1 - 1)]); auto. cbn; lia. intros ? [<-|[]]. cbn [snd]. lia.
        -- rewrite Hmin1. replace (N.min (k + 1) (k + 1)) with (k + 1) by lia.
           replace (N.max 0 (k + 1 + N.of_nat m)) with (k + N.of_nat (S m)) by lia.
           rewrite apply_rm_cut by lia. rewrite Hres. rewrite (cut_app' p _ k 1%nat (S m)) by (assumption || lia). cbn [firstn skipn app].
           split; [reflexivity|]. split; [|cbn [length] in *; lia].
           rewrite Hk1. apply (idx_ok_at p _ _ a2 [(c, a1 - 1)]); auto. cbn; lia. intros ? [<-|[]]. cbn [snd]. lia.
      * cbn [ref_rem]. destruct (N.ltb_spec d a1); [|lia].
        specialize (IH (k + 1) (p ++ @cons ival (c, d) nil) a1 a2).
        rewrite app_length in IH. cbn [length] in IH. specialize (IH ltac:(lia) Hwft Ha Hae ltac:(lia)).
        destruct (rscan emax t (k + 1) (a1, a2) usize_max 0 cp) as [t' r]. cbn [fst snd] in *.
        rewrite <- app_assoc in IH. cbn [app] in IH.
        match goal with |- match ?X with _ => _ end => match type of IH with match ?Y with _ => _ end => change X with Y end end.
        match type of IH with match ?Y with _ => _ end => destruct Y as [[res idx]|] end.
        -- destruct IH as (Hres & Hidx & Hcp). rewrite <- app_assoc in Hres. cbn [app] in Hres.
           split; [exact Hres|]. split; [|cbn [length]; intros; apply Hcp; lia].
           destruct Hidx as [->|(Hb0 & r0 & Hr0 & Hr1)]; [left; reflexivity|]. right. split; [exact Hb0|]. exists ((c, d) :: r0).
           rewrite <- app_assoc in Hr0. cbn [app] in Hr0. split; [exact Hr0|].
           intros b' [<-|Hb']; [cbn [snd]; lia|auto].
        -- destruct IH as [H1 H2]. split; [cbn [length]; lia|exact H2].
Qed.
