(* C14: the preferred_address and dc_supported_versions codecs against their RFC-table rules, and the
   acceptance theorem without the restriction to the other parameters. *)
From SQ Require Import lib.Base lib.C14Fmt gen.Gen_C14.
From SQ Require Import model.TransportParams model.Rfc18_2 model.TpClass proofs.TransportParamsProofs.
Local Open Scope N_scope.

(* ---------- dc_supported_versions ---------- *)
Lemma len_app1 : forall (l : list N) x, len (l ++ [x]) = len l + 1.
Proof. intros. unfold len. rewrite app_length. simpl. lia. Qed.

Lemma vers_loop_dc_rule : forall fuel b acc n, wf_bytes b = true -> (length b < fuel)%nat ->
  len acc + N.of_nat n = 4 -> (1 <= n)%nat ->
  match vers_loop fuel b acc with
  | Ok _ => dc_rule fuel n b = MustAccept
  | Err _ => dc_rule fuel n b = MustReject
  end.
Proof.
  induction fuel; intros b acc n W L A N1; [lia |].
  cbn [vers_loop dc_rule]. destruct (is_nil b) eqn:En; [reflexivity |].
  destruct n as [| n']; [lia |].
  rewrite <- (vi_decode_rvi b W).
  destruct (vi_decode b) as [[x r] |] eqn:E; [| reflexivity].
  pose proof (vi_decode_shrinks _ _ _ E) as Sh. pose proof (vi_decode_wf _ _ _ W E) as Wr.
  unfold dc_version_max. destruct (x <=? 4294967295); cbn [negb]; [| reflexivity].
  rewrite len_app1. unfold dc_versions_max_len.
  destruct (N.ltb_spec (len acc + 1) 4) as [Q | Q].
  - apply IHfuel; [exact Wr | lia | rewrite len_app1; lia | lia].
  - assert (n' = 0)%nat by lia. subst n'.
    destruct fuel as [| k]; [destruct b; simpl in *; lia |].
    cbn [dc_rule]. destruct (is_nil r); reflexivity.
Qed.

Lemma table_dcv : forall server v, wf_bytes v = true ->
  (entry_verdict server (fid FDcv, v) = MustReject -> codec_ok FDcv v = None) /\
  (entry_verdict server (fid FDcv, v) = MustAccept -> codec_ok FDcv v <> None).
Proof.
  intros server v W.
  change (entry_verdict server (fid FDcv, v)) with (dc_rule (S (length v)) 4 v).
  unfold codec_ok. change (codec_of FDcv) with CVers. cbn [decode_value].
  pose proof (vers_loop_dc_rule (S (length v)) v [] 4 W (Nat.lt_succ_diag_r _) eq_refl) as H.
  specialize (H ltac:(lia)).
  destruct (vers_loop (S (length v)) v []) as [l | e]; rewrite H; split; try congruence.
  intros _. cbn [is_nil validate andb]. congruence.
Qed.

(* ---------- preferred_address ---------- *)
Lemma is_nil_len : forall {A} (l : list A), is_nil l = (len l =? 0).
Proof. destruct l; reflexivity. Qed.

Lemma len_take : forall {A} n (l : list A), len (take n l) = N.min n (len l).
Proof. intros. unfold len, take. rewrite firstn_length. lia. Qed.

Lemma skipn_add : forall {A} a b (l : list A), skipn a (skipn b l) = skipn (b + a) l.
Proof.
  induction b; intros l; [reflexivity |].
  destruct l as [| x t]; [simpl; destruct a; reflexivity |]. simpl. apply IHb.
Qed.
Lemma drop_drop : forall {A} a b (l : list A), drop a (drop b l) = drop (b + a) l.
Proof.
  intros. unfold drop. rewrite skipn_add. f_equal. lia.
Qed.

Lemma firstn1_skipn : forall n (l : list N), (n < length l)%nat -> firstn 1 (skipn n l) = [nth n l 0].
Proof.
  induction n; intros [| x t] H; simpl in *; try lia; [reflexivity |].
  apply IHn. lia.
Qed.

Lemma firstn_add : forall {A} a b (l : list A), firstn (a + b) l = firstn a l ++ firstn b (skipn a l).
Proof.
  induction a; intros b l; [reflexivity |].
  destruct l as [| x t]; [simpl; destruct b; reflexivity |].
  simpl. f_equal. apply IHa.
Qed.

Lemma all_zero_24 : forall v,
  all_zero (take 24 v) = all_zero (take 6 v) && all_zero (take 18 (drop 6 v)).
Proof.
  intros v. unfold all_zero, take, drop.
  change (N.to_nat 24) with (6 + 18)%nat. change (N.to_nat 6) with 6%nat. change (N.to_nat 18) with 18%nat.
  rewrite firstn_add, forallb_app. reflexivity.
Qed.

Lemma be_take1_nth : forall v, 25 <= len v -> be (take 1 (drop 24 v)) = nth 24 v 0.
Proof.
  intros v H. unfold take, drop. change (N.to_nat 1) with 1%nat. change (N.to_nat 24) with 24%nat.
  rewrite firstn1_skipn; [apply be_single | unfold len in H; lia].
Qed.

Lemma table_pa : forall server v,
  (entry_verdict server (fid FPa, v) = MustReject -> enabled server FPa = false \/ codec_ok FPa v = None) /\
  (entry_verdict server (fid FPa, v) = MustAccept -> enabled server FPa = true /\ codec_ok FPa v <> None).
Proof.
  intros server v.
  change (entry_verdict server (fid FPa, v)) with (server_only server (pref_rule v)).
  rewrite (enabled_server_only server FPa I). unfold server_only.
  destruct server; [| split; [auto | congruence]].
  unfold codec_ok. change (codec_of FPa) with CPref. cbn [decode_value].
  unfold decode_pref, pref_rule, pref_wellformed, pref_cid_len. cbv zeta.
  unfold preferred_address_cid_len_bytes, cid_min_len_preferred_address, cid_max_len, stateless_reset_token_len.
  rewrite !drop_drop. rewrite !len_drop. change (6 + 18) with 24. change (24 + 1) with 25.
  destruct (N.ltb_spec (len v) 6) as [L1 | L1].
  { assert (E : (25 <=? len v) = false) by (apply N.leb_gt; lia). rewrite E. cbn [andb negb].
    split; [auto | congruence]. }
  destruct (N.ltb_spec (len v - 6) 18) as [L2 | L2].
  { assert (E : (25 <=? len v) = false) by (apply N.leb_gt; lia). rewrite E. cbn [andb negb].
    split; [auto | congruence]. }
  destruct (N.ltb_spec (len v - 24) 1) as [L3 | L3].
  { assert (E : (25 <=? len v) = false) by (apply N.leb_gt; lia). rewrite E. cbn [andb negb].
    split; [auto | congruence]. }
  assert (L25 : 25 <= len v) by lia.
  rewrite (be_take1_nth v L25).
  assert (E25 : (25 <=? len v) = true) by (apply N.leb_le; exact L25). rewrite E25. cbn [andb].
  set (l := nth 24 v 0).
  destruct (N.ltb_spec (len v - 25) l) as [L4 | L4].
  { assert (E : (len v =? 25 + l + 16) = false) by (apply N.eqb_neq; lia). rewrite E. cbn [andb negb].
    split; [auto | congruence]. }
  assert (Z0 : (0 <=? l) = true) by (apply N.leb_le; lia). rewrite Z0. cbn [andb].
  destruct (N.leb_spec l 20) as [L5 | L5]; cbn [negb].
  2: { rewrite andb_false_r. cbn [negb]. split; [auto | congruence]. }
  rewrite andb_true_r.
  destruct (N.ltb_spec (len v - (25 + l)) 16) as [L6 | L6].
  { assert (E : (len v =? 25 + l + 16) = false) by (apply N.eqb_neq; lia). rewrite E. cbn [negb].
    split; [auto | congruence]. }
  rewrite is_nil_len, len_drop.
  destruct (N.eqb_spec (len v) (25 + l + 16)) as [E | E]; cbn [negb].
  2: { assert (E2 : (len v - (25 + l + 16) =? 0) = false) by (apply N.eqb_neq; lia). rewrite E2. cbn [andb].
       split; [auto | congruence]. }
  assert (E2 : (len v - (25 + l + 16) =? 0) = true) by (apply N.eqb_eq; lia). rewrite E2. cbn [andb].
  cbn [validate]. unfold preferred_address_rejects_unspecified, preferred_address_rejects_empty_cid,
    pref_unspecified. cbn [p4 p6 pcid].
  rewrite is_nil_len, len_take, len_drop.
  rewrite all_zero_24.
  destruct (N.eqb_spec l 0) as [El | El].
  - assert (E3 : (N.min l (len v - 25) =? 0) = true) by (apply N.eqb_eq; lia). rewrite E3.
    cbn [negb]. rewrite andb_false_r. split; [auto | congruence].
  - assert (E3 : (N.min l (len v - 25) =? 0) = false) by (apply N.eqb_neq; lia). rewrite E3.
    cbn [negb]. rewrite andb_true_r.
    destruct (all_zero (take 6 v)); destruct (all_zero (take 18 (drop 6 v))); cbn [andb negb];
      split; intros; try congruence; auto; split; congruence.
Qed.

(* ---------- every parameter ---------- *)
Lemma table_all : forall server f v, wf_bytes v = true ->
  (entry_verdict server (fid f, v) = MustReject -> enabled server f = false \/ codec_ok f v = None) /\
  (entry_verdict server (fid f, v) = MustAccept -> dev_class server (fid f, v) = 0 ->
     enabled server f = true /\ codec_ok f v <> None).
Proof.
  intros server f v W. destruct (easy_field f) eqn:E; [exact (table_easy server f v W E) |].
  destruct f; try discriminate.
  - destruct (table_pa server v) as [A B]. split; [exact A | intros H _; exact (B H)].
  - destruct (table_dcv server v W) as [A B].
    split; [intros H; right; exact (A H)
           | intros H _; split; [apply enabled_common; exact I | exact (B H)]].
Qed.

Definition wf_entries (es : list (N * list N)) : Prop := Forall (fun e => wf_bytes (snd e) = true) es.

Lemma process_reject_all : forall server es s, wf_entries es ->
  existsb (used_id s) es = true \/ dup_known es = true \/
  existsb (fun e => is_reject (entry_verdict server e)) es = true ->
  process server es s = None.
Proof.
  induction es as [| [id v] t IH]; intros s Ez H.
  - simpl in H. destruct H as [H | [H | H]]; discriminate.
  - inversion Ez as [| ? ? Wv Ez']; subst. cbn [process fst snd].
    cbn [existsb dup_known] in H. unfold used_id at 1 in H. cbn [fst snd] in H, Wv.
    rewrite known_lookup in H.
    destruct (lookup id) as [f |] eqn:Lk.
    + destruct (value_step server f v s) as [s' |] eqn:V; [| reflexivity].
      destruct (value_step_some _ _ _ _ _ V) as [En [Us [x [Cx ->]]]].
      pose proof (lookup_some _ _ Lk) as Fid.
      apply IH; [exact Ez' |].
      rewrite Us in H. cbn [orb andb] in H.
      destruct H as [H | [H | H]].
      * left. apply existsb_exists in H. destruct H as [e [In1 U]]. apply existsb_exists. exists e. split; [exact In1 |].
        unfold used_id in *. destruct (lookup (fst e)) as [g |]; [| discriminate].
        unfold used in *. cbn [existsb fst]. rewrite U. apply orb_true_r.
      * apply orb_true_iff in H. destruct H as [H | H]; [| right; left; exact H].
        left. apply existsb_exists in H. destruct H as [e [In1 U]]. apply existsb_exists. exists e. split; [exact In1 |].
        apply N.eqb_eq in U. unfold used_id. rewrite U, Lk. unfold used. cbn [existsb fst].
        rewrite field_eqb_refl. reflexivity.
      * apply orb_true_iff in H. destruct H as [H | H]; [| right; right; exact H].
        exfalso. destruct (table_all server f v Wv) as [A _]. rewrite Fid in A.
        destruct (entry_verdict server (id, v)) eqn:EV; try discriminate.
        destruct (A eq_refl) as [A1 | A1]; congruence.
    + apply IH; [exact Ez' |]. cbn [orb andb] in H.
      destruct H as [H | [H | H]]; [left; exact H | right; left; exact H |].
      right. right. unfold entry_verdict at 1 in H. cbn [fst] in H.
      rewrite (lookup_none_rfc id Lk) in H. exact H.
Qed.


Lemma process_accept_all : forall server es s, wf_entries es ->
  existsb (used_id s) es = false -> dup_known es = false ->
  forallb (fun e => is_accept (entry_verdict server e)) es = true ->
  has_dev server es = false ->
  exists s', process server es s = Some s'.
Proof.
  induction es as [| [id v] t IH]; intros s Ez U D A Dev.
  - exists s. reflexivity.
  - inversion Ez as [| ? ? Wv Ez']; subst. cbn [process fst snd].
    cbn [existsb dup_known forallb] in U, D, A. unfold has_dev in Dev. cbn [existsb] in Dev.
    apply orb_false_iff in U. destruct U as [U1 U2].
    apply orb_false_iff in D. destruct D as [D1 D2].
    apply andb_true_iff in A. destruct A as [A1 A2].
    apply orb_false_iff in Dev. destruct Dev as [V1 V2].
    unfold used_id in U1. cbn [fst snd] in U1, Wv. rewrite known_lookup in D1. cbn [fst] in D1.
    destruct (lookup id) as [f |] eqn:Lk.
    + pose proof (lookup_some _ _ Lk) as Fid.
      destruct (table_all server f v Wv) as [_ T]. rewrite Fid in T.
      destruct (entry_verdict server (id, v)) eqn:EV; try discriminate.
      apply negb_false_iff in V1. apply N.eqb_eq in V1.
      destruct (T eq_refl V1) as [En Cx].
      destruct (codec_ok f v) as [x |] eqn:Cv; [| congruence].
      assert (VS : value_step server f v s = Some ((f, x) :: s)).
      { unfold value_step. rewrite En, U1, Cv. reflexivity. }
      rewrite VS. apply IH; auto.
      cbn [andb] in D1.
      destruct (existsb (used_id ((f, x) :: s)) t) eqn:X; [| reflexivity]. exfalso.
      apply existsb_exists in X. destruct X as [e [In1 X]].
      unfold used_id in X. destruct (lookup (fst e)) as [g |] eqn:Lg; [| discriminate].
      unfold used in X. cbn [existsb fst] in X. apply orb_true_iff in X. destruct X as [X | X].
      * apply field_eqb_eq in X. subst g. apply lookup_some in Lg.
        assert (existsb (fun x0 => fst x0 =? id) t = true); [| congruence].
        apply existsb_exists. exists e. split; [exact In1 |]. apply N.eqb_eq. congruence.
      * assert (existsb (used_id s) t = true); [| congruence].
        apply existsb_exists. exists e. split; [exact In1 |]. unfold used_id. rewrite Lg. exact X.
    + apply IH; auto.
Qed.

Lemma accept_iff_rfc : forall server blk es, wf_bytes blk = true ->
  rfc_entries (S (length blk)) blk = Some es -> has_dev server es = false ->
  (rfc_verdict server blk = MustAccept -> impl_accept server blk = true) /\
  (rfc_verdict server blk = MustReject -> impl_accept server blk = false).
Proof.
  intros server blk es W R ND.
  pose proof (entries_wf _ _ _ W R) as Ez.
  unfold rfc_verdict, impl_accept, decode_parameters. rewrite R.
  pose proof (loop_spec server (S (length blk)) blk [] W (Nat.lt_succ_diag_r _)) as L.
  unfold entries_verdict. split; intros V.
  - destruct (dup_known es || existsb (fun e => is_reject (entry_verdict server e)) es) eqn:A; [discriminate |].
    destruct (dup_unknown es || existsb (fun e => is_unspec (entry_verdict server e)) es) eqn:B; [discriminate |].
    apply orb_false_iff in A. destruct A as [A1 A2]. apply orb_false_iff in B. destruct B as [_ B2].
    assert (AA : forallb (fun e => is_accept (entry_verdict server e)) es = true).
    { apply forallb_forall. intros e In1.
      assert (X1 : is_reject (entry_verdict server e) = false).
      { destruct (is_reject (entry_verdict server e)) eqn:X; [| reflexivity].
        assert (existsb (fun e => is_reject (entry_verdict server e)) es = true); [| congruence].
        apply existsb_exists. eauto. }
      assert (X2 : is_unspec (entry_verdict server e) = false).
      { destruct (is_unspec (entry_verdict server e)) eqn:X; [| reflexivity].
        assert (existsb (fun e => is_unspec (entry_verdict server e)) es = true); [| congruence].
        apply existsb_exists. eauto. }
      destruct (entry_verdict server e); simpl in *; congruence. }
    assert (U0 : existsb (used_id []) es = false).
    { destruct (existsb (used_id []) es) eqn:X; [| reflexivity].
      apply existsb_exists in X. destruct X as [e [_ X]]. unfold used_id in X.
      destruct (lookup (fst e)); discriminate. }
    destruct (process_accept_all server es [] Ez U0 A1 AA ND) as [s' P].
    destruct (loop (S (length blk)) server blk []); [reflexivity |].
    destruct L as [_ [L | [es' [R' P']]]]; congruence.
  - destruct (dup_known es || existsb (fun e => is_reject (entry_verdict server e)) es) eqn:A.
    2: { destruct (dup_unknown es || existsb (fun e => is_unspec (entry_verdict server e)) es); discriminate. }
    apply orb_true_iff in A.
    assert (P : process server es [] = None).
    { apply process_reject_all; [exact Ez |]. destruct A as [A | A]; auto. }
    destruct (loop (S (length blk)) server blk []); [| reflexivity].
    destruct L as [es' [R' P']]. congruence.
Qed.


(* the accept/reject part of the executable judgement accepts every run of the model *)
Lemma judge_verdict_run_all : forall c es,
  wf_bytes (case_block c) = true ->
  rfc_entries (S (length (case_block c))) (case_block c) = Some es ->
  has_dev (case_server c) es = false ->
  (entries_verdict (case_server c) es = MustReject -> rejected (TransportParams.run c) = true) /\
  (entries_verdict (case_server c) es = MustAccept -> rejected (TransportParams.run c) = false).
Proof.
  intros c es W R ND.
  destruct (accept_iff_rfc (case_server c) (case_block c) es W R ND) as [A B].
  unfold rfc_verdict in A, B. rewrite R in A, B. unfold TransportParams.run, impl_accept in *.
  split; intros V.
  - specialize (B V). destruct (decode_parameters (case_server c) (case_block c)); [discriminate | reflexivity].
  - specialize (A V). destruct (decode_parameters (case_server c) (case_block c)); [reflexivity | discriminate].
Qed.

(* ---------- session level: the connection id authentication is RFC 9000 7.3 ---------- *)
Lemma bytes_eqb_eq : forall a b, bytes_eqb a b = true <-> a = b.
Proof.
  induction a as [| x a IH]; intros [| y b]; simpl; split; intros H; try congruence; try discriminate.
  - apply andb_true_iff in H. destruct H as [H1 H2]. apply N.eqb_eq in H1. apply IH in H2. congruence.
  - inversion H; subst. rewrite N.eqb_refl. simpl. apply IH. reflexivity.
Qed.

Lemma cid_matches_eqb : forall o x,
  cid_matches (VBytes o) x = match o with Some c => bytes_eqb c x | None => false end.
Proof.
  intros [c |] x; [| reflexivity]. unfold cid_matches.
  destruct (list_eq_dec N.eq_dec c x) as [E | E].
  - symmetry. apply bytes_eqb_eq. exact E.
  - destruct (bytes_eqb c x) eqn:B; [apply bytes_eqb_eq in B; contradiction | reflexivity].
Qed.

Lemma process_declared_ok : forall server f es s0 s, process server es s0 = Some s -> used f s0 = false ->
  forall e, find (fun e => fst e =? fid f) es = Some e -> codec_ok f (snd e) <> None.
Proof.
  induction es as [| [id v] t IH]; intros s0 s P U e F; [discriminate |].
  cbn [process find fst snd] in P, F.
  destruct (N.eqb_spec id (fid f)) as [Q | Q].
  - inversion F; subst e id. cbn [snd]. rewrite lookup_fid in P.
    destruct (value_step server f v s0) as [s1 |] eqn:V; [| discriminate].
    destruct (value_step_some _ _ _ _ _ V) as [_ [_ [x [Cx _]]]]. congruence.
  - destruct (lookup id) as [g |] eqn:Lk.
    + destruct (value_step server g v s0) as [s1 |] eqn:V; [| discriminate].
      destruct (value_step_some _ _ _ _ _ V) as [_ [_ [x [_ ->]]]].
      apply (IH _ _ P); [| exact F].
      unfold used in *. cbn [existsb fst]. rewrite U, orb_false_r.
      destruct (field_eqb g f) eqn:E; [| reflexivity].
      apply field_eqb_eq in E. subst g. apply lookup_some in Lk. congruence.
    + apply (IH _ _ P U e F).
Qed.

Lemma get_cid_declared : forall server blk s es f, wf_bytes blk = true ->
  decode_parameters server blk = Ok s -> rfc_entries (S (length blk)) blk = Some es ->
  match f with FOdcid | FIscid | FRscid => True | _ => False end ->
  get f s = VBytes (declared (fid f) es).
Proof.
  intros server blk s es f W D R Hf.
  destruct (decode_is_process server blk s W D) as [es' [R' P]].
  rewrite R in R'. inversion R'; subst es'.
  rewrite (process_get server es [] s P f). cbn [used existsb].
  unfold declared_value, declared.
  destruct (find (fun e => fst e =? fid f) es) as [e |] eqn:F.
  - pose proof (process_declared_ok server f es [] s P eq_refl e F) as OK.
    destruct f; try contradiction.
    + rewrite (codec_ok_cid FOdcid 8 20 (snd e) eq_refl I) in *.
      destruct ((8 <=? len (snd e)) && (len (snd e) <=? 20)); [reflexivity | congruence].
    + rewrite (codec_ok_cid FIscid 0 20 (snd e) eq_refl I) in *.
      destruct ((0 <=? len (snd e)) && (len (snd e) <=? 20)); [reflexivity | congruence].
    + rewrite (codec_ok_cid FRscid 4 20 (snd e) eq_refl I) in *.
      destruct ((4 <=? len (snd e)) && (len (snd e) <=? 20)); [reflexivity | congruence].
  - destruct f; try contradiction; reflexivity.
Qed.

(* an accepted block: the session goes on exactly when RFC 9000 7.3 does not oblige it to fail, and
   otherwise fails with TRANSPORT_PARAMETER_ERROR *)
Lemma session_is_7_3 : forall server blk s es peer retry initial, wf_bytes blk = true ->
  decode_parameters server blk = Ok s -> rfc_entries (S (length blk)) blk = Some es ->
  session server blk peer retry initial =
    if auth_fails server es retry initial peer then SError 8 else SAccept.
Proof.
  intros server blk s es peer retry initial W D R.
  pose proof (get_cid_declared server blk s es FIscid W D R I) as GI.
  pose proof (get_cid_declared server blk s es FOdcid W D R I) as GO.
  pose proof (get_cid_declared server blk s es FRscid W D R I) as GR.
  unfold session. rewrite D. cbv zeta. rewrite GI, GO, GR. rewrite !cid_matches_eqb.
  unfold auth_fails, declared_is, present.
  change (fid FIscid) with 15. change (fid FOdcid) with 0. change (fid FRscid) with 16.
  change transport_parameter_error_code with 8.
  destruct (declared 15 es) as [i |]; [destruct (bytes_eqb i peer) |]; cbn [negb orb]; try reflexivity.
  destruct server; cbn [andb]; [| reflexivity].
  destruct retry as [r |]; destruct (declared 16 es) as [d |]; cbn [negb orb]; rewrite ?cid_matches_eqb;
    destruct (declared 0 es) as [o |];
    repeat match goal with |- context [bytes_eqb ?x ?y] => destruct (bytes_eqb x y) end;
    reflexivity.
Qed.

Definition sess_out (r : session_result) : list Z :=
  match r with SAccept => [0%Z] | SError code => [1%Z; Nz code] end.

Lemma judge_sess_core : forall server blk peer retry initial, wf_bytes blk = true ->
  (forall es, rfc_entries (S (length blk)) blk = Some es -> has_dev server es = false) ->
  let out := sess_out (session server blk peer retry initial) in
  match rfc_entries (S (length blk)) blk with
  | None => failed_with_permitted_code out
  | Some es =>
      if auth_fails server es retry initial peer then failed_with_permitted_code out
      else match entries_verdict server es with
           | MustReject => failed_with_permitted_code out
           | MustAccept => list_Z_eqb out [0%Z]
           | Unspecified => list_Z_eqb out [0%Z] || failed_with_permitted_code out
           end
  end = true.
Proof.
  intros server blk peer retry initial W ND. cbv zeta.
  destruct (rfc_entries (S (length blk)) blk) as [es |] eqn:R.
  - specialize (ND es eq_refl).
    destruct (accept_iff_rfc server blk es W R ND) as [A B].
    unfold rfc_verdict in A, B. rewrite R in A, B.
    destruct (decode_parameters server blk) as [s |] eqn:D.
    + rewrite (session_is_7_3 server blk s es peer retry initial W D R).
      destruct (auth_fails server es retry initial peer); [reflexivity |].
      destruct (entries_verdict server es); try reflexivity.
      specialize (B eq_refl). unfold impl_accept in B. rewrite D in B. discriminate.
    + assert (S8 : session server blk peer retry initial = SError 8).
      { apply (proj1 (error_code server blk peer retry initial)). unfold impl_accept. rewrite D. reflexivity. }
      rewrite S8. destruct (auth_fails server es retry initial peer); [reflexivity |].
      destruct (entries_verdict server es); try reflexivity.
      specialize (A eq_refl). unfold impl_accept in A. rewrite D in A. discriminate.
  - pose proof (malformed_rejected server blk W R) as M.
    rewrite (proj1 (error_code server blk peer retry initial) M). reflexivity.
Qed.

(* the executable 7.3 judgement accepts every run of the model of session_context.rs *)
Lemma judge_sess_run : forall c,
  let c4 := snd (read_bytes (snd (read_bytes (snd (read_bytes (tl (tl c))))))) in
  wf_bytes (map zN c4) = true ->
  (forall es, rfc_entries (S (length (map zN c4))) (map zN c4) = Some es ->
     has_dev (negb (hd 0%Z c =? 0)%Z) es = false) ->
  judge_sess c (sess_run c) = true.
Proof.
  intros c c4 W ND. subst c4.
  unfold judge_sess, sess_run.
  change field_bytes with read_bytes.
  destruct (read_bytes (tl (tl c))) as [retry c2]. cbn [snd] in *.
  destruct (read_bytes c2) as [odcid c3]. cbn [snd] in *.
  destruct (read_bytes c3) as [peer c4]. cbn [snd] in *.
  pose proof (judge_sess_core (negb (hd 0%Z c =? 0)%Z) (map zN c4) peer
                (if negb (hd 0%Z (tl c) =? 0)%Z then Some retry else None) odcid W ND) as J.
  cbv zeta in J. unfold sess_out in J.
  destruct (session (negb (hd 0%Z c =? 0)%Z) (map zN c4) peer
              (if negb (hd 0%Z (tl c) =? 0)%Z then Some retry else None) odcid); exact J.
Qed.
