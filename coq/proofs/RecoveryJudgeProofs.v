(* The manager judgement (with one timer granularity of slack on the age, Recovery.judge_tol) accepts
   every run of the model (histories without a space discard). *)
From SQ Require Import lib.Base gen.Gen_C09 model.RecTime model.Rtt model.Loss model.Pto model.Recovery.
From SQ Require Import proofs.LossProofs proofs.RecoveryProofs.
From SQ Require proofs.RttProofs.
From Coq Require Import ZifyBool ZifyN Sorting.Sorted.
Local Open Scope N_scope.

Lemma zN_Nz : forall x, zN (Nz x) = x.
Proof. intros. unfold zN, Nz. apply N2Z.id. Qed.

Lemma firstn_len_app {A} : forall (l r : list A), firstn (length l) (l ++ r) = l.
Proof. induction l as [|x l IH]; intros r; cbn [length firstn app]; [reflexivity|]. rewrite IH. reflexivity. Qed.
Lemma skipn_len_app {A} : forall (l r : list A), skipn (length l) (l ++ r) = r.
Proof. induction l as [|x l IH]; intros r; cbn [length skipn app]; [reflexivity|]. apply IH. Qed.

Lemma map_zN_Nz : forall l, map zN (map Nz l) = l.
Proof. induction l as [|x l IH]; cbn [map]; [reflexivity|]. rewrite zN_Nz, IH. reflexivity. Qed.

Lemma pairs_hull_z : forall l, pairs (hull_z l) = l.
Proof.
  induction l as [|[a b] l IH]; [reflexivity|]. unfold hull_z in *. cbn [flat_map app fst snd pairs].
  rewrite !zN_Nz, IH. reflexivity.
Qed.
Lemma length_hull_z : forall l, length (hull_z l) = (2 * length l)%nat.
Proof. induction l as [|[a b] l IH]; [reflexivity|]. unfold hull_z in *. cbn [flat_map app length]. rewrite IH. lia. Qed.

Lemma length_ins_h : forall h l, length (ins_h h l) = S (length l).
Proof.
  induction l as [|x l IH]; cbn [ins_h length]; [reflexivity|].
  destruct ((fst h <? fst x) || ((fst h =? fst x) && (snd h <=? snd x))); cbn [length]; [reflexivity|]. rewrite IH. reflexivity.
Qed.
Lemma length_sort_h : forall l, length (sort_h l) = length l.
Proof. induction l as [|x l IH]; [reflexivity|]. unfold sort_h in *. cbn [fold_right]. rewrite length_ins_h, IH. reflexivity. Qed.

(* the fixed 20-value tail of an observation *)
Definition tail20 (m : mgr) : list Z :=
  cc_z (ccs (pa m)) ++ cc_z (ccs (pb m))
  ++ [match next_exp m with Some _ => 1%Z | None => 0%Z end; match next_exp m with Some t => Nz t | None => 0%Z end;
      Nz (backoff m); bz (0 <? transmissions (ptos m))]
  ++ rtt_z (pa m) ++ rtt_z (pb m).

Lemma mobs_eq : forall m code lost hulls calls,
  mobs m code lost hulls calls =
  code :: Z.of_nat (length lost) :: map Nz lost ++ Z.of_nat (length hulls) :: hull_z (sort_h hulls)
  ++ Z.of_nat (length calls) :: calls_z calls ++ tail20 m.
Proof. reflexivity. Qed.

Lemma length_calls_z : forall l, length (calls_z l) = (6 * length l)%nat.
Proof. induction l as [|k l IH]; [reflexivity|]. unfold calls_z in *. cbn [flat_map call_z app length]. rewrite IH. lia. Qed.

Lemma length_tail20 : forall m, length (tail20 m) = 20%nat.
Proof. reflexivity. Qed.

Lemma parse_mobs : forall m code lost hulls calls t,
  parse_obs (mobs m code lost hulls calls ++ t) = Some (code, lost, sort_h hulls, calls_z calls, tail20 m, t).
Proof.
  intros. rewrite mobs_eq. cbn [app]. unfold parse_obs.
  assert (E0 : (Z.of_nat (length lost) <? 0)%Z = false) by lia. rewrite E0.
  rewrite Nat2Z.id.
  replace (length lost) with (length (map Nz lost)) by apply map_length.
  rewrite <- app_assoc. rewrite firstn_len_app, skipn_len_app. cbn [app].
  assert (E1 : (Z.of_nat (length hulls) <? 0)%Z = false) by lia. rewrite E1.
  rewrite Nat2Z.id.
  assert (EL : (2 * length hulls)%nat = length (hull_z (sort_h hulls))) by (rewrite length_hull_z, length_sort_h; reflexivity).
  rewrite EL. rewrite <- app_assoc. rewrite firstn_len_app, skipn_len_app. cbn [app].
  assert (E2 : (Z.of_nat (length calls) <? 0)%Z = false) by lia. rewrite E2.
  rewrite Nat2Z.id.
  assert (EC : (6 * length calls)%nat = length (calls_z calls)) by (rewrite length_calls_z; reflexivity).
  rewrite EC. rewrite <- app_assoc. rewrite firstn_len_app, skipn_len_app.
  rewrite !Nat.eqb_refl. cbn [andb].
  assert (E3 : Nat.leb 20 (length (tail20 m ++ t)) = true).
  { rewrite app_length, length_tail20. apply Nat.leb_le. lia. }
  rewrite E3. cbn [negb].
  rewrite map_zN_Nz, pairs_hull_z.
  change 20%nat with (length (tail20 m)). rewrite firstn_len_app, skipn_len_app. reflexivity.
Qed.

Lemma nonneg_map_Nz : forall l, all_nonneg (map Nz l) = true.
Proof. induction l as [|x l IH]; [reflexivity|]. unfold all_nonneg in *. cbn [map forallb]. rewrite IH. unfold Nz. lia. Qed.
Lemma nonneg_hull_z : forall l, all_nonneg (hull_z l) = true.
Proof.
  induction l as [|[a b] l IH]; [reflexivity|]. unfold all_nonneg, hull_z in *. cbn [flat_map app forallb fst snd].
  rewrite IH. unfold Nz. lia.
Qed.
Lemma nonneg_tail20 : forall m, all_nonneg (tail20 m) = true.
Proof.
  intros m. unfold all_nonneg, tail20, cc_z, rtt_z. cbn [app forallb].
  destruct (next_exp m); destruct (first (rt (pa m))); destruct (first (rt (pb m))); destruct (0 <? transmissions (ptos m));
    unfold Nz, bz; lia.
Qed.

Lemma nonneg_calls_z : forall l, all_nonneg (calls_z l) = true.
Proof.
  induction l as [|k l IH]; [reflexivity|]. unfold all_nonneg, calls_z in *. cbn [flat_map call_z app forallb].
  rewrite IH. unfold Nz. lia.
Qed.

Lemma nonneg_mobs : forall m code lost hulls calls t, (0 <= code)%Z ->
  all_nonneg (firstn (length (mobs m code lost hulls calls ++ t) - length t) (mobs m code lost hulls calls ++ t)) = true.
Proof.
  intros m code lost hulls calls t Hc.
  replace (length (mobs m code lost hulls calls ++ t) - length t)%nat with (length (mobs m code lost hulls calls)) by (rewrite app_length; lia).
  rewrite firstn_len_app, mobs_eq. unfold all_nonneg. cbn [forallb].
  rewrite forallb_app. cbn [forallb]. rewrite forallb_app. cbn [forallb]. rewrite forallb_app.
  fold (all_nonneg (map Nz lost)) (all_nonneg (hull_z (sort_h hulls))) (all_nonneg (calls_z calls)) (all_nonneg (tail20 m)).
  rewrite nonneg_map_Nz, nonneg_hull_z, nonneg_calls_z, nonneg_tail20. lia.
Qed.

(* reading the tail back *)
Lemma cc_of_tail0 : forall m, cc_of (tail20 m) 0 = ccs (pa m).
Proof. intros. unfold cc_of, tail20, cc_z, znth. cbn [app nth Nat.add]. rewrite !zN_Nz. destruct (ccs (pa m)); reflexivity. Qed.
Lemma cc_of_tail4 : forall m, cc_of (tail20 m) 4 = ccs (pb m).
Proof. intros. unfold cc_of, tail20, cc_z, znth. cbn [app nth Nat.add]. rewrite !zN_Nz. destruct (ccs (pb m)); reflexivity. Qed.
Lemma bo_tail : forall m, zN (znth (tail20 m) 10) = backoff m.
Proof. intros. unfold tail20, cc_z, znth. cbn [app nth]. apply zN_Nz. Qed.
Lemma rtt_tail : forall m i, (i = 0 \/ i = 1) ->
  zN (znth (tail20 m) (if i =? 0 then 12 else 16)) = smoothed (rt (get_path m i))
  /\ zN (znth (tail20 m) (if i =? 0 then 13 else 17)) = latest (rt (get_path m i)).
Proof.
  intros m i [-> | ->]; unfold tail20, cc_z, rtt_z, znth, get_path; cbn [app nth N.eqb];
    [change (0 =? 0) with true | change (1 =? 0) with false]; cbn match; rewrite !zN_Nz; split; reflexivity.
Qed.

Lemma cc_eqb_refl : forall c, cc_eqb c c = true.
Proof. intros. unfold cc_eqb. rewrite !N.eqb_refl. reflexivity. Qed.
Lemma cc_add_0 : forall c, cc_add c 0 0 0 0 = c.
Proof. intros []. unfold cc_add. cbn. f_equal; lia. Qed.
Lemma hulls_eqb_refl : forall l, hulls_eqb l l = true.
Proof. induction l as [|x l IH]; [reflexivity|]. cbn [hulls_eqb]. rewrite !N.eqb_refl, IH. reflexivity. Qed.

(* ------------------------------------------------------------------------------------------ *)
(* RTT values survive the bookkeeping after detection                                          *)
(* ------------------------------------------------------------------------------------------ *)
Definition sl (p : pathst) : N * N := (smoothed (rt p), latest (rt p)).

Lemma sl_remove_lost : forall ls M P C i, sl (get_path (remove_lost M P C ls) i) = sl (get_path M i).
Proof.
  induction ls as [|p t IH]; intros M P C i; cbn [remove_lost]; [reflexivity|].
  rewrite IH. unfold get_path, set_path. cbn [pa pb].
  destruct (i =? 0) eqn:Ei; destruct (p_path p =? 0) eqn:Ep; try reflexivity.
  - destruct ((persistent_congestion_threshold (rt (pa M)) <? P) && (p_path p =? C)); reflexivity.
  - destruct ((persistent_congestion_threshold (rt (pb M)) <? P) && (p_path p =? C)); reflexivity.
Qed.

Lemma sl_cc_path : forall m k s a l d i, sl (get_path (cc_path m k s a l d) i) = sl (get_path m i).
Proof.
  intros. unfold cc_path, get_path, set_path. cbn [pa pb].
  destruct (i =? 0); destruct (k =? 0); reflexivity.
Qed.

(* detection with the per-packet facts kept *)
Lemma detect_and_remove_full : forall m now cpath m' lost,
  StronglySorted plt (sentp m) -> on01 (sentp m) ->
  detect_and_remove m now cpath = (m', lost) ->
  exists ls, sentp m = ls ++ sentp m' /\ lost = map p_pn ls
  /\ largest m' = largest m /\ lastpn m' = lastpn m /\ m_now m' = m_now m /\ backoff m' = backoff m
  /\ ccs (pa m') = cc_add (ccs (pa m)) 0 0 (sum_bytes_on ls 0) 0
  /\ ccs (pb m') = cc_add (ccs (pb m)) 0 0 (sum_bytes_on ls 1) 0
  /\ (forall i, sl (get_path m' i) = sl (get_path m i))
  /\ (forall lg, largest m = Some lg ->
        Forall (fun p => p_pn p <= lg /\
          detect (loss_time_threshold (rt (get_path m (p_path p)))) (p_time p) k_packet_threshold (p_pn p) lg now = Lost) ls)
  /\ (largest m = None -> ls = []).
Proof.
  intros m now cpath m' lost Hs H01 H. unfold detect_and_remove in H.
  destruct (largest m) as [lg|] eqn:El.
  2:{ injection H as <- <-. exists []. cbn [app map sum_bytes_on fold_right]. rewrite !cc_add_0.
      repeat split; try reflexivity; try assumption. intros lg0 Hx. discriminate. }
  destruct (detect_walk m lg now cpath (sentp m) {| cur := None; maxd := 0 |}) as [[ls c] lt] eqn:E.
  injection H as <- <-.
  destruct (detect_walk_prefix _ _ _ _ _ _ _ _ _ E) as (rest & Hl & HF).
  assert (Hls : on01 ls).
  { unfold on01 in *. rewrite Hl in H01. apply Forall_app in H01. tauto. }
  match goal with |- context[remove_lost ?M ?P cpath ls] =>
    destruct (remove_lost_ledger ls M P cpath Hls) as (I1 & I2 & I3 & I4 & I5 & I6 & I7 & I8);
    pose proof (fun i => sl_remove_lost ls M P cpath i) as I9 end.
  exists ls. rewrite I1, I2, I3, I4, I6, I7, I8. cbn [upd_core sentp largest lastpn m_now backoff pa pb].
  rewrite Hl at 2. rewrite filter_prefix by (rewrite <- Hl; assumption).
  split; [assumption|]. split; [reflexivity|]. split; [reflexivity|]. split; [reflexivity|]. split; [reflexivity|].
  split; [reflexivity|]. split; [reflexivity|]. split; [reflexivity|]. split; [|split].
  - intros i. rewrite I9. reflexivity.
  - intros lg0 Hx. injection Hx as <-. exact HF.
  - intros Hx. discriminate.
Qed.

Lemma filter_keep_all {A} : forall (f : A -> bool) l, (forall x, In x l -> f x = true) -> filter f l = l.
Proof.
  induction l as [|x l IH]; intros H; [reflexivity|]. cbn [filter]. rewrite (H x) by (left; reflexivity).
  f_equal. apply IH. intros y Hy. apply H. right. assumption.
Qed.

Lemma sum_cons : forall x l i, sum_bytes_on (x :: l) i = (if p_path x =? i then p_bytes x else 0) + sum_bytes_on l i.
Proof. intros. change (x :: l) with ([x] ++ l). rewrite sum_app, sum_single. reflexivity. Qed.

(* the judge resolves a reported prefix one packet at a time *)
Lemma judge_lost_prefix : forall ls rest lg now tl l0 l1,
  StronglySorted plt (ls ++ rest) -> on01 ls ->
  Forall (fun p => lost_ok true lg now tl p = true) ls ->
  judge_lost true (ls ++ rest) lg now tl (map p_pn ls) l0 l1
  = Some (rest, l0 + sum_bytes_on ls 0, l1 + sum_bytes_on ls 1).
Proof.
  induction ls as [|x t IH]; intros rest lg now tl l0 l1 Hs H01 Hok.
  - cbn [app map judge_lost sum_bytes_on fold_right]. rewrite !N.add_0_r. reflexivity.
  - cbn [app map judge_lost]. unfold find_pkt. cbn [find]. rewrite N.eqb_refl.
    inversion Hok as [|? ? Hx Ht]; subst. rewrite Hx.
    inversion Hs as [|? ? Hs' Hf]; subst. inversion H01 as [|? ? Hp Hp']; subst.
    assert (Er : remove_pn (p_pn x) (x :: t ++ rest) = t ++ rest).
    { unfold remove_pn. cbn [filter]. rewrite N.eqb_refl. cbn [negb].
      apply filter_keep_all. intros y Hy. rewrite Forall_forall in Hf. specialize (Hf y Hy). unfold plt in Hf.
      destruct (N.eqb_spec (p_pn y) (p_pn x)); [lia|reflexivity]. }
    rewrite Er, IH by assumption. rewrite !sum_cons.
    destruct Hp as [Hp|Hp]; rewrite Hp.
    + change (0 =? 0) with true. change (0 =? 1) with false. cbn match. apply f_equal. apply f_equal2; [apply f_equal2; [reflexivity|lia]|lia].
    + change (1 =? 0) with false. change (1 =? 1) with true. cbn match. apply f_equal. apply f_equal2; [apply f_equal2; [reflexivity|lia]|lia].
Qed.

(* ------------------------------------------------------------------------------------------ *)
(* what the manager hands to the congestion controller                                         *)
(* ------------------------------------------------------------------------------------------ *)
Definition call_time_ok (now : N) (rs : list (N * N)) (k : call) : bool :=
  if k_kind k =? 1 then k_a k =? now
  else if k_kind k =? 2 then k_c k =? now
  else if k_kind k =? 3 then (k_d k =? now) && (0 <? k_a k)
  else if k_kind k =? 5 then (k_c k =? now) && in_some_range rs (k_a k) (k_b k)
  else true.

Lemma Nz_eqb : forall x y, (Nz x =? Z.of_N y)%Z = (x =? y).
Proof. intros. unfold Nz. destruct (N.eqb_spec x y); lia. Qed.

Lemma calls_ok_z : forall now rs l, forallb (call_time_ok now rs) l = true -> calls_ok now rs (calls_z l) = true.
Proof.
  induction l as [|k l IH]; intros H; [reflexivity|]. cbn [forallb] in H. apply andb_prop in H as [Hk Hl].
  unfold calls_z. cbn [flat_map call_z app calls_ok]. fold (calls_z l). rewrite (IH Hl), andb_true_r.
  unfold call_time_ok in Hk. rewrite !zN_Nz.
  change 1%Z with (Z.of_N 1). change 2%Z with (Z.of_N 2). change 3%Z with (Z.of_N 3). change 5%Z with (Z.of_N 5).
  rewrite !Nz_eqb. exact Hk.
Qed.

Lemma lost_calls_ok : forall ls m pcd cpath now rs prev,
  forallb (call_time_ok now rs) (lost_calls m pcd cpath now prev ls) = true.
Proof.
  induction ls as [|p t IH]; intros m pcd cpath now rs prev; [reflexivity|]. cbn [lost_calls].
  rewrite forallb_app, IH, andb_true_r. destruct (0 <? p_bytes p) eqn:E; [|reflexivity].
  cbn [forallb]. unfold call_time_ok. cbn [k_kind k_a k_d]. change (3 =? 1) with false. change (3 =? 2) with false.
  change (3 =? 3) with true. cbn match. rewrite N.eqb_refl, E. reflexivity.
Qed.

Lemma detect_calls_ok : forall m now rs cpath, forallb (call_time_ok now rs) (detect_calls m now cpath) = true.
Proof.
  intros. unfold detect_calls. destruct (largest m) as [lg|]; [|reflexivity].
  destruct (detect_walk m lg now cpath (sentp m) {| cur := None; maxd := 0 |}) as [[ls c] lt]. apply lost_calls_ok.
Qed.

Lemma ack_calls_ok : forall m now rs0 rs lgf ad rx, forallb (call_time_ok now rs0) (ack_calls m now rs lgf ad rx) = true.
Proof.
  intros. unfold ack_calls. destruct (ack_pre_state m now rs lgf ad rx) as [[m2 acked]|]; [|reflexivity].
  rewrite !forallb_app, detect_calls_ok. cbn [andb]. apply andb_true_intro. split.
  - rewrite forallb_forall. intros k Hk. apply in_map_iff in Hk as (p & <- & _).
    unfold call_time_ok. cbn [k_kind k_c]. change (2 =? 1) with false. change (2 =? 2) with true. cbn match. apply N.eqb_refl.
  - destruct (largest_newly (filter (fun p => p_path p =? rx) acked) None) as [ln|]; [|reflexivity].
    destruct (0 <? sum_bytes_on acked rx); [|reflexivity]. cbn [forallb].
    unfold call_time_ok. cbn [k_kind k_c]. change (2 =? 1) with false. change (2 =? 2) with true. cbn match. rewrite N.eqb_refl. reflexivity.
Qed.

(* the ranges reported to the Context are the frame's ranges themselves *)
Lemma range_calls_ok : forall rs now rx, (forall r, In r rs -> fst r <= snd r) ->
  forallb (call_time_ok now rs) (range_calls rs now rx) = true.
Proof.
  intros rs now rx Hw. unfold range_calls. rewrite forallb_forall. intros k Hk. apply in_map_iff in Hk as (r & <- & Hr).
  unfold call_time_ok. cbn [k_kind k_a k_b k_c]. change (5 =? 1) with false. change (5 =? 2) with false. change (5 =? 3) with false.
  change (5 =? 5) with true. cbn match. rewrite N.eqb_refl. cbn [andb]. unfold in_some_range.
  specialize (Hw r Hr). apply andb_true_intro. split; [lia|].
  apply existsb_exists. exists r. split; [assumption|]. lia.
Qed.

Lemma mk_ranges_wf : forall lgf len1 gap2 len2 r, In r (mk_ranges lgf len1 gap2 len2) -> fst r <= snd r.
Proof.
  intros lgf len1 gap2 len2 r H. unfold mk_ranges in H. destruct H as [<-|H]; [cbn; lia|].
  destruct ((0 <? len2) && (2 + gap2 <=? lgf - len1)); [|destruct H]. destruct H as [<-|[]]. cbn. lia.
Qed.

Lemma timeout_calls_ok : forall m now rs, forallb (call_time_ok now rs) (timeout_calls m now) = true.
Proof.
  intros. unfold timeout_calls. destruct (loss_timer m) as [lt|]; [|reflexivity].
  destruct (has_elapsed lt now); [apply detect_calls_ok|reflexivity].
Qed.

Lemma mcalls_time_ok : forall m c a b d e f g,
  forallb (call_time_ok (op_now (m_now m) c a e) (op_ranges (lastpn m) c b d e f)) (mcalls m c a b d e f g) = true.
Proof.
  intros. unfold mcalls, op_now, op_ranges.
  destruct (c =? 1)%Z.
  { cbn [forallb]. unfold call_time_ok. cbn [k_kind k_a]. change (1 =? 1) with true. cbn match. rewrite N.eqb_refl. reflexivity. }
  destruct (c =? 2)%Z; [reflexivity|].
  destruct ((c =? 3) || (c =? 4))%Z.
  { cbn [orb]. destruct (match lastpn m with Some l => zN b <=? l | None => false end); [|reflexivity].
    rewrite forallb_app, ack_calls_ok, andb_true_r. apply range_calls_ok. apply mk_ranges_wf. }
  destruct (c =? 5)%Z.
  { cbn [orb]. match goal with |- context[backoff_cap ?B] => destruct (backoff_cap B) end; [apply timeout_calls_ok|reflexivity]. }
  destruct (c =? 6)%Z; [destruct (m_space m =? 2); reflexivity|].
  destruct (c =? 7)%Z; [destruct (m_client m); reflexivity|]. reflexivity.
Qed.

Lemma mcalls_ok : forall m c a b d e f g,
  calls_ok (op_now (m_now m) c a e) (op_ranges (lastpn m) c b d e f) (calls_z (mcalls m c a b d e f g)) = true.
Proof. intros. apply calls_ok_z, mcalls_time_ok. Qed.

(* the relation between the manager and the judge's ledger *)
Definition rel (m : mgr) (j : jm) : Prop :=
  j_un j = sentp m /\ j_lg j = largest m /\ j_now j = m_now m /\ j_last j = lastpn m /\
  j_cc0 j = ccs (pa m) /\ j_cc1 j = ccs (pb m) /\ j_bo j = backoff m /\ 1 <= backoff m.

Lemma bif_ok_winv : forall m, winv m ->
  (bif (ccs (pa m)) =? Nz (sum_bytes_on (sentp m) 0))%Z && (bif (ccs (pb m)) =? Nz (sum_bytes_on (sentp m) 1))%Z = true.
Proof. intros m W. rewrite (w_bif0 m W), (w_bif1 m W), !Z.eqb_refl. reflexivity. Qed.

(* detection facts translated into the judge's rule *)
Lemma detect_to_lost_ok : forall m m' now lg ls,
  Forall (fun p => 1 <= p_time p) ls -> on01 ls ->
  (forall p, In p ls -> p_pn p <> lg) ->
  (forall i, sl (get_path m' i) = sl (get_path m i)) ->
  Forall (fun p => p_pn p <= lg /\
          detect (loss_time_threshold (rt (get_path m (p_path p)))) (p_time p) k_packet_threshold (p_pn p) lg now = Lost) ls ->
  Forall (fun p => lost_ok true (Some lg) now (tail20 m') p = true) ls.
Proof.
  intros m m' now lg ls Ht H01 Hne Hsl HF. unfold on01 in H01. rewrite Forall_forall in *. intros p Hp.
  destruct (HF p Hp) as [Hle Hd]. specialize (Ht p Hp). specialize (Hne p Hp). specialize (H01 p Hp).
  apply detect_exact in Hd; [|assumption]. rewrite threshold_rfc in Hd. change k_packet_threshold with 3 in Hd.
  unfold lost_ok.
  destruct (rtt_tail m' (p_path p) H01) as [E1 E2]. rewrite E1, E2.
  specialize (Hsl (p_path p)). unfold sl in Hsl. injection Hsl as -> ->.
  destruct Hd as [Hd|Hd]; lia.
Qed.

Lemma winv_parts : forall m ls rest, winv m -> sentp m = ls ++ rest ->
  Forall (fun p => 1 <= p_time p) ls /\ on01 ls
  /\ (forall lg, largest m = Some lg -> forall p, In p ls -> p_pn p <> lg).
Proof.
  intros m ls rest W E. pose proof W as [Ws Wl Wlg Wp Wt Wb0 Wb1]. rewrite E in *. split; [|split].
  - apply Forall_app in Wt. tauto.
  - unfold on01 in *. apply Forall_app in Wp. tauto.
  - intros lg Hlg p Hp. destruct (Wlg lg Hlg) as [_ H]. apply H. apply in_app_iff. left. assumption.
Qed.

(* everything the judge needs to know about on_timeout *)
Lemma timeout_full : forall m now maxb, winv m -> backoff_cap (backoff m) = Some maxb ->
  exists ls, sentp m = ls ++ sentp (fst (on_timeout m now maxb))
  /\ snd (on_timeout m now maxb) = map p_pn ls
  /\ largest (fst (on_timeout m now maxb)) = largest m /\ lastpn (fst (on_timeout m now maxb)) = lastpn m
  /\ m_now (fst (on_timeout m now maxb)) = m_now m
  /\ (backoff (fst (on_timeout m now maxb)) = backoff m \/ backoff (fst (on_timeout m now maxb)) = 2 * backoff m)
  /\ ccs (pa (fst (on_timeout m now maxb))) = cc_add (ccs (pa m)) 0 0 (sum_bytes_on ls 0) 0
  /\ ccs (pb (fst (on_timeout m now maxb))) = cc_add (ccs (pb m)) 0 0 (sum_bytes_on ls 1) 0
  /\ on01 ls
  /\ Forall (fun p => lost_ok true (largest m) now (tail20 (fst (on_timeout m now maxb))) p = true) ls.
Proof.
  intros m now maxb W Hcap. pose proof W as [w_sorted0 Wl Wlg w_path0 Wt Wb0 Wb1].
  assert (Hnil : exists ls : list pkt, sentp m = ls ++ sentp m /\ @nil N = map p_pn ls
     /\ ccs (pa m) = cc_add (ccs (pa m)) 0 0 (sum_bytes_on ls 0) 0
     /\ ccs (pb m) = cc_add (ccs (pb m)) 0 0 (sum_bytes_on ls 1) 0 /\ on01 ls /\ ls = []).
  { exists []. cbn [app map sum_bytes_on fold_right]. rewrite !cc_add_0. repeat split; constructor. }
  unfold on_timeout. destruct (loss_timer m) as [lt|].
  - destruct (has_elapsed lt now).
    + set (m0 := upd_core m (sentp m) (largest m) None (ptos m)).
      destruct (detect_and_remove m0 now 0) as [m1 lost] eqn:E. cbn [fst snd].
      destruct (detect_and_remove_full m0 now 0 m1 lost w_sorted0 w_path0 E)
        as (ls & I1 & I2 & I3 & I4 & I5 & I6 & I7 & I8 & I9 & I10 & I11).
      exists ls. cbn [update_pto_timer sentp largest lastpn m_now backoff pa pb].
      change (sentp m0) with (sentp m) in I1. change (largest m0) with (largest m) in *.
      destruct (winv_parts m ls (sentp m1) W I1) as (Ht & H01 & Hne).
      repeat split; try assumption; try (left; assumption).
      destruct (largest m) as [lg|] eqn:El.
      * apply (detect_to_lost_ok m0); auto.
      * rewrite (I11 eq_refl). constructor.
    + destruct Hnil as (ls & H1 & H2 & H3 & H4 & H5 & H6). exists ls. cbn [fst snd]. subst ls.
      repeat split; try assumption; try reflexivity; try (left; reflexivity); try constructor.
  - destruct (Pto.on_timeout (ptos m) match sentp m with [] => false | _ :: _ => true end now) as [pt ready].
    destruct Hnil as (ls & H1 & H2 & H3 & H4 & H5 & H6). exists ls. subst ls.
    assert (Hb : backoff_next (backoff m) maxb = 2 * backoff m).
    { unfold backoff_cap in Hcap. change pto_backoff_cap_mult with 2 in Hcap.
      destruct (backoff m * 2 <=? u32_max); [|discriminate]. injection Hcap as <-.
      unfold backoff_next. change pto_backoff_mult with 2. lia. }
    destruct ready; cbn [fst snd update_pto_timer set_backoff sentp largest lastpn m_now backoff pa pb].
    + split; [assumption|]. split; [assumption|]. split; [reflexivity|]. split; [reflexivity|]. split; [reflexivity|].
      split; [right; assumption|]. split; [assumption|]. split; [assumption|]. split; [assumption|]. constructor.
    + split; [assumption|]. split; [assumption|]. split; [reflexivity|]. split; [reflexivity|]. split; [reflexivity|].
      split; [left; reflexivity|]. split; [assumption|]. split; [assumption|]. split; [assumption|]. constructor.
Qed.

(* everything the judge needs to know about on_ack_frame (accepted frames) *)
Lemma ack_full : forall m now rs lgf ad rx s1 sp acked ehulls, winv m -> (rx = 0 \/ rx = 1) ->
  In (s1, lgf) rs -> s1 <= lgf ->
  ack_ranges (sentp m) rs = (sp, acked, ehulls) ->
  let r := on_ack_frame m now rs lgf ad rx in
  let lg' := match largest m with Some c => if lgf <? c then Some c else Some lgf | None => Some lgf end in
  snd r = ehulls /\ largest (fst (fst r)) = lg' /\ lastpn (fst (fst r)) = lastpn m /\ m_now (fst (fst r)) = m_now m
  /\ (backoff (fst (fst r)) = backoff m \/ backoff (fst (fst r)) = 1)
  /\ exists ls, sp = ls ++ sentp (fst (fst r)) /\ snd (fst r) = map p_pn ls /\ StronglySorted plt sp /\ on01 ls
     /\ ccs (pa (fst (fst r))) = cc_add (ccs (pa m)) 0 (sum_bytes_on acked 0) (sum_bytes_on ls 0) 0
     /\ ccs (pb (fst (fst r))) = cc_add (ccs (pb m)) 0 (sum_bytes_on acked 1) (sum_bytes_on ls 1) 0
     /\ Forall (fun p => lost_ok true lg' now (tail20 (fst (fst r))) p = true) ls.
Proof.
  intros m now rs lgf ad rx s1 sp acked ehulls W Hrx Hin Hs1 Ea r lg'.
  pose proof W as [Ws Wl Wlg Wp Wt Wb0 Wb1].
  destruct (ack_ranges_spec _ _ _ _ _ Ea) as (_ & (f & Hf) & _ & Hout).
  assert (Hsub : forall p, In p sp -> In p (sentp m)).
  { intros p Hp. rewrite Hf in Hp. apply filter_In in Hp. tauto. }
  assert (Ssp : StronglySorted plt sp) by (rewrite Hf; apply sorted_filter; assumption).
  assert (Osp : on01 sp).
  { unfold on01 in *. rewrite Forall_forall in *. intros p Hp. auto. }
  assert (Tsp : Forall (fun p => 1 <= p_time p) sp).
  { rewrite Forall_forall in *. intros p Hp. auto. }
  assert (Hlg' : exists lg, lg' = Some lg /\ forall p, In p sp -> p_pn p <> lg).
  { assert (Hnew : forall p, In p sp -> p_pn p <> lgf).
    { intros p Hp Heq. specialize (Hout p (s1, lgf) Hp Hin). unfold in_range in Hout. cbn [fst snd] in Hout. lia. }
    subst lg'. destruct (largest m) as [c|] eqn:Ec.
    - destruct (Wlg c eq_refl) as [_ H2]. destruct (N.ltb_spec lgf c); eexists; (split; [reflexivity|]); auto.
    - eexists. split; [reflexivity|]. auto. }
  destruct Hlg' as (lg & Elg & Hne).
  subst r. unfold on_ack_frame. rewrite Ea. fold lg'.
  destruct (largest_newly acked None) as [ln|] eqn:Eln.
  2:{ apply largest_newly_none in Eln as [-> _]. cbn [fst snd upd_core largest lastpn m_now backoff sentp pa pb].
      split; [reflexivity|]. split; [reflexivity|]. split; [reflexivity|]. split; [reflexivity|]. split; [left; reflexivity|].
      exists []. cbn [app map sum_bytes_on fold_right]. rewrite !cc_add_0.
      split; [reflexivity|]. split; [reflexivity|]. split; [assumption|]. split; [constructor|].
      split; [reflexivity|]. split; [reflexivity|]. constructor. }
  match goal with |- context[detect_and_remove ?M now rx] => set (m2 := M) end.
  assert (S2 : sentp m2 = sp /\ largest m2 = lg' /\ lastpn m2 = lastpn m /\ m_now m2 = m_now m /\ backoff m2 = backoff m
               /\ ccs (pa m2) = ccs (pa m) /\ ccs (pb m2) = ccs (pb m)).
  { subst m2. destruct ((rx =? p_path ln) && (p_pn ln =? lgf) && existsb p_ae acked).
    - unfold set_path, get_path. cbn [sentp largest lastpn m_now backoff pa pb upd_core].
      destruct (p_path ln =? 0); repeat split; reflexivity.
    - cbn [upd_core sentp largest lastpn m_now backoff pa pb]. repeat split; reflexivity. }
  destruct S2 as (S21 & S22 & S23 & S24 & S25 & S26 & S27).
  destruct (detect_and_remove m2 now rx) as [m3 lost] eqn:E3.
  assert (Ss2 : StronglySorted plt (sentp m2)) by (rewrite S21; assumption).
  assert (So2 : on01 (sentp m2)) by (rewrite S21; assumption).
  destruct (detect_and_remove_full m2 now rx m3 lost Ss2 So2 E3)
    as (ls & I1 & I2 & I3 & I4 & I5 & I6 & I7 & I8 & I9 & I10 & _).
  cbn [fst snd].
  match goal with |- context[largest ?M = lg'] => set (m7 := M) end.
  assert (E7 : sentp m7 = sentp m3 /\ largest m7 = largest m3 /\ lastpn m7 = lastpn m3 /\ m_now m7 = m_now m3
               /\ (backoff m7 = backoff m3 \/ backoff m7 = 1)
               /\ ccs (pa m7) = cc_add (ccs (pa m3)) 0 (sum_bytes_on acked 0) 0 0
               /\ ccs (pb m7) = cc_add (ccs (pb m3)) 0 (sum_bytes_on acked 1) 0 0
               /\ forall i, sl (get_path m7 i) = sl (get_path m3 i)).
  { subst m7. split; [reflexivity|]. split; [reflexivity|]. split; [reflexivity|]. split; [reflexivity|].
    split.
    { cbn [cc_path set_path update_pto_timer backoff]. match goal with |- context[if ?b then initial_pto_backoff else _] => destruct b end; [right|left]; reflexivity. }
    split; [|split].
    - destruct Hrx as [-> | ->].
      + change (1 - 0) with 1. rewrite ccs_pa_cc_path. change (0 =? 0) with true. cbn match. cbn [update_pto_timer pa].
        rewrite ccs_pa_cc_path. change (1 =? 0) with false. cbn match. reflexivity.
      + change (1 - 1) with 0. rewrite ccs_pa_cc_path. change (1 =? 0) with false. cbn match. cbn [update_pto_timer pa].
        rewrite ccs_pa_cc_path. change (0 =? 0) with true. cbn match. reflexivity.
    - destruct Hrx as [-> | ->].
      + change (1 - 0) with 1. rewrite ccs_pb_cc_path. change (0 =? 0) with true. cbn match. cbn [update_pto_timer pb].
        rewrite ccs_pb_cc_path. change (1 =? 0) with false. cbn match. reflexivity.
      + change (1 - 1) with 0. rewrite ccs_pb_cc_path. change (1 =? 0) with false. cbn match. cbn [update_pto_timer pb].
        rewrite ccs_pb_cc_path. change (0 =? 0) with true. cbn match. reflexivity.
    - intros i. rewrite sl_cc_path.
      match goal with |- sl (get_path (update_pto_timer ?M now) i) = _ => change (get_path (update_pto_timer M now) i) with (get_path M i) end.
      match goal with |- sl (get_path ?M i) = _ =>
        change (get_path M i) with (get_path (cc_path m3 (1 - rx) 0 (sum_bytes_on acked (1 - rx)) 0 0) i) end.
      apply sl_cc_path. }
  destruct E7 as (E71 & E72 & E73 & E74 & E75 & E76 & E77 & E78).
  split; [reflexivity|]. split; [congruence|]. split; [congruence|]. split; [congruence|].
  split; [destruct E75 as [E75|E75]; [left; congruence|right; assumption]|].
  exists ls. rewrite E71.
  assert (Hls : on01 ls /\ Forall (fun p => 1 <= p_time p) ls /\ forall p, In p ls -> p_pn p <> lg).
  { rewrite S21 in I1. unfold on01 in *. rewrite I1 in Osp, Tsp. apply Forall_app in Osp, Tsp.
    split; [tauto|]. split; [tauto|]. intros p Hp. apply Hne. rewrite I1. apply in_app_iff. left. assumption. }
  destruct Hls as (Ol & Tl & Nl).
  split; [rewrite <- S21; assumption|]. split; [assumption|]. split; [assumption|]. split; [assumption|].
  split; [|split].
  - rewrite E76, I7, S26. unfold cc_add. cbn [c_sent c_acked c_lost c_disc]. f_equal; lia.
  - rewrite E77, I8, S27. unfold cc_add. cbn [c_sent c_acked c_lost c_disc]. f_equal; lia.
  - rewrite Elg. apply (detect_to_lost_ok m2); try assumption.
    + intros i. rewrite E78. apply I9.
    + apply I10. rewrite S22. assumption.
Qed.

Lemma rel_burst : forall m j now, rel m j -> rel (burst_complete m now) {| j_un := j_un j; j_lg := j_lg j; j_now := j_now j; j_last := j_last j; j_cc0 := j_cc0 j; j_cc1 := j_cc1 j; j_bo := j_bo j |}.
Proof.
  intros m j now (R1 & R2 & R3 & R4 & R5 & R6 & R7 & R8). unfold burst_complete, rel.
  destruct (pend m); cbn; repeat split; assumption.
Qed.

(* the state on which ACK frames / timeouts operate: clock advanced, open burst completed *)
Definition pre_state (m : mgr) (now : N) : mgr :=
  if mp (set_now m now) then burst_complete (set_now m now) now else set_now m now.

Lemma pre_state_facts : forall m now,
  sentp (pre_state m now) = sentp m /\ largest (pre_state m now) = largest m /\ lastpn (pre_state m now) = lastpn m
  /\ m_now (pre_state m now) = now /\ backoff (pre_state m now) = backoff m
  /\ ccs (pa (pre_state m now)) = ccs (pa m) /\ ccs (pb (pre_state m now)) = ccs (pb m).
Proof.
  intros. unfold pre_state, burst_complete. destruct (mp (set_now m now)); [destruct (pend (set_now m now))|]; cbn; repeat split; reflexivity.
Qed.

Lemma winv_pre_state : forall m now, winv m -> winv (pre_state m now).
Proof.
  intros. unfold pre_state. destruct (mp (set_now m now)); [apply winv_burst|]; apply winv_set_now; assumption.
Qed.

Lemma burst_facts : forall m now,
  sentp (burst_complete m now) = sentp m /\ largest (burst_complete m now) = largest m
  /\ lastpn (burst_complete m now) = lastpn m /\ m_now (burst_complete m now) = m_now m
  /\ backoff (burst_complete m now) = backoff m
  /\ ccs (pa (burst_complete m now)) = ccs (pa m) /\ ccs (pb (burst_complete m now)) = ccs (pb m).
Proof. intros. unfold burst_complete. destruct (pend m); cbn; repeat split; reflexivity. Qed.

Ltac jopen R R' :=
  unfold jstep_m; rewrite parse_mobs; cbv zeta; cbn match;
  rewrite nonneg_mobs by lia; cbn [negb];
  rewrite R, R', mcalls_ok; cbn [negb];
  rewrite cc_of_tail0, cc_of_tail4, bo_tail.

Lemma jstep_ok : forall m j c a b d e f g t, winv m -> now_pos m -> rel m j -> (c =? 6)%Z = false ->
  exists j',
    (let '(m', code, lost, hulls, stop) := mstep m c a b d e f g in
     jstep_m true (m_space m =? 2) (m_client m) j c a b d e f g (mobs m' code lost hulls (mcalls m c a b d e f g) ++ t) = Some (j', t, false) /\ stop = false)
    /\ rel (mstep_state m c a b d e f g) j'.
Proof.
  intros m j c a b d e f g t W Hn (R1 & R2 & R3 & R4 & R5 & R6 & R7 & R8) H6.
  pose proof (winv_mstep m c a b d e f g W Hn H6) as [W' _].
  unfold mstep_state in *. unfold mstep in *. rewrite H6 in *.
  destruct (c =? 1)%Z eqn:E1.
  { (* on_packet_sent *)
    set (now := m_now m + zN e) in *.
    set (pn := match lastpn m with Some l => l + N.max (zN a) 1 | None => zN a - 1 end) in *.
    set (path := if single m || (f =? 0)%Z then 0 else 1) in *.
    set (m' := on_packet_sent (set_now m now) pn (zN b) (negb (d =? 0)%Z) now path) in *.
    eexists. split; [split; [|reflexivity]|].
    - jopen R3 R4. rewrite E1. rewrite R1, ?R3, ?R4, R5, R6, R7.
      change (m_client m || negb (m_space m =? 2)) with (single m). fold now pn path.
      assert (Ecc0 : ccs (pa m') = cc_add (ccs (pa m)) (if path =? 0 then zN b else 0) 0 0 0).
      { subst m'. unfold on_packet_sent. cbn [pa]. rewrite ccs_pa_cc_path. cbn [set_now pa].
        destruct (path =? 0); [reflexivity|rewrite cc_add_0; reflexivity]. }
      assert (Ecc1 : ccs (pb m') = cc_add (ccs (pb m)) (if path =? 0 then 0 else zN b) 0 0 0).
      { subst m'. unfold on_packet_sent. cbn [pb]. rewrite ccs_pb_cc_path. cbn [set_now pb].
        destruct (path =? 0); [rewrite cc_add_0; reflexivity|reflexivity]. }
      rewrite Ecc0, Ecc1, !cc_eqb_refl. rewrite <- Ecc0, <- Ecc1.
      change (sentp m ++ [{| p_pn := pn; p_bytes := zN b; p_time := now; p_ae := negb (d =? 0)%Z; p_path := path |}]) with (sentp m').
      rewrite (bif_ok_winv m' W').
      change (backoff m') with (backoff m). rewrite N.eqb_refl, Z.eqb_refl. cbn [andb]. reflexivity.
    - unfold rel. cbn [j_un j_lg j_now j_last j_cc0 j_cc1 j_bo].
      subst m'. unfold on_packet_sent. cbn [sentp largest m_now lastpn backoff pa pb cc_path set_path set_now].
      repeat split; try assumption; try reflexivity; try (symmetry; assumption); try congruence. }
  destruct (c =? 2)%Z eqn:E2.
  { apply Z.eqb_eq in E2. subst c.
    set (now := m_now m + zN a) in *.
    destruct (burst_facts (set_now m now) now) as (B1 & B2 & B3 & B4 & B5 & B6 & B7).
    cbn [set_now sentp largest lastpn m_now backoff pa pb] in B1, B2, B3, B4, B5, B6, B7.
    eexists. split; [split; [|reflexivity]|].
    - jopen R3 R4. change (2 =? 1)%Z with false. change ((2 =? 3) || (2 =? 4))%Z with false. change (2 =? 5)%Z with false.
      change (2 =? 6)%Z with false. change (2 =? 2)%Z with true. cbn match.
      rewrite B5, B6, B7, R1, R5, R6, R7, !cc_eqb_refl, N.eqb_refl, Z.eqb_refl.
      rewrite (bif_ok_winv m W). reflexivity.
    - unfold rel. cbn [j_un j_lg j_now j_last j_cc0 j_cc1 j_bo]. rewrite B1, B2, B3, B4, B5, B6, B7, ?R3.
      repeat split; try assumption; try reflexivity; try (symmetry; assumption); try congruence. }
  destruct ((c =? 3) || (c =? 4))%Z eqn:E34.
  { set (now := m_now m + zN a) in *. fold (pre_state m now) in *.
    destruct (pre_state_facts m now) as (P1 & P2 & P3 & P4 & P5 & P6 & P7).
    pose proof (winv_pre_state m now W) as W0.
    set (m0 := pre_state m now) in *.
    destruct (match lastpn m with Some l => zN b <=? l | None => false end) eqn:Eok.
    - (* accepted frame *)
      set (rs := mk_ranges (zN b) (zN d) (zN e) (zN f)) in *.
      set (rx := if (c =? 4)%Z && negb (single m) then 1 else 0) in *.
      destruct (ack_ranges (sentp m0) rs) as [[spx acked] ehulls] eqn:Ea.
      assert (Hrx : rx = 0 \/ rx = 1) by (subst rx; destruct ((c =? 4)%Z && negb (single m)); auto).
      destruct (ack_full m0 now rs (zN b) (zN g * 1000) rx (zN b - zN d) spx acked ehulls W0 Hrx
                  (mk_ranges_first _ _ _ _) ltac:(lia) Ea)
        as (F1 & F2 & F3 & F4 & F5 & ls & F6 & F7 & F8 & F9 & F10 & F11 & F12).
      destruct (on_ack_frame m0 now rs (zN b) (zN g * 1000) rx) as [[m7 lost] hulls] eqn:EA.
      cbn [fst snd] in *.
      eexists. split; [split; [|reflexivity]|].
      + jopen R3 R4. rewrite E1, E34. rewrite ?R4, Eok. cbn [negb].
        rewrite R1, <- P1. fold rs. rewrite Ea.
        rewrite R2, <- P2. rewrite ?R3. fold now.
        rewrite F7. rewrite F6 at 1. rewrite judge_lost_prefix; [|rewrite <- F6; assumption|assumption|assumption].
        rewrite !N.add_0_l. rewrite R5, R6, <- P6, <- P7, <- F10, <- F11, !cc_eqb_refl.
        rewrite F1, hulls_eqb_refl. rewrite (bif_ok_winv m7 W').
        rewrite R7, <- P5.
        assert (Eb : (backoff m7 =? backoff m0) || (backoff m7 =? 1) = true) by (destruct F5 as [-> | ->]; rewrite N.eqb_refl; [reflexivity|apply orb_true_r]).
        rewrite Eb, Z.eqb_refl. reflexivity.
      + unfold rel. cbn [j_un j_lg j_now j_last j_cc0 j_cc1 j_bo].
        split; [reflexivity|]. split; [symmetry; exact F2|]. split; [congruence|]. split; [congruence|].
        split; [reflexivity|]. split; [reflexivity|]. split; [reflexivity|].
        destruct F5 as [-> | ->]; [rewrite P5; assumption|lia].
    - (* rejected: largest acknowledged was never sent *)
      eexists. split; [split; [|reflexivity]|].
      + jopen R3 R4. rewrite E1, E34. rewrite ?R4, Eok. cbn [negb].
        rewrite P5, P6, P7, R5, R6, R7, !cc_eqb_refl, N.eqb_refl, Z.eqb_refl. reflexivity.
      + unfold rel. cbn [j_un j_lg j_now j_last j_cc0 j_cc1 j_bo]. rewrite P1, P2, P3, P4, P5, ?R3.
        repeat split; try assumption; try reflexivity; try (symmetry; assumption); try congruence. }
  destruct (c =? 5)%Z eqn:E5.
  { set (now := m_now m + zN a) in *. fold (pre_state m now) in *.
    destruct (pre_state_facts m now) as (P1 & P2 & P3 & P4 & P5 & P6 & P7).
    pose proof (winv_pre_state m now W) as W1.
    set (m1 := pre_state m now) in *.
    destruct (backoff_cap (backoff m1)) as [maxb|] eqn:Ecap.
    - destruct (timeout_full m1 now maxb W1 Ecap) as (ls & T1 & T2 & T3 & T4 & T5 & T6 & T7 & T8 & T9 & T10).
      destruct (on_timeout m1 now maxb) as [m2 lost] eqn:ET. cbn [fst snd] in *.
      pose proof W1 as [Ws1 _ _ _ _ _ _].
      eexists. split; [split; [|reflexivity]|].
      + jopen R3 R4. rewrite E1, E34, E5. rewrite ?R3. fold now.
        rewrite R1, <- P1, R2, <- P2, T2. rewrite T1 at 1.
        rewrite judge_lost_prefix; [|rewrite <- T1; assumption|assumption|assumption].
        rewrite !N.add_0_l. rewrite R5, R6, <- P6, <- P7, <- T7, <- T8, !cc_eqb_refl.
        rewrite (bif_ok_winv m2 W'). rewrite R7, <- P5.
        assert (Eb : (backoff m2 =? backoff m1) || (backoff m2 =? 2 * backoff m1) = true) by (destruct T6 as [-> | ->]; rewrite N.eqb_refl; [reflexivity|apply orb_true_r]).
        rewrite Eb.
        assert (E1b : (1 <=? backoff m2) = true) by (rewrite P5 in T6; destruct T6 as [-> | ->]; lia).
        rewrite E1b, Z.eqb_refl. reflexivity.
      + unfold rel. cbn [j_un j_lg j_now j_last j_cc0 j_cc1 j_bo].
        split; [reflexivity|]. split; [congruence|]. split; [congruence|]. split; [congruence|].
        split; [reflexivity|]. split; [reflexivity|]. split; [reflexivity|].
        rewrite P5 in T6. destruct T6 as [-> | ->]; lia.
    - eexists. split; [split; [|reflexivity]|].
      + jopen R3 R4. rewrite E1, E34, E5. cbn [judge_lost]. rewrite !cc_add_0.
        change (2 =? 0)%Z with false. change (2 =? 2)%Z with true. cbn [orb andb].
        rewrite P5, P6, P7, R1, R5, R6, R7, !cc_eqb_refl, N.eqb_refl.
        rewrite (bif_ok_winv m W).
        assert (E1b : (1 <=? backoff m) = true) by lia. rewrite E1b. reflexivity.
      + unfold rel. cbn [j_un j_lg j_now j_last j_cc0 j_cc1 j_bo]. rewrite ?cc_add_0, P1, P2, P3, P4, P5, ?P6, ?P7.
        repeat split; try assumption; try reflexivity; try (symmetry; assumption); try congruence. }
  destruct ((c =? 7)%Z && m_client m) eqn:E7.
  { (* Retry *)
    apply andb_prop in E7 as [E7 Ec]. rewrite E7, Ec in *.
    set (m1 := if mp m then burst_complete m (m_now m) else m) in *.
    assert (F : sentp m1 = sentp m /\ ccs (pa m1) = ccs (pa m) /\ ccs (pb m1) = ccs (pb m) /\ backoff m1 = backoff m
                /\ m_now m1 = m_now m /\ lastpn m1 = lastpn m).
    { subst m1. destruct (mp m); [|repeat split; reflexivity].
      destruct (burst_facts m (m_now m)) as (B1 & B2 & B3 & B4 & B5 & B6 & B7). repeat split; assumption. }
    destruct F as (F1 & F2 & F3 & F4 & F5 & F6).
    eexists. split; [split; [|reflexivity]|].
    - assert (G : ccs (pa (retry m1)) = cc_add (ccs (pa m)) 0 0 0 (fold_right (fun p acc => p_bytes p + acc) 0 (sentp m))
                 /\ ccs (pb (retry m1)) = ccs (pb m) /\ backoff (retry m1) = backoff m).
      { unfold retry. cbn [pa pb backoff]. rewrite ccs_pa_cc_path, ccs_pb_cc_path. change (0 =? 0) with true. cbn match.
        cbn [cc_path set_path backoff]. rewrite F1, F2, F3, F4. repeat split; reflexivity. }
      destruct G as (G1 & G2 & G3).
      pose proof (bif_ok_winv _ W') as HB. change (sentp (retry m1)) with (@nil pkt) in HB.
      jopen R3 R4. rewrite ?E1, ?E34, ?E5, ?H6, ?E7, ?Ec. cbn [andb].
      rewrite HB, G1, G2, G3, R1, R5, R6, R7, !cc_eqb_refl, N.eqb_refl, Z.eqb_refl. reflexivity.
    - assert (G : ccs (pa (retry m1)) = cc_add (ccs (pa m)) 0 0 0 (fold_right (fun p acc => p_bytes p + acc) 0 (sentp m))
                 /\ ccs (pb (retry m1)) = ccs (pb m) /\ backoff (retry m1) = backoff m
                 /\ m_now (retry m1) = m_now m /\ lastpn (retry m1) = lastpn m).
      { unfold retry. cbn [pa pb backoff m_now lastpn]. rewrite ccs_pa_cc_path, ccs_pb_cc_path. change (0 =? 0) with true. cbn match.
        cbn [cc_path set_path backoff m_now lastpn]. rewrite F1, F2, F3, F4, F5, F6. repeat split; reflexivity. }
      destruct G as (G1 & G2 & G3 & G4 & G5).
      unfold rel. cbn [j_un j_lg j_now j_last j_cc0 j_cc1 j_bo]. rewrite ?G1, ?G2, ?G3, ?G4, ?G5, ?R1, ?R5.
      change (sentp (retry m1)) with (@nil pkt). change (largest (retry m1)) with (@None N).
      repeat split; try assumption; try reflexivity; try (symmetry; assumption); try congruence. }
  { (* any other code (also Retry on a server, peer validation): the ledger does not move *)
    destruct (c =? 7)%Z eqn:E7'.
    - cbn [andb] in E7. rewrite E7 in *.
      eexists. split; [split; [|reflexivity]|].
      + jopen R3 R4. rewrite ?E1, ?E34, ?E5, ?H6, ?E7', ?E7, ?E2. cbn [andb]. rewrite R1, R5, R6, R7, !cc_eqb_refl, N.eqb_refl, Z.eqb_refl.
        rewrite (bif_ok_winv m W). reflexivity.
      + unfold rel. cbn [j_un j_lg j_now j_last j_cc0 j_cc1 j_bo].
        repeat split; try assumption; try reflexivity; try (symmetry; assumption); try congruence.
    - destruct (c =? 8)%Z eqn:E8.
      + eexists. split; [split; [|reflexivity]|].
        * jopen R3 R4. rewrite ?E1, ?E34, ?E5, ?H6, ?E7', ?E2. cbn [andb peer_validated pa pb backoff].
          rewrite R1, R5, R6, R7, !cc_eqb_refl, N.eqb_refl, Z.eqb_refl.
          rewrite (bif_ok_winv m W). reflexivity.
        * unfold rel. cbn [j_un j_lg j_now j_last j_cc0 j_cc1 j_bo peer_validated sentp largest lastpn m_now pa pb backoff].
          repeat split; try assumption; try reflexivity; try (symmetry; assumption); try congruence.
      + eexists. split; [split; [|reflexivity]|].
        * jopen R3 R4. rewrite ?E1, ?E34, ?E5, ?H6, ?E7', ?E2. cbn [andb]. rewrite R1, R5, R6, R7, !cc_eqb_refl, N.eqb_refl, Z.eqb_refl.
          rewrite (bif_ok_winv m W). reflexivity.
        * unfold rel. cbn [j_un j_lg j_now j_last j_cc0 j_cc1 j_bo].
          repeat split; try assumption; try reflexivity; try (symmetry; assumption); try congruence. }
Qed.

Lemma mstep6 : forall m a b d e f g,
  mstep m 6 a b d e f g =
  if m_space m =? 2 then (m, 0%Z, [], [], false)
  else (discard (if mp m then burst_complete m (m_now m) else m), 0%Z, [], [], true).
Proof. reflexivity. Qed.

Lemma filter_path0_nil : forall l, (forall p, In p l -> p_path p = 0) -> filter (fun p => negb (p_path p =? 0)) l = [].
Proof.
  induction l as [|x l IH]; intros H; [reflexivity|]. cbn [filter]. rewrite (H x) by (left; reflexivity).
  change (0 =? 0) with true. cbn [negb]. apply IH. intros p Hp. apply H. right. assumption.
Qed.

(* a space discard (Initial / Handshake) *)
Lemma jstep_discard : forall m j a b d e f g t, winv m -> rel m j -> (m_space m =? 2) = false ->
  exists j', jstep_m true false (m_client m) j 6 a b d e f g
               (mobs (discard (if mp m then burst_complete m (m_now m) else m)) 0 [] [] (mcalls m 6 a b d e f g) ++ t) = Some (j', t, true).
Proof.
  intros m j a b d e f g t W (R1 & R2 & R3 & R4 & R5 & R6 & R7 & R8) Es.
  set (m1 := if mp m then burst_complete m (m_now m) else m).
  assert (W1 : winv m1) by (subst m1; destruct (mp m); [apply winv_burst|]; assumption).
  assert (F : sentp m1 = sentp m /\ ccs (pa m1) = ccs (pa m) /\ ccs (pb m1) = ccs (pb m) /\ backoff m1 = backoff m
              /\ m_space m1 = m_space m /\ m_client m1 = m_client m).
  { subst m1. destruct (mp m); [|repeat split; reflexivity].
    destruct (burst_facts m (m_now m)) as (B1 & B2 & B3 & B4 & B5 & B6 & B7).
    pose proof (cfg_burst m (m_now m)) as C. unfold cfg in C. injection C as C1 C2. repeat split; assumption. }
  destruct F as (F1 & F2 & F3 & F4 & F5 & F6).
  assert (Hsp : m_client m1 = true \/ m_space m1 <> 2).
  { right. rewrite F5. intros E. rewrite E in Es. discriminate. }
  destruct (discard_exact_space m1 W1 Hsp) as [D0 D1].
  assert (Hsg : single m1 = true).
  { unfold single. rewrite F5, Es. apply orb_true_r. }
  pose proof (w_single m1 W1 Hsg) as Hp0.
  assert (G : ccs (pa (discard m1)) = cc_add (ccs (pa m)) 0 0 0 (fold_right (fun p acc => p_bytes p + acc) 0 (sentp m))
              /\ ccs (pb (discard m1)) = ccs (pb m) /\ backoff (discard m1) = backoff m).
  { unfold discard. rewrite ccs_pa_cc_path, ccs_pb_cc_path. change (0 =? 0) with true. cbn match.
    cbn [cc_path set_path backoff]. rewrite F1, F2, F3, F4. repeat split; reflexivity. }
  destruct G as (G1 & G2 & G3).
  eexists. jopen R3 R4.
  change (6 =? 1)%Z with false. change ((6 =? 3) || (6 =? 4))%Z with false. change (6 =? 5)%Z with false.
  change (6 =? 6)%Z with true. cbn [negb andb]. cbn match.
  rewrite D0, D1. rewrite R1, <- F1, filter_path0_nil by assumption.
  change (sum_bytes_on [] 0) with 0. change (sum_bytes_on [] 1) with 0. change (Nz 0) with 0%Z.
  rewrite G1, G2, G3, F1, R5, R6, R7, !cc_eqb_refl, N.eqb_refl, !Z.eqb_refl. reflexivity.
Qed.

(* the same code in the ApplicationData space is ignored *)
Lemma jstep_noop6 : forall m j a b d e f g t, winv m -> rel m j -> (m_space m =? 2) = true ->
  exists j', jstep_m true true (m_client m) j 6 a b d e f g (mobs m 0 [] [] (mcalls m 6 a b d e f g) ++ t) = Some (j', t, false) /\ rel m j'.
Proof.
  intros m j a b d e f g t W (R1 & R2 & R3 & R4 & R5 & R6 & R7 & R8) Es.
  eexists. split.
  - jopen R3 R4. change (6 =? 1)%Z with false. change ((6 =? 3) || (6 =? 4))%Z with false. change (6 =? 5)%Z with false.
    change (6 =? 6)%Z with true. change (6 =? 7)%Z with false. change (6 =? 2)%Z with false. cbn [negb andb]. cbn match.
    rewrite R1, R5, R6, R7, !cc_eqb_refl, N.eqb_refl, Z.eqb_refl. rewrite (bif_ok_winv m W). reflexivity.
  - unfold rel. cbn [j_un j_lg j_now j_last j_cc0 j_cc1 j_bo].
    repeat split; try assumption; try reflexivity; try (symmetry; assumption); try congruence.
Qed.

Lemma judge_run_ops : forall l m j, winv m -> now_pos m -> rel m j ->
  judge_ops true (m_space m =? 2) (m_client m) j l (run_ops m l) = true.
Proof.
  induction l as [l Hl | c a b d e f g x t IH] using RttProofs.list_ind8; intros m j W Hn R.
  - destruct l as [|c [|a [|b [|d [|e [|f [|g [|x t]]]]]]]]; try reflexivity. cbn [length] in Hl. lia.
  - cbn [run_ops judge_ops].
    destruct (c =? 6)%Z eqn:H6.
    + apply Z.eqb_eq in H6. subst c. rewrite mstep6. destruct (m_space m =? 2) eqn:Es.
      * destruct (jstep_noop6 m j a b d e f g (run_ops m t) W R Es) as (j' & HJ & R').
        rewrite HJ. specialize (IH m j' W Hn R'). rewrite Es in IH. exact IH.
      * destruct (jstep_discard m j a b d e f g [] W R Es) as (j' & HJ).
        rewrite HJ. reflexivity.
    + pose proof (winv_mstep m c a b d e f g W Hn H6) as [W' Hn'].
      destruct (jstep_ok m j c a b d e f g (run_ops (mstep_state m c a b d e f g) t) W Hn R H6) as (j' & HJ & R').
      pose proof (cfg_mstep m c a b d e f g) as HC. unfold cfg in HC. injection HC as HC1 HC2.
      unfold mstep_state in *.
      destruct (mstep m c a b d e f g) as [[[[m' code] lost] hulls] stop] eqn:EM.
      destruct HJ as [HJ ->]. rewrite HJ. rewrite <- HC1, <- HC2. apply IH; assumption.
Qed.

(* the judgement with one granularity of slack accepts every run of the model: any space, client or
   server, with space discards and Retry *)
Theorem judge_tol_run : forall case, judge_tol case (run case) = true.
Proof.
  intros case. unfold judge_tol, judge_g, run.
  destruct case as [|sp [|cf [|mad [|st ops]]]]; try reflexivity.
  set (m0 := minit (zN sp) (N.odd (zN cf)) (N.odd (zN cf / 2)) (zN mad) (zN st)).
  assert (Ea : negb ((zN sp =? 0) || (zN sp =? 1)) = (m_space m0 =? 2)).
  { subst m0. cbn [minit m_space]. destruct (zN sp =? 0); [reflexivity|]. destruct (zN sp =? 1); reflexivity. }
  rewrite Ea. change (N.odd (zN cf / 2)) with (m_client m0).
  apply judge_run_ops; [apply winv_init| |].
  - unfold now_pos, m0, minit. cbn [m_now]. lia.
  - unfold rel, m0, minit, jinit. cbn. repeat split; reflexivity || lia.
Qed.

(* the judgement without the slack rejects the model's own run (and the implementation's) on the
   early-loss input: RTT 500 us, packet 1 sent 501 us before the ACK of packet 2 arrives *)
Example judge_strict_refuted : exists case, judge case (run case) = false /\ judge_tol case (run case) = true.
Proof.
  exists [1; 1; 25; 1000;  1; 1; 1200; 1; 0; 0; 0; 0;  2; 0; 0; 0; 0; 0; 0; 0;  3; 500; 0; 0; 0; 0; 0; 0;
          1; 1; 1200; 1; 0; 0; 0; 0;  1; 1; 1200; 1; 1; 0; 0; 0;  2; 0; 0; 0; 0; 0; 0; 0;  3; 500; 2; 0; 0; 0; 0; 0]%Z.
  vm_compute. split; reflexivity.
Qed.
