(* Proofs about the KeySet model (model/KeySet.v): single-endpoint invariants, the monitor accepts
   every run of the model, Prop-level meaning of the C15 clauses, two-endpoint composition. *)
From SQ Require Import lib.Base lib.ListX gen.Gen_C15 model.KeySet.
From Coq Require Import Sorting.Sorted.
Local Open Scope N_scope.

(* ------------------------------------------------------------------ basic facts *)
Lemma phase_to_use_eq : forall s p pn la, phase_to_use s p pn la = p.
Proof.
  intros s p pn la. unfold phase_to_use.
  destruct (phase s), p; cbn; destruct (in_progress s); cbn; try destruct (pn <? la); reflexivity.
Qed.

Definition gen_of (s : keyset) (p : bool) : N := k_gen (slot s p).
Definition act_gen (s : keyset) : N := k_gen (active s).

Lemma zN_Nz : forall n, zN (Nz n) = n.
Proof. intros. unfold zN, Nz. apply N2Z.id. Qed.
Lemma bz_nonzero : forall b, negb (bz b =? 0)%Z = b.
Proof. destruct b; reflexivity. Qed.

(* the generation structure of a KeySet: the active slot holds generation a whose parity is the
   key phase; the other slot holds a+1 (pre-derived next key) when no update is in progress and
   a-1 (retained previous key) while the derivation timer is armed *)
Record inv (cl il : N) (s : keyset) : Prop := {
  i_par : N.odd (act_gen s) = phase s;
  i_other : match timer s with
            | None => gen_of s (negb (phase s)) = act_gen s + 1
            | Some _ => gen_of s (negb (phase s)) + 1 = act_gen s
            end;
  i_lim0 : k_limit (slot0 s) = cl;
  i_lim1 : k_limit (slot1 s) = cl;
  i_integ : integ s = il }.

(* relation between an endpoint and the monitor that watched its outputs so far *)
Record minv (cl il : N) (s : keyset) (m : mon) : Prop := {
  m_inv : inv cl il s;
  m_a : m_act m = act_gen s;
  m_ar : m_armed m = in_progress s;
  m_f : m_fail m = failures s;
  m_c1 : forall p, gen_of s p = m_last m -> k_enc (slot s p) = m_cnt m;
  m_c2 : forall p, m_last m < gen_of s p -> k_enc (slot s p) = 0;
  m_b : m_last m <= act_gen s + (if in_progress s then 0 else 1);
  m_nu : in_progress s = false -> m_last m = act_gen s + 1 ->
         needs_update (active s) (window s) = true;
  m_le : m_cnt m <= cl }.

Lemma odd_succ_negb : forall a, N.odd (a + 1) = negb (N.odd a).
Proof. intros. rewrite N.add_1_r, N.odd_succ, <- N.negb_odd. reflexivity. Qed.

Lemma slot_parity : forall cl il s p, inv cl il s -> N.odd (gen_of s p) = p.
Proof.
  intros cl il s p [Hp Ho _ _ _]. unfold gen_of, act_gen, active in *.
  destruct (Bool.eqb p (phase s)) eqn:E.
  - apply Bool.eqb_prop in E. subst p. exact Hp.
  - assert (p = negb (phase s)) as -> by (revert E; destruct p, (phase s); cbn; congruence).
    destruct (timer s).
    + assert (N.odd (k_gen (slot s (negb (phase s))) + 1) = phase s) by (rewrite Ho; exact Hp).
      rewrite odd_succ_negb in H. apply (f_equal negb) in H. rewrite Bool.negb_involutive in H. exact H.
    + rewrite Ho, odd_succ_negb, Hp. reflexivity.
Qed.

Lemma init_inv : forall cl il win, inv cl il (ks_new cl il win).
Proof. intros. constructor; cbn; reflexivity. Qed.

Lemma init_minv : forall cl il win, minv cl il (ks_new cl il win) mon0.
Proof.
  intros. constructor; try (cbn; reflexivity).
  - apply init_inv.
  - intros [|]; cbn; intros H; [discriminate|reflexivity].
  - intros [|]; cbn; intros H; [reflexivity|lia].
  - cbn. lia.
  - cbn. intros _ H. discriminate.
  - cbn. lia.
Qed.

Ltac ks_destruct s := destruct s as [ph tm fl ig gn k0 k1 w dv].

Lemma minv_observe : forall cl il s m, minv cl il s m ->
  minv cl il s (mon_observe m (act_gen s) (in_progress s)).
Proof. intros cl il s m []. constructor; cbn; auto. Qed.

(* ------------------------------------------------------------------ encrypt *)
Lemma encryption_phase_cases : forall s,
  (encryption_phase s = negb (phase s) /\ needs_update (active s) (window s) = true /\ in_progress s = false)
  \/ (encryption_phase s = phase s /\ (needs_update (active s) (window s) = false \/ in_progress s = true)).
Proof.
  intros s. unfold encryption_phase.
  destruct (needs_update (active s) (window s)); cbn; [|right; auto].
  destruct (in_progress s); cbn; [right; auto|left; auto].
Qed.

Lemma in_progress_timer : forall s, in_progress s = match timer s with Some _ => true | None => false end.
Proof. reflexivity. Qed.

Lemma enc_step : forall cl il s m s' r, minv cl il s m -> encrypt_packet s = (s', r) ->
  match r with
  | EncOk ph g =>
      exists m', mon_enc cl m 0%Z (Nz g) = Some m' /\
                 minv cl il s' (mon_observe m' (act_gen s') (in_progress s')) /\
                 m_last m <= g /\ m_last m' = g /\ m_cnt m' <= cl /\
                 m_cnt m' = (if g =? m_last m then m_cnt m + 1 else 1)
  | EncLimit _ => s' = s
  end.
Proof.
  intros cl il s m s' r M E. unfold encrypt_packet in E.
  destruct (expired (slot s (encryption_phase s))) eqn:Ex.
  { injection E as <- <-. reflexivity. }
  injection E as <- <-.
  destruct M as [[Hp Ho L0 L1 Hi] Ha Har Hf C1 C2 Hb Hnu Hle].
  set (ph := encryption_phase s) in *.
  set (g := k_gen (slot s ph)).
  assert (Hlim : k_limit (slot s ph) = cl) by (destruct ph; cbn; assumption).
  assert (Henc : k_enc (slot s ph) < cl).
  { unfold expired in Ex. rewrite Hlim in Ex. apply N.leb_gt in Ex. exact Ex. }
  (* the generation chosen is at least the last one used *)
  assert (Hge : m_last m <= g).
  { destruct (encryption_phase_cases s) as [[E1 [E2 E3]]|[E1 E2]]; fold ph in E1; subst g; rewrite E1.
    - unfold in_progress in *. destruct (timer s); [discriminate|].
      unfold gen_of in Ho. rewrite Ho. exact Hb.
    - destruct (in_progress s) eqn:IP.
      + unfold act_gen, active in Hb. lia.
      + destruct E2 as [E2|E2]; [|discriminate].
        destruct (N.eq_dec (m_last m) (act_gen s + 1)) as [Heq|Hne].
        * rewrite (Hnu eq_refl Heq) in E2. discriminate.
        * unfold act_gen, active in *. lia. }
  set (cnt := if g =? m_last m then m_cnt m + 1 else 1).
  assert (Hcnt : k_enc (slot s ph) + 1 = cnt).
  { unfold cnt. destruct (N.eqb_spec g (m_last m)) as [e|ne].
    - rewrite (C1 ph e). reflexivity.
    - rewrite (C2 ph) by (unfold gen_of; fold g; lia). reflexivity. }
  exists {| m_last := g; m_cnt := cnt; m_fail := m_fail m; m_act := m_act m; m_armed := m_armed m |}.
  assert (Hcl : cnt <= cl) by lia.
  split.
  { unfold mon_enc. cbn [Z.eqb]. rewrite zN_Nz. fold cnt.
    destruct (N.leb_spec (m_last m) g); [|lia].
    destruct (N.leb_spec cnt cl); [|lia]. reflexivity. }
  split; [|repeat split; try assumption; reflexivity].
  (* the invariant after the step *)
  assert (Hph' : phase (set_slot s ph (on_enc (slot s ph))) = phase s) by reflexivity.
  assert (Htm' : timer (set_slot s ph (on_enc (slot s ph))) = timer s) by reflexivity.
  assert (Hgen' : forall q, gen_of (set_slot s ph (on_enc (slot s ph))) q = gen_of s q).
  { intros q. unfold gen_of. destruct q, ph; reflexivity. }
  assert (Henc' : forall q, k_enc (slot (set_slot s ph (on_enc (slot s ph))) q) =
                            if Bool.eqb q ph then k_enc (slot s ph) + 1 else k_enc (slot s q)).
  { intros q. destruct q, ph; reflexivity. }
  assert (Hact' : act_gen (set_slot s ph (on_enc (slot s ph))) = act_gen s).
  { unfold act_gen, active. rewrite Hph'. apply Hgen'. }
  constructor; cbn [m_last m_cnt m_fail m_act m_armed mon_observe].
  - constructor.
    + rewrite Hact', Hph'. exact Hp.
    + rewrite Htm', Hph', Hgen', Hact'. exact Ho.
    + destruct ph; cbn; assumption.
    + destruct ph; cbn; assumption.
    + exact Hi.
  - reflexivity.
  - reflexivity.
  - exact Hf.
  - intros q Hq. rewrite Hgen' in Hq. rewrite Henc'.
    destruct (Bool.eqb q ph) eqn:Eq.
    + exact Hcnt.
    + exfalso. (* two slots never hold the same generation *)
      assert (q = negb ph) as -> by (revert Eq; destruct q, ph; cbn; congruence).
      unfold gen_of in Hq. fold g in Hq.
      unfold gen_of, act_gen, active in Ho.
      destruct (timer s); destruct ph, (phase s); cbn in *; subst g; cbn in *; lia.
  - intros q Hq. rewrite Hgen' in Hq. rewrite Henc'.
    destruct (Bool.eqb q ph) eqn:Eq.
    + apply Bool.eqb_prop in Eq. subst q. unfold gen_of in Hq. fold g in Hq. lia.
    + apply C2. lia.
  - rewrite Hact'. change (in_progress (set_slot s ph (on_enc (slot s ph)))) with (in_progress s).
    destruct (encryption_phase_cases s) as [[E1 [E2 E3]]|[E1 E2]]; fold ph in E1.
    + rewrite E3. subst g. rewrite E1. rewrite in_progress_timer in E3. destruct (timer s); [discriminate|].
      unfold gen_of in Ho. rewrite Ho. lia.
    + subst g. rewrite E1. unfold act_gen, active. destruct (in_progress s); lia.
  - change (in_progress (set_slot s ph (on_enc (slot s ph)))) with (in_progress s).
    rewrite Hact'. intros IP Hg.
    destruct (encryption_phase_cases s) as [[E1 [E2 E3]]|[E1 E2]]; fold ph in E1.
    + (* the active slot is untouched *)
      change (window (set_slot s ph (on_enc (slot s ph)))) with (window s).
      assert (active (set_slot s ph (on_enc (slot s ph))) = active s) as ->.
      { unfold active. rewrite Hph'. rewrite E1. destruct (phase s); reflexivity. }
      exact E2.
    + exfalso. subst g. rewrite E1 in Hg. unfold act_gen, active in Hg. lia.
  - exact Hcl.
Qed.

(* ------------------------------------------------------------------ decrypt *)
Lemma holds_slot : forall cl il s m g p, minv cl il s m ->
  genuine g p = true -> holds m g = true -> gen_of s p = g.
Proof.
  intros cl il s m g p M G H.
  destruct M as [[Hp Ho L0 L1 Hi] Ha Har Hf C1 C2 Hb Hnu Hle].
  unfold genuine in G. apply andb_prop in G as [_ G]. apply Bool.eqb_prop in G.
  unfold holds in H. rewrite Ha, Har in H. unfold in_progress in H.
  unfold gen_of, act_gen, active in *.
  apply orb_prop in H as [H|H]; [apply orb_prop in H as [H|H]|].
  - apply N.eqb_eq in H. subst g. rewrite Hp in G. subst p. reflexivity.
  - apply andb_prop in H as [H1 H2]. apply N.eqb_eq in H2. subst g.
    destruct (timer s); [discriminate|].
    rewrite odd_succ_negb, Hp in G. subst p. exact Ho.
  - apply andb_prop in H as [H1 H2]. apply N.eqb_eq in H2.
    destruct (timer s); [|discriminate].
    rewrite <- H2, odd_succ_negb in Hp.
    assert (p = negb (phase s)) as -> by (rewrite <- Hp, Bool.negb_involutive; symmetry; exact G).
    lia.
Qed.

Lemma minv_on_dec : forall cl il s m p, minv cl il s m ->
  minv cl il (set_slot s p (on_dec (slot s p))) m.
Proof.
  intros cl il s m p [[Hp Ho L0 L1 Hi] Ha Har Hf C1 C2 Hb Hnu Hle].
  assert (Hg : forall q, gen_of (set_slot s p (on_dec (slot s p))) q = gen_of s q)
    by (intros q; unfold gen_of; destruct q, p; reflexivity).
  assert (He : forall q, k_enc (slot (set_slot s p (on_dec (slot s p))) q) = k_enc (slot s q))
    by (intros q; destruct q, p; reflexivity).
  assert (Hact : act_gen (set_slot s p (on_dec (slot s p))) = act_gen s)
    by (unfold act_gen, active; apply Hg).
  assert (Hn : needs_update (active (set_slot s p (on_dec (slot s p)))) (window s) = needs_update (active s) (window s)).
  { unfold needs_update, active. cbn [phase set_slot]. destruct (phase s), p; reflexivity. }
  constructor.
  - constructor.
    + rewrite Hact. exact Hp.
    + change (timer (set_slot s p (on_dec (slot s p)))) with (timer s).
      change (phase (set_slot s p (on_dec (slot s p)))) with (phase s).
      rewrite Hg, Hact. exact Ho.
    + destruct p; cbn; assumption.
    + destruct p; cbn; assumption.
    + exact Hi.
  - rewrite Hact. exact Ha.
  - exact Har.
  - exact Hf.
  - intros q Hq. rewrite Hg in Hq. rewrite He. auto.
  - intros q Hq. rewrite Hg in Hq. rewrite He. auto.
  - rewrite Hact. exact Hb.
  - rewrite Hact. change (window (set_slot s p (on_dec (slot s p)))) with (window s). rewrite Hn. exact Hnu.
  - exact Hle.
Qed.

(* evaluate comparisons of integer literals (Z.eqb is simpl never) *)
Ltac zlit := repeat match goal with
  | |- context [(?a =? ?b)%Z] => let v := eval vm_compute in (a =? b)%Z in
      match v with true => change ((a =? b)%Z) with true | false => change ((a =? b)%Z) with false end
  end.

Definition mon_fail (m : mon) (f : N) : mon :=
  {| m_last := m_last m; m_cnt := m_cnt m; m_fail := f; m_act := m_act m; m_armed := m_armed m |}.

Lemma minv_rotate : forall cl il s m t, minv cl il s m -> in_progress s = false ->
  let s' := set_timer (rotate_phase s) (Some t) in
  minv cl il s' (mon_observe m (act_gen s') (in_progress s')).
Proof.
  intros cl il s m t [[Hp Ho L0 L1 Hi] Ha Har Hf C1 C2 Hb Hnu Hle] IP s'.
  unfold in_progress in *. destruct (timer s) eqn:T; [discriminate|].
  assert (Hact : act_gen s' = act_gen s + 1).
  { unfold s', act_gen, active. cbn [phase set_timer rotate_phase]. exact Ho. }
  constructor; cbn [m_last m_cnt m_fail m_act m_armed mon_observe].
  - constructor.
    + rewrite Hact, odd_succ_negb, Hp. reflexivity.
    + cbn [timer set_timer s' phase rotate_phase]. rewrite Bool.negb_involutive.
      unfold gen_of. change (slot (set_timer (rotate_phase s) (Some t)) (phase s)) with (slot s (phase s)).
      fold (active s). fold (act_gen s). rewrite Hact. reflexivity.
    + exact L0.
    + exact L1.
    + exact Hi.
  - reflexivity.
  - reflexivity.
  - exact Hf.
  - intros q. apply C1.
  - intros q. apply C2.
  - rewrite Hact. cbn. cbn in Hb. lia.
  - cbn. discriminate.
  - exact Hle.
Qed.

Lemma minv_fail : forall cl il s m, minv cl il s m ->
  minv cl il (with_failures s (failures s + 1)) (mon_fail m (m_fail m + 1)).
Proof.
  intros cl il s m [[Hp Ho L0 L1 Hi] Ha Har Hf C1 C2 Hb Hnu Hle].
  constructor; cbn [m_last m_cnt m_fail m_act m_armed mon_fail]; try assumption.
  - constructor; assumption.
  - cbn. rewrite Hf. reflexivity.
Qed.

Lemma dec_step : forall cl il s m g p pn la pto s' r, minv cl il s m ->
  decrypt_packet s g p pn la pto = (s', r) ->
  is_ok r = (gen_of s p =? g) /\
  exists m', mon_dec il m g p (nth 0 (dec_out r) 0%Z) = Some m' /\
             minv cl il s' (mon_observe m' (act_gen s') (in_progress s')).
Proof.
  intros cl il s m g p pn la pto s' r M E.
  unfold decrypt_packet in E. rewrite phase_to_use_eq in E.
  pose proof (minv_on_dec cl il s m p M) as M1.
  set (s1 := set_slot s p (on_dec (slot s p))) in *.
  fold (gen_of s p) in E.
  destruct (gen_of s p =? g) eqn:Ok.
  - (* opened *)
    assert (Hmon : forall c, (c = 0 \/ c = 1)%Z -> mon_dec il m g p c = Some (mon_fail m (m_fail m))).
    { intros c Hc. unfold mon_dec.
      assert ((c =? 0)%Z || (c =? 1)%Z = true) as -> by (destruct Hc; subst; reflexivity).
      assert ((c =? 2)%Z || (c =? 3)%Z = false) as -> by (destruct Hc; subst; reflexivity).
      cbn. destruct (genuine g p && holds m g); reflexivity. }
    assert (Hsame : forall s2 a ar, minv cl il s2 (mon_observe m a ar) ->
                    minv cl il s2 (mon_observe (mon_fail m (m_fail m)) a ar)).
    { intros s2 a ar []. constructor; cbn in *; auto. }
    destruct (negb (eqb p (phase s1)) && negb (in_progress s1)) eqn:R.
    + injection E as <- <-. split; [reflexivity|].
      eexists. split; [apply Hmon; right; reflexivity|].
      apply andb_prop in R as [_ R]. apply Bool.negb_true_iff in R.
      apply Hsame. apply (minv_rotate cl il s1 m _ M1 R).
    + injection E as <- <-. split; [reflexivity|].
      eexists. split; [apply Hmon; left; reflexivity|].
      apply Hsame. apply minv_observe. exact M1.
  - (* authentication failed *)
    pose proof (minv_fail cl il s1 m M1) as M2.
    assert (Hnot : genuine g p && holds m g = false).
    { destruct (genuine g p) eqn:G; [|reflexivity]. destruct (holds m g) eqn:H; [|reflexivity].
      rewrite (holds_slot cl il s m g p M G H) in Ok. rewrite N.eqb_refl in Ok. discriminate. }
    assert (Hf : m_fail m = failures s) by (destruct M; assumption).
    assert (Hi : integ s = il) by (destruct M as [[]]; assumption).
    cbn [integ failures with_failures] in E.
    change (integ s1) with (integ s) in E. change (failures s1) with (failures s) in E.
    destruct (integ s <=? failures s + 1) eqn:LL; injection E as <- <-; (split; [reflexivity|]);
      exists (mon_fail m (m_fail m + 1)); (split; [|apply minv_observe; exact M2]);
      unfold mon_dec; rewrite Hnot; cbn [dec_out nth]; zlit; cbn [orb andb]; rewrite Hf, <- Hi, LL; reflexivity.
Qed.

(* ------------------------------------------------------------------ on_timeout *)
Lemma timeout_step : forall cl il s m now, minv cl il s m ->
  let s' := on_timeout s now in
  minv cl il s' (mon_observe m (act_gen s') (in_progress s')).
Proof.
  intros cl il s m now M s'. subst s'. unfold on_timeout.
  destruct (timer s) eqn:T; [|apply minv_observe; exact M].
  destruct (has_elapsed n now); [|apply minv_observe; exact M].
  destruct M as [[Hp Ho L0 L1 Hi] Ha Har Hf C1 C2 Hb Hnu Hle].
  unfold in_progress in *. rewrite T in *.
  set (s' := derive_and_store_next_key (set_timer s None)).
  assert (Hlim : k_limit (active s) = cl) by (unfold active; destruct (phase s); assumption).
  assert (Hact : act_gen s' = act_gen s).
  { unfold s', act_gen, active, derive_and_store_next_key. cbn. destruct (phase s); reflexivity. }
  assert (Hoth : slot s' (negb (phase s)) = key_new (act_gen s + 1) cl).
  { unfold s', derive_and_store_next_key, derive_next. cbn. rewrite <- Hlim.
    unfold act_gen, active. cbn. destruct (phase s); reflexivity. }
  assert (Hsame : slot s' (phase s) = slot s (phase s)).
  { unfold s', derive_and_store_next_key. cbn. destruct (phase s); reflexivity. }
  assert (Hph : phase s' = phase s) by reflexivity.
  assert (Htm : timer s' = None) by reflexivity.
  assert (Hl : forall q, k_limit (slot s' q) = cl).
  { intros q. destruct (Bool.eqb q (phase s)) eqn:Eq.
    - apply Bool.eqb_prop in Eq. subst q. rewrite Hsame. destruct (phase s); assumption.
    - assert (q = negb (phase s)) as -> by (revert Eq; destruct q, (phase s); cbn; congruence).
      rewrite Hoth. reflexivity. }
  constructor; cbn [m_last m_cnt m_fail m_act m_armed mon_observe].
  - constructor.
    + rewrite Hact, Hph. exact Hp.
    + rewrite Htm, Hph. unfold gen_of. rewrite Hoth, Hact. reflexivity.
    + exact (Hl false).
    + exact (Hl true).
    + exact Hi.
  - reflexivity.
  - reflexivity.
  - exact Hf.
  - intros q Hq. unfold gen_of in Hq.
    destruct (Bool.eqb q (phase s)) eqn:Eq.
    + apply Bool.eqb_prop in Eq. subst q. rewrite Hsame in *. apply C1. exact Hq.
    + assert (q = negb (phase s)) as -> by (revert Eq; destruct q, (phase s); cbn; congruence).
      rewrite Hoth in Hq. cbn in Hq. cbn in Hb. lia.
  - intros q Hq. unfold gen_of in Hq.
    destruct (Bool.eqb q (phase s)) eqn:Eq.
    + apply Bool.eqb_prop in Eq. subst q. rewrite Hsame in *. apply C2. exact Hq.
    + assert (q = negb (phase s)) as -> by (revert Eq; destruct q, (phase s); cbn; congruence).
      rewrite Hoth. reflexivity.
  - rewrite Hact. unfold in_progress. rewrite Htm. cbn in Hb. lia.
  - intros _ Hq. rewrite Hact in Hq. cbn in Hb. lia.
  - exact Hle.
Qed.

(* ------------------------------------------------------------------ one step, any operation *)
Lemma mon_dec_last : forall il m g p c m', mon_dec il m g p c = Some m' ->
  m_last m' = m_last m /\ m_cnt m' = m_cnt m.
Proof.
  intros il m g p c m' H. unfold mon_dec in H.
  destruct (_ && _) in H; [|discriminate]. injection H as <-. split; reflexivity.
Qed.

Lemma kstep_ok : forall cl il s m o s' out, minv cl il s m -> kstep s o = (s', out) ->
  length out = kop_len o /\
  exists m', mon_kop cl il m o out = Some m' /\
             minv cl il s' (mon_observe m' (act_gen s') (in_progress s')).
Proof.
  intros cl il s m o s' out M E. destruct o as [|g p pn la pto|now0]; cbn [kstep] in E.
  - destruct (encrypt_packet s) as [s1 r] eqn:Enc. injection E as <- <-.
    pose proof (enc_step cl il s m s1 r M Enc) as H. destruct r as [ph g|ph].
    + destruct H as [m' [H1 [H2 _]]]. split; [reflexivity|]. exists m'. split; [exact H1|exact H2].
    + subst s1. split; [reflexivity|]. exists m. split; [reflexivity|apply minv_observe; exact M].
  - destruct (decrypt_packet s g p pn la pto) as [s1 r] eqn:Dec. injection E as <- <-.
    destruct (dec_step cl il s m g p pn la pto s1 r M Dec) as [_ [m' [H1 H2]]].
    split; [destruct r as [[|]| |]; reflexivity|]. exists m'. split; [exact H1|exact H2].
  - injection E as <- <-. split; [reflexivity|]. exists m. split; [reflexivity|].
    apply timeout_step. exact M.
Qed.

Lemma take_out_app : forall n (a b : list Z), length a = n -> take_out n (a ++ b) = Some (a, b).
Proof.
  intros n a b <-. unfold take_out. rewrite app_length.
  assert ((length a <=? length a + length b)%nat = true) as -> by (apply Nat.leb_le; lia).
  rewrite firstn_app, Nat.sub_diag, firstn_all. cbn [firstn]. rewrite app_nil_r.
  rewrite skipn_app, Nat.sub_diag, skipn_all. reflexivity.
Qed.

Lemma skipn_app_exact : forall (a b : list Z), skipn (length a) (a ++ b) = b.
Proof. intros. rewrite skipn_app, Nat.sub_diag, skipn_all. reflexivity. Qed.

Lemma mon_kop_app : forall cl il m o out x, length out = kop_len o ->
  mon_kop cl il m o (out ++ x) = mon_kop cl il m o out.
Proof.
  intros cl il m o out x L. destruct o; cbn [mon_kop kop_len] in *.
  - rewrite !app_nth1 by lia. reflexivity.
  - rewrite !app_nth1 by lia. reflexivity.
  - reflexivity.
Qed.

Lemma judge_kops_run : forall cl il ops s m, minv cl il s m ->
  judge_kops cl il m ops (run_kops s ops) = true.
Proof.
  intros cl il. induction ops as [|o t IH]; intros s m M; [reflexivity|].
  cbn [run_kops judge_kops]. destruct (kstep s o) as [s' out] eqn:E.
  destruct (kstep_ok cl il s m o s' out M E) as [L [m' [H1 H2]]].
  rewrite app_assoc. rewrite take_out_app by (rewrite app_length, L; reflexivity).
  rewrite mon_kop_app by exact L. rewrite H1.
  rewrite <- L, skipn_app_exact. cbn [st_full nth]. rewrite zN_Nz, bz_nonzero.
  apply IH. exact H2.
Qed.

Theorem ks_judge_run : forall c, ks_judge c (ks_run c) = true.
Proof. intros c. unfold ks_judge, ks_run, ks_cfg. apply judge_kops_run. apply init_minv. Qed.

(* ------------------------------------------------------------------ meaning over all histories *)
Fixpoint ksteps (s : keyset) (ops : list kop) : keyset :=
  match ops with [] => s | o :: t => ksteps (fst (kstep s o)) t end.

(* generations under which the successive packets of one endpoint were sealed, in sealing order
   (= packet-number order) *)
Fixpoint enc_gens (s : keyset) (ops : list kop) : list N :=
  match ops with
  | [] => []
  | o :: t =>
      let rest := enc_gens (fst (kstep s o)) t in
      match o with
      | KEnc => match snd (encrypt_packet s) with EncOk _ g => g :: rest | EncLimit _ => rest end
      | _ => rest
      end
  end.

Lemma count_below : forall l g x, Forall (fun y => g <= y) l -> x < g -> count_occ N.eq_dec l x = 0%nat.
Proof.
  intros l g x F H. apply count_occ_not_In. intros I. rewrite Forall_forall in F.
  specialize (F x I). lia.
Qed.

Lemma minv_same_counts : forall cl il s m m' a ar, minv cl il s (mon_observe m' a ar) ->
  m_last m' = m_last m -> m_cnt m' = m_cnt m -> m_fail m' = m_fail m -> True.
Proof. trivial. Qed.

Lemma gens_ok : forall cl il ops s m, minv cl il s m ->
  let gs := enc_gens s ops in
  Forall (fun g => m_last m <= g) gs /\ StronglySorted N.le gs /\
  forall g, (N.of_nat (count_occ N.eq_dec gs g) + (if g =? m_last m then m_cnt m else 0) <= cl).
Proof.
  intros cl il. induction ops as [|o t IH]; intros s m M.
  { cbn. split; [constructor|]. split; [constructor|]. intros g. destruct M. destruct (g =? m_last m); lia. }
  cbn [enc_gens]. destruct o as [|g0 p pn la pto|now0].
  - cbn [kstep]. destruct (encrypt_packet s) as [s1 r] eqn:Enc. cbn [fst snd].
    pose proof (enc_step cl il s m s1 r M Enc) as H. destruct r as [ph g|ph].
    + destruct H as [m' [_ [M' [Hge [Hl [Hc Hcnt]]]]]].
      destruct (IH s1 _ M') as [F [S C]]. cbn [mon_observe m_last m_cnt] in F, C. rewrite Hl in F, C.
      split; [|split].
      * constructor; [exact Hge|]. eapply Forall_impl; [|exact F]. cbn. intros; lia.
      * constructor; [exact S|exact F].
      * intros x. cbn [count_occ]. destruct (N.eq_dec g x) as [e|ne].
        -- subst x. specialize (C g). rewrite N.eqb_refl, Hcnt in C.
           destruct (g =? m_last m); lia.
        -- destruct (N.lt_ge_cases x g) as [lt|ge].
           ++ rewrite (count_below _ g x F lt). destruct M. destruct (x =? m_last m); lia.
           ++ specialize (C x). destruct (N.eqb_spec x g); [congruence|].
              destruct (N.eqb_spec x (m_last m)); [lia|]. lia.
    + subst s1. apply IH. exact M.
  - cbn [kstep]. destruct (decrypt_packet s g0 p pn la pto) as [s1 r] eqn:Dec. cbn [fst].
    destruct (dec_step cl il s m g0 p pn la pto s1 r M Dec) as [_ [m' [H1 H2]]].
    destruct (mon_dec_last _ _ _ _ _ _ H1) as [E1 E2].
    pose proof (IH s1 _ H2) as H. cbn [mon_observe m_last m_cnt] in H. rewrite E1, E2 in H. exact H.
  - cbn [kstep fst]. pose proof (IH _ _ (timeout_step cl il s m now0 M)) as H.
    cbn [mon_observe m_last m_cnt] in H. exact H.
Qed.

Theorem conf_limit_respected : forall cl il win ops g,
  N.of_nat (count_occ N.eq_dec (enc_gens (ks_new cl il win) ops) g) <= cl.
Proof.
  intros. destruct (gens_ok cl il ops _ _ (init_minv cl il win)) as [_ [_ C]].
  specialize (C g). destruct (g =? m_last mon0); lia.
Qed.

Theorem generation_monotone : forall cl il win ops,
  StronglySorted N.le (enc_gens (ks_new cl il win) ops).
Proof. intros. destruct (gens_ok cl il ops _ _ (init_minv cl il win)) as [_ [S _]]. exact S. Qed.

(* reachable states keep the generation structure *)
Lemma ksteps_minv : forall cl il ops s m, minv cl il s m -> exists m', minv cl il (ksteps s ops) m'.
Proof.
  intros cl il. induction ops as [|o t IH]; intros s m M; [exists m; exact M|].
  cbn [ksteps]. destruct (kstep s o) as [s' out] eqn:E. cbn [fst].
  destruct (kstep_ok cl il s m o s' out M E) as [_ [m' [_ H]]]. eapply IH. exact H.
Qed.

Lemma reach_inv : forall cl il win ops, inv cl il (ksteps (ks_new cl il win) ops).
Proof. intros. destruct (ksteps_minv cl il ops _ _ (init_minv cl il win)) as [m' []]. assumption. Qed.

Theorem refuses_at_limit : forall s,
  expired (slot s (encryption_phase s)) = true ->
  encrypt_packet s = (s, EncLimit (encryption_phase s)).
Proof. intros s H. unfold encrypt_packet. rewrite H. reflexivity. Qed.

(* ... and the key chosen is expired exactly when it has sealed confidentiality-limit packets *)
Lemma expired_iff : forall k, expired k = true <-> k_limit k <= k_enc k.
Proof. intros. unfold expired. apply N.leb_le. Qed.

(* needs_update fires key_update_window packets before the limit, hence strictly before expiry *)
Theorem update_window_precedes_expiry : forall k win, 0 < win -> 0 < k_limit k ->
  (needs_update k win = true <-> k_limit k - win < k_enc k) /\
  k_limit k - win < k_limit k /\
  (expired k = true -> needs_update k win = true).
Proof.
  intros k win Hw Hl. unfold needs_update, expired. repeat split.
  - apply N.ltb_lt.
  - apply N.ltb_lt.
  - lia.
  - intros H. apply N.leb_le in H. apply N.ltb_lt. lia.
Qed.

Lemma kstep_window : forall s o, window (fst (kstep s o)) = window s.
Proof.
  intros s o. destruct o as [|g p pn la pto|now0]; cbn [kstep].
  - unfold encrypt_packet. destruct (expired _); reflexivity.
  - unfold decrypt_packet. destruct (_ =? _); [destruct (_ && _)|destruct (_ <=? _)]; reflexivity.
  - cbn [fst]. unfold on_timeout. destruct (timer s); [|reflexivity]. destruct (has_elapsed _ _); reflexivity.
Qed.

Lemma ksteps_window : forall ops s, window (ksteps s ops) = window s.
Proof.
  induction ops as [|o t IH]; intros s; [reflexivity|]. cbn [ksteps]. rewrite IH. apply kstep_window.
Qed.

(* in every reachable state: once the active key is inside the update window and no update is in
   progress, the next packet goes to the pre-derived next generation *)
Theorem update_before_limit : forall cl il win ops,
  let s := ksteps (ks_new cl il win) ops in
  in_progress s = false -> cl - win < k_enc (active s) ->
  encryption_phase s = negb (phase s) /\ gen_of s (negb (phase s)) = act_gen s + 1.
Proof.
  intros cl il win ops s IP H.
  assert (W : window s = win) by (subst s; rewrite ksteps_window; reflexivity).
  pose proof (reach_inv cl il win ops) as [Hp Ho L0 L1 Hi]. fold s in Hp, Ho, L0, L1.
  assert (Hl : k_limit (active s) = cl) by (unfold active; destruct (phase s); assumption).
  unfold encryption_phase, needs_update. rewrite Hl, W, IP.
  assert (cl - win <? k_enc (active s) = true) as -> by (apply N.ltb_lt; exact H).
  split; [reflexivity|]. unfold in_progress in IP. destruct (timer s); [discriminate|exact Ho].
Qed.

Theorem integrity_limit_closes : forall s g p pn la pto,
  gen_of s p <> g -> integ s <= failures s + 1 ->
  snd (decrypt_packet s g p pn la pto) = DecLimit /\
  failures (fst (decrypt_packet s g p pn la pto)) = failures s + 1.
Proof.
  intros s g p pn la pto Hne Hl. unfold decrypt_packet. rewrite phase_to_use_eq.
  fold (gen_of s p). destruct (N.eqb_spec (gen_of s p) g); [contradiction|].
  cbn [integ failures with_failures set_slot].
  assert (integ s <=? failures s + 1 = true) as -> by (apply N.leb_le; exact Hl).
  split; reflexivity.
Qed.

(* below the limit a failed opening is only counted *)
Lemma integrity_below_limit : forall s g p pn la pto,
  gen_of s p <> g -> failures s + 1 < integ s ->
  snd (decrypt_packet s g p pn la pto) = DecErr.
Proof.
  intros s g p pn la pto Hne Hl. unfold decrypt_packet. rewrite phase_to_use_eq.
  fold (gen_of s p). destruct (N.eqb_spec (gen_of s p) g); [contradiction|].
  cbn [integ failures with_failures set_slot].
  assert (integ s <=? failures s + 1 = false) as -> by (apply N.leb_gt; exact Hl).
  reflexivity.
Qed.

(* ================================================================== two endpoints *)
Definition dinv (cl il : N) (d : duo) (j : jduo) : Prop :=
  (forall e, minv cl il (ep d e) (jmon j e)) /\ (forall e, jsent j e = sent d e).

Definition obs_ok (cl il : N) (d : duo) (j : jduo) : Prop :=
  forall e, minv cl il (ep d e) (mon_observe (jmon j e) (act_gen (ep d e)) (in_progress (ep d e))).

Definition dstate (d : duo) : list Z := st_small (ep_a d) ++ st_small (ep_b d).

Lemma dinv_observe : forall cl il d j, obs_ok cl il d j -> (forall e, jsent j e = sent d e) ->
  dinv cl il d (jd_observe j (dstate d)).
Proof.
  intros cl il d j O S. split.
  - intros e. specialize (O e). destruct e; cbn [jmon jd_observe j_ma j_mb dstate st_small app nth];
      rewrite zN_Nz, bz_nonzero; exact O.
  - intros e. specialize (S e). destruct e; exact S.
Qed.

Lemma ep_set_ep : forall d e s e', ep (set_ep d e s) e' = if Bool.eqb e e' then s else ep d e'.
Proof. intros d [|] s [|]; reflexivity. Qed.
Lemma jmon_set_jmon : forall j e m e', jmon (set_jmon j e m) e' = if Bool.eqb e e' then m else jmon j e'.
Proof. intros j [|] m [|]; reflexivity. Qed.

Lemma obs_ok_set : forall cl il d j e s m,
  dinv cl il d j ->
  minv cl il s (mon_observe m (act_gen s) (in_progress s)) ->
  obs_ok cl il (set_ep d e s) (set_jmon j e m).
Proof.
  intros cl il d j e s m [D _] M e'. rewrite ep_set_ep, jmon_set_jmon.
  destruct (Bool.eqb e e'); [exact M|]. apply minv_observe. apply D.
Qed.

Lemma dstep_ok : forall cl il d j o d' out, dinv cl il d j -> dstep d o = (d', out) ->
  length out = dop_len o /\
  exists j', jd_op cl il j o out = Some j' /\ dinv cl il d' (jd_observe j' (dstate d')).
Proof.
  intros cl il d j o d' out D E. pose proof D as [DM DS].
  destruct o as [e|e i|dt|e p pn]; cbn [dstep] in E.
  - (* seal *)
    destruct (encrypt_packet (ep d e)) as [s1 r] eqn:Enc.
    pose proof (enc_step cl il _ _ s1 r (DM e) Enc) as H. destruct r as [ph g|ph]; injection E as <- <-.
    + destruct H as [m' [H1 [H2 _]]]. split; [reflexivity|].
      cbn [jd_op enc_out nth]. rewrite H1. zlit. rewrite zN_Nz, bz_nonzero.
      eexists. split; [reflexivity|].
      apply dinv_observe.
      * intros e'. pose proof (obs_ok_set cl il d j e s1 m' D H2 e') as O.
        destruct e, e'; exact O.
      * intros e'. pose proof (DS e') as S. destruct e, e'; cbn in *; congruence.
    + subst s1. split; [reflexivity|]. cbn [jd_op enc_out nth mon_enc]. zlit.
      eexists. split; [reflexivity|]. cbn [Z.eqb].
      apply dinv_observe.
      * intros e'. pose proof (obs_ok_set cl il d j e (ep d e) (jmon j e) D (minv_observe _ _ _ _ (DM e)) e') as O.
        destruct e, e'; exact O.
      * intros e'. pose proof (DS e') as S. destruct e, e'; exact S.
  - (* delivery *)
    cbn [jd_op]. rewrite (DS (negb e)).
    destruct (pick (sent d (negb e)) i) as [[pn [g p]]|] eqn:P.
    + destruct (decrypt_packet (ep d e) g p pn (largest d e) (now d + pto d)) as [s1 r] eqn:Dec.
      injection E as <- <-.
      destruct (dec_step cl il _ _ g p pn _ _ s1 r (DM e) Dec) as [_ [m' [H1 H2]]].
      split; [destruct r as [[|]| |]; reflexivity|].
      assert (nth 0 (dec_out r) 0%Z = nth 0 (dec_out r) 0%Z) by reflexivity.
      rewrite H1. eexists. split; [reflexivity|].
      apply dinv_observe.
      * intros e'. pose proof (obs_ok_set cl il d j e s1 m' D H2 e') as O.
        destruct (is_ok r); destruct e, e'; exact O.
      * intros e'. pose proof (DS e') as S. destruct (is_ok r); destruct e, e'; exact S.
    + injection E as <- <-. split; [reflexivity|]. eexists. split; [reflexivity|].
      apply dinv_observe; [|exact DS]. intros e'. apply minv_observe. apply DM.
  - (* time passes, both timers run *)
    injection E as <- <-. split; [reflexivity|]. cbn [jd_op]. eexists. split; [reflexivity|].
    apply dinv_observe.
    + intros e'. destruct e'; cbn [ep set_ep set_now ep_a ep_b jmon]; apply timeout_step;
        [exact (DM true)|exact (DM false)].
    + exact DS.
  - (* forged packet *)
    destruct (decrypt_packet (ep d e) forged_gen p pn (largest d e) (now d + pto d)) as [s1 r] eqn:Dec.
    injection E as <- <-.
    destruct (dec_step cl il _ _ forged_gen p pn _ _ s1 r (DM e) Dec) as [_ [m' [H1 H2]]].
    split; [destruct r as [[|]| |]; reflexivity|].
    cbn [jd_op]. rewrite H1. eexists. split; [reflexivity|].
    apply dinv_observe.
    + intros e'. pose proof (obs_ok_set cl il d j e s1 m' D H2 e') as O. destruct e, e'; exact O.
    + intros e'. pose proof (DS e') as S. destruct e, e'; exact S.
Qed.

Lemma jd_op_app : forall cl il j o out x, length out = dop_len o ->
  jd_op cl il j o (out ++ x) = jd_op cl il j o out.
Proof.
  intros cl il j o out x L. destruct o; cbn [jd_op dop_len] in *;
    rewrite ?app_nth1 by lia; reflexivity.
Qed.

Lemma judge_dops_run : forall cl il ops d j, dinv cl il d j ->
  judge_dops cl il j ops (run_dops d ops) = true.
Proof.
  intros cl il. induction ops as [|o t IH]; intros d j D; [reflexivity|].
  cbn [run_dops judge_dops]. destruct (dstep d o) as [d' out] eqn:E.
  destruct (dstep_ok cl il d j o d' out D E) as [L [j' [H1 H2]]].
  change (out ++ st_small (ep_a d') ++ st_small (ep_b d') ++ run_dops d' t)
    with (out ++ (st_small (ep_a d') ++ st_small (ep_b d')) ++ run_dops d' t).
  rewrite app_assoc. rewrite take_out_app by (rewrite app_length, L; reflexivity).
  rewrite jd_op_app by exact L. rewrite H1.
  rewrite <- L, skipn_app_exact. apply IH. exact H2.
Qed.

Lemma init_dinv : forall cl il win p, dinv cl il (duo_new cl il win p) jduo0.
Proof. intros. split; intros [|]; cbn; try reflexivity; apply init_minv. Qed.

Theorem duo_judge_run : forall c, duo_judge c (duo_run c) = true.
Proof. intros c. unfold duo_judge, duo_run, duo_cfg. apply judge_dops_run. apply init_dinv. Qed.

(* ------------------------------------------------------------------ mutual decryptability *)
Fixpoint dsteps (d : duo) (ops : list dop) : duo :=
  match ops with [] => d | o :: t => dsteps (fst (dstep d o)) t end.

(* the receiver holds generation g: it is its active generation, or the pre-derived next one (no
   update in progress), or the previous one, still retained because the derivation timer of the
   last update has not fired yet (the reordering window of about one PTO) *)
Definition ep_holds (s : keyset) (g : N) : bool :=
  (g =? act_gen s) || (negb (in_progress s) && (g =? act_gen s + 1))
  || (in_progress s && (g + 1 =? act_gen s)).

Definition parity_ok (x : N * bool) : Prop := N.odd (fst x) = snd x.

Definition dgood (cl il : N) (d : duo) : Prop :=
  (exists j, dinv cl il d j) /\ forall e, Forall parity_ok (sent d e).

Lemma enc_ok_gen : forall s s' ph g, encrypt_packet s = (s', EncOk ph g) -> g = gen_of s ph.
Proof.
  intros s s' ph g E. unfold encrypt_packet in E. destruct (expired _); [discriminate|].
  injection E as _ <- <-. reflexivity.
Qed.

Lemma dgood_step : forall cl il d o, dgood cl il d -> dgood cl il (fst (dstep d o)).
Proof.
  intros cl il d o [[j D] P]. destruct (dstep d o) as [d' out] eqn:E. cbn [fst].
  destruct (dstep_ok cl il d j o d' out D E) as [_ [j' [_ D']]].
  split; [eexists; exact D'|].
  destruct o as [e|e i|dt|e p pn]; cbn [dstep] in E.
  - destruct (encrypt_packet (ep d e)) as [s1 r] eqn:Enc. destruct r as [ph g|ph]; injection E as <- _.
    + pose proof (enc_ok_gen _ _ _ _ Enc) as ->.
      assert (PO : parity_ok (gen_of (ep d e) ph, ph)).
      { unfold parity_ok. cbn [fst snd]. destruct D as [DM _]. destruct (DM e) as [I].
        eapply slot_parity. exact I. }
      intros e'. pose proof (P e') as Pe.
      destruct e, e'; cbn [sent push_sent set_ep sent_a sent_b] in *; try exact Pe;
        apply Forall_app; split; try exact Pe; constructor; try exact PO; constructor.
    + intros e'. pose proof (P e') as Pe. destruct e, e'; exact Pe.
  - destruct (pick (sent d (negb e)) i) as [[pn [g p]]|].
    + destruct (decrypt_packet _ _ _ _ _ _) as [s1 r]. injection E as <- _.
      intros e'. pose proof (P e') as Pe. destruct (is_ok r); destruct e, e'; exact Pe.
    + injection E as <- _. exact P.
  - injection E as <- _. intros e'. pose proof (P e') as Pe. destruct e'; exact Pe.
  - destruct (decrypt_packet _ _ _ _ _ _) as [s1 r]. injection E as <- _.
    intros e'. pose proof (P e') as Pe. destruct e, e'; exact Pe.
Qed.

Lemma dgood_steps : forall cl il ops d, dgood cl il d -> dgood cl il (dsteps d ops).
Proof.
  intros cl il. induction ops as [|o t IH]; intros d G; [exact G|]. cbn [dsteps]. apply IH.
  apply dgood_step. exact G.
Qed.

Lemma dgood_init : forall cl il win p, dgood cl il (duo_new cl il win p).
Proof. intros. split; [eexists; apply init_dinv|]. intros [|]; constructor. Qed.

Lemma pick_in : forall l i pn x, pick l i = Some (pn, x) -> In x l.
Proof.
  intros l i pn x H. unfold pick in H. destruct l as [|y t]; [discriminate|].
  set (l' := y :: t) in *.
  assert (Hx : x = nth (N.to_nat (i mod N.of_nat (length l'))) l' (0, false)) by congruence.
  rewrite Hx. apply nth_In.
  assert (H0 : N.of_nat (length l') <> 0) by (subst l'; cbn [length]; lia).
  pose proof (N.mod_lt i _ H0). lia.
Qed.

(* slot p holds g exactly when the endpoint "holds" g, for packets whose phase bit is the parity
   of their generation *)
Lemma holds_iff_slot : forall cl il s g p, inv cl il s -> N.odd g = p ->
  (gen_of s p =? g) = ep_holds s g.
Proof.
  intros cl il s g p I Hpar. pose proof I as [Hp Ho _ _ _].
  unfold ep_holds, in_progress, gen_of, act_gen, active in *.
  destruct (Bool.eqb p (phase s)) eqn:Eq.
  - apply Bool.eqb_prop in Eq. rewrite Eq in *. clear Eq.
    destruct (N.eqb_spec (k_gen (slot s (phase s))) g) as [e|ne].
    + rewrite <- e. rewrite N.eqb_refl. reflexivity.
    + symmetry. apply Bool.orb_false_iff. split; [apply Bool.orb_false_iff; split|].
      * apply N.eqb_neq. congruence.
      * destruct (timer s); cbn; [reflexivity|]. apply N.eqb_neq. intros ->.
        rewrite odd_succ_negb, Hp in Hpar. destruct (phase s); discriminate.
      * destruct (timer s); cbn; [|reflexivity]. apply N.eqb_neq. intros H2.
        rewrite <- H2, odd_succ_negb, Hpar in Hp. destruct (phase s); discriminate.
  - assert (p = negb (phase s)) as Hpn by (revert Eq; destruct p, (phase s); cbn; congruence).
    rewrite Hpn in *.
    assert (Hna : (g =? k_gen (slot s (phase s))) = false).
    { apply N.eqb_neq. intros ->. rewrite Hp in Hpar. destruct (phase s); discriminate. }
    rewrite Hna. cbn [orb].
    destruct (timer s); cbn [negb andb orb].
    + destruct (N.eqb_spec (k_gen (slot s (negb (phase s)))) g) as [e|ne];
        destruct (N.eqb_spec (g + 1) (k_gen (slot s (phase s)))) as [e2|ne2]; try reflexivity; exfalso; lia.
    + rewrite Bool.orb_false_r.
      destruct (N.eqb_spec (k_gen (slot s (negb (phase s)))) g) as [e|ne];
        destruct (N.eqb_spec g (k_gen (slot s (phase s)) + 1)) as [e2|ne2]; try reflexivity; exfalso; lia.
Qed.

(* Over the composed model, every schedule (any interleaving of sealing, delivery with loss,
   duplication and reordering, time steps and forged packets): a genuine packet of the peer opens
   if and only if the receiver holds its generation at that moment. *)
Theorem mutual_decryptability_partial : forall cl il win p ops e i pn g ph,
  let d := dsteps (duo_new cl il win p) ops in
  pick (sent d (negb e)) i = Some (pn, (g, ph)) ->
  is_ok (snd (decrypt_packet (ep d e) g ph pn (largest d e) (now d + pto d))) = ep_holds (ep d e) g.
Proof.
  intros cl il win p ops e i pn g ph d P.
  destruct (dgood_steps cl il ops _ (dgood_init cl il win p)) as [[j [DM _]] S]. fold d in DM, S.
  pose proof (pick_in _ _ _ _ P) as I.
  pose proof (S (negb e)) as F. rewrite Forall_forall in F. specialize (F _ I). unfold parity_ok in F. cbn in F.
  destruct (decrypt_packet (ep d e) g ph pn (largest d e) (now d + pto d)) as [s1 r] eqn:Dec.
  destruct (dec_step cl il _ _ g ph pn _ _ s1 r (DM e) Dec) as [H _]. cbn [snd]. rewrite H.
  destruct (DM e) as [Iv]. eapply holds_iff_slot; eassumption.
Qed.

(* ================================================================== many rotations (rot) *)
Record rinv (k : N) (r : rot_st) : Prop := {
  ri_i : r_i r = k + 1; ri_d : r_done r = k; ri_o : r_opened r = k;
  ri_l : r_last r = k mod 65536;
  ri_ph : phase (r_s r) = N.odd k; ri_t : timer (r_s r) = None; ri_g : generation (r_s r) = k mod 65536;
  ri_a : k_gen (slot (r_s r) (N.odd k)) = k;
  ri_n : k_gen (slot (r_s r) (negb (N.odd k))) = k + 1 }.

Lemma has_elapsed_1_1 : has_elapsed 1 1 = true.
Proof. reflexivity. Qed.

Lemma rot_cycle_inv : forall k r, rinv k r -> rinv (k + 1) (rot_cycle r).
Proof.
  intros k [i s d o l] [Hi Hd Ho Hl Hph Ht Hg Ha Hn]. cbn [r_i r_s r_done r_opened r_last] in *.
  subst i d o. unfold rot_cycle. cbn [r_i r_s r_done r_opened r_last].
  unfold decrypt_packet. rewrite phase_to_use_eq. rewrite odd_succ_negb.
  rewrite Hn, N.eqb_refl.
  cbn [phase set_slot timer in_progress]. unfold in_progress. cbn [timer set_slot]. rewrite Hph, Ht.
  assert (Hb : negb (Bool.eqb (negb (N.odd k)) (N.odd k)) && negb false = true) by (destruct (N.odd k); reflexivity).
  rewrite Hb. cbn [is_ok generation set_timer rotate_phase set_slot].
  unfold on_timeout. cbn [timer set_timer]. rewrite has_elapsed_1_1.
  assert (Hm : (k mod 65536 + 1) mod 65536 = (k + 1) mod 65536).
  { rewrite N.add_mod_idemp_l by discriminate. reflexivity. }
  constructor; cbn [r_i r_s r_done r_opened r_last]; try reflexivity.
  - rewrite Hg. exact Hm.
  - cbn. rewrite Hph, odd_succ_negb. reflexivity.
  - cbn. rewrite Hg. exact Hm.
  - rewrite odd_succ_negb. unfold derive_and_store_next_key, active. cbn. rewrite Hph.
    destruct (N.odd k); cbn in *; exact Hn.
  - rewrite odd_succ_negb, Bool.negb_involutive.
    unfold derive_and_store_next_key, active, derive_next. cbn. rewrite Hph.
    destruct (N.odd k); cbn in *; rewrite Hn; reflexivity.
Qed.

Lemma rot_iter_inv : forall cl il win n,
  rinv n (N.iter n rot_cycle {| r_i := 1; r_s := ks_new cl il win; r_done := 0; r_opened := 0; r_last := 0 |}).
Proof.
  intros cl il win n. induction n as [|n IH] using N.peano_ind.
  - cbn. constructor; reflexivity.
  - rewrite N.iter_succ. rewrite <- N.add_1_r. apply rot_cycle_inv. exact IH.
Qed.

(* any number of complete key updates: every genuine packet opens, the endpoint ends on generation
   n with key phase n mod 2, the reported generation is n mod 2^16; the judgement accepts the model *)
Theorem rot_survives : forall cl il win n,
  let r := N.iter n rot_cycle {| r_i := 1; r_s := ks_new cl il win; r_done := 0; r_opened := 0; r_last := 0 |} in
  r_opened r = n /\ act_gen (r_s r) = n /\ phase (r_s r) = N.odd n /\ in_progress (r_s r) = false /\
  r_last r = n mod 65536.
Proof.
  intros cl il win n r. destruct (rot_iter_inv cl il win n) as [Hi Hd Ho Hl Hph Ht Hg Ha _]. fold r in Hi, Hd, Ho, Hl, Hph, Ht, Hg, Ha.
  repeat split; try assumption.
  - unfold act_gen, active. rewrite Hph. exact Ha.
  - unfold in_progress. rewrite Ht. reflexivity.
Qed.

Theorem rot_judge_run : forall c, rot_judge c (rot_run c) = true.
Proof.
  intros c. unfold rot_judge, rot_run, rot_final, ks_cfg.
  destruct (rot_iter_inv (zN (nth 0 c 0%Z)) (zN (nth 1 c 0%Z)) (zN (nth 2 c 0%Z)) (rot_n c))
    as [Hi Hd Ho Hl Hph Ht Hg Ha _].
  cbn [app st_small]. rewrite Hd, Ho, Hph. unfold active. rewrite Hph, Ha.
  rewrite !Z.eqb_refl. reflexivity.
Qed.

(* the counter grows by at most one per operation *)
Lemma kstep_generation : forall s o, generation (fst (kstep s o)) <= generation s + 1.
Proof.
  intros s o. destruct o as [|g p pn la pto|now0]; cbn [kstep].
  - unfold encrypt_packet. destruct (expired _); cbn; lia.
  - unfold decrypt_packet. destruct (_ =? _); [destruct (_ && _)|destruct (_ <=? _)]; cbn; try lia.
    apply N.mod_le. discriminate.
  - cbn [fst]. unfold on_timeout. destruct (timer s); [|lia]. destruct (has_elapsed _ _); cbn; lia.
Qed.

Theorem generation_counter_bounded : forall ops s,
  generation (ksteps s ops) <= generation s + N.of_nat (length ops).
Proof.
  induction ops as [|o t IH]; intros s; [cbn; lia|]. cbn [ksteps length].
  specialize (IH (fst (kstep s o))). pose proof (kstep_generation s o). lia.
Qed.

(* ================================================================== H1: the previous generation is
   retained for the whole derivation-timer period *)
Lemma dsteps_app : forall a b d, dsteps d (a ++ b) = dsteps (dsteps d a) b.
Proof. induction a as [|o t IH]; intros b d; [reflexivity|]. cbn [app dsteps]. apply IH. Qed.

Lemma kstep_keeps_timer : forall s o t, timer s = Some t ->
  (forall now0, o = KTimeout now0 -> has_elapsed t now0 = false) ->
  timer (fst (kstep s o)) = Some t /\ phase (fst (kstep s o)) = phase s /\
  forall q, gen_of (fst (kstep s o)) q = gen_of s q.
Proof.
  intros s o t T H. destruct o as [|g p pn la pto0|now0]; cbn [kstep].
  - unfold encrypt_packet. destruct (expired _); cbn [fst]; [repeat split; auto|].
    split; [exact T|]. split; [reflexivity|]. intros q. unfold gen_of. destruct q, (encryption_phase s); reflexivity.
  - unfold decrypt_packet. rewrite phase_to_use_eq.
    assert (IP : in_progress (set_slot s p (on_dec (slot s p))) = true) by (unfold in_progress; cbn; rewrite T; reflexivity).
    rewrite IP, Bool.andb_false_r.
    destruct (_ =? _); [|destruct (_ <=? _)]; cbn [fst]; (split; [exact T|]); (split; [reflexivity|]);
      intros q; unfold gen_of; destruct q, p; reflexivity.
  - cbn [fst]. unfold on_timeout. rewrite T, (H now0 eq_refl). repeat split; auto.
Qed.

Lemma dstep_now_mono : forall d o, now d <= now (fst (dstep d o)).
Proof.
  intros d o. destruct o as [e|e i|dt|e p pn]; cbn [dstep].
  - destruct (encrypt_packet (ep d e)) as [s1 [ph g|ph]]; cbn; lia.
  - destruct (pick _ _) as [[pn [g p]]|]; [|cbn; lia].
    destruct (decrypt_packet _ _ _ _ _ _) as [s1 r]. destruct (is_ok r); cbn; lia.
  - cbn. lia.
  - destruct (decrypt_packet _ _ _ _ _ _) as [s1 r]. cbn. lia.
Qed.

Lemma dsteps_now_mono : forall ops d, now d <= now (dsteps d ops).
Proof.
  induction ops as [|o t IH]; intros d; [cbn; lia|]. cbn [dsteps].
  pose proof (dstep_now_mono d o). specialize (IH (fst (dstep d o))). lia.
Qed.

Lemma not_elapsed : forall t n, n + Gen_C15.granularity_us <= t -> has_elapsed t n = false.
Proof. intros. unfold has_elapsed. apply N.ltb_ge. assumption. Qed.

(* what one step of the composed system does to endpoint e: nothing, or one endpoint operation
   (an on_timeout always carries the new current time) *)
Lemma dstep_ep : forall d o e,
  ep (fst (dstep d o)) e = ep d e \/
  exists ko, ep (fst (dstep d o)) e = fst (kstep (ep d e) ko) /\
             forall n, ko = KTimeout n -> n = now (fst (dstep d o)).
Proof.
  intros d o e. destruct o as [e'|e' i|dt|e' p pn]; cbn [dstep].
  - destruct (encrypt_packet (ep d e')) as [s1 r] eqn:E.
    destruct (Bool.eqb e' e) eqn:Ee.
    + apply Bool.eqb_prop in Ee. subst e'. right. exists KEnc. split; [|intros; discriminate].
      cbn [kstep]. rewrite E. destruct r; destruct e; reflexivity.
    + left. destruct r; destruct e, e'; try discriminate; reflexivity.
  - destruct (pick _ _) as [[pn [g p]]|]; [|left; reflexivity].
    destruct (decrypt_packet (ep d e') g p pn (largest d e') (now d + pto d)) as [s1 r] eqn:E.
    destruct (Bool.eqb e' e) eqn:Ee.
    + apply Bool.eqb_prop in Ee. subst e'. right. exists (KDec g p pn (largest d e) (now d + pto d)).
      split; [|intros; discriminate]. cbn [kstep]. rewrite E. destruct (is_ok r); destruct e; reflexivity.
    + left. destruct (is_ok r); destruct e, e'; try discriminate; reflexivity.
  - right. exists (KTimeout (now d + dt)). split; [|intros n H; injection H as <-; reflexivity].
    destruct e; reflexivity.
  - destruct (decrypt_packet (ep d e') forged_gen p pn (largest d e') (now d + pto d)) as [s1 r] eqn:E.
    destruct (Bool.eqb e' e) eqn:Ee.
    + apply Bool.eqb_prop in Ee. subst e'. right. exists (KDec forged_gen p pn (largest d e) (now d + pto d)).
      split; [|intros; discriminate]. cbn [kstep]. rewrite E. destruct e; reflexivity.
    + left. destruct e, e'; try discriminate; reflexivity.
Qed.

Lemma dstep_keeps_timer : forall d o e t, timer (ep d e) = Some t ->
  now (fst (dstep d o)) + Gen_C15.granularity_us <= t ->
  timer (ep (fst (dstep d o)) e) = Some t /\ phase (ep (fst (dstep d o)) e) = phase (ep d e) /\
  forall q, gen_of (ep (fst (dstep d o)) e) q = gen_of (ep d e) q.
Proof.
  intros d o e t T H. destruct (dstep_ep d o e) as [E|[ko [E Hk]]]; rewrite E; [repeat split; auto|].
  apply kstep_keeps_timer; [exact T|]. intros n0 Hn. rewrite (Hk n0 Hn). apply not_elapsed. exact H.
Qed.

(* an armed derivation timer t stays armed, and both slots keep their generations, as long as the
   clock has not reached t - granularity: whatever is sealed, delivered, forged or timed meanwhile *)
Lemma duo_retain : forall ops d e t, timer (ep d e) = Some t ->
  now (dsteps d ops) + Gen_C15.granularity_us <= t ->
  timer (ep (dsteps d ops) e) = Some t /\ phase (ep (dsteps d ops) e) = phase (ep d e) /\
  forall q, gen_of (ep (dsteps d ops) e) q = gen_of (ep d e) q.
Proof.
  induction ops as [|o r IH]; intros d e t T H; [repeat split; auto|]. cbn [dsteps] in *.
  pose proof (dsteps_now_mono r (fst (dstep d o))) as M.
  destruct (dstep_keeps_timer d o e t T) as [T1 [P1 G1]]; [lia|].
  destruct (IH _ e t T1 H) as [T2 [P2 G2]]. split; [exact T2|]. split; [congruence|].
  intros q. rewrite G2. apply G1.
Qed.

(* the timer armed by a rotation is the delivery time plus the configured PTO *)
Lemma rotation_sets_timer : forall d e i t, timer (ep d e) = None ->
  timer (ep (fst (dstep d (DDeliver e i))) e) = Some t -> t = now d + pto d.
Proof.
  intros d e i t T H. cbn [dstep] in H. destruct (pick _ _) as [[pn [g p]]|]; [|cbn in H; congruence].
  unfold decrypt_packet in H. rewrite phase_to_use_eq in H.
  destruct (_ =? _) in H; [destruct (_ && _) in H|destruct (_ <=? _) in H]; cbn [fst snd is_ok] in H;
    destruct e; cbn in H, T; congruence.
Qed.

(* H1.  Endpoint e rotated at time T (delivery of packet i armed its timer).  Whatever happens
   afterwards, until the clock reaches T + pto - granularity every genuine packet of the peer sealed
   under the previous generation still opens: reordering across a key update is tolerated for the
   derivation-timer period. *)
Theorem old_generation_retained : forall cl il win p ops e i ops' j pn g ph,
  let d0 := dsteps (duo_new cl il win p) ops in
  let d1 := fst (dstep d0 (DDeliver e i)) in
  let d2 := dsteps d1 ops' in
  timer (ep d0 e) = None -> in_progress (ep d1 e) = true ->
  now d2 + Gen_C15.granularity_us <= now d0 + pto d0 ->
  pick (sent d2 (negb e)) j = Some (pn, (g, ph)) ->
  g + 1 = act_gen (ep d1 e) ->
  is_ok (snd (decrypt_packet (ep d2 e) g ph pn (largest d2 e) (now d2 + pto d2))) = true.
Proof.
  intros cl il win p ops e i ops' j pn g ph d0 d1 d2 T0 IP H P G.
  unfold in_progress in IP. destruct (timer (ep d1 e)) as [t|] eqn:T1; [|discriminate].
  pose proof (rotation_sets_timer d0 e i t T0 T1) as ->.
  destruct (duo_retain ops' d1 e _ T1 H) as [T2 [P2 G2]]. fold d2 in T2, P2, G2.
  assert (E : d2 = dsteps (duo_new cl il win p) (ops ++ DDeliver e i :: ops')).
  { unfold d2, d1, d0. rewrite dsteps_app. reflexivity. }
  pose proof (mutual_decryptability_partial cl il win p (ops ++ DDeliver e i :: ops') e j pn g ph) as M.
  cbn zeta in M. rewrite <- E in M. rewrite (M P).
  unfold ep_holds, in_progress. rewrite T2.
  assert (A : act_gen (ep d2 e) = act_gen (ep d1 e)).
  { unfold act_gen, active. rewrite P2. apply (G2 (phase (ep d1 e))). }
  rewrite A, <- G, N.eqb_refl. cbn. rewrite Bool.orb_true_r. reflexivity.
Qed.

(* H2 does NOT follow from the code: KeySet starts the next update as soon as its own derivation
   timer has fired and its active key is inside the update window; it neither waits for an
   acknowledgement in the current phase (RFC 9001 6.1) nor for 3 PTO (6.5).  Witness (limit 4,
   window 3, PTO 5000 us): A initiates generation 1; B follows at t=1 (timer 5001); A follows at
   t=101 (timer 5101); at t=4101 B's timer has fired, A's has not; B seals its next packet under
   generation 2 and it is delivered at that very instant, in order -- A still retains generation 0
   in that slot and cannot open it. *)
Lemma update_spacing_refuted :
  let ops := [DEnc false; DEnc false; DEnc false; DDeliver true 2; DEnc true; DEnc true;
              DTime 100; DDeliver false 0; DTime 4000; DEnc true] in
  let d := dsteps (duo_new 4 64 3 5000) ops in
  pick (sent d true) 2 = Some (2, (2, false)) /\
  act_gen (ep d false) = 1 /\ in_progress (ep d false) = true /\ in_progress (ep d true) = false /\
  is_ok (snd (decrypt_packet (ep d false) 2 false 2 (largest d false) (now d + pto d))) = false.
Proof. vm_compute. repeat split; reflexivity. Qed.
