From SQ Require Import lib.Base model.Varint model.PacketHeader model.PnExpand proofs.VarintProofs proofs.PacketProofs.
From Coq Require Import ZifyBool ZifyNat ZifyN.
Import Varint PacketHeader PnExpand.
Local Open Scope N_scope.

Ltac dm := Z.div_mod_to_equations.

(* A.3 returns the sender's packet number whenever it lies in the window around largest + 1 *)
Lemma rfc_decode_window : forall win largest pn,
  In win [256; 65536; 16777216; 4294967296] ->
  pn < pn_limit -> largest < pn_limit ->
  largest + 1 < pn + win / 2 -> pn <= largest + 1 + win / 2 ->
  let expected := largest + 1 in
  let candidate := (expected / win) * win + pn mod win in
  (if (candidate + win / 2 <=? expected) && (candidate + win <? pn_limit) then candidate + win
   else if (expected + win / 2 <? candidate) && (win <=? candidate) then candidate - win
   else candidate) = pn.
Proof.
  intros win largest pn Hw Hpn Hl H1 H2. unfold pn_limit in *. cbn [In] in Hw.
  destruct Hw as [<-|[<-|[<-|[<-|[]]]]]; cbv zeta;
  match goal with |- context [?a / ?w * ?w + ?p mod ?w] =>
    remember (a / w) as q eqn:Eq; remember (p mod w) as r eqn:Er;
    assert (Hq : a = q * w + a mod w) by (subst q; rewrite N.mul_comm; apply N.div_mod; discriminate);
    assert (Hm : a mod w < w) by (apply N.mod_lt; discriminate);
    assert (Hp : p = (p / w) * w + r) by (subst r; rewrite N.mul_comm; apply N.div_mod; discriminate);
    assert (Hr : r < w) by (subst r; apply N.mod_lt; discriminate)
  end;
  match type of H1 with context [?w / 2] => let v := eval vm_compute in (w / 2) in change (w / 2) with v in * end;
  repeat match goal with
  | |- context [N.leb ?a ?b] => destruct (N.leb_spec a b)
  | |- context [N.ltb ?a ?b] => destruct (N.ltb_spec a b)
  end; cbn [andb]; lia.
Qed.

Theorem expand_roundtrip : forall n largest pn, In n [1; 2; 3; 4]%nat ->
  pn < pn_limit -> largest < pn_limit -> in_window largest pn (8 * N.of_nat n) = true ->
  expand largest (pn_value (pn_bytes n pn)) (8 * N.of_nat n) = pn.
Proof.
  intros n largest pn Hn Hpn Hl Hw. rewrite pn_bytes_value.
  unfold in_window in Hw. apply andb_true_iff in Hw. destruct Hw as [H1 H2].
  apply N.ltb_lt in H1. apply N.leb_le in H2.
  unfold expand, rfc_decode.
  assert (Hwin : 2 ^ (8 * N.of_nat n) = 256 ^ N.of_nat n /\ In (256 ^ N.of_nat n) [256; 65536; 16777216; 4294967296]).
  { cbn [In] in Hn. destruct Hn as [<-|[<-|[<-|[<-|[]]]]]; split; try reflexivity; cbn [In]; vm_compute; tauto. }
  destruct Hwin as [E Hin]. rewrite E in *. cbv zeta.
  rewrite (rfc_decode_window _ largest pn Hin Hpn Hl H1 H2).
  apply N.min_l. unfold pn_limit in *. lia.
Qed.

Lemma pn_choice_range : forall la pn n, pn_choice la pn = Some n -> In n [1; 2; 3; 4]%nat.
Proof.
  intros la pn n E. unfold pn_choice in E.
  repeat match type of E with context [if ?c then _ else _] => destruct c end;
    try discriminate E; injection E as <-; cbn; tauto.
Qed.

Theorem judge_run : forall case, PnExpand.judge case (PnExpand.run case) = true.
Proof.
  intros case. unfold PnExpand.judge.
  destruct case as [|k rest]; [apply zlist_eqb_refl|].
  destruct k as [|p|p]; try apply zlist_eqb_refl.
  destruct p; try apply zlist_eqb_refl.
  destruct rest as [|la [|pn [|l rest]]]; try apply zlist_eqb_refl.
  cbn [PnExpand.run].
  destruct (pn_choice (zN la) (zN pn)) as [n|] eqn:E; [|reflexivity].
  apply pn_choice_range in E. rewrite Nat2Z.id.
  cbn [In] in E. destruct E as [<-|[<-|[<-|[<-|[]]]]];
    repeat (apply andb_true_iff; split); try apply Z.eqb_refl; vm_compute; reflexivity.
Qed.
