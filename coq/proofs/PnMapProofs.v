(* Proofs about the packet number Map model (C16) -- partial: iteration order only. *)
From SQ Require Import lib.Base lib.ListX gen.Gen_C16 model.PnMap.
Local Open Scope N_scope.

Lemma default_capacity_is_8 : pnmap_default_capacity = 8.
Proof. reflexivity. Qed.

(* keys strictly ascending, all inside [lo, hi) *)
Fixpoint asc (lo hi : N) (l : list (N * N)) : Prop :=
  match l with
  | [] => True
  | p :: t => lo <= fst p /\ fst p < hi /\ asc (fst p + 1) hi t
  end.

Lemma asc_weaken : forall l lo lo' hi, lo' <= lo -> asc lo hi l -> asc lo' hi l.
Proof. intros [|p t] lo lo' hi H A; [exact I|]. cbn [asc] in *. destruct A as (A1 & A2 & A3). repeat split; try lia; assumption. Qed.

Lemma asc_hi_weaken : forall l lo hi hi', hi <= hi' -> asc lo hi l -> asc lo hi' l.
Proof.
  induction l as [|p t IH]; intros lo hi hi' H A; [exact I|]. cbn [asc] in *. destruct A as (A1 & A2 & A3).
  repeat split; try lia. eapply IH; eassumption.
Qed.

(* RemoveIter / Drop: the drained entries come out in strictly ascending packet number order *)
Lemma drain_asc : forall n vals pn i, asc pn (pn + N.of_nat n) (snd (drain n vals pn i)).
Proof.
  induction n as [|n IH]; intros vals pn i; [exact I|]. cbn [drain].
  destruct (nth (N.to_nat i) vals None) as [v|].
  - specialize (IH (set_nth (N.to_nat i) vals None) (pn + 1) ((i + 1) mod N.of_nat (length vals))).
    destruct (drain n _ (pn + 1) _) as [vals' out]. cbn [snd asc fst] in *.
    repeat split; try lia. replace (pn + N.of_nat (S n)) with (pn + 1 + N.of_nat n) by lia. exact IH.
  - specialize (IH vals (pn + 1) ((i + 1) mod N.of_nat (length vals))).
    apply (asc_weaken _ (pn + 1)); [lia|]. replace (pn + N.of_nat (S n)) with (pn + 1 + N.of_nat n) by lia. exact IH.
Qed.

Lemma iter_loop_asc : forall n vals pn i, asc pn (pn + N.of_nat n) (iter_loop n vals pn i).
Proof.
  induction n as [|n IH]; intros vals pn i; [exact I|]. cbn [iter_loop].
  specialize (IH vals (pn + 1) ((i + 1) mod N.of_nat (length vals))).
  replace (pn + N.of_nat (S n)) with (pn + 1 + N.of_nat n) by lia.
  destruct (nth (N.to_nat i) vals None) as [v|].
  - cbn [asc fst]. repeat split; try lia. exact IH.
  - apply (asc_weaken _ (pn + 1)); [lia|exact IH].
Qed.

(* remove_range yields strictly ascending keys, all inside the requested range *)
Theorem remove_range_ascending : forall m a b, a <= b -> asc a (b + 1) (snd (remove_range m a b)).
Proof.
  intros m a b Hab. unfold remove_range.
  destruct (is_empty m); [exact I|].
  destruct ((b <? start m) || (end_ m <? a)) eqn:Eo; [exact I|].
  apply orb_false_iff in Eo. destruct Eo as [E1 E2]. apply N.ltb_ge in E1. apply N.ltb_ge in E2.
  assert (G : forall m1 from to idx, a <= from -> to <= b -> from <= b ->
            asc a (b + 1) (snd (let '(vals', out) := drain (N.to_nat (to - from + 1)) (values m1) from idx in
                                ({| values := vals'; start := start m1; end_ := end_ m1; index := index m1 |}, out)))).
  { intros m1 from to idx H1 H2 H3. pose proof (drain_asc (N.to_nat (to - from + 1)) (values m1) from idx) as A.
    destruct (drain _ _ from idx) as [vals' out]. cbn [snd] in *.
    apply (asc_weaken _ from); [assumption|]. apply (asc_hi_weaken _ _ (from + N.of_nat (N.to_nat (to - from + 1)))); [lia|exact A]. }
  destruct (N.compare_spec a (start m)) as [Ea|La|Ga]; destruct (N.compare_spec b (end_ m)) as [Eb|Lb|Gb];
    apply G; lia.
Qed.

(* iter() yields strictly ascending keys starting at `start` *)
Theorem iter_ascending : forall m, exists hi, asc (start m) hi (iter m).
Proof.
  intros m. unfold iter. destruct (is_empty m); [exists 0; exact I|].
  eexists. apply iter_loop_asc.
Qed.
