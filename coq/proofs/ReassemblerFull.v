(* The slot model refines the specification on every operation sequence and every case. *)
From SQ Require Import lib.Base gen.Gen_C01 model.Reassembler proofs.ReassemblerProofs proofs.ReassemblerSlots
  proofs.ReassemblerBlocks proofs.ReassemblerInv proofs.ReassemblerRefine proofs.ReassemblerWrite.
Local Open Scope N_scope.

(* the executable judgement of the specification accepts every run of the slot model *)
Theorem judge_model : forall case, judge case (run case) = true.
Proof. exact (judge_run write_ok). Qed.

Lemma pop_content : forall st s w st' n chunk, Abs st s -> rpop st w = (st', n, chunk) ->
  map Some chunk = sp_bytes (sp_segs s) (sp_consumed s) (N.to_nat n) /\ n = nlen chunk /\ n <= w
  /\ sp_consumed s + n <= sp_total s /\ (n = 0 -> w = 0 \/ sp_len s = 0).
Proof.
  intros st s w st' n chunk Ha H. destruct (pop_abs _ _ _ _ _ _ Ha H) as (_ & Hsize & h & Eh & _).
  destruct Ha as (Hinv & Hcr & [Hsw Hsv] & Hget). pose proof (Inv_RInv _ Hinv) as HR.
  destruct (rpop_correct _ _ _ _ _ HR H) as (_ & Hn & Hw & Hso & Hchunk & Hrest & Hzero).
  destruct Hcr as (C1 & _).
  apply andb_true_iff in Hsize. destruct Hsize as [Hs1 Hs2]. apply N.leb_le in Hs1. unfold sp_len in *.
  split; [|split; [exact Hn|split; [exact Hw|split]]].
  - assert (El : length chunk = N.to_nat n) by (rewrite nlen_length in Hn; lia). rewrite <- El. symmetry.
    apply sp_bytes_nth. intros i Hi. rewrite nlen_length in Hn.
    destruct (Hchunk (N.of_nat i) ltac:(lia)) as [E1 _]. rewrite Nat2N.id in E1. rewrite E1.
    rewrite <- C1. symmetry. apply Hget. lia.
  - pose proof (reach_sound (2 * length (sp_segs s) + 1) (sp_segs s) (sp_consumed s) Hsw) as [R1 _].
    unfold sp_total in *. lia.
  - intros Hz. rewrite Hz in Hs2. rewrite N.eqb_refl in Hs2.
    destruct (N.eqb_spec (N.min (sp_total s - sp_consumed s) w) 0); [|discriminate]. lia.
Qed.

(* one step of the refinement, and all of them *)
Definition step_refines (st : rstate) (s : spec) (o : op) : Prop :=
  let st' := fst (rstep st o) in
  let s' := fst (sstep_with s o (popped_n st o)) in
  Abs st' s'                                                     (* RInv/Inv, cursors, byte map *)
  /\ (exists c, r_obs st' = sp_obs s' ++ [c])                      (* len, consumed, total, final size, flags *)
  /\ accepted (snd (rstep st o)) o = snd (sstep_with s o (popped_n st o))    (* accepted exactly when the spec accepts *)
  /\ match o with
     | Pop w => let '(_, n, chunk) := rpop st w in
                map Some chunk = sp_bytes (sp_segs s) (sp_consumed s) (N.to_nat n)   (* the bytes of the map *)
                /\ n <= w /\ sp_consumed s + n <= sp_total s /\ (n = 0 -> w = 0 \/ sp_len s = 0)
     | _ => True
     end.
Fixpoint refines (st : rstate) (s : spec) (ops : list op) : Prop :=
  match ops with
  | [] => True
  | o :: t => step_refines st s o /\ refines (fst (rstep st o)) (fst (sstep_with s o (popped_n st o))) t
  end.

Lemma step_refines_ok : forall st s o, Abs st s -> wf_op o -> step_refines st s o.
Proof.
  intros st s o Ha Hwf. unfold step_refines. destruct o as [w|wm|n|]; cbn [rstep sstep_with popped_n].
  - destruct (rwrite st w) as [st' c] eqn:E. cbn [fst snd].
    destruct (write_abs write_ok _ _ _ _ _ Ha Hwf E) as [Ha' Hacc].
    split; [exact Ha'|]. split; [apply Abs_obs; exact Ha'|]. split; [|exact I].
    unfold accepted; cbn [hd]. destruct (Z.eqb_spec c 0) as [e|ne]; destruct (snd (spec_write s w)) eqn:Es; try reflexivity; exfalso.
    + apply Hacc in e. congruence. + apply ne. apply Hacc. reflexivity.
  - destruct (rpop st wm) as [[st' n] chunk] eqn:E. cbn [fst snd].
    destruct (pop_abs _ _ _ _ _ _ Ha E) as (Ha' & _).
    destruct (pop_content _ _ _ _ _ _ Ha E) as (P1 & P2 & P3 & P4 & P5).
    split; [exact Ha'|]. split; [apply Abs_obs; exact Ha'|]. split; [reflexivity|]. auto.
  - destruct (rskip st n) as [st' c] eqn:E. cbn [fst snd].
    destruct (skip_abs _ _ _ _ _ Ha E) as [Ha' Hacc].
    split; [exact Ha'|]. split; [apply Abs_obs; exact Ha'|]. split; [|exact I].
    unfold accepted; cbn [hd]. destruct (Z.eqb_spec c 0) as [e|ne]; destruct (snd (spec_skip s n)) eqn:Es; try reflexivity; exfalso.
    + apply Hacc in e. congruence. + apply ne. apply Hacc. reflexivity.
  - cbn [fst snd]. split; [apply Abs_init|]. split; [apply Abs_obs; apply Abs_init|]. split; [reflexivity|exact I].
Qed.

Theorem refines_all : forall ops st s, Forall wf_op ops -> Abs st s -> refines st s ops.
Proof.
  induction ops as [|o t IH]; intros st s Hwf Ha; [exact I|]. inversion Hwf as [|? ? Ho Ht]; subst.
  cbn [refines]. pose proof (step_refines_ok st s o Ha Ho) as Hs. split; [exact Hs|].
  apply IH; [exact Ht|]. apply Hs.
Qed.

(* the invariant is kept by every operation *)
Theorem inv_preserved : forall st s o, Abs st s -> wf_op o -> Inv (fst (rstep st o)) /\ RInv (fst (rstep st o)).
Proof.
  intros st s o Ha Hwf. destruct (step_refines_ok st s o Ha Hwf) as ((Hi & _) & _).
  split; [exact Hi|apply Inv_RInv; exact Hi].
Qed.
