(* The frame x packet-number-space permission matrix read from space/*.rs is RFC 9000 Table 3. *)
From SQ Require Import lib.Base gen.Gen_C04 model.FramePerm.
Local Open Scope N_scope.

Lemma frame_rows_are_rfc : Gen_C04.frame_allowed = rfc_rows.
Proof. vm_compute. reflexivity. Qed.

(* pointwise form: for every space and every frame kind of Table 3 the source decides as the RFC *)
Lemma frame_matrix_is_rfc : forall sp k, In sp spaces -> In k rfc_kinds ->
  lookup_allowed sp k Gen_C04.frame_allowed = Some (rfc9000_table3 sp k).
Proof.
  intros sp k Hs Hk.
  assert (forallb (fun sp => forallb (fun k =>
            match lookup_allowed sp k Gen_C04.frame_allowed with
            | Some b => Bool.eqb b (rfc9000_table3 sp k) | None => false end) rfc_kinds) spaces = true) as H
    by (vm_compute; reflexivity).
  rewrite forallb_forall in H. specialize (H sp Hs). rewrite forallb_forall in H. specialize (H k Hk).
  destruct (lookup_allowed sp k frame_allowed) as [b|]; [|discriminate].
  apply Bool.eqb_prop in H. now subst.
Qed.

(* no row outside the table: the generated matrix has exactly one row per (space, kind) *)
Lemma frame_matrix_complete : map (fun r => (fst (fst r), snd (fst r))) Gen_C04.frame_allowed
  = flat_map (fun sp => map (fun k => (sp, k)) rfc_kinds) spaces.
Proof. vm_compute. reflexivity. Qed.

Lemma server_rejects_is_rfc : Gen_C04.server_rejects = rfc_server_rows.
Proof. vm_compute. reflexivity. Qed.

Lemma reject_code_is_protocol_violation :
  Gen_C04.frame_reject_codes = [rfc_protocol_violation] /\ Gen_C04.code_protocol_violation = rfc_protocol_violation.
Proof. split; vm_compute; reflexivity. Qed.
