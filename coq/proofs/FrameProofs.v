(* Proofs about the reference frame codec (RFC 9000 section 19) *)
From SQ Require Import lib.Base model.Varint model.Frame proofs.VarintProofs.
From Coq Require Import ZifyBool ZifyNat ZifyN.
Import Varint Frame.
Local Open Scope N_scope.

(* ------------------------------------------------------------------ lengths: progress *)
Lemma vdecode_len : forall bs v r, vdecode bs = Some (v, r) -> (length r < length bs)%nat.
Proof.
  intros [|b t] v r H; [discriminate|]. unfold vdecode in H.
  destruct (Nat.ltb_spec (length (b :: t)) (vlen b)) as [Hl|Hl]; [discriminate|].
  injection H as _ <-. rewrite skipn_length. cbn [length] in *.
  destruct (vlen_cases b) as [E|[E|[E|E]]]; rewrite E in *; lia.
Qed.

Lemma vdecode_consumed : forall bs v r, vdecode bs = Some (v, r) ->
  (length bs - length r = vlen_of_first bs)%nat.
Proof.
  intros [|b t] v r H; [discriminate|]. unfold vdecode in H. unfold vlen_of_first.
  destruct (Nat.ltb_spec (length (b :: t)) (vlen b)) as [Hl|Hl]; [discriminate|].
  injection H as _ <-. rewrite skipn_length. cbn [length] in *.
  destruct (vlen_cases b) as [E|[E|[E|E]]]; rewrite E in *; lia.
Qed.

Lemma p_take_len : forall n bs l r, p_take n bs = Some (l, r) -> (length r <= length bs)%nat.
Proof.
  intros n bs l r H. unfold p_take in H. destruct (N.of_nat (length bs) <? n); [discriminate|].
  injection H as _ <-. rewrite skipn_length. lia.
Qed.

Lemma p_byte_len : forall bs b r, p_byte bs = Some (b, r) -> (length r < length bs)%nat.
Proof. intros [|x t] b r H; [discriminate|]. injection H as _ <-. cbn [length]. lia. Qed.

Lemma p_lenpref_len : forall bs l r, p_lenpref bs = Some (l, r) -> (length r < length bs)%nat.
Proof.
  intros bs l r H. unfold p_lenpref in H. destruct (vdecode bs) as [[n b1]|] eqn:E; [|discriminate].
  apply vdecode_len in E. apply p_take_len in H. lia.
Qed.

Lemma span0_len : forall bs k r, span0 bs = (k, r) -> (length r <= length bs)%nat.
Proof.
  induction bs as [|b t IH]; intros k r H; cbn [span0] in H.
  - injection H as _ <-. lia.
  - destruct b as [|p].
    + destruct (span0 t) as [k' r'] eqn:E. injection H as _ <-. specialize (IH _ _ eq_refl). cbn [length]. lia.
    + injection H as _ <-. lia.
Qed.

Lemma p_ranges_len : forall fuel cnt sm bs rs r,
  p_ranges fuel cnt sm bs = Some (rs, r) -> (length r <= length bs)%nat.
Proof.
  induction fuel as [|fuel IH]; intros cnt sm bs rs r H; cbn [p_ranges] in H.
  - destruct (cnt =? 0); [|discriminate]. injection H as _ <-. lia.
  - destruct (cnt =? 0); [injection H as _ <-; lia|].
    destruct (vdecode bs) as [[gap b1]|] eqn:E1; [|discriminate].
    destruct (vdecode b1) as [[len b2]|] eqn:E2; [|discriminate].
    destruct (sm <? gap + 2); [discriminate|].
    destruct (sm - gap - 2 <? len); [discriminate|].
    destruct (p_ranges fuel (cnt - 1) (sm - gap - 2 - len) b2) as [[rs' b3]|] eqn:E3; [|discriminate].
    injection H as _ <-. apply IH in E3. apply vdecode_len in E1. apply vdecode_len in E2. lia.
Qed.

(* one step of case analysis on a parser composition, recording the length fact *)
Ltac pstep H :=
  match type of H with
  | context [match vdecode ?b with _ => _ end] =>
      let E := fresh "E" in destruct (vdecode b) as [[? ?]|] eqn:E; [apply vdecode_len in E|discriminate H]
  | context [match p_lenpref ?b with _ => _ end] =>
      let E := fresh "E" in destruct (p_lenpref b) as [[? ?]|] eqn:E; [apply p_lenpref_len in E|discriminate H]
  | context [match p_take ?n ?b with _ => _ end] =>
      let E := fresh "E" in destruct (p_take n b) as [[? ?]|] eqn:E; [apply p_take_len in E|discriminate H]
  | context [match p_byte ?b with _ => _ end] =>
      let E := fresh "E" in destruct (p_byte b) as [[? ?]|] eqn:E; [apply p_byte_len in E|discriminate H]
  | context [match p_ranges ?f ?c ?s ?b with _ => _ end] =>
      let E := fresh "E" in destruct (p_ranges f c s b) as [[? ?]|] eqn:E; [apply p_ranges_len in E|discriminate H]
  | context [match span0 ?b with _ => _ end] =>
      let E := fresh "E" in destruct (span0 b) as [? ?] eqn:E; apply span0_len in E
  | context [if ?c then _ else _] => destruct c
  | context [match ?l with [] => _ | _ :: _ => _ end] => destruct l
  end.

Ltac pfinish H := try discriminate H; injection H as <- <-; cbn [length] in *; lia.
Ltac psolve H := repeat pstep H; pfinish H.

Definition nonincr (p : list N -> option (frame * list N)) : Prop :=
  forall bs f r, p bs = Some (f, r) -> (length r <= length bs)%nat.

Lemma ni_v1 : forall k, nonincr (p_v1 k).
Proof. intros k bs f r H. unfold p_v1 in H. psolve H. Qed.
Lemma ni_v2 : forall k, nonincr (p_v2 k).
Proof. intros k bs f r H. unfold p_v2 in H. psolve H. Qed.
Lemma ni_v3 : forall k, nonincr (p_v3 k).
Proof. intros k bs f r H. unfold p_v3 in H. psolve H. Qed.
Lemma ni_ack : forall e, nonincr (p_ack e).
Proof. intros e bs f r H. unfold p_ack in H. psolve H. Qed.
Lemma ni_stream : forall t, nonincr (p_stream t).
Proof.
  intros t bs f r H. unfold p_stream in H.
  destruct (vdecode bs) as [[id b1]|] eqn:E1; [apply vdecode_len in E1|discriminate].
  destruct (N.testbit t 2).
  - destruct (vdecode b1) as [[off b2]|] eqn:E2; [apply vdecode_len in E2|discriminate]. psolve H.
  - psolve H.
Qed.
Lemma ni_datagram : forall t, nonincr (p_datagram t).
Proof. intros t bs f r H. unfold p_datagram in H. psolve H. Qed.
Lemma ni_ncid : nonincr p_new_connection_id.
Proof. intros bs f r H. unfold p_new_connection_id in H. psolve H. Qed.
Lemma ni_max_streams : forall k, nonincr (p_max_streams k).
Proof. intros k bs f r H. unfold p_max_streams in H. psolve H. Qed.
Lemma ni_dc : nonincr p_dc_tokens.
Proof. intros bs f r H. unfold p_dc_tokens in H. psolve H. Qed.

Lemma ni_ext : forall t, nonincr (p_ext t).
Proof.
  intros t bs f r H. unfold p_ext in H.
  destruct (t =? dc_tokens_tag); [exact (ni_dc _ _ _ H)|].
  destruct (t =? mtu_probing_tag); [|discriminate]. psolve H.
Qed.

Lemma ni_core : forall t, nonincr (p_core t).
Proof.
  intros t bs f r H. unfold p_core in H.
  repeat match type of H with
  | context [match ?x with N0 => _ | Npos _ => _ end] => destruct x
  | context [match ?x with xH => _ | xO _ => _ | xI _ => _ end] => destruct x
  end;
  try discriminate H;
  first [ exact (ni_v1 _ _ _ _ H) | exact (ni_v2 _ _ _ _ H) | exact (ni_v3 _ _ _ _ H)
        | exact (ni_ack _ _ _ _ H) | exact (ni_stream _ _ _ _ H) | exact (ni_datagram _ _ _ _ H)
        | exact (ni_ncid _ _ _ H) | exact (ni_max_streams _ _ _ _ H)
        | psolve H ].
Qed.

(* decoding a frame consumes at least one byte: a payload is decoded in at most length steps *)
Theorem frames_progress : forall bs f r, fdecode bs = Some (f, r) -> (length r < length bs)%nat.
Proof.
  intros bs f r H. unfold fdecode in H.
  destruct (vdecode bs) as [[t rest]|] eqn:E; [apply vdecode_len in E|discriminate].
  destruct (t <? 64).
  - destruct (vlen_of_first bs =? 1)%nat; [|discriminate]. apply ni_core in H. lia.
  - apply ni_ext in H. lia.
Qed.

Theorem frames_all_total : forall fuel bs, (length bs <= fuel)%nat ->
  exists fs ok, fdecode_all fuel bs = Some (fs, ok).
Proof.
  induction fuel as [|fuel IH]; intros bs Hl.
  - destruct bs; [|cbn [length] in Hl; lia]. exists [], true. reflexivity.
  - destruct bs as [|b t]; [exists [], true; reflexivity|].
    cbn [fdecode_all]. destruct (fdecode (b :: t)) as [[f rest]|] eqn:E.
    + apply frames_progress in E. destruct (IH rest ltac:(lia)) as [fs [ok Hfs]]. rewrite Hfs.
      eexists _, _. reflexivity.
    + exists [], false. reflexivity.
Qed.

Corollary run_seq_total : forall bs, run_seq (length bs) bs <> [(-9)%Z].
Proof.
  intros bs. unfold run_seq. destruct (frames_all_total (length bs) bs (le_n _)) as [fs [ok H]].
  rewrite H. destruct fs as [|[f c] fs].
  - cbn [flat_map app]. destruct ok; discriminate.
  - cbn [flat_map render_entry app]. discriminate.
Qed.

(* ------------------------------------------------------------------ announced size *)
Lemma length_vencode : forall v, length (vencode v) = vsize v.
Proof. intros v. unfold vencode, vencode_n. apply length_be_bytes. Qed.

Lemma len_vencode : forall v, N.of_nat (length (vencode v)) = vsz v.
Proof. intros v. unfold vsz. now rewrite length_vencode. Qed.

Lemma len_venc_len : forall d, N.of_nat (length (venc_len d)) = lsz d.
Proof. intros d. unfold venc_len, lsz. rewrite app_length, Nat2N.inj_add, len_vencode. reflexivity. Qed.

Lemma len_enc_ranges : forall rs,
  N.of_nat (length (enc_ranges rs)) = fold_right (fun p a => vsz (fst p) + vsz (snd p) + a) 0 rs.
Proof.
  induction rs as [|[g l] t IH]; [reflexivity|].
  unfold enc_ranges in *. cbn [flat_map fold_right fst snd].
  rewrite !app_length, !Nat2N.inj_add, !len_vencode, IH. lia.
Qed.

Ltac lens := repeat (rewrite ?app_length, ?Nat2N.inj_add, ?len_vencode, ?len_venc_len, ?len_enc_ranges,
                      ?length_be_bytes; cbn [length]).

Theorem frame_size : forall f, N.of_nat (length (fencode f)) = fsize f.
Proof.
  destruct f; cbn [fencode fsize]; lens; try lia.
  - rewrite repeat_length. lia.
  - destruct ecn as [[[e0 e1] ce]|]; lens; lia.
  - destruct (off =? 0), last; lens; lia.
  - destruct last; lens; lia.
  - change (vsz dc_tokens_tag) with 4. lia.
  - change (vsz mtu_probing_tag) with 4. lia.
Qed.

(* ------------------------------------------------------------------ round trip *)
Lemma vok_lt : forall v, vok v = true -> v < 2 ^ 62.
Proof. intros v H. change (2 ^ 62) with two62. unfold vok in H. apply N.ltb_lt in H. exact H. Qed.

Lemma rt_v : forall v rest, vok v = true -> vdecode (vencode v ++ rest) = Some (v, rest).
Proof. intros v rest H. apply varint_roundtrip. now apply vok_lt. Qed.

Lemma rt_take : forall d rest n, n = N.of_nat (length d) -> p_take n (d ++ rest) = Some (d, rest).
Proof.
  intros d rest n ->. unfold p_take. rewrite app_length.
  destruct (N.ltb_spec (N.of_nat (length d + length rest)) (N.of_nat (length d))); [lia|].
  rewrite Nat2N.id. rewrite firstn_app_exact, skipn_app_exact by reflexivity. reflexivity.
Qed.

Lemma rt_len : forall d rest, lok d = true -> p_lenpref (venc_len d ++ rest) = Some (d, rest).
Proof.
  intros d rest H. unfold lok in H. apply andb_true_iff in H. destruct H as [_ H].
  unfold p_lenpref, venc_len. rewrite <- app_assoc, rt_v by exact H. now apply rt_take.
Qed.

Lemma vdecode_tag : forall b l, b < 64 -> vdecode (b :: l) = Some (b, l).
Proof.
  intros b l Hb. unfold vdecode.
  assert (E : vlen b = 1%nat) by (unfold vlen; now rewrite N.div_small).
  rewrite E. cbn [length Nat.ltb Nat.leb Nat.sub firstn skipn be_acc].
  rewrite N.mod_small by lia. reflexivity.
Qed.

Lemma fdecode_core : forall b l, b < 64 -> fdecode (b :: l) = p_core b l.
Proof.
  intros b l Hb. unfold fdecode. rewrite vdecode_tag by exact Hb.
  destruct (N.ltb_spec b 64); [|lia].
  unfold vlen_of_first. assert (E : vlen b = 1%nat) by (unfold vlen; now rewrite N.div_small).
  rewrite E. reflexivity.
Qed.

Lemma span0_repeat : forall k rest, hd 1 rest <> 0 -> span0 (repeat 0 k ++ rest) = (N.of_nat k, rest).
Proof.
  induction k as [|k IH]; intros rest Hh.
  - cbn [repeat app]. destruct rest as [|[|p] t]; cbn [span0 hd] in *; try reflexivity. congruence.
  - cbn [repeat app span0]. rewrite IH by exact Hh. f_equal. lia.
Qed.

Lemma enc_ranges_cons : forall g l t, enc_ranges ((g, l) :: t) = vencode g ++ vencode l ++ enc_ranges t.
Proof. intros. unfold enc_ranges. cbn [flat_map fst snd]. now rewrite <- app_assoc. Qed.

Lemma rt_ranges : forall rs fuel largest first rest,
  forallb (fun p => vok (fst p) && vok (snd p)) rs = true ->
  ack_ok largest first rs = true ->
  (length rs <= fuel)%nat ->
  p_ranges fuel (N.of_nat (length rs)) (largest - first) (enc_ranges rs ++ rest) = Some (rs, rest).
Proof.
  induction rs as [|[g l] t IH]; intros fuel largest first rest Hv Hok Hf.
  - destruct fuel; reflexivity.
  - destruct fuel as [|fuel]; [cbn [length] in Hf; lia|].
    cbn [forallb fst snd] in Hv. apply andb_true_iff in Hv. destruct Hv as [Hgl Hv].
    apply andb_true_iff in Hgl. destruct Hgl as [Hg Hl].
    cbn [ack_ok] in Hok. apply andb_true_iff in Hok. destruct Hok as [Hfl Hok].
    apply andb_true_iff in Hok. destruct Hok as [Hgap Hok].
    cbn [p_ranges length]. destruct (N.eqb_spec (N.of_nat (S (length t))) 0); [lia|].
    rewrite enc_ranges_cons, <- !app_assoc, rt_v by exact Hg. rewrite rt_v by exact Hl.
    apply N.leb_le in Hgap.
    destruct (N.ltb_spec (largest - first) (g + 2)); [lia|].
    assert (Hl' : l <= largest - first - g - 2).
    { destruct t as [|[g' l'] t']; cbn [ack_ok] in Hok; apply andb_true_iff in Hok; destruct Hok as [H1 _];
        apply N.leb_le in H1; exact H1. }
    destruct (N.ltb_spec (largest - first - g - 2) l); [lia|].
    replace (N.of_nat (S (length t)) - 1) with (N.of_nat (length t)) by lia.
    rewrite (IH fuel (largest - first - g - 2) l rest Hv Hok) by (cbn [length] in Hf; lia).
    reflexivity.
Qed.

Lemma enc_ranges_len_ge : forall rs, (length rs <= length (enc_ranges rs))%nat.
Proof.
  induction rs as [|[g l] t IH]; [cbn; lia|].
  rewrite enc_ranges_cons, !app_length, !length_vencode. cbn [length].
  destruct (vsize_cases g) as [E|[E|[E|E]]]; rewrite E; lia.
Qed.

Ltac wf_split H :=
  repeat match type of H with
  | (_ && _) = true => let H1 := fresh "W" in apply andb_true_iff in H; destruct H as [H H1]
  end.

Ltac wf_all :=
  repeat match goal with
  | H : (_ && _) = true |- _ => let H1 := fresh "W" in apply andb_true_iff in H; destruct H as [H H1]
  end.

Ltac norm_hyps :=
  repeat match goal with
  | H : (_ <=? _) = true |- _ => apply N.leb_le in H
  | H : (_ <=? _)%nat = true |- _ => apply Nat.leb_le in H
  | H : (_ =? _)%nat = true |- _ => apply Nat.eqb_eq in H
  | H : (_ =? _) = true |- _ => apply N.eqb_eq in H
  | H : (_ <? _) = true |- _ => apply N.ltb_lt in H
  end.

Ltac rt := repeat (rewrite <- ?app_assoc; first [rewrite rt_v by assumption | rewrite rt_len by assumption]).

(* the side conditions under which the byte string after the frame is returned untouched:
   a frame without Length field ends the packet, and a PADDING run absorbs following zeros *)
Definition rest_ok (f : frame) (rest : list N) : Prop :=
  (extends_to_end f = true -> rest = []) /\
  (match f with FPadding _ => hd 1 rest <> 0 | _ => True end).

Theorem frame_roundtrip : forall f rest, wf_frame f = true -> rest_ok f rest ->
  fdecode (fencode f ++ rest) = Some (f, rest).
Proof.
  intros f rest Hwf [Hend Hpad].
  destruct f; cbn [wf_frame] in Hwf; cbn [extends_to_end] in Hend; cbn [fencode].
  - (* PADDING *)
    apply N.leb_le in Hwf. destruct (N.to_nat n) as [|k] eqn:Ek; [lia|].
    cbn [repeat app]. rewrite fdecode_core by lia. unfold p_core.
    rewrite span0_repeat by exact Hpad. replace (N.of_nat k + 1) with n by lia. reflexivity.
  - cbn [app]. rewrite fdecode_core by lia. reflexivity.
  - (* ACK *)
    wf_all. cbn [app]. rewrite fdecode_core by (destruct ecn; lia).
    assert (Hcore : forall l, p_core (match ecn with None => 2 | Some _ => 3 end) l
                              = p_ack (match ecn with None => false | Some _ => true end) l)
      by (intros l; destruct ecn; reflexivity).
    rewrite Hcore. unfold p_ack. rt.
    assert (Hfl : first <=? largest = true).
    { match goal with H : ack_ok _ _ _ = true |- _ =>
        destruct ranges as [|[g l] t]; cbn [ack_ok] in H; apply andb_true_iff in H; tauto end. }
    apply N.leb_le in Hfl. destruct (N.ltb_spec largest first); [lia|].
    rewrite rt_ranges; try assumption.
    2:{ rewrite app_length. pose proof (enc_ranges_len_ge ranges). lia. }
    destruct ecn as [[[e0 e1] ce]|].
    + wf_all. rt. reflexivity.
    + reflexivity.
  - wf_all. cbn [app]. rewrite fdecode_core by lia. unfold p_core, p_v3. rt. reflexivity.
  - wf_all. cbn [app]. rewrite fdecode_core by lia. unfold p_core, p_v2. rt. reflexivity.
  - wf_all. cbn [app]. rewrite fdecode_core by lia. unfold p_core. rt. reflexivity.
  - (* NEW_TOKEN *)
    wf_all. cbn [app]. rewrite fdecode_core by lia. unfold p_core. rt.
    destruct tok; [discriminate|reflexivity].
  - (* STREAM *)
    wf_all. cbn [app].
    assert (Htag : 8 + (if off =? 0 then 0 else 4) + (if last then 0 else 2) + b2n fin < 64)
      by (destruct (off =? 0), last, fin; cbn; lia).
    rewrite fdecode_core by exact Htag.
    assert (Hcore : forall l, p_core (8 + (if off =? 0 then 0 else 4) + (if last then 0 else 2) + b2n fin) l
                            = p_stream (8 + (if off =? 0 then 0 else 4) + (if last then 0 else 2) + b2n fin) l)
      by (intros l; destruct (off =? 0), last, fin; reflexivity).
    rewrite Hcore. unfold p_stream.
    assert (B2 : N.testbit (8 + (if off =? 0 then 0 else 4) + (if last then 0 else 2) + b2n fin) 2 = negb (off =? 0))
      by (destruct (off =? 0), last, fin; reflexivity).
    assert (B1 : N.testbit (8 + (if off =? 0 then 0 else 4) + (if last then 0 else 2) + b2n fin) 1 = negb last)
      by (destruct (off =? 0), last, fin; reflexivity).
    assert (B0 : N.testbit (8 + (if off =? 0 then 0 else 4) + (if last then 0 else 2) + b2n fin) 0 = fin)
      by (destruct (off =? 0), last, fin; reflexivity).
    rewrite B2, B1, B0. rt.
    destruct (N.eqb_spec off 0) as [->|Hoff]; cbn [negb].
    + destruct last; cbn [negb app].
      * rewrite (Hend eq_refl), app_nil_r. reflexivity.
      * rt. reflexivity.
    + rt. destruct last; cbn [negb].
      * rewrite (Hend eq_refl), app_nil_r. reflexivity.
      * rt. reflexivity.
  - cbn [app]. rewrite fdecode_core by lia. unfold p_core, p_v1. rt. reflexivity.
  - wf_all. cbn [app]. rewrite fdecode_core by lia. unfold p_core, p_v2. rt. reflexivity.
  - (* MAX_STREAMS *)
    apply N.leb_le in Hwf. cbn [app]. rewrite fdecode_core by (destruct uni; cbn; lia).
    assert (Hv : vok v = true) by (unfold vok, two62; apply N.ltb_lt; unfold two60 in Hwf; lia).
    destruct uni; cbn [b2n]; unfold p_core, p_max_streams; cbn [N.add]; rt;
      (destruct (N.ltb_spec two60 v); [lia|reflexivity]).
  - cbn [app]. rewrite fdecode_core by lia. unfold p_core, p_v1. rt. reflexivity.
  - wf_all. cbn [app]. rewrite fdecode_core by lia. unfold p_core, p_v2. rt. reflexivity.
  - (* STREAMS_BLOCKED *)
    apply N.leb_le in Hwf. cbn [app]. rewrite fdecode_core by (destruct uni; cbn; lia).
    assert (Hv : vok v = true) by (unfold vok, two62; apply N.ltb_lt; unfold two60 in Hwf; lia).
    destruct uni; cbn [b2n]; unfold p_core, p_max_streams; cbn [N.add]; rt;
      (destruct (N.ltb_spec two60 v); [lia|reflexivity]).
  - (* NEW_CONNECTION_ID *)
    wf_all. cbn [app]. rewrite fdecode_core by lia. unfold p_core, p_new_connection_id.
    norm_hyps.
    assert (Hs : vok seq = true) by assumption.
    assert (Hr : vok rpt = true) by (unfold vok in *; apply N.ltb_lt; apply N.ltb_lt in Hs; lia).
    rt. destruct (N.ltb_spec seq rpt); [lia|]. cbn [app p_byte].
    assert (Wt : length tok = 16%nat) by assumption.
    destruct (N.ltb_spec (N.of_nat (length cid)) 1); [lia|].
    destruct (N.ltb_spec 20 (N.of_nat (length cid))); [lia|]. cbn [orb].
    rewrite <- ?app_assoc. rewrite (rt_take cid (tok ++ rest)) by reflexivity.
    rewrite (rt_take tok rest 16) by (rewrite Wt; reflexivity). reflexivity.
  - cbn [app]. rewrite fdecode_core by lia. unfold p_core, p_v1. rt. reflexivity.
  - wf_all. norm_hyps. assert (Wd : length d = 8%nat) by assumption.
    cbn [app]. rewrite fdecode_core by lia. unfold p_core.
    rewrite (rt_take d rest 8) by (rewrite Wd; reflexivity). reflexivity.
  - wf_all. norm_hyps. assert (Wd : length d = 8%nat) by assumption.
    cbn [app]. rewrite fdecode_core by lia. unfold p_core.
    rewrite (rt_take d rest 8) by (rewrite Wd; reflexivity). reflexivity.
  - wf_all. cbn [app]. rewrite fdecode_core by lia. unfold p_core. rt. reflexivity.
  - wf_all. cbn [app]. rewrite fdecode_core by lia. unfold p_core. rt. reflexivity.
  - cbn [app]. rewrite fdecode_core by lia. reflexivity.
  - (* DATAGRAM *)
    destruct last; cbn [app N.add].
    + rewrite fdecode_core by (cbn; lia). rewrite (Hend eq_refl), app_nil_r. reflexivity.
    + rewrite fdecode_core by (cbn; lia). change (48 + 1) with 49. unfold p_core, p_datagram.
      change (N.testbit 49 0) with true. rt. reflexivity.
  - (* dc stateless reset tokens *)
    wf_all. norm_hyps. unfold fdecode.
    assert (Htag : forall l, vdecode (vencode dc_tokens_tag ++ l) = Some (dc_tokens_tag, l))
      by (intros l; apply varint_roundtrip; vm_compute; reflexivity).
    rewrite <- app_assoc, Htag.
    change (dc_tokens_tag <? 64) with false. cbv iota. unfold p_ext.
    change (dc_tokens_tag =? dc_tokens_tag) with true. cbv iota. unfold p_dc_tokens.
    assert (Hc : vok (N.of_nat (length toks) / 16) = true)
      by (unfold vok, two62; apply N.ltb_lt; unfold dc_max_tokens in *; lia).
    rt. destruct (N.eqb_spec (N.of_nat (length toks) / 16) 0); [lia|].
    destruct (N.ltb_spec dc_max_tokens (N.of_nat (length toks) / 16)); [lia|]. cbn [orb].
    rewrite rt_take; [reflexivity|].
    pose proof (N.div_mod (N.of_nat (length toks)) 16 ltac:(discriminate)). lia.
  - (* mtu probing complete *)
    apply N.ltb_lt in Hwf. unfold fdecode.
    assert (Htag : forall l, vdecode (vencode mtu_probing_tag ++ l) = Some (mtu_probing_tag, l))
      by (intros l; apply varint_roundtrip; vm_compute; reflexivity).
    rewrite <- app_assoc, Htag.
    change (mtu_probing_tag <? 64) with false. cbv iota. unfold p_ext.
    change (mtu_probing_tag =? dc_tokens_tag) with false.
    change (mtu_probing_tag =? mtu_probing_tag) with true. cbv iota.
    rewrite (rt_take (be_bytes 2 mtu) rest 2) by (now rewrite length_be_bytes).
    rewrite be_acc_be_bytes. change (256 ^ N.of_nat 2) with 65536.
    rewrite N.mod_small by exact Hwf. rewrite N.mul_0_l, N.add_0_l. reflexivity.
Qed.

(* ------------------------------------------------------------------ judge accepts the model *)
Theorem judge_run : forall case, Frame.judge case (Frame.run case) = true.
Proof. intros case. unfold Frame.judge. apply zlist_eqb_refl. Qed.

Theorem judge_sound : forall case out, Frame.judge case out = true -> out = Frame.run case.
Proof. intros case out H. now apply zlist_eqb_eq. Qed.
