(* Proofs about model/Loss.v (loss::detect) and RttEstimator::loss_time_threshold. *)
From SQ Require Import lib.Base gen.Gen_C09 model.RecTime model.Rtt model.Loss.
From Coq Require Import ZifyBool ZifyN.
Ltac Zify.zify_post_hook ::= Z.div_mod_to_equations.
Local Open Scope N_scope.

Lemma gran_us_1000 : gran_us = 1000.
Proof. reflexivity. Qed.

Lemma k_is_3 : k_packet_threshold = 3.
Proof. reflexivity. Qed.

Lemma granularity_is_1ms : k_granularity_ns = 1000000.
Proof. reflexivity. Qed.

Lemma ts_norm_pos : forall x, 1 <= ts_norm x.
Proof. intros x. unfold ts_norm. destruct (N.eqb_spec x 0); lia. Qed.

Lemma ts_norm_id : forall x, 1 <= x -> ts_norm x = x.
Proof. intros x H. unfold ts_norm. destruct (N.eqb_spec x 0); lia. Qed.

(* Timestamp + Duration on a valid (non-zero) timestamp: whole microseconds are added *)
Lemma ts_add_pos : forall t d, 1 <= t -> ts_add t d = t + d / 1000.
Proof.
  intros t d H. unfold ts_add, ts_of_dur.
  replace ((t * 1000 + d) / 1000) with (t + d / 1000) by lia.
  apply ts_norm_id. lia.
Qed.

Lemma has_elapsed_spec : forall t now, has_elapsed t now = true <-> t < now + 1000.
Proof. intros. unfold has_elapsed. rewrite gran_us_1000. lia. Qed.

(* What detect computes, exactly.  Note the "+ 1000": Timestamp::has_elapsed treats an instant less
   than one timer granularity in the future as already elapsed. *)
Theorem detect_exact : forall thr sent k pn largest now, 1 <= sent ->
  (detect thr sent k pn largest now = Lost <-> sent + thr / 1000 < now + 1000 \/ k <= largest - pn).
Proof.
  intros thr sent k pn largest now Hs. unfold detect. rewrite ts_add_pos by assumption.
  destruct (has_elapsed (sent + thr / 1000) now) eqn:E; cbn [orb].
  - apply has_elapsed_spec in E. split; [intros _; left; exact E | reflexivity].
  - assert (~ sent + thr / 1000 < now + 1000) by (rewrite <- has_elapsed_spec; congruence).
    destruct (N.leb_spec k (largest - pn)).
    + split; [intros _; right; assumption | reflexivity].
    + split; [discriminate | intros [?|?]; lia].
Qed.

(* RFC 9002 6.1 "declared lost if": every packet that meets the RFC condition is reported lost *)
Theorem detect_complete : forall thr sent k pn largest now, 1 <= sent ->
  sent * 1000 + thr <= now * 1000 \/ k <= largest - pn ->
  detect thr sent k pn largest now = Lost.
Proof.
  intros thr sent k pn largest now Hs H. apply detect_exact; [assumption|].
  destruct H as [H|H]; [left|right; assumption]. lia.
Qed.

(* soundness holds only up to one timer granularity ... *)
Theorem detect_sound_partial : forall thr sent k pn largest now, 1 <= sent ->
  detect thr sent k pn largest now = Lost ->
  k <= largest - pn \/ sent * 1000 + thr < (now + 1000) * 1000 + 1000.
Proof.
  intros thr sent k pn largest now Hs H. apply detect_exact in H; [|assumption].
  destruct H as [H|H]; [right|left; assumption]. lia.
Qed.

(* ... and the statement without the slack is false of the faithful model: time threshold 1 ms,
   packet sent 1 us ago, one packet number below the largest acknowledged, yet Lost *)
Theorem detect_sound_refuted : exists thr sent pn largest now,
  largest > pn /\ detect thr sent k_packet_threshold pn largest now = Lost
  /\ ~ (sent * 1000 + thr <= now * 1000 \/ 3 <= largest - pn).
Proof.
  exists 1000000, 1000, 0, 1, 1001. split; [lia|]. split; [vm_compute; reflexivity|]. lia.
Qed.

(* RttEstimator::loss_time_threshold = max(9/8 * max(smoothed, latest), 1 ms), K = 3 *)
Theorem threshold_value : forall r,
  let m := N.max (smoothed r) (latest r) in
  loss_time_threshold r = N.max (m + m / 8) 1000000
  /\ m + m / 8 = 9 * m / 8
  /\ 1000000 <= loss_time_threshold r
  /\ k_packet_threshold = 3.
Proof.
  intros r m. unfold loss_time_threshold. fold m.
  change time_threshold_div with 8. change k_granularity_ns with 1000000.
  repeat split; try lia.
Qed.

Lemma threshold_rfc : forall r, loss_time_threshold r = rfc_threshold (smoothed r) (latest r).
Proof.
  intros r. unfold rfc_threshold. destruct (threshold_value r) as (H & H2 & _). rewrite H, H2. reflexivity.
Qed.

(* the cases on which the model (and the current source) declares a loss earlier than the property
   allows: time threshold not reached, but less than one granularity away *)
Definition early_band (c : list Z) : bool :=
  (zN (nthz c 6) - zN (nthz c 5) <? 3)
  && (case_now c <? case_sent c + case_thr c / 1000)
  && (case_sent c + case_thr c / 1000 <? case_now c + 1000).

Lemma zN_Nz : forall x, zN (Nz x) = x.
Proof. intros. unfold zN, Nz. apply N2Z.id. Qed.
Lemma Nz_nonneg : forall x, (0 <=? Nz x)%Z = true.
Proof. intros. unfold Nz. lia. Qed.

Theorem judge_run_partial : forall c, early_band c = false -> judge c (run c) = true.
Proof.
  intros c Hb. unfold judge, run.
  rewrite !Nz_nonneg, !zN_Nz. cbn [andb].
  fold (case_sent c) (case_now c).
  assert (Hthr : (if (nthz c 8 =? 0)%Z then case_thr c =? rfc_threshold (smoothed (case_rtt c)) (latest (case_rtt c))
                  else case_thr c =? zN (nthz c 8)) = true).
  { unfold case_thr. destruct (nthz c 8 =? 0)%Z; [rewrite threshold_rfc|]; apply N.eqb_refl. }
  rewrite Hthr. cbn [andb].
  pose proof (ts_norm_pos (zN (nthz c 4))) as Hs. fold (case_sent c) in Hs.
  pose proof (detect_exact (case_thr c) (case_sent c) k_packet_threshold (zN (nthz c 5)) (zN (nthz c 6)) (case_now c) Hs) as D.
  unfold early_band in Hb. change k_packet_threshold with 3 in *.
  destruct (detect (case_thr c) (case_sent c) 3 (zN (nthz c 5)) (zN (nthz c 6)) (case_now c)) eqn:E.
  - assert (D' : case_sent c + case_thr c / 1000 < case_now c + 1000 \/ 3 <= zN (nthz c 6) - zN (nthz c 5)) by (apply D; reflexivity).
    change (1 =? 1)%Z with true. cbn match. unfold may_be_lost. clear D E Hthr. lia.
  - assert (D' : ~ (case_sent c + case_thr c / 1000 < case_now c + 1000 \/ 3 <= zN (nthz c 6) - zN (nthz c 5))).
    { intros H. apply D in H. discriminate. }
    change (0 =? 1)%Z with false. change (0 =? 0)%Z with true. cbn match. cbn [andb]. unfold must_be_lost. clear D E Hthr. lia.
Qed.

(* the judgement is the property: what it accepts as "lost" satisfies the RFC rule at 1 us resolution *)
Theorem judge_sound : forall c sm la thr lt,
  judge c [sm; la; thr; 1%Z; lt] = true ->
  3 <= zN (nthz c 6) - zN (nthz c 5) \/ case_sent c + zN thr / 1000 <= case_now c.
Proof.
  intros c sm la thr lt H. unfold judge in H. fold (case_sent c) (case_now c) in H.
  change (1 =? 1)%Z with true in H. cbn match in H. unfold may_be_lost in H. lia.
Qed.

Example judge_refuted : exists c, judge c (run c) = false.
Proof. exists [100000; 0; 0; 0; 1000; 0; 1; 1001; 0]%Z. vm_compute. reflexivity. Qed.
