(* Proofs about the dc replay-window model (C19, receiver side). *)
From SQ Require Import lib.Base lib.ListX gen.Gen_C19 model.DcReceiver.
Local Open Scope N_scope.

(* the generated constant is the one the property names *)
Lemma window_is_896 : window = 896.
Proof. reflexivity. Qed.

Lemma nth_shift_end : forall d l i, (i < length l)%nat ->
  nth i (shift_end d l) false = if (i <? d)%nat then false else nth (i - d) l false.
Proof.
  intros d l i Hi. unfold shift_end. rewrite nth_firstn_lt by assumption.
  destruct (Nat.ltb_spec i d) as [H|H].
  - rewrite app_nth1 by (rewrite repeat_length; assumption). apply nth_repeat_false.
  - rewrite app_nth2 by (rewrite repeat_length; assumption). now rewrite repeat_length.
Qed.

Lemma length_shift_end : forall d l, length (shift_end d l) = length l.
Proof.
  intros d l. unfold shift_end. rewrite firstn_length, app_length. lia.
Qed.

(* Representation invariant: [acc] is the list of ids accepted so far.
   Bit i of the window stands for the id (max - i). *)
Definition RInv (s : rstate) (acc : list N) : Prop :=
  length (seen s) = 896%nat /\
  (forall x, In x acc -> x < varint_max) /\
  match max_list acc with
  | None => max_seen s = u64_max /\ (forall i, nth i (seen s) false = false)
  | Some m => max_seen s = m /\
      forall i, (i < 896)%nat ->
        (nth i (seen s) false = true <-> (N.of_nat i <= m /\ In (m - N.of_nat i) acc))
  end.

Lemma rinit_inv : RInv rinit [].
Proof.
  unfold RInv, rinit; cbn [seen max_seen]. change (max_list []) with (@None N). rewrite repeat_length.
  split; [reflexivity|]. split; [intros x []|]. split; [reflexivity|].
  intros i. apply nth_repeat_false.
Qed.

Definition acc_after (acc : list N) (id : N) (r : rres) : list N :=
  match r with ROk => id :: acc | _ => acc end.

Lemma varint_lt_u64 : forall x, x < varint_max -> x <> u64_max.
Proof. unfold varint_max, u64_max. lia. Qed.

Lemma post_spec : forall s acc id s' r,
  RInv s acc -> id < 4611686018427387904 -> post s id = (s', r) ->
  (r = ROk <-> must_accept acc id = true) /\
  (r = RExists -> In id acc) /\
  RInv s' (acc_after acc id r).
Proof.
  intros s acc id s' r (Hlen & Hlt & Hrep) Hid Hpost.
  unfold post in Hpost. unfold must_accept, in_window.
  destruct (N.eqb_spec id varint_max) as [Hmax|Hmax].
  { injection Hpost as <- <-. cbn [negb andb acc_after].
    split; [split; discriminate|]. split; [discriminate|]. repeat split; assumption. }
  assert (Hidlt : id < varint_max) by (unfold varint_max in *; lia).
  assert (HlenN : N.of_nat (length (seen s)) = 896) by (rewrite Hlen; reflexivity).
  rewrite HlenN in Hpost.
  cbn [negb andb].
  destruct (max_list acc) as [m|] eqn:Em.
  - (* some id was accepted before *)
    destruct Hrep as [Hms Hbits].
    assert (Hm : m < varint_max) by (apply Hlt; eapply max_list_in; eassumption).
    rewrite Hms in Hpost.
    destruct (N.eqb_spec m u64_max) as [E|_]; [exfalso; revert E; apply varint_lt_u64; assumption|].
    set (nm := N.max m id) in *.
    assert (Hd : nm - m <= 896 \/ 896 < nm - m) by lia.
    destruct (N.ltb_spec 896 (nm - m)) as [Hfar|Hnear].
    + (* jumped ahead by more than the window: fill(false) *)
      assert (Hnm : nm = id) by (unfold nm; lia). rewrite Hnm in *.
      replace (id - id) with 0 in Hpost by lia. cbn [N.to_nat] in Hpost.
      destruct (N.ltb_spec 0 896) as [_|?]; [|lia].
      rewrite nth_repeat_false in Hpost. injection Hpost as <- <-.
      assert (Hnot : ~ In id acc).
      { intros Hin. pose proof (max_list_ge _ _ _ Em Hin). lia. }
      split.
      { split; [intros _|reflexivity].
        destruct (mem_N id acc) eqn:Emem; [apply mem_N_In in Emem; contradiction|].
        cbn [negb andb]. apply N.ltb_lt. lia. }
      split; [discriminate|].
      cbn [acc_after]. unfold RInv. cbn [seen max_seen].
      rewrite length_set_nth, repeat_length. split; [assumption|].
      split. { intros x [<-|Hx]; [assumption|apply Hlt; assumption]. }
      rewrite max_list_cons, Em. replace (N.max id m) with id by lia.
      split; [reflexivity|]. intros i Hi.
      rewrite nth_set_nth by (rewrite repeat_length; lia).
      destruct (Nat.eqb_spec i 0) as [->|Hi0].
      * split; [intros _|reflexivity]. split; [lia|]. left. cbn. lia.
      * rewrite nth_repeat_false. split; [discriminate|]. intros [Hle [Heq|Hin]].
        { exfalso. lia. }
        { exfalso. pose proof (max_list_ge _ _ _ Em Hin). lia. }
    + (* within the window: shift_end *)
      assert (Hdn : (N.to_nat (nm - m) <= 896)%nat) by lia.
      destruct (N.ltb_spec (nm - id) 896) as [Hin_w|Hout_w].
      * (* index inside the bit array *)
        rewrite nth_shift_end in Hpost by lia.
        assert (Hbit : forall i, (i < 896)%nat ->
                  (nth i (shift_end (N.to_nat (nm - m)) (seen s)) false = true <->
                   (N.of_nat i <= nm /\ In (nm - N.of_nat i) acc))).
        { intros i Hi. rewrite nth_shift_end by lia.
          destruct (Nat.ltb_spec i (N.to_nat (nm - m))) as [Hlo|Hhi].
          - split; [discriminate|]. intros [Hle Hin].
            pose proof (max_list_ge _ _ _ Em Hin). lia.
          - rewrite Hbits by lia.
            replace (m - N.of_nat (i - N.to_nat (nm - m))) with (nm - N.of_nat i) by lia.
            split; intros [H1 H2]; split; try assumption; lia. }
        destruct (Nat.ltb_spec (N.to_nat (nm - id)) (N.to_nat (nm - m))) as [Hnew|Hold].
        -- (* id is above the old maximum *)
           injection Hpost as <- <-.
           assert (Hnm : nm = id) by (unfold nm in *; lia). rewrite Hnm in *.
           assert (Hnot : ~ In id acc).
           { intros Hin. pose proof (max_list_ge _ _ _ Em Hin). lia. }
           split.
           { split; [intros _|reflexivity].
             destruct (mem_N id acc) eqn:Emem; [apply mem_N_In in Emem; contradiction|].
             cbn [negb andb]. apply N.ltb_lt. lia. }
           split; [discriminate|].
           cbn [acc_after]. unfold RInv. cbn [seen max_seen].
           rewrite length_set_nth, length_shift_end. split; [assumption|].
           split. { intros x [<-|Hx]; [assumption|apply Hlt; assumption]. }
           rewrite max_list_cons, Em. replace (N.max id m) with id by lia.
           split; [reflexivity|]. intros i Hi.
           rewrite nth_set_nth by (rewrite length_shift_end; lia).
           replace (N.to_nat (id - id)) with 0%nat by lia.
           destruct (Nat.eqb_spec i 0) as [->|Hi0].
           ++ split; [intros _|reflexivity]. split; [lia|]. left. cbn. lia.
           ++ rewrite Hbit by lia. split.
              ** intros [H1 H2]. split; [assumption|right; assumption].
              ** intros [H1 [H2|H2]]; [exfalso; lia|split; assumption].
        -- (* id is at or below the old maximum *)
           assert (Hnm : nm = m) by (unfold nm in *; lia). rewrite Hnm in *.
           replace (m - m) with 0 in * by lia. cbn [N.to_nat] in *.
           rewrite Nat.sub_0_r in Hpost.
           assert (Hsh : shift_end 0 (seen s) = seen s).
           { unfold shift_end. cbn [repeat app]. apply firstn_all. }
           rewrite Hsh in *.
           assert (Hw : (m <? id + 896) = true) by (apply N.ltb_lt; lia).
           rewrite Hw, andb_true_r.
           assert (Hidx : (N.to_nat (m - id) < 896)%nat) by lia.
           pose proof (Hbits _ Hidx) as Hb.
           replace (m - N.of_nat (N.to_nat (m - id))) with id in Hb by lia.
           destruct (nth (N.to_nat (m - id)) (seen s) false) eqn:Ebit.
           ++ injection Hpost as <- <-.
              destruct Hb as [Hb _]. destruct (Hb eq_refl) as [_ Hin].
              split.
              { split; [discriminate|]. apply mem_N_In in Hin. rewrite Hin. discriminate. }
              split; [intros _; assumption|].
              cbn [acc_after]. unfold RInv. cbn [seen max_seen]. rewrite Em.
              repeat split; try assumption; apply Hbits; assumption.
           ++ injection Hpost as <- <-.
              assert (Hnot : ~ In id acc).
              { intros Hin. destruct Hb as [_ Hb].
                assert (true = false) by (rewrite <- Hb; [reflexivity|split; [lia|assumption]]).
                discriminate. }
              split.
              { split; [intros _|reflexivity].
                destruct (mem_N id acc) eqn:Emem; [apply mem_N_In in Emem; contradiction|].
                reflexivity. }
              split; [discriminate|].
              cbn [acc_after]. unfold RInv. cbn [seen max_seen].
              rewrite length_set_nth. split; [assumption|].
              split. { intros x [<-|Hx]; [assumption|apply Hlt; assumption]. }
              rewrite max_list_cons, Em. replace (N.max id m) with m by lia.
              split; [reflexivity|]. intros i Hi.
              rewrite nth_set_nth by lia.
              destruct (Nat.eqb_spec i (N.to_nat (m - id))) as [->|Hne].
              ** split; [intros _|reflexivity]. split; [lia|]. left. lia.
              ** rewrite Hbits by lia. split.
                 --- intros [H1 H2]. split; [assumption|right; assumption].
                 --- intros [H1 [H2|H2]]; [exfalso; lia|split; assumption].
      * (* too old: outside the window *)
        injection Hpost as <- <-.
        assert (Hnm : nm = m) by (unfold nm in *; lia). rewrite Hnm in *.
        split.
        { split; [discriminate|]. intros H. apply andb_true_iff in H as [_ H].
          apply N.ltb_lt in H. lia. }
        split; [discriminate|].
        cbn [acc_after]. unfold RInv. cbn [seen max_seen].
        replace (m - m) with 0 by lia. cbn [N.to_nat].
        assert (Hsh : shift_end 0 (seen s) = seen s).
        { unfold shift_end. cbn [repeat app]. apply firstn_all. }
        rewrite Hsh, Em. repeat split; try assumption; apply Hbits; assumption.
  - (* nothing accepted so far *)
    destruct Hrep as [Hms Hbits]. apply max_list_none in Em. subst acc.
    rewrite Hms in Hpost. rewrite N.eqb_refl in Hpost.
    replace (id - id) with 0 in Hpost by lia. cbn [N.to_nat] in Hpost.
    destruct (N.ltb_spec 0 896) as [_|?]; [|lia].
    assert (Hz : nth 0 (if 896 <? id - 0 then repeat false (length (seen s))
                        else shift_end (N.to_nat (id - 0)) (seen s)) false = false).
    { destruct (896 <? id - 0) eqn:E; [apply nth_repeat_false|].
      apply N.ltb_ge in E. rewrite nth_shift_end by lia.
      destruct (0 <? N.to_nat (id - 0))%nat; [reflexivity|apply Hbits]. }
    rewrite Hz in Hpost. injection Hpost as <- <-.
    split; [split; reflexivity|]. split; [discriminate|].
    cbn [acc_after]. unfold RInv. cbn [seen max_seen]. change (max_list [id]) with (Some id).
    rewrite length_set_nth.
    assert (Hl : length (if 896 <? id - 0 then repeat false (length (seen s))
                         else shift_end (N.to_nat (id - 0)) (seen s)) = 896%nat).
    { destruct (896 <? id - 0); [rewrite repeat_length|rewrite length_shift_end]; assumption. }
    split; [assumption|]. split. { intros x [<-|[]]. assumption. }
    split; [reflexivity|]. intros i Hi. rewrite nth_set_nth by lia.
    destruct (Nat.eqb_spec i 0) as [->|Hi0].
    + split; [intros _|reflexivity]. split; [lia|]. left. cbn. lia.
    + assert (Hf : nth i (if 896 <? id - 0 then repeat false (length (seen s))
                          else shift_end (N.to_nat (id - 0)) (seen s)) false = false).
      { destruct (896 <? id - 0) eqn:E; [apply nth_repeat_false|].
        apply N.ltb_ge in E. rewrite nth_shift_end by lia.
        destruct (i <? N.to_nat (id - 0))%nat; [reflexivity|apply Hbits]. }
      rewrite Hf. split; [discriminate|]. intros [H1 [H2|[]]]. exfalso. lia.
Qed.

(* ---- every reachable state ---- *)

Definition in_range (z : Z) : Prop := (0 <= z < 4611686018427387904)%Z.

Lemma run_judge_from : forall ids s acc, RInv s acc -> Forall in_range ids ->
  judge_from acc ids (run_from s ids) = true.
Proof.
  induction ids as [|z t IH]; intros s acc Hinv Hr; [reflexivity|].
  inversion Hr as [|? ? Hz Ht]; subst.
  cbn [run_from]. destruct (post s (zN z)) as [s' r] eqn:Ep.
  assert (Hid : zN z < 4611686018427387904) by (unfold zN, in_range in *; lia).
  destruct (post_spec _ _ _ _ _ Hinv Hid Ep) as (Hok & Hex & Hinv').
  cbn [judge_from].
  destruct r; cbn [rcode acc_after] in *.
  - change (0 =? 0)%Z with true. cbn match.
    assert (Hm : must_accept acc (zN z) = true) by (apply Hok; reflexivity).
    rewrite Hm. unfold must_accept in Hm.
    apply andb_true_iff in Hm as [Hm _]. apply andb_true_iff in Hm as [_ Hm].
    rewrite Hm. cbn [andb]. apply IH; assumption.
  - change (1 =? 0)%Z with false. cbn match.
    destruct (must_accept acc (zN z)) eqn:Em.
    + destruct Hok as [_ Hok]. discriminate (Hok eq_refl).
    + cbn [andb]. apply IH; assumption.
  - change (2 =? 0)%Z with false. cbn match.
    destruct (must_accept acc (zN z)) eqn:Em.
    + destruct Hok as [_ Hok]. discriminate (Hok eq_refl).
    + cbn [andb]. apply IH; assumption.
Qed.

Lemma judge_run : forall ids, Forall in_range ids -> judge ids (run ids) = true.
Proof. intros ids H. apply run_judge_from; [apply rinit_inv|assumption]. Qed.

(* state and accepted ids after processing a list of ids *)
Fixpoint steps (s : rstate) (acc : list N) (ids : list N) : rstate * list N :=
  match ids with
  | [] => (s, acc)
  | id :: t => let '(s', r) := post s id in steps s' (acc_after acc id r) t
  end.

Lemma steps_inv : forall ids s acc, RInv s acc -> Forall (fun x => x < 4611686018427387904) ids ->
  RInv (fst (steps s acc ids)) (snd (steps s acc ids)).
Proof.
  induction ids as [|id t IH]; intros s acc Hinv Hr; [assumption|].
  inversion Hr as [|? ? Hid Ht]; subst. cbn [steps].
  destruct (post s id) as [s' r] eqn:Ep.
  destruct (post_spec _ _ _ _ _ Hinv Hid Ep) as (_ & _ & Hinv'). apply IH; assumption.
Qed.

Lemma must_accept_iff : forall acc id, must_accept acc id = true <->
  id <> varint_max /\ ~ In id acc /\
  (acc = [] \/ exists m, max_list acc = Some m /\ m < id + 896).
Proof.
  intros acc id. unfold must_accept, in_window.
  rewrite !andb_true_iff, !negb_true_iff. rewrite N.eqb_neq.
  split.
  - intros [[H1 H2] H3]. split; [assumption|]. split.
    + intros Hin. apply mem_N_In in Hin. congruence.
    + destruct (max_list acc) as [m|] eqn:Em.
      * right. exists m. split; [reflexivity|apply N.ltb_lt; assumption].
      * left. apply max_list_none; assumption.
  - intros (H1 & H2 & H3). split; [split; [assumption|]|].
    + destruct (mem_N id acc) eqn:E; [apply mem_N_In in E; contradiction|reflexivity].
    + destruct H3 as [->|(m & -> & Hm)]; [reflexivity|apply N.ltb_lt; assumption].
Qed.

Lemma accept_iff : forall ids id s acc,
  Forall (fun x => x < 4611686018427387904) ids -> id < 4611686018427387904 ->
  steps rinit [] ids = (s, acc) ->
  (snd (post s id) = ROk <->
   id <> varint_max /\ ~ In id acc /\
   (acc = [] \/ exists m, max_list acc = Some m /\ m < id + 896)).
Proof.
  intros ids id s acc Hr Hid Hs.
  pose proof (steps_inv ids rinit [] rinit_inv Hr) as Hinv. rewrite Hs in Hinv. cbn [fst snd] in Hinv.
  destruct (post s id) as [s' r] eqn:Ep.
  destruct (post_spec _ _ _ _ _ Hinv Hid Ep) as (Hok & _ & _). cbn [snd].
  rewrite Hok. apply must_accept_iff.
Qed.

(* the accepted list never contains an id twice *)
Lemma steps_nodup : forall ids s acc, RInv s acc -> NoDup acc ->
  Forall (fun x => x < 4611686018427387904) ids -> NoDup (snd (steps s acc ids)).
Proof.
  induction ids as [|id t IH]; intros s acc Hinv Hnd Hr; [assumption|].
  inversion Hr as [|? ? Hid Ht]; subst. cbn [steps].
  destruct (post s id) as [s' r] eqn:Ep.
  destruct (post_spec _ _ _ _ _ Hinv Hid Ep) as (Hok & _ & Hinv').
  apply IH; try assumption.
  destruct r; cbn [acc_after]; try assumption.
  constructor; [|assumption].
  assert (Hm : must_accept acc id = true) by (apply Hok; reflexivity).
  apply must_accept_iff in Hm. tauto.
Qed.
