(* model/LocalIds.v: the handshake id (sequence number 0) is never (re)issued by a NEW_CONNECTION_ID frame:
   every frame carries a sequence number >= 1. *)
From SQ Require Import lib.Base lib.ListX gen.Gen_C13 model.LocalIds proofs.LocalIdsProofs.
Local Open Scope N_scope.

Definition quiet (i : info) : Prop := match ist i with Act | PRetConf _ | PRemoval _ => True | _ => False end.
Definition good0 (i : info) : Prop := iseq i = 0 -> quiet i.
Record ZInv (r : reg) : Prop := { z_nseq : 1 <= nseq r; z_good : Forall good0 (infos r) }.

Definition st0 (i i' : info) : Prop := iseq i' = iseq i /\ (quiet i -> quiet i').
Lemma st0_refl i : st0 i i. Proof. split; auto. Qed.
Lemma st0_all_refl l : Forall2 st0 l l. Proof. induction l; constructor; auto using st0_refl. Qed.
Lemma st0_good l l' : Forall2 st0 l l' -> Forall good0 l -> Forall good0 l'.
Proof.
  induction 1 as [|i i' l l' (E & Q) _ IH]; intros F; constructor; inversion F; subst; auto.
  unfold good0 in *. rewrite E. auto.
Qed.
Lemma st0_set i s : (quiet i -> match s with Act | PRetConf _ | PRemoval _ => True | _ => False end) -> st0 i (set_st i s).
Proof. intros H. split; auto. Qed.
Lemma st0_map (f : info -> info) l : (forall i, st0 i (f i)) -> Forall2 st0 l (map f l).
Proof. intros H. induction l; cbn [map]; constructor; auto. Qed.

Lemma can_tx_not_quiet i c : can_tx (tx_int i) c = true -> ~ quiet i.
Proof. unfold tx_int, quiet. destruct (ist i); auto; rewrite can_tx_0; discriminate. Qed.

Lemma transmit_in_st0 l p constraint cap pn : Forall2 st0 l (fst (transmit_in l p constraint cap pn)).
Proof.
  revert cap. induction l as [|i t IH]; intros cap; cbn [transmit_in]; [constructor|].
  destruct (can_tx (tx_int i) constraint) eqn:Ec.
  - destruct (0 <? cap).
    + specialize (IH (cap - 1)). destruct (transmit_in t p constraint (cap - 1) pn). cbn [fst] in *. constructor; auto.
      apply st0_set. intros Q. exfalso. eapply can_tx_not_quiet; eauto.
    + specialize (IH cap). destruct (transmit_in t p constraint cap pn). cbn [fst] in *. constructor; auto using st0_refl.
  - specialize (IH cap). destruct (transmit_in t p constraint cap pn). cbn [fst] in *. constructor; auto using st0_refl.
Qed.

Lemma retire_in_st0 l sq dcid removal : Forall2 st0 l (snd (retire_in l sq dcid removal)).
Proof.
  induction l as [|i t IH]; cbn [retire_in]; [constructor|].
  destruct ((match ist i with PRemoval _ => false | _ => true end) && (iseq i =? sq)).
  - destruct (iid i =? dcid); cbn [snd]; constructor; auto using st0_refl, st0_all_refl. apply st0_set; auto.
  - destruct (retire_in t sq dcid removal). cbn [snd] in *. constructor; auto using st0_refl.
Qed.

Lemma retire_hs_st0 l l' : retire_hs l = Some l' -> Forall2 st0 l l'.
Proof.
  revert l'. induction l as [|i t IH]; intros l'; cbn [retire_hs]; [discriminate|].
  destruct ((iseq i =? 0) && negb (is_retired i)).
  - intros [= <-]. constructor; auto using st0_all_refl. apply st0_set; auto.
  - destruct (retire_hs t); cbn [option_map]; [|discriminate]. intros [= <-]. constructor; auto using st0_refl.
Qed.

Lemma st0_zinv r r' : ZInv r -> Forall2 st0 (infos r) (infos r') -> nseq r' = nseq r -> ZInv r'.
Proof. intros [A B] K E. constructor; [now rewrite E|eapply st0_good; eauto]. Qed.

Lemma on_timeout_zinv r m ts : ZInv r -> ZInv (fst (on_timeout r m ts)).
Proof.
  intros H. unfold on_timeout. destruct (match timer r with Some t => has_elapsed t ts | None => false end); [|exact H].
  rewrite retire_fold. cbn [app fst]. destruct H as [A B]. constructor; cbn [nseq infos]; auto.
  assert (G : Forall good0 (map (ready_map ts) (infos r))).
  { eapply st0_good; [|exact B]. apply st0_map. intros i. unfold ready_map. destruct (is_retire_ready i ts); [|apply st0_refl].
    apply st0_set; auto. }
  clear -G. induction G; cbn [filter]; [constructor|]. destruct (negb _); auto.
Qed.

Lemma register_zinv r m c id e tok : ZInv r -> ZInv (snd (fst (register r m c id e tok))).
Proof.
  intros H. unfold register. destruct (existsb _ _); [exact H|]. destruct (map_get m id); [exact H|]. cbn [fst snd].
  destruct H as [A B]. constructor; cbn [nseq infos]; [lia|]. apply Forall_app. split; auto. repeat constructor.
  unfold good0. cbn [iseq]. lia.
Qed.

Lemma register_n_zinv n : forall first s c k r a b, ZInv r ->
  let '(s', k', r', o) := register_n n first s c k r a b in ZInv r' /\ conns s' = conns s.
Proof.
  induction n as [|n IH]; intros first s c k r a b H; cbn [register_n]; [auto|].
  set (id := match (if first && (0 <? b)%Z then _ else None) with Some x => x | None => ID_BASE + nids s end).
  pose proof (register_zinv r (idm s) c id (expiry a (now s)) (TOK_BASE + nids s) H) as H1.
  destruct (register r (idm s) c id (expiry a (now s)) (TOK_BASE + nids s)) as [[code r'] m']. cbn [fst snd] in *.
  match goal with |- context [register_n n false ?s1 c ?k1 r' a b] =>
    specialize (IH false s1 c k1 r' a b H1); destruct (register_n n false s1 c k1 r' a b) as [[[s'' k''] r''] o] end.
  cbn [conns] in IH. exact IH.
Qed.

Definition GZ (s : st) : Prop := Forall (fun k => match creg k with Some r => ZInv r | None => True end) (conns s).

Lemma step_gz s o : GZ s -> GZ (fst (step s o)).
Proof.
  intros HG. destruct o as [[[[code0 c0] a] b] d]. unfold step.
  set (c := N.to_nat (zmod c0 (Z.of_nat (length (conns s))))).
  set (k := nth c (conns s) dummy_conn).
  assert (Hl : match creg k with Some r => ZInv r | None => True end).
  { exact (Forall_nth_d (fun k => match creg k with Some r => ZInv r | None => True end) dummy_conn (conns s) c HG I). }
  destruct (creg k) as [r|] eqn:Er; [|exact HG].
  assert (upd1 : forall k' r', creg k' = Some r' -> ZInv r' -> GZ (set_conn s c k')).
  { intros k' r' Hk' H'. unfold GZ, set_conn. cbn [conns]. apply Forall_set_nth; auto. now rewrite Hk'. }
  assert (Hc : zmod code0 10 < 10).
  { unfold zmod, zN. pose proof (Z.mod_pos_bound code0 10 ltac:(lia)). lia. }
  remember (zmod code0 10) as code eqn:Ecode. clear Ecode.
  assert (Hcases : code = 0 \/ code = 1 \/ code = 2 \/ code = 3 \/ code = 4 \/ code = 5 \/ code = 6 \/ code = 7 \/ code = 8 \/ code = 9) by lia.
  destruct Hcases as [->|[->|[->|[->|[->|[->|[->|[->|[->| ->]]]]]]]]]; cbn [fst].
  - exact HG.
  - destruct (lset k); [exact HG|]. cbn [fst]. eapply upd1; [reflexivity|].
    apply (st0_zinv r); auto. apply st0_all_refl.
  - set (n := N.min (N.min (interest r) (N.max (zmod d 4) 1)) (MAX_IDS - nids s)).
    pose proof (register_n_zinv (N.to_nat n) true s c k r a b Hl) as H.
    destruct (register_n (N.to_nat n) true s c k r a b) as [[[s1 k1] r1] o1]. destruct H as (I1 & I3).
    cbn [fst]. unfold GZ, set_conn. cbn [conns]. rewrite I3. apply Forall_set_nth; [exact HG|]. cbn [with_reg creg]. exact I1.
  - match goal with |- context [on_retire r ?sq ?dc ?rtt ?nw] =>
      pose proof (retire_in_st0 (infos r) sq dc (nw + rtt * rtt_multiplier)) as K;
      assert (HL' : ZInv (snd (on_retire r sq dc rtt nw)));
      [unfold on_retire; destruct (nseq r <=? sq); [exact Hl|];
       destruct (retire_in (infos r) sq dc (nw + rtt * rtt_multiplier)); cbn [snd] in *;
       apply (st0_zinv r); auto|];
      destruct (on_retire r sq dc rtt nw) as [rc r'] end.
    cbn [snd] in HL'. destruct (rc =? 0); cbn [fst].
    + eapply upd1; [reflexivity|exact HL'].
    + unfold GZ, close_conn. cbn [conns]. apply Forall_set_nth; auto. exact I.
  - pose proof (transmit_in_st0 (infos r) (rpt r) (zmod a 4) (zmod b 5) (cpn k)) as K.
    assert (HL' : ZInv (fst (on_transmit r (zmod a 4) (zmod b 5) (cpn k)))).
    { unfold on_transmit. destruct (can_tx _ _); [|exact Hl].
      destruct (transmit_in (infos r) (rpt r) (zmod a 4) (zmod b 5) (cpn k)). cbn [fst] in *. apply (st0_zinv r); auto. }
    destruct (on_transmit r (zmod a 4) (zmod b 5) (cpn k)) as [r' fs]. cbn [fst] in *.
    eapply upd1; [reflexivity|exact HL'].
  - eapply upd1; [reflexivity|]. apply (st0_zinv r); auto. unfold on_ack. cbn [infos]. apply st0_map.
    intros i. destruct (ist i) eqn:E; try apply st0_refl. destruct (in_range _ _ pn); [|apply st0_refl].
    split; auto. intros _. exact I.
  - eapply upd1; [reflexivity|]. apply (st0_zinv r); auto. unfold on_loss. cbn [infos]. apply st0_map.
    intros i. destruct (ist i) eqn:E; try apply st0_refl. destruct (in_range _ _ pn); [|apply st0_refl].
    apply st0_set. unfold quiet. rewrite E. tauto.
  - pose proof (on_timeout_zinv r (idm s) (now s + N.min (zN (Z.max a 0)) MAX_STEP) Hl) as H.
    destruct (on_timeout r (idm s) (now s + N.min (zN (Z.max a 0)) MAX_STEP)) as [r' m']. cbn [fst] in *.
    unfold GZ. cbn [conns]. apply Forall_set_nth; [exact HG|]. cbn [with_reg creg]. exact H.
  - eapply upd1; [reflexivity|]. unfold on_handshake_confirmed. destruct (rot r); [|exact Hl].
    destruct (retire_hs (infos r)) as [l|] eqn:E; [|exact Hl].
    apply (st0_zinv r); auto. cbn [infos]. eapply retire_hs_st0; eauto.
  - unfold GZ, close_conn. cbn [conns]. apply Forall_set_nth; auto. exact I.
Qed.

Lemma open_conns_gz n : forall l s, GZ s -> GZ (fst (open_conns n l s)).
Proof.
  induction n as [|n IH]; intros l s G; cbn [open_conns]; [exact G|].
  apply IH. unfold GZ in *. cbn [conns]. apply Forall_app. split; [exact G|]. constructor; [|constructor].
  cbn [creg]. constructor; cbn [new_reg nseq infos]; [lia|]. constructor; [|constructor]. unfold good0, quiet. cbn [ist]. auto.
Qed.

Lemma transmit_in_frames_tx l p constraint cap pn f :
  In f (snd (transmit_in l p constraint cap pn)) ->
  exists i, In i l /\ f = (iseq i, p, iid i, itok i) /\ can_tx (tx_int i) constraint = true.
Proof.
  revert cap. induction l as [|i t IH]; intros cap; cbn [transmit_in]; [intros []|].
  destruct (can_tx (tx_int i) constraint) eqn:Ec.
  - destruct (0 <? cap).
    + specialize (IH (cap - 1)). destruct (transmit_in t p constraint (cap - 1) pn) as [t' fs]. cbn [snd] in *.
      intros [<-|Hin].
      * exists i. repeat split; [now left|auto].
      * destruct (IH Hin) as (j & Hj & Hf). exists j. split; [now right|auto].
    + specialize (IH cap). destruct (transmit_in t p constraint cap pn). cbn [snd] in *.
      intros Hin. destruct (IH Hin) as (j & Hj & Hf). exists j. split; [now right|auto].
  - specialize (IH cap). destruct (transmit_in t p constraint cap pn). cbn [snd] in *.
    intros Hin. destruct (IH Hin) as (j & Hj & Hf). exists j. split; [now right|auto].
Qed.

Lemma reach_gz case ops : GZ (state_after (fst (init case)) ops).
Proof.
  assert (G0 : GZ (fst (init case))) by (unfold init; apply open_conns_gz; constructor).
  revert G0. generalize (fst (init case)). induction ops as [|o t IH]; intros s G; cbn [state_after fold_left]; [exact G|].
  apply IH. apply step_gz; auto.
Qed.

(* every NEW_CONNECTION_ID frame of every reachable state carries a sequence number >= 1 *)
Theorem frames_seq_ge_1 case ops c r constraint cap pn f :
  creg (nth c (conns (state_after (fst (init case)) ops)) dummy_conn) = Some r ->
  In f (snd (on_transmit r constraint cap pn)) ->
  let '(sq, _, _, _) := f in 1 <= sq.
Proof.
  intros Hr Hin.
  pose proof (reach_gz case ops) as G.
  pose proof (Forall_nth_d (fun k => match creg k with Some r => ZInv r | None => True end) dummy_conn _ c G I) as X.
  cbn beta in X. rewrite Hr in X. destruct X as [_ B].
  unfold on_transmit in Hin. destruct (can_tx (tx_interest r) constraint); [|destruct Hin].
  pose proof (transmit_in_frames_tx (infos r) (rpt r) constraint cap pn f) as T.
  destruct (transmit_in (infos r) (rpt r) constraint cap pn). cbn [snd] in *.
  destruct (T Hin) as (i & Hi & -> & Htx).
  destruct (N.eq_dec (iseq i) 0) as [E|]; [|lia]. exfalso.
  rewrite Forall_forall in B. exact (can_tx_not_quiet _ _ Htx (B i Hi E)).
Qed.
