(* No lost wake-up, top level: the wake invariants hold in every reachable state of every schedule,
   and imply the statement of SpscWake.no_lost_wakeup_at. *)
From SQ Require Import lib.Base lib.ListX gen.Gen_C17.
From SQ Require Import model.Spsc proofs.SpscClose proofs.SpscData proofs.SpscProofs proofs.SpscEnum proofs.SpscWake proofs.SpscWakeInv proofs.SpscWakeRP proofs.SpscWakeRC proofs.SpscWakeSP proofs.SpscWakeSC.
Local Open Scope N_scope.

Lemma winv_r_pbegin : forall op s, ppc s = Idle -> winv_r s = true -> winv_r (pbegin op s) = true.
Proof.
  intros op s Hp H. dst s. cbn in Hp. subst. destruct xrw as [rr rk rs].
  unfold winv_r, pbegin in *. revert H. apply implb_elim.
  destruct op; st_cbn; gen_bools; enum_finish.
Qed.
Lemma winv_r_cbegin : forall op s, cpc s = Idle -> winv_r s = true -> winv_r (cbegin op s) = true.
Proof.
  intros op s Hp H. dst s. cbn in Hp. subst. destruct xrw as [rr rk rs].
  unfold winv_r, cbegin in *. revert H. apply implb_elim.
  destruct op; st_cbn; gen_bools; enum_finish.
Qed.
Lemma winv_s_pbegin : forall cap op s, ppc s = Idle -> winv_s cap s = true -> winv_s cap (pbegin op s) = true.
Proof.
  intros cap op s Hp H. dst s. cbn in Hp. subst. destruct xsw as [sr sk ss].
  unfold winv_s, pbegin in *. revert H. apply implb_elim.
  destruct op; st_cbn; gen_bools; enum_finish.
Qed.
Lemma winv_s_cbegin : forall cap op s, cpc s = Idle -> winv_s cap s = true -> winv_s cap (cbegin op s) = true.
Proof.
  intros cap op s Hp H. dst s. cbn in Hp. subst. destruct xsw as [sr sk ss].
  unfold winv_s, cbegin in *. revert H. apply implb_elim.
  destruct op; st_cbn; gen_bools; enum_finish.
Qed.

Record wgood (cap : N) (s : st) : Prop := mkWG {
  wg_good : good cap s;
  wg_r : winv_r s = true;
  wg_s : winv_s cap s = true
}.

Lemma wgood_sys_step : forall cap y t, 2 <= cap -> wgood cap (y_st y) -> wgood cap (y_st (sys_step false cap y t)).
Proof.
  intros cap [s pp cp] t Hc [G R S]. pose proof (g_c _ _ G) as C.
  pose proof (good_sys_step cap (mkSys s pp cp) t Hc G) as G'.
  constructor; [exact G'| |]; clear G'; unfold sys_step; cbn [y_st y_pp y_cp] in *; destruct t.
  - destruct (ppc s) eqn:Ep; try (cbn [y_st]; apply winv_r_pstep; auto).
    destruct pp; cbn [y_st]; auto. apply winv_r_pbegin; auto.
  - destruct (cpc s) eqn:Ep; try (cbn [y_st]; apply winv_r_cstep; auto).
    destruct cp; cbn [y_st]; auto. apply winv_r_cbegin; auto.
  - destruct (ppc s) eqn:Ep; try (cbn [y_st]; apply winv_s_pstep; auto).
    destruct pp; cbn [y_st]; auto. apply winv_s_pbegin; auto.
  - destruct (cpc s) eqn:Ep; try (cbn [y_st]; apply winv_s_cstep; auto).
    destruct cp; cbn [y_st]; auto. apply winv_s_cbegin; auto.
Qed.

Lemma wgood_fold : forall cap sched y, 2 <= cap -> wgood cap (y_st y) ->
  wgood cap (y_st (fold_left (sys_step false cap) sched y)).
Proof.
  intros cap sched. induction sched as [|t r IH]; intros y Hc G; cbn [fold_left]; auto.
  apply IH; auto. apply wgood_sys_step; auto.
Qed.

Theorem wgood_exec : forall cap sched pp cp, 2 <= cap -> wgood cap (y_st (exec false cap sched pp cp)).
Proof.
  intros. unfold exec. apply wgood_fold; auto. cbn [y_st].
  destruct (winv_init cap). constructor; auto. apply good_init; auto.
Qed.

(* the invariant implies the statement *)
Lemma winv_r_no_lost : forall s, winv_r s = true ->
  implb (parked_r s && nonempty_or_closed s) (wake_pending_r s) = true.
Proof.
  intros s H. dst s. destruct xrw as [rr rk rs].
  unfold winv_r, parked_r, nonempty_or_closed, wake_pending_r, is_empty in *. st_cbn.
  revert H. apply implb_elim. gen_bools. enum_finish.
Qed.
Lemma winv_s_no_lost : forall cap s, winv_s cap s = true ->
  implb (parked_s s && space_or_closed cap s) (wake_pending_s s) = true.
Proof.
  intros cap s H. dst s. destruct xsw as [sr sk ss].
  unfold winv_s, parked_s, space_or_closed, wake_pending_s in *. st_cbn.
  revert H. apply implb_elim. gen_bools. enum_finish.
Qed.

(* In every reachable state of every schedule, for every capacity >= 2 and all programs: a parked
   receiver (last poll Pending, not notified since) facing a non-empty or closed queue has a wake in
   flight that will invoke its waker; symmetrically a parked sender facing free space or a closed
   channel. *)
Theorem no_lost_wakeup : forall cap sched pp cp, 2 <= cap ->
  no_lost_wakeup_at cap (y_st (exec false cap sched pp cp)) = true.
Proof.
  intros cap sched pp cp Hc. destruct (wgood_exec cap sched pp cp Hc) as [G R S].
  unfold no_lost_wakeup_at. rewrite (winv_r_no_lost _ R), (winv_s_no_lost _ _ S). reflexivity.
Qed.


(* ---------------------------------------------------------------------------------------- *)
(* The same theorems stated for the step order the source has (Spsc.code_fixed, generated)   *)
(* ---------------------------------------------------------------------------------------- *)
Lemma code_unfixed : code_fixed = false.
Proof. reflexivity. Qed.

Theorem fifo_exactly_once_code : forall cap sched pp cp, 2 <= cap ->
  let s := y_st (exec code_fixed cap sched pp cp) in
  prefix_of (received s) (pushed s) /\ (cpc s = Idle -> ccode s = 4 -> received s = pushed s).
Proof. rewrite code_unfixed. exact fifo_exactly_once. Qed.

Theorem no_unwritten_slot_code : forall cap sched pp cp, 2 <= cap ->
  let s := y_st (exec code_fixed cap sched pp cp) in
  bad s = false /\
  (cpc s = Work ->
     hpub s <= nr s /\ nr s < ctc s /\ ctc s <= npub s /\ npub s <= nw s /\
     head s = hpub s mod cap /\ tail s = npub s mod cap /\ ch s = nr s mod cap /\
     nth (N.to_nat (ch s)) (slots s) None = Some (nth (N.to_nat (nr s)) (pushed s) 0)).
Proof. rewrite code_unfixed. exact no_unwritten_slot. Qed.

Theorem no_lost_wakeup_code : forall cap sched pp cp, 2 <= cap ->
  no_lost_wakeup_at cap (y_st (exec code_fixed cap sched pp cp)) = true.
Proof. rewrite code_unfixed. exact no_lost_wakeup. Qed.

(* Operation granularity (what the scheduled correspondence observes): when the peer is quiescent
   (idle between operations, or gone) nobody can have a wake in flight, so a parked task faces an
   empty (resp. full) and still open queue. *)
Theorem quiescent_wake : forall cap sched pp cp, 2 <= cap ->
  let s := y_st (exec code_fixed cap sched pp cp) in
  (quiet (ppc s) = true -> parked_r s = true -> nonempty_or_closed s = false) /\
  (quiet (cpc s) = true -> parked_s s = true -> space_or_closed cap s = false).
Proof.
  intros cap sched pp cp Hc s. pose proof (no_lost_wakeup_code cap sched pp cp Hc) as H. fold s in H.
  unfold no_lost_wakeup_at in H. apply andb_true_iff in H. destruct H as [Hr Hs]. split.
  - intros Hq Hp. rewrite Hp in Hr. destruct (nonempty_or_closed s); auto. cbn in Hr.
    unfold wake_pending_r in Hr. destruct (ppc s); cbn in Hq; discriminate.
  - intros Hq Hp. rewrite Hp in Hs. destruct (space_or_closed cap s); auto. cbn in Hs.
    unfold wake_pending_s in Hs. destruct (cpc s); cbn in Hq; discriminate.
Qed.
