(* Proofs about the stream-count / stream-state model (model/StreamCtl.v). *)
From SQ Require Import lib.Base gen.Gen_C04 model.FlowRecv model.StreamCtl proofs.FlowRecvProofs.
Local Open Scope N_scope.

(* ---------- the token bucket never hands out more than was asked for, and touches nothing else ---------- *)
Lemma bucket_timeout_same c now :
  lim (bucket_timeout c now) = lim c /\ sy (bucket_timeout c now) = sy c
  /\ opn (bucket_timeout c now) = opn c /\ cls (bucket_timeout c now) = cls c.
Proof.
  unfold bucket_timeout. destruct (bcur c <? lim c); [|auto].
  destruct (btimer c) as [t|]; [destruct (t <=? now)|]; cbn; auto.
Qed.

Lemma bucket_take_spec c a now :
  let '(r, c') := bucket_take c a now in
  r <= a /\ lim c' = lim c /\ sy c' = sy c /\ opn c' = opn c /\ cls c' = cls c.
Proof.
  unfold bucket_take. destruct (a =? 0) eqn:E.
  - pose proof (bucket_timeout_same c now) as (?&?&?&?). repeat split; try assumption. lia.
  - set (c1 := if bcur c <? a then bucket_timeout c now else c).
    assert (H1 : lim c1 = lim c /\ sy c1 = sy c /\ opn c1 = opn c /\ cls c1 = cls c).
    { unfold c1. destruct (bcur c <? a); [apply bucket_timeout_same|auto]. }
    destruct H1 as (A&B&C&D).
    match goal with |- context [bucket_timeout ?x now] => pose proof (bucket_timeout_same x now) as (A'&B'&C'&D') end.
    cbn in A', B', C', D'. repeat split; try congruence. apply N.le_min_l.
Qed.

(* ---------- RemoteInitiated: the MAX_STREAMS value on offer is at most closed + limit ---------- *)
Definition RInv (c : rctl) : Prop :=
  lim c <= max_streams_max /\
  lim c <= latest (sy c) /\ latest (sy c) <= cls c + lim c /\ latest (sy c) <= max_streams_max.

Lemma RInv_new l : l <= max_streams_max -> RInv (rctl_new l).
Proof. intro Hl. unfold RInv, rctl_new, ivs_new; cbn. rewrite latest_request; cbn. lia. Qed.

Lemma RInv_timeout c now : RInv c -> RInv (rctl_timeout c now).
Proof.
  intros (H0 & H1 & H2 & H3). unfold rctl_timeout.
  pose proof (bucket_take_spec c (cls c - (latest (sy c) - lim c)) now) as B.
  destruct (bucket_take c (cls c - (latest (sy c) - lim c)) now) as [r c1].
  destruct B as (Br & Bl & Bs & Bo & Bc).
  destruct (r =? 0) eqn:E.
  - unfold RInv. rewrite Bl, Bs, Bc. auto.
  - apply N.eqb_neq in E. unfold RInv; cbn. rewrite latest_update, Bl, Bc.
    unfold sat_add.
    assert (latest (sy c) - lim c + lim c = latest (sy c)) as EQ by lia.
    rewrite EQ.
    assert (HV : max_streams_max <= varint_max) by (unfold max_streams_max, varint_max; lia).
    rewrite (N.min_l (latest (sy c)) varint_max) by lia.
    split; [exact H0|]. split; [|split].
    + apply N.min_glb; [apply N.min_glb; lia|lia].
    + etransitivity; [apply N.le_min_l|]. etransitivity; [apply N.le_min_l|]. lia.
    + apply N.le_min_r.
Qed.

Lemma RInv_set_sy c y : RInv c -> latest y = latest (sy c) -> RInv (rctl_set_sy c y).
Proof. intros (H0 & H1 & H2 & H3) E. unfold RInv; cbn. rewrite E. auto. Qed.

Lemma RInv_open c n c' : RInv c -> rctl_open c n = Some c' -> RInv c'.
Proof.
  intros H. unfold rctl_open. destruct (latest (sy c) <=? n); [discriminate|].
  intro E; inversion E; subst. exact H.
Qed.

Lemma RInv_close c : RInv c -> RInv (rctl_close c).
Proof. intros (H0 & H1 & H2 & H3). unfold RInv; cbn. repeat split; try assumption. lia. Qed.

Lemma RInv_transmit c now pn : RInv c ->
  RInv (snd (rctl_transmit c now pn))
  /\ (fst (rctl_transmit c now pn) = (-1)%Z
      \/ exists v, fst (rctl_transmit c now pn) = Nz v /\ v <= cls c + lim c /\ v <= max_streams_max).
Proof.
  intros H. unfold rctl_transmit. pose proof (RInv_timeout c now H) as H'.
  assert (Hc : cls (rctl_timeout c now) = cls c /\ lim (rctl_timeout c now) = lim c).
  { unfold rctl_timeout.
    pose proof (bucket_take_spec c (cls c - (latest (sy c) - lim c)) now) as B.
    destruct (bucket_take c (cls c - (latest (sy c) - lim c)) now) as [r c1].
    destruct B as (Br & Bl & Bs & Bo & Bc). destruct (r =? 0); cbn; auto. }
  destruct Hc as [Hc Hl].
  set (c1 := rctl_timeout c now) in *.
  pose proof (transmit_latest (sy c1) pn) as [TL TV].
  destruct (ivs_transmit (sy c1) pn) as [v y]. cbn in TL, TV.
  destruct (0 <? opn c1); cbn.
  - split; [apply RInv_set_sy; assumption|].
    destruct TV as [TV|TV]; rewrite TV; cbn; [left; reflexivity|right].
    exists (latest (sy c1)). destruct H' as (A0&A&B&C). rewrite Hc, Hl in *. auto.
  - split; [exact H'|left; reflexivity].
Qed.

(* ---------- streams_rejects_exactly ---------- *)

(* when is a frame of kind k for the n-th stream of class t (0 peer bidi, 1 peer uni, 2 local
   bidi, 3 local uni) rejected, and with which code *)
Definition srejects (s : sst) (t n k : N) (code : N) : Prop :=
  (t = 2 /\ lob s <= n /\ code = 5)                                   (* local stream never opened *)
  \/ (t = 3 /\ lou s <= n /\ code = 5)
  \/ (t = 0 /\ opn (rb s) <= n /\ latest (sy (rb s)) <= n /\ code = 4)   (* beyond the stream limit *)
  \/ (t <> 0 /\ t <> 2 /\ t <> 3 /\ opn (ru s) <= n /\ latest (sy (ru s)) <= n /\ code = 4)
  \/ (t <> 0 /\ t <> 2 /\ t <> 3 /\ (n < opn (ru s) \/ n < latest (sy (ru s))) /\ k = 4
      /\ nth (N.to_nat n) (uni_extend (uni s) n) UGone <> UGone /\ code = 5).  (* MAX_STREAM_DATA, receive-only *)

Lemma C_STATE_5 : C_STATE = 5. Proof. reflexivity. Qed.
Lemma C_LIMIT_4 : C_LIMIT = 4. Proof. reflexivity. Qed.

Lemma streams_rejects_exactly s t n k :
  opn (rb s) <= latest (sy (rb s)) ->
  match snd (sframe s t n k) with
  | Some code => srejects s t n k code
  | None => forall code, ~ srejects s t n k code
  end.
Proof.
  intro Hop. unfold sframe, srejects.
  destruct (t =? 2) eqn:E2.
  { apply N.eqb_eq in E2. subst t. cbn. destruct (lob s <=? n) eqn:E; [apply N.leb_le in E|apply N.leb_gt in E].
    - left. rewrite C_STATE_5. auto.
    - intros code [(_&?&_)|[(?&_)|[(?&_)|[(_&?&_)|(_&?&_)]]]]; try lia; try discriminate; congruence. }
  apply N.eqb_neq in E2.
  destruct (t =? 3) eqn:E3.
  { apply N.eqb_eq in E3. subst t. cbn. destruct (lou s <=? n) eqn:E; [apply N.leb_le in E|apply N.leb_gt in E].
    - right; left. rewrite C_STATE_5. auto.
    - intros code [(?&_)|[(_&?&_)|[(?&_)|[(_&_&?&_)|(_&_&?&_)]]]]; try lia; try discriminate; congruence. }
  apply N.eqb_neq in E3.
  destruct (t =? 0) eqn:E0.
  { apply N.eqb_eq in E0. subst t. unfold rctl_open.
    destruct (latest (sy (rb s)) <=? n) eqn:E; [apply N.leb_le in E|apply N.leb_gt in E].
    - destruct (n <? opn (rb s)) eqn:E'; [apply N.ltb_lt in E'; lia|apply N.ltb_ge in E'].
      cbn. right; right; left. rewrite C_LIMIT_4. auto.
    - cbn. intros code [(?&_)|[(?&_)|[(_&_&?&_)|[(?&_)|(?&_)]]]]; try lia; try discriminate; congruence. }
  apply N.eqb_neq in E0.
  (* peer-initiated unidirectional *)
  destruct (n <? opn (ru s)) eqn:EO; [apply N.ltb_lt in EO|apply N.ltb_ge in EO].
  - destruct (nth (N.to_nat n) (uni_extend (uni s) n) UGone) eqn:EU;
      try (destruct (k =? 4) eqn:EK; [apply N.eqb_eq in EK|apply N.eqb_neq in EK]; cbn;
           [right; right; right; right; rewrite C_STATE_5; repeat split; auto; discriminate
           |intros code [(?&_)|[(?&_)|[(?&_)|[(_&_&_&?&_)|(_&_&_&_&?&_)]]]]; try lia; congruence]).
    cbn. intros code [(?&_)|[(?&_)|[(?&_)|[(_&_&_&?&_)|(_&_&_&_&_&?&_)]]]]; try lia; congruence.
  - unfold rctl_open. destruct (latest (sy (ru s)) <=? n) eqn:E; [apply N.leb_le in E|apply N.leb_gt in E].
    + cbn. right; right; right; left. rewrite C_LIMIT_4. repeat split; auto.
    + destruct (nth (N.to_nat n) (uni_extend (uni s) n) UGone) eqn:EU;
        try (destruct (k =? 4) eqn:EK; [apply N.eqb_eq in EK|apply N.eqb_neq in EK]; cbn;
             [right; right; right; right; rewrite C_STATE_5; repeat split; auto; discriminate
             |intros code [(?&_)|[(?&_)|[(?&_)|[(_&_&_&_&?&_)|(_&_&_&_&?&_)]]]]; try lia; congruence]).
      cbn. intros code [(?&_)|[(?&_)|[(?&_)|[(_&_&_&_&?&_)|(_&_&_&_&_&?&_)]]]]; try lia; congruence.
Qed.

(* ---------- every reachable state ---------- *)
Definition StInv (s : sst) : Prop := RInv (rb s) /\ RInv (ru s).

Lemma sframe_inv s t n k : StInv s -> StInv (fst (sframe s t n k)).
Proof.
  intros [Hb Hu]. unfold sframe.
  destruct (t =? 2); [split; assumption|]. destruct (t =? 3); [split; assumption|].
  destruct (t =? 0).
  - destruct (rctl_open (rb s) n) as [c|] eqn:E.
    + split; cbn; [exact (RInv_open _ _ _ Hb E)|exact Hu].
    + destruct (n <? opn (rb s)); split; assumption.
  - assert (HO : forall c, (if n <? opn (ru s) then Some (ru s) else rctl_open (ru s) n) = Some c -> RInv c).
    { intros c. destruct (n <? opn (ru s)); [intro E; inversion E; subst; exact Hu|intro E; exact (RInv_open _ _ _ Hu E)]. }
    destruct (if n <? opn (ru s) then Some (ru s) else rctl_open (ru s) n) as [c|]; [|split; assumption].
    specialize (HO c eq_refl).
    destruct (nth (N.to_nat n) (uni_extend (uni s) n) UGone); try (destruct (k =? 4)); split; cbn; assumption.
Qed.

Lemma sstep_inv s o : StInv s -> StInv (fst (fst (sstep s o))).
Proof.
  intros H. pose proof H as [Hb Hu]. destruct o; cbn [sstep].
  - pose proof (sframe_inv s t n k H) as HF. destruct (sframe s t n k) as [s' [code|]]; exact HF.
  - destruct bidi; split; cbn; assumption.
  - unfold sread. destruct (uget s n) as [[| | |]|]; cbn; try (split; assumption);
      split; cbn; try assumption; apply RInv_close; assumption.
  - split; cbn; assumption.
  - pose proof (RInv_transmit (rb s) (snow s) (spn s) Hb) as [Tb _].
    pose proof (RInv_transmit (ru s) (snow s) (spn s) Hu) as [Tu _].
    destruct (rctl_transmit (rb s) (snow s) (spn s)) as [vb cb].
    destruct (rctl_transmit (ru s) (snow s) (spn s)) as [vu cu]. split; cbn; assumption.
  - split; cbn; apply RInv_set_sy; try assumption; apply latest_ack.
  - split; cbn; apply RInv_set_sy; try assumption; apply latest_loss.
Qed.

Definition sexec (s : sst) (ops : list sop) : sst := fold_left (fun s o => fst (fst (sstep s o))) ops s.

Lemma sexec_inv : forall ops s, StInv s -> StInv (sexec s ops).
Proof. induction ops as [|o r IH]; intros s H; cbn; [exact H|]. apply IH, sstep_inv, H. Qed.

(* after any operation sequence: whatever a transmission writes into MAX_STREAMS is at most
   closed + limit (and at most 2^60, for limits up to 2^60) *)
Lemma max_streams_bound lb lu ops :
  lb <= max_streams_max -> lu <= max_streams_max ->
  let s := sexec (sinit lb lu) ops in
  forall vb vu s', sstep s STransmit = (s', [vb; vu], false) ->
  (vb = (-1)%Z \/ exists v, vb = Nz v /\ v <= cls (rb s) + lim (rb s) /\ v <= max_streams_max)
  /\ (vu = (-1)%Z \/ exists v, vu = Nz v /\ v <= cls (ru s) + lim (ru s) /\ v <= max_streams_max).
Proof.
  intros Hlb Hlu s vb vu s' E.
  assert (HI : StInv s) by (apply sexec_inv; split; apply RInv_new; assumption).
  destruct HI as [Hb Hu]. cbn [sstep] in E.
  pose proof (RInv_transmit (rb s) (snow s) (spn s) Hb) as [_ Tb].
  pose proof (RInv_transmit (ru s) (snow s) (spn s) Hu) as [_ Tu].
  destruct (rctl_transmit (rb s) (snow s) (spn s)) as [vb' cb].
  destruct (rctl_transmit (ru s) (snow s) (spn s)) as [vu' cu].
  inversion E; subst. cbn in Tb, Tu. split; assumption.
Qed.
