(* Proofs about the reference varint codec (RFC 9000 section 16) and the table of varint/table.rs *)
From SQ Require Import lib.Base gen.Gen_C05 model.Varint.
From Coq Require Import ZifyBool ZifyNat ZifyN.
Local Open Scope N_scope.
Import Varint.

Ltac dm := Z.div_mod_to_equations.

(* ------------------------------------------------------------------ bytes *)
Lemma length_be_bytes : forall n x, length (be_bytes n x) = n.
Proof. induction n as [|n IH]; intros x; cbn [be_bytes length]; [reflexivity|]. now rewrite IH. Qed.

Lemma wf_be_bytes : forall n x, wf_bytes (be_bytes n x) = true.
Proof.
  induction n as [|n IH]; intros x; cbn [be_bytes wf_bytes forallb]; [reflexivity|].
  fold (wf_bytes (be_bytes n x)). rewrite IH, andb_true_r.
  apply N.ltb_lt. apply N.mod_lt. discriminate.
Qed.

Lemma pow256_succ : forall k, 256 ^ N.of_nat (S k) = 256 ^ N.of_nat k * 256.
Proof. intros k. rewrite Nat2N.inj_succ, N.pow_succ_r'. lia. Qed.

Lemma pow256_pos : forall k, 256 ^ k <> 0.
Proof. intros k. apply N.pow_nonzero. discriminate. Qed.

(* accumulating the n low-order bytes of x onto a gives a * 256^n + x mod 256^n *)
Lemma be_acc_be_bytes : forall n a x,
  be_acc a (be_bytes n x) = a * 256 ^ N.of_nat n + x mod 256 ^ N.of_nat n.
Proof.
  induction n as [|n IH]; intros a x.
  - cbn [be_bytes be_acc]. change (256 ^ N.of_nat 0) with 1. rewrite N.mod_1_r. lia.
  - cbn [be_bytes be_acc]. rewrite IH. rewrite pow256_succ.
    rewrite (N.mod_mul_r x (256 ^ N.of_nat n) 256) by (try apply pow256_pos; discriminate).
    lia.
Qed.

Lemma be_acc_app : forall l1 l2 a, be_acc a (l1 ++ l2) = be_acc (be_acc a l1) l2.
Proof. induction l1 as [|b t IH]; intros l2 a; cbn [app be_acc]; [reflexivity|]. apply IH. Qed.

Lemma be_acc_bound : forall l a, wf_bytes l = true ->
  be_acc a l < (a + 1) * 256 ^ N.of_nat (length l).
Proof.
  induction l as [|b t IH]; intros a Hwf.
  - cbn [be_acc length]. change (256 ^ N.of_nat 0) with 1. lia.
  - cbn [wf_bytes forallb] in Hwf. apply andb_true_iff in Hwf. destruct Hwf as [Hb Ht].
    apply N.ltb_lt in Hb. cbn [be_acc length]. specialize (IH (a * 256 + b) Ht).
    rewrite pow256_succ. eapply N.lt_le_trans; [exact IH|].
    replace ((a + 1) * (256 ^ N.of_nat (length t) * 256)) with (((a + 1) * 256) * 256 ^ N.of_nat (length t)) by lia.
    apply N.mul_le_mono_r. lia.
Qed.

Lemma wf_bytes_app : forall a b, wf_bytes (a ++ b) = wf_bytes a && wf_bytes b.
Proof. intros a b. unfold wf_bytes. apply forallb_app. Qed.

Lemma wf_firstn : forall n l, wf_bytes l = true -> wf_bytes (firstn n l) = true.
Proof.
  induction n as [|n IH]; intros [|b t] H; cbn [firstn wf_bytes forallb] in *; try reflexivity.
  apply andb_true_iff in H. destruct H as [Hb Ht]. rewrite Hb. cbn [andb]. now apply IH.
Qed.

Lemma wf_skipn : forall n l, wf_bytes l = true -> wf_bytes (skipn n l) = true.
Proof.
  induction n as [|n IH]; intros [|b t] H; cbn [skipn] in *; try assumption.
  cbn [wf_bytes forallb] in H. apply andb_true_iff in H. now apply IH.
Qed.

Lemma firstn_app_exact {A} : forall (l1 l2 : list A) n, n = length l1 -> firstn n (l1 ++ l2) = l1.
Proof. intros l1 l2 n ->. rewrite firstn_app, Nat.sub_diag, firstn_all. cbn [firstn]. apply app_nil_r. Qed.

Lemma skipn_app_exact {A} : forall (l1 l2 : list A) n, n = length l1 -> skipn n (l1 ++ l2) = l2.
Proof. intros l1 l2 n ->. rewrite skipn_app, Nat.sub_diag, skipn_all. reflexivity. Qed.

(* ------------------------------------------------------------------ vlen *)
Lemma vlen_cases : forall b, vlen b = 1%nat \/ vlen b = 2%nat \/ vlen b = 4%nat \/ vlen b = 8%nat.
Proof.
  intros b. unfold vlen. destruct (b / 64) as [|[p|p|]]; auto; destruct p; auto.
Qed.

Lemma vsize_cases : forall v, vsize v = 1%nat \/ vsize v = 2%nat \/ vsize v = 4%nat \/ vsize v = 8%nat.
Proof.
  intros v. unfold vsize.
  destruct (v <? 64); auto. destruct (v <? 16384); auto. destruct (v <? 1073741824); auto.
Qed.

(* ------------------------------------------------------------------ round trip *)
(* encoding on n bytes (n one of the four lengths, v within its usable bits) decodes back *)
Lemma roundtrip_n : forall k p v rest,
  (k = 0 /\ p = 0 \/ k = 1 /\ p = 1 \/ k = 3 /\ p = 2 \/ k = 7 /\ p = 3)%nat ->
  v < 2 ^ (8 * N.of_nat k + 6) ->
  vdecode (be_bytes (S k) (v + N.of_nat p * 2 ^ (8 * N.of_nat k + 6)) ++ rest) = Some (v, rest).
Proof.
  intros k p v rest Hk Hv.
  set (x := v + N.of_nat p * 2 ^ (8 * N.of_nat k + 6)).
  cbn [be_bytes app]. unfold vdecode.
  set (b := (x / 256 ^ N.of_nat k) mod 256).
  assert (Hpow : 2 ^ (8 * N.of_nat k + 6) = 64 * 256 ^ N.of_nat k).
  { rewrite N.pow_add_r. replace (8 * N.of_nat k) with (3 * N.of_nat k + 3 * N.of_nat k + 2 * N.of_nat k) by lia.
    destruct Hk as [[-> _]|[[-> _]|[[-> _]|[-> _]]]]; vm_compute; reflexivity. }
  assert (Hq : x / 256 ^ N.of_nat k = v / 256 ^ N.of_nat k + N.of_nat p * 64).
  { unfold x. rewrite Hpow.
    replace (N.of_nat p * (64 * 256 ^ N.of_nat k)) with ((N.of_nat p * 64) * 256 ^ N.of_nat k) by lia.
    apply N.div_add. apply pow256_pos. }
  assert (Hlo : v / 256 ^ N.of_nat k < 64).
  { apply N.div_lt_upper_bound; [apply pow256_pos|]. rewrite Hpow in Hv. lia. }
  assert (Hb : b = v / 256 ^ N.of_nat k + N.of_nat p * 64).
  { unfold b. rewrite Hq. apply N.mod_small.
    destruct Hk as [[_ ->]|[[_ ->]|[[_ ->]|[_ ->]]]]; lia. }
  assert (Hb64 : b / 64 = N.of_nat p) by (rewrite Hb, N.div_add by discriminate; rewrite N.div_small by exact Hlo; lia).
  assert (Hbm : b mod 64 = v / 256 ^ N.of_nat k) by (rewrite Hb, N.mod_add by discriminate; apply N.mod_small; exact Hlo).
  assert (Hvl : vlen b = S k).
  { unfold vlen. rewrite Hb64. destruct Hk as [[-> ->]|[[-> ->]|[[-> ->]|[-> ->]]]]; reflexivity. }
  rewrite Hvl.
  assert (Hlen : (length (b :: be_bytes k x ++ rest) <? S k)%nat = false).
  { apply Nat.ltb_ge. cbn [length]. rewrite app_length, length_be_bytes. lia. }
  rewrite Hlen. replace (S k - 1)%nat with k by lia.
  rewrite firstn_app_exact by (now rewrite length_be_bytes).
  rewrite skipn_app_exact by (now rewrite length_be_bytes).
  rewrite be_acc_be_bytes, Hbm. f_equal. f_equal.
  assert (Hxm : x mod 256 ^ N.of_nat k = v mod 256 ^ N.of_nat k).
  { unfold x. rewrite Hpow.
    replace (N.of_nat p * (64 * 256 ^ N.of_nat k)) with ((N.of_nat p * 64) * 256 ^ N.of_nat k) by lia.
    apply N.mod_add. apply pow256_pos. }
  rewrite Hxm. pose proof (N.div_mod v (256 ^ N.of_nat k) (pow256_pos _)) as Hdm.
  rewrite (N.mul_comm (v / 256 ^ N.of_nat k)). symmetry. exact Hdm.
Qed.

Lemma vsize_bound : forall v, v < 4611686018427387904 -> v < 2 ^ vbits (vsize v).
Proof.
  intros v Hv. unfold vsize.
  destruct (N.ltb_spec v 64); [change (2 ^ vbits 1) with 64; lia|].
  destruct (N.ltb_spec v 16384); [change (2 ^ vbits 2) with 16384; lia|].
  destruct (N.ltb_spec v 1073741824); [change (2 ^ vbits 4) with 1073741824; lia|].
  change (2 ^ vbits 8) with 4611686018427387904. exact Hv.
Qed.

Theorem varint_roundtrip : forall v rest, v < 2 ^ 62 -> vdecode (vencode v ++ rest) = Some (v, rest).
Proof.
  intros v rest Hv. change (2 ^ 62) with 4611686018427387904 in Hv.
  pose proof (vsize_bound v Hv) as Hb. unfold vencode, vencode_n.
  destruct (vsize_cases v) as [E|[E|[E|E]]]; rewrite E in *; unfold vbits in Hb.
  - apply (roundtrip_n 0 0 v rest); [tauto|exact Hb].
  - apply (roundtrip_n 1 1 v rest); [tauto|exact Hb].
  - apply (roundtrip_n 3 2 v rest); [tauto|exact Hb].
  - apply (roundtrip_n 7 3 v rest); [tauto|exact Hb].
Qed.

(* also for the non-shortest encodings a sender may legitimately choose (RFC 9000 section 16:
   only the Frame Type field must be shortest) *)
Theorem varint_roundtrip_n : forall n v rest, In n [1; 2; 4; 8]%nat -> v < 2 ^ vbits n ->
  vdecode (vencode_n n v ++ rest) = Some (v, rest).
Proof.
  intros n v rest Hn Hv. unfold vencode_n, vbits in *. cbn [In] in Hn.
  destruct Hn as [<-|[<-|[<-|[<-|[]]]]].
  - apply (roundtrip_n 0 0 v rest); [tauto|exact Hv].
  - apply (roundtrip_n 1 1 v rest); [tauto|exact Hv].
  - apply (roundtrip_n 3 2 v rest); [tauto|exact Hv].
  - apply (roundtrip_n 7 3 v rest); [tauto|exact Hv].
Qed.

(* ------------------------------------------------------------------ size, shortest form *)
Theorem varint_size : forall v, v < 2 ^ 62 -> length (vencode v) = vsize v /\ shortest v (vsize v).
Proof.
  intros v Hv. change (2 ^ 62) with 4611686018427387904 in Hv. split.
  - unfold vencode, vencode_n. apply length_be_bytes.
  - split; [apply vsize_bound; exact Hv|].
    intros m Hm Hfit. unfold vbits in Hfit. cbn [In] in Hm. unfold vsize.
    destruct Hm as [<-|[<-|[<-|[<-|[]]]]]; vm_compute (2 ^ _) in Hfit;
      destruct (N.ltb_spec v 64); try lia;
      destruct (N.ltb_spec v 16384); try lia;
      destruct (N.ltb_spec v 1073741824); lia.
Qed.

(* ------------------------------------------------------------------ totality of the decoder *)
Theorem varint_decode_total : forall bs, wf_bytes bs = true ->
  (vdecode bs = None <-> (length bs < vlen_of_first bs)%nat)
  /\ forall v r, vdecode bs = Some (v, r) ->
       v < 2 ^ 62 /\ wf_bytes r = true /\ (length r < length bs)%nat
       /\ (length bs - length r = vlen_of_first bs)%nat.
Proof.
  intros bs Hwf. destruct bs as [|b t].
  - cbn [vdecode vlen_of_first length]. split; [split; [lia|reflexivity]|]. discriminate.
  - unfold vdecode, vlen_of_first.
    destruct (Nat.ltb_spec (length (b :: t)) (vlen b)) as [Hl|Hl].
    + split; [split; [intros _; exact Hl|reflexivity]|]. discriminate.
    + split; [split; [discriminate|lia]|].
      intros v r Heq. injection Heq as <- <-.
      cbn [wf_bytes forallb] in Hwf. apply andb_true_iff in Hwf. destruct Hwf as [Hb Ht].
      fold (wf_bytes t) in Ht. cbn [length] in Hl |- *.
      assert (Hfl : length (firstn (vlen b - 1) t) = (vlen b - 1)%nat) by (apply firstn_length_le; lia).
      pose proof (be_acc_bound (firstn (vlen b - 1) t) (b mod 64) (wf_firstn _ _ Ht)) as Hbd.
      rewrite Hfl in Hbd.
      assert (Hm : b mod 64 < 64) by (apply N.mod_lt; discriminate).
      rewrite skipn_length.
      split; [|split; [apply wf_skipn; exact Ht|]].
      * eapply N.lt_le_trans; [exact Hbd|].
        apply N.le_trans with (64 * 256 ^ N.of_nat (vlen b - 1)); [apply N.mul_le_mono_r; lia|].
        destruct (vlen_cases b) as [E|[E|[E|E]]]; rewrite E; vm_compute; discriminate.
      * destruct (vlen_cases b) as [E|[E|[E|E]]]; rewrite E in *; lia.
Qed.

(* ------------------------------------------------------------------ the table of table.rs *)
Lemma le_bytes_le_val : forall bs, wf_bytes bs = true -> le_bytes (length bs) (le_val bs) = bs.
Proof.
  induction bs as [|b t IH]; intros Hwf; cbn [length le_bytes le_val]; [reflexivity|].
  cbn [wf_bytes forallb] in Hwf. apply andb_true_iff in Hwf. destruct Hwf as [Hb Ht].
  apply N.ltb_lt in Hb. fold (wf_bytes t) in Ht.
  replace ((b + 256 * le_val t) mod 256) with b.
  2:{ rewrite N.mul_comm, N.mod_add by discriminate. symmetry. apply N.mod_small. exact Hb. }
  replace ((b + 256 * le_val t) / 256) with (le_val t).
  2:{ rewrite N.mul_comm, N.div_add by discriminate. rewrite N.div_small by exact Hb. lia. }
  now rewrite IH.
Qed.

Lemma log2_lt8 : forall a, a < 256 -> N.log2 a < 8.
Proof.
  intros a Ha. destruct (N.eq_dec a 0) as [->|H0]; [reflexivity|].
  apply (proj1 (N.log2_lt_pow2 a 8 ltac:(lia))). exact Ha.
Qed.

Lemma lor_lt256 : forall a b, a < 256 -> b < 256 -> N.lor a b < 256.
Proof.
  intros a b Ha Hb. destruct (N.eq_dec (N.lor a b) 0) as [->|Hnz]; [reflexivity|].
  apply (proj2 (N.log2_lt_pow2 (N.lor a b) 8 ltac:(lia))).
  rewrite N.log2_lor. apply N.max_lub_lt; apply log2_lt8; assumption.
Qed.

(* or-ing a byte into the least significant byte of a little-endian image *)
Lemma lor_low_byte : forall l r t, l < 256 -> t < 256 -> N.lor (l + 256 * r) t = N.lor l t + 256 * r.
Proof.
  intros l r t Hl Ht.
  assert (Hlt : N.lor l t < 256) by (apply lor_lt256; assumption).
  apply N.bits_inj. intros n.
  rewrite N.lor_spec.
  destruct (N.lt_ge_cases n 8) as [Hn|Hn].
  - (* low bits *)
    assert (E1 : N.testbit (l + 256 * r) n = N.testbit l n).
    { rewrite <- (N.mod_pow2_bits_low (l + 256 * r) 8 n Hn). change (2 ^ 8) with 256.
      rewrite N.mul_comm, N.mod_add by discriminate. rewrite N.mod_small by exact Hl. reflexivity. }
    assert (E2 : N.testbit (N.lor l t + 256 * r) n = N.testbit (N.lor l t) n).
    { rewrite <- (N.mod_pow2_bits_low (N.lor l t + 256 * r) 8 n Hn). change (2 ^ 8) with 256.
      rewrite N.mul_comm, N.mod_add by discriminate. rewrite N.mod_small by exact Hlt. reflexivity. }
    rewrite E1, E2, N.lor_spec. reflexivity.
  - (* high bits *)
    assert (Hhi : forall a, a < 256 -> N.testbit (a + 256 * r) n = N.testbit r (n - 8)).
    { intros a Ha.
      replace (N.testbit (a + 256 * r) n) with (N.testbit (a + 256 * r) (n - 8 + 8)) by (f_equal; lia).
      rewrite <- N.div_pow2_bits. change (2 ^ 8) with 256.
      rewrite N.mul_comm, N.div_add by discriminate. rewrite N.div_small by exact Ha. reflexivity. }
    rewrite (Hhi l Hl), (Hhi _ Hlt).
    assert (Ht0 : N.testbit t n = false).
    { apply N.bits_above_log2. apply N.lt_le_trans with 8; [|exact Hn]. apply log2_lt8; exact Ht. }
    rewrite Ht0. apply orb_false_r.
Qed.

(* a value below 64 and a two-bit prefix in bits 6..7 do not overlap *)
Lemma lor_prefix : forall a t, a < 64 -> In t [0; 64; 128; 192] -> N.lor a t = a + t.
Proof.
  intros a t Ha Ht.
  assert (H : forallb (fun a => forallb (fun t => N.lor a t =? a + t) [0; 64; 128; 192])
                (map N.of_nat (seq 0 64)) = true) by (vm_compute; reflexivity).
  rewrite forallb_forall in H. specialize (H a).
  assert (Hin : In a (map N.of_nat (seq 0 64))).
  { apply in_map_iff. exists (N.to_nat a). split; [lia|]. apply in_seq. lia. }
  specialize (H Hin). rewrite forallb_forall in H. specialize (H t Ht). now apply N.eqb_eq in H.
Qed.

(* the memory image produced by Formatted: first byte or-ed with the prefix byte *)
Lemma ne_bytes_image : forall y t, y < two64 -> t < 256 ->
  to_ne_bytes (N.lor (to_be y) t) = N.lor (y / 256 ^ 7 mod 256) t :: tl (be_bytes 8 y).
Proof.
  intros y t Hy Ht. unfold to_ne_bytes, to_be.
  remember (be_bytes 8 y) as bs eqn:Ebs.
  assert (Hwf : wf_bytes bs = true) by (subst bs; apply wf_be_bytes).
  assert (Hlen : length bs = 8%nat) by (subst bs; apply length_be_bytes).
  destruct bs as [|b0 rest]; [discriminate|].
  assert (Hb0 : b0 = y / 256 ^ 7 mod 256) by (cbn [be_bytes] in Ebs; now injection Ebs).
  cbn [wf_bytes forallb] in Hwf. apply andb_true_iff in Hwf. destruct Hwf as [Hb Hr].
  apply N.ltb_lt in Hb. fold (wf_bytes rest) in Hr.
  cbn [le_val tl]. rewrite lor_low_byte by assumption.
  assert (Hlt : N.lor b0 t < 256) by (apply lor_lt256; assumption).
  change (le_bytes 8 (N.lor b0 t + 256 * le_val rest)) with
    ((N.lor b0 t + 256 * le_val rest) mod 256 :: le_bytes 7 ((N.lor b0 t + 256 * le_val rest) / 256)).
  replace ((N.lor b0 t + 256 * le_val rest) mod 256) with (N.lor b0 t).
  2:{ rewrite N.mul_comm, N.mod_add by discriminate. symmetry. apply N.mod_small. exact Hlt. }
  replace ((N.lor b0 t + 256 * le_val rest) / 256) with (le_val rest).
  2:{ rewrite N.mul_comm, N.div_add by discriminate. rewrite N.div_small by exact Hlt. lia. }
  cbn [length] in Hlen. injection Hlen as Hlen. rewrite <- Hlen.
  rewrite le_bytes_le_val by exact Hr. now rewrite Hb0.
Qed.

Lemma table_rows : Gen_C05.varint_rows = [(2, 4, 30, 1073741823); (1, 2, 14, 16383); (0, 1, 6, 63)].
Proof. reflexivity. Qed.

Lemma max_varint_is_2_62_minus_1 : Gen_C05.max_varint_value = 2 ^ 62 - 1.
Proof. reflexivity. Qed.

Theorem read_optimized_is_rfc : forall x, x < 2 ^ 62 ->
  impl_read_optimized Gen_C05.varint_rows x = rfc_entry x.
Proof.
  intros x Hx. change (2 ^ 62) with 4611686018427387904 in Hx.
  unfold impl_read_optimized, rfc_entry. rewrite table_rows. cbn [fold_left].
  destruct (N.leb_spec x 1073741823) as [H1|H1];
  destruct (N.leb_spec x 16383) as [H2|H2];
  destruct (N.leb_spec x 63) as [H3|H3]; try lia; vm_compute; reflexivity.
Qed.

Ltac byte_eq := Z.div_mod_to_equations; lia.

Theorem formatted_bytes_is_rfc : forall x, x < 2 ^ 62 -> impl_formatted_bytes x = vencode x.
Proof.
  intros x Hx. change (2 ^ 62) with 4611686018427387904 in Hx.
  unfold impl_formatted_bytes, impl_formatted. rewrite table_rows. cbn [fold_left].
  unfold vencode, vencode_n, vsize.
  destruct (N.leb_spec x 1073741823) as [H1|H1];
  destruct (N.leb_spec x 16383) as [H2|H2];
  destruct (N.leb_spec x 63) as [H3|H3]; try lia.
  - (* 1 byte *)
    destruct (N.ltb_spec x 64); [|lia].
    change (wrap_sub64 (wrap_sub64 (wrap_sub64 (to_be (shl64 3 62)) (to_be (shl64 1 62))) (to_be (shl64 1 62))) (to_be (shl64 1 62))) with 0.
    change (62 - 6) with 56. unfold shl64.
    assert (Hy : x * 2 ^ 56 mod two64 = x * 2 ^ 56) by (apply N.mod_small; unfold two64; change (2 ^ 56) with 72057594037927936; lia).
    rewrite Hy. rewrite ne_bytes_image by (unfold two64; change (2 ^ 56) with 72057594037927936; lia).
    change (N.to_nat 1) with 1%nat. cbn [firstn be_bytes vprefix].
    rewrite lor_prefix; [|change (2 ^ 56) with 72057594037927936; change (256 ^ 7) with 72057594037927936; rewrite N.div_mul by discriminate; rewrite N.mod_small by lia; lia|cbn; auto].
    f_equal. change (2 ^ 56) with 72057594037927936; change (256 ^ 7) with 72057594037927936.
    change (256 ^ N.of_nat 0) with 1. change (2 ^ (8 * N.of_nat 1 - 2)) with 64.
    rewrite N.div_mul by discriminate. rewrite N.div_1_r. lia.
  - (* 2 bytes *)
    destruct (N.ltb_spec x 64); [lia|]. destruct (N.ltb_spec x 16384); [|lia].
    change (wrap_sub64 (wrap_sub64 (to_be (shl64 3 62)) (to_be (shl64 1 62))) (to_be (shl64 1 62))) with 64.
    change (62 - 14) with 48. unfold shl64.
    assert (Hy : x * 2 ^ 48 mod two64 = x * 2 ^ 48) by (apply N.mod_small; unfold two64; change (2 ^ 48) with 281474976710656; lia).
    rewrite Hy. rewrite ne_bytes_image by (unfold two64; change (2 ^ 48) with 281474976710656; lia).
    change (N.to_nat 2) with 2%nat.
    change (be_bytes 8 (x * 2 ^ 48)) with
      ((x * 2 ^ 48 / 256 ^ 7) mod 256 :: (x * 2 ^ 48 / 256 ^ 6) mod 256 :: be_bytes 6 (x * 2 ^ 48)).
    cbn [tl firstn be_bytes vprefix].
    change (2 ^ 48) with 281474976710656; change (256 ^ 7) with 72057594037927936; change (256 ^ 6) with 281474976710656.
    change (256 ^ N.of_nat 1) with 256; change (256 ^ N.of_nat 0) with 1. change (2 ^ (8 * N.of_nat 2 - 2)) with 16384.
    rewrite lor_prefix; [|byte_eq|cbn; auto].
    f_equal; [byte_eq|]. f_equal. byte_eq.
  - (* 4 bytes *)
    destruct (N.ltb_spec x 64); [lia|]. destruct (N.ltb_spec x 16384); [lia|]. destruct (N.ltb_spec x 1073741824); [|lia].
    change (wrap_sub64 (to_be (shl64 3 62)) (to_be (shl64 1 62))) with 128.
    change (62 - 30) with 32. unfold shl64.
    assert (Hy : x * 2 ^ 32 mod two64 = x * 2 ^ 32) by (apply N.mod_small; unfold two64; change (2 ^ 32) with 4294967296; lia).
    rewrite Hy. rewrite ne_bytes_image by (unfold two64; change (2 ^ 32) with 4294967296; lia).
    change (N.to_nat 4) with 4%nat.
    change (be_bytes 8 (x * 2 ^ 32)) with
      ((x * 2 ^ 32 / 256 ^ 7) mod 256 :: (x * 2 ^ 32 / 256 ^ 6) mod 256 :: (x * 2 ^ 32 / 256 ^ 5) mod 256
        :: (x * 2 ^ 32 / 256 ^ 4) mod 256 :: be_bytes 4 (x * 2 ^ 32)).
    cbn [tl firstn be_bytes vprefix].
    change (2 ^ 32) with 4294967296; change (256 ^ 7) with 72057594037927936; change (256 ^ 6) with 281474976710656;
      change (256 ^ 5) with 1099511627776; change (256 ^ 4) with 4294967296.
    change (256 ^ N.of_nat 3) with 16777216; change (256 ^ N.of_nat 2) with 65536;
      change (256 ^ N.of_nat 1) with 256; change (256 ^ N.of_nat 0) with 1. change (2 ^ (8 * N.of_nat 4 - 2)) with 1073741824.
    rewrite lor_prefix; [|byte_eq|cbn; auto].
    f_equal; [byte_eq|]. f_equal; [byte_eq|]. f_equal; [byte_eq|]. f_equal. byte_eq.
  - (* 8 bytes *)
    destruct (N.ltb_spec x 64); [lia|]. destruct (N.ltb_spec x 16384); [lia|]. destruct (N.ltb_spec x 1073741824); [lia|].
    change (to_be (shl64 3 62)) with 192.
    unfold shl64. change (2 ^ 0) with 1. rewrite N.mul_1_r.
    assert (Hy : x mod two64 = x) by (apply N.mod_small; unfold two64; lia).
    rewrite Hy. rewrite ne_bytes_image by (unfold two64; lia).
    change (N.to_nat 8) with 8%nat.
    cbn [tl firstn be_bytes vprefix].
    change (256 ^ 7) with 72057594037927936.
    change (256 ^ N.of_nat 7) with 72057594037927936; change (256 ^ N.of_nat 6) with 281474976710656;
      change (256 ^ N.of_nat 5) with 1099511627776; change (256 ^ N.of_nat 4) with 4294967296;
      change (256 ^ N.of_nat 3) with 16777216; change (256 ^ N.of_nat 2) with 65536;
      change (256 ^ N.of_nat 1) with 256; change (256 ^ N.of_nat 0) with 1. change (2 ^ (8 * N.of_nat 8 - 2)) with 4611686018427387904.
    rewrite lor_prefix; [|byte_eq|cbn; auto].
    repeat (f_equal; try byte_eq).
Qed.

Theorem varint_table_is_rfc : forall x, x < 2 ^ 62 ->
  impl_read_optimized Gen_C05.varint_rows x = rfc_entry x /\ impl_formatted_bytes x = vencode x.
Proof. intros x Hx. split; [apply read_optimized_is_rfc|apply formatted_bytes_is_rfc]; exact Hx. Qed.

(* ------------------------------------------------------------------ judge accepts the model *)
Lemma zlist_eqb_refl : forall l, zlist_eqb l l = true.
Proof. induction l as [|x t IH]; cbn [zlist_eqb]; [reflexivity|]. now rewrite Z.eqb_refl, IH. Qed.

Lemma zlist_eqb_eq : forall a b, zlist_eqb a b = true -> a = b.
Proof.
  induction a as [|x a IH]; intros [|y b] H; cbn [zlist_eqb] in H; try discriminate; [reflexivity|].
  apply andb_true_iff in H. destruct H as [H1 H2]. apply Z.eqb_eq in H1. subst. f_equal. now apply IH.
Qed.

Theorem judge_run : forall case, judge case (run case) = true.
Proof. intros case. unfold judge. apply zlist_eqb_refl. Qed.

Theorem judge_sound : forall case out, judge case out = true -> out = run case.
Proof. intros case out H. now apply zlist_eqb_eq. Qed.
