(* Proofs about model/Spsc.v, layer D: ring indices, slot contents, FIFO. *)
From SQ Require Import lib.Base lib.ListX gen.Gen_C17.
From SQ Require Import model.Spsc proofs.SpscClose.
Local Open Scope N_scope.

(* ---------------------------------------------------------------------------------------- *)
(* Arithmetic of wrapped indices                                                             *)
(* ---------------------------------------------------------------------------------------- *)
Lemma mod_inj_window c a b : 0 < c -> a <= b -> b < a + c -> a mod c = b mod c -> a = b.
Proof.
  intros Hc Hab Hb He.
  pose proof (N.div_mod a c ltac:(lia)) as Ha. pose proof (N.div_mod b c ltac:(lia)) as Hbb.
  rewrite He in Ha.
  assert (a / c <= b / c) by (apply N.div_le_mono; lia).
  pose proof (N.mod_lt b c ltac:(lia)).
  assert (b / c = a / c) as E by nia.
  rewrite E in Hbb. lia.
Qed.

Lemma count_spec c A B : 0 < c -> A <= B -> B < A + c ->
  (A mod c + c - B mod c) mod c = (A + c - B) mod c.
Proof.
  intros Hc Hab Hb.
  pose proof (N.div_mod A c ltac:(lia)) as Ha. pose proof (N.div_mod B c ltac:(lia)) as Hbb.
  pose proof (N.mod_lt A c ltac:(lia)). pose proof (N.mod_lt B c ltac:(lia)).
  assert (A / c <= B / c) by (apply N.div_le_mono; lia).
  assert (B / c <= A / c + 1).
  { rewrite <- (N.div_add A 1 c) by lia. apply N.div_le_mono; lia. }
  assert (B / c = A / c \/ B / c = A / c + 1) as [E|E] by lia.
  - f_equal. rewrite E in Hbb. nia.
  - rewrite E in Hbb.
    replace (A mod c + c - B mod c) with ((A mod c - B mod c) + 1 * c) by nia.
    rewrite N.mod_add by lia. f_equal. nia.
Qed.

Lemma count_spec2 c A B : 0 < c -> A <= B -> B < A + c ->
  (B mod c + c - A mod c) mod c = B - A.
Proof.
  intros Hc Hab Hb.
  pose proof (N.div_mod A c ltac:(lia)) as Ha. pose proof (N.div_mod B c ltac:(lia)) as Hbb.
  pose proof (N.mod_lt A c ltac:(lia)). pose proof (N.mod_lt B c ltac:(lia)).
  assert (A / c <= B / c) by (apply N.div_le_mono; lia).
  assert (B / c <= A / c + 1).
  { rewrite <- (N.div_add A 1 c) by lia. apply N.div_le_mono; lia. }
  assert (B / c = A / c \/ B / c = A / c + 1) as [E|E] by lia.
  - rewrite E in Hbb.
    replace (B mod c + c - A mod c) with ((B mod c - A mod c) + 1 * c) by nia.
    rewrite N.mod_add by lia. rewrite N.mod_small by nia. nia.
  - rewrite E in Hbb. rewrite N.mod_small by nia. nia.
Qed.

Lemma succ_mod c x : 0 < c -> wrap_add (x mod c) 1 c = (x + 1) mod c.
Proof. intros. unfold wrap_add. rewrite N.add_mod_idemp_l by lia. reflexivity. Qed.

Lemma is_full_false c A B : 2 <= c -> A <= B -> B < A + c ->
  is_full (A mod c) (B mod c) c = false -> B + 1 < A + c.
Proof.
  intros Hc Hab Hb. unfold is_full, count. rewrite count_spec by lia.
  intros H. apply N.eqb_neq in H.
  assert (B + 1 = A + c -> False); [|lia].
  intros E. apply H. replace (A + c - B) with 1 by lia. apply N.mod_small. lia.
Qed.

Lemma is_empty_false c A B : 0 < c -> A <= B -> B < A + c ->
  is_empty (A mod c) (B mod c) = false -> A < B.
Proof.
  intros Hc Hab Hb. unfold is_empty. intros H. apply N.eqb_neq in H.
  assert (A = B -> False); [|lia]. intros E. subst. auto.
Qed.

(* ---------------------------------------------------------------------------------------- *)
(* list facts                                                                                *)
(* ---------------------------------------------------------------------------------------- *)
Lemma firstn_snoc_nth {A} (d : A) : forall (l : list A) n, (n < length l)%nat ->
  firstn (S n) l = firstn n l ++ [nth n l d].
Proof.
  induction l; intros n H; simpl in H; [lia|]. destruct n; simpl; [reflexivity|].
  f_equal. apply IHl. lia.
Qed.

Lemma firstn_app_le {A} : forall (l l' : list A) n, (n <= length l)%nat -> firstn n (l ++ l') = firstn n l.
Proof.
  intros. rewrite firstn_app. replace (n - length l)%nat with O by lia. simpl. apply app_nil_r.
Qed.

Lemma nth_set_nth_eq {A} (d : A) : forall i (l : list A) x, (i < length l)%nat -> nth i (set_nth i l x) d = x.
Proof. intros. rewrite nth_set_nth by auto. rewrite Nat.eqb_refl. reflexivity. Qed.

Lemma nth_set_nth_ne {A} (d : A) : forall i j (l : list A) x, (i < length l)%nat -> i <> j ->
  nth j (set_nth i l x) d = nth j l d.
Proof.
  intros. rewrite nth_set_nth by auto. destruct (Nat.eqb_spec j i); [congruence|reflexivity].
Qed.

(* ---------------------------------------------------------------------------------------- *)
(* Layer D                                                                                   *)
(* ---------------------------------------------------------------------------------------- *)
Definition nw (s : st) : N := N.of_nat (length (pushed s)).
Definition nr (s : st) : N := N.of_nat (length (received s)).

(* a SendSlice / RecvSlice is alive: the cached cursor may be ahead of the published index *)
Definition slice_pc (p : pc) : bool :=
  match p with Check | Work | Persist | Acq QItem _ => true | _ => false end.
Definition is_work (p : pc) : bool := match p with Work => true | _ => false end.
Definition drop23 (p : pc) : bool := match p with Drop2 | Drop3 => true | _ => false end.
(* drop_contents has emptied the slots *)
Definition dropped_by (p : pc) (was : bool) : bool :=
  match p with Wk KDropR _ | Wk KDropS _ | Free => true | Done => negb was | _ => false end.

Record dinv (cap : N) (s : st) : Prop := mkD {
  d_len : length (slots s) = N.to_nat cap;
  d_pt : pt s = nw s mod cap;
  d_tail : tail s = npub s mod cap;
  d_ch : ch s = nr s mod cap;
  d_head : head s = hpub s mod cap;
  d_ph : ph s = phc s mod cap;
  d_ct : ct s = ctc s mod cap;
  d_ord : phc s <= hpub s /\ hpub s <= nr s /\ nr s <= ctc s /\ ctc s <= npub s /\ npub s <= nw s
          /\ nw s < phc s + cap;
  d_pslice : if slice_pc (ppc s) then pprev s = npub s mod cap else npub s = nw s;
  d_cslice : if slice_pc (cpc s) then cprev s = hpub s mod cap else hpub s = nr s;
  d_pwork : if is_work (ppc s) then nw s + 1 < phc s + cap else True;
  d_cwork : if is_work (cpc s) then nr s < ctc s else True;
  d_pdrop : if drop23 (ppc s) then phc s = nr s else True;
  d_slots : dropped_by (ppc s) (pwas s) || dropped_by (cpc s) (cwas s) = false ->
            forall i, nr s <= i -> i < nw s ->
            nth (N.to_nat (i mod cap)) (slots s) None = Some (nth (N.to_nat i) (pushed s) 0);
  d_recv : received s = firstn (length (received s)) (pushed s);
  d_bad : bad s = false
}.

Lemma dinv_init : forall cap, 2 <= cap -> dinv cap (init cap).
Proof.
  intros cap Hc. constructor; cbn; try reflexivity; try lia.
  apply repeat_length.
Qed.

Ltac d_cbn := cbn [slice_pc is_work drop23 dropped_by orb andb negb] in *.
Ltac d_easy := first [ assumption | exact I | reflexivity | discriminate | lia ].

Lemma dinv_pbegin : forall cap op s, ppc s = Idle -> dinv cap s -> dinv cap (pbegin op s).
Proof.
  intros cap op s Hp H. dst s. cbn in Hp. subst. destruct H.
  unfold nw, nr, pbegin in *. st_cbn.
  destruct op; st_cbn; constructor; st_cbn; d_cbn; d_easy.
Qed.

Lemma dinv_cbegin : forall cap op s, cpc s = Idle -> dinv cap s -> dinv cap (cbegin op s).
Proof.
  intros cap op s Hp H. dst s. cbn in Hp. subst. destruct H.
  unfold nw, nr, cbegin in *. st_cbn.
  destruct op; st_cbn; constructor; st_cbn; d_cbn; d_easy.
Qed.

Lemma in_drop_swapped_p : forall s, cinv s = true -> in_drop (ppc s) = true -> swapped (ppc s) = true.
Proof.
  intros s HC Hd. unfold cinv, cinv_b in HC. rewrite Hd in HC.
  destruct (swapped (ppc s)); auto. rewrite ?andb_false_r in HC. cbn in HC. rewrite ?andb_false_r in HC. discriminate.
Qed.
Lemma in_drop_swapped_c : forall s, cinv s = true -> in_drop (cpc s) = true -> swapped (cpc s) = true.
Proof.
  intros s HC Hd. unfold cinv, cinv_b in HC. rewrite Hd in HC.
  destruct (swapped (cpc s)); auto. destruct (in_drop (ppc s)), (swapped (ppc s)); cbn in HC; rewrite ?andb_false_r in HC; discriminate.
Qed.

Lemma cinv_in_drop_p : forall s, cinv s = true -> in_drop (ppc s) = true ->
  pwas s = false /\ slice_pc (cpc s) = false /\ is_work (cpc s) = false /\ dropped_by (cpc s) (cwas s) = false.
Proof.
  intros s HC Hd. pose proof (in_drop_swapped_p _ HC Hd) as Hs. dst s. unfold cinv in HC. st_cbn.
  rewrite Hd, Hs in HC. revert HC. generalize (has_freed xppc xpwas). intros fp HC.
  unfold cinv_b in HC.
  destruct_pc xcpc; cbn [swapped in_drop has_freed slice_pc is_work dropped_by] in *;
    destruct xpwas, xcwas, xopen, xfreed, fp; cbn in *; try discriminate; auto.
Qed.

Lemma cinv_in_drop_c : forall s, cinv s = true -> in_drop (cpc s) = true ->
  cwas s = false /\ slice_pc (ppc s) = false /\ is_work (ppc s) = false /\ dropped_by (ppc s) (pwas s) = false.
Proof.
  intros s HC Hd. pose proof (in_drop_swapped_c _ HC Hd) as Hs. dst s. unfold cinv in HC. st_cbn.
  rewrite Hd, Hs in HC. revert HC. generalize (has_freed xcpc xcwas). intros fp HC.
  unfold cinv_b in HC.
  destruct_pc xppc; cbn [swapped in_drop has_freed slice_pc is_work dropped_by] in *;
    destruct xpwas, xcwas, xopen, xfreed, fp; cbn in *; try discriminate; auto.
Qed.

(* a thread that has not swapped `open` sees a peer that has not emptied the slots *)
Lemma cinv_live_c : forall s, cinv s = true -> swapped (cpc s) = false ->
  dropped_by (ppc s) (pwas s) = false /\ drop23 (ppc s) = false.
Proof.
  intros s HC Hs. dst s. unfold cinv in HC. st_cbn. rewrite Hs in HC.
  revert HC. generalize (in_drop xcpc) (has_freed xcpc xcwas). intros dc fc HC. unfold cinv_b in HC.
  destruct_pc xppc; cbn [swapped in_drop has_freed drop23 dropped_by] in *;
    destruct xpwas, xcwas, xopen, xfreed, dc, fc; cbn in *; try discriminate; auto.
Qed.
Lemma cinv_live_p : forall s, cinv s = true -> swapped (ppc s) = false ->
  dropped_by (cpc s) (cwas s) = false.
Proof.
  intros s HC Hs. dst s. unfold cinv in HC. st_cbn. rewrite Hs in HC.
  revert HC. generalize (in_drop xppc) (has_freed xppc xpwas). intros dc fc HC. unfold cinv_b in HC.
  destruct_pc xcpc; cbn [swapped in_drop has_freed drop23 dropped_by] in *;
    destruct xpwas, xcwas, xopen, xfreed, dc, fc; cbn in *; try discriminate; auto.
Qed.

(* drop_contents reads exactly the filled window *)
Lemma take_cells_ok : forall cap (pushed : list N) n k sl acc bd,
  0 < cap -> length sl = N.to_nat cap -> (n <= N.to_nat cap)%nat ->
  (forall i, k <= i -> i < k + N.of_nat n ->
     nth (N.to_nat (i mod cap)) sl None = Some (nth (N.to_nat i) pushed 0)) ->
  exists sl' acc', take_cells n (k mod cap) cap sl acc bd = (sl', acc', bd) /\ length sl' = N.to_nat cap.
Proof.
  intros cap pushed n. induction n as [|n IH]; intros k sl acc bd Hc Hl Hn Hs.
  - cbn. eauto.
  - cbn [take_cells]. rewrite (Hs k) by lia.
    rewrite succ_mod by lia.
    apply IH; auto; try lia.
    + rewrite length_set_nth. auto.
    + intros i Hlo Hhi. rewrite nth_set_nth_ne.
      * apply Hs; lia.
      * rewrite Hl. pose proof (N.mod_lt k cap). lia.
      * intros E. apply N2Nat.inj in E. apply mod_inj_window in E; lia.
Qed.

Lemma dinv_pstep : forall cap s, 2 <= cap -> cinv s = true -> dinv cap s -> dinv cap (pstep false cap s).
Proof.
  intros cap s Hc HC H. dst s. destruct H. unfold nw, nr, pstep in *. st_cbn.
  subst xpt xtail xch xhead xph xct.
  pc_cases xppc;
  try (exfalso; clear - HC; unfold cinv, cinv_b in HC; st_cbn; cbn [swapped in_drop] in HC;
       rewrite ?andb_false_r in HC; cbn in HC; discriminate HC);
  constructor; unfold nw, nr; st_cbn; d_cbn; try d_easy.
  all: try congruence.
  all: try (rewrite app_length; cbn [length]; lia).
  all: try (rewrite length_set_nth; assumption).
  all: try (eapply is_full_false; [exact Hc| | |eassumption]; lia).
  all: try (rewrite succ_mod by lia; rewrite app_length; cbn [length]; f_equal; lia).
  all: try (rewrite firstn_app_le; [assumption|lia]).
  - (* Work: the written slot is outside the unread window *)
    intros Hd i Hlo Hhi. rewrite app_length in Hhi. cbn [length] in Hhi.
    pose proof (N.mod_lt (N.of_nat (length xpushed)) cap ltac:(lia)).
    destruct (N.eq_dec i (N.of_nat (length xpushed))) as [->|Hne].
    + rewrite nth_set_nth_eq by lia. rewrite Nat2N.id. rewrite app_nth2 by lia.
      rewrite Nat.sub_diag. reflexivity.
    + rewrite nth_set_nth_ne.
      * rewrite app_nth1 by lia. apply d_slots0; auto. lia.
      * lia.
      * intros E. apply N2Nat.inj in E. symmetry in E. apply mod_inj_window in E; lia.
  - (* Persist with an unchanged tail: nothing was pushed *)
    apply N.eqb_eq in Heqb. rewrite d_pslice0 in Heqb. apply mod_inj_window in Heqb; lia.
  - (* Drop1 *)
    apply cinv_in_drop_p in HC; [|reflexivity]. st_cbn. destruct HC as (_ & Hsl & _).
    rewrite Hsl in d_cslice0. exact d_cslice0.
  - (* Drop3: length *)
    apply cinv_in_drop_p in HC; [|reflexivity]. st_cbn. destruct HC as (_ & _ & _ & Hdr).
    unfold count in Heqp. rewrite count_spec2 in Heqp by lia.
    destruct (take_cells_ok cap xpushed (N.to_nat (N.of_nat (length xpushed) - xphc)) xphc xslots xdiscarded xbad)
      as (sl' & acc' & E & L); try lia.
    { intros i Hlo Hhi. apply d_slots0; auto; lia. }
    rewrite E in Heqp. congruence.
  - apply cinv_in_drop_p in HC; [|reflexivity]. st_cbn. destruct HC as (_ & _ & _ & Hdr).
    unfold count in Heqp. rewrite count_spec2 in Heqp by lia.
    destruct (take_cells_ok cap xpushed (N.to_nat (N.of_nat (length xpushed) - xphc)) xphc xslots xdiscarded xbad)
      as (sl' & acc' & E & L); try lia.
    { intros i Hlo Hhi. apply d_slots0; auto; lia. }
    rewrite E in Heqp. congruence.
  - (* Free *)
    apply cinv_in_drop_p in HC; [|reflexivity]. st_cbn. destruct HC as (Hw & _). subst xpwas.
    cbn. discriminate.
Qed.

Lemma dinv_cstep : forall cap s, 2 <= cap -> cinv s = true -> dinv cap s -> dinv cap (cstep false cap s).
Proof.
  intros cap s Hc HC H. dst s. destruct H. unfold nw, nr, cstep in *. st_cbn.
  subst xpt xtail xch xhead xph xct.
  pc_cases xcpc;
  try (exfalso; clear - HC; unfold cinv, cinv_b in HC; st_cbn; cbn [swapped in_drop] in HC;
       rewrite ?andb_false_r, ?andb_false_l in HC; cbn in HC; destruct (in_drop xppc), (swapped xppc); cbn in HC; rewrite ?andb_false_r in HC; discriminate HC);
  constructor; unfold nw, nr; st_cbn; d_cbn; try d_easy.
  all: try congruence.
  all: try (rewrite app_length; cbn [length]; lia).
  all: try (rewrite length_set_nth; assumption).
  all: try (eapply is_empty_false; [| | |eassumption]; lia).
  all: try (rewrite succ_mod by lia; rewrite app_length; cbn [length]; f_equal; lia).
  all: try match goal with
    | Heqo : nth _ _ None = _, HC : cinv _ = true,
      DS : (_ = false -> forall i : N, N.of_nat (length ?rc) <= i -> _) |- _ =>
      pose proof (cinv_live_c _ HC eq_refl) as [Hdp Hd23]; st_cbn;
      let T := type of DS in
      match T with (?P -> _) => assert (Hpre : P) by (rewrite Hdp; reflexivity) end;
      pose proof (DS Hpre (N.of_nat (length rc)) (N.le_refl _)) as Hn;
      match type of Hn with (?Q -> _) => assert (Hq : Q) by lia; specialize (Hn Hq); clear Hq end;
      rewrite Heqo in Hn; try discriminate Hn; injection Hn as Hn
    end.
  - rewrite Hd23. exact I.
  - intros _ i Hlo Hhi. rewrite app_length in Hlo. cbn [length] in Hlo.
    pose proof (N.mod_lt (N.of_nat (length xreceived)) cap ltac:(lia)).
    rewrite nth_set_nth_ne.
    + apply d_slots0; auto; lia.
    + lia.
    + intros E. apply N2Nat.inj in E. apply mod_inj_window in E; lia.
  - rewrite app_length. cbn [length]. rewrite Nat.add_1_r.
    rewrite (firstn_snoc_nth 0) by lia. rewrite <- d_recv0. rewrite Nat2N.id in Hn. congruence.
  - subst xbad. reflexivity.
  - (* Persist with an unchanged head *)
    apply N.eqb_eq in Heqb. rewrite d_cslice0 in Heqb. apply mod_inj_window in Heqb; lia.
  - (* Drop3 *)
    apply cinv_in_drop_c in HC; [|reflexivity]. st_cbn. destruct HC as (_ & _ & _ & Hdr).
    unfold count in Heqp. rewrite count_spec2 in Heqp by lia.
    destruct (take_cells_ok cap xpushed (N.to_nat (xctc - N.of_nat (length xreceived))) (N.of_nat (length xreceived)) xslots xdiscarded xbad)
      as (sl' & acc' & E & L); try lia.
    { intros i Hlo Hhi. apply d_slots0; auto; try lia. rewrite Hdr. reflexivity. }
    rewrite E in Heqp. congruence.
  - apply cinv_in_drop_c in HC; [|reflexivity]. st_cbn. destruct HC as (_ & _ & _ & Hdr).
    unfold count in Heqp. rewrite count_spec2 in Heqp by lia.
    destruct (take_cells_ok cap xpushed (N.to_nat (xctc - N.of_nat (length xreceived))) (N.of_nat (length xreceived)) xslots xdiscarded xbad)
      as (sl' & acc' & E & L); try lia.
    { intros i Hlo Hhi. apply d_slots0; auto; try lia. rewrite Hdr. reflexivity. }
    rewrite E in Heqp. congruence.
  - (* Free *)
    apply cinv_in_drop_c in HC; [|reflexivity]. st_cbn. destruct HC as (Hw & _). subst xcwas.
    rewrite orb_true_r. discriminate.
Qed.
