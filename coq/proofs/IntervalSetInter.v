(* Proofs about the IntervalSet reference (C16), part 6: ref_inter keeps the representation invariant
   and means set intersection. *)
From SQ Require Import lib.Base lib.ListX gen.Gen_C16 model.IntervalSet proofs.IntervalSetProofs.
Local Open Scope N_scope.

Definition piece (i j : ival) : list ival :=
  let lo := N.max (fst i) (fst j) in let hi := N.min (snd i) (snd j) in
  if lo <=? hi then [(lo, hi)] else [].
Definition pieces (i : ival) (l2 : list ival) : list ival := flat_map (piece i) l2.

Lemma ref_inter_unfold : forall l1 l2, ref_inter l1 l2 = flat_map (fun i => pieces i l2) l1.
Proof. reflexivity. Qed.

Lemma wf_app : forall emax (l r : list ival), iswf emax l -> iswf emax r ->
  (forall x y, In x l -> In y r -> snd x + 1 < fst y) -> iswf emax (l ++ r).
Proof.
  intros emax. induction l as [|b t IH]; intros r Hl Hr Hx; [exact Hr|].
  cbn [app iswf]. cbn [iswf] in Hl. destruct Hl as (H1 & H2 & H3 & H4).
  repeat split; try assumption.
  - destruct t as [|b' t']; cbn [app].
    + destruct r as [|y r']; [exact I|]. cbn [gap]. apply Hx; left; reflexivity.
    + exact H3.
  - apply IH; [assumption|assumption|]. intros x y Hx' Hy. apply Hx; [right; assumption|assumption].
Qed.

Lemma pieces_in : forall i l2 b, In b (pieces i l2) ->
  exists j, In j l2 /\ fst b = N.max (fst i) (fst j) /\ snd b = N.min (snd i) (snd j) /\ fst b <= snd b.
Proof.
  intros i l2 b H. unfold pieces in H. apply in_flat_map in H. destruct H as (j & Hj & Hb).
  unfold piece in Hb. cbn zeta in Hb. destruct (N.leb_spec (N.max (fst i) (fst j)) (N.min (snd i) (snd j))); [|destruct Hb].
  destruct Hb as [<-|[]]. exists j. cbn [fst snd]. auto.
Qed.

Lemma pieces_wf : forall emax i l2, iswf emax l2 -> snd i <= emax -> iswf emax (pieces i l2).
Proof.
  intros emax i. induction l2 as [|j t IH]; intros Hwf Hi; [exact I|].
  pose proof (wf_after _ _ _ Hwf) as Haft. cbn [iswf] in Hwf. destruct Hwf as (H1 & H2 & H3 & H4).
  change (pieces i (j :: t)) with (piece i j ++ pieces i t).
  apply wf_app; [|apply IH; assumption|].
  - unfold piece. cbn zeta. destruct (N.leb_spec (N.max (fst i) (fst j)) (N.min (snd i) (snd j))); [|exact I].
    cbn [iswf fst snd gap]. repeat split; try assumption; lia.
  - intros x y Hx Hy. unfold piece in Hx. cbn zeta in Hx.
    destruct (N.leb_spec (N.max (fst i) (fst j)) (N.min (snd i) (snd j))); [|destruct Hx].
    destruct Hx as [<-|[]]. cbn [snd].
    apply pieces_in in Hy. destruct Hy as (j' & Hj' & Hf & _). specialize (Haft j' Hj'). lia.
Qed.

Theorem ref_inter_wf : forall emax l1 l2, iswf emax l1 -> iswf emax l2 -> iswf emax (ref_inter l1 l2).
Proof.
  intros emax. induction l1 as [|i t IH]; intros l2 H1 H2; [exact I|].
  pose proof (wf_after _ _ _ H1) as Haft. cbn [iswf] in H1. destruct H1 as (Hv & Hm & Hg & Ht).
  rewrite ref_inter_unfold. cbn [flat_map]. rewrite <- ref_inter_unfold.
  apply wf_app; [apply pieces_wf; assumption|apply IH; assumption|].
  intros x y Hx Hy. apply pieces_in in Hx. destruct Hx as (j & _ & _ & Hs & _).
  rewrite ref_inter_unfold in Hy. apply in_flat_map in Hy. destruct Hy as (i' & Hi' & Hy).
  apply pieces_in in Hy. destruct Hy as (j' & _ & Hf & _). specialize (Haft i' Hi'). lia.
Qed.

(* and it means intersection *)
Theorem ref_inter_mem : forall l1 l2 x, mem x (ref_inter l1 l2) <-> mem x l1 /\ mem x l2.
Proof.
  intros l1 l2 x. unfold mem. split.
  - intros (b & Hb & Hx). rewrite ref_inter_unfold in Hb. apply in_flat_map in Hb. destruct Hb as (i & Hi & Hb).
    apply pieces_in in Hb. destruct Hb as (j & Hj & Hf & Hs & _).
    split; [exists i|exists j]; split; try assumption; lia.
  - intros [(i & Hi & Hxi) (j & Hj & Hxj)].
    exists (N.max (fst i) (fst j), N.min (snd i) (snd j)). cbn [fst snd]. split; [|lia].
    rewrite ref_inter_unfold. apply in_flat_map. exists i. split; [assumption|].
    unfold pieces. apply in_flat_map. exists j. split; [assumption|].
    unfold piece. cbn zeta. destruct (N.leb_spec (N.max (fst i) (fst j)) (N.min (snd i) (snd j))); [left; reflexivity|lia].
Qed.
