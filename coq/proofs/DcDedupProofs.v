(* The Map-level dedup component inherits the receiver theorems (C19). *)
From SQ Require Import lib.Base gen.Gen_C19.
From SQ Require model.DcReceiver proofs.DcReceiverProofs model.DcDedup.
Import DcDedup.

(* DcReceiver.judge_from reads only the post code of each triple *)
Lemma judge_from_expand_codes : forall ids s acc,
  DcReceiver.judge_from acc ids (expand (codes (DcReceiver.run_from s ids)))
  = DcReceiver.judge_from acc ids (DcReceiver.run_from s ids).
Proof.
  induction ids as [|z t IH]; intros s acc; cbn [DcReceiver.run_from]; [reflexivity|].
  destruct (DcReceiver.post s (zN z)) as [s' r].
  cbn [codes expand DcReceiver.judge_from]. now rewrite IH.
Qed.

Theorem judge_run : forall ids, Forall DcReceiverProofs.in_range ids -> judge ids (run ids) = true.
Proof.
  intros ids H. unfold judge, run, DcReceiver.judge, DcReceiver.run.
  rewrite judge_from_expand_codes. exact (DcReceiverProofs.judge_run ids H).
Qed.

(* the boundary the Map-level fast paths must respect: with 1000 the highest id opened, the
   never-seen id 105 = 1000 - 895 still opens, 104 = 1000 - 896 is out of the window *)
Example dedup_window_edge : run [1000; 105; 104; 105; 1000]%Z = [0; 0; 2; 1; 1]%Z.
Proof. vm_compute. reflexivity. Qed.
