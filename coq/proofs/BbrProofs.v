(* Proofs about the BBR window assignments and in-flight counter (model/Bbr.v). *)
From SQ Require Import lib.Base gen.Gen_C10 model.Cubic model.Bbr proofs.CubicProofs.
Local Open Scope N_scope.

Lemma bbr_min_pipe_is_4 : bbr_min_pipe_cwnd_packets = 4.
Proof. reflexivity. Qed.

Lemma bbr_min_window_eq : forall m, bbr_min_window m = 4 * m.
Proof. reflexivity. Qed.

(* the u32 product of minimum_window cannot overflow for any datagram size a u16 can hold *)
Lemma bbr_min_window_no_overflow : forall m, m < 65536 -> bbr_min_window_checked m = Some (4 * m).
Proof.
  intros m H. unfold bbr_min_window_checked, bbr_min_pipe_cwnd_packets, u32_max.
  destruct (N.leb_spec (4 * m) 4294967295); [reflexivity|lia].
Qed.

Lemma bbr_initial_window_rfc : forall m,
  bbr_initial_window m = N.max (N.min (10 * m) (N.max 14720 (2 * m))) (4 * m).
Proof. reflexivity. Qed.

Lemma clamp_ge : forall x lo hi, lo <= hi -> lo <= clamp x lo hi /\ clamp x lo hi <= hi.
Proof.
  intros x lo hi H. unfold clamp. destruct (N.ltb_spec x lo); [lia|]. destruct (N.ltb_spec hi x); lia.
Qed.

Lemma bound_ge_min : forall m o, bbr_min_window m <= bound_cwnd_for_model m o.
Proof. intros. unfold bound_cwnd_for_model. apply N.le_max_r. Qed.

(* bbr_floor at each of the places that assign cwnd; no hypothesis on the oracle values *)
Theorem bbr_floor_set_cwnd : forall cwnd m acked o c', bbr_set_cwnd cwnd m acked o = Some c' ->
  bbr_min_window m <= c' /\ c' <= bound_cwnd_for_model m o.
Proof.
  intros cwnd m acked o c' H. unfold bbr_set_cwnd in H.
  match type of H with (if ?c then _ else _) = _ => destruct c; [discriminate|] end.
  injection H as <-. apply clamp_ge. apply bound_ge_min.
Qed.

Theorem bbr_floor_restore_cwnd : forall cwnd prior m, bbr_min_window m <= cwnd ->
  bbr_min_window m <= bbr_restore_cwnd cwnd prior.
Proof. intros. unfold bbr_restore_cwnd. lia. Qed.

Theorem bbr_floor_mtu : forall raw m, bbr_min_window m <= bbr_mtu_cwnd raw m.
Proof. intros. unfold bbr_mtu_cwnd, bbr_initial_window. lia. Qed.

Theorem bbr_floor_init : forall m, bbr_min_window m <= bcwnd (binit m).
Proof. intros. cbn [binit bcwnd]. unfold bbr_initial_window. lia. Qed.

(* set_cwnd grows the window by at most the newly acknowledged bytes, and reports overflow of the
   unchecked addition exactly when cwnd + newly_acked exceeds u32 in the branch that adds *)
Theorem bbr_set_cwnd_envelope : forall cwnd m acked o c', bbr_set_cwnd cwnd m acked o = Some c' ->
  c' <= N.max (cwnd + acked) (bbr_min_window m).
Proof.
  intros cwnd m acked o c' H. unfold bbr_set_cwnd in H.
  match type of H with (if ?c then _ else _) = _ => destruct c eqn:E; [discriminate|] end.
  injection H as <-.
  set (c1 := if filled_pipe o then _ else _) in *.
  assert (C1 : c1 <= cwnd + acked).
  { unfold c1. destruct (filled_pipe o).
    - destruct (N.leb_spec (max_inflight o) (N.min (cwnd + acked) u32_max)); lia.
    - destruct ((cwnd <? max_inflight o) || delivered_small o); lia. }
  set (c2 := if probing_rtt o then _ else _).
  assert (C2 : c2 <= c1) by (unfold c2; destruct (probing_rtt o); lia).
  unfold clamp. destruct (N.ltb_spec c2 (bbr_min_window m)); [lia|].
  destruct (N.ltb_spec (bound_cwnd_for_model m o) c2); lia.
Qed.

Theorem bbr_set_cwnd_no_overflow_guard : forall cwnd m acked o, cwnd + acked <= u32_max ->
  bbr_set_cwnd cwnd m acked o <> None.
Proof.
  intros cwnd m acked o G. unfold bbr_set_cwnd.
  match goal with |- (if ?c then _ else _) <> _ => destruct c eqn:E; [|discriminate] end.
  exfalso. apply N.ltb_lt in E.
  destruct (filled_pipe o).
  - destruct (N.leb_spec (max_inflight o) (N.min (cwnd + acked) u32_max)); lia.
  - destruct ((cwnd <? max_inflight o) || delivered_small o); lia.
Qed.

(* ---- histories of the executable model (arbitrary answers) ---- *)
Fixpoint bsteps (s : bstate) (l : list (op * N)) : option bstate :=
  match l with
  | [] => Some s
  | (o, a) :: t => match bstep s o a with Some s' => bsteps s' t | None => None end
  end.

Definition binv (s : bstate) : Prop := bbr_min_window (bmds s) <= bcwnd s.

Lemma bstep_floor : forall s o a s', binv s -> bstep s o a = Some s' -> binv s'.
Proof.
  intros s o a s' I H. unfold binv in *. unfold bstep in H.
  destruct o as [bytes app|bytes st now|bytes pers now|now|m|bytes|].
  - destruct (bytes =? 0); [injection H as <-; exact I|].
    destruct (u32_max <? bbif s + bytes); [discriminate|]. injection H as <-. exact I.
  - destruct (bbif s <? bytes); [discriminate|]. injection H as <-. cbn [bmds bcwnd]. lia.
  - destruct ((bytes =? 0) || (bbif s <? bytes)); [discriminate|]. injection H as <-. exact I.
  - injection H as <-. exact I.
  - injection H as <-. cbn [bmds bcwnd]. apply bbr_floor_mtu.
  - destruct (bbif s <? bytes); [discriminate|]. injection H as <-. exact I.
  - injection H as <-. exact I.
Qed.

Theorem bbr_floor : forall l m s', bsteps (binit m) l = Some s' -> 4 * bmds s' <= bcwnd s'.
Proof.
  intros l m s' H. change (binv s').
  assert (G : forall l s, binv s -> bsteps s l = Some s' -> binv s').
  { clear. induction l as [|[o a] t IH]; intros s I H; cbn [bsteps] in H.
    - injection H as <-. exact I.
    - destruct (bstep s o a) as [s1|] eqn:E; [|discriminate]. apply (IH s1); [eapply bstep_floor; eassumption|exact H]. }
  apply (G l (binit m)); [apply bbr_floor_init|exact H].
Qed.

Lemma bstep_bif : forall s o a s', bstep s o a = Some s' ->
  bbif s' + removed_of o = bbif s + sent_of o /\ (bbif s <= u32_max -> bbif s' <= u32_max).
Proof.
  intros s o a s' H. unfold bstep in H.
  destruct o as [bytes app|bytes st now|bytes pers now|now|m|bytes|]; cbn [removed_of sent_of].
  - destruct (N.eqb_spec bytes 0); [injection H as <-; lia|].
    destruct (N.ltb_spec u32_max (bbif s + bytes)); [discriminate|]. injection H as <-. cbn [bbif]. lia.
  - destruct (N.ltb_spec (bbif s) bytes); [discriminate|]. injection H as <-. cbn [bbif]. lia.
  - destruct ((bytes =? 0) || (bbif s <? bytes)) eqn:G; [discriminate|].
    apply orb_false_iff in G. destruct G as [_ G]. apply N.ltb_ge in G. injection H as <-. cbn [bbif]. lia.
  - injection H as <-. lia.
  - injection H as <-. cbn [bbif]. lia.
  - destruct (N.ltb_spec (bbif s) bytes); [discriminate|]. injection H as <-. cbn [bbif]. lia.
  - injection H as <-. lia.
Qed.

Theorem bbr_bif_matches_outstanding : forall l s s', bsteps s l = Some s' ->
  bbif s' + total removed_of l = bbif s + total sent_of l /\ (bbif s <= u32_max -> bbif s' <= u32_max).
Proof.
  induction l as [|[o a] t IH]; intros s s' H; cbn [bsteps total] in *.
  - injection H as <-. lia.
  - destruct (bstep s o a) as [s1|] eqn:E; [|discriminate].
    destruct (bstep_bif _ _ _ _ E) as [A B]. destruct (IH _ _ H) as [C D]. split; [lia|auto].
Qed.

Lemma bstep_some_iff : forall s o a, op_valid (bbif s) o = true <-> bstep s o a <> None.
Proof.
  intros s o a. unfold op_valid, bstep. destruct o as [bytes app|bytes st now|bytes pers now|now|m|bytes|].
  - destruct (N.eqb_spec bytes 0); cbn [orb]; [split; [discriminate|reflexivity]|].
    destruct (N.ltb_spec u32_max (bbif s + bytes)); destruct (N.leb_spec (bbif s + bytes) u32_max); try lia;
      split; try discriminate; try congruence.
  - destruct (N.ltb_spec (bbif s) bytes); destruct (N.leb_spec bytes (bbif s)); try lia; split; try discriminate; congruence.
  - destruct (N.eqb_spec bytes 0); cbn [orb negb andb]; [split; [discriminate|congruence]|].
    destruct (N.ltb_spec (bbif s) bytes); destruct (N.leb_spec bytes (bbif s)); try lia;
      split; try discriminate; congruence.
  - split; [discriminate|reflexivity].
  - split; [discriminate|reflexivity].
  - destruct (N.ltb_spec (bbif s) bytes); destruct (N.leb_spec bytes (bbif s)); try lia; split; try discriminate; congruence.
  - split; [discriminate|reflexivity].
Qed.

(* ---- the judgement accepts every replay of the model ---- *)
Fixpoint breplay_ok (s : bstate) (ops : list op) (rows : list Z) : Prop :=
  match ops with
  | [] => True
  | o :: t =>
      let '(a, rows') := bnext_answer rows in
      match bstep s o a with
      | Some s' => bcwnd s' < u32_max /\ breplay_ok s' t rows'
      | None => True
      end
  end.

Lemma bjudge_replay_from : forall ops s j rows, bjm j = bmds s -> bjb j = bbif s -> binv s ->
  breplay_ok s ops rows -> bjudge_from j ops (breplay_from s ops rows) = true.
Proof.
  induction ops as [|o t IH]; intros s j rows Em Eb I K; cbn [bjudge_from breplay_from breplay_ok] in *.
  - reflexivity.
  - destruct (bnext_answer rows) as [a rows'].
    assert (V : bjvalid j o = op_valid (bbif s) o) by (unfold bjvalid, op_valid; rewrite Eb; destruct o; reflexivity).
    destruct (bjvalid j o) eqn:V1; cbn [negb]; [|reflexivity].
    symmetry in V. apply (bstep_some_iff s o a) in V.
    destruct (bstep s o a) as [s'|] eqn:E; [|congruence]. destruct K as [W K].
    pose proof (bstep_floor _ _ _ _ I E) as I'. pose proof (bstep_bif _ _ _ _ E) as [B _].
    unfold brow. cbn [app].
    assert (Z1 : (Nz (bcwnd s') <? 0)%Z = false) by (apply Z.ltb_ge; unfold Nz; lia).
    assert (Z2 : (Nz (bbif s') <? 0)%Z = false) by (apply Z.ltb_ge; unfold Nz; lia).
    rewrite Z1, Z2. cbn [orb]. unfold zN, Nz. rewrite !N2Z.id.
    assert (M : match o with Mtu m => m | _ => bjm j end = bmds s').
    { unfold bstep in E. destruct o as [bytes app|bytes st now|bytes pers now|now|m|bytes|];
        repeat match type of E with (if ?c then _ else _) = _ => destruct c; try discriminate end;
        injection E as <-; cbn [bmds]; congruence. }
    assert (Bq : match o with
                 | Sent bytes _ => bjb j + bytes
                 | Ack bytes _ _ | Lost bytes _ _ | Discard bytes => bjb j - bytes
                 | _ => bjb j end = bbif s').
    { rewrite Eb. destruct o; cbn [sent_of removed_of] in B; lia. }
    unfold bjstep. rewrite M, Bq. unfold binv in I'.
    assert (T1 : (bbr_min_window (bmds s') <=? bcwnd s') = true) by (apply N.leb_le; exact I').
    assert (T2 : (bcwnd s' <? u32_max) = true) by (apply N.ltb_lt; exact W).
    rewrite T1, T2, N.eqb_refl. cbn [andb].
    apply (IH s'); cbn [bjm bjb]; auto.
Qed.

Theorem bbr_judge_replay : forall m t rows, (0 <= m < 65536)%Z ->
  breplay_ok (binit (zN m)) (decode 0 t) (snd (bnext_answer rows)) ->
  Bbr.judge (m :: t) (breplay (m :: t) rows) = true.
Proof.
  intros m t rows M K. unfold Bbr.judge, breplay.
  assert (M' : zN m < 65536) by (unfold zN; lia).
  set (s := binit (zN m)) in *. unfold brow. cbn [app].
  assert (W : bcwnd s = bbr_initial_window (zN m)) by reflexivity.
  assert (A : 4 * zN m <= bcwnd s /\ bcwnd s <= 10 * zN m).
  { rewrite W. rewrite bbr_initial_window_rfc. lia. }
  assert (Z1 : (0 <=? Nz (bcwnd s))%Z = true) by (apply Z.leb_le; unfold Nz; lia).
  rewrite Z1. unfold zN at 2 3 4, Nz. rewrite !N2Z.id. rewrite bbr_min_window_eq.
  assert (Z2 : (4 * zN m <=? bcwnd s) = true) by (apply N.leb_le; lia).
  assert (Z3 : (bcwnd s <? u32_max) = true) by (apply N.ltb_lt; unfold u32_max; lia).
  rewrite Z2, Z3. cbn [andb bbif s binit]. change (Z.of_N 0 =? 0)%Z with true. cbn [andb].
  apply (bjudge_replay_from _ s); cbn [bjm bjb]; auto.
  apply bbr_floor_init.
Qed.
