(* Proofs about the BBR window assignments, the discrete state and the in-flight counter (model/Bbr.v). *)
From SQ Require Import lib.Base gen.Gen_C10 model.Cubic model.Bbr proofs.Round24 proofs.CubicProofs.
Local Open Scope N_scope.

Lemma bbr_min_pipe_is_4 : bbr_min_pipe_cwnd_packets = 4.
Proof. reflexivity. Qed.
Lemma bbr_headroom_is_85_percent : bbr_headroom_num = 85 /\ bbr_headroom_den = 100.
Proof. split; reflexivity. Qed.

Lemma bbr_min_window_eq : forall m, bbr_min_window m = 4 * m.
Proof. reflexivity. Qed.

(* the u32 product of minimum_window cannot overflow for any datagram size a u16 can hold *)
Lemma bbr_min_window_no_overflow : forall m, m < 65536 -> bbr_min_window_checked m = Some (4 * m).
Proof.
  intros m H. unfold bbr_min_window_checked, bbr_min_pipe_cwnd_packets, u32_max.
  destruct (N.leb_spec (4 * m) 4294967295); [reflexivity|lia].
Qed.

Lemma bbr_initial_window_rfc : forall m,
  bbr_initial_window m = N.max (N.min (10 * m) (N.max 14720 (2 * m))) (4 * m).
Proof. reflexivity. Qed.

Lemma clamp_ge : forall x lo hi, lo <= hi -> lo <= clamp x lo hi /\ clamp x lo hi <= hi.
Proof.
  intros x lo hi H. unfold clamp. destruct (N.ltb_spec x lo); [lia|]. destruct (N.ltb_spec hi x); lia.
Qed.

Lemma bound_ge_min : forall m o, bbr_min_window m <= bound_cwnd_for_model m o.
Proof. intros. unfold bound_cwnd_for_model. apply N.le_max_r. Qed.

(* bbr_floor at each of the places that assign cwnd; no hypothesis on the oracle values *)
Theorem bbr_floor_set_cwnd : forall cwnd m acked o c', bbr_set_cwnd cwnd m acked o = Some c' ->
  bbr_min_window m <= c' /\ c' <= bound_cwnd_for_model m o.
Proof.
  intros cwnd m acked o c' H. unfold bbr_set_cwnd in H.
  match type of H with (if ?c then _ else _) = _ => destruct c; [discriminate|] end.
  injection H as <-. apply clamp_ge. apply bound_ge_min.
Qed.

Theorem bbr_floor_restore_cwnd : forall cwnd prior m, bbr_min_window m <= cwnd ->
  bbr_min_window m <= bbr_restore_cwnd cwnd prior.
Proof. intros. unfold bbr_restore_cwnd. lia. Qed.

Theorem bbr_floor_mtu : forall raw m, bbr_min_window m <= bbr_mtu_cwnd raw m.
Proof. intros. unfold bbr_mtu_cwnd, bbr_initial_window. lia. Qed.

Theorem bbr_floor_init : forall m, bbr_min_window m <= bcwnd (binit m).
Proof. intros. cbn [binit bcwnd]. unfold bbr_initial_window. lia. Qed.

Lemma max_inflight_ge : forall m o, m < 65536 -> bbr_min_window m <= max_inflight m o.
Proof.
  intros m o M. unfold max_inflight. rewrite bbr_min_window_eq. unfold u32_max.
  destruct (probing_up o); lia.
Qed.
Lemma probe_rtt_cwnd_ge : forall m o, bbr_min_window m <= probe_rtt_cwnd m o.
Proof. intros. unfold probe_rtt_cwnd. apply N.le_max_r. Qed.

(* the lower bound of the final `.clamp(minimum_window, bound_cwnd_for_model)` never binds:
   max_inflight (quantization_budget), probe_rtt_cwnd and bound_cwnd_for_model each apply the
   minimum window themselves, and the window they start from is at least the minimum.  Halving
   or removing that lower bound alone therefore cannot change any window. *)
Theorem bbr_lower_clamp_redundant : forall cwnd m acked o c', m < 65536 -> bbr_min_window m <= cwnd ->
  bbr_set_cwnd cwnd m acked o = Some c' -> c' = bbr_set_cwnd_unclamped cwnd m acked o.
Proof.
  intros cwnd m acked o c' M F H. unfold bbr_set_cwnd in H. unfold bbr_set_cwnd_unclamped.
  set (c1 := if filled_pipe o then _ else _) in *.
  match type of H with (if ?c then _ else _) = _ => destruct c; [discriminate|] end.
  injection H as <-.
  pose proof (max_inflight_ge m o M) as MI. pose proof (probe_rtt_cwnd_ge m o) as PR.
  pose proof (bound_ge_min m o) as BD.
  assert (U : bbr_min_window m <= u32_max) by (rewrite bbr_min_window_eq; unfold u32_max; lia).
  assert (C1 : bbr_min_window m <= c1).
  { unfold c1. destruct (filled_pipe o).
    - destruct (N.leb_spec (max_inflight m o) (N.min (cwnd + acked) u32_max)); lia.
    - destruct ((cwnd <? max_inflight m o) || delivered_small o); lia. }
  set (c2 := if probing_rtt o then _ else _).
  assert (C2 : bbr_min_window m <= c2) by (unfold c2; destruct (probing_rtt o); lia).
  unfold clamp. destruct (N.ltb_spec c2 (bbr_min_window m)); [lia|].
  destruct (N.ltb_spec (bound_cwnd_for_model m o) c2); lia.
Qed.

(* set_cwnd grows the window by at most the newly acknowledged bytes *)
Theorem bbr_set_cwnd_envelope : forall cwnd m acked o c', bbr_set_cwnd cwnd m acked o = Some c' ->
  c' <= N.max (cwnd + acked) (bbr_min_window m).
Proof.
  intros cwnd m acked o c' H. unfold bbr_set_cwnd in H.
  match type of H with (if ?c then _ else _) = _ => destruct c eqn:E; [discriminate|] end.
  injection H as <-.
  set (c1 := if filled_pipe o then _ else _) in *.
  assert (C1 : c1 <= cwnd + acked).
  { unfold c1. destruct (filled_pipe o).
    - destruct (N.leb_spec (max_inflight m o) (N.min (cwnd + acked) u32_max)); lia.
    - destruct ((cwnd <? max_inflight m o) || delivered_small o); lia. }
  set (c2 := if probing_rtt o then _ else _).
  assert (C2 : c2 <= c1) by (unfold c2; destruct (probing_rtt o); lia).
  unfold clamp. destruct (N.ltb_spec c2 (bbr_min_window m)); [lia|].
  destruct (N.ltb_spec (bound_cwnd_for_model m o) c2); lia.
Qed.

Theorem bbr_set_cwnd_no_overflow_guard : forall cwnd m acked o, cwnd + acked <= u32_max ->
  bbr_set_cwnd cwnd m acked o <> None.
Proof.
  intros cwnd m acked o G. unfold bbr_set_cwnd.
  match goal with |- (if ?c then _ else _) <> _ => destruct c eqn:E; [|discriminate] end.
  exfalso. apply N.ltb_lt in E.
  destruct (filled_pipe o).
  - destruct (N.leb_spec (max_inflight m o) (N.min (cwnd + acked) u32_max)); lia.
  - destruct ((cwnd <? max_inflight m o) || delivered_small o); lia.
Qed.

(* bound_cwnd_for_model as computed from the state kind and the two inflight bounds *)
Lemma bound_of_ge : forall k hi lo m, bbr_min_window m <= bound_of k hi lo m.
Proof. intros. unfold bound_of. apply N.le_max_r. Qed.

(* ---- histories of the executable model: operations with their time and the oracle's answer ---- *)
Fixpoint bsteps (s : bstate) (l : list (op * N * banswer)) : option bstate :=
  match l with
  | [] => Some s
  | (o, now, a) :: t => match bstep s o a with Some s' => bsteps (note_sent s' o now) t | None => None end
  end.

Definition binv (s : bstate) : Prop := bbr_min_window (bmds s) <= bcwnd s.

Lemma note_sent_proj : forall s o now, bmds (note_sent s o now) = bmds s /\ bcwnd (note_sent s o now) = bcwnd s
  /\ bbif (note_sent s o now) = bbif s /\ bprior (note_sent s o now) = bprior s /\ bdeliv (note_sent s o now) = bdeliv s.
Proof. intros s o now. destruct o; repeat split; reflexivity. Qed.

Ltac bstep_cases H :=
  unfold bstep in H;
  repeat match type of H with
  | (if ?c then _ else _) = _ => let E := fresh "E" in destruct c eqn:E; try discriminate
  | (let '(_, _) := ?c in _) = _ => let q := fresh "q" in let h := fresh "h" in destruct c as [q h]
  | match ?c with Some _ => _ | None => _ end = _ => let t := fresh "t" in destruct c as [t|]
  end.

Lemma bstep_floor : forall s o a s', binv s -> bstep s o a = Some s' -> binv s'.
Proof.
  intros s o a s' I H. unfold binv in *.
  destruct o as [bytes app snow|bytes st now|bytes pers now|now|m|bytes|ust unow urtt|]; bstep_cases H;
    try (injection H as <-; cbn [bmds bcwnd]; try exact I; try lia; fail).
  - injection H as <-. cbn [bmds bcwnd].
    match goal with |- _ <= (if ?c then _ else _) => destruct c end; [|lia].
    match goal with |- _ <= (if ?c then _ else _) => destruct c end; lia.
  - injection H as <-. cbn [bmds bcwnd]. apply bbr_floor_mtu.
Qed.

Theorem bbr_floor : forall l m s', bsteps (binit m) l = Some s' -> 4 * bmds s' <= bcwnd s'.
Proof.
  intros l m s' H. change (binv s').
  assert (G : forall l s, binv s -> bsteps s l = Some s' -> binv s').
  { clear. induction l as [|[[o now] a] t IH]; intros s I H; cbn [bsteps] in H.
    - injection H as <-. exact I.
    - destruct (bstep s o a) as [s1|] eqn:E; [|discriminate]. apply (IH (note_sent s1 o now)); [|exact H].
      unfold binv. destruct (note_sent_proj s1 o now) as (A & B & _). rewrite A, B.
      eapply bstep_floor; eassumption. }
  apply (G l (binit m)); [apply bbr_floor_init|exact H].
Qed.

(* the packet queue the harness keeps holds exactly the bytes in flight, so an acknowledgement of
   at least one byte always finds a packet *)
Fixpoint qsum (q : list (N * N)) : N := match q with [] => 0 | (b, _) :: r => b + qsum r end.

Lemma take_some : forall q n h, 0 < n -> 0 < qsum q -> (forall b t, In (b, t) q -> 0 < b) ->
  snd (take q n h) <> None.
Proof.
  induction q as [|[b t] r IH]; intros n h N0 Q P; cbn [take qsum] in *; [lia|].
  destruct (N.eqb_spec n 0); [lia|]. destruct (N.ltb_spec n b); cbn [snd]; [discriminate|].
  destruct (N.eq_dec (n - b) 0) as [Z|Z].
  - rewrite Z. destruct r as [|[b2 t2] r2]; cbn [take snd]; [discriminate|]. cbn [N.eqb]. discriminate.
  - destruct r as [|x r2]; [cbn [take snd]; discriminate|].
    apply IH; [lia| |intros; apply (P b0 t0); right; assumption].
    destruct x as [b2 t2]. cbn [qsum]. assert (0 < b2) by (apply (P b2 t2); right; left; reflexivity). lia.
Qed.

(* ---- saturation: the window stays below 2^31 when at most 2^30 bytes are sent in the history
        and every on_mtu_update leaves a window of at most 2^30 ---- *)
Definition CAP0 : N := 1073741824.   (* 2^30 *)

Definition bsat (s : bstate) (S : N) : Prop :=
  N.max (bcwnd s) (bprior s) <= CAP0 + bdeliv s /\ bdeliv s + bbif s <= S /\ bmds s < 65536.

Definition mtu_step_ok (o : op) (s' : bstate) : Prop :=
  match o with Mtu m => m < 65536 /\ bcwnd s' <= CAP0 | _ => True end.

Lemma bstep_sat : forall s o a s' S, bsat s S -> bstep s o a = Some s' -> mtu_step_ok o s' ->
  bsat s' (S + sent_of o).
Proof.
  intros s o a s' S (A & B & M) H K. unfold bsat in *.
  assert (MW : bbr_min_window (bmds s) <= CAP0) by (rewrite bbr_min_window_eq; unfold CAP0; lia).
  destruct o as [bytes app snow|bytes st now|bytes pers now|now|m|bytes|ust unow urtt|]; cbn [sent_of]; bstep_cases H;
    try (injection H as <-; cbn [bmds bcwnd bprior bdeliv bbif]; repeat split; try lia; fail).
  - (* Ack *)
    injection H as <-. cbn [bmds bcwnd bprior bdeliv bbif]. apply N.ltb_ge in E.
    set (k' := if legal_ack _ _ _ then _ else _) in *.
    set (p' := if negb (bkind s =? 6) && (k' =? 6) then _ else _) in *.
    set (restored := if (bkind s =? 6) && negb (k' =? 6) then _ else _) in *.
    assert (P : p' <= CAP0 + bdeliv s) by (unfold p'; destruct (negb (bkind s =? 6) && (k' =? 6)); lia).
    assert (R : restored <= CAP0 + bdeliv s) by (unfold restored; destruct ((bkind s =? 6) && negb (k' =? 6)); lia).
    repeat split; try lia.
    match goal with |- N.max (if ?c then _ else _) _ <= _ => destruct c end; lia.
  - (* Mtu *)
    injection H as E. cbn in K. destruct K as [K1 K2]. subst s'. cbn [bmds bcwnd bprior bdeliv bbif] in *.
    repeat split; try lia.
Qed.

(* ---- the judgement accepts every replay of the model ---- *)
Fixpoint sent_ops (ops : list op) : N := match ops with [] => 0 | o :: t => sent_of o + sent_ops t end.

(* visible hypothesis on the replay: datagram sizes fit a u16 and every on_mtu_update leaves a
   window of at most 2^30 (the rescale is computed by the model, this is not an oracle) *)
Fixpoint breplay_ok (s : bstate) (ops : list op) (ts : list N) (rows : list Z) : Prop :=
  match ops with
  | [] => True
  | o :: t =>
      let '(a, rows') := bnext_answer rows in
      match bstep s o a with
      | Some s' => mtu_step_ok o s' /\ breplay_ok (note_sent s' o (hd 0 ts)) t (tl ts) rows'
      | None => True
      end
  end.

(* the harness-side queue holds the bytes in flight, in packets of positive size *)
Definition qinv (s : bstate) : Prop :=
  qsum (bq s) = bbif s /\ (forall b t, In (b, t) (bq s) -> 0 < b).

Lemma take_qsum : forall q n h, n <= qsum q -> (forall b t, In (b, t) q -> 0 < b) ->
  qsum (fst (take q n h)) = qsum q - n /\ (forall b t, In (b, t) (fst (take q n h)) -> 0 < b).
Proof.
  induction q as [|[b t] r IH]; intros n h L P; cbn [take qsum] in *.
  - cbn [fst qsum]. split; [lia|intros ? ? []].
  - destruct (N.eqb_spec n 0).
    + cbn [fst qsum]. split; [lia|exact P].
    + destruct (N.ltb_spec n b); cbn [fst qsum].
      * split; [lia|]. intros b0 t0 [Q|Q]; [injection Q as <- <-; lia|apply (P b0 t0); right; exact Q].
      * destruct (IH (n - b) (Some t)) as [A B]; [lia|intros; apply (P b0 t0); right; assumption|].
        split; [rewrite A; lia|exact B].
Qed.

Lemma bstep_qinv : forall s o a s' now, qinv s -> bstep s o a = Some s' -> qinv (note_sent s' o now).
Proof.
  intros s o a s' now [Q P] H. unfold qinv.
  destruct o as [bytes ap snow|bytes st tnow|bytes pers tnow|tnow|m|bytes|ust unow urtt|].
  - bstep_cases H. injection H as <-. cbn [note_sent bq bbif].
    destruct (N.eqb_spec bytes 0) as [Z|Z].
    + subst bytes. split; [lia|exact P].
    + split.
      * assert (G : forall q, qsum (q ++ [(bytes, now)]) = qsum q + bytes).
        { induction q as [|[b t] r IHq]; cbn [app qsum]; [lia|rewrite IHq; lia]. }
        rewrite G. lia.
      * intros b t I. apply in_app_or in I. destruct I as [I|[I|[]]]; [apply (P b t I)|injection I as <- <-; lia].
  - unfold bstep in H. destruct (take (bq s) bytes None) as [q' hit] eqn:T.
    destruct (match hit with Some t => Some t | None => blast s end) as [st0|]; [|injection H as <-; split; assumption].
    destruct (N.ltb_spec (bbif s) bytes); [discriminate|]. injection H as <-. cbn [note_sent bq bbif].
    destruct (take_qsum (bq s) bytes None) as [A B]; [lia|exact P|]. rewrite T in A, B. cbn [fst] in A, B.
    split; [lia|exact B].
  - unfold bstep in H. destruct ((bytes =? 0) || (bbif s <? bytes)) eqn:E; [discriminate|].
    apply orb_false_iff in E. destruct E as [_ E]. apply N.ltb_ge in E.
    destruct (take (bq s) bytes None) as [q' hit] eqn:T. injection H as <-. cbn [note_sent bq bbif].
    destruct (take_qsum (bq s) bytes None) as [A B]; [lia|exact P|]. rewrite T in A, B. cbn [fst] in A, B.
    split; [lia|exact B].
  - bstep_cases H. injection H as <-. split; assumption.
  - bstep_cases H. injection H as <-. split; assumption.
  - unfold bstep in H. destruct (N.ltb_spec (bbif s) bytes); [discriminate|].
    destruct (take (bq s) bytes None) as [q' hit] eqn:T. injection H as <-. cbn [note_sent bq bbif].
    destruct (take_qsum (bq s) bytes None) as [A B]; [lia|exact P|]. rewrite T in A, B. cbn [fst] in A, B.
    split; [lia|exact B].
  - bstep_cases H. injection H as <-. split; assumption.
  - bstep_cases H. injection H as <-. split; assumption.
Qed.

Lemma bstep_valid_some : forall s o a, op_valid (bbif s) o = true -> bstep s o a <> None.
Proof.
  intros s o a V. unfold op_valid in V. unfold bstep.
  destruct o as [bytes app snow|bytes st now|bytes pers now|now|m|bytes|ust unow urtt|]; try discriminate.
  - destruct (N.eqb_spec bytes 0); cbn [orb negb andb] in *; [discriminate|].
    apply N.leb_le in V. destruct (N.ltb_spec u32_max (bbif s + bytes)); [lia|discriminate].
  - apply N.leb_le in V. destruct (take (bq s) bytes None) as [q' hit].
    destruct (match hit with Some t => Some t | None => blast s end); [|discriminate].
    destruct (N.ltb_spec (bbif s) bytes); [lia|discriminate].
  - apply andb_prop in V. destruct V as [V1 V2]. apply N.leb_le in V2.
    destruct (N.eqb_spec bytes 0); [discriminate|]. cbn [orb].
    destruct (N.ltb_spec (bbif s) bytes); [lia|]. destruct (take (bq s) bytes None). discriminate.
  - apply N.leb_le in V. destruct (N.ltb_spec (bbif s) bytes); [lia|]. destruct (take (bq s) bytes None). discriminate.
Qed.

Lemma bstep_bif : forall s o a s', qinv s -> op_valid (bbif s) o = true -> bstep s o a = Some s' ->
  bbif s' + removed_of o = bbif s + sent_of o /\ (bbif s <= u32_max -> bbif s' <= u32_max).
Proof.
  intros s o a s' [Q P] V H. unfold op_valid in V.
  destruct o as [bytes app snow|bytes st now|bytes pers now|now|m|bytes|ust unow urtt|]; cbn [removed_of sent_of].
  - unfold bstep in H. destruct (N.eqb_spec bytes 0) as [Z|Z]; cbn [orb negb andb] in *.
    + injection H as <-. cbn [bbif]. lia.
    + apply N.leb_le in V. destruct (N.ltb_spec u32_max (bbif s + bytes)); [discriminate|].
      injection H as <-. cbn [bbif]. lia.
  - apply N.leb_le in V. unfold bstep in H. destruct (take (bq s) bytes None) as [q' hit] eqn:T.
    destruct (match hit with Some t => Some t | None => blast s end) as [st0|] eqn:HT.
    + destruct (N.ltb_spec (bbif s) bytes); [discriminate|]. injection H as <-. cbn [bbif]. lia.
    + (* skipped by the harness: only possible for an acknowledgement of zero bytes *)
      injection H as <-. destruct hit; [discriminate|].
      destruct (N.eq_dec bytes 0) as [Z|Z]; [lia|exfalso].
      apply (take_some (bq s) bytes None); [lia|lia|exact P|]. rewrite T. reflexivity.
  - apply andb_prop in V. destruct V as [V1 V2]. apply N.leb_le in V2. unfold bstep in H.
    destruct ((bytes =? 0) || (bbif s <? bytes)); [discriminate|].
    destruct (take (bq s) bytes None). injection H as <-. cbn [bbif]. lia.
  - unfold bstep in H. injection H as <-. cbn [bbif]. lia.
  - unfold bstep in H. injection H as <-. cbn [bbif]. lia.
  - apply N.leb_le in V. unfold bstep in H. destruct (bbif s <? bytes); [discriminate|].
    destruct (take (bq s) bytes None). injection H as <-. cbn [bbif]. lia.
  - unfold bstep in H. injection H as <-. lia.
  - unfold bstep in H. injection H as <-. lia.
Qed.

(* bytes_in_flight along every valid history: sent minus acknowledged, lost and discarded *)
Fixpoint bhist_valid (b : N) (l : list (op * N * banswer)) : bool :=
  match l with
  | [] => true
  | (o, _, _) :: t => op_valid b o && bhist_valid (b + sent_of o - removed_of o) t
  end.
Fixpoint btotal (f : op -> N) (l : list (op * N * banswer)) : N :=
  match l with [] => 0 | (o, _, _) :: t => f o + btotal f t end.

Theorem bbr_bif_matches_outstanding : forall l s, qinv s -> bhist_valid (bbif s) l = true ->
  exists s', bsteps s l = Some s' /\
    bbif s' + btotal removed_of l = bbif s + btotal sent_of l /\ (bbif s <= u32_max -> bbif s' <= u32_max).
Proof.
  induction l as [|[[o now] a] t IH]; intros s Q V; cbn [bsteps bhist_valid btotal] in *.
  - exists s. repeat split; auto; lia.
  - apply andb_prop in V. destruct V as [V1 V2].
    destruct (bstep s o a) as [s1|] eqn:E; [|exfalso; eapply bstep_valid_some; eassumption].
    destruct (bstep_bif _ _ _ _ Q V1 E) as [A B].
    pose proof (bstep_qinv _ _ _ _ now Q E) as Q1.
    destruct (note_sent_proj s1 o now) as (_ & _ & N3 & _).
    replace (bbif s + sent_of o - removed_of o) with (bbif (note_sent s1 o now)) in V2 by (rewrite N3; lia).
    destruct (IH _ Q1 V2) as (s' & S1 & S2 & S3). exists s'. rewrite N3 in S2, S3. repeat split; auto; lia.
Qed.

Lemma bjudge_replay_from : forall ops s j ts rows S, bjm j = bmds s -> bjb j = bbif s -> binv s -> qinv s ->
  bsat s S -> S + sent_ops ops <= CAP0 -> breplay_ok s ops ts rows ->
  bjudge_from j ops (breplay_from s ops ts rows) = true.
Proof.
  induction ops as [|o t IH]; intros s j ts rows S Em Eb I Q J T K;
    cbn [bjudge_from breplay_from breplay_ok sent_ops] in *.
  - reflexivity.
  - destruct (bnext_answer rows) as [a rows'].
    assert (V : bjvalid j o = op_valid (bbif s) o) by (unfold bjvalid, op_valid; rewrite Eb; destruct o; reflexivity).
    destruct (bjvalid j o) eqn:V1; cbn [negb]; [|reflexivity]. symmetry in V.
    destruct (bstep s o a) as [s1|] eqn:E; [|exfalso; eapply bstep_valid_some; eassumption].
    destruct K as [K1 K].
    pose proof (bstep_floor _ _ _ _ I E) as I1. pose proof (bstep_bif _ _ _ _ Q V E) as [B _].
    pose proof (bstep_qinv _ _ _ _ (hd 0 ts) Q E) as Q1.
    pose proof (bstep_sat _ _ _ _ _ J E K1) as J1.
    set (s' := note_sent s1 o (hd 0 ts)) in *.
    destruct (note_sent_proj s1 o (hd 0 ts)) as (N1 & N2 & N3 & N4 & N5). fold s' in N1, N2, N3, N4, N5.
    assert (I' : binv s') by (unfold binv; rewrite N1, N2; exact I1).
    assert (J' : bsat s' (S + sent_of o)) by (unfold bsat in *; rewrite N1, N2, N3, N4, N5; exact J1).
    assert (W : bcwnd s' < u32_max).
    { destruct J' as (A1 & A2 & _). unfold CAP0 in *. unfold u32_max. lia. }
    unfold brow. cbn [app].
    assert (Z1 : (Nz (bcwnd s') <? 0)%Z = false) by (apply Z.ltb_ge; unfold Nz; lia).
    assert (Z2 : (Nz (bbif s') <? 0)%Z = false) by (apply Z.ltb_ge; unfold Nz; lia).
    rewrite Z1, Z2. cbn [orb]. unfold zN, Nz. rewrite !N2Z.id.
    assert (M : match o with Mtu m => m | _ => bjm j end = bmds s').
    { rewrite N1. clear - E Em. destruct o as [bytes app snow|bytes st now|bytes pers now|now|m|bytes|ust unow urtt|];
        bstep_cases E; injection E as <-; cbn [bmds]; congruence. }
    assert (Bq : match o with
                 | Sent bytes _ _ => bjb j + bytes
                 | Ack bytes _ _ | Lost bytes _ _ | Discard bytes => bjb j - bytes
                 | _ => bjb j end = bbif s').
    { rewrite Eb, N3. destruct o; cbn [sent_of removed_of] in B; lia. }
    unfold bjstep. rewrite M, Bq. unfold binv in I'.
    assert (T1 : (bbr_min_window (bmds s') <=? bcwnd s') = true) by (apply N.leb_le; exact I').
    assert (T2 : (bcwnd s' <? u32_max) = true) by (apply N.ltb_lt; exact W).
    rewrite T1, T2, N.eqb_refl. cbn [andb].
    apply (IH s' _ _ _ (S + sent_of o)); cbn [bjm bjb]; auto. lia.
Qed.

(* the judgement accepts every replay of the model when at most 2^30 bytes are sent in the
   history, for every sequence of oracle answers (no per-step hypothesis on the window) *)
Theorem bbr_judge_replay : forall m t rows, (0 <= m < 65536)%Z ->
  sent_ops (decode 0 t) <= CAP0 ->
  breplay_ok (binit (zN m)) (decode 0 t) (times 0 t) (snd (bnext_answer rows)) ->
  Bbr.judge (m :: t) (breplay (m :: t) rows) = true.
Proof.
  intros m t rows M T K. unfold Bbr.judge, breplay.
  assert (M' : zN m < 65536) by (unfold zN; lia).
  set (s := binit (zN m)) in *. unfold brow. cbn [app].
  assert (W : bcwnd s = bbr_initial_window (zN m)) by reflexivity.
  assert (A : 4 * zN m <= bcwnd s /\ bcwnd s <= 10 * zN m).
  { rewrite W. rewrite bbr_initial_window_rfc. lia. }
  assert (Z1 : (0 <=? Nz (bcwnd s))%Z = true) by (apply Z.leb_le; unfold Nz; lia).
  rewrite Z1. unfold zN at 2 3 4, Nz. rewrite !N2Z.id. rewrite bbr_min_window_eq.
  assert (Z2 : (4 * zN m <=? bcwnd s) = true) by (apply N.leb_le; lia).
  assert (Z3 : (bcwnd s <? u32_max) = true) by (apply N.ltb_lt; unfold u32_max; lia).
  rewrite Z2, Z3. cbn [andb bbif s binit]. change (Z.of_N 0 =? 0)%Z with true. cbn [andb].
  apply (bjudge_replay_from _ s _ _ _ 0); cbn [bjm bjb]; auto.
  - apply bbr_floor_init.
  - split; [reflexivity|intros ? ? []].
  - unfold bsat, s. cbn [binit bcwnd bprior bdeliv bbif bmds]. rewrite bbr_initial_window_rfc. unfold CAP0. repeat split; lia.
Qed.
